import Proofs.Lemmas.ForkChoicePass1
import Proofs.Lemmas.ForkChoiceLinks
import Proofs.Lemmas.ForkChoiceInsert
import Proofs.Lemmas.ForkChoiceDeltas
import Proofs.Lemmas.ForkChoiceChain
/-!
# Fork choice: the weights invariant

`WeightsAre pr votes bals`: the weight of node `i` is the sum, over the validators `k` whose applied vote
`votes[k].cur` is a node in the fork-choice subtree of `i`, of `bals[k]` (`wsum pr votes bals i`).

How each operation of the code-shaped model treats it:

* `weights_applyDeltas`: `ComputeDeltas` followed by `ApplyScoreChanges` re-establishes it for the updated votes
  and the new balances (and never errs or panics on a well-formed array).
* `votesIn_computeDeltas`: `ComputeDeltas` only applies votes for nodes of the array.
* `voteProcess_weights`, `voteProcess_votesIn`: `ProcessAttestation` never touches an applied vote.
* `weights_grow`, `noZero_grow`: insertions (`ProcessSlot`, `ProcessBlock`, see `Grow`) append leaves of weight 0
  below which no applied vote lies, and keep the subtree membership of old nodes.
* `weights_frame`, `votesIn_frame`, `votesIn_frameS`, `noZero_frame`, `noZero_frameS`: link maintenance
  (`Frame`) keeps everything.

Tools: `wsumFrom_congr`, `wsumFrom_zero`, `wsumFrom_cur`, `wsumFrom_append`, `appliedIn_frameS`, `wsum_frameS`,
`subSum_replicate_zero`, `PReach.congr_below`, `Grow.fpar_old`, `Grow.anc_old`, `Grow.applied_old`,
`Grow.applied_new`, `voteProcess_def`, `weightsAre_of_lt`.
-/
namespace Zrnt.ForkChoice

/-! ## `wsumFrom` depends on `appliedIn` only -/

theorem wsumFrom_congr (pr pr' : PA) (bals : List Nat) (i : Nat) :
    ∀ (vs : List Vote) (k : Nat), (∀ v ∈ vs, appliedIn pr' i v = appliedIn pr i v) →
      wsumFrom pr' bals i k vs = wsumFrom pr bals i k vs := by
  intro vs
  induction vs with
  | nil => intro k _; rfl
  | cons v vs ih =>
    intro k h
    simp only [wsumFrom]
    rw [h v (List.mem_cons_self ..), ih (k + 1) (fun w hw => h w (List.mem_cons_of_mem _ hw))]

theorem wsumFrom_zero (pr : PA) (bals : List Nat) (i : Nat) :
    ∀ (vs : List Vote) (k : Nat), (∀ v ∈ vs, appliedIn pr i v = false) → wsumFrom pr bals i k vs = 0 := by
  intro vs
  induction vs with
  | nil => intro k _; rfl
  | cons v vs ih =>
    intro k h
    simp only [wsumFrom]
    rw [h v (List.mem_cons_self ..), ih (k + 1) (fun w hw => h w (List.mem_cons_of_mem _ hw))]
    simp

theorem appliedIn_frameS {pr pr' : PA} (f : FrameS pr pr') (i : Nat) (v : Vote) :
    appliedIn pr' i v = appliedIn pr i v := by
  unfold appliedIn
  rw [f.indices]
  cases aGet pr.indices v.cur with
  | none => rfl
  | some j => exact f.anc i j

theorem wsum_frameS {pr pr' : PA} (f : FrameS pr pr') (votes : List Vote) (bals : List Nat) (i : Nat) :
    wsum pr' votes bals i = wsum pr votes bals i :=
  wsumFrom_congr pr pr' bals i votes 0 (fun v _ => appliedIn_frameS f i v)

/-! ## frames -/

/-- link maintenance keeps the weights invariant -/
theorem weights_frame (pr pr' : PA) (f : Frame pr pr') (votes : List Vote) (bals : List Nat)
    (hw : WeightsAre pr votes bals) : WeightsAre pr' votes bals := by
  intro i n hn
  have hwt := f.weight i
  rw [hn] at hwt
  cases h0 : pr.nodes[i]? with
  | none => simp [h0] at hwt
  | some n0 =>
    simp [h0] at hwt
    rw [hwt, hw i n0 h0, wsum_frameS f.toFrameS]

theorem votesIn_frameS (pr pr' : PA) (f : FrameS pr pr') (votes : List Vote) (hv : VotesIn pr votes) :
    VotesIn pr' votes := by
  intro v hm
  rw [f.indices]
  exact hv v hm

theorem noZero_frameS (pr pr' : PA) (f : FrameS pr pr') (hz : NoZero pr) : NoZero pr' := by
  unfold NoZero
  rw [f.indices]
  exact hz

theorem votesIn_frame (pr pr' : PA) (f : Frame pr pr') (votes : List Vote) (hv : VotesIn pr votes) :
    VotesIn pr' votes := votesIn_frameS pr pr' f.toFrameS votes hv

theorem noZero_frame (pr pr' : PA) (f : Frame pr pr') (hz : NoZero pr) : NoZero pr' :=
  noZero_frameS pr pr' f.toFrameS hz

/-! ## score changes -/

theorem sum_map_zero (l : List Nat) (f : Nat → Int) (hf : ∀ j, f j = 0) : (l.map f).sum = 0 := by
  induction l with
  | nil => rfl
  | cons a l ih => simp [hf a, ih]

theorem subSum_replicate_zero (ns : List Node) (n i : Nat) : subSum ns (List.replicate n 0) i = 0 := by
  unfold subSum
  apply sum_map_zero
  intro j
  rw [List.getD_eq_getElem?_getD, List.getElem?_replicate]
  split <;> rfl

/-- `ComputeDeltas` followed by `ApplyScoreChanges`: succeeds on a well-formed array whose weights are right for
(`votes`, `oldB`), and leaves weights that are right for the updated votes and `newB` -/
theorem weights_applyDeltas (pr : PA) (h : WF pr) (hz : NoZero pr) (votes : List Vote) (oldB newB : List Nat)
    (hw : WeightsAre pr votes oldB) (ds : List Int) (vs' : List Vote)
    (hd : computeDeltas pr.indices votes oldB newB = some (ds, vs')) (jE fE : Nat) :
    ∃ pr', pr.applyScoreChanges ds jE fE = .ok pr' () ∧ WF pr' ∧ FrameS pr pr' ∧ WeightsAre pr' vs' newB := by
  -- the delta vector has one entry per node
  have hl : ds.length = pr.nodes.length := by
    obtain ⟨ds0, vs0, e, l0, _⟩ := computeDeltas_ok pr h votes oldB newB
    rw [hd] at e; cases e; exact l0
  -- the subtree sums of the deltas
  have hsub : ∀ i, subSum pr.nodes ds i = wsum pr vs' newB i - wsum pr votes oldB i := by
    intro i
    have := computeDeltasLoop_subSum pr h hz oldB newB i votes 0 (List.replicate pr.indices.length 0) ds vs'
      (by rw [List.length_replicate, h.len]) hd
    rw [this, subSum_replicate_zero]
    unfold wsum
    omega
  obtain ⟨ns, ds', h1, hlen, hspec⟩ := pass1_spec pr.nodes ds hl h.fpar_lt
  obtain ⟨ns0, ds0, h1', _, hnw⟩ := pass1_some pr.nodes.length pr.nodes ds (Nat.le_refl _) hl h.fpar_lt
  rw [h1] at h1'; cases h1'
  obtain ⟨hw1, hf1⟩ := wf_of_nw h ns jE fE hlen hnw
  obtain ⟨pr2, h2, hw2, hf2⟩ :=
    wf_pass2 { pr with jEpoch := jE, fEpoch := fE, nodes := ns } hw1 ns.length (Nat.le_refl _)
  have hfr : FrameS pr { pr2 with updated := true } :=
    hf1.trans (hf2.toFrameS.trans (frame_updated pr2 true).toFrameS)
  refine ⟨{ pr2 with updated := true }, ?_, wf_updated hw2 true, hfr, ?_⟩
  · rw [← h.off] at h1
    unfold PA.applyScoreChanges
    simp only [hl, ne_eq, not_true_eq_false, if_false, h1, h2]
  · intro i n hn
    have hn2 : pr2.nodes[i]? = some n := hn
    have hwt := hf2.weight i
    rw [hn2] at hwt
    have hil : i < pr.nodes.length := by
      have := (List.getElem?_eq_some_iff.mp hn2).1
      rw [hf2.len] at this
      exact Nat.lt_of_lt_of_eq this hlen
    obtain ⟨n0, h0⟩ : ∃ n0, pr.nodes[i]? = some n0 := ⟨_, List.getElem?_eq_getElem hil⟩
    have hns : ns[i]? = some { n0 with weight := n0.weight + subSum pr.nodes ds i } := hspec i n0 h0
    have hns' : ({ pr with jEpoch := jE, fEpoch := fE, nodes := ns } : PA).nodes[i]? =
        some { n0 with weight := n0.weight + subSum pr.nodes ds i } := hns
    rw [hns'] at hwt
    simp at hwt
    rw [hwt, hw i n0 h0, hsub i, wsum_frameS hfr]
    omega
/-! ## applied votes stay inside the array -/

/-- a vote is "never applied" or applied to a key of the index map -/
def VoteIn (indices : List (NodeRef × Idx)) (v : Vote) : Prop :=
  v.cur = NodeRef.zero ∨ (aGet indices v.cur).isSome

theorem computeDeltasLoop_votesIn (indices : List (NodeRef × Idx)) (oldB newB : List Nat) :
    ∀ (votes : List Vote) (k : Nat) (ds ds' : List Int) (vs' : List Vote),
      computeDeltasLoop indices oldB newB k votes ds = some (ds', vs') →
      (∀ v ∈ votes, VoteIn indices v) → ∀ v ∈ vs', VoteIn indices v := by
  intro votes
  induction votes with
  | nil =>
    intro k ds ds' vs' h _
    simp [computeDeltasLoop] at h
    obtain ⟨_, rfl⟩ := h
    intro v hv; cases hv
  | cons v vs ih =>
    intro k ds ds' vs' h hin
    have cont : ∀ (v' : Vote) (ds1 : List Int), VoteIn indices v' →
        (match computeDeltasLoop indices oldB newB (k + 1) vs ds1 with
          | some (d, l) => some (d, v' :: l)
          | none => none) = some (ds', vs') → ∀ w ∈ vs', VoteIn indices w := by
      intro v' ds1 hv' he
      cases hr : computeDeltasLoop indices oldB newB (k + 1) vs ds1 with
      | none => simp [hr] at he
      | some p =>
        obtain ⟨d, l⟩ := p
        simp [hr] at he
        obtain ⟨_, rfl⟩ := he
        intro w hw
        rcases List.mem_cons.mp hw with e | hm
        · rw [e]; exact hv'
        · exact ih (k + 1) ds1 d l hr (fun x hx => hin x (List.mem_cons_of_mem _ hx)) w hm
    have hv0 : VoteIn indices v := hin v (List.mem_cons_self ..)
    unfold computeDeltasLoop at h
    simp only at h
    split at h
    · exact cont v ds hv0 h
    · split at h
      · split at h
        · cases h
        · rename_i ds1 _
          split at h
          · rename_i n hn
            split at h
            · cases h
            · rename_i ds2 _
              exact cont _ ds2 (Or.inr (by simp [hn])) h
          · split at h
            · split at h
              · cases h
              · rename_i ds2 _
                exact cont v ds2 hv0 h
            · exact cont v ds1 hv0 h
      · exact cont v ds hv0 h

/-- `ComputeDeltas` only applies a vote whose target is in the index map -/
theorem votesIn_computeDeltas (pr : PA) (votes : List Vote) (oldB newB : List Nat) (hv : VotesIn pr votes)
    (ds : List Int) (vs' : List Vote) (hd : computeDeltas pr.indices votes oldB newB = some (ds, vs')) :
    VotesIn pr vs' :=
  computeDeltasLoop_votesIn pr.indices oldB newB votes 0 _ ds vs' hd hv

/-! ## attestations do not touch applied votes -/

theorem appliedIn_cur (pr : PA) (i : Nat) (v w : Vote) (h : v.cur = w.cur) : appliedIn pr i v = appliedIn pr i w := by
  unfold appliedIn; rw [h]

theorem appliedIn_zero (pr : PA) (hz : NoZero pr) (i : Nat) (v : Vote) (h : v.cur = NodeRef.zero) :
    appliedIn pr i v = false := by
  unfold appliedIn; rw [h, hz]

/-- `wsumFrom` reads nothing but the `cur` fields -/
theorem wsumFrom_cur (pr : PA) (bals : List Nat) (i : Nat) :
    ∀ (vs ws : List Vote) (k : Nat), vs.map (·.cur) = ws.map (·.cur) →
      wsumFrom pr bals i k vs = wsumFrom pr bals i k ws := by
  intro vs
  induction vs with
  | nil =>
    intro ws k h
    cases ws with
    | nil => rfl
    | cons w ws => simp at h
  | cons v vs ih =>
    intro ws k h
    cases ws with
    | nil => simp at h
    | cons w ws =>
      simp only [List.map_cons, List.cons.injEq] at h
      simp only [wsumFrom]
      rw [appliedIn_cur pr i v w h.1, ih ws (k + 1) h.2]

theorem wsumFrom_append (pr : PA) (bals : List Nat) (i : Nat) :
    ∀ (vs ws : List Vote) (k : Nat),
      wsumFrom pr bals i k (vs ++ ws) = wsumFrom pr bals i k vs + wsumFrom pr bals i (k + vs.length) ws := by
  intro vs
  induction vs with
  | nil => intro ws k; simp [wsumFrom]
  | cons v vs ih =>
    intro ws k
    simp only [List.cons_append, wsumFrom, ih ws (k + 1), List.length_cons]
    have : k + 1 + vs.length = k + (vs.length + 1) := by omega
    rw [this]; omega

/-- the padded vote list of `ProcessAttestation` -/
def votePad (votes : List Vote) (k : Nat) : List Vote :=
  if k ≥ votes.length then votes ++ List.replicate (k + 1 - votes.length) Vote.zero else votes

theorem wsumFrom_votePad (pr : PA) (hz : NoZero pr) (bals : List Nat) (i : Nat) (votes : List Vote) (k : Nat) :
    wsumFrom pr bals i 0 (votePad votes k) = wsumFrom pr bals i 0 votes := by
  unfold votePad
  split
  · rw [wsumFrom_append, wsumFrom_zero pr bals i (List.replicate _ Vote.zero)]
    · omega
    · intro v hv
      rw [List.eq_of_mem_replicate hv]
      exact appliedIn_zero pr hz i _ rfl
  · rfl

theorem map_set_getD {α β : Type} (f : α → β) (l : List α) (k : Nat) (d a : α) (h : f a = f (l.getD k d)) :
    (l.set k a).map f = l.map f := by
  rw [List.map_set]
  by_cases hk : k < l.length
  · have : f a = (l.map f)[k]'(by simpa using hk) := by
      rw [h, List.getD_eq_getElem?_getD, List.getElem?_eq_getElem hk]; simp
    rw [this, List.set_getElem_self]
  · exact List.set_eq_of_length_le (by simp; omega)

theorem voteProcess_def (spe : Nat) (votes : List Vote) (changed : Bool) (k : Nat) (root : Root) (slot : Nat) :
    voteProcess spe votes changed k root slot =
      if slot / spe > ((votePad votes k).getD k Vote.zero).nextEpoch ||
          (slot / spe == 0 && (votePad votes k).getD k Vote.zero == Vote.zero) then
        ((votePad votes k).set k
          { (votePad votes k).getD k Vote.zero with nextEpoch := slot / spe, next := ⟨slot, root⟩ }, true)
      else (votePad votes k, changed) := rfl

theorem voteProcess_eq (spe : Nat) (votes : List Vote) (changed : Bool) (k : Nat) (root : Root) (slot : Nat) :
    (voteProcess spe votes changed k root slot).1 = votePad votes k ∨
    ∃ v', v'.cur = ((votePad votes k).getD k Vote.zero).cur ∧
      (voteProcess spe votes changed k root slot).1 = (votePad votes k).set k v' := by
  rw [voteProcess_def]
  split
  · exact Or.inr ⟨{ (votePad votes k).getD k Vote.zero with nextEpoch := slot / spe, next := ⟨slot, root⟩ }, rfl, rfl⟩
  · exact Or.inl rfl

/-- `ProcessAttestation` pads with never-applied votes and rewrites `next`/`nextEpoch` of one entry only -/
theorem voteProcess_weights (pr : PA) (hz : NoZero pr) (spe : Nat) (votes : List Vote) (changed : Bool) (k : Nat)
    (root : Root) (slot : Nat) (bals : List Nat) (i : Nat) :
    wsum pr (voteProcess spe votes changed k root slot).1 bals i = wsum pr votes bals i := by
  unfold wsum
  rcases voteProcess_eq spe votes changed k root slot with e | ⟨v', hc, e⟩
  · rw [e]; exact wsumFrom_votePad pr hz bals i votes k
  · rw [e, wsumFrom_cur pr bals i _ (votePad votes k) 0 (map_set_getD (·.cur) _ k Vote.zero v' hc)]
    exact wsumFrom_votePad pr hz bals i votes k

theorem votePad_votesIn (pr : PA) (votes : List Vote) (k : Nat) (hv : VotesIn pr votes) :
    VotesIn pr (votePad votes k) := by
  unfold votePad
  split
  · intro v hm
    rcases List.mem_append.mp hm with h | h
    · exact hv v h
    · rw [List.eq_of_mem_replicate h]; exact Or.inl rfl
  · exact hv

theorem voteProcess_votesIn (pr : PA) (spe : Nat) (votes : List Vote) (changed : Bool) (k : Nat) (root : Root)
    (slot : Nat) (hv : VotesIn pr votes) : VotesIn pr (voteProcess spe votes changed k root slot).1 := by
  have hp := votePad_votesIn pr votes k hv
  rcases voteProcess_eq spe votes changed k root slot with e | ⟨v', hc, e⟩
  · rw [e]; exact hp
  · rw [e]
    intro v hm
    rcases List.mem_or_eq_of_mem_set hm with h | h
    · exact hp v h
    · subst h
      rw [hc]
      by_cases hk : k < (votePad votes k).length
      · have : (votePad votes k).getD k Vote.zero = (votePad votes k)[k] := by
          rw [List.getD_eq_getElem?_getD, List.getElem?_eq_getElem hk]; rfl
        rw [this]
        exact hp _ (List.getElem_mem hk)
      · have : (votePad votes k).getD k Vote.zero = Vote.zero := by
          rw [List.getD_eq_getElem?_getD, List.getElem?_eq_none (by omega)]; rfl
        rw [this]; exact Or.inl rfl
/-! ## insertions -/

/-- reachability below `L` only looks at the parent function below `L` -/
theorem PReach.congr_below {par par' : Nat → Option Nat} (L : Nat) (hlt : ∀ j p, par j = some p → p < j)
    (he : ∀ j, j < L → par' j = par j) {i j : Nat} (hj : j < L) (h : PReach par i j) : PReach par' i j := by
  induction h with
  | refl => exact .refl
  | @step j p hp _ ih =>
    have hpj : p < j := hlt j p hp
    exact .step ((he j hj).trans hp) (ih (Nat.lt_trans hpj hj))

theorem Grow.fpar_old {P : Root → Prop} {pr pr' : PA} (g : Grow P pr pr') (j : Nat) (hj : j < pr.nodes.length) :
    fpar pr'.nodes j = fpar pr.nodes j := by
  obtain ⟨m, hm⟩ : ∃ m, pr.nodes[j]? = some m := ⟨_, List.getElem?_eq_getElem hj⟩
  unfold fpar
  rw [hm, g.nodes_old j m hm]

/-- subtree membership of an old node does not change when nodes are appended -/
theorem Grow.anc_old {P : Root → Prop} {pr pr' : PA} (g : Grow P pr pr') (h : WF pr) (h' : WF pr')
    (i j : Nat) (hj : j < pr.nodes.length) : anc pr'.nodes i j = anc pr.nodes i j := by
  have e : (anc pr'.nodes i j = true) ↔ (anc pr.nodes i j = true) := by
    rw [anc_iff_reach pr'.nodes h'.fpar_lt' i j, anc_iff_reach pr.nodes h.fpar_lt' i j]
    constructor
    · exact PReach.congr_below pr.nodes.length h'.fpar_lt' (fun j hj => (g.fpar_old j hj).symm) hj
    · exact PReach.congr_below pr.nodes.length h.fpar_lt' (fun j hj => g.fpar_old j hj) hj
  cases h1 : anc pr'.nodes i j <;> cases h2 : anc pr.nodes i j <;> simp [h1, h2] at e ⊢

theorem Grow.noZero_old {P : Root → Prop} {pr pr' : PA} (g : Grow P pr pr') (hz' : NoZero pr') : NoZero pr := by
  unfold NoZero at *
  cases hc : aGet pr.indices NodeRef.zero with
  | none => rfl
  | some j => rw [g.idx_old _ j hc] at hz'; cases hz'

theorem Grow.applied_old {P : Root → Prop} {pr pr' : PA} (g : Grow P pr pr') (h : WF pr) (h' : WF pr')
    (hz' : NoZero pr') (v : Vote) (hv : v.cur = NodeRef.zero ∨ (aGet pr.indices v.cur).isSome) (i : Nat) :
    appliedIn pr' i v = appliedIn pr i v := by
  rcases hv with hv | hv
  · rw [appliedIn_zero pr' hz' i v hv, appliedIn_zero pr (g.noZero_old hz') i v hv]
  · cases hc : aGet pr.indices v.cur with
    | none => rw [hc] at hv; cases hv
    | some j =>
      unfold appliedIn
      rw [hc, g.idx_old _ j hc]
      exact g.anc_old h h' i j (h.idx_lt hc)

/-- no applied vote of the old array lies below a new node -/
theorem Grow.applied_new {P : Root → Prop} {pr pr' : PA} (g : Grow P pr pr') (h : WF pr) (h' : WF pr')
    (hz' : NoZero pr') (v : Vote) (hv : v.cur = NodeRef.zero ∨ (aGet pr.indices v.cur).isSome) (i : Nat)
    (hi : pr.nodes.length ≤ i) : appliedIn pr' i v = false := by
  rcases hv with hv | hv
  · exact appliedIn_zero pr' hz' i v hv
  · cases hc : aGet pr.indices v.cur with
    | none => rw [hc] at hv; cases hv
    | some j =>
      unfold appliedIn
      rw [g.idx_old _ j hc]
      cases ha : anc pr'.nodes i j with
      | false => exact ha
      | true =>
        exfalso
        have h1 : i ≤ j := anc_le pr'.nodes h'.fpar_lt' i j ha
        have h2 : j < pr.nodes.length := h.idx_lt hc
        exact Nat.lt_irrefl _ (Nat.lt_of_lt_of_le h2 (Nat.le_trans hi h1))

/-- insertions: new nodes are leaves of weight 0 with no applied vote below them, old nodes keep their subtree -/
theorem weights_grow {P : Root → Prop} (pr pr' : PA) (h : WF pr) (h' : WF pr') (g : Grow P pr pr') (hz' : NoZero pr')
    (votes : List Vote) (bals : List Nat) (hv : VotesIn pr votes) (hw : WeightsAre pr votes bals) :
    WeightsAre pr' votes bals ∧ VotesIn pr' votes := by
  constructor
  · intro i n hn
    by_cases hi : i < pr.nodes.length
    · obtain ⟨m, hm⟩ : ∃ m, pr.nodes[i]? = some m := ⟨_, List.getElem?_eq_getElem hi⟩
      have := g.nodes_old i m hm
      rw [hn] at this
      cases this
      rw [hw i n hm]
      exact (wsumFrom_congr pr pr' bals i votes 0 (fun v hm => g.applied_old h h' hz' v (hv v hm) i)).symm
    · have hi' : pr.nodes.length ≤ i := Nat.le_of_not_lt hi
      rw [(g.nodes_new i n hi' hn).1]
      exact (wsumFrom_zero pr' bals i votes 0 (fun v hm => g.applied_new h h' hz' v (hv v hm) i hi')).symm
  · intro v hm
    rcases hv v hm with hz | hs
    · exact Or.inl hz
    · right
      cases hc : aGet pr.indices v.cur with
      | none => rw [hc] at hs; cases hs
      | some j => rw [g.idx_old _ j hc]; rfl


/-- insertions keep the weights invariant as long as no applied vote that is not (or no longer) a node becomes one -/
theorem weights_grow' {P : Root → Prop} (pr pr' : PA) (h : WF pr) (h' : WF pr') (g : Grow P pr pr') (hz' : NoZero pr')
    (votes : List Vote) (bals : List Nat)
    (hnr : ∀ v ∈ votes, aGet pr.indices v.cur = none → aGet pr'.indices v.cur = none)
    (hw : WeightsAre pr votes bals) : WeightsAre pr' votes bals := by
  have happ : ∀ v ∈ votes, ∀ i, i < pr.nodes.length → appliedIn pr' i v = appliedIn pr i v := by
    intro v hm i _
    cases hc : aGet pr.indices v.cur with
    | none => simp [appliedIn, hc, hnr v hm hc]
    | some j => exact g.applied_old h h' hz' v (Or.inr (by rw [hc]; rfl)) i
  have hnew : ∀ v ∈ votes, ∀ i, pr.nodes.length ≤ i → appliedIn pr' i v = false := by
    intro v hm i hi
    cases hc : aGet pr.indices v.cur with
    | none => simp [appliedIn, hnr v hm hc]
    | some j => exact g.applied_new h h' hz' v (Or.inr (by rw [hc]; rfl)) i hi
  intro i n hn
  by_cases hi : i < pr.nodes.length
  · obtain ⟨m, hm⟩ : ∃ m, pr.nodes[i]? = some m := ⟨_, List.getElem?_eq_getElem hi⟩
    have := g.nodes_old i m hm
    rw [hn] at this
    cases this
    rw [hw i n hm]
    exact (wsumFrom_congr pr pr' bals i votes 0 (fun v hm => happ v hm i hi)).symm
  · have hi' : pr.nodes.length ≤ i := Nat.le_of_not_lt hi
    rw [(g.nodes_new i n hi' hn).1]
    exact (wsumFrom_zero pr' bals i votes 0 (fun v hm => hnew v hm i hi')).symm

/-- insertions of nodes with non-zero roots do not create the key `NodeRef.zero` -/
theorem noZero_grow {P : Root → Prop} (pr pr' : PA) (hz : NoZero pr) (g : Grow P pr pr') (h : WF pr) (h' : WF pr')
    (hP : ∀ r, P r → r ≠ 0) : NoZero pr' :=
  g.idx_new h h' NodeRef.zero hz (fun hp => hP _ hp rfl)

/-! ## non-vacuity -/

/-- `WeightsAre` from a bounded (decidable) check -/
theorem weightsAre_of_lt (pr : PA) (votes : List Vote) (bals : List Nat)
    (hc : ∀ i, i < pr.nodes.length → (pr.nodes[i]?).map (·.weight) = some (wsum pr votes bals i)) :
    WeightsAre pr votes bals := by
  intro i n hn
  have := hc i (List.getElem?_eq_some_iff.mp hn).1
  rw [hn] at this
  simpa using this

def wEx0 : PA := PA.new 7 1 0 0 0 .absent
def wEx : PA := ((wEx0.processBlock 1 2 1 0 0).getD (wEx0, false)).1

theorem wEx_wf : WF wEx := by
  obtain ⟨pr', b, e, w⟩ := wf_processBlock wEx0 (wf_new 7 1 0 0 0 .absent) 1 2 1 0 0
  unfold wEx
  rw [e]; exact w

theorem wEx_grow : Grow (fun r => r = 1 ∨ r = 2) wEx0 wEx := by
  obtain ⟨pr', b, e, w⟩ := wf_processBlock wEx0 (wf_new 7 1 0 0 0 .absent) 1 2 1 0 0
  have g := processBlock_frame wEx0 (wf_new 7 1 0 0 0 .absent) 1 2 1 0 0 pr' b e
  unfold wEx
  rw [e]; exact g

example : wEx.nodes.map (fun n => (n.ref, n.fparent, n.weight)) =
    [(⟨0, 1⟩, none, 0), (⟨1, 1⟩, some 0, 0), (⟨1, 2⟩, some 0, 0)] := by decide

/-- one validator (balance 5) that never had its vote applied and now votes for block 2 -/
def wExVotes : List Vote := [⟨NodeRef.zero, ⟨1, 2⟩, 0, 0⟩]

example : ∃ (votes : List Vote) (oldB newB : List Nat) (ds : List Int) (vs' : List Vote),
    WF wEx ∧ NoZero wEx ∧ VotesIn wEx votes ∧ WeightsAre wEx votes oldB ∧
    computeDeltas wEx.indices votes oldB newB = some (ds, vs') ∧ ds = [0, 0, 5] ∧
    vs' = [⟨⟨1, 2⟩, ⟨1, 2⟩, 0, 0⟩] ∧
    wsum wEx vs' newB 0 = 5 ∧ wsum wEx vs' newB 1 = 0 ∧ wsum wEx vs' newB 2 = 5 :=
  ⟨wExVotes, [5], [5], [0, 0, 5], [⟨⟨1, 2⟩, ⟨1, 2⟩, 0, 0⟩], wEx_wf,
    (show aGet wEx.indices NodeRef.zero = none by decide),
    by intro v hv; simp [wExVotes] at hv; subst hv; exact Or.inl rfl,
    weightsAre_of_lt _ _ _ (by decide), by decide, rfl, rfl, by decide, by decide, by decide⟩

/-- … and `weights_applyDeltas` applies to it -/
example : ∃ pr', wEx.applyScoreChanges [0, 0, 5] 0 0 = .ok pr' () ∧ WF pr' ∧
    WeightsAre pr' [⟨⟨1, 2⟩, ⟨1, 2⟩, 0, 0⟩] [5] ∧ VotesIn wEx [⟨⟨1, 2⟩, ⟨1, 2⟩, 0, 0⟩] := by
  have hd : computeDeltas wEx.indices wExVotes [5] [5] = some ([0, 0, 5], [⟨⟨1, 2⟩, ⟨1, 2⟩, 0, 0⟩]) := by decide
  have hv : VotesIn wEx wExVotes := by
    intro v hv; simp [wExVotes] at hv; subst hv; exact Or.inl rfl
  obtain ⟨pr', e, w, _, hw⟩ := weights_applyDeltas wEx wEx_wf (show aGet wEx.indices NodeRef.zero = none by decide)
    wExVotes [5] [5] (weightsAre_of_lt _ _ _ (by decide)) _ _ hd 0 0
  exact ⟨pr', e, w, hw, votesIn_computeDeltas wEx wExVotes [5] [5] hv _ _ hd⟩

/-- non-vacuity of `weights_grow`/`noZero_grow`: the anchor alone, then block 2 inserted; validator 0 (balance 0)
voted for the anchor, validator 1 (balance 7) never voted -/
example : NoZero wEx ∧ WeightsAre wEx [⟨⟨0, 1⟩, ⟨0, 1⟩, 0, 0⟩, Vote.zero] [0, 7] ∧
    VotesIn wEx [⟨⟨0, 1⟩, ⟨0, 1⟩, 0, 0⟩, Vote.zero] := by
  have h0 : WF wEx0 := wf_new 7 1 0 0 0 .absent
  have hz : NoZero wEx := noZero_grow wEx0 wEx (show aGet wEx0.indices NodeRef.zero = none by decide)
    wEx_grow h0 wEx_wf (by intro r hr h0; subst h0; rcases hr with hr | hr <;> cases hr)
  refine ⟨hz, weights_grow wEx0 wEx h0 wEx_wf wEx_grow hz _ _ ?_ (weightsAre_of_lt _ _ _ (by decide))⟩
  intro v hv
  simp at hv
  rcases hv with rfl | rfl
  · exact Or.inr (by decide)
  · exact Or.inl rfl

/-- non-vacuity of `voteProcess_weights`: an attestation of a validator beyond the tracked ones -/
example : (voteProcess 8 wExVotes false 2 2 9).1.length = 3 ∧
    wsum wEx (voteProcess 8 wExVotes false 2 2 9).1 [5, 6, 7] 0 = wsum wEx wExVotes [5, 6, 7] 0 :=
  ⟨by decide, voteProcess_weights wEx (show aGet wEx.indices NodeRef.zero = none by decide) 8 wExVotes false 2 2 9 _ 0⟩

end Zrnt.ForkChoice
