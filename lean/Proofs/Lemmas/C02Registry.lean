import Zrnt.Beacon.Impl.Epoch
/-! Helper lemmas for the C02 property theorems (registry exit queue, activation queue, bits). -/
namespace Zrnt.Proofs.Lemmas
open Zrnt.Beacon Zrnt.Beacon.Spec

theorem testBit_eq (n i : Nat) : Nat.testBit n i = decide ((n / 2 ^ i) % 2 = 1) := by
  rw [Nat.testBit_eq_decide_div_mod_eq]

/-! ### `foldl max` -/

theorem foldl_max_init (l : List Nat) (a : Nat) : l.foldl max a = max a (l.foldl max 0) := by
  induction l generalizing a with
  | nil => simp
  | cons x xs ih => simp only [List.foldl_cons]; rw [ih (max a x), ih (max 0 x)]; omega

theorem foldl_max_append (l1 l2 : List Nat) : (l1 ++ l2).foldl max 0 = max (l1.foldl max 0) (l2.foldl max 0) := by
  rw [List.foldl_append, foldl_max_init]

theorem foldl_max_cons (x : Nat) (l : List Nat) : (x :: l).foldl max 0 = max x (l.foldl max 0) := by
  simp only [List.foldl_cons]; rw [foldl_max_init]; omega

/-- the exit epochs that count for the queue -/
def exits (vals : List Validator) : List Nat := (vals.filter (·.exit_epoch ≠ FAR_FUTURE_EPOCH)).map (·.exit_epoch)

/-- last epoch of the exit queue as `initiate_validator_exit` computes it -/
def qmax (cfg : Config) (cur : Nat) (vals : List Validator) : Nat :=
  (exits vals ++ [compute_activation_exit_epoch cfg cur]).foldl max 0

def qcount (vals : List Validator) (E : Nat) : Nat := (vals.filter (·.exit_epoch = E)).length

def activeCount (vals : List Validator) (cur : Nat) : Nat := (vals.filter (is_active_validator · cur)).length

theorem qmax_eq (cfg : Config) (cur : Nat) (vals : List Validator) :
    qmax cfg cur vals = max ((exits vals).foldl max 0) (compute_activation_exit_epoch cfg cur) := by
  unfold qmax; rw [foldl_max_append]; simp

theorem exits_append (a b : List Validator) : exits (a ++ b) = exits a ++ exits b := by
  simp [exits]

theorem exits_cons (v : Validator) (l : List Validator) :
    exits (v :: l) = if v.exit_epoch ≠ FAR_FUTURE_EPOCH then v.exit_epoch :: exits l else exits l := by
  unfold exits; simp only [List.filter_cons]; split <;> simp_all

/-- every counted exit epoch is at most the queue end -/
theorem le_qmax (cfg : Config) (cur : Nat) (vals : List Validator) (v : Validator) (hv : v ∈ vals)
    (hne : v.exit_epoch ≠ FAR_FUTURE_EPOCH) : v.exit_epoch ≤ qmax cfg cur vals := by
  rw [qmax_eq]
  have : v.exit_epoch ≤ (exits vals).foldl max 0 := by
    induction vals with
    | nil => cases hv
    | cons x xs ih =>
      rw [exits_cons]
      rcases List.mem_cons.mp hv with h | h
      · subst h; rw [if_pos hne, foldl_max_cons]; omega
      · have := ih h
        split
        · rw [foldl_max_cons]; omega
        · exact this
  omega

theorem qcount_above (cfg : Config) (cur : Nat) (vals : List Validator) (E : Nat) (hE : qmax cfg cur vals < E)
    (hfar : E ≠ FAR_FUTURE_EPOCH) : qcount vals E = 0 := by
  unfold qcount
  rw [List.length_eq_zero_iff, List.filter_eq_nil_iff]
  intro v hv h
  have h' : v.exit_epoch = E := by simpa using h
  have := le_qmax cfg cur vals v hv (by rw [h']; exact hfar)
  omega

theorem exits_ne_far (vals : List Validator) : ∀ x ∈ exits vals, x ≠ FAR_FUTURE_EPOCH := by
  intro x hx
  unfold exits at hx
  simp only [List.mem_map, List.mem_filter] at hx
  obtain ⟨v, ⟨_, hv⟩, rfl⟩ := hx
  simpa using hv

theorem foldl_max_ne (l : List Nat) (a b : Nat) (ha : a ≠ b) (hl : ∀ x ∈ l, x ≠ b) : l.foldl max a ≠ b := by
  induction l generalizing a with
  | nil => simpa
  | cons x xs ih =>
    simp only [List.foldl_cons]
    apply ih
    · have := hl x (by simp)
      rcases Nat.le_total a x with h | h
      · rw [Nat.max_eq_right h]; exact this
      · rw [Nat.max_eq_left h]; exact ha
    · intro y hy; exact hl y (by simp [hy])

theorem qcount_cons (v : Validator) (l : List Validator) (E : Nat) :
    qcount (v :: l) E = (if v.exit_epoch = E then 1 else 0) + qcount l E := by
  unfold qcount
  simp only [List.filter_cons]
  split <;> rename_i h
  · have : v.exit_epoch = E := by simpa using h
    simp [this]; omega
  · have : ¬ v.exit_epoch = E := by simpa using h
    simp [this]

/-- The single scan of `ComputeRegistryProcessData` from an accumulator `(m, c)`. -/
theorem scan_general (l : List Validator) (m c : Nat) (hm : m ≠ FAR_FUTURE_EPOCH) :
    (l.map (·.exit_epoch)).foldl (fun (acc : Nat × Nat) exit =>
      if exit = FAR_FUTURE_EPOCH then acc else
      let acc := if exit > acc.1 then (exit, 0) else acc
      if exit = acc.1 then (acc.1, acc.2 + 1) else acc) (m, c) =
    (max m ((exits l).foldl max 0),
     (if max m ((exits l).foldl max 0) = m then c else 0) + qcount l (max m ((exits l).foldl max 0))) := by
  induction l generalizing m c with
  | nil => simp [exits, qcount]
  | cons v vs ih =>
    simp only [List.map_cons, List.foldl_cons]
    rw [exits_cons, qcount_cons]
    by_cases hfar : v.exit_epoch = FAR_FUTURE_EPOCH
    · rw [if_pos hfar, ih m c hm]
      have hne : max m ((exits vs).foldl max 0) ≠ FAR_FUTURE_EPOCH := by
        rw [← foldl_max_init]; exact foldl_max_ne _ _ _ hm (exits_ne_far vs)
      simp only [hfar, ne_eq, not_true_eq_false, ↓reduceIte]
      have : ¬ FAR_FUTURE_EPOCH = max m ((exits vs).foldl max 0) := fun h => hne h.symm
      simp [this]
    · rw [if_neg hfar]
      simp only [ne_eq, hfar, not_false_eq_true, ↓reduceIte, foldl_max_cons]
      by_cases hgt : v.exit_epoch > m
      · simp only [hgt, ↓reduceIte]
        rw [ih v.exit_epoch 1 hfar]
        have e1 : max v.exit_epoch ((exits vs).foldl max 0) = max m (max v.exit_epoch ((exits vs).foldl max 0)) := by omega
        rw [← e1]
        congr 1
        by_cases h2 : max v.exit_epoch ((exits vs).foldl max 0) = v.exit_epoch
        · have h3 : ¬ max v.exit_epoch ((exits vs).foldl max 0) = m := by omega
          simp [h2]; omega
        · have h3 : ¬ max v.exit_epoch ((exits vs).foldl max 0) = m := by omega
          have h4 : ¬ v.exit_epoch = max v.exit_epoch ((exits vs).foldl max 0) := fun h => h2 h.symm
          simp [h2, h3, h4]
      · simp only [hgt, ↓reduceIte]
        by_cases heq : v.exit_epoch = m
        · simp only [heq, ↓reduceIte]
          rw [ih m (c + 1) hm]
          have e1 : max m ((exits vs).foldl max 0) = max m (max m ((exits vs).foldl max 0)) := by omega
          rw [← e1]
          congr 1
          by_cases h2 : max m ((exits vs).foldl max 0) = m
          · simp [h2]; omega
          · have h4 : ¬ m = max m ((exits vs).foldl max 0) := fun h => h2 h.symm
            simp [h2, h4]
        · simp only [heq, ↓reduceIte]
          rw [ih m c hm]
          have e1 : max m ((exits vs).foldl max 0) = max m (max v.exit_epoch ((exits vs).foldl max 0)) := by omega
          rw [← e1]
          congr 1
          have h4 : ¬ v.exit_epoch = max m ((exits vs).foldl max 0) := by omega
          simp [h4]

theorem scan_eq (cfg : Config) (cur : Nat) (vals : List Validator)
    (hcae : compute_activation_exit_epoch cfg cur ≠ FAR_FUTURE_EPOCH) :
    Impl.exitQueueScan (compute_activation_exit_epoch cfg cur) (vals.map (·.exit_epoch)) =
      (qmax cfg cur vals, qcount vals (qmax cfg cur vals)) := by
  unfold Impl.exitQueueScan
  rw [scan_general vals _ 0 hcae, qmax_eq]
  have : max (compute_activation_exit_epoch cfg cur) ((exits vals).foldl max 0) =
      max ((exits vals).foldl max 0) (compute_activation_exit_epoch cfg cur) := by omega
  rw [this]; simp

/-- the epoch `initiate_validator_exit` assigns next -/
def next (cfg : Config) (cur : Nat) (vals : List Validator) : Nat :=
  if qcount vals (qmax cfg cur vals) ≥ churn_limit_of cfg vals cur then qmax cfg cur vals + 1 else qmax cfg cur vals

def exited (cfg : Config) (v : Validator) (E : Nat) : Validator :=
  { v with exit_epoch := E, withdrawable_epoch := E + cfg.MIN_VALIDATOR_WITHDRAWABILITY_DELAY }

theorem ive_eq (cfg : Config) (cur : Nat) (vals : List Validator) (i : Nat) (v : Validator)
    (hv : vals[i]? = some v) (hfar : v.exit_epoch = FAR_FUTURE_EPOCH) :
    initiate_validator_exit_pure cfg cur vals i = vals.set i (exited cfg v (next cfg cur vals)) := by
  unfold initiate_validator_exit_pure
  simp only [hv, hfar, ne_eq, not_true_eq_false, ↓reduceIte]
  unfold next exited qmax qcount exits
  simp only [ne_eq, decide_not, ge_iff_le]

theorem split_at (vals : List Validator) (i : Nat) (v : Validator) (hv : vals[i]? = some v) :
    vals = vals.take i ++ v :: vals.drop (i + 1) ∧
    ∀ v', vals.set i v' = vals.take i ++ v' :: vals.drop (i + 1) := by
  obtain ⟨hi, hget⟩ := List.getElem?_eq_some_iff.mp hv
  constructor
  · conv => lhs; rw [← List.take_append_drop i vals]
    rw [List.drop_eq_getElem_cons hi, hget]
  · intro v'
    rw [List.set_eq_take_append_cons_drop, if_pos hi]

theorem cae_le_qmax (cfg : Config) (cur : Nat) (vals : List Validator) :
    compute_activation_exit_epoch cfg cur ≤ qmax cfg cur vals := by
  rw [qmax_eq]; omega

theorem qcount_append (a b : List Validator) (E : Nat) : qcount (a ++ b) E = qcount a E + qcount b E := by
  simp [qcount]

/-- effect of one exit on the summaries -/
theorem set_exit_summaries (cfg : Config) (cur : Nat) (vals : List Validator) (i : Nat) (v : Validator) (E : Nat)
    (hv : vals[i]? = some v) (hfar : v.exit_epoch = FAR_FUTURE_EPOCH) (hE : E ≠ FAR_FUTURE_EPOCH)
    (hact : is_active_validator v cur = true) (hcur : cur < E) :
    qmax cfg cur (vals.set i (exited cfg v E)) = max (qmax cfg cur vals) E ∧
    (∀ X, X ≠ FAR_FUTURE_EPOCH → qcount (vals.set i (exited cfg v E)) X = qcount vals X + (if E = X then 1 else 0)) ∧
    churn_limit_of cfg (vals.set i (exited cfg v E)) cur = churn_limit_of cfg vals cur := by
  obtain ⟨h1, h2⟩ := split_at vals i v hv
  rw [h2]
  generalize vals.take i = a at *
  generalize vals.drop (i + 1) = b at *
  subst h1
  refine ⟨?_, ?_, ?_⟩
  · simp only [qmax_eq, exits_append, exits_cons, exited, hfar, ne_eq, hE, not_false_eq_true, ↓reduceIte,
      not_true_eq_false, foldl_max_append, foldl_max_cons]
    omega
  · intro X hX
    simp only [qcount_append, qcount_cons, exited, hfar]
    have : ¬ FAR_FUTURE_EPOCH = X := fun h => hX h.symm
    simp only [this, ↓reduceIte]
    omega
  · unfold churn_limit_of
    simp only [List.filter_append, List.filter_cons, List.length_append]
    have h3 : is_active_validator (exited cfg v E) cur = true := by
      unfold is_active_validator exited at *
      simp only [Bool.and_eq_true, decide_eq_true_eq] at hact ⊢
      exact ⟨hact.1, hcur⟩
    simp [hact, h3]

/-- index of an active validator without an exit epoch -/
def Ejectable (cur : Nat) (vals : List Validator) (i : Nat) : Prop :=
  ∃ v, vals[i]? = some v ∧ v.exit_epoch = FAR_FUTURE_EPOCH ∧ is_active_validator v cur = true

theorem next_ge (cfg : Config) (cur : Nat) (vals : List Validator) :
    qmax cfg cur vals ≤ next cfg cur vals ∧ cur < next cfg cur vals := by
  have := cae_le_qmax cfg cur vals
  unfold compute_activation_exit_epoch at this
  unfold next
  split <;> omega

/-- The batched ejections (`exitEnd`/`endChurn` stepping from a position that agrees with the registry)
assign what the sequential `initiate_validator_exit` calls assign. -/
theorem ejections_aux (cfg : Config) (cur : Nat) (idxs : List Nat) (vals : List Validator) (E c : Nat)
    (hE : E = next cfg cur vals) (hc : c = qcount vals E)
    (hidx : ∀ i ∈ idxs, Ejectable cur vals i) (hnd : idxs.Nodup)
    (hbound : ∀ k, k ≤ idxs.length → E + k ≠ FAR_FUTURE_EPOCH) :
    Impl.processEjections cfg (churn_limit_of cfg vals cur) E c idxs vals =
      idxs.foldl (initiate_validator_exit_pure cfg cur) vals := by
  induction idxs generalizing vals E c with
  | nil => simp [Impl.processEjections]
  | cons i rest ih =>
    obtain ⟨v, hv, hfar, hact⟩ := hidx i (by simp)
    have hEne : E ≠ FAR_FUTURE_EPOCH := by simpa using hbound 0 (by simp)
    have hE1ne : E + 1 ≠ FAR_FUTURE_EPOCH := hbound 1 (by simp)
    obtain ⟨hge, hcur⟩ := next_ge cfg cur vals
    rw [← hE] at hge hcur
    obtain ⟨hq, hcnt, hL⟩ := set_exit_summaries cfg cur vals i v E hv hfar hEne hact hcur
    have hqE : qmax cfg cur (vals.set i (exited cfg v E)) = E := by rw [hq]; omega
    have hcE : qcount (vals.set i (exited cfg v E)) E = c + 1 := by rw [hcnt E hEne, hc]; simp
    simp only [List.foldl_cons]
    rw [ive_eq cfg cur vals i v hv hfar, ← hE]
    unfold Impl.processEjections
    simp only [hv]
    have hset : vals.set i { v with exit_epoch := E, withdrawable_epoch := E + cfg.MIN_VALIDATOR_WITHDRAWABILITY_DELAY } =
        vals.set i (exited cfg v E) := rfl
    rw [hset]
    have hidx' : ∀ j ∈ rest, Ejectable cur (vals.set i (exited cfg v E)) j := by
      intro j hj
      have hne : i ≠ j := by
        intro h; subst h
        exact (List.nodup_cons.mp hnd).1 hj
      obtain ⟨w, hw, hw1, hw2⟩ := hidx j (by simp [hj])
      exact ⟨w, by rw [List.getElem?_set_ne hne]; exact hw, hw1, hw2⟩
    have hnd' : rest.Nodup := (List.nodup_cons.mp hnd).2
    have hnext : next cfg cur (vals.set i (exited cfg v E)) =
        if c + 1 ≥ churn_limit_of cfg vals cur then E + 1 else E := by
      unfold next; rw [hqE, hcE, hL]
    split <;> rename_i hch
    · rw [← hL]
      apply ih
      · rw [hnext, if_pos hch]
      · rw [qcount_above cfg cur _ (E + 1) (by rw [hqE]; omega) hE1ne]
      · exact hidx'
      · exact hnd'
      · intro k hk
        have := hbound (k + 1) (by simp; omega)
        intro h; apply this; omega
    · rw [← hL]
      apply ih
      · rw [hnext, if_neg hch]
      · rw [hcE]
      · exact hidx'
      · exact hnd'
      · intro k hk
        exact hbound k (by simp; omega)

theorem mem_zip_range' (l : List Validator) (s i : Nat) (v : Validator)
    (h : (i, v) ∈ (List.range' s l.length).zip l) : s ≤ i ∧ l[i - s]? = some v := by
  induction l generalizing s with
  | nil => simp at h
  | cons x xs ih =>
    simp only [List.length_cons, List.range'_succ, List.zip_cons_cons, List.mem_cons, Prod.mk.injEq] at h
    rcases h with ⟨rfl, rfl⟩ | h
    · simp
    · obtain ⟨h1, h2⟩ := ih (s + 1) h
      refine ⟨by omega, ?_⟩
      have : i - s = (i - (s + 1)) + 1 := by omega
      rw [this]; simpa using h2

theorem mem_zip_range (l : List Validator) (i : Nat) (v : Validator)
    (h : (i, v) ∈ (List.range l.length).zip l) : l[i]? = some v := by
  rw [List.range_eq_range'] at h
  simpa using (mem_zip_range' l 0 i v h).2

theorem filter_zip_nodup (l : List Validator) (p : Nat × Validator → Bool) :
    ((((List.range l.length).zip l).filter p).map (·.1)).Nodup := by
  have h1 : (((List.range l.length).zip l).map (·.1)) = List.range l.length := by
    rw [List.map_fst_zip]; simp
  have h2 : List.Sublist ((((List.range l.length).zip l).filter p).map (·.1)) (((List.range l.length).zip l).map (·.1)) :=
    List.Sublist.map _ List.filter_sublist
  rw [h1] at h2
  exact h2.nodup List.nodup_range

theorem foldl_max_le (l : List Nat) (b : Nat) (h : ∀ x ∈ l, x ≤ b) : l.foldl max 0 ≤ b := by
  induction l with
  | nil => simp
  | cons x xs ih =>
    rw [foldl_max_cons]
    have := h x (by simp)
    have := ih (fun y hy => h y (by simp [hy]))
    omega

/-- Magnitude hypothesis of the registry theorems: every epoch in play stays far below `FAR_FUTURE_EPOCH = 2^64 - 1`
(one epoch is 6.4 minutes; the hypothesis fails after about 10^14 years). -/
def EpochsSmall (cfg : Config) (cur : Nat) (vals : List Validator) : Prop :=
  compute_activation_exit_epoch cfg cur + vals.length + 1 < FAR_FUTURE_EPOCH ∧
  ∀ v ∈ vals, v.exit_epoch ≠ FAR_FUTURE_EPOCH → v.exit_epoch + vals.length + 1 < FAR_FUTURE_EPOCH

theorem qmax_small (cfg : Config) (cur : Nat) (vals : List Validator) (h : EpochsSmall cfg cur vals) :
    qmax cfg cur vals + vals.length + 1 < FAR_FUTURE_EPOCH := by
  rw [qmax_eq]
  have h1 : (exits vals).foldl max 0 ≤ FAR_FUTURE_EPOCH - vals.length - 2 := by
    apply foldl_max_le
    intro x hx
    unfold exits at hx
    simp only [List.mem_map, List.mem_filter] at hx
    obtain ⟨v, ⟨hv, hne⟩, rfl⟩ := hx
    have := h.2 v hv (by simpa using hne)
    omega
  have := h.1
  omega

/-- `registry_batched_eq_sequential` (core): the batched ejections of `ProcessEpochRegistryUpdates`, started from
the queue position computed by the single scan of `ComputeRegistryProcessData`, assign the same
`(exit_epoch, withdrawable_epoch)` to the same validators as calling `initiate_validator_exit` one by one
on the validators to eject, in index order. -/
theorem ejections_batched_eq_sequential (cfg : Config) (cur : Nat) (vals : List Validator)
    (hsmall : EpochsSmall cfg cur vals) :
    Impl.processEjections cfg (Impl.computeRegistryProcessData cfg vals cur).churnLimit
        (Impl.computeRegistryProcessData cfg vals cur).exitQueueEnd
        (Impl.computeRegistryProcessData cfg vals cur).exitQueueEndChurn
        (Impl.computeRegistryProcessData cfg vals cur).indicesToEject vals =
      (Impl.computeRegistryProcessData cfg vals cur).indicesToEject.foldl (initiate_validator_exit_pure cfg cur) vals := by
  have hq := qmax_small cfg cur vals hsmall
  have hcae : compute_activation_exit_epoch cfg cur ≠ FAR_FUTURE_EPOCH := by have := hsmall.1; omega
  have hscan := scan_eq cfg cur vals hcae
  have hL : (Impl.computeRegistryProcessData cfg vals cur).churnLimit = churn_limit_of cfg vals cur := rfl
  have hEc : (Impl.computeRegistryProcessData cfg vals cur).exitQueueEnd = next cfg cur vals ∧
      (Impl.computeRegistryProcessData cfg vals cur).exitQueueEndChurn = qcount vals (next cfg cur vals) := by
    unfold Impl.computeRegistryProcessData next
    simp only [hscan]
    split <;> rename_i h
    · have h' : qcount vals (qmax cfg cur vals) ≥ churn_limit_of cfg vals cur := h
      rw [if_pos h']
      refine ⟨rfl, ?_⟩
      rw [qcount_above cfg cur vals _ (Nat.lt_succ_self _) (by omega)]
    · have h' : ¬ qcount vals (qmax cfg cur vals) ≥ churn_limit_of cfg vals cur := h
      rw [if_neg h']
      exact ⟨rfl, rfl⟩
  rw [hL, hEc.1, hEc.2]
  have hlen : (Impl.computeRegistryProcessData cfg vals cur).indicesToEject.length ≤ vals.length := by
    unfold Impl.computeRegistryProcessData
    simp only [List.length_map]
    refine Nat.le_trans (List.length_filter_le _ _) ?_
    simp
  apply ejections_aux cfg cur _ vals _ _ rfl rfl
  · intro i hi
    unfold Impl.computeRegistryProcessData at hi
    simp only [List.mem_map, List.mem_filter] at hi
    obtain ⟨⟨j, v⟩, ⟨hmem, hp⟩, rfl⟩ := hi
    simp only [Bool.and_eq_true, decide_eq_true_eq, beq_iff_eq] at hp
    exact ⟨v, mem_zip_range vals j v hmem, hp.2, hp.1.1⟩
  · unfold Impl.computeRegistryProcessData
    exact filter_zip_nodup vals _
  · intro k hk
    have := (next_ge cfg cur vals).1
    have h2 : next cfg cur vals ≤ qmax cfg cur vals + 1 := by unfold next; split <;> omega
    omega

/-! ### activation queue -/

theorem queueLe_trans (vals : List Validator) (a b c : Nat) (h1 : queueLe vals a b = true) (h2 : queueLe vals b c = true) :
    queueLe vals a c = true := by
  unfold queueLe at *
  simp only [Bool.or_eq_true, decide_eq_true_eq, Bool.and_eq_true] at *
  omega

theorem queueLe_total (vals : List Validator) (a b : Nat) : (queueLe vals a b || queueLe vals b a) = true := by
  unfold queueLe
  simp only [Bool.or_eq_true, decide_eq_true_eq, Bool.and_eq_true]
  omega

theorem queueLe_antisymm (vals : List Validator) (a b : Nat) (h1 : queueLe vals a b = true) (h2 : queueLe vals b a = true) :
    a = b := by
  unfold queueLe at *
  simp only [Bool.or_eq_true, decide_eq_true_eq, Bool.and_eq_true] at *
  omega

/-- on a sorted list a downward-closed predicate selects a prefix -/
theorem takeWhile_eq_filter_of_sorted {le : Nat → Nat → Bool} {P : Nat → Bool} (l : List Nat)
    (hs : l.Pairwise (fun a b => le a b = true)) (hP : ∀ a b, le a b = true → P b = true → P a = true) :
    l.takeWhile P = l.filter P := by
  induction l with
  | nil => simp
  | cons x xs ih =>
    rw [List.pairwise_cons] at hs
    by_cases hx : P x = true
    · rw [List.takeWhile_cons_of_pos hx, List.filter_cons_of_pos hx, ih hs.2]
    · rw [List.takeWhile_cons_of_neg hx, List.filter_cons_of_neg hx]
      symm
      rw [List.filter_eq_nil_iff]
      intro y hy hpy
      exact hx (hP x y (hs.1 y hy) hpy)

theorem take_takeWhile (l : List Nat) (P : Nat → Bool) (n : Nat) :
    (l.take n).takeWhile P = (l.takeWhile P).take n := by
  induction l generalizing n with
  | nil => simp
  | cons x xs ih =>
    cases n with
    | zero => simp
    | succ n =>
      by_cases hx : P x = true
      · simp [List.take_succ_cons, List.takeWhile_cons_of_pos hx, ih]
      · simp [List.take_succ_cons, List.takeWhile_cons_of_neg hx]

theorem zip_filter_fst' (l : List Validator) (s : Nat) (q : Validator → Bool) :
    (((List.range' s l.length).zip l).filter (fun x => q x.2)).map (·.1) =
      (List.range' s l.length).filter (fun i => match l[i - s]? with | some v => q v | none => false) := by
  induction l generalizing s with
  | nil => simp
  | cons x xs ih =>
    simp only [List.length_cons, List.range'_succ, List.zip_cons_cons, List.filter_cons, Nat.sub_self,
      List.getElem?_cons_zero]
    have htail : (List.range' (s + 1) xs.length).filter
          (fun i => match (x :: xs)[i - s]? with | some v => q v | none => false) =
        (List.range' (s + 1) xs.length).filter (fun i => match xs[i - (s + 1)]? with | some v => q v | none => false) := by
      apply List.filter_congr
      intro i hi
      have : s + 1 ≤ i := (List.mem_range'_1.mp hi).1
      have e : i - s = (i - (s + 1)) + 1 := by omega
      rw [e, List.getElem?_cons_succ]
    rw [htail, ← ih (s + 1)]
    split <;> simp

theorem zip_filter_fst (l : List Validator) (q : Validator → Bool) :
    (((List.range l.length).zip l).filter (fun x => q x.2)).map (·.1) =
      (List.range l.length).filter (fun i => match l[i]? with | some v => q v | none => false) := by
  have := zip_filter_fst' l 0 q
  simpa [List.range_eq_range'] using this

/-- `activation_prefix_eq` (list form): sort the candidates with eligibility `≤ current`, take `limit`, stop at
the first one above the finalized epoch = filter by `≤ finalized`, sort, take `limit`. -/
theorem activation_prefix (vals : List Validator) (cur fin limit : Nat) (hfin : fin ≤ cur) :
    ((((((List.range vals.length).zip vals).filter fun (x : Nat × Validator) =>
          x.2.activation_epoch == FAR_FUTURE_EPOCH && decide (x.2.activation_eligibility_epoch ≤ cur)).map (·.1)).mergeSort
        (queueLe vals)).take limit).takeWhile
        (fun index => decide ((vals.getD index default).activation_eligibility_epoch ≤ fin)) =
      (activation_queue_pure fin vals).take limit := by
  rw [zip_filter_fst vals (fun v => v.activation_epoch == FAR_FUTURE_EPOCH && decide (v.activation_eligibility_epoch ≤ cur))]
  generalize hA : (List.range vals.length).filter (fun i => match vals[i]? with
      | some v => v.activation_epoch == FAR_FUTURE_EPOCH && decide (v.activation_eligibility_epoch ≤ cur)
      | none => false) = A
  let P : Nat → Bool := fun index => decide ((vals.getD index default).activation_eligibility_epoch ≤ fin)
  have hsorted : (A.mergeSort (queueLe vals)).Pairwise (fun a b => queueLe vals a b = true) :=
    List.pairwise_mergeSort (queueLe_trans vals) (queueLe_total vals) A
  have hdown : ∀ a b, queueLe vals a b = true → P b = true → P a = true := by
    intro a b hab hb
    simp only [P, decide_eq_true_eq] at *
    unfold queueLe at hab
    simp only [Bool.or_eq_true, decide_eq_true_eq, Bool.and_eq_true] at hab
    omega
  rw [take_takeWhile, takeWhile_eq_filter_of_sorted _ hsorted hdown]
  congr 1
  -- both sides are sorted permutations of the same list
  unfold activation_queue_pure
  apply List.Perm.eq_of_pairwise (le := fun a b => queueLe vals a b = true)
  · intro a b _ _ h1 h2; exact queueLe_antisymm vals a b h1 h2
  · exact List.Pairwise.filter _ hsorted
  · exact List.pairwise_mergeSort (queueLe_trans vals) (queueLe_total vals) _
  · refine List.Perm.trans (List.Perm.filter _ (List.mergeSort_perm A _)) ?_
    refine List.Perm.trans ?_ (List.mergeSort_perm _ _).symm
    rw [← hA, List.filter_filter]
    apply List.Perm.of_eq
    apply List.filter_congr
    intro i _
    cases hv : vals[i]? with
    | none => simp
    | some v =>
      have hg : vals.getD i default = v := by simp [List.getD, hv]
      simp only [P, hg]
      by_cases h1 : v.activation_eligibility_epoch ≤ fin
      · have h3 : v.activation_eligibility_epoch ≤ cur := by omega
        simp [h1, h3]
      · simp [h1]

/-! ### what the registry update leaves alone -/

theorem map_set_same {β : Type} (f : Validator → β) (w : List Validator) (i : Nat) (v v' : Validator)
    (h : w[i]? = some v) (hf : f v' = f v) : (w.set i v').map f = w.map f := by
  apply List.ext_getElem?
  intro j
  simp only [List.getElem?_map, List.getElem?_set]
  by_cases hij : i = j
  · subst hij
    obtain ⟨hi, hget⟩ := List.getElem?_eq_some_iff.mp h
    simp [hi, hf, hget]
  · simp [hij]

theorem ive_map_same {β : Type} (f : Validator → β) (cfg : Config) (cur : Nat) (w : List Validator) (i : Nat)
    (hf : ∀ v a b, f { v with exit_epoch := a, withdrawable_epoch := b } = f v) :
    (initiate_validator_exit_pure cfg cur w i).map f = w.map f := by
  unfold initiate_validator_exit_pure
  cases h : w[i]? with
  | none => simp
  | some v =>
    simp only []
    split
    · rfl
    · exact map_set_same f w i v _ h (hf v _ _)

theorem foldl_preserves {α β : Type} (P : β → Prop) (g : β → α → β) (l : List α) (b : β)
    (hb : P b) (hstep : ∀ b a, P b → P (g b a)) : P (l.foldl g b) := by
  induction l generalizing b with
  | nil => exact hb
  | cons x xs ih => exact ih (g b x) (hstep b x hb)

/-- the first loop of `process_registry_updates` changes eligibility, exit and withdrawable epochs only -/
theorem registry_first_loop_map_same {β : Type} (f : Validator → β) (cfg : Config) (cur : Nat) (vals : List Validator)
    (hf1 : ∀ v a b, f { v with exit_epoch := a, withdrawable_epoch := b } = f v)
    (hf2 : ∀ v a, f { v with activation_eligibility_epoch := a } = f v) :
    (registry_eligibility_and_ejections_pure cfg cur vals).map f = vals.map f := by
  unfold registry_eligibility_and_ejections_pure
  refine foldl_preserves (fun (w : List Validator) => w.map f = vals.map f) _ _ _ rfl ?_
  · intro w i hw
    cases h : w[i]? with
    | none => simpa using hw
    | some v =>
      simp only []
      have h1 : (if is_eligible_for_activation_queue cfg v = true then
          w.set i { v with activation_eligibility_epoch := cur + 1 } else w).map f = vals.map f := by
        split
        · rw [map_set_same f w i v _ h (hf2 v _)]; exact hw
        · exact hw
      split
      · rw [ive_map_same f cfg cur _ i hf1]; exact h1
      · exact h1

theorem registry_activations_map_same {β : Type} (f : Validator → β) (cfg : Config) (cur fin limit : Nat) (vals : List Validator)
    (hf : ∀ v a, f { v with activation_epoch := a } = f v) :
    (registry_activations_pure cfg cur fin limit vals).map f = vals.map f := by
  unfold registry_activations_pure
  refine foldl_preserves (fun (w : List Validator) => w.map f = vals.map f) _ _ _ rfl ?_
  · intro w i hw
    cases h : w[i]? with
    | none => simpa using hw
    | some v =>
      simp only []
      rw [map_set_same f w i v _ h (hf v _)]; exact hw

/-! ### the first loop of `process_registry_updates`: marks and ejections commute -/

/-- mark one validator eligible -/
def mark1 (e : Nat) (w : List Validator) (j : Nat) : List Validator :=
  match w[j]? with
  | some v => w.set j { v with activation_eligibility_epoch := e }
  | none => w

theorem setEligibility_eq (e : Nat) (S : List Nat) (w : List Validator) :
    Impl.setEligibility e S w = S.foldl (mark1 e) w := rfl

theorem mark1_getElem? (e : Nat) (w : List Validator) (j k : Nat) :
    (mark1 e w j)[k]? = if j = k then (w[k]?).map (fun v => { v with activation_eligibility_epoch := e }) else w[k]? := by
  unfold mark1
  cases h : w[j]? with
  | none =>
    simp only []
    split
    · rename_i hjk; subst hjk; simp [h]
    · rfl
  | some v =>
    simp only [List.getElem?_set]
    split
    · rename_i hjk; subst hjk
      obtain ⟨hi, hget⟩ := List.getElem?_eq_some_iff.mp h
      simp [hi, hget]
    · rfl

theorem mark1_map_same {β : Type} (f : Validator → β) (e : Nat) (w : List Validator) (j : Nat)
    (hf : ∀ v a, f { v with activation_eligibility_epoch := a } = f v) : (mark1 e w j).map f = w.map f := by
  unfold mark1
  cases h : w[j]? with
  | none => rfl
  | some v => exact map_set_same f w j v _ h (hf v _)

/-- `next` only reads exit epochs and activity -/
theorem next_congr (cfg : Config) (cur : Nat) (w w' : List Validator)
    (h : w.map (fun v => (v.exit_epoch, v.activation_epoch)) = w'.map (fun v => (v.exit_epoch, v.activation_epoch))) :
    next cfg cur w = next cfg cur w' := by
  have hex : exits w = exits w' := by
    have : ∀ l : List Validator, exits l =
        ((l.map (fun v => (v.exit_epoch, v.activation_epoch))).filter (fun p => decide (p.1 ≠ FAR_FUTURE_EPOCH))).map (·.1) := by
      intro l
      rw [List.filter_map, List.map_map]
      rfl
    rw [this w, this w', h]
  have hq : ∀ E, qcount w E = qcount w' E := by
    intro E
    have : ∀ l : List Validator, qcount l E =
        ((l.map (fun v => (v.exit_epoch, v.activation_epoch))).filter (fun p => decide (p.1 = E))).length := by
      intro l
      rw [List.filter_map, List.length_map]
      rfl
    rw [this w, this w', h]
  have hc : churn_limit_of cfg w cur = churn_limit_of cfg w' cur := by
    have : ∀ l : List Validator, (l.filter (fun v => is_active_validator v cur)).length =
        ((l.map (fun v => (v.exit_epoch, v.activation_epoch))).filter (fun p => decide (p.2 ≤ cur) && decide (cur < p.1))).length := by
      intro l
      rw [List.filter_map, List.length_map]
      rfl
    unfold churn_limit_of
    rw [this w, this w', h]
  unfold next qmax
  rw [hex, hq, hc]

theorem ive_unfold (cfg : Config) (cur : Nat) (w : List Validator) (k : Nat) :
    initiate_validator_exit_pure cfg cur w k =
      match w[k]? with
      | none => w
      | some v => if v.exit_epoch ≠ FAR_FUTURE_EPOCH then w else w.set k (exited cfg v (next cfg cur w)) := by
  cases h : w[k]? with
  | none => unfold initiate_validator_exit_pure; simp [h]
  | some v =>
    by_cases hf : v.exit_epoch = FAR_FUTURE_EPOCH
    · simp only [hf, ne_eq, not_true_eq_false, ↓reduceIte]
      exact ive_eq cfg cur w k v h hf
    · unfold initiate_validator_exit_pure; simp [h, hf]

/-- `initiate_validator_exit` commutes with marking a validator eligible -/
theorem ive_mark1_comm (cfg : Config) (cur e : Nat) (w : List Validator) (j k : Nat) :
    initiate_validator_exit_pure cfg cur (mark1 e w j) k = mark1 e (initiate_validator_exit_pure cfg cur w k) j := by
  have hnext : next cfg cur (mark1 e w j) = next cfg cur w :=
    next_congr cfg cur _ _ (mark1_map_same _ e w j (fun _ _ => rfl))
  rw [ive_unfold, ive_unfold, mark1_getElem?]
  by_cases hjk : j = k
  · subst hjk
    cases h : w[j]? with
    | none => simp [mark1, h]
    | some v =>
      simp only [↓reduceIte, Option.map_some]
      by_cases hf : v.exit_epoch = FAR_FUTURE_EPOCH
      · simp only [hf, ne_eq, not_true_eq_false, ↓reduceIte, hnext]
        obtain ⟨hi, _⟩ := List.getElem?_eq_some_iff.mp h
        unfold mark1
        simp [hi, List.set_set, exited]
      · simp only [ne_eq, hf, not_false_eq_true, ↓reduceIte]
  · simp only [hjk, ↓reduceIte]
    cases h : w[k]? with
    | none => rfl
    | some v =>
      simp only []
      by_cases hf : v.exit_epoch = FAR_FUTURE_EPOCH
      · simp only [hf, ne_eq, not_true_eq_false, ↓reduceIte, hnext]
        unfold mark1
        rw [List.getElem?_set_ne (fun h' => hjk h'.symm)]
        cases hj : w[j]? with
        | none => rfl
        | some u => simp only []; rw [List.set_comm _ _ (fun h' => hjk h')]
      · simp only [ne_eq, hf, not_false_eq_true, ↓reduceIte]

theorem ive_marks_comm (cfg : Config) (cur e : Nat) (S : List Nat) (w : List Validator) (k : Nat) :
    initiate_validator_exit_pure cfg cur (S.foldl (mark1 e) w) k = S.foldl (mark1 e) (initiate_validator_exit_pure cfg cur w k) := by
  induction S generalizing w with
  | nil => rfl
  | cons j js ih =>
    simp only [List.foldl_cons]
    rw [ih (mark1 e w j), ive_mark1_comm]

theorem ive_getElem?_ne (cfg : Config) (cur : Nat) (w : List Validator) (j k : Nat) (h : j ≠ k) :
    (initiate_validator_exit_pure cfg cur w j)[k]? = w[k]? := by
  rw [ive_unfold]
  cases hj : w[j]? with
  | none => rfl
  | some v =>
    simp only []
    split
    · rfl
    · rw [List.getElem?_set_ne h]

theorem marks_getElem?_notin (e : Nat) (S : List Nat) (w : List Validator) (k : Nat) (h : k ∉ S) :
    (S.foldl (mark1 e) w)[k]? = w[k]? := by
  induction S generalizing w with
  | nil => rfl
  | cons j js ih =>
    simp only [List.foldl_cons]
    rw [ih _ (fun h' => h (by simp [h'])), mark1_getElem?]
    have : j ≠ k := fun h' => h (by simp [h'])
    simp [this]

theorem ives_getElem?_notin (cfg : Config) (cur : Nat) (S : List Nat) (w : List Validator) (k : Nat) (h : k ∉ S) :
    (S.foldl (initiate_validator_exit_pure cfg cur) w)[k]? = w[k]? := by
  induction S generalizing w with
  | nil => rfl
  | cons j js ih =>
    simp only [List.foldl_cons]
    rw [ih _ (fun h' => h (by simp [h'])), ive_getElem?_ne]
    exact fun h' => h (by simp [h'])

/-- the spec's condition for an ejection that changes something, on the original registry -/
def pEject (cfg : Config) (cur : Nat) (vals : List Validator) (i : Nat) : Bool :=
  match vals[i]? with
  | some v => is_active_validator v cur && decide (v.effective_balance ≤ cfg.EJECTION_BALANCE) && v.exit_epoch == FAR_FUTURE_EPOCH
  | none => false

def pMark (cfg : Config) (vals : List Validator) (i : Nat) : Bool :=
  match vals[i]? with
  | some v => is_eligible_for_activation_queue cfg v
  | none => false

theorem filter_range_succ (p : Nat → Bool) (k : Nat) :
    (List.range (k + 1)).filter p = (List.range k).filter p ++ (if p k then [k] else []) := by
  rw [List.range_succ, List.filter_append]
  simp only [List.filter_cons, List.filter_nil]

theorem notin_filter_range (p : Nat → Bool) (k : Nat) : k ∉ (List.range k).filter p := by
  intro h
  have := (List.mem_filter.mp h).1
  simp at this

/-- The first loop of `process_registry_updates`, validator by validator (eligibility mark, then ejection through
`initiate_validator_exit`), equals: all ejections first (on the validators that were ejectable at the start, in index
order), then all eligibility marks. -/
theorem first_loop_prefix (cfg : Config) (cur : Nat) (vals : List Validator) (k : Nat) :
    (List.range k).foldl (fun vals index =>
      match vals[index]? with
      | none => vals
      | some validator =>
        let vals :=
          if is_eligible_for_activation_queue cfg validator then
            vals.set index { validator with activation_eligibility_epoch := cur + 1 }
          else vals
        if is_active_validator validator cur && validator.effective_balance ≤ cfg.EJECTION_BALANCE then
          initiate_validator_exit_pure cfg cur vals index
        else vals) vals =
    ((List.range k).filter (pMark cfg vals)).foldl (mark1 (cur + 1))
      (((List.range k).filter (pEject cfg cur vals)).foldl (initiate_validator_exit_pure cfg cur) vals) := by
  induction k with
  | zero => rfl
  | succ k ih =>
    rw [List.range_succ, List.foldl_append, ih]
    simp only [List.filter_append, List.filter_cons, List.filter_nil, List.foldl_append]
    generalize hW : ((List.range k).filter (pEject cfg cur vals)).foldl (initiate_validator_exit_pure cfg cur) vals = W
    have hk : (((List.range k).filter (pMark cfg vals)).foldl (mark1 (cur + 1)) W)[k]? = vals[k]? := by
      rw [marks_getElem?_notin _ _ _ _ (notin_filter_range _ k), ← hW,
        ives_getElem?_notin _ _ _ _ _ (notin_filter_range _ k)]
    simp only [List.foldl_cons, List.foldl_nil, hk]
    cases hv : vals[k]? with
    | none => simp [pEject, pMark, hv]
    | some v =>
      simp only [pEject, pMark, hv]
      -- the mark
      have hmark : (if is_eligible_for_activation_queue cfg v = true then
            (((List.range k).filter (pMark cfg vals)).foldl (mark1 (cur + 1)) W).set k
              { v with activation_eligibility_epoch := cur + 1 }
          else ((List.range k).filter (pMark cfg vals)).foldl (mark1 (cur + 1)) W) =
          (if is_eligible_for_activation_queue cfg v = true then [k] else []).foldl (mark1 (cur + 1))
            (((List.range k).filter (pMark cfg vals)).foldl (mark1 (cur + 1)) W) := by
        split
        · simp only [List.foldl_cons, List.foldl_nil, mark1, hk, hv]
        · rfl
      rw [hmark, ← List.foldl_append]
      generalize hM : (List.range k).filter (pMark cfg vals) ++ (if is_eligible_for_activation_queue cfg v = true then [k] else []) = M
      by_cases hact : (is_active_validator v cur && decide (v.effective_balance ≤ cfg.EJECTION_BALANCE)) = true
      · rw [if_pos hact, ive_marks_comm]
        by_cases hfar : v.exit_epoch = FAR_FUTURE_EPOCH
        · simp [hact, hfar, ← hM, List.foldl_append]
        · -- `initiate_validator_exit` leaves a validator with an exit epoch alone
          have hWk : W[k]? = some v := by
            rw [← hW, ives_getElem?_notin _ _ _ _ _ (notin_filter_range _ k)]; exact hv
          have : initiate_validator_exit_pure cfg cur W k = W := by
            rw [ive_unfold, hWk]; simp [hfar]
          rw [this]
          simp [hact, hfar, ← hM, List.foldl_append]
      · rw [if_neg hact]
        have : (is_active_validator v cur && decide (v.effective_balance ≤ cfg.EJECTION_BALANCE) && v.exit_epoch == FAR_FUTURE_EPOCH) = false := by
          simp only [Bool.not_eq_true] at hact
          simp [hact]
        simp [this, ← hM, List.foldl_append]

theorem first_loop_eq (cfg : Config) (cur : Nat) (vals : List Validator) :
    registry_eligibility_and_ejections_pure cfg cur vals =
      Impl.setEligibility (cur + 1) (Impl.computeRegistryProcessData cfg vals cur).indicesToSetActivationEligibility
        ((Impl.computeRegistryProcessData cfg vals cur).indicesToEject.foldl (initiate_validator_exit_pure cfg cur) vals) := by
  have h1 : (Impl.computeRegistryProcessData cfg vals cur).indicesToEject =
      (List.range vals.length).filter (pEject cfg cur vals) := by
    unfold Impl.computeRegistryProcessData
    exact zip_filter_fst vals (fun f => is_active_validator f cur && decide (f.effective_balance ≤ cfg.EJECTION_BALANCE) &&
      f.exit_epoch == FAR_FUTURE_EPOCH)
  have h2 : (Impl.computeRegistryProcessData cfg vals cur).indicesToSetActivationEligibility =
      (List.range vals.length).filter (pMark cfg vals) := by
    unfold Impl.computeRegistryProcessData
    exact zip_filter_fst vals (fun f => f.activation_eligibility_epoch == FAR_FUTURE_EPOCH &&
      f.effective_balance == cfg.MAX_EFFECTIVE_BALANCE)
  rw [h1, h2, setEligibility_eq]
  exact first_loop_prefix cfg cur vals vals.length

/-! ### the activation queue after the first loop -/

/-- relation between a registry and what the first loop makes of it, as far as the activation queue can see -/
def QueueView (cur : Nat) (vals w : List Validator) : Prop :=
  w.length = vals.length ∧
  ∀ (i : Nat) (v v' : Validator), vals[i]? = some v → w[i]? = some v' →
    v'.activation_epoch = v.activation_epoch ∧
    (v'.activation_eligibility_epoch = v.activation_eligibility_epoch ∨
      (v.activation_eligibility_epoch = FAR_FUTURE_EPOCH ∧ v'.activation_eligibility_epoch = cur + 1))

theorem queueView_set (cur : Nat) (vals w : List Validator) (j : Nat) (u u' : Validator) (h : QueueView cur vals w)
    (hu : w[j]? = some u) (hae : u'.activation_epoch = u.activation_epoch)
    (haee : u'.activation_eligibility_epoch = u.activation_eligibility_epoch ∨
      (u.activation_eligibility_epoch = FAR_FUTURE_EPOCH ∧ u'.activation_eligibility_epoch = cur + 1)) :
    QueueView cur vals (w.set j u') := by
  refine ⟨by simp [h.1], ?_⟩
  intro i v v' hv hv'
  rw [List.getElem?_set] at hv'
  by_cases hji : j = i
  · subst hji
    obtain ⟨hj, _⟩ := List.getElem?_eq_some_iff.mp hu
    simp only [↓reduceIte, hj, Option.some.injEq] at hv'
    try subst hv'
    obtain ⟨h1, h2⟩ := h.2 j v u hv hu
    refine ⟨by rw [hae, h1], ?_⟩
    rcases haee with e | ⟨e1, e2⟩
    · rw [e]; exact h2
    · right
      refine ⟨?_, e2⟩
      rcases h2 with e3 | ⟨e3, _⟩
      · rw [← e3]; exact e1
      · exact e3
  · simp only [hji, ↓reduceIte] at hv'
    exact h.2 i v v' hv hv'

theorem queueView_ive (cfg : Config) (cur : Nat) (vals w : List Validator) (j : Nat) (h : QueueView cur vals w) :
    QueueView cur vals (initiate_validator_exit_pure cfg cur w j) := by
  rw [ive_unfold]
  cases hj : w[j]? with
  | none => exact h
  | some u =>
    simp only []
    split
    · exact h
    · exact queueView_set cur vals w j u _ h hj rfl (Or.inl rfl)

theorem queueView_first_loop (cfg : Config) (cur : Nat) (vals : List Validator) :
    QueueView cur vals (registry_eligibility_and_ejections_pure cfg cur vals) := by
  unfold registry_eligibility_and_ejections_pure
  refine foldl_preserves (fun (w : List Validator) => QueueView cur vals w) _ _ _ ?_ ?_
  · exact ⟨rfl, fun i v v' hv hv' => by rw [hv] at hv'; injection hv' with e; subst e; exact ⟨rfl, Or.inl rfl⟩⟩
  · intro w j hw
    cases hj : w[j]? with
    | none => simpa using hw
    | some u =>
      simp only []
      have h1 : QueueView cur vals (if is_eligible_for_activation_queue cfg u = true then
          w.set j { u with activation_eligibility_epoch := cur + 1 } else w) := by
        split
        · rename_i he
          refine queueView_set cur vals w j u _ hw hj rfl ?_
          right
          unfold is_eligible_for_activation_queue at he
          simp only [Bool.and_eq_true, beq_iff_eq] at he
          exact ⟨he.1, rfl⟩
        · exact hw
      split
      · exact queueView_ive cfg cur vals _ j h1
      · exact h1

theorem mergeSort_congr (le le' : Nat → Nat → Bool) (L : List Nat)
    (hagree : ∀ a b, a ∈ L → b ∈ L → le a b = le' a b)
    (trans : ∀ a b c, le a b = true → le b c = true → le a c = true) (total : ∀ a b, (le a b || le b a) = true)
    (trans' : ∀ a b c, le' a b = true → le' b c = true → le' a c = true) (total' : ∀ a b, (le' a b || le' b a) = true)
    (antisymm : ∀ a b, le a b = true → le b a = true → a = b) :
    L.mergeSort le = L.mergeSort le' := by
  apply List.Perm.eq_of_pairwise (le := fun a b => le a b = true)
  · intro a b _ _ h1 h2; exact antisymm a b h1 h2
  · exact List.pairwise_mergeSort trans total L
  · have h := List.pairwise_mergeSort trans' total' L
    refine List.Pairwise.imp_of_mem ?_ h
    intro a b ha hb hab
    rw [hagree a b (List.mem_mergeSort.mp ha) (List.mem_mergeSort.mp hb)]; exact hab
  · exact (List.mergeSort_perm L le).trans (List.mergeSort_perm L le').symm

/-- the activation queue of the registry after the first loop is the queue of the registry before it -/
theorem activation_queue_first_loop (cur fin : Nat) (vals w : List Validator) (h : QueueView cur vals w)
    (hfin : fin ≤ cur) (hcur : cur < FAR_FUTURE_EPOCH) :
    activation_queue_pure fin w = activation_queue_pure fin vals := by
  unfold activation_queue_pure
  have hget : ∀ i, i < vals.length → ∃ v v', vals[i]? = some v ∧ w[i]? = some v' := by
    intro i hi
    have hi' : i < w.length := by rw [h.1]; exact hi
    exact ⟨vals[i], w[i], List.getElem?_eq_getElem hi, List.getElem?_eq_getElem hi'⟩
  simp only []
  generalize hA : List.filter _ (List.range w.length) = A
  generalize hB : List.filter _ (List.range vals.length) = B
  have hAB : A = B := by
    rw [← hA, ← hB, h.1]
    apply List.filter_congr
    intro i hi
    obtain ⟨v, v', hv, hv'⟩ := hget i (List.mem_range.mp hi)
    obtain ⟨h1, h2⟩ := h.2 i v v' hv hv'
    simp only [hv, hv', h1]
    rcases h2 with e | ⟨e1, e2⟩
    · rw [e]
    · have a1 : ¬ v'.activation_eligibility_epoch ≤ fin := by omega
      have a2 : ¬ v.activation_eligibility_epoch ≤ fin := by omega
      simp [a1, a2]
  rw [hAB]
  apply mergeSort_congr
  · intro a b ha hb
    have key : ∀ c, c ∈ B →
        (w.getD c default).activation_eligibility_epoch = (vals.getD c default).activation_eligibility_epoch := by
      intro c hc
      rw [← hB] at hc
      obtain ⟨hc1, hc2⟩ := List.mem_filter.mp hc
      obtain ⟨v, v', hv, hv'⟩ := hget c (List.mem_range.mp hc1)
      simp only [hv, Bool.and_eq_true, decide_eq_true_eq] at hc2
      obtain ⟨_, h2⟩ := h.2 c v v' hv hv'
      have g1 : w.getD c default = v' := by simp [List.getD, hv']
      have g2 : vals.getD c default = v := by simp [List.getD, hv]
      rw [g1, g2]
      rcases h2 with e | ⟨e1, _⟩
      · exact e
      · omega
    unfold queueLe
    rw [key a ha, key b hb]
  · exact queueLe_trans w
  · exact queueLe_total w
  · exact queueLe_trans vals
  · exact queueLe_total vals
  · exact queueLe_antisymm w

/-- the first loop does not change who is active in the current epoch (exits are assigned to later epochs) -/
theorem first_loop_active_same (cfg : Config) (cur : Nat) (vals : List Validator) :
    (registry_eligibility_and_ejections_pure cfg cur vals).map (is_active_validator · cur) =
      vals.map (is_active_validator · cur) := by
  unfold registry_eligibility_and_ejections_pure
  refine foldl_preserves (fun (w : List Validator) => w.map (is_active_validator · cur) = vals.map (is_active_validator · cur)) _ _ _ rfl ?_
  intro w j hw
  cases hj : w[j]? with
  | none => simpa using hw
  | some u =>
    simp only []
    have h1 : (if is_eligible_for_activation_queue cfg u = true then
        w.set j { u with activation_eligibility_epoch := cur + 1 } else w).map (is_active_validator · cur) =
        vals.map (is_active_validator · cur) := by
      split
      · rw [map_set_same (is_active_validator · cur) w j u { u with activation_eligibility_epoch := cur + 1 } hj rfl]; exact hw
      · exact hw
    split
    · rename_i hact
      simp only [Bool.and_eq_true, decide_eq_true_eq] at hact
      rw [ive_unfold]
      generalize hW : (if is_eligible_for_activation_queue cfg u = true then
        w.set j { u with activation_eligibility_epoch := cur + 1 } else w) = W at h1 ⊢
      cases hWj : W[j]? with
      | none => exact h1
      | some u' =>
        simp only []
        split
        · exact h1
        · rename_i hfar
          have hu' : is_active_validator u' cur = true := by
            -- `W[j]` is `u` up to the eligibility epoch
            have : u'.activation_epoch = u.activation_epoch ∧ u'.exit_epoch = u.exit_epoch := by
              rw [← hW] at hWj
              split at hWj
              · obtain ⟨hi, _⟩ := List.getElem?_eq_some_iff.mp hj
                simp only [List.getElem?_set, ↓reduceIte, hi, Option.some.injEq] at hWj
                subst hWj; exact ⟨rfl, rfl⟩
              · rw [hj] at hWj; injection hWj with e; subst e; exact ⟨rfl, rfl⟩
            unfold is_active_validator at hact ⊢
            rw [this.1, this.2]; exact hact.1
          rw [map_set_same _ W j u' _ hWj ?_]; exact h1
          have hcur := (next_ge cfg cur W).2
          unfold is_active_validator exited at *
          simp only [Bool.and_eq_true, decide_eq_true_eq] at hu' ⊢
          simp [hu'.1, hcur, hu'.2]
    · exact h1

theorem churn_limit_first_loop (cfg : Config) (cur : Nat) (vals : List Validator) :
    churn_limit_of cfg (registry_eligibility_and_ejections_pure cfg cur vals) cur = churn_limit_of cfg vals cur := by
  have h := first_loop_active_same cfg cur vals
  unfold churn_limit_of
  have : ∀ l : List Validator, (l.filter (is_active_validator · cur)).length =
      ((l.map (is_active_validator · cur)).filter id).length := by
    intro l; rw [List.filter_map, List.length_map]; rfl
  rw [this, this, h]

end Zrnt.Proofs.Lemmas
