import Zrnt.Beacon.Impl.Epoch
/-! Helper lemmas for the C02 property theorems (registry exit queue, activation queue, bits). -/
namespace Zrnt.Proofs.Lemmas
open Zrnt.Beacon Zrnt.Beacon.Spec

theorem testBit_eq (n i : Nat) : Nat.testBit n i = decide ((n / 2 ^ i) % 2 = 1) := by
  rw [Nat.testBit_eq_decide_div_mod_eq]

end Zrnt.Proofs.Lemmas
