import Proofs.Lemmas.ForkChoiceRefStatic
import Proofs.Lemmas.ForkChoiceBest
/-!
# Fork choice: the specification's LMD-GHOST head is what `FindHead` answers (static part of C09)

For a fixed pair `Ref fc a` with `WF fc.pa`, settled votes (`cur = next`), `WeightsAre`, `LinksOK`, `SibDistinct`:

1. `better_absAt`: on two nodes of the array `Abs.better` picks the second one exactly when it `beats` the first
   (`subtreeWeight_eq` + `WeightsAre`: the specification compares the numbers stored as `weight`);
   `foldl_better`: folding `better` over a list of siblings ends at their `beats`-maximum (`beats_total`,
   `beats_trans`); `best_eq_bestChild`: `Abs.best` of the leading children of a node is the abstraction of the
   node's `bestChild` (`LinkOK`; uniqueness of the maximum by `beats_asymm`).
2. `ghost_eq_bestPath'` (every fuel, no bound needed), `ghost_eq_bestPath` (as asked for), `ghost_fuel_eq`
   (`a.fuel = length + 1`, `bestPath_stable`): `Abs.ghost` and `bestPath` walk in lock-step.
3. `headFrom_eq_findHead` (THE RESULT), `findHead_state`, `headFrom_eq_findHead_full`.

Non-vacuity: `headExFC`/`headExAbs` at the end (three nodes, one applied vote that overrules the root tie-break).
-/
namespace Zrnt.ForkChoice
open Spec

/-- abstraction of the node at index `c` -/
def absAt (ns : List Node) (c : Nat) : SNode := absNode ns (ns[c]?.getD default)

theorem absAt_of_node {ns : List Node} {c : Nat} {nc : Node} (hc : ns[c]? = some nc) :
    absAt ns c = absNode ns nc := by
  unfold absAt; rw [hc]; rfl

section
variable {fc : FC} {a : Abs}

/-! ## 1. `better` / `best` against `beats` -/

theorem subtreeWeight_weight (h : WF fc.pa) (r : Ref fc a) (hz : NoZero fc.pa)
    (hset : ∀ v ∈ fc.votes, v.cur = v.next) (hw : WeightsAre fc.pa fc.votes fc.balances)
    {c : Nat} {nc : Node} (hc : fc.pa.nodes[c]? = some nc) :
    ((a.subtreeWeight nc.ref : Nat) : Int) = nc.weight := by
  rw [subtreeWeight_eq h r hz hset hc rfl, hw c nc hc]

theorem RefHead.better_cond (wx wy : Nat) (rx ry : Nat) (ix iy : Int) (hx : (wx : Int) = ix) (hy : (wy : Int) = iy) :
    (decide (wy > wx) || (wy == wx && decide (ry > rx))) = true ↔ (iy > ix ∨ (iy = ix ∧ ry > rx)) := by
  subst hx hy
  simp only [Bool.or_eq_true, Bool.and_eq_true, decide_eq_true_eq, beq_iff_eq]
  omega

theorem RefHead.better_gen (a : Abs) (x y : SNode) (ix iy : Int) (hx : ((a.subtreeWeight x.ref : Nat) : Int) = ix)
    (hy : ((a.subtreeWeight y.ref : Nat) : Int) = iy) :
    a.better x y = if (iy > ix ∨ (iy = ix ∧ y.ref.root > x.ref.root)) then y else x := by
  have k := RefHead.better_cond _ _ x.ref.root y.ref.root _ _ hx hy
  unfold Abs.better
  by_cases hp : (iy > ix ∨ (iy = ix ∧ y.ref.root > x.ref.root))
  · rw [if_pos hp]; exact if_pos (k.2 hp)
  · rw [if_neg hp]; exact if_neg (fun x => hp (k.1 x))

theorem better_absNode (h : WF fc.pa) (r : Ref fc a) (hz : NoZero fc.pa)
    (hset : ∀ v ∈ fc.votes, v.cur = v.next) (hw : WeightsAre fc.pa fc.votes fc.balances)
    {c c' : Nat} {nc nc' : Node} (hc : fc.pa.nodes[c]? = some nc) (hc' : fc.pa.nodes[c']? = some nc') :
    a.better (absNode fc.pa.nodes nc) (absNode fc.pa.nodes nc') =
      if (nc'.weight > nc.weight ∨ (nc'.weight = nc.weight ∧ nc'.ref.root > nc.ref.root))
      then absNode fc.pa.nodes nc' else absNode fc.pa.nodes nc :=
  RefHead.better_gen a _ _ _ _ (subtreeWeight_weight h r hz hset hw hc) (subtreeWeight_weight h r hz hset hw hc')

/-- item 1, first half: `better` picks the second candidate exactly when it `beats` the first -/
theorem better_absAt (h : WF fc.pa) (r : Ref fc a) (hz : NoZero fc.pa)
    (hset : ∀ v ∈ fc.votes, v.cur = v.next) (hw : WeightsAre fc.pa fc.votes fc.balances)
    {c c' : Nat} {nc nc' : Node} (hc : fc.pa.nodes[c]? = some nc) (hc' : fc.pa.nodes[c']? = some nc') :
    (beats fc.pa.nodes c' c → a.better (absAt fc.pa.nodes c) (absAt fc.pa.nodes c') = absAt fc.pa.nodes c') ∧
    (¬ beats fc.pa.nodes c' c → a.better (absAt fc.pa.nodes c) (absAt fc.pa.nodes c') = absAt fc.pa.nodes c) := by
  rw [absAt_of_node hc, absAt_of_node hc', better_absNode h r hz hset hw hc hc', beats_nodes hc' hc]
  exact ⟨fun hb => if_pos hb, fun hb => if_neg hb⟩

theorem beats_asymm {ns : List Node} {b c : Nat} (h1 : beats ns b c) (h2 : beats ns c b) : False := by
  obtain ⟨nb, hb⟩ := beats_left h1
  obtain ⟨nc, hc⟩ := beats_right h1
  rw [beats_nodes hb hc] at h1
  rw [beats_nodes hc hb] at h2
  rcases h1 with h1 | ⟨h1, h1'⟩ <;> rcases h2 with h2 | ⟨h2, h2'⟩
  · omega
  · omega
  · omega
  · exact Nat.lt_asymm h1' h2'

/-- among siblings `beats` is total -/
theorem beats_total {pr : PA} (hs : SibDistinct pr) {c c' p : Nat} (hcp : fpar pr.nodes c = some p)
    (hcp' : fpar pr.nodes c' = some p) (hn : ¬ beats pr.nodes c' c) : c = c' ∨ beats pr.nodes c c' := by
  obtain ⟨nc, hc, _⟩ := fpar_node hcp
  obtain ⟨nc', hc', _⟩ := fpar_node hcp'
  rw [beats_nodes hc' hc] at hn
  rw [beats_nodes hc hc']
  by_cases e : nc.ref.root = nc'.ref.root
  · exact Or.inl (hs c c' p nc nc' hcp hcp' hc hc' e)
  · right
    by_cases hw : nc.weight > nc'.weight
    · exact Or.inl hw
    · right
      have hw' : nc.weight = nc'.weight := by
        have : ¬ nc'.weight > nc.weight := fun x => hn (Or.inl x)
        omega
      refine ⟨hw', ?_⟩
      have : ¬ nc'.ref.root > nc.ref.root := fun x => hn (Or.inr ⟨hw'.symm, x⟩)
      exact Nat.lt_of_le_of_ne (Nat.le_of_not_lt this) (fun x => e x.symm)

/-- item 1, second half: folding `better` over siblings ends at their `beats`-maximum -/
theorem foldl_better (h : WF fc.pa) (r : Ref fc a) (hz : NoZero fc.pa)
    (hset : ∀ v ∈ fc.votes, v.cur = v.next) (hw : WeightsAre fc.pa fc.votes fc.balances)
    (hs : SibDistinct fc.pa) (p : Nat) :
    ∀ (xs : List Nat) (x : Nat), (∀ c ∈ x :: xs, fpar fc.pa.nodes c = some p) →
      ∃ m, m ∈ x :: xs ∧ (∀ c ∈ x :: xs, c = m ∨ beats fc.pa.nodes m c) ∧
        (xs.map (absAt fc.pa.nodes)).foldl a.better (absAt fc.pa.nodes x) = absAt fc.pa.nodes m := by
  intro xs
  induction xs with
  | nil =>
    intro x _
    exact ⟨x, List.mem_cons_self .., fun c hc => Or.inl (by simpa using hc), rfl⟩
  | cons y ys ih =>
    intro x hch
    have hxp := hch x (List.mem_cons_self ..)
    have hyp := hch y (List.mem_cons_of_mem _ (List.mem_cons_self ..))
    obtain ⟨nx, hx, _⟩ := fpar_node hxp
    obtain ⟨ny, hy, _⟩ := fpar_node hyp
    have hb := better_absAt h r hz hset hw hx hy
    rw [List.map_cons, List.foldl_cons]
    by_cases hbe : beats fc.pa.nodes y x
    · rw [hb.1 hbe]
      obtain ⟨m, hm, hmax, e⟩ := ih y (fun c hc => hch c (List.mem_cons_of_mem _ hc))
      refine ⟨m, List.mem_cons_of_mem _ hm, ?_, e⟩
      intro c hc
      rcases List.mem_cons.1 hc with rfl | hc
      · rcases hmax y (List.mem_cons_self ..) with e' | e'
        · right; rw [← e']; exact hbe
        · right; exact beats_trans e' hbe
      · exact hmax c hc
    · rw [hb.2 hbe]
      obtain ⟨m, hm, hmax, e⟩ := ih x (fun c hc => by
        rcases List.mem_cons.1 hc with rfl | hc
        · exact hxp
        · exact hch c (List.mem_cons_of_mem _ (List.mem_cons_of_mem _ hc)))
      refine ⟨m, ?_, ?_, e⟩
      · rcases List.mem_cons.1 hm with rfl | hm
        · exact List.mem_cons_self ..
        · exact List.mem_cons_of_mem _ (List.mem_cons_of_mem _ hm)
      · intro c hc
        rcases List.mem_cons.1 hc with rfl | hc
        · exact hmax c (List.mem_cons_self ..)
        · rcases List.mem_cons.1 hc with rfl | hc
          · rcases beats_total hs hxp hyp hbe with e' | e'
            · rw [← e']; exact hmax x (List.mem_cons_self ..)
            · rcases hmax x (List.mem_cons_self ..) with e'' | e''
              · right; rw [← e'']; exact e'
              · right; exact beats_trans e'' e'
          · exact hmax c (List.mem_cons_of_mem _ hc)


/-- the specification's leading children of node `p` are the abstractions of the model's leading children -/
theorem leading_children_eq (h : WF fc.pa) (r : Ref fc a) {p : Nat} {np : Node} (hp : fc.pa.nodes[p]? = some np) :
    (a.children np.ref).filter (a.leads a.fuel) =
      ((childrenOf fc.pa.nodes p).filter (leads fc.pa)).map (absAt fc.pa.nodes) := by
  rw [children_eq_map h r hp]
  show ((childrenOf fc.pa.nodes p).map (absAt fc.pa.nodes)).filter (a.leads a.fuel) = _
  rw [List.filter_map]
  congr 1
  apply List.filter_congr
  intro c hc
  obtain ⟨nc, hnc, _⟩ := fpar_node (mem_childrenOf.1 hc)
  show a.leads a.fuel (absAt fc.pa.nodes c) = _
  rw [absAt_of_node hnc, leads_eq h r hnc]

theorem mem_leading {pr : PA} {p c : Nat} :
    c ∈ (childrenOf pr.nodes p).filter (leads pr) ↔ fpar pr.nodes c = some p ∧ leads pr c = true := by
  rw [List.mem_filter, mem_childrenOf]

/-- item 1, conclusion: the specification's `best` among the leading children of a node is the abstraction of
the node's best child -/
theorem best_eq_bestChild (h : WF fc.pa) (r : Ref fc a) (hz : NoZero fc.pa)
    (hset : ∀ v ∈ fc.votes, v.cur = v.next) (hw : WeightsAre fc.pa fc.votes fc.balances)
    (hl : LinksOK fc.pa) (hs : SibDistinct fc.pa) {p : Nat} {np : Node} (hp : fc.pa.nodes[p]? = some np) :
    a.best ((a.children np.ref).filter (a.leads a.fuel)) =
      np.bestChild.map (fun b => absNode fc.pa.nodes (fc.pa.nodes[b]?.getD default)) := by
  rw [leading_children_eq h r hp]
  obtain ⟨hnone, hsome⟩ := hl p np hp
  cases hbc : np.bestChild with
  | none =>
    have : (childrenOf fc.pa.nodes p).filter (leads fc.pa) = [] := by
      apply List.eq_nil_iff_forall_not_mem.2
      intro c hc
      obtain ⟨hcp, hlc⟩ := mem_leading.1 hc
      rw [hnone hbc c hcp] at hlc
      cases hlc
    rw [this]; rfl
  | some b =>
    obtain ⟨hbp, hlb, hmaxb, _⟩ := hsome b hbc
    have hb : b ∈ (childrenOf fc.pa.nodes p).filter (leads fc.pa) := mem_leading.2 ⟨hbp, hlb⟩
    cases hcs : (childrenOf fc.pa.nodes p).filter (leads fc.pa) with
    | nil => rw [hcs] at hb; cases hb
    | cons x xs =>
      rw [hcs] at hb
      have hch : ∀ c ∈ x :: xs, fpar fc.pa.nodes c = some p ∧ leads fc.pa c = true := by
        intro c hc; rw [← hcs] at hc; exact mem_leading.1 hc
      obtain ⟨m, hm, hmax, e⟩ := foldl_better h r hz hset hw hs p xs x (fun c hc => (hch c hc).1)
      have hmb : m = b := by
        rcases hmax b hb with e1 | e1
        · exact e1.symm
        · rcases hmaxb m (hch m hm).1 (hch m hm).2 with e2 | e2
          · exact e2
          · exact (beats_asymm e1 e2).elim
      subst hmb
      show some ((xs.map (absAt fc.pa.nodes)).foldl a.better (absAt fc.pa.nodes x)) = some (absAt fc.pa.nodes m)
      rw [e]

/-! ## 2. the walk -/

/-- `ghost` and `bestPath` move in lock-step (for every fuel) -/
theorem ghost_eq_bestPath' (h : WF fc.pa) (r : Ref fc a) (hz : NoZero fc.pa)
    (hset : ∀ v ∈ fc.votes, v.cur = v.next) (hw : WeightsAre fc.pa fc.votes fc.balances)
    (hl : LinksOK fc.pa) (hs : SibDistinct fc.pa) :
    ∀ (fuel i : Nat) (n : Node), fc.pa.nodes[i]? = some n →
      a.ghost fuel (absNode fc.pa.nodes n) =
        absNode fc.pa.nodes (fc.pa.nodes[bestPath fc.pa fuel i]?.getD default) := by
  intro fuel
  induction fuel with
  | zero =>
    intro i n hn
    show absNode fc.pa.nodes n = absAt fc.pa.nodes i
    rw [absAt_of_node hn]
  | succ f ih =>
    intro i n hn
    rw [Abs.ghost, bestPath, absNode_ref, best_eq_bestChild h r hz hset hw hl hs hn, hn]
    simp only [Option.bind_some]
    cases hbc : n.bestChild with
    | none =>
      show absNode fc.pa.nodes n = absAt fc.pa.nodes i
      rw [absAt_of_node hn]
    | some b =>
      obtain ⟨nb, hnb, _⟩ := fpar_node (h.bc_child i n b hn hbc)
      simp only [Option.map_some, hnb, Option.getD_some]
      exact ih b nb hnb

/-- one more unit of fuel does not move the end of the best-child path -/
theorem bestPath_stable {pr : PA} (h : WF pr) :
    ∀ (f i : Nat), pr.nodes.length ≤ i + f → bestPath pr (f + 1) i = bestPath pr f i := by
  intro f
  induction f with
  | zero =>
    intro i hi
    have e : pr.nodes[i]? = none := List.getElem?_eq_none (by omega)
    simp [bestPath, e]
  | succ f ih =>
    intro i hi
    rw [bestPath, bestPath]
    cases hn : pr.nodes[i]? with
    | none => rfl
    | some n =>
      simp only [Option.bind_some]
      cases hbc : n.bestChild with
      | none => rfl
      | some b =>
        have := h.fpar_lt' b i (h.bc_child i n b hn hbc)
        exact ih b (by omega)


/-- item 2 as asked for (the bound on the fuel is not needed for the lock-step equation; it is what makes the
right-hand side the end of the path, `bestPath_end`) -/
theorem ghost_eq_bestPath (h : WF fc.pa) (r : Ref fc a) (hz : NoZero fc.pa)
    (hset : ∀ v ∈ fc.votes, v.cur = v.next) (hw : WeightsAre fc.pa fc.votes fc.balances)
    (hl : LinksOK fc.pa) (hs : SibDistinct fc.pa) :
    ∀ (fuel i : Nat) (n : Node), fc.pa.nodes[i]? = some n → fc.pa.nodes.length ≤ i + fuel →
      a.ghost fuel (absNode fc.pa.nodes n) =
        absNode fc.pa.nodes (fc.pa.nodes[bestPath fc.pa fuel i]?.getD default) :=
  fun fuel i n hn _ => ghost_eq_bestPath' h r hz hset hw hl hs fuel i n hn

/-- the specification's walk with its own fuel ends at the end of the best-child path -/
theorem ghost_fuel_eq (h : WF fc.pa) (r : Ref fc a) (hz : NoZero fc.pa)
    (hset : ∀ v ∈ fc.votes, v.cur = v.next) (hw : WeightsAre fc.pa fc.votes fc.balances)
    (hl : LinksOK fc.pa) (hs : SibDistinct fc.pa) {i : Nat} {n nb : Node} (hn : fc.pa.nodes[i]? = some n)
    (hnb : fc.pa.nodes[bestPath fc.pa fc.pa.nodes.length i]? = some nb) :
    a.ghost a.fuel (absNode fc.pa.nodes n) = absNode fc.pa.nodes nb := by
  rw [fuel_eq r, ghost_eq_bestPath' h r hz hset hw hl hs _ i n hn,
    bestPath_stable h fc.pa.nodes.length i (by omega), hnb]
  rfl

/-! ## 3. the result -/

/-- `findHead` with connections up to date does not change the state -/
theorem findHead_state (pr : PA) (hu : pr.updated = true) (root : Root) (slot : Nat) :
    (∃ ref, pr.findHead root slot = .ok pr ref) ∨ pr.findHead root slot = .err pr := by
  rw [findHead_eq, hu]
  simp only [if_true]
  unfold findHeadStep
  repeat' split
  all_goals first
    | exact Or.inr rfl
    | exact Or.inl ⟨_, rfl⟩

/-- THE RESULT (C09, static part): with settled votes, correct weights and correct links, the specification's
LMD-GHOST head from any start node is the answer of `FindHead`, an error on one side being an error on the other. -/
theorem headFrom_eq_findHead (h : WF fc.pa) (r : Ref fc a) (hz : NoZero fc.pa)
    (hset : ∀ v ∈ fc.votes, v.cur = v.next) (hw : WeightsAre fc.pa fc.votes fc.balances)
    (hl : LinksOK fc.pa) (hs : SibDistinct fc.pa) (hu : fc.pa.updated = true) (root : Root) (slot : Nat) :
    a.headFrom ⟨slot, root⟩ =
      (match fc.pa.findHead root slot with
       | .ok _ ref => some ref
       | _ => none) := by
  unfold Abs.headFrom
  cases hx : aGet fc.pa.indices ⟨slot, root⟩ with
  | none =>
    rw [find_none h r hx, findHead_eq, hu]
    simp only [if_true, findHeadStep, hx]
  | some x =>
    obtain ⟨na, nb, hna, _, hnb, _, hres⟩ := findHead_best fc.pa h hu hl root slot x hx
    rw [find_of_index h r hx hna, hres]
    simp only [ghost_fuel_eq h r hz hset hw hl hs hna hnb, viable_eq r, absNode_ref]
    cases fc.pa.viable nb <;> rfl

/-- item 3 in one statement -/
theorem headFrom_eq_findHead_full (h : WF fc.pa) (r : Ref fc a) (hz : NoZero fc.pa)
    (hset : ∀ v ∈ fc.votes, v.cur = v.next) (hw : WeightsAre fc.pa fc.votes fc.balances)
    (hl : LinksOK fc.pa) (hs : SibDistinct fc.pa) (hu : fc.pa.updated = true) (root : Root) (slot : Nat) :
    a.headFrom ⟨slot, root⟩ =
      (match fc.pa.findHead root slot with
       | .ok _ ref => some ref
       | _ => none) ∧
    ((∃ ref, fc.pa.findHead root slot = .ok fc.pa ref) ∨ fc.pa.findHead root slot = .err fc.pa) :=
  ⟨headFrom_eq_findHead h r hz hset hw hl hs hu root slot, findHead_state fc.pa hu root slot⟩

end

/-! ## non-vacuity

Three nodes `0:(1,0) 1:(1,1) 2:(2,1)`, nodes 1 and 2 children of node 0 (`refExPA2`); validator 0 with balance 32 has
voted for node 1 and the vote has been applied (`ApplyScoreChanges` with the deltas `[0, 32, 0]`). Without the
vote the greater root (node 2) would win; with it node 1 does. -/

def headExPA : PA := applied refExPA2 [0, 32, 0] 0 0

def headExFC : FC := { refExFC2 with pa := headExPA, votes := [⟨⟨1, 1⟩, ⟨1, 1⟩, 0, 0⟩] }

def headExAbs : Abs := (refExAbs2.processAttestation 0 1 1).1

theorem headEx_pa : WF headExPA ∧ LinksOK headExPA ∧ SibDistinct headExPA := by
  have hs := sibDistinct_of_chain refExPA2 refEx2_ok.1 refEx2_ok.2
  obtain ⟨pr', h1, hw, fr, hl, _⟩ :=
    linksOK_applyScoreChanges refExPA2 refEx2_ok.1 hs [0, 32, 0] (by decide) 0 0
  have e : headExPA = pr' := by unfold headExPA applied; rw [h1]
  rw [e]
  exact ⟨hw, hl, sibDistinct_frame fr hs⟩

theorem headEx_ref : Ref headExFC headExAbs :=
  { spe := rfl, nodes := by decide, votes := by decide, balances := rfl, justified := rfl,
    finalized := rfl, pin := rfl, sink := by decide, clean := by decide, jE := by decide, fE := by decide,
    fresh := by decide, next_in := by decide, cur_le := by decide, settled := fun _ => by decide }

theorem headEx_weights : WeightsAre headExFC.pa headExFC.votes headExFC.balances := by
  intro i n hn
  have key : ∀ i ∈ List.range headExFC.pa.nodes.length,
      (headExFC.pa.nodes[i]?).map (·.weight) = some (wsum headExFC.pa headExFC.votes headExFC.balances i) := by
    decide
  have := key i (List.mem_range.2 (List.getElem?_eq_some_iff.1 hn).1)
  rw [hn] at this
  exact Option.some.inj this

theorem headEx_noZero : NoZero headExFC.pa := by
  show aGet headExFC.pa.indices NodeRef.zero = none
  decide

/-- the hypotheses of `headFrom_eq_findHead` hold together -/
example : WF headExFC.pa ∧ Ref headExFC headExAbs ∧ NoZero headExFC.pa ∧ (∀ v ∈ headExFC.votes, v.cur = v.next) ∧
    WeightsAre headExFC.pa headExFC.votes headExFC.balances ∧ LinksOK headExFC.pa ∧ SibDistinct headExFC.pa ∧
    headExFC.pa.updated = true :=
  ⟨headEx_pa.1, headEx_ref, headEx_noZero, by decide, headEx_weights, headEx_pa.2.1, headEx_pa.2.2, by decide⟩

/-- both sides of `headFrom_eq_findHead` on the instance: the voted node 1 `(root 1, slot 1)` is the head from
the anchor, although node 2 has the greater root; an unknown start node is an error on both sides -/
example :
    headExFC.pa.nodes.map (fun n => (n.ref, n.weight, n.bestChild)) =
      [(⟨0, 1⟩, 32, some 1), (⟨1, 1⟩, 32, none), (⟨1, 2⟩, 0, none)] ∧
    headExAbs.headFrom ⟨0, 1⟩ = some ⟨1, 1⟩ ∧
    (match headExFC.pa.findHead 1 0 with | .ok _ ref => some ref | _ => none) = some ⟨1, 1⟩ ∧
    headExAbs.headFrom ⟨1, 2⟩ = some ⟨1, 2⟩ ∧
    (match headExFC.pa.findHead 2 1 with | .ok _ ref => some ref | _ => none) = some ⟨1, 2⟩ ∧
    headExAbs.headFrom ⟨5, 9⟩ = none ∧
    (match headExFC.pa.findHead 9 5 with | .ok _ ref => some ref | _ => none) = none := by decide

/-- … and without the vote the tie goes to the greater root, on both sides -/
example :
    refExAbs2.headFrom ⟨0, 1⟩ = some ⟨1, 2⟩ ∧
    (match (refExPA2.updateConnections).1.findHead 1 0 with | .ok _ ref => some ref | _ => none) = some ⟨1, 2⟩ := by
  decide

/-- … as the theorem says -/
example (root : Root) (slot : Nat) :
    headExAbs.headFrom ⟨slot, root⟩ =
      (match headExFC.pa.findHead root slot with | .ok _ ref => some ref | _ => none) :=
  headFrom_eq_findHead headEx_pa.1 headEx_ref headEx_noZero (by decide) headEx_weights headEx_pa.2.1 headEx_pa.2.2
    (by decide) root slot

end Zrnt.ForkChoice
