import Zrnt.Beacon.Impl.Epoch
import Proofs.Lemmas.C02Registry
/-! `justification_eq` of C02 (the case split over the 16 bit patterns and the two supermajority tests), kept in a file
with core-only imports: the `simp` calls below are sized for the core simp set. -/
namespace Zrnt.Proofs.Lemmas
open Zrnt.Beacon Zrnt.Beacon.Spec

theorem justification_eq' (previousEpoch currentEpoch : Nat) (f : FFG) (total prevT curT : Nat)
    (prevRoot curRoot : Bytes) (hbits : f.justification_bits.length = 4) :
    Impl.processEpochJustification previousEpoch currentEpoch f total prevT curT prevRoot curRoot =
      weigh_justification_and_finalization_pure previousEpoch currentEpoch f total prevT curT prevRoot curRoot := by
  rcases f with ⟨bits, pj, cj, fin⟩
  match bits, hbits with
  | [a, b, c, d], _ =>
    by_cases h1 : prevT * 3 ≥ total * 2 <;> by_cases h2 : curT * 3 ≥ total * 2 <;>
    cases a <;> cases b <;> cases c <;> cases d <;>
    simp [Impl.processEpochJustification, weigh_justification_and_finalization_pure, h1, h2,
      Impl.bitsToByte, Impl.byteToBits, Impl.nextEpochBits, Impl.isJustified, JUSTIFICATION_BITS_LENGTH, Id.run,
      testBit_eq, pure] <;>
    (repeat' split) <;> simp_all

end Zrnt.Proofs.Lemmas
