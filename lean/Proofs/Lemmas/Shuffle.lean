import Zrnt.Shuffle.Model
import Zrnt.Shuffle.Spec
namespace Zrnt.Proofs.Shuffle
/-! Helper lemmas for C06 (per-index part): one swap-or-not round in plain arithmetic (`sigma`), the
model loops as iterated rounds (`permUp`/`permDown`), inverse laws, and the link to the literal
specification function. -/
open Zrnt Zrnt.Shuffle

theorem and255 (j : Nat) : j &&& 0xff = j % 256 := Nat.and_two_pow_sub_one_eq_mod j 8
theorem and7 (j : Nat) : j &&& 0x7 = j % 8 := Nat.and_two_pow_sub_one_eq_mod j 3
theorem shr8 (j : Nat) : j >>> 8 = j / 256 := Nat.shiftRight_eq_div_pow j 8
theorem shr3 (j : Nat) : j >>> 3 = j / 8 := Nat.shiftRight_eq_div_pow j 3

/-- the bit the specification selects for (`round`, `position`) -/
def bitAt (h : Hasher) (r pos : Nat) : Bool :=
  bitV (byteAt (h.blockOf r (u32 (pos >>> 8))) ((pos &&& 0xff) >>> 3)) pos = 1

/-- `flip = (pivot + n - x) mod n` -/
def flipOf (p n x : Nat) : Nat := (p + n - x) % n

/-- one swap-or-not round, in plain arithmetic -/
def sigma (h : Hasher) (n r x : Nat) : Nat :=
  let flip := flipOf (h.pivotRaw r % n) n x
  if bitAt h r (max x flip) then flip else x

theorem flipOf_eq {p n x : Nat} (hp : p < n) (hx : x < n) :
    flipOf p n x = if x ≤ p then p - x else p + n - x := by
  unfold flipOf
  split
  · have : p + n - x = n + (p - x) := by omega
    rw [this, Nat.add_mod_left, Nat.mod_eq_of_lt (by omega)]
  · exact Nat.mod_eq_of_lt (by omega)

theorem flipOf_lt {p n x : Nat} (hn : 0 < n) : flipOf p n x < n := Nat.mod_lt _ hn

theorem flip_involutive {p n x : Nat} (hp : p < n) (hx : x < n) : flipOf p n (flipOf p n x) = x := by
  have h1 := flipOf_eq hp hx
  have h2 := flipOf_eq hp (flipOf_lt (p := p) (x := x) (by omega))
  rw [h2, h1]; split <;> split <;> omega

theorem sigma_lt {h : Hasher} {n r x : Nat} (hx : x < n) : sigma h n r x < n := by
  unfold sigma; simp only; split
  · exact flipOf_lt (by omega)
  · exact hx

theorem sigma_involutive {h : Hasher} {n r x : Nat} (hx : x < n) : sigma h n r (sigma h n r x) = x := by
  have hp : h.pivotRaw r % n < n := Nat.mod_lt _ (by omega)
  unfold sigma; simp only
  by_cases hb : bitAt h r (max x (flipOf (h.pivotRaw r % n) n x)) = true
  · simp only [hb, if_true]
    rw [flip_involutive hp hx, Nat.max_comm, hb]; simp
  · simp only [hb]; simp [hb]

theorem permRound_eq_sigma {h : Hasher} {n r x : Nat} (hx : x < n) (hn : n ≤ 2 ^ 63) :
    permRound h n r x = sigma h n r x := by
  have hp : h.pivotRaw r % n < n := Nat.mod_lt _ (by omega)
  have hfl : add64 (h.pivotRaw r % n) (sub64 n x) % n = flipOf (h.pivotRaw r % n) n x := by
    unfold add64 sub64 flipOf W64
    have h1 : (18446744073709551616 + n - x) % 18446744073709551616 = n - x := by omega
    rw [h1]
    have h2 : (h.pivotRaw r % n + (n - x)) % 18446744073709551616 = h.pivotRaw r % n + n - x := by omega
    rw [h2]
  unfold permRound sigma bitAt
  simp only [hfl]
  have hmax : (if flipOf (h.pivotRaw r % n) n x > x then flipOf (h.pivotRaw r % n) n x else x)
      = max x (flipOf (h.pivotRaw r % n) n x) := by
    split <;> omega
  rw [hmax]
  simp

/-- rounds `0, 1, …, R-1` applied in this order -/
def permUp (h : Hasher) (n : Nat) : Nat → Nat → Nat
  | 0, x => x
  | R + 1, x => permRound h n R (permUp h n R x)

/-- rounds `R-1, …, 1, 0` applied in this order -/
def permDown (h : Hasher) (n : Nat) : Nat → Nat → Nat
  | 0, x => x
  | R + 1, x => permDown h n R (permRound h n R x)

theorem permLoopUp_eq (h : Hasher) (n rounds : Nat) :
    ∀ fuel r x, r < rounds → rounds ≤ r + fuel →
      permLoopUp h n rounds fuel r (permUp h n r x) = permUp h n rounds x := by
  intro fuel
  induction fuel with
  | zero => intro r x h1 h2; omega
  | succ f ih =>
    intro r x h1 h2
    unfold permLoopUp
    simp only
    by_cases he : r + 1 = rounds
    · simp [he]; subst he; rfl
    · simp only [he, if_false]
      exact ih (r + 1) x (by omega) (by omega)

theorem permLoopDown_eq (h : Hasher) (n : Nat) : ∀ r x, permLoopDown h n r x = permDown h n (r + 1) x := by
  intro r
  induction r with
  | zero => intro x; simp only [permLoopDown, permDown]
  | succ r ih => intro x; rw [permLoopDown, ih]; simp only [permDown]

theorem innerPermuteIndex_up {h : Hasher} {rounds x n : Nat} (hn : 0 < n) :
    innerPermuteIndex h rounds x n true = .ok (permUp h n rounds x) := by
  unfold innerPermuteIndex
  by_cases h0 : rounds = 0
  · subst h0; simp [permUp]
  · have : n ≠ 0 := by omega
    simp only [h0, this, if_false, if_true]
    exact congrArg _ (permLoopUp_eq h n rounds rounds 0 x (by omega) (by omega))

theorem innerPermuteIndex_down {h : Hasher} {rounds x n : Nat} (hn : 0 < n) :
    innerPermuteIndex h rounds x n false = .ok (permDown h n rounds x) := by
  unfold innerPermuteIndex
  by_cases h0 : rounds = 0
  · subst h0; simp [permDown]
  · have : n ≠ 0 := by omega
    simp only [h0, this, if_false]
    rw [permLoopDown_eq]
    have : rounds - 1 + 1 = rounds := by omega
    rw [this]; simp

theorem permUp_lt {h : Hasher} {n : Nat} (hn : n ≤ 2 ^ 63) : ∀ R x, x < n → permUp h n R x < n := by
  intro R
  induction R with
  | zero => intro x hx; exact hx
  | succ R ih =>
    intro x hx
    show permRound h n R (permUp h n R x) < n
    rw [permRound_eq_sigma (ih x hx) hn]; exact sigma_lt (ih x hx)

theorem permDown_lt {h : Hasher} {n : Nat} (hn : n ≤ 2 ^ 63) : ∀ R x, x < n → permDown h n R x < n := by
  intro R
  induction R with
  | zero => intro x hx; exact hx
  | succ R ih =>
    intro x hx
    show permDown h n R (permRound h n R x) < n
    apply ih
    rw [permRound_eq_sigma hx hn]; exact sigma_lt hx

theorem permRound_involutive {h : Hasher} {n r x : Nat} (hx : x < n) (hn : n ≤ 2 ^ 63) :
    permRound h n r (permRound h n r x) = x := by
  rw [permRound_eq_sigma hx hn, permRound_eq_sigma (sigma_lt hx) hn, sigma_involutive hx]

theorem permDown_permUp {h : Hasher} {n : Nat} (hn : n ≤ 2 ^ 63) :
    ∀ R x, x < n → permDown h n R (permUp h n R x) = x := by
  intro R
  induction R with
  | zero => intro x _; rfl
  | succ R ih =>
    intro x hx
    show permDown h n R (permRound h n R (permRound h n R (permUp h n R x))) = x
    rw [permRound_involutive (permUp_lt hn R x hx) hn, ih x hx]

theorem permUp_permDown {h : Hasher} {n : Nat} (hn : n ≤ 2 ^ 63) :
    ∀ R x, x < n → permUp h n R (permDown h n R x) = x := by
  intro R
  induction R with
  | zero => intro x _; rfl
  | succ R ih =>
    intro x hx
    show permRound h n R (permUp h n R (permDown h n R (permRound h n R x))) = x
    have hlt : permRound h n R x < n := by rw [permRound_eq_sigma hx hn]; exact sigma_lt hx
    rw [ih _ hlt, permRound_involutive hx hn]
/-! ## the specification function -/

theorem ofNat_mod256 (r : Nat) : UInt8.ofNat (r % 256) = UInt8.ofNat r := by
  apply UInt8.toNat_inj.mp
  simp

theorem uintToBytes1 (r : Nat) : Spec.uintToBytes 1 r = ByteArray.empty.push (UInt8.ofNat r) := by
  apply ByteArray.ext
  simp [Spec.uintToBytes, List.range, List.range.loop, ofNat_mod256]

theorem bytesToUint_extract8 (b : ByteArray) (hb : b.size = 32) :
    Spec.bytesToUint (b.extract 0 8) = leUint64 b := by
  unfold Spec.bytesToUint leUint64 byteAt
  obtain ⟨⟨l⟩⟩ := b
  have hl : l.length = 32 := hb
  match l, hl with
  | b0 :: b1 :: b2 :: b3 :: b4 :: b5 :: b6 :: b7 :: rest, _ =>
    simp [ByteArray.get!, ByteArray.data_extract, List.extract]
theorem uintToBytes4 (w : Nat) : Spec.uintToBytes 4 w = putUint32 w := by
  apply ByteArray.ext
  simp [Spec.uintToBytes, putUint32, List.range, List.range.loop]

theorem append_uintToBytes1 (seed : ByteArray) (r : Nat) :
    seed ++ Spec.uintToBytes 1 r = seed.push (UInt8.ofNat r) := by
  rw [uintToBytes1]; apply ByteArray.ext; simp [ByteArray.data_append, ByteArray.data_push]


/-- one iteration of the specification's loop -/
def specStep (hash : ByteArray → ByteArray) (indexCount : Nat) (seed : ByteArray) (index currentRound : Nat) : Option Nat :=
    if ¬ currentRound < 2 ^ 8 then none else
    let pivot := Spec.bytesToUint ((hash (seed ++ Spec.uintToBytes 1 currentRound)).extract 0 8) % indexCount
    let flip := (pivot + indexCount - index) % indexCount
    let position := max index flip
    if ¬ position / 256 < 2 ^ 32 then none else
    let source := hash (seed ++ Spec.uintToBytes 1 currentRound ++ Spec.uintToBytes 4 (position / 256))
    let byte := (source.get! (position % 256 / 8)).toNat
    let bit := (byte >>> (position % 8)) % 2
    some (if bit ≠ 0 then flip else index)

theorem spec_unfold (hash) (R index n : Nat) (seed) (hx : index < n) :
    Spec.computeShuffledIndex hash R index n seed = (List.range R).foldlM (specStep hash n seed) index := by
  unfold Spec.computeShuffledIndex
  simp only [hx, not_true_eq_false, if_false]
  rfl

theorem specStep_eq {H : ByteArray → ByteArray} (hH : ∀ x, (H x).size = 32) {seed : ByteArray}
    {n r x : Nat} (hr : r < 256) (hx : x < n) (hn : n ≤ 2 ^ 40) :
    specStep H n seed x r = some (permRound (Hasher.ofHash H seed) n r x) := by
  have hn63 : n ≤ 2 ^ 63 := by omega
  rw [permRound_eq_sigma hx hn63]
  have hp : (Hasher.ofHash H seed).pivotRaw r % n < n := Nat.mod_lt _ (by omega)
  have hpiv : Spec.bytesToUint ((H (seed ++ Spec.uintToBytes 1 r)).extract 0 8) = (Hasher.ofHash H seed).pivotRaw r := by
    rw [append_uintToBytes1, bytesToUint_extract8 _ (hH _)]; rfl
  unfold specStep sigma
  simp only [hpiv]
  have hfl : ((Hasher.ofHash H seed).pivotRaw r % n + n - x) % n = flipOf ((Hasher.ofHash H seed).pivotRaw r % n) n x := rfl
  rw [hfl]
  have hflt : flipOf ((Hasher.ofHash H seed).pivotRaw r % n) n x < n := flipOf_lt (by omega)
  generalize flipOf ((Hasher.ofHash H seed).pivotRaw r % n) n x = fl at hflt ⊢
  have hpos : max x fl < n := by omega
  generalize max x fl = pos at hpos ⊢
  have h1 : ¬ ¬ r < 2 ^ 8 := by omega
  have h2 : ¬ ¬ pos / 256 < 2 ^ 32 := by omega
  simp only [h1, h2, if_false]
  congr 1
  have hb : bitAt (Hasher.ofHash H seed) r pos =
      decide (((H (seed ++ Spec.uintToBytes 1 r ++ Spec.uintToBytes 4 (pos / 256))).get! (pos % 256 / 8)).toNat >>> (pos % 8) % 2 ≠ 0) := by
    unfold bitAt bitV byteAt u32
    rw [and255, and7, shr8, shr3, Nat.and_one_is_mod, append_uintToBytes1, uintToBytes4]
    have : pos / 256 % 4294967296 = pos / 256 := Nat.mod_eq_of_lt (by omega)
    rw [this]
    show decide (_ = 1) = decide (_ ≠ 0)
    congr 1
    apply propext
    have hblk : (Hasher.ofHash H seed).blockOf r (pos / 256) =
        H (seed.push (UInt8.ofNat r) ++ putUint32 (pos / 256)) := rfl
    rw [hblk]
    generalize (H _).get! _ = bb
    generalize bb.toNat >>> (pos % 8) = X
    constructor <;> intro h <;> omega
  simp only [hb, decide_eq_true_eq]

theorem foldlM_spec_eq {H : ByteArray → ByteArray} (hH : ∀ x, (H x).size = 32) {seed : ByteArray}
    {n : Nat} (hn : n ≤ 2 ^ 40) :
    ∀ R x, R ≤ 256 → x < n →
      (List.range R).foldlM (specStep H n seed) x = some (permUp (Hasher.ofHash H seed) n R x) := by
  intro R
  induction R with
  | zero => intro x _ _; rfl
  | succ R ih =>
    intro x hR hx
    rw [List.range_succ, List.foldlM_append, ih x (by omega) hx]
    have hlt := permUp_lt (h := Hasher.ofHash H seed) (show n ≤ 2 ^ 63 by omega) R x hx
    simp only [Option.bind_eq_bind, Option.bind_some, List.foldlM_cons, List.foldlM_nil]
    rw [specStep_eq hH (by omega) hlt hn]
    rfl
end Zrnt.Proofs.Shuffle
