import Zrnt.Schema.Denote
import Proofs.Lemmas.SSZImpl
import Proofs.Lemmas.SSZPolyNF
import Proofs.Lemmas.SSZSchemaLegal
/-! Lemmas relating the symbolic schema functions of `Zrnt.Schema.Facts` with their evaluation. -/
namespace Zrnt.Proofs.SSZ
open Zrnt.SSZ Zrnt.Schema Zrnt.Schema.Facts

mutual
theorem STy.beq_eq : ∀ a b : STy, a.beq b = true → a = b
  | .uint x, .uint y, h => by simp [STy.beq] at h; rw [h]
  | .bool, .bool, _ => rfl
  | .bytesN x, .bytesN y, h => by simp [STy.beq] at h; rw [h]
  | .vector t x, .vector u y, h => by
    simp only [STy.beq, Bool.and_eq_true, beq_iff_eq] at h
    rw [STy.beq_eq t u h.1, h.2]
  | .list t x, .list u y, h => by
    simp only [STy.beq, Bool.and_eq_true, beq_iff_eq] at h
    rw [STy.beq_eq t u h.1, h.2]
  | .bitvector x, .bitvector y, h => by simp [STy.beq] at h; rw [h]
  | .bitlist x, .bitlist y, h => by simp [STy.beq] at h; rw [h]
  | .byteList x, .byteList y, h => by simp [STy.beq] at h; rw [h]
  | .container f, .container g, h => by
    simp only [STy.beq] at h
    rw [SFields.beq_eq f g h]
  | .uint _, .bool, h | .uint _, .bytesN _, h | .uint _, .vector _ _, h | .uint _, .list _ _, h
  | .uint _, .bitvector _, h | .uint _, .bitlist _, h | .uint _, .byteList _, h | .uint _, .container _, h
  | .bool, .uint _, h | .bool, .bytesN _, h | .bool, .vector _ _, h | .bool, .list _ _, h
  | .bool, .bitvector _, h | .bool, .bitlist _, h | .bool, .byteList _, h | .bool, .container _, h
  | .bytesN _, .uint _, h | .bytesN _, .bool, h | .bytesN _, .vector _ _, h | .bytesN _, .list _ _, h
  | .bytesN _, .bitvector _, h | .bytesN _, .bitlist _, h | .bytesN _, .byteList _, h | .bytesN _, .container _, h
  | .vector _ _, .uint _, h | .vector _ _, .bool, h | .vector _ _, .bytesN _, h | .vector _ _, .list _ _, h
  | .vector _ _, .bitvector _, h | .vector _ _, .bitlist _, h | .vector _ _, .byteList _, h | .vector _ _, .container _, h
  | .list _ _, .uint _, h | .list _ _, .bool, h | .list _ _, .bytesN _, h | .list _ _, .vector _ _, h
  | .list _ _, .bitvector _, h | .list _ _, .bitlist _, h | .list _ _, .byteList _, h | .list _ _, .container _, h
  | .bitvector _, .uint _, h | .bitvector _, .bool, h | .bitvector _, .bytesN _, h | .bitvector _, .vector _ _, h
  | .bitvector _, .list _ _, h | .bitvector _, .bitlist _, h | .bitvector _, .byteList _, h | .bitvector _, .container _, h
  | .bitlist _, .uint _, h | .bitlist _, .bool, h | .bitlist _, .bytesN _, h | .bitlist _, .vector _ _, h
  | .bitlist _, .list _ _, h | .bitlist _, .bitvector _, h | .bitlist _, .byteList _, h | .bitlist _, .container _, h
  | .byteList _, .uint _, h | .byteList _, .bool, h | .byteList _, .bytesN _, h | .byteList _, .vector _ _, h
  | .byteList _, .list _ _, h | .byteList _, .bitvector _, h | .byteList _, .bitlist _, h | .byteList _, .container _, h
  | .container _, .uint _, h | .container _, .bool, h | .container _, .bytesN _, h | .container _, .vector _ _, h
  | .container _, .list _ _, h | .container _, .bitvector _, h | .container _, .bitlist _, h | .container _, .byteList _, h => by
    simp [STy.beq] at h
theorem SFields.beq_eq : ∀ a b : SFields, a.beq b = true → a = b
  | .nil, .nil, _ => rfl
  | .cons n t r, .cons m u s, h => by
    simp only [SFields.beq, Bool.and_eq_true, beq_iff_eq] at h
    rw [h.1.1, STy.beq_eq t u h.1.2, SFields.beq_eq r s h.2]
  | .nil, .cons _ _ _, h | .cons _ _ _, .nil, h => by simp [SFields.beq] at h
end

mutual
theorem fixedLenS_some (c : Config) : ∀ (t : STy) (s : LExpr), fixedLenS t = some s →
    (t.eval c).fixedLen? = some (s.eval c)
  | .uint k, s, h => by simp [fixedLenS] at h; subst h; simp [STy.eval, Ty.fixedLen?, LExpr.eval]
  | .bool, s, h => by simp [fixedLenS] at h; subst h; simp [STy.eval, Ty.fixedLen?, LExpr.eval]
  | .bytesN n, s, h => by simp [fixedLenS] at h; subst h; simp [STy.eval, Ty.fixedLen?]
  | .vector t n, s, h => by
    simp only [fixedLenS] at h
    split at h
    · rename_i s' hs'
      simp only [Option.some.injEq] at h; subst h
      simp [STy.eval, Ty.fixedLen?, fixedLenS_some c t s' hs', LExpr.eval]
    · simp at h
  | .list _ _, _, h => by simp [fixedLenS] at h
  | .bitvector n, s, h => by simp [fixedLenS] at h; subst h; simp [STy.eval, Ty.fixedLen?, LExpr.eval]
  | .bitlist _, _, h => by simp [fixedLenS] at h
  | .byteList _, _, h => by simp [fixedLenS] at h
  | .container fs, s, h => by
    simp only [fixedLenS] at h
    simp [STy.eval, Ty.fixedLen?, fixedLenSF_some c fs s h]
theorem fixedLenSF_some (c : Config) : ∀ (fs : SFields) (s : LExpr), fixedLenSF fs = some s →
    (fs.eval c).fixedLen? = some (s.eval c)
  | .nil, s, h => by simp [fixedLenSF] at h; subst h; simp [SFields.eval, Fields.fixedLen?, LExpr.eval]
  | .cons _ t r, s, h => by
    simp only [fixedLenSF] at h
    split at h
    · rename_i a b ha hb
      simp only [Option.some.injEq] at h; subst h
      simp [SFields.eval, Fields.fixedLen?, fixedLenS_some c t a ha, fixedLenSF_some c r b hb, LExpr.eval]
    · simp at h
end

mutual
theorem fixedLenS_none (c : Config) : ∀ (t : STy), fixedLenS t = none → (t.eval c).fixedLen? = none
  | .uint _, h | .bool, h | .bytesN _, h | .bitvector _, h => by simp [fixedLenS] at h
  | .vector t n, h => by
    simp only [fixedLenS] at h
    split at h
    · simp at h
    · rename_i hn
      simp [STy.eval, Ty.fixedLen?, fixedLenS_none c t hn]
  | .list _ _, _ | .bitlist _, _ | .byteList _, _ => by simp [STy.eval, Ty.fixedLen?]
  | .container fs, h => by
    simp only [fixedLenS] at h
    simp [STy.eval, Ty.fixedLen?, fixedLenSF_none c fs h]
theorem fixedLenSF_none (c : Config) : ∀ (fs : SFields), fixedLenSF fs = none → (fs.eval c).fixedLen? = none
  | .nil, h => by simp [fixedLenSF] at h
  | .cons _ t r, h => by
    simp only [fixedLenSF] at h
    simp only [SFields.eval, Fields.fixedLen?]
    split at h
    · simp at h
    · rename_i hne
      cases ht : fixedLenS t with
      | none => simp [fixedLenS_none c t ht]
      | some a =>
        cases hr : fixedLenSF r with
        | none => rw [fixedLenSF_none c r hr]; cases (t.eval c).fixedLen? <;> rfl
        | some b => exact (hne a b ht hr).elim
end

/-- the environment implements the Go type of every field by the specification at the schema that type names -/
def EnvOk (H : Hash2) (c : Config) (env : Env) (fields : List GoField) : Prop :=
  ∀ f ∈ fields, ∀ u, goTypeSTy f.goType = some u → env f.goType = specImpl H (u.eval c)

theorem fieldImpls_spec (H : Hash2) (c : Config) (env : Env) : ∀ (fields : List GoField) (sfs : SFields),
    structOk fields sfs = true → EnvOk H c env fields →
    fields.map (fun f => env f.goType) = specImpls H (sfs.eval c)
  | [], .nil, _, _ => rfl
  | [], .cons _ _ _, h, _ => by simp [structOk] at h
  | _ :: _, .nil, h, _ => by simp [structOk] at h
  | f :: fs, .cons n t r, h, henv => by
    simp only [structOk, Bool.and_eq_true] at h
    obtain ⟨hty, hrest⟩ := h
    simp only [List.map_cons, SFields.eval, specImpls]
    cases hg : goTypeSTy f.goType with
    | none => simp [hg] at hty
    | some u =>
      simp only [hg] at hty
      have := STy.beq_eq u t hty
      subst this
      rw [henv f (by simp) u hg]
      congr 1
      exact fieldImpls_spec H c env fs r hrest (fun g hg' => henv g (by simp [hg']))

theorem denoteLen_fixed (c : Config) (owners : Owners) (views : List ViewDef) (sty : STy) (isFL : Bool) (m : Method)
    (s : LExpr) (hs : fixedLenS sty = some s) (h : lengthMethodOk owners views sty isFL m = true) :
    denoteLen c owners views m = some (s.eval c) := by
  cases m <;> simp only [lengthMethodOk, hs] at h <;> try (simp at h)
  case typeByteLength v =>
    simp only [denoteLen]
    cases hv : viewSTy owners views viewFuel v with
    | none => simp [hv] at h
    | some t =>
      simp only [hv] at h
      cases hf : fixedLenS t with
      | none => simp [hf] at h
      | some a =>
        simp only [hf] at h
        simp [hf, sameLen_sound a s h c]
  case const e =>
    simp [denoteLen, sameLen_sound s e h.1 c]
  case constA a =>
    simp only [denoteLen]
    cases ha : a.toLExpr owners views with
    | none => simp [ha] at h
    | some e =>
      simp only [ha, Bool.and_eq_true] at h
      simp [sameLen_sound s e h.1 c]

theorem denoteLen_variable (c : Config) (owners : Owners) (views : List ViewDef) (sty : STy) (m : Method)
    (hs : fixedLenS sty = none) (h : lengthMethodOk owners views sty true m = true) :
    denoteLen c owners views m = some 0 := by
  cases m <;> simp only [lengthMethodOk, hs] at h <;> try (simp at h)
  case typeByteLength v =>
    simp only [denoteLen]
    cases hv : viewSTy owners views viewFuel v with
    | none => simp [hv] at h
    | some t =>
      simp only [hv] at h
      cases hf : fixedLenS t with
      | none => simp [hf]
      | some a => simp [hf] at h
  case const e =>
    simp [denoteLen, isLit_sound e 0 h c]

/-! ### struct rows -/

section struct
variable (H : Hash2) (c : Config) (owners : Owners) (views : List ViewDef) (env : Env)
variable (fields : List GoField) (sfs : SFields)

theorem fieldImpls_ok (hs : structOk fields sfs = true) (henv : EnvOk H c env fields) (args : List Name)
    (ha : argsOk fields args = true) : fieldImpls env fields args = some (specImpls H (sfs.eval c)) := by
  unfold argsOk at ha
  simp [fieldImpls, ha, fieldImpls_spec H c env fields sfs hs henv]

theorem isFixedS_eval (sty : STy) (h : isFixedS sty = true) : ∃ n, (sty.eval c).fixedLen? = some n := by
  unfold isFixedS at h
  cases hf : fixedLenS sty with
  | none => simp [hf] at h
  | some s => exact ⟨_, fixedLenS_some c sty s hf⟩

theorem structSer_sound (hleg : (sfs.eval c).Legal) (hs : structOk fields sfs = true) (henv : EnvOk H c env fields)
    (m : Method) (hop : m.isOpaque = false)
    (h : containerMethodOk owners views fields (.container sfs) n!"Serialize" m = true) :
    structSer env fields m = some (encode (.container (sfs.eval c))) := by
  cases m <;> simp only [containerMethodOk, Method.isOpaque] at h hop <;> (try (simp at hop)) <;> try (simp [lengthMethodOk] at h)
  case fields v args =>
    obtain ⟨ha, hv⟩ := h
    simp only [structSer, fieldImpls_ok H c env fields sfs hs henv args ha, Option.bind_some]
    rcases hv with hv | ⟨hv, hfix⟩
    · simp [hv, containerSer_spec H _ hleg]
    · obtain ⟨n, hn⟩ := isFixedS_eval c (.container sfs) hfix
      simp only [STy.eval, Ty.fixedLen?] at hn
      subst hv
      simp [fixedContainerSer_spec H _ n hn]

theorem structDes_sound (hleg : (sfs.eval c).Legal) (hs : structOk fields sfs = true) (henv : EnvOk H c env fields)
    (m : Method) (hop : m.isOpaque = false)
    (h : containerMethodOk owners views fields (.container sfs) n!"Deserialize" m = true) :
    structDes env fields m = some (decode (.container (sfs.eval c))) := by
  cases m <;> simp only [containerMethodOk, Method.isOpaque] at h hop <;> (try (simp at hop)) <;> try (simp [lengthMethodOk] at h)
  case fields v args =>
    obtain ⟨ha, hv⟩ := h
    simp only [structDes, fieldImpls_ok H c env fields sfs hs henv args ha, Option.bind_some]
    rcases hv with hv | ⟨hv, hfix⟩
    · simp [hv, containerDes_spec H _ hleg]
    · obtain ⟨n, hn⟩ := isFixedS_eval c (.container sfs) hfix
      simp only [STy.eval, Ty.fixedLen?] at hn
      subst hv
      simp [fixedContainerDes_spec H _ n hn]

theorem structRoot_sound (hs : structOk fields sfs = true) (henv : EnvOk H c env fields)
    (m : Method) (hop : m.isOpaque = false)
    (h : containerMethodOk owners views fields (.container sfs) n!"HashTreeRoot" m = true) :
    structRoot H env fields m = some (htr H (.container (sfs.eval c))) := by
  cases m <;> simp only [containerMethodOk, Method.isOpaque] at h hop <;> (try (simp at hop)) <;> try (simp [lengthMethodOk] at h)
  case fields v args =>
    obtain ⟨ha, hv⟩ := h
    simp [structRoot, fieldImpls_ok H c env fields sfs hs henv args ha, hv, fieldsRoot_spec]

theorem sum_flen_spec : ∀ (fs : Fields) (n : Nat), fs.fixedLen? = some n → ((specImpls H fs).map (·.flen)).sum = n
  | .nil, n, h => by simp [Fields.fixedLen?] at h; simp [specImpls, h]
  | .cons _ t r, n, h => by
    simp only [Fields.fixedLen?] at h
    split at h
    · rename_i a b ha hb
      simp only [Option.some.injEq] at h
      simp [specImpls, specImpl, Ty.fixedLen, ha, sum_flen_spec r b hb, h]
    · simp at h

theorem byteLength_fixed (t : Ty) (n : Nat) (v : Val) (hf : t.fixedLen? = some n) (hw : WF t v) : byteLength t v = n := by
  rw [← encode_length t v hw]; exact encode_fixed t v n hf hw

theorem structFlen_sound (hs : structOk fields sfs = true) (henv : EnvOk H c env fields)
    (m : Method) (hop : m.isOpaque = false)
    (h : containerMethodOk owners views fields (.container sfs) n!"FixedLength" m = true) :
    structFlen c owners views env fields m = some (Ty.container (sfs.eval c)).fixedLen := by
  have hlen : ∀ m', lengthMethodOk owners views (.container sfs) true m' = true →
      denoteLen c owners views m' = some (Ty.container (sfs.eval c)).fixedLen := by
    intro m' hm'
    cases hf : fixedLenS (.container sfs) with
    | some s =>
      rw [denoteLen_fixed c owners views _ true m' s hf hm']
      have := fixedLenS_some c _ s hf
      simp only [STy.eval] at this
      simp [Ty.fixedLen, this]
    | none =>
      rw [denoteLen_variable c owners views _ m' hf hm']
      have := fixedLenS_none c _ hf
      simp only [STy.eval] at this
      simp [Ty.fixedLen, this]
  cases m <;> simp only [containerMethodOk, Method.isOpaque] at h hop <;> (try (simp at hop))
  case fields v args =>
    simp only [Bool.and_eq_true, beq_iff_eq] at h
    obtain ⟨ha, hv, hfix⟩ := h
    obtain ⟨n, hn⟩ := isFixedS_eval c (.container sfs) hfix
    simp only [STy.eval, Ty.fixedLen?] at hn
    simp [structFlen, fieldImpls_ok H c env fields sfs hs henv args ha, hv, sum_flen_spec H _ n hn, Ty.fixedLen,
      Ty.fixedLen?, hn]
  all_goals (first
    | (simp at h; done)
    | (simp only [Bool.and_eq_true] at h; simp only [structFlen]; exact hlen _ (by simpa using h.2)))

theorem structOk_length : ∀ (fields : List GoField) (sfs : SFields), structOk fields sfs = true →
    fields.length = sfLength sfs
  | [], .nil, _ => rfl
  | [], .cons _ _ _, h => by simp [structOk] at h
  | _ :: _, .nil, h => by simp [structOk] at h
  | f :: fs, .cons n t r, h => by
    simp only [structOk, Bool.and_eq_true] at h
    simp [sfLength, structOk_length fs r h.2]

theorem allVariable_sum : ∀ (sfs : SFields) (vs : List Val), allVariable sfs = true → WFFields (sfs.eval c) vs →
    4 * sfLength sfs + sumBlen (specImpls H (sfs.eval c)) vs = byteLengthFields (sfs.eval c) vs
  | .nil, vs, _, hw => by
    cases vs <;> simp_all [SFields.eval, WFFields, sfLength, specImpls, sumBlen, byteLengthFields]
  | .cons _ t r, [], _, hw => by simp [SFields.eval, WFFields] at hw
  | .cons _ t r, v :: vs, h, hw => by
    simp only [allVariable, Bool.and_eq_true, Bool.not_eq_true'] at h
    simp only [SFields.eval, WFFields] at hw
    have ih := allVariable_sum r vs h.2 hw.2
    have hv : (t.eval c).fixedLen? = none := by
      apply fixedLenS_none
      have := h.1
      unfold isFixedS at this
      cases hf : fixedLenS t <;> simp_all
    simp only [SFields.eval, sfLength, specImpls, sumBlen, byteLengthFields, specImpl, hv]
    omega

theorem structBlen_sound (hleg : (sfs.eval c).Legal) (hs : structOk fields sfs = true) (henv : EnvOk H c env fields)
    (m : Method) (hop : m.isOpaque = false)
    (h : containerMethodOk owners views fields (.container sfs) n!"ByteLength" m = true) :
    ∃ f, structBlen c owners views env fields m = some f ∧
      ∀ v, WF (.container (sfs.eval c)) v → f v = byteLength (.container (sfs.eval c)) v := by
  have hlen : ∀ m', lengthMethodOk owners views (.container sfs) false m' = true →
      ∃ n, denoteLen c owners views m' = some n ∧ (Ty.container (sfs.eval c)).fixedLen? = some n := by
    intro m' hm'
    cases hf : fixedLenS (.container sfs) with
    | some s =>
      refine ⟨s.eval c, denoteLen_fixed c owners views _ false m' s hf hm', ?_⟩
      simpa [STy.eval] using fixedLenS_some c _ s hf
    | none =>
      exfalso
      cases m' <;> simp [lengthMethodOk, hf] at hm'
      case typeByteLength v =>
        cases hv : viewSTy owners views viewFuel v with
        | none => simp [hv] at hm'
        | some t => cases hft : fixedLenS t <;> simp [hv, hft] at hm'
  cases m <;> simp only [containerMethodOk, Method.isOpaque] at h hop <;> (try (simp at hop))
  case fields v args =>
    simp only [Bool.and_eq_true, beq_iff_eq] at h
    obtain ⟨ha, hv⟩ := h
    refine ⟨byteLength (.container (sfs.eval c)), ?_, fun _ _ => rfl⟩
    simp [structBlen, fieldImpls_ok H c env fields sfs hs henv args ha, hv, containerLength_spec H _ hleg]
  case fieldSum k args =>
    simp only [Bool.and_eq_true, beq_iff_eq] at h
    obtain ⟨⟨⟨_, ha⟩, hk⟩, hall⟩ := h
    refine ⟨offsetsPlusLens k (specImpls H (sfs.eval c)),
      by simp [structBlen, fieldImpls_ok H c env fields sfs hs henv args ha], ?_⟩
    intro v hw
    cases v <;> simp only [WF] at hw
    rename_i vs
    simp only [offsetsPlusLens, byteLength, hk, structOk_length fields sfs hs]
    exact allVariable_sum H c sfs vs hall hw
  all_goals (first
    | (simp at h; done)
    | (simp only [Bool.and_eq_true] at h
       obtain ⟨n, hn, hfix⟩ := hlen _ (by simpa using h.2)
       refine ⟨fun _ => n, by simp [structBlen, hn], fun v hw => ?_⟩
       exact (byteLength_fixed _ n v hfix hw).symm))

end struct

/-! ### list rows -/

section list
variable (H : Hash2) (c : Config) (owners : Owners) (views : List ViewDef)

theorem sizeOk_sound (elem : STy) (hleg : (elem.eval c).Legal) (size : Option SizeE)
    (h : sizeOk owners views elem size = true) :
    ∃ s, denoteSize c owners views size = some s ∧ sizeLayout s = (elem.eval c).fixedLen? := by
  cases size with
  | none => simp [sizeOk] at h
  | some sz =>
    cases sz with
    | other _ => simp [sizeOk] at h
    | lit n =>
      simp only [sizeOk] at h
      cases hf : fixedLenS elem with
      | none =>
        simp only [hf, beq_iff_eq] at h
        subst h
        exact ⟨0, rfl, by simp [sizeLayout, fixedLenS_none c elem hf]⟩
      | some e =>
        simp only [hf, Bool.and_eq_true, bne_iff_ne, ne_eq] at h
        have he := isLit_sound e n h.1 c
        refine ⟨n, rfl, ?_⟩
        rw [fixedLenS_some c elem e hf, he]
        simp [sizeLayout, h.2]
    | typeByteLength v =>
      simp only [sizeOk] at h
      cases hv : viewSTy owners views viewFuel v with
      | none => simp [hv] at h
      | some t =>
        simp only [hv] at h
        cases hft : fixedLenS t with
        | none => simp [hft] at h
        | some a =>
          cases hfe : fixedLenS elem with
          | none => simp [hft, hfe] at h
          | some b =>
            simp only [hft, hfe] at h
            have hab := sameLen_sound a b h c
            have hfix := fixedLenS_some c elem b hfe
            have hpos := legal_fixed_pos _ _ hleg hfix
            refine ⟨a.eval c, by simp [denoteSize, hv, hft], ?_⟩
            rw [hfix, hab]
            simp [sizeLayout]; omega

theorem isBasicS_eval (elem : STy) : (elem.eval c).isBasic = isBasicS elem := by
  cases elem <;> simp [STy.eval, Ty.isBasic, isBasicS]

theorem sameSTy_uint (elem : STy) (k : Nat) (h : sameSTy elem (.uint k) = true) : elem = .uint k := by
  cases elem <;> simp [sameSTy] at h
  subst h; rfl

variable (elem : STy) (lim : LExpr)

theorem listSer_sound (hleg : (elem.eval c).Legal) (m : Method) (hop : m.isOpaque = false)
    (h : listMethodOk owners views (.list elem lim) elem lim n!"Serialize" m = true) :
    listSer c owners views (specImpl H (elem.eval c)) m = some (encode (.list (elem.eval c) (lim.eval c))) := by
  cases m <;> simp only [listMethodOk, Method.isOpaque] at h hop <;> (try (simp at hop)) <;> try (simp [lengthMethodOk] at h)
  case list variant size limit =>
    obtain ⟨s, hs, hl⟩ := sizeOk_sound c owners views elem hleg size h.2
    simp [listSer, hs, seqSer_list H _ (lim.eval c) s hl]

theorem listDes_sound (hleg : (elem.eval c).Legal) (m : Method) (hop : m.isOpaque = false)
    (h : listMethodOk owners views (.list elem lim) elem lim n!"Deserialize" m = true) :
    listDesM c owners views (specImpl H (elem.eval c)) m = some (decode (.list (elem.eval c) (lim.eval c))) := by
  cases m <;> simp only [listMethodOk, Method.isOpaque] at h hop <;> (try (simp at hop)) <;> try (simp [lengthMethodOk] at h)
  case list variant size limit =>
    obtain ⟨s, hs, hl⟩ := sizeOk_sound c owners views elem hleg size h.1.2
    cases limit with
    | none => simp [limitOk] at h
    | some l =>
      have hlim := sameLen_sound l lim (by simpa [limitOk] using h.2) c
      simp [listDesM, hs, hlim, listDes_spec H _ (lim.eval c) s hl]

theorem listRoot_sound (m : Method) (hop : m.isOpaque = false)
    (h : listMethodOk owners views (.list elem lim) elem lim n!"HashTreeRoot" m = true) :
    listRoot H c (specImpl H (elem.eval c)) m = some (htr H (.list (elem.eval c) (lim.eval c))) := by
  cases m <;> simp only [listMethodOk, Method.isOpaque] at h hop <;> (try (simp at hop)) <;> try (simp [lengthMethodOk] at h)
  case list variant size limit =>
    cases limit with
    | none => simp [limitOk] at h
    | some l =>
      have hlim := sameLen_sound l lim (by simpa [limitOk] using h.1) c
      rcases h.2 with ⟨⟨hv, hb⟩ | ⟨hv, he⟩⟩ | ⟨hv, he⟩
      · subst hv
        have : (elem.eval c).isBasic = false := by rw [isBasicS_eval]; simpa using hb
        simp [listRoot, hlim, complexListRoot_spec H _ _ this]
      · subst hv
        have := sameSTy_uint elem 8 he
        subst this
        simp [listRoot, hlim, STy.eval, uintListRoot_spec H (.uint 8) 8 _ rfl rfl]
      · subst hv
        have := sameSTy_uint elem 1 he
        subst this
        simp [listRoot, hlim, STy.eval, uintListRoot_spec H (.uint 1) 1 _ rfl rfl]

theorem listBlen_sound (hleg : (elem.eval c).Legal) (m : Method) (hop : m.isOpaque = false)
    (h : listMethodOk owners views (.list elem lim) elem lim n!"ByteLength" m = true) :
    ∃ f, listBlen c owners views (specImpl H (elem.eval c)) m = some f ∧
      ∀ v, WF (.list (elem.eval c) (lim.eval c)) v → f v = byteLength (.list (elem.eval c) (lim.eval c)) v := by
  cases m <;> simp only [listMethodOk, Method.isOpaque] at h hop <;> (try (simp at hop)) <;> try (simp [lengthMethodOk] at h)
  case lenTimes size =>
    obtain ⟨s, hs, hl⟩ := sizeOk_sound c owners views elem hleg (some size) h.2
    obtain ⟨n, hn⟩ := isFixedS_eval c elem h.1
    refine ⟨lenTimesFn s, by simp [listBlen, hs], ?_⟩
    intro v hw
    cases v <;> simp only [WF] at hw
    rw [hn] at hl
    have : s = n := by
      unfold sizeLayout at hl
      split at hl <;> simp_all
    simp [lenTimesFn, byteLength, hn, this]
  case sumOffsets =>
    refine ⟨_, rfl, ?_⟩
    intro v hw
    cases v <;> simp only [WF] at hw
    have : (elem.eval c).fixedLen? = none := by
      apply fixedLenS_none
      unfold isFixedS at h
      cases hf : fixedLenS elem <;> simp_all
    simp [sumOffsetsFn, byteLength, this, specImpl]

theorem listFlen_sound (m : Method) (hop : m.isOpaque = false)
    (h : listMethodOk owners views (.list elem lim) elem lim n!"FixedLength" m = true) :
    denoteLen c owners views m = some (Ty.list (elem.eval c) (lim.eval c)).fixedLen := by
  have : (Ty.list (elem.eval c) (lim.eval c)).fixedLen = 0 := by simp [Ty.fixedLen, Ty.fixedLen?]
  rw [this]
  cases m <;> simp only [listMethodOk, Method.isOpaque] at h hop <;> (try (simp at hop)) <;> (try (simp at h; done))
  all_goals exact denoteLen_variable c owners views (.list elem lim) _ (by simp [fixedLenS]) (by simpa using h)

end list

/-! ### vector rows -/

section vector
variable (H : Hash2) (c : Config) (owners : Owners) (views : List ViewDef) (elem : STy) (len : LExpr)

theorem sameSTy_bytes32_nonbasic (elem : STy) (h : sameSTy elem (.bytesN 32) = true) : isBasicS elem = false := by
  cases elem <;> first | rfl | (simp [sameSTy] at h)

theorem vecSer_sound (hleg : (elem.eval c).Legal) (m : Method) (hop : m.isOpaque = false)
    (h : vectorMethodOk owners views (.vector elem len) elem len n!"Serialize" m = true) :
    vecSer c owners views (specImpl H (elem.eval c)) m = some (encode (.vector (elem.eval c) (len.eval c))) := by
  cases m <;> simp only [vectorMethodOk, Method.isOpaque] at h hop <;> (try (simp at hop)) <;> try (simp [lengthMethodOk] at h)
  case vector variant size length =>
    obtain ⟨s, hs, hl⟩ := sizeOk_sound c owners views elem hleg size h.1.2
    simp [vecSer, hs, seqSer_vector H _ (len.eval c) s hl]
  case list variant size limit =>
    obtain ⟨s, hs, hl⟩ := sizeOk_sound c owners views elem hleg size h.2
    simp [vecSer, hs, seqSer_vector H _ (len.eval c) s hl]

theorem vecDes_sound (hleg : (elem.eval c).Legal) (m : Method) (hop : m.isOpaque = false)
    (h : vectorMethodOk owners views (.vector elem len) elem len n!"Deserialize" m = true) :
    vecDes c owners views (specImpl H (elem.eval c)) m = some (decode (.vector (elem.eval c) (len.eval c))) := by
  cases m <;> simp only [vectorMethodOk, Method.isOpaque] at h hop <;> (try (simp at hop)) <;> try (simp [lengthMethodOk] at h)
  case vector variant size length =>
    obtain ⟨s, hs, hl⟩ := sizeOk_sound c owners views elem hleg size h.1.2
    cases length with
    | none => simp at h
    | some l =>
      have hlen := sameLen_sound l len (by simpa using h.2) c
      simp [vecDes, hs, hlen, vectorDes_spec H _ (len.eval c) s hl]

theorem vecRoot_sound (m : Method) (hop : m.isOpaque = false)
    (h : vectorMethodOk owners views (.vector elem len) elem len n!"HashTreeRoot" m = true) :
    ∃ r, vecRoot H c (specImpl H (elem.eval c)) m = some r ∧
      ∀ v, WF (.vector (elem.eval c) (len.eval c)) v → r v = htr H (.vector (elem.eval c) (len.eval c)) v := by
  cases m <;> simp only [vectorMethodOk, Method.isOpaque] at h hop <;> (try (simp at hop)) <;> try (simp [lengthMethodOk] at h)
  case vector variant size length =>
    obtain ⟨hlenOk, hv⟩ := h
    have hnb : ∀ (_ : isBasicS elem = false) (v : Val), WF (.vector (elem.eval c) (len.eval c)) v →
        (match length with
          | some l => complexVectorRoot H (specImpl H (elem.eval c)) (l.eval c)
          | none => complexVectorRootLen H (specImpl H (elem.eval c))) v = htr H (.vector (elem.eval c) (len.eval c)) v := by
      intro hb v hw
      have hbe : (elem.eval c).isBasic = false := by rw [isBasicS_eval]; exact hb
      cases length with
      | some l =>
        have hl := sameLen_sound l len (by simpa using hlenOk) c
        simp only [hl, complexVectorRoot_spec H _ _ hbe]
      | none =>
        cases v <;> simp only [WF] at hw
        simp [complexVectorRootLen, htr, hbe, specImpl, hw.1]
    rcases hv with (⟨hvar, hb⟩ | ⟨hvar, he⟩) | ⟨hvar, he⟩
    · subst hvar
      refine ⟨_, ?_, hnb (by simpa using hb)⟩
      simp [vecRoot]
      rfl
    · subst hvar
      have := sameSTy_uint elem 8 he
      subst this
      refine ⟨(match length with
          | some l => uintVectorRoot H (specImpl H ((STy.uint 8).eval c)) 8 (l.eval c)
          | none => uintVectorRootLen H (specImpl H ((STy.uint 8).eval c)) 8), by simp [vecRoot]; rfl, ?_⟩
      intro v hw
      cases length with
      | some l =>
        have hl := sameLen_sound l len (by simpa using hlenOk) c
        simp only [hl, STy.eval, uintVectorRoot_spec H (.uint 8) 8 _ rfl rfl]
      | none =>
        cases v <;> simp only [STy.eval, WF] at hw
        simp [uintVectorRootLen, htr, Ty.isBasic, specImpl, hw.1, STy.eval, Ty.fixedLen, Ty.fixedLen?]
    · subst hvar
      refine ⟨_, ?_, hnb (sameSTy_bytes32_nonbasic elem he)⟩
      simp [vecRoot]
      rfl

theorem vecFlen_sound (m : Method) (hop : m.isOpaque = false)
    (h : vectorMethodOk owners views (.vector elem len) elem len n!"FixedLength" m = true) :
    denoteLen c owners views m = some (Ty.vector (elem.eval c) (len.eval c)).fixedLen := by
  have hl : lengthMethodOk owners views (.vector elem len) true m = true := by
    cases m <;> simp only [vectorMethodOk, Method.isOpaque] at h hop <;> (try (simp at hop)) <;> (try (simp at h; done))
    all_goals simpa using h
  cases hf : fixedLenS (.vector elem len) with
  | some s =>
    rw [denoteLen_fixed c owners views _ true m s hf hl]
    have := fixedLenS_some c _ s hf
    simp only [STy.eval] at this
    simp [Ty.fixedLen, this]
  | none =>
    rw [denoteLen_variable c owners views _ m hf hl]
    have := fixedLenS_none c _ hf
    simp only [STy.eval] at this
    simp [Ty.fixedLen, this]

theorem vecBlen_sound (hleg : (elem.eval c).Legal) (m : Method) (hop : m.isOpaque = false)
    (h : vectorMethodOk owners views (.vector elem len) elem len n!"ByteLength" m = true) :
    ∃ f, vecBlen c owners views m = some f ∧
      ∀ v, WF (.vector (elem.eval c) (len.eval c)) v → f v = byteLength (.vector (elem.eval c) (len.eval c)) v := by
  by_cases hlt : ∃ size, m = .lenTimes size
  · obtain ⟨size, rfl⟩ := hlt
    simp only [vectorMethodOk, Bool.and_eq_true, beq_self_eq_true, true_and] at h
    obtain ⟨s, hs, hl⟩ := sizeOk_sound c owners views elem hleg (some size) h.2
    obtain ⟨n, hn⟩ := isFixedS_eval c elem h.1
    refine ⟨lenTimesFn s, by simp [vecBlen, hs], ?_⟩
    intro v hw
    cases v <;> simp only [WF] at hw
    rw [hn] at hl
    have : s = n := by
      unfold sizeLayout at hl
      split at hl <;> simp_all
    simp [lenTimesFn, byteLength, hn, this, hw.1]
  · have hl : lengthMethodOk owners views (.vector elem len) false m = true := by
      cases m <;> simp only [vectorMethodOk, Method.isOpaque] at h hop <;> (try (simp at hop)) <;> (try (simp at h; done))
      case lenTimes size => exact absurd ⟨size, rfl⟩ hlt
      all_goals simpa using h
    cases hf : fixedLenS (.vector elem len) with
    | some s =>
      have hd := denoteLen_fixed c owners views _ false m s hf hl
      have hfix := fixedLenS_some c _ s hf
      simp only [STy.eval] at hfix
      refine ⟨fun _ => s.eval c, ?_, fun v hw => (byteLength_fixed _ _ v hfix hw).symm⟩
      cases m <;> simp only [vecBlen, hd, Option.map_some] <;> exact absurd ⟨_, rfl⟩ hlt
    | none =>
      exfalso
      cases m <;> simp [lengthMethodOk, hf] at hl
      case typeByteLength v =>
        cases hv : viewSTy owners views viewFuel v with
        | none => simp [hv] at hl
        | some t => cases hft : fixedLenS t <;> simp [hv, hft] at hl

end vector

theorem extract_struct_codec (owners : Owners) (views : List ViewDef) (T : GoType) (sfs : SFields) (fields : List GoField)
    (h : checkType owners views .codec T = none)
    (hschema : Spec.lookup T.name = some (.container sfs)) (hdecl : T.decl = .struct fields) :
    structOk fields sfs = true ∧
    containerMethodOk owners views fields (.container sfs) n!"Deserialize" T.deserialize = true ∧
    containerMethodOk owners views fields (.container sfs) n!"Serialize" T.serialize = true ∧
    containerMethodOk owners views fields (.container sfs) n!"ByteLength" T.byteLength = true ∧
    containerMethodOk owners views fields (.container sfs) n!"FixedLength" T.fixedLength = true := by
  unfold checkType at h
  simp only [hschema, hdecl] at h
  split at h
  · simp at h
  · split at h
    · simp at h
    · split at h
      · simp at h
      · rename_i hs
        simp only [Option.map_eq_none_iff, List.find?_eq_none] at h
        have h1 := h (n!"Deserialize", "Deserialize", T.deserialize) (by simp)
        have h2 := h (n!"Serialize", "Serialize", T.serialize) (by simp)
        have h3 := h (n!"ByteLength", "ByteLength", T.byteLength) (by simp)
        have h4 := h (n!"FixedLength", "FixedLength", T.fixedLength) (by simp)
        exact ⟨by simpa using hs, by simpa using h1, by simpa using h2, by simpa using h3, by simpa using h4⟩

theorem extract_struct_root (owners : Owners) (views : List ViewDef) (T : GoType) (sfs : SFields) (fields : List GoField)
    (h : checkType owners views .root T = none)
    (hschema : Spec.lookup T.name = some (.container sfs)) (hdecl : T.decl = .struct fields) :
    structOk fields sfs = true ∧
    containerMethodOk owners views fields (.container sfs) n!"HashTreeRoot" T.hashTreeRoot = true := by
  unfold checkType at h
  simp only [hschema, hdecl] at h
  split at h
  · simp at h
  · split at h
    · simp at h
    · split at h
      · simp at h
      · rename_i hs
        simp only [Option.map_eq_none_iff, List.find?_eq_none] at h
        have h1 := h (n!"HashTreeRoot", "HashTreeRoot", T.hashTreeRoot) (by simp)
        exact ⟨by simpa using hs, by simpa using h1⟩

theorem extract_list_codec (owners : Owners) (views : List ViewDef) (T : GoType) (elem : STy) (lim : LExpr)
    (h : checkType owners views .codec T = none)
    (hschema : Spec.lookup T.name = some (.list elem lim)) :
    listMethodOk owners views (.list elem lim) elem lim n!"Deserialize" T.deserialize = true ∧
    listMethodOk owners views (.list elem lim) elem lim n!"Serialize" T.serialize = true ∧
    listMethodOk owners views (.list elem lim) elem lim n!"ByteLength" T.byteLength = true ∧
    listMethodOk owners views (.list elem lim) elem lim n!"FixedLength" T.fixedLength = true := by
  unfold checkType at h
  simp only [hschema] at h
  split at h
  · simp at h
  · split at h
    · simp at h
    · simp only [Option.map_eq_none_iff, List.find?_eq_none] at h
      have h1 := h (n!"Deserialize", "Deserialize", T.deserialize) (by simp)
      have h2 := h (n!"Serialize", "Serialize", T.serialize) (by simp)
      have h3 := h (n!"ByteLength", "ByteLength", T.byteLength) (by simp)
      have h4 := h (n!"FixedLength", "FixedLength", T.fixedLength) (by simp)
      exact ⟨by simpa using h1, by simpa using h2, by simpa using h3, by simpa using h4⟩

theorem extract_list_root (owners : Owners) (views : List ViewDef) (T : GoType) (elem : STy) (lim : LExpr)
    (h : checkType owners views .root T = none)
    (hschema : Spec.lookup T.name = some (.list elem lim)) :
    listMethodOk owners views (.list elem lim) elem lim n!"HashTreeRoot" T.hashTreeRoot = true := by
  unfold checkType at h
  simp only [hschema] at h
  split at h
  · simp at h
  · split at h
    · simp at h
    · simp only [Option.map_eq_none_iff, List.find?_eq_none] at h
      have h1 := h (n!"HashTreeRoot", "HashTreeRoot", T.hashTreeRoot) (by simp)
      simpa using h1

theorem extract_vector_codec (owners : Owners) (views : List ViewDef) (T : GoType) (elem : STy) (len : LExpr)
    (h : checkType owners views .codec T = none)
    (hschema : Spec.lookup T.name = some (.vector elem len)) :
    vectorMethodOk owners views (.vector elem len) elem len n!"Deserialize" T.deserialize = true ∧
    vectorMethodOk owners views (.vector elem len) elem len n!"Serialize" T.serialize = true ∧
    vectorMethodOk owners views (.vector elem len) elem len n!"ByteLength" T.byteLength = true ∧
    vectorMethodOk owners views (.vector elem len) elem len n!"FixedLength" T.fixedLength = true := by
  unfold checkType at h
  simp only [hschema] at h
  split at h
  · simp at h
  · split at h
    · simp at h
    · simp only [Option.map_eq_none_iff, List.find?_eq_none] at h
      have h1 := h (n!"Deserialize", "Deserialize", T.deserialize) (by simp)
      have h2 := h (n!"Serialize", "Serialize", T.serialize) (by simp)
      have h3 := h (n!"ByteLength", "ByteLength", T.byteLength) (by simp)
      have h4 := h (n!"FixedLength", "FixedLength", T.fixedLength) (by simp)
      exact ⟨by simpa using h1, by simpa using h2, by simpa using h3, by simpa using h4⟩

theorem extract_vector_root (owners : Owners) (views : List ViewDef) (T : GoType) (elem : STy) (len : LExpr)
    (h : checkType owners views .root T = none)
    (hschema : Spec.lookup T.name = some (.vector elem len)) :
    vectorMethodOk owners views (.vector elem len) elem len n!"HashTreeRoot" T.hashTreeRoot = true := by
  unfold checkType at h
  simp only [hschema] at h
  split at h
  · simp at h
  · split at h
    · simp at h
    · simp only [Option.map_eq_none_iff, List.find?_eq_none] at h
      have h1 := h (n!"HashTreeRoot", "HashTreeRoot", T.hashTreeRoot) (by simp)
      simpa using h1

theorem extract_bitlist_codec (owners : Owners) (views : List ViewDef) (T : GoType) (lim : LExpr)
    (h : checkType owners views .codec T = none)
    (hschema : Spec.lookup T.name = some (.bitlist lim)) :
    bitsMethodOk owners views (.bitlist lim) n!"bitlist" lim n!"Deserialize" T.deserialize = true ∧
    bitsMethodOk owners views (.bitlist lim) n!"bitlist" lim n!"Serialize" T.serialize = true ∧
    bitsMethodOk owners views (.bitlist lim) n!"bitlist" lim n!"ByteLength" T.byteLength = true ∧
    bitsMethodOk owners views (.bitlist lim) n!"bitlist" lim n!"FixedLength" T.fixedLength = true := by
  unfold checkType at h
  simp only [hschema] at h
  split at h
  · simp at h
  · split at h
    · simp at h
    · simp only [Option.map_eq_none_iff, List.find?_eq_none] at h
      have h1 := h (n!"Deserialize", "Deserialize", T.deserialize) (by simp)
      have h2 := h (n!"Serialize", "Serialize", T.serialize) (by simp)
      have h3 := h (n!"ByteLength", "ByteLength", T.byteLength) (by simp)
      have h4 := h (n!"FixedLength", "FixedLength", T.fixedLength) (by simp)
      exact ⟨by simpa using h1, by simpa using h2, by simpa using h3, by simpa using h4⟩

theorem extract_bitlist_root (owners : Owners) (views : List ViewDef) (T : GoType) (lim : LExpr)
    (h : checkType owners views .root T = none)
    (hschema : Spec.lookup T.name = some (.bitlist lim)) :
    bitsMethodOk owners views (.bitlist lim) n!"bitlist" lim n!"HashTreeRoot" T.hashTreeRoot = true := by
  unfold checkType at h
  simp only [hschema] at h
  split at h
  · simp at h
  · split at h
    · simp at h
    · simp only [Option.map_eq_none_iff, List.find?_eq_none] at h
      have h1 := h (n!"HashTreeRoot", "HashTreeRoot", T.hashTreeRoot) (by simp)
      simpa using h1

theorem extract_bitvector_codec (owners : Owners) (views : List ViewDef) (T : GoType) (lim : LExpr)
    (h : checkType owners views .codec T = none)
    (hschema : Spec.lookup T.name = some (.bitvector lim)) :
    bitsMethodOk owners views (.bitvector lim) n!"bitvector" lim n!"Deserialize" T.deserialize = true ∧
    bitsMethodOk owners views (.bitvector lim) n!"bitvector" lim n!"Serialize" T.serialize = true ∧
    bitsMethodOk owners views (.bitvector lim) n!"bitvector" lim n!"ByteLength" T.byteLength = true ∧
    bitsMethodOk owners views (.bitvector lim) n!"bitvector" lim n!"FixedLength" T.fixedLength = true := by
  unfold checkType at h
  simp only [hschema] at h
  split at h
  · simp at h
  · split at h
    · simp at h
    · simp only [Option.map_eq_none_iff, List.find?_eq_none] at h
      have h1 := h (n!"Deserialize", "Deserialize", T.deserialize) (by simp)
      have h2 := h (n!"Serialize", "Serialize", T.serialize) (by simp)
      have h3 := h (n!"ByteLength", "ByteLength", T.byteLength) (by simp)
      have h4 := h (n!"FixedLength", "FixedLength", T.fixedLength) (by simp)
      exact ⟨by simpa using h1, by simpa using h2, by simpa using h3, by simpa using h4⟩

theorem extract_bitvector_root (owners : Owners) (views : List ViewDef) (T : GoType) (lim : LExpr)
    (h : checkType owners views .root T = none)
    (hschema : Spec.lookup T.name = some (.bitvector lim)) :
    bitsMethodOk owners views (.bitvector lim) n!"bitvector" lim n!"HashTreeRoot" T.hashTreeRoot = true := by
  unfold checkType at h
  simp only [hschema] at h
  split at h
  · simp at h
  · split at h
    · simp at h
    · simp only [Option.map_eq_none_iff, List.find?_eq_none] at h
      have h1 := h (n!"HashTreeRoot", "HashTreeRoot", T.hashTreeRoot) (by simp)
      simpa using h1

theorem extract_byteList_codec (owners : Owners) (views : List ViewDef) (T : GoType) (lim : LExpr)
    (h : checkType owners views .codec T = none)
    (hschema : Spec.lookup T.name = some (.byteList lim)) :
    bitsMethodOk owners views (.byteList lim) n!"bytelist" lim n!"Deserialize" T.deserialize = true ∧
    bitsMethodOk owners views (.byteList lim) n!"bytelist" lim n!"Serialize" T.serialize = true ∧
    bitsMethodOk owners views (.byteList lim) n!"bytelist" lim n!"ByteLength" T.byteLength = true ∧
    bitsMethodOk owners views (.byteList lim) n!"bytelist" lim n!"FixedLength" T.fixedLength = true := by
  unfold checkType at h
  simp only [hschema] at h
  split at h
  · simp at h
  · split at h
    · simp at h
    · simp only [Option.map_eq_none_iff, List.find?_eq_none] at h
      have h1 := h (n!"Deserialize", "Deserialize", T.deserialize) (by simp)
      have h2 := h (n!"Serialize", "Serialize", T.serialize) (by simp)
      have h3 := h (n!"ByteLength", "ByteLength", T.byteLength) (by simp)
      have h4 := h (n!"FixedLength", "FixedLength", T.fixedLength) (by simp)
      exact ⟨by simpa using h1, by simpa using h2, by simpa using h3, by simpa using h4⟩

theorem extract_byteList_root (owners : Owners) (views : List ViewDef) (T : GoType) (lim : LExpr)
    (h : checkType owners views .root T = none)
    (hschema : Spec.lookup T.name = some (.byteList lim)) :
    bitsMethodOk owners views (.byteList lim) n!"bytelist" lim n!"HashTreeRoot" T.hashTreeRoot = true := by
  unfold checkType at h
  simp only [hschema] at h
  split at h
  · simp at h
  · split at h
    · simp at h
    · simp only [Option.map_eq_none_iff, List.find?_eq_none] at h
      have h1 := h (n!"HashTreeRoot", "HashTreeRoot", T.hashTreeRoot) (by simp)
      simpa using h1

theorem extract_uint_codec (owners : Owners) (views : List ViewDef) (T : GoType) (k : Nat)
    (h : checkType owners views .codec T = none)
    (hschema : Spec.lookup T.name = some (.uint k)) :
    leafMethodOk owners views (.uint k) n!"Deserialize" T.deserialize = true ∧
    leafMethodOk owners views (.uint k) n!"Serialize" T.serialize = true ∧
    leafMethodOk owners views (.uint k) n!"ByteLength" T.byteLength = true ∧
    leafMethodOk owners views (.uint k) n!"FixedLength" T.fixedLength = true := by
  unfold checkType at h
  simp only [hschema] at h
  split at h
  · simp at h
  · split at h
    · simp at h
    · simp only [Option.map_eq_none_iff, List.find?_eq_none] at h
      have h1 := h (n!"Deserialize", "Deserialize", T.deserialize) (by simp)
      have h2 := h (n!"Serialize", "Serialize", T.serialize) (by simp)
      have h3 := h (n!"ByteLength", "ByteLength", T.byteLength) (by simp)
      have h4 := h (n!"FixedLength", "FixedLength", T.fixedLength) (by simp)
      exact ⟨by simpa using h1, by simpa using h2, by simpa using h3, by simpa using h4⟩

theorem extract_uint_root (owners : Owners) (views : List ViewDef) (T : GoType) (k : Nat)
    (h : checkType owners views .root T = none)
    (hschema : Spec.lookup T.name = some (.uint k)) :
    leafMethodOk owners views (.uint k) n!"HashTreeRoot" T.hashTreeRoot = true := by
  unfold checkType at h
  simp only [hschema] at h
  split at h
  · simp at h
  · split at h
    · simp at h
    · simp only [Option.map_eq_none_iff, List.find?_eq_none] at h
      have h1 := h (n!"HashTreeRoot", "HashTreeRoot", T.hashTreeRoot) (by simp)
      simpa using h1

theorem extract_bytesN_codec (owners : Owners) (views : List ViewDef) (T : GoType) (e : LExpr)
    (h : checkType owners views .codec T = none)
    (hschema : Spec.lookup T.name = some (.bytesN e)) :
    leafMethodOk owners views (.bytesN e) n!"Deserialize" T.deserialize = true ∧
    leafMethodOk owners views (.bytesN e) n!"Serialize" T.serialize = true ∧
    leafMethodOk owners views (.bytesN e) n!"ByteLength" T.byteLength = true ∧
    leafMethodOk owners views (.bytesN e) n!"FixedLength" T.fixedLength = true := by
  unfold checkType at h
  simp only [hschema] at h
  split at h
  · simp at h
  · split at h
    · simp at h
    · simp only [Option.map_eq_none_iff, List.find?_eq_none] at h
      have h1 := h (n!"Deserialize", "Deserialize", T.deserialize) (by simp)
      have h2 := h (n!"Serialize", "Serialize", T.serialize) (by simp)
      have h3 := h (n!"ByteLength", "ByteLength", T.byteLength) (by simp)
      have h4 := h (n!"FixedLength", "FixedLength", T.fixedLength) (by simp)
      exact ⟨by simpa using h1, by simpa using h2, by simpa using h3, by simpa using h4⟩

theorem extract_bytesN_root (owners : Owners) (views : List ViewDef) (T : GoType) (e : LExpr)
    (h : checkType owners views .root T = none)
    (hschema : Spec.lookup T.name = some (.bytesN e)) :
    leafMethodOk owners views (.bytesN e) n!"HashTreeRoot" T.hashTreeRoot = true := by
  unfold checkType at h
  simp only [hschema] at h
  split at h
  · simp at h
  · split at h
    · simp at h
    · simp only [Option.map_eq_none_iff, List.find?_eq_none] at h
      have h1 := h (n!"HashTreeRoot", "HashTreeRoot", T.hashTreeRoot) (by simp)
      simpa using h1

end Zrnt.Proofs.SSZ
