import Proofs.Lemmas.ForkAt
/-! Helper lemmas for C14 `state_fork_invariant`: one `ProcessSlots` step of the fork bookkeeping model
(`Zrnt.Config.processSlots` over the regenerated `UpgradeMaybe` chain) against the `forkAt` specification. -/
namespace Zrnt.Proofs.Upgrade
open Zrnt Zrnt.Config Zrnt.Proofs.ForkAt

/-- `epoch(f) * SLOTS_PER_EPOCH` in ℕ -/
def P (c : Schedule) (spe : UInt64) (f : Fork) : Nat := c.epochOf f * spe.toNat

theorem forkAt_slot (c : Schedule) (h : c.Monotone) (spe : UInt64) (hs : 0 < spe.toNat) (m : Nat) :
    forkAt c (m / spe.toNat) =
      if m < P c spe .altair then .phase0
      else if m < P c spe .bellatrix then .altair
      else if m < P c spe .capella then .bellatrix
      else if m < P c spe .deneb then .capella
      else if m < P c spe .electra then .deneb
      else if m < P c spe .fulu then .electra
      else .fulu := by
  rw [forkAt_cases c h]
  simp only [P, Schedule.epochOf, Nat.div_lt_iff_lt_mul hs]
  rfl

theorem epochOf_lt (c : Schedule) (f : Fork) : c.epochOf f < 2 ^ 64 := by
  cases f <;> simp [Schedule.epochOf] <;> exact UInt64.toNat_lt _

/-- the wrapped 64-bit product equals the slot iff the true product does, when no wrapped product is in reach -/
theorem slot_eq_boundary (c : Schedule) (spe : UInt64) (f : Fork) (k N : Nat) (hk : k ≤ N) (hN : N < 2 ^ 64)
    (hw : P c spe f % 2 ^ 64 ≤ N → P c spe f < 2 ^ 64) :
    (UInt64.ofNat k = boundarySlot c spe f) ↔ k = P c spe f := by
  have hb : (boundarySlot c spe f).toNat = P c spe f % 2 ^ 64 := by
    simp [boundarySlot, P, UInt64.toNat_mul, UInt64.toNat_ofNat', Nat.mod_eq_of_lt (epochOf_lt c f)]
  have hkk : (UInt64.ofNat k).toNat = k := by
    simp [UInt64.toNat_ofNat']; omega
  constructor
  · intro h
    have := congrArg UInt64.toNat h
    rw [hb, hkk] at this
    have h2 := hw (by omega)
    rw [Nat.mod_eq_of_lt h2] at this; exact this
  · intro h
    apply UInt64.toNat_inj.mp
    rw [hb, hkk, ← h, Nat.mod_eq_of_lt (by omega)]

theorem epoch_of_boundary (c : Schedule) (spe : UInt64) (f : Fork) (k : Nat) (hk : k < 2 ^ 64) (hs : 0 < spe.toNat)
    (h : k = P c spe f) : UInt64.ofNat k / spe = UInt64.ofNat (c.epochOf f) := by
  apply UInt64.toNat_inj.mp
  rw [UInt64.toNat_div]
  simp only [UInt64.toNat_ofNat']
  rw [Nat.mod_eq_of_lt hk, Nat.mod_eq_of_lt (epochOf_lt c f), h, P, Nat.mul_div_cancel _ hs]

/-- what the specification says the fork bookkeeping is at slot `n` of a chain whose genesis state is in
the fork active at epoch 0 (`f0 = forkAt c 0`, fork record `(version f0, version f0, 0)`): the state is
in `forkAt c (epoch n)`; while that is still the genesis fork the fork record is the genesis one, afterwards
it is `(version of the preceding fork, version of the fork, activation epoch of the fork)` -/
def specState (c : Schedule) (spe : UInt64) (n : Nat) : FState :=
  let f := forkAt c (n / spe.toNat)
  let f0 := forkAt c (0 / spe.toNat)
  { ty := f,
    prev := if f = f0 then c.versionOf f0 else c.versionOf f.pred,
    cur := c.versionOf f,
    epoch := if f = f0 then 0 else UInt64.ofNat (c.epochOf f),
    slot := UInt64.ofNat n }

def chain5 : UpChain := [(.phase0, .altair, .altair), (.altair, .bellatrix, .bellatrix), (.bellatrix, .capella, .capella),
            (.capella, .deneb, .deneb), (.deneb, .electra, .electra)]
def sup4 : List Fork := [.altair, .bellatrix, .capella, .deneb]

theorem step (c : Schedule) (spe : UInt64) (m N : Nat) (hmono : c.Monotone) (hs : 0 < spe.toNat)
    (hm : m + 1 ≤ N) (hN : N < 2 ^ 64)
    (hw : ∀ f, P c spe f % 2 ^ 64 ≤ N → P c spe f < 2 ^ 64) (hE : m + 1 < P c spe .electra) :
    upgradeMaybe chain5 sup4 c spe chain5 { specState c spe m with slot := UInt64.ofNat (m + 1) } =
      .ok (specState c spe (m + 1)) := by
  have hb : ∀ f, (UInt64.ofNat (m + 1) = boundarySlot c spe f) = (m + 1 = P c spe f) := fun f =>
    propext (slot_eq_boundary c spe f (m + 1) N hm hN (hw f))
  have hspe : spe ≠ 0 := by intro h; rw [h] at hs; simp at hs
  obtain ⟨h1, h2, h3, h4, h5⟩ := hmono
  have hAB : P c spe .altair ≤ P c spe .bellatrix := Nat.mul_le_mul_right _ h1
  have hBC : P c spe .bellatrix ≤ P c spe .capella := Nat.mul_le_mul_right _ h2
  have hCD : P c spe .capella ≤ P c spe .deneb := Nat.mul_le_mul_right _ h3
  have hDE : P c spe .deneb ≤ P c spe .electra := Nat.mul_le_mul_right _ h4
  have hEF : P c spe .electra ≤ P c spe .fulu := Nat.mul_le_mul_right _ h5
  have ep : ∀ f, m + 1 = P c spe f → UInt64.ofNat (m + 1) / spe = UInt64.ofNat (c.epochOf f) := fun f h =>
    epoch_of_boundary c spe f (m + 1) (by omega) hs h
  have epA : P c spe .altair = m + 1 → _ := fun h => ep .altair h.symm
  have epB : P c spe .bellatrix = m + 1 → _ := fun h => ep .bellatrix h.symm
  have epC : P c spe .capella = m + 1 → _ := fun h => ep .capella h.symm
  have epD : P c spe .deneb = m + 1 → _ := fun h => ep .deneb h.symm
  simp only [specState, forkAt_slot c ⟨h1, h2, h3, h4, h5⟩ spe hs]
  simp only [upgradeMaybe, chain5, sup4, hb, hspe, List.contains_cons, List.contains_nil]
  clear hb ep hw
  generalize P c spe .altair = A at *
  generalize P c spe .bellatrix = B at *
  generalize P c spe .capella = C at *
  generalize P c spe .deneb = D at *
  generalize P c spe .electra = E at *
  generalize P c spe .fulu = F at *
  have l : ∀ X, (m + 1 < X) = (m < X ∧ ¬ X = m + 1) := fun X => propext (by omega)
  have l2 : ∀ X, (m + 1 = X) = (X = m + 1) := fun X => propext eq_comm
  simp only [l, l2]
  by_cases z1 : 0 < A
  all_goals by_cases z2 : 0 < B
  all_goals first | (exfalso; omega) | skip
  all_goals by_cases z3 : 0 < C
  all_goals first | (exfalso; omega) | skip
  all_goals by_cases z4 : 0 < D
  all_goals first | (exfalso; omega) | skip
  all_goals by_cases z5 : 0 < E
  all_goals first | (exfalso; omega) | skip
  all_goals by_cases z6 : 0 < F
  all_goals first | (exfalso; omega) | skip
  all_goals by_cases a1 : m < A
  all_goals first | (exfalso; omega) | skip
  all_goals by_cases a2 : m < B
  all_goals first | (exfalso; omega) | skip
  all_goals by_cases a3 : m < C
  all_goals first | (exfalso; omega) | skip
  all_goals by_cases a4 : m < D
  all_goals first | (exfalso; omega) | skip
  all_goals by_cases a5 : m < E
  all_goals first | (exfalso; omega) | skip
  all_goals by_cases a6 : m < F
  all_goals first | (exfalso; omega) | skip
  all_goals by_cases e1 : A = m + 1
  all_goals first | (exfalso; omega) | skip
  all_goals by_cases e2 : B = m + 1
  all_goals first | (exfalso; omega) | skip
  all_goals by_cases e3 : C = m + 1
  all_goals first | (exfalso; omega) | skip
  all_goals by_cases e4 : D = m + 1
  all_goals first | (exfalso; omega) | skip
  all_goals by_cases e5 : E = m + 1
  all_goals first | (exfalso; omega) | skip
  all_goals simp [*, Fork.pred, Schedule.versionOf]
  all_goals first | (simpa using epD e4) | (simpa using epC e3) | (simpa using epB e2) | (simpa using epA e1)

theorem ofNat_succ (m : Nat) : UInt64.ofNat m + 1 = UInt64.ofNat (m + 1) := by
  apply UInt64.toNat_inj.mp
  simp [UInt64.toNat_add, UInt64.toNat_ofNat']

theorem run (c : Schedule) (spe : UInt64) (N : Nat) (hmono : c.Monotone) (hs : 0 < spe.toNat)
    (hN : N < 2 ^ 64)
    (hw : ∀ f, P c spe f % 2 ^ 64 ≤ N → P c spe f < 2 ^ 64) (hE : N < P c spe .electra) :
    ∀ k m, m + k ≤ N →
      processSlots chain5 sup4 c spe k (specState c spe m) = .ok (specState c spe (m + k)) := by
  intro k
  induction k with
  | zero => intro m _; simp [processSlots]
  | succ k ih =>
    intro m hmk
    have hstep := step c spe m N hmono hs (by omega) hN hw (by omega)
    have hslot : (specState c spe m).slot + 1 = UInt64.ofNat (m + 1) := by
      show UInt64.ofNat m + 1 = UInt64.ofNat (m + 1)
      exact ofNat_succ m
    simp only [processSlots, hslot, hstep]
    have := ih (m + 1) (by omega)
    rw [this]
    congr 2
    omega

/-- the phase0 genesis the repository builds (`GenesisFromEth1`): fork = (genesis, genesis, 0) at slot 0 -/
def genesisState (c : Schedule) : FState :=
  { ty := .phase0, prev := c.genesisVersion, cur := c.genesisVersion, epoch := 0, slot := 0 }

/-- a genesis state in the fork active at epoch 0 (phase0 genesis upgraded at slot 0, as the consensus
specification's later-fork test genesis and `internal/chain` do): fork = (version, version, 0) -/
def genesisStateOf (c : Schedule) : FState :=
  let f0 := forkAt c 0
  { ty := f0, prev := c.versionOf f0, cur := c.versionOf f0, epoch := 0, slot := 0 }

theorem genesisOf_eq (c : Schedule) (spe : UInt64) : genesisStateOf c = specState c spe 0 := by
  simp [genesisStateOf, specState]

theorem genesis_eq (c : Schedule) (hmono : c.Monotone) (hgen : 0 < c.altairEpoch.toNat) :
    genesisState c = genesisStateOf c := by
  simp [genesisState, genesisStateOf, forkAt_cases c hmono, hgen, Schedule.versionOf]

/-- a phase0 state is only ever upgraded at slot `ALTAIR_FORK_EPOCH * SLOTS_PER_EPOCH`; with
`ALTAIR_FORK_EPOCH = 0` that is slot 0, which `ProcessSlots` never *arrives* at: the state stays phase0 -/
theorem stuck_step (c : Schedule) (spe : UInt64) (s : FState) (hty : s.ty = .phase0)
    (ha : c.altairEpoch = 0) (hslot : s.slot ≠ 0) :
    upgradeMaybe chain5 sup4 c spe chain5 s = .ok s := by
  have hb : boundarySlot c spe .altair = 0 := by simp [boundarySlot, Schedule.epochOf, ha]
  simp [upgradeMaybe, chain5, hty, hb, hslot]

theorem stuck_run (c : Schedule) (spe : UInt64) (ha : c.altairEpoch = 0) :
    ∀ k m, m + k < 2 ^ 64 →
      processSlots chain5 sup4 c spe k { genesisState c with slot := UInt64.ofNat m } =
        .ok { genesisState c with slot := UInt64.ofNat (m + k) } := by
  intro k
  induction k with
  | zero => intro m _; simp [processSlots]
  | succ k ih =>
    intro m hmk
    have hne : UInt64.ofNat (m + 1) ≠ 0 := by
      intro h
      have := congrArg UInt64.toNat h
      simp [UInt64.toNat_ofNat'] at this
      omega
    have hstep := stuck_step c spe { genesisState c with slot := UInt64.ofNat (m + 1) } rfl ha hne
    have hslot : UInt64.ofNat m + 1 = UInt64.ofNat (m + 1) := ofNat_succ m
    simp only [processSlots, hslot, hstep]
    have := ih (m + 1) (by omega)
    have e : m + 1 + k = m + (k + 1) := by omega
    rw [this, e]
theorem stateDomain_eq_forkAt_aux (c : Schedule) (hmono : c.Monotone) (spe : UInt64) (n : Nat) (e : UInt64)
    (hup : e.toNat ≤ n / spe.toNat)
    (hlo : forkAt c (n / spe.toNat) = forkAt c 0 ∨ c.epochOf (forkAt c (n / spe.toNat)).pred ≤ e.toNat) :
    domainVersion (specState c spe n) e = c.versionOf (forkAt c e.toNat) := by
  obtain ⟨h1, h2, h3, h4, h5⟩ := hmono
  simp only [domainVersion, specState, Nat.zero_div, UInt64.lt_iff_toNat_lt] at *
  generalize n / spe.toNat = E at *
  rw [forkAt_cases c ⟨h1, h2, h3, h4, h5⟩ E, forkAt_cases c ⟨h1, h2, h3, h4, h5⟩ 0,
    forkAt_cases c ⟨h1, h2, h3, h4, h5⟩ e.toNat] at *
  generalize hx : e.toNat = x at *
  by_cases z1 : 0 < c.altairEpoch.toNat
  all_goals by_cases z2 : 0 < c.bellatrixEpoch.toNat
  all_goals first | (exfalso; omega) | skip
  all_goals by_cases z3 : 0 < c.capellaEpoch.toNat
  all_goals first | (exfalso; omega) | skip
  all_goals by_cases z4 : 0 < c.denebEpoch.toNat
  all_goals first | (exfalso; omega) | skip
  all_goals by_cases z5 : 0 < c.electraEpoch.toNat
  all_goals first | (exfalso; omega) | skip
  all_goals by_cases z6 : 0 < c.fuluEpoch.toNat
  all_goals first | (exfalso; omega) | skip
  all_goals by_cases a1 : E < c.altairEpoch.toNat
  all_goals first | (exfalso; omega) | skip
  all_goals by_cases a2 : E < c.bellatrixEpoch.toNat
  all_goals first | (exfalso; omega) | skip
  all_goals by_cases a3 : E < c.capellaEpoch.toNat
  all_goals first | (exfalso; omega) | skip
  all_goals by_cases a4 : E < c.denebEpoch.toNat
  all_goals first | (exfalso; omega) | skip
  all_goals by_cases a5 : E < c.electraEpoch.toNat
  all_goals first | (exfalso; omega) | skip
  all_goals by_cases a6 : E < c.fuluEpoch.toNat
  all_goals first | (exfalso; omega) | skip
  all_goals by_cases b1 : x < c.altairEpoch.toNat
  all_goals first | (exfalso; omega) | skip
  all_goals by_cases b2 : x < c.bellatrixEpoch.toNat
  all_goals first | (exfalso; omega) | skip
  all_goals by_cases b3 : x < c.capellaEpoch.toNat
  all_goals first | (exfalso; omega) | skip
  all_goals by_cases b4 : x < c.denebEpoch.toNat
  all_goals first | (exfalso; omega) | skip
  all_goals by_cases b5 : x < c.electraEpoch.toNat
  all_goals first | (exfalso; omega) | skip
  all_goals by_cases b6 : x < c.fuluEpoch.toNat
  all_goals first | (exfalso; omega) | skip
  all_goals simp [*, Fork.pred, Schedule.versionOf, Schedule.epochOf] at hlo ⊢
  all_goals first | omega | (intro hh; exfalso; omega) | skip
end Zrnt.Proofs.Upgrade
