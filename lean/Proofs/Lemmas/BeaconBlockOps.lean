import Proofs.Lemmas.BeaconBlockM
/-!
# C01/C03 — `M = S` for attestations and slashings (round 3)

Continues `BeaconBlockM.lean` (same namespace, same proof recipe): the operations whose specification has loops are
compared with their pure cores in `Zrnt/Beacon/Spec/BlockPure.lean`; the monadic `S` compares itself with the pure core
on every evaluation (`crossCheck`), and the links proved in Lean are at the end of this file.
-/
set_option linter.unusedSimpArgs false
set_option linter.unusedVariables false
namespace Zrnt.Proofs.BlockM
open Zrnt Zrnt.Beacon Zrnt.Beacon.Spec Zrnt.Beacon.BlockImpl Zrnt.Beacon.BlockM Zrnt.Proofs.BeaconBlock

/-! ### attestations, phase0 -/

theorem eraseDups_of_nodup : ∀ (l : List Nat), l.Nodup → l.eraseDups = l := by
  intro l
  induction l with
  | nil => intro _; rfl
  | cons a t ih =>
    intro h
    have hn := List.nodup_cons.mp h
    rw [List.eraseDups_cons]
    have hf : t.filter (fun b => !b == a) = t := by
      apply List.filter_eq_self.mpr
      intro b hb
      have : b ≠ a := fun e => hn.1 (e ▸ hb)
      simp [this]
    rw [hf, ih hn.2]

/-- the timing checks of `M` (wrapping sums) against the pure Boolean, cf. `attestationTiming_eq` -/
theorem timing_pure_eq (cfg : Config) (s : State) (data : AttestationData)
    (hspe : 0 < cfg.SLOTS_PER_EPOCH) (hmin : cfg.MIN_ATTESTATION_INCLUSION_DELAY ≤ cfg.SLOTS_PER_EPOCH)
    (hcur : s.slot + 2 * cfg.SLOTS_PER_EPOCH < 2 ^ 64) :
    attestationTimingOk cfg.SLOTS_PER_EPOCH cfg.MIN_ATTESTATION_INCLUSION_DELAY (decide (s.fork ≥ .deneb)) s.slot data.slot data.target.epoch
      = Block.attestation_timing_pure cfg s data := by
  have h := attestationTiming_eq cfg.SLOTS_PER_EPOCH cfg.MIN_ATTESTATION_INCLUSION_DELAY (decide (s.fork ≥ .deneb)) s.slot data.slot data.target.epoch hspe hmin hcur
  have h2 : Block.attestation_timing_pure cfg s data = true ↔
      specTimingOk cfg.SLOTS_PER_EPOCH cfg.MIN_ATTESTATION_INCLUSION_DELAY (decide (s.fork ≥ .deneb)) s.slot data.slot data.target.epoch := by
    unfold Block.attestation_timing_pure specTimingOk
    simp only [Bool.and_eq_true, Bool.or_eq_true, decide_eq_true_eq]
    constructor
    · rintro ⟨⟨⟨h1, h2⟩, h3⟩, h4⟩
      refine ⟨h1, h2, h3, fun hd => ?_⟩
      rcases h4 with h4 | h4
      · simp [show s.fork ≥ Fork.deneb from h4] at hd
      · exact h4
    · rintro ⟨h1, h2, h3, h4⟩
      refine ⟨⟨⟨h1, h2⟩, h3⟩, ?_⟩
      by_cases hd : s.fork ≥ .deneb
      · left; exact hd
      · right; exact h4 (by simp [hd])
  cases hA : attestationTimingOk cfg.SLOTS_PER_EPOCH cfg.MIN_ATTESTATION_INCLUSION_DELAY (decide (s.fork ≥ .deneb)) s.slot data.slot data.target.epoch <;>
    cases hB : Block.attestation_timing_pure cfg s data <;> simp_all

/-- participants of a committee under a bit list -/
def participants (committee : List Nat) (bits : List Bool) : List Nat :=
  (committee.zip bits).filterMap fun (i, b) => if b then some i else none

theorem participants_mem : ∀ (c : List Nat) (b : List Bool) (x : Nat), x ∈ participants c b → x ∈ c := by
  intro c
  induction c with
  | nil => intro b x h; simp [participants] at h
  | cons a t ih =>
    intro b x h
    cases b with
    | nil => simp [participants] at h
    | cons b0 bs =>
      unfold participants at h
      simp only [List.zip_cons_cons, List.filterMap_cons] at h
      cases b0 with
      | false => simp only [Bool.false_eq_true, if_false] at h; exact List.mem_cons_of_mem _ (ih bs x h)
      | true =>
        simp only [if_true, List.mem_cons] at h
        rcases h with h | h
        · rw [h]; exact List.mem_cons_self
        · exact List.mem_cons_of_mem _ (ih bs x h)

theorem participants_nodup : ∀ (c : List Nat) (b : List Bool), c.Nodup → (participants c b).Nodup := by
  intro c
  induction c with
  | nil => intro b _; simp [participants]
  | cons a t ih =>
    intro b h
    have hn := List.nodup_cons.mp h
    cases b with
    | nil => simp [participants]
    | cons b0 bs =>
      unfold participants
      simp only [List.zip_cons_cons, List.filterMap_cons]
      cases b0 with
      | false => simp only [Bool.false_eq_true, if_false]; exact ih bs hn.2
      | true =>
        simp only [if_true]
        exact List.nodup_cons.mpr ⟨fun hm => hn.1 (participants_mem t bs a hm), ih bs hn.2⟩

theorem participants_length_le (c : List Nat) (b : List Bool) : (participants c b).length ≤ b.length := by
  unfold participants
  have h1 := List.length_filterMap_le (fun (x : Nat × Bool) => match x with | (i, b) => if b then some i else none) (c.zip b)
  have h2 : (c.zip b).length ≤ b.length := by simp [List.length_zip]; omega
  omega

theorem insertionSort_length (l : List Nat) : (Block.insertionSort l).length = l.length := by
  unfold Block.insertionSort
  have hins : ∀ (x : Nat) (l : List Nat), (Block.insertionSort.ins x l).length = l.length + 1 := by
    intro x l
    induction l with
    | nil => rfl
    | cons y ys ih => unfold Block.insertionSort.ins; split <;> simp [ih]
  have : ∀ (l acc : List Nat), (l.foldl (fun acc x => Block.insertionSort.ins x acc) acc).length = acc.length + l.length := by
    intro l
    induction l with
    | nil => intro acc; simp
    | cons x xs ih => intro acc; simp only [List.foldl_cons, ih, hins, List.length_cons]; omega
  simpa using this l []

/-- `ValidateIndexedAttestation` (limit, structure, range of the last index, signature) against the pure predicate -/
theorem validateIndexed_eq (cfg : Config) (s : State) (indices : List Nat) (sig_ok : Bool)
    (hlen : indices.length ≤ cfg.MAX_VALIDATORS_PER_COMMITTEE) :
    validateIndexedAttestation cfg s indices sig_ok = BlockM.guard (Block.valid_indexed_pure s indices sig_ok) := by
  unfold validateIndexedAttestation Block.valid_indexed_pure
  rw [validateIndexedNoSig_eq]
  simp only [res_bind_ok, guard_bind]
  by_cases h1 : indices.length ≠ 0 <;> by_cases h2 : Block.sortedUnique indices = true <;>
    by_cases h3 : (∀ i ∈ indices, i < s.validators.length) <;> cases sig_ok <;>
    simp [hlen, h1, h2, h3, BlockM.guard, List.all_eq_true] <;> (try (intro h; exact absurd h h3)) <;> simp_all

/-- (a) `phase0.ProcessAttestation` = phase0 `process_attestation` (pure core, compared with the monadic `S` on every
evaluation): epoch/slot/window checks with wrapping sums, committee-index bound and committee taken from the context,
source checkpoint, conversion to the sorted indexed form, structure/range/signature check, and the appended
`PendingAttestation` (data, bits, `inclusion_delay = state.slot − data.slot`, the context's proposer) under the list
limit. `count`, `committee`, `proposer` are the specification's values, which the context holds (C07). -/
theorem attestation_phase0_eq (cfg : Config) (ctx : Ctx) (s : State) (att : Attestation)
    (count : Option Nat) (committee : Option (List Nat)) (proposer : Option Nat)
    (hfork : s.fork = .phase0)
    (hcc : ctx.committeeCount att.data.target.epoch = count)
    (hcom : ctx.committee att.data.slot att.data.index = committee)
    (hprop : ctx.proposer = proposer)
    (hnd : ∀ c, committee = some c → c.Nodup)
    (hwf : att.bits_wellformed = true) (hmaxbits : att.aggregation_bits.length ≤ cfg.MAX_VALIDATORS_PER_COMMITTEE)
    (hspe : 0 < cfg.SLOTS_PER_EPOCH) (hmin : cfg.MIN_ATTESTATION_INCLUSION_DELAY ≤ cfg.SLOTS_PER_EPOCH)
    (hcur : s.slot + 2 * cfg.SLOTS_PER_EPOCH < 2 ^ 64) :
    processAttestationPhase0 cfg ctx s att =
      optRes (Block.process_attestation_phase0_pure cfg s att count committee proposer) := by
  unfold processAttestationPhase0 attestationHead Block.process_attestation_phase0_pure
  simp only []
  rw [timing_pure_eq cfg s att.data hspe hmin hcur]
  simp only [hcc, hcom, hprop, guard_bind, ofOpt_bind, res_bind_ok]
  cases ht : Block.attestation_timing_pure cfg s att.data with
  | false => simp [optRes]
  | true =>
    simp only [if_true, Bool.not_true, Bool.false_eq_true, if_false]
    cases count with
    | none => simp [optRes]
    | some n =>
      simp only []
      by_cases hin : att.data.index < n
      · have hge : ¬ att.data.index ≥ n := by omega
        simp only [hge, decide_false, Bool.not_false, if_true, hin, not_true_eq_false, if_false]
        cases committee with
        | none =>
          simp only []
          split <;> simp [optRes, BlockM.guard, bind, Res.bind]
        | some c =>
          have hcn := hnd c rfl
          simp only []
          unfold convertToIndexed
          simp only [hwf, hmaxbits, decide_true, Bool.and_self, guard_bind, if_true, res_bind_ok]
          by_cases hlen : c.length = att.aggregation_bits.length
          · have hlen' : ¬ att.aggregation_bits.length ≠ c.length := by omega
            simp only [hlen, decide_true, if_true, hlen', if_false, res_bind_ok, pure]
            have hidx : sortNat ((c.zip att.aggregation_bits).filterMap fun (i, b) => if b then some i else none) =
                Block.attesting_indices_pure c att.aggregation_bits := by
              unfold sortNat Block.attesting_indices_pure
              have := eraseDups_of_nodup _ (participants_nodup c att.aggregation_bits hcn)
              unfold participants at this
              rw [this]
            rw [hidx]
            have hil : (Block.attesting_indices_pure c att.aggregation_bits).length ≤ cfg.MAX_VALIDATORS_PER_COMMITTEE := by
              unfold Block.attesting_indices_pure
              have h1 := eraseDups_of_nodup _ (participants_nodup c att.aggregation_bits hcn)
              have h2 := participants_length_le c att.aggregation_bits
              unfold participants at h1 h2
              rw [insertionSort_length, h1]
              omega
            rw [validateIndexed_eq cfg s _ _ hil]
            simp only [guard_bind]
            by_cases hcurr : att.data.target.epoch = s.slot / cfg.SLOTS_PER_EPOCH
            · simp only [hcurr, decide_true, if_true]
              repeat' split
              all_goals first | rfl | (simp_all [optRes]; done)
            · simp only [hcurr, decide_false, Bool.false_eq_true, if_false]
              repeat' split
              all_goals first | rfl | (simp_all [optRes]; done)
          · have hlen' : att.aggregation_bits.length ≠ c.length := fun h => hlen h.symm
            simp [hlen, hlen', optRes]
      · have hge : att.data.index ≥ n := by omega
        simp [hge, hin, optRes, BlockM.guard, bind, Res.bind]

/-! ### attestations, altair … deneb -/

def byteF (c : Nat → Bool) : List (Nat × Nat) → Nat → Nat
  | [], e => e
  | fw :: t, e => if c fw.1 && !has_flag e fw.1 then byteF c t (add_flag e fw.1) else byteF c t e

def wtF (c : Nat → Bool) : List (Nat × Nat) → Nat → Nat
  | [], _ => 0
  | fw :: t, e => if c fw.1 && !has_flag e fw.1 then fw.2 + wtF c t (add_flag e fw.1) else wtF c t e

theorem flags_fold (c : Nat → Bool) (br : Nat) : ∀ (l : List (Nat × Nat)) (e num : Nat),
    l.foldl (fun acc fw => if c fw.1 && !has_flag acc.1 fw.1 then (add_flag acc.1 fw.1, acc.2 + br * fw.2) else acc) (e, num) =
      (byteF c l e, num + br * wtF c l e) := by
  intro l
  induction l with
  | nil => intro e num; simp [byteF, wtF]
  | cons fw t ih =>
    intro e num
    simp only [List.foldl_cons, byteF, wtF]
    by_cases h : (c fw.1 && !has_flag e fw.1) = true
    · simp only [h, if_true, ih, Nat.mul_add, Nat.add_assoc]
    · have h' : (c fw.1 && !has_flag e fw.1) = false := by simpa using h
      simp only [h', Bool.false_eq_true, if_false, ih]

def bitOf (m i : Nat) : Bool := decide (m / 2 ^ i % 2 = 1)

set_option maxRecDepth 100000 in
theorem flags_table : ∀ e < 256, ∀ m < 8,
    byteF (bitOf m) [(0, 14), (1, 26), (2, 14)] e = e ||| m ∧
    wtF (bitOf m) [(0, 14), (1, 26), (2, 14)] e =
      (if m / 1 % 2 = 1 ∧ e / 1 % 2 = 0 then 14 else 0) + (if m / 2 % 2 = 1 ∧ e / 2 % 2 = 0 then 26 else 0) +
      (if m / 4 % 2 = 1 ∧ e / 4 % 2 = 0 then 14 else 0) := by
  decide

theorem num_chain (p1 p2 p3 : Bool) (br num R : Nat) (hbr : br ≤ R) (hb : num + R * 54 < 2 ^ 64) :
    (if p3 then w64 ((if p2 then w64 ((if p1 then w64 (num + w64 (br * 14)) else num) + w64 (br * 26)) else (if p1 then w64 (num + w64 (br * 14)) else num)) + w64 (br * 14))
      else (if p2 then w64 ((if p1 then w64 (num + w64 (br * 14)) else num) + w64 (br * 26)) else (if p1 then w64 (num + w64 (br * 14)) else num))) =
    num + br * ((if p1 then 14 else 0) + (if p2 then 26 else 0) + (if p3 then 14 else 0)) := by
  have e1 : w64 (br * 14) = br * 14 := w64_id _ (by omega)
  have e2 : w64 (br * 26) = br * 26 := w64_id _ (by omega)
  have e3 : w64 (num + br * 14) = num + br * 14 := w64_id _ (by omega)
  have e4 : w64 (num + br * 26) = num + br * 26 := w64_id _ (by omega)
  have e5 : w64 (num + br * 14 + br * 26) = num + br * 14 + br * 26 := w64_id _ (by omega)
  have e6 : w64 (num + br * 14 + br * 14) = num + br * 14 + br * 14 := w64_id _ (by omega)
  have e7 : w64 (num + br * 26 + br * 14) = num + br * 26 + br * 14 := w64_id _ (by omega)
  have e8 : w64 (num + br * 14 + br * 26 + br * 14) = num + br * 14 + br * 26 + br * 14 := w64_id _ (by omega)
  cases p1 <;> cases p2 <;> cases p3 <;> simp only [e1, e2, e3, e4, e5, e6, e7, e8, if_true, if_false, Bool.false_eq_true] <;> omega

theorem flag_list_eq : (List.range PARTICIPATION_FLAG_WEIGHTS.length).zip PARTICIPATION_FLAG_WEIGHTS = [(0, 14), (1, 26), (2, 14)] := by
  decide

theorem byteF_congr (c c' : Nat → Bool) (h : ∀ i, i < 3 → c i = c' i) (e : Nat) :
    byteF c [(0, 14), (1, 26), (2, 14)] e = byteF c' [(0, 14), (1, 26), (2, 14)] e ∧
    wtF c [(0, 14), (1, 26), (2, 14)] e = wtF c' [(0, 14), (1, 26), (2, 14)] e := by
  constructor <;> simp only [byteF, wtF, h 0 (by omega), h 1 (by omega), h 2 (by omega)]

set_option maxRecDepth 100000 in
theorem flags_one_eq (flags : List Nat) (m e br num : Nat) (he : e < 256) (hm : m < 8)
    (hfl : ∀ i, i < 3 → flags.contains i = bitOf m i) :
    Block.attestation_flags_one (fun f => flags.contains f) br e num =
      (e ||| m, num + br * ((if m / 1 % 2 = 1 ∧ e / 1 % 2 = 0 then 14 else 0) + (if m / 2 % 2 = 1 ∧ e / 2 % 2 = 0 then 26 else 0) +
        (if m / 4 % 2 = 1 ∧ e / 4 % 2 = 0 then 14 else 0))) := by
  unfold Block.attestation_flags_one
  rw [flag_list_eq, flags_fold]
  have hc := byteF_congr (fun f => flags.contains f) (bitOf m) hfl e
  have ht := flags_table e he m hm
  rw [hc.1, hc.2, ht.1, ht.2]

set_option maxRecDepth 100000 in
theorem or_lt_256 : ∀ e < 256, ∀ m < 8, e ||| m < 256 := by decide

theorem applyFlagsLoop_eq (cfg : Config) (ctx : Ctx) (s : State) (T m R brpi : Nat) (flags : List Nat)
    (hm : m < 8) (hfl : ∀ i, i < 3 → flags.contains i = bitOf m i)
    (heb : ctx.effectiveBalances = s.validators.map (·.effective_balance))
    (hbrpi : brpi = cfg.EFFECTIVE_BALANCE_INCREMENT * cfg.BASE_REWARD_FACTOR / integer_squareroot T)
    (hR : ∀ v ∈ s.validators, v.effective_balance / cfg.EFFECTIVE_BALANCE_INCREMENT * brpi ≤ R) :
    ∀ (indices part : List Nat) (num : Nat), (∀ i ∈ indices, i < s.validators.length) → part.length = s.validators.length →
      (∀ e ∈ part, e < 256) → num + indices.length * (R * 54) < 2 ^ 64 →
      applyFlagsLoop cfg ctx m brpi indices part num = optRes (Block.attestation_apply_pure cfg s T flags indices part num) ∧
      ∀ r, Block.attestation_apply_pure cfg s T flags indices part num = some r → r.2 ≤ num + indices.length * (R * 54) := by
  intro indices
  induction indices with
  | nil =>
    intro part num _ _ _ _
    refine ⟨rfl, ?_⟩
    intro r hr
    unfold Block.attestation_apply_pure at hr
    cases hr
    simp
  | cons i rest ih =>
    intro part num hin hlen hbyte hsum
    have hi : i < s.validators.length := hin i (List.mem_cons_self)
    have hi2 : i < part.length := by omega
    have hrest : ∀ j ∈ rest, j < s.validators.length := fun j hj => hin j (List.mem_cons_of_mem _ hj)
    have hp : part[i]? = some part[i] := List.getElem?_eq_getElem hi2
    have hv : s.validators[i]? = some s.validators[i] := List.getElem?_eq_getElem hi
    have hebi : ctx.effectiveBalances[i]? = some s.validators[i].effective_balance := by
      rw [heb]; simp [hv]
    have he : part[i] < 256 := hbyte _ (List.getElem_mem hi2)
    have hbr := hR _ (List.getElem_mem hi)
    have hl : (i :: rest).length = rest.length + 1 := rfl
    have hl2 : (i :: rest).length * (R * 54) = rest.length * (R * 54) + R * 54 := by rw [hl, Nat.add_mul, Nat.one_mul]
    rw [hl2] at hsum
    rw [hl2]
    unfold applyFlagsLoop Block.attestation_apply_pure
    simp only [hp, hv, hebi, ← hbrpi]
    rw [flags_one_eq flags m part[i] _ num he hm hfl]
    generalize hbrv : s.validators[i].effective_balance / cfg.EFFECTIVE_BALANCE_INCREMENT * brpi = br at *
    by_cases hm0 : m = 0
    · subst hm0
      simp only [if_true, Nat.zero_div, Nat.zero_mod, Nat.zero_ne_one, false_and, if_false, Nat.add_zero, Nat.mul_zero, Nat.or_zero]
      rw [List.set_getElem_self]
      have := ih part num hrest hlen hbyte (by omega)
      refine ⟨this.1, fun r hr => ?_⟩
      have := this.2 r hr
      omega
    · simp only [hm0, if_false]
      have hw : w64 br = br := w64_id _ (by omega)
      simp only [hw, TIMELY_SOURCE_WEIGHT, TIMELY_TARGET_WEIGHT, TIMELY_HEAD_WEIGHT]
      have hch := num_chain (decide (m / 1 % 2 = 1) && decide (part[i] / 1 % 2 = 0)) (decide (m / 2 % 2 = 1) && decide (part[i] / 2 % 2 = 0))
        (decide (m / 4 % 2 = 1) && decide (part[i] / 4 % 2 = 0)) br num R hbr (by omega)
      simp only [Bool.and_eq_true, decide_eq_true_eq] at hch
      simp only [Bool.and_eq_true, decide_eq_true_eq]
      rw [hch]
      have hle : br * (((if m / 1 % 2 = 1 ∧ part[i] / 1 % 2 = 0 then 14 else 0) +
            if m / 2 % 2 = 1 ∧ part[i] / 2 % 2 = 0 then 26 else 0) +
          if m / 4 % 2 = 1 ∧ part[i] / 4 % 2 = 0 then 14 else 0) ≤ R * 54 := by
          have h54 : (((if m / 1 % 2 = 1 ∧ part[i] / 1 % 2 = 0 then 14 else 0) +
            if m / 2 % 2 = 1 ∧ part[i] / 2 % 2 = 0 then 26 else 0) +
            if m / 4 % 2 = 1 ∧ part[i] / 4 % 2 = 0 then 14 else 0) ≤ 54 := by
            split <;> split <;> split <;> omega
          exact Nat.mul_le_mul hbr h54
      generalize br * (((if m / 1 % 2 = 1 ∧ part[i] / 1 % 2 = 0 then 14 else 0) +
            if m / 2 % 2 = 1 ∧ part[i] / 2 % 2 = 0 then 26 else 0) +
          if m / 4 % 2 = 1 ∧ part[i] / 4 % 2 = 0 then 14 else 0) = w at hle ⊢
      have := ih (part.set i (part[i] ||| m)) (num + w) hrest (by rw [List.length_set]; exact hlen)
        (by
          intro x hx
          rcases List.mem_or_eq_of_mem_set hx with h | h
          · exact hbyte x h
          · rw [h]; exact or_lt_256 _ he _ hm)
        (by omega)
      refine ⟨this.1, fun r hr => ?_⟩
      have := this.2 r hr
      omega

theorem getBlockRootAtSlot_eq (cfg : Config) (s : State) (slot : Nat) (hslot : s.slot + cfg.SLOTS_PER_HISTORICAL_ROOT < 2 ^ 64) :
    getBlockRootAtSlot cfg s slot = optRes (Block.block_root_at_slot_pure cfg s slot) := by
  unfold getBlockRootAtSlot Block.block_root_at_slot_pure
  simp only [guard_bind]
  by_cases h1 : slot < s.slot
  · have hw : w64 (slot + cfg.SLOTS_PER_HISTORICAL_ROOT) = slot + cfg.SLOTS_PER_HISTORICAL_ROOT := w64_id _ (by omega)
    rw [hw]
    by_cases h2 : s.slot ≤ slot + cfg.SLOTS_PER_HISTORICAL_ROOT
    · have h0 : cfg.SLOTS_PER_HISTORICAL_ROOT ≠ 0 := by omega
      simp only [h1, h2, decide_true, Bool.and_self, if_true, h0, if_false, and_self, not_true_eq_false, rget]
      cases s.block_roots[slot % cfg.SLOTS_PER_HISTORICAL_ROOT]? <;> rfl
    · simp [h1, h2, optRes]
  · simp [h1, optRes]

theorem mask_flags (c0 c1 c2 : Bool) :
    (if c0 then 1 else 0) + (if c1 then 2 else 0) + (if c2 then 4 else 0) < 8 ∧
    ∀ i, i < 3 → ((if c0 then [TIMELY_SOURCE_FLAG_INDEX] else []) ++ (if c1 then [TIMELY_TARGET_FLAG_INDEX] else []) ++
        (if c2 then [TIMELY_HEAD_FLAG_INDEX] else [])).contains i =
      bitOf ((if c0 then 1 else 0) + (if c1 then 2 else 0) + (if c2 then 4 else 0)) i := by
  cases c0 <;> cases c1 <;> cases c2 <;> decide

theorem applicableFlags_eq (cfg : Config) (s : State) (data : AttestationData) (delay : Nat)
    (hslot : s.slot + cfg.SLOTS_PER_HISTORICAL_ROOT < 2 ^ 64)
    (hte : data.target.epoch * cfg.SLOTS_PER_EPOCH < 2 ^ 64)
    (hhead : ∃ r, Block.block_root_at_slot_pure cfg s data.slot = some r) :
    (Block.participation_flag_indices_pure cfg s data delay = none ∧ applicableFlags cfg s data delay = Res.err) ∨
    ∃ flags m, Block.participation_flag_indices_pure cfg s data delay = some flags ∧
      applicableFlags cfg s data delay = Res.ok m ∧ m < 8 ∧ ∀ i, i < 3 → flags.contains i = bitOf m i := by
  obtain ⟨hr, hhr⟩ := hhead
  unfold applicableFlags Block.participation_flag_indices_pure
  simp only [getBlockRootAtSlot_eq cfg s _ hslot, w64_id _ hte, hhr, optRes, res_bind_ok, guard_bind]
  generalize hj : (if data.target.epoch = s.slot / cfg.SLOTS_PER_EPOCH then s.current_justified_checkpoint else s.previous_justified_checkpoint) = j
  cases htr : Block.block_root_at_slot_pure cfg s (data.target.epoch * cfg.SLOTS_PER_EPOCH) with
  | none =>
    left
    simp only [optRes, res_bind_err]
    refine ⟨?_, ?_⟩ <;> first | rfl | trivial | (split <;> rfl)
  | some tr =>
    simp only [optRes, res_bind_ok]
    have hsq : integer_squareroot cfg.SLOTS_PER_EPOCH = Nat.sqrt cfg.SLOTS_PER_EPOCH := rfl
    rw [hsq]
    by_cases hsrc : data.source = j
    · right
      simp only [hsrc, decide_true, Bool.true_and, if_true, ne_eq, not_true_eq_false, if_false, Option.map_some]
      by_cases hmt : tr = data.target.root
      · subst hmt
        simp only [decide_true, Bool.true_and, if_true]
        have hsw : decide (hr = data.beacon_block_root) = decide (data.beacon_block_root = hr) :=
          decide_eq_decide.mpr ⟨Eq.symm, Eq.symm⟩
        rw [hsw]
        by_cases h0 : delay ≤ Nat.sqrt cfg.SLOTS_PER_EPOCH <;>
          by_cases h1 : (decide (s.fork ≥ Fork.deneb) || decide (delay ≤ cfg.SLOTS_PER_EPOCH)) = true <;>
          by_cases h2 : (decide (data.beacon_block_root = hr) && decide (delay = cfg.MIN_ATTESTATION_INCLUSION_DELAY)) = true <;>
          simp only [h0, h1, h2, decide_true, decide_false, if_true, if_false, Bool.false_eq_true] <;>
          exact ⟨_, _, rfl, rfl, by decide⟩
      · have hmt' : ¬ data.target.root = tr := fun e => hmt e.symm
        simp only [hmt, hmt', decide_false, Bool.false_and, Bool.false_eq_true, if_false]
        by_cases h0 : delay ≤ Nat.sqrt cfg.SLOTS_PER_EPOCH <;>
          simp only [h0, decide_true, decide_false, if_true, if_false, Bool.false_eq_true] <;>
          exact ⟨_, _, rfl, rfl, by decide⟩
    · left
      simp [hsrc]

/-- an attestation inside the inclusion window has a head block root in the state's history -/
theorem head_root_available (cfg : Config) (s : State) (data : AttestationData)
    (ht : Block.attestation_timing_pure cfg s data = true)
    (hspe : 0 < cfg.SLOTS_PER_EPOCH) (hmin1 : 1 ≤ cfg.MIN_ATTESTATION_INCLUSION_DELAY)
    (hsphr : 2 * cfg.SLOTS_PER_EPOCH ≤ cfg.SLOTS_PER_HISTORICAL_ROOT)
    (hroots : s.block_roots.length = cfg.SLOTS_PER_HISTORICAL_ROOT) :
    (∃ r, Block.block_root_at_slot_pure cfg s data.slot = some r) ∧ data.target.epoch * cfg.SLOTS_PER_EPOCH ≤ s.slot := by
  unfold Block.attestation_timing_pure at ht
  simp only [Bool.and_eq_true, Bool.or_eq_true, decide_eq_true_eq] at ht
  obtain ⟨⟨⟨h1, h2⟩, h3⟩, _⟩ := ht
  have hA := Nat.div_add_mod s.slot cfg.SLOTS_PER_EPOCH
  have hB := Nat.div_add_mod data.slot cfg.SLOTS_PER_EPOCH
  have hA2 := Nat.mod_lt s.slot hspe
  have hB2 := Nat.mod_lt data.slot hspe
  generalize hAe : s.slot / cfg.SLOTS_PER_EPOCH = A at *
  generalize hBe : data.slot / cfg.SLOTS_PER_EPOCH = B at *
  have hAB : A ≤ B + 1 := by omega
  have hmul : cfg.SLOTS_PER_EPOCH * A ≤ cfg.SLOTS_PER_EPOCH * B + cfg.SLOTS_PER_EPOCH := by
    have := Nat.mul_le_mul_left cfg.SLOTS_PER_EPOCH hAB
    rw [Nat.mul_add, Nat.mul_one] at this
    exact this
  have hBA : B ≤ A := by
    rcases h1 with h | h <;> omega
  have hmul2 : cfg.SLOTS_PER_EPOCH * B ≤ cfg.SLOTS_PER_EPOCH * A := Nat.mul_le_mul_left _ hBA
  constructor
  · unfold Block.block_root_at_slot_pure
    have hr1 : data.slot < s.slot ∧ s.slot ≤ data.slot + cfg.SLOTS_PER_HISTORICAL_ROOT := by omega
    have h0 : cfg.SLOTS_PER_HISTORICAL_ROOT ≠ 0 := by omega
    simp only [hr1, and_self, not_true_eq_false, if_false, h0]
    have hlt : data.slot % cfg.SLOTS_PER_HISTORICAL_ROOT < s.block_roots.length := by
      rw [hroots]; exact Nat.mod_lt _ (by omega)
    exact ⟨_, List.getElem?_eq_getElem hlt⟩
  · rw [h2, Nat.mul_comm]; omega

/-- (a) `altair.ProcessAttestation` / `deneb.ProcessAttestation` = altair … deneb `process_attestation` (pure core, compared
with the monadic `S` on every evaluation): window checks (deneb: no upper bound), committee from the context, flag
indices (source/target/head matching with the short-circuit block-root look-ups, `integer_squareroot(SLOTS_PER_EPOCH)`
bound of the timely-source flag, deneb target flag without delay bound, head flag at the minimal delay), conversion
to the indexed form and its check, the participation update (a flag byte only gains the newly set flags, the
numerator only counts those), and the proposer reward `numerator // denominator`. -/
theorem attestation_altair_eq (cfg : Config) (ctx : Ctx) (s : State) (att : Attestation)
    (count : Option Nat) (committee : Option (List Nat)) (proposer : Option Nat) (T R : Nat)
    (hcc : ctx.committeeCount att.data.target.epoch = count)
    (hcom : ctx.committee att.data.slot att.data.index = committee)
    (hprop : ctx.proposer = proposer)
    (hsq : ctx.totalActiveStakeSqRoot = integer_squareroot T)
    (heb : ctx.effectiveBalances = s.validators.map (·.effective_balance))
    (hnd : ∀ c, committee = some c → c.Nodup)
    (hwf : att.bits_wellformed = true) (hmaxbits : att.aggregation_bits.length ≤ cfg.MAX_VALIDATORS_PER_COMMITTEE)
    (hspe : 0 < cfg.SLOTS_PER_EPOCH) (hmin : cfg.MIN_ATTESTATION_INCLUSION_DELAY ≤ cfg.SLOTS_PER_EPOCH)
    (hmin1 : 1 ≤ cfg.MIN_ATTESTATION_INCLUSION_DELAY)
    (hcur : s.slot + 2 * cfg.SLOTS_PER_EPOCH < 2 ^ 64)
    (hsphr : 2 * cfg.SLOTS_PER_EPOCH ≤ cfg.SLOTS_PER_HISTORICAL_ROOT)
    (hroots : s.block_roots.length = cfg.SLOTS_PER_HISTORICAL_ROOT)
    (hslot : s.slot + cfg.SLOTS_PER_HISTORICAL_ROOT < 2 ^ 64)
    (hnz : cfg.EFFECTIVE_BALANCE_INCREMENT ≠ 0 ∧ integer_squareroot T ≠ 0)
    (hbrf : cfg.EFFECTIVE_BALANCE_INCREMENT * cfg.BASE_REWARD_FACTOR < 2 ^ 64)
    (hR : ∀ v ∈ s.validators, v.effective_balance / cfg.EFFECTIVE_BALANCE_INCREMENT *
      (cfg.EFFECTIVE_BALANCE_INCREMENT * cfg.BASE_REWARD_FACTOR / integer_squareroot T) ≤ R)
    (hsum : cfg.MAX_VALIDATORS_PER_COMMITTEE * (R * 54) < 2 ^ 64)
    (hbal : ∀ b ∈ s.balances, b + cfg.MAX_VALIDATORS_PER_COMMITTEE * (R * 54) < 2 ^ 64)
    (hpc : s.current_epoch_participation.length = s.validators.length ∧ ∀ e ∈ s.current_epoch_participation, e < 256)
    (hpp : s.previous_epoch_participation.length = s.validators.length ∧ ∀ e ∈ s.previous_epoch_participation, e < 256) :
    processAttestationAltair cfg ctx s att =
      optRes (Block.process_attestation_altair_pure cfg s att count committee proposer T) := by
  unfold processAttestationAltair attestationHead Block.process_attestation_altair_pure
  simp only []
  rw [timing_pure_eq cfg s att.data hspe hmin hcur]
  simp only [hcc, hcom, hprop, hsq, guard_bind, ofOpt_bind, res_bind_ok]
  cases ht : Block.attestation_timing_pure cfg s att.data with
  | false => simp [optRes]
  | true =>
    simp only [if_true, Bool.not_true, Bool.false_eq_true, if_false]
    cases count with
    | none => simp [optRes]
    | some n =>
      simp only []
      by_cases hin : att.data.index < n
      · have hge : ¬ att.data.index ≥ n := by omega
        simp only [hge, decide_false, Bool.not_false, if_true, hin, not_true_eq_false, if_false]
        obtain ⟨hhead, hte⟩ := head_root_available cfg s att.data ht hspe hmin1 hsphr hroots
        have hfl := applicableFlags_eq cfg s att.data (s.slot - att.data.slot) hslot (by omega) hhead
        rcases hfl with ⟨hpn, hmn⟩ | ⟨flags, m, hpf, hmf, hm8, hflc⟩
        · simp only [hpn, hmn, guard_true, res_bind_ok, res_bind_err]
          cases committee with
          | none => rfl
          | some c => simp only []; split <;> rfl
        · simp only [hpf, hmf, guard_true, res_bind_ok]
          cases committee with
          | none => rfl
          | some c =>
            have hcn := hnd c rfl
            simp only []
            unfold convertToIndexed
            simp only [hwf, hmaxbits, decide_true, Bool.and_self, guard_bind, if_true, res_bind_ok]
            by_cases hlen : c.length = att.aggregation_bits.length
            · have hlen' : ¬ att.aggregation_bits.length ≠ c.length := by omega
              simp only [hlen, decide_true, if_true, hlen', if_false, res_bind_ok, pure]
              have hidx : sortNat ((c.zip att.aggregation_bits).filterMap fun (i, b) => if b then some i else none) =
                  Block.attesting_indices_pure c att.aggregation_bits := by
                unfold sortNat Block.attesting_indices_pure
                have := eraseDups_of_nodup _ (participants_nodup c att.aggregation_bits hcn)
                unfold participants at this
                rw [this]
              rw [hidx]
              have hil : (Block.attesting_indices_pure c att.aggregation_bits).length ≤ cfg.MAX_VALIDATORS_PER_COMMITTEE := by
                unfold Block.attesting_indices_pure
                have h1 := eraseDups_of_nodup _ (participants_nodup c att.aggregation_bits hcn)
                have h2 := participants_length_le c att.aggregation_bits
                unfold participants at h1 h2
                rw [insertionSort_length, h1]
                omega
              rw [validateIndexed_eq cfg s _ _ hil]
              generalize hidxs : Block.attesting_indices_pure c att.aggregation_bits = indices at *
              simp only [guard_bind]
              cases hvalid : Block.valid_indexed_pure s indices att.sig_ok with
              | false => simp [optRes]
              | true =>
                have hrange : ∀ i ∈ indices, i < s.validators.length := by
                  unfold Block.valid_indexed_pure at hvalid
                  simp only [Bool.and_eq_true, List.all_eq_true, decide_eq_true_eq] at hvalid
                  exact hvalid.1.2
                have hnzb : (decide (cfg.EFFECTIVE_BALANCE_INCREMENT = 0) || decide (integer_squareroot T = 0)) = false := by
                  simp [hnz.1, hnz.2]
                have hnzp : ¬ (cfg.EFFECTIVE_BALANCE_INCREMENT = 0 ∨ integer_squareroot T = 0) := by
                  simp [hnz.1, hnz.2]
                simp only [if_true, Bool.not_true, Bool.false_eq_true, if_false, hnzb, hnzp, w64_id _ hbrf, ne_eq, not_true_eq_false]
                have hbound : indices.length * (R * 54) ≤ cfg.MAX_VALIDATORS_PER_COMMITTEE * (R * 54) :=
                  Nat.mul_le_mul_right _ hil
                generalize ((WEIGHT_DENOMINATOR - PROPOSER_WEIGHT) * WEIGHT_DENOMINATOR / PROPOSER_WEIGHT) = D
                have hfinish : ∀ (part : List Nat) (mk : List Nat → State),
                    (∀ q, (mk q).balances = s.balances) →
                    part.length = s.validators.length → (∀ e ∈ part, e < 256) →
                    (do
                      let __x ← applyFlagsLoop cfg ctx m (cfg.EFFECTIVE_BALANCE_INCREMENT * cfg.BASE_REWARD_FACTOR / integer_squareroot T) indices part 0
                      let proposerIndex ← ofOpt proposer
                      increaseBalance (mk __x.1) proposerIndex (__x.2 / D)) =
                    optRes ((Block.attestation_apply_pure cfg s T flags indices part 0).bind fun r =>
                      proposer.bind fun p => Block.increase_balance_pure (mk r.1) p (r.2 / D)) := by
                  intro part mk hmk hpl hpb
                  have hloop := applyFlagsLoop_eq cfg ctx s T m R _ flags hm8 hflc heb rfl hR indices part 0 hrange hpl hpb (by omega)
                  rw [hloop.1]
                  cases hap : Block.attestation_apply_pure cfg s T flags indices part 0 with
                  | none => rfl
                  | some r =>
                    have hnum := hloop.2 r hap
                    simp only [optRes, res_bind_ok, Option.bind_some]
                    cases proposer with
                    | none => rfl
                    | some pidx =>
                      simp only [Option.bind_some, ofOpt, res_bind_ok]
                      unfold increaseBalance Block.increase_balance_pure
                      simp only [hmk, rget]
                      cases hb : s.balances[pidx]? with
                      | none => rfl
                      | some b =>
                        have hbm := hbal b (List.mem_of_getElem? hb)
                        have hdiv : r.2 / D ≤ r.2 := Nat.div_le_self _ _
                        have hw : w64 (b + r.2 / D) = b + r.2 / D := w64_id _ (by omega)
                        simp only [res_bind_ok, hw, Res.pure_eq]
                by_cases hcurr : att.data.target.epoch = s.slot / cfg.SLOTS_PER_EPOCH
                · simp only [hcurr, decide_true, if_true]
                  have h := hfinish s.current_epoch_participation (fun q => { s with current_epoch_participation := q }) (fun _ => rfl) hpc.1 hpc.2
                  simp only [ofOpt_bind] at h
                  exact h
                · simp only [hcurr, decide_false, Bool.false_eq_true, if_false]
                  have h := hfinish s.previous_epoch_participation (fun q => { s with previous_epoch_participation := q }) (fun _ => rfl) hpp.1 hpp.2
                  simp only [ofOpt_bind] at h
                  exact h
            · have hlen' : att.aggregation_bits.length ≠ c.length := fun h => hlen h.symm
              simp [hlen, hlen', optRes]
      · have hge : att.data.index ≥ n := by omega
        simp [hge, hin, optRes, BlockM.guard, bind, Res.bind]

/-! ### slashings -/

/-- magnitude hypotheses of `slash_validator`: sums the Go code lets wrap stay inside `uint64` -/
structure SlashSmall (cfg : Config) (s : State) : Prop where
  epoch : s.slot / cfg.SLOTS_PER_EPOCH + cfg.EPOCHS_PER_SLASHINGS_VECTOR < 2 ^ 64
  slashings : ∀ x ∈ s.slashings, ∀ v ∈ s.validators, x + v.effective_balance < 2 ^ 64
  balances : ∀ b ∈ s.balances, ∀ v ∈ s.validators, b + 2 * v.effective_balance < 2 ^ 64
  eff : ∀ v ∈ s.validators, v.effective_balance * PROPOSER_WEIGHT < 2 ^ 64
  slen : s.slashings.length = cfg.EPOCHS_PER_SLASHINGS_VECTOR

theorem initiate_pure_length (cfg : Config) (cur : Nat) (vals : List Validator) (i : Nat) :
    (initiate_validator_exit_pure cfg cur vals i).length = vals.length := by
  unfold initiate_validator_exit_pure
  cases vals[i]? with
  | none => rfl
  | some v => simp only; split <;> simp

theorem initiate_pure_eff (cfg : Config) (cur : Nat) (vals : List Validator) (i j : Nat) (v w : Validator)
    (h1 : vals[j]? = some v) (h2 : (initiate_validator_exit_pure cfg cur vals i)[j]? = some w) :
    w.effective_balance = v.effective_balance := by
  unfold initiate_validator_exit_pure at h2
  cases hi : vals[i]? with
  | none => rw [hi] at h2; simp only at h2; rw [h1] at h2; cases h2; rfl
  | some u =>
    rw [hi] at h2
    simp only at h2
    split at h2
    · rw [h1] at h2; cases h2; rfl
    · by_cases hij : i = j
      · subst hij
        rw [h1] at hi; cases hi
        have hlt : i < vals.length := (List.getElem?_eq_some_iff.mp h1).1
        simp [List.getElem?_set, hlt] at h2
        rw [← h2]
      · rw [List.getElem?_set_ne hij] at h2
        rw [h1] at h2; cases h2; rfl

set_option maxHeartbeats 1000000 in
/-- (d) `phase0.SlashValidator(…, nil)` = the specification's `slash_validator` (pure core), accept/reject and post-state:
exit initiation, slashed flag, withdrawable epoch, slashings vector, penalty with the fork's quotient, proposer and
whistleblower rewards (phase0 quotient / altair weights), all wrapping sums exact under `SlashSmall`. -/
theorem slash_eq (cfg : Config) (ctx : Ctx) (s : State) (idx p : Nat)
    (hp : ctx.proposer = some p)
    (hact : ctx.activeCount = (s.validators.filter (is_active_validator · (s.slot / cfg.SLOTS_PER_EPOCH))).length)
    (hq : cfg.CHURN_LIMIT_QUOTIENT ≠ 0) (hreg : RegU64 s.validators) (hsmall : ExitSmall cfg s) (hs : SlashSmall cfg s)
    (hz : cfg.EPOCHS_PER_SLASHINGS_VECTOR ≠ 0 ∧ min_slashing_penalty_quotient cfg s.fork ≠ 0 ∧
          cfg.WHISTLEBLOWER_REWARD_QUOTIENT ≠ 0 ∧ cfg.PROPOSER_REWARD_QUOTIENT ≠ 0) :
    slashValidator cfg ctx s idx = optRes (Block.slash_validator_pure cfg s idx p) := by
  obtain ⟨hz1, hz2, hz3, hz4⟩ := hz
  unfold slashValidator initiateExit Block.slash_validator_pure
  simp only [hq, if_false]
  by_cases hidx : idx < s.validators.length
  · have hex : ∀ v ∈ s.validators, v.exit_epoch ≤ FAR_FUTURE_EPOCH := by
      intro v hv; have := (hreg v hv).1; unfold FAR_FUTURE_EPOCH; omega
    rw [BeaconBlock.initiateExit_eq cfg _ ctx.activeCount s.validators idx hidx hact hq hex hsmall]
    simp only [res_bind_ok, hidx, not_true_eq_false, if_false]
    generalize hvals : initiate_validator_exit_pure cfg (s.slot / cfg.SLOTS_PER_EPOCH) s.validators idx = vals
    have hvl : vals.length = s.validators.length := by rw [← hvals]; exact initiate_pure_length _ _ _ _
    have hidx' : idx < vals.length := by omega
    have hv : vals[idx]? = some vals[idx] := List.getElem?_eq_getElem hidx'
    have heff : vals[idx].effective_balance = s.validators[idx].effective_balance := by
      apply initiate_pure_eff cfg (s.slot / cfg.SLOTS_PER_EPOCH) s.validators idx idx
      · exact List.getElem?_eq_getElem hidx
      · rw [hvals]; exact hv
    have hmem : s.validators[idx] ∈ s.validators := List.getElem_mem hidx
    have hsl0 : ¬ s.slashings.length = 0 := by rw [hs.slen]; exact hz1
    have hq2 : minSlashingPenaltyQuotient cfg s.fork = min_slashing_penalty_quotient cfg s.fork := by
      cases s.fork <;> rfl
    have hor : ¬ (min_slashing_penalty_quotient cfg s.fork = 0 ∨ cfg.WHISTLEBLOWER_REWARD_QUOTIENT = 0 ∨
        (s.fork = .phase0 ∧ cfg.PROPOSER_REWARD_QUOTIENT = 0)) := by
      simp [hz2, hz3, hz4]
    have hwe : w64 (s.slot / cfg.SLOTS_PER_EPOCH + cfg.EPOCHS_PER_SLASHINGS_VECTOR) = s.slot / cfg.SLOTS_PER_EPOCH + cfg.EPOCHS_PER_SLASHINGS_VECTOR :=
      w64_id _ hs.epoch
    have hmax : ∀ w : Nat, (if s.slot / cfg.SLOTS_PER_EPOCH + cfg.EPOCHS_PER_SLASHINGS_VECTOR > w then
          s.slot / cfg.SLOTS_PER_EPOCH + cfg.EPOCHS_PER_SLASHINGS_VECTOR else w) =
        max w (s.slot / cfg.SLOTS_PER_EPOCH + cfg.EPOCHS_PER_SLASHINGS_VECTOR) := by
      intro w; split <;> omega
    simp only [Res.pure_eq, res_bind_ok, rget, hv, hsl0, if_false, hs.slen, hq2, hz2, hz3, hz1, hor, hp, ofOpt, hwe, hmax,
      decreaseBalance, increaseBalance]
    cases hslv : s.slashings[s.slot / cfg.SLOTS_PER_EPOCH % cfg.EPOCHS_PER_SLASHINGS_VECTOR]? with
    | none => simp [optRes, bind, Res.bind]
    | some sl =>
      have hslmem : sl ∈ s.slashings := List.mem_of_getElem? hslv
      have hw1 : w64 (sl + vals[idx].effective_balance) = sl + vals[idx].effective_balance :=
        w64_id _ (by rw [heff]; exact hs.slashings sl hslmem _ hmem)
      simp only [res_bind_ok, hw1]
      cases hb : s.balances[idx]? with
      | none => simp [optRes, bind, Res.bind]
      | some b =>
        simp only [res_bind_ok]
        generalize hE : vals[idx].effective_balance = E at *
        have hEb : ∀ x ∈ s.balances, x + 2 * E < 2 ^ 64 := fun x hx => by rw [heff]; exact hs.balances x hx _ hmem
        have hEw : E * PROPOSER_WEIGHT < 2 ^ 64 := by rw [heff]; exact hs.eff _ hmem
        generalize hQ : min_slashing_penalty_quotient cfg s.fork = Q at *
        generalize hpen : E / Q = pen
        have hdec : (if b ≥ pen then b - pen else 0) = (if pen > b then 0 else b - pen) := by
          split <;> split <;> omega
        rw [hdec]
        generalize hnb : (if pen > b then 0 else b - pen) = nb
        have hnb' : nb ≤ b := by rw [← hnb]; split <;> omega
        have hbmem : b ∈ s.balances := List.mem_of_getElem? hb
        have hb1 : ∀ x ∈ s.balances.set idx nb, x + 2 * E < 2 ^ 64 := by
          intro x hx
          rcases List.mem_or_eq_of_mem_set hx with h | h
          · exact hEb x h
          · rw [h]; have := hEb b hbmem; omega
        generalize s.balances.set idx nb = bal1 at *
        generalize hW : E / cfg.WHISTLEBLOWER_REWARD_QUOTIENT = W
        have hWE : W ≤ E := by rw [← hW]; exact Nat.div_le_self _ _
        obtain ⟨pr, hprW, hprM, hprP⟩ : ∃ pr, pr ≤ W ∧
            ((if s.fork = Fork.phase0 then if cfg.PROPOSER_REWARD_QUOTIENT = 0 then Res.panic
                else Res.ok (W / cfg.PROPOSER_REWARD_QUOTIENT)
              else Res.ok (w64 (W * PROPOSER_WEIGHT) / WEIGHT_DENOMINATOR) : Res Nat) = Res.ok pr) ∧
            (if s.fork = .phase0 then W / cfg.PROPOSER_REWARD_QUOTIENT else W * PROPOSER_WEIGHT / WEIGHT_DENOMINATOR) = pr := by
          by_cases hf : s.fork = .phase0
          · exact ⟨W / cfg.PROPOSER_REWARD_QUOTIENT, Nat.div_le_self _ _, by simp only [hf, if_true, hz4, if_false], by simp only [hf, if_true]⟩
          · have hwpw : w64 (W * PROPOSER_WEIGHT) = W * PROPOSER_WEIGHT :=
              w64_id _ (Nat.lt_of_le_of_lt (Nat.mul_le_mul_right _ hWE) hEw)
            exact ⟨W * PROPOSER_WEIGHT / WEIGHT_DENOMINATOR, by unfold PROPOSER_WEIGHT WEIGHT_DENOMINATOR; omega,
              by simp only [hf, if_false, hwpw], by simp only [hf, if_false]⟩
        rw [hprM, hprP]
        have hor' : ¬ (False ∨ False ∨ s.fork = Fork.phase0 ∧ cfg.PROPOSER_REWARD_QUOTIENT = 0) := by simp [hz4]
        simp only [res_bind_ok, hor', if_false]
        cases hpb : bal1[p]? with
        | none => rfl
        | some pb =>
          have hpl : p < bal1.length := (List.getElem?_eq_some_iff.mp hpb).1
          have hpbm : pb ∈ bal1 := List.mem_of_getElem? hpb
          have := hb1 pb hpbm
          have h1 : w64 (pb + pr) = pb + pr := w64_id _ (by omega)
          have h2 : w64 (W + 2 ^ 64 - pr) = W - pr := by
            unfold w64
            have : W + 2 ^ 64 - pr = (W - pr) + 2 ^ 64 := by omega
            rw [this, Nat.add_mod_right]; exact Nat.mod_eq_of_lt (by omega)
          have h3 : (bal1.set p (pb + pr))[p]? = some (pb + pr) := by
            rw [List.getElem?_set_self hpl]
          have h4 : w64 (pb + pr + (W - pr)) = pb + pr + (W - pr) := w64_id _ (by omega)
          simp only [res_bind_ok, h1, h2, h3, h4]
          rfl
  · have hnone : s.validators[idx]? = none := by simp; omega
    simp [initiateValidatorExit, hnone, hidx, optRes, bind, Res.bind]

/-! ### `slash_validator` of `S`: monadic version = pure core; proposer slashing -/

/-- what `initiate_validator_exit` does to entry `j` of the registry: nothing, or (entry `i`, not yet exiting) a new
exit epoch at or after the activation-exit epoch and the matching withdrawable epoch -/
theorem initiate_pure_get (cfg : Config) (cur : Nat) (vals : List Validator) (i j : Nat) (v w : Validator)
    (h1 : vals[j]? = some v) (h2 : (initiate_validator_exit_pure cfg cur vals i)[j]? = some w) :
    w = v ∨ (j = i ∧ v.exit_epoch = FAR_FUTURE_EPOCH ∧ ∃ e, compute_activation_exit_epoch cfg cur ≤ e ∧
      w = { v with exit_epoch := e, withdrawable_epoch := e + cfg.MIN_VALIDATOR_WITHDRAWABILITY_DELAY }) := by
  unfold initiate_validator_exit_pure at h2
  cases hi : vals[i]? with
  | none => rw [hi] at h2; simp only at h2; rw [h1] at h2; cases h2; exact Or.inl rfl
  | some u =>
    rw [hi] at h2
    simp only at h2
    split at h2
    · rw [h1] at h2; cases h2; exact Or.inl rfl
    · rename_i hfar
      by_cases hij : i = j
      · subst hij
        rw [h1] at hi; cases hi
        have hlt : i < vals.length := (List.getElem?_eq_some_iff.mp h1).1
        simp only [List.getElem?_set_self hlt, Option.some.injEq] at h2
        right
        refine ⟨rfl, by simpa using hfar, _, ?_, h2.symm⟩
        rw [spec_max_eq]
        have := maxOf_ge (vals.map (·.exit_epoch)) (compute_activation_exit_epoch cfg cur)
        split <;> omega
      · rw [List.getElem?_set_ne hij] at h2
        rw [h1] at h2; cases h2; exact Or.inl rfl


theorem duties_initiate (cfg : Config) (cur : Nat) (vals : List Validator) (i : Nat) (hcur : cur < FAR_FUTURE_EPOCH) :
    ∀ (j : Nat) (v v' : Validator), vals[j]? = some v → (initiate_validator_exit_pure cfg cur vals i)[j]? = some v' →
      v'.effective_balance = v.effective_balance ∧ is_active_validator v' cur = is_active_validator v cur := by
  intro j v v' h1 h2
  rcases initiate_pure_get cfg cur vals i j v v' h1 h2 with h | ⟨_, hfar, e, he, hw⟩
  · subst h; exact ⟨rfl, rfl⟩
  · subst hw
    refine ⟨rfl, ?_⟩
    unfold is_active_validator
    simp only
    unfold compute_activation_exit_epoch at he
    have h1 : cur < e := by omega
    have h2 : cur < v.exit_epoch := by rw [hfar]; exact hcur
    simp [h1, h2]

/-- `initiate_validator_exit` succeeds with the pure registry update (index in range, epochs inside `uint64`) -/
theorem initiate_exit_ok (cfg : Config) (s : State) (index : Nat) (hidx : index < s.validators.length)
    (hq : cfg.CHURN_LIMIT_QUOTIENT ≠ 0) (hreg : RegU64 s.validators) (hsmall : ExitSmall cfg s) :
    initiate_validator_exit cfg s index =
      .ok { s with validators := initiate_validator_exit_pure cfg (s.slot / cfg.SLOTS_PER_EPOCH) s.validators index } := by
  unfold initiate_validator_exit get_current_epoch compute_epoch_at_slot
  have h1 : idx s.validators index "validators" = Except.ok s.validators[index] := idx_ok _ _ _ hidx
  generalize hvals : initiate_validator_exit_pure cfg (s.slot / cfg.SLOTS_PER_EPOCH) s.validators index = vals
  have hlen : vals.length = s.validators.length := by rw [← hvals]; exact initiate_pure_length _ _ _ _
  have hidx' : index < vals.length := by omega
  have h2 : idx vals index "validators" = Except.ok vals[index] := idx_ok _ _ _ hidx'
  have hb : vals[index].exit_epoch < 2 ^ 64 ∧ vals[index].withdrawable_epoch < 2 ^ 64 := by
    subst hvals
    unfold initiate_validator_exit_pure
    simp only [List.getElem?_eq_getElem hidx]
    by_cases hfar : s.validators[index].exit_epoch ≠ FAR_FUTURE_EPOCH
    · simp only [hfar, ne_eq, not_false_eq_true, if_true]
      exact hreg _ (List.getElem_mem hidx)
    · simp only [hfar, if_false, List.getElem_set_self]
      rw [spec_max_eq]
      unfold ExitSmall at hsmall
      unfold compute_activation_exit_epoch
      constructor <;> (split <;> omega)
  simp only [h1, hq, if_false, hvals, h2, u64_ok _ _ hb.1, u64_ok _ _ hb.2, bind, Except.bind, pure, Except.pure]


theorem toRes_eq_ok {α} (x : SM α) (a : α) (h : x = .ok a) : toRes x = Res.ok a := by rw [h]; rfl

/-- the registry after `slash_validator`'s first half keeps slot duties: same effective balances and current-epoch activity -/
theorem sameDuties_slashed (cfg : Config) (s s' : State) (i : Nat) (nv : Validator)
    (hcur : s.slot / cfg.SLOTS_PER_EPOCH < FAR_FUTURE_EPOCH)
    (hslot : s'.slot = s.slot) (hmix : s'.randao_mixes = s.randao_mixes)
    (hvals : s'.validators = (initiate_validator_exit_pure cfg (s.slot / cfg.SLOTS_PER_EPOCH) s.validators i).set i nv)
    (hnv : ∀ w, (initiate_validator_exit_pure cfg (s.slot / cfg.SLOTS_PER_EPOCH) s.validators i)[i]? = some w →
      nv.effective_balance = w.effective_balance ∧ nv.activation_epoch = w.activation_epoch ∧ nv.exit_epoch = w.exit_epoch) :
    SameDuties cfg s s' := by
  refine ⟨hslot, seed_of_mixes cfg s s' _ _ hmix, ?_, ?_⟩
  · rw [hvals, List.length_set, initiate_pure_length]
  · intro j v v' h1 h2
    unfold get_current_epoch compute_epoch_at_slot
    rw [hvals] at h2
    by_cases hij : i = j
    · subst hij
      have hlt : i < s.validators.length := (List.getElem?_eq_some_iff.mp h1).1
      have hlt' : i < (initiate_validator_exit_pure cfg (s.slot / cfg.SLOTS_PER_EPOCH) s.validators i).length := by
        rw [initiate_pure_length]; exact hlt
      rw [List.getElem?_set_self hlt'] at h2
      cases h2
      have hw := List.getElem?_eq_getElem hlt'
      obtain ⟨e1, e2, e3⟩ := hnv _ hw
      have hd := duties_initiate cfg _ s.validators i hcur i v _ h1 hw
      refine ⟨by rw [e1]; exact hd.1, ?_⟩
      rw [← hd.2]
      unfold is_active_validator
      rw [e2, e3]
    · rw [List.getElem?_set_ne hij] at h2
      exact duties_initiate cfg _ s.validators i hcur j v v' h1 h2


set_option maxHeartbeats 1000000 in
/-- the monadic `slash_validator` of `S` = its pure core (the run-time cross-check, proved) -/
theorem slash_m_link (cfg : Config) (s : State) (i p : Nat)
    (hp : Block.get_beacon_proposer_index cfg s = .ok p)
    (hq : cfg.CHURN_LIMIT_QUOTIENT ≠ 0) (hreg : RegU64 s.validators) (hsmall : ExitSmall cfg s) (hs : SlashSmall cfg s)
    (hz : cfg.EPOCHS_PER_SLASHINGS_VECTOR ≠ 0 ∧ min_slashing_penalty_quotient cfg s.fork ≠ 0 ∧
          cfg.WHISTLEBLOWER_REWARD_QUOTIENT ≠ 0 ∧ cfg.PROPOSER_REWARD_QUOTIENT ≠ 0) :
    toRes (Block.slash_validator_m cfg s i) = optRes (Block.slash_validator_pure cfg s i p) := by
  obtain ⟨hz1, hz2, hz3, hz4⟩ := hz
  unfold Block.slash_validator_m Block.slash_validator_pure get_current_epoch compute_epoch_at_slot
  simp only [hq, if_false]
  by_cases hidx : i < s.validators.length
  · rw [toRes_bind, toRes_eq_ok _ _ (initiate_exit_ok cfg s i hidx hq hreg hsmall)]
    simp only [res_bind_ok, hidx, not_true_eq_false, if_false]
    have hcurfar : s.slot / cfg.SLOTS_PER_EPOCH < FAR_FUTURE_EPOCH := by
      have := hs.epoch; unfold FAR_FUTURE_EPOCH; omega
    have hframe : ∀ (s3 : State) (nv : Validator), s3.slot = s.slot → s3.randao_mixes = s.randao_mixes →
        s3.validators = (initiate_validator_exit_pure cfg (s.slot / cfg.SLOTS_PER_EPOCH) s.validators i).set i nv →
        (∀ w, (initiate_validator_exit_pure cfg (s.slot / cfg.SLOTS_PER_EPOCH) s.validators i)[i]? = some w →
          nv.effective_balance = w.effective_balance ∧ nv.activation_epoch = w.activation_epoch ∧ nv.exit_epoch = w.exit_epoch) →
        Block.get_beacon_proposer_index cfg s3 = .ok p := by
      intro s3 nv h1 h2 h3 h4
      rw [proposer_frame cfg s s3 (sameDuties_slashed cfg s s3 i nv hcurfar h1 h2 h3 h4)]
      exact hp
    generalize hvals : initiate_validator_exit_pure cfg (s.slot / cfg.SLOTS_PER_EPOCH) s.validators i = vals at *
    have hvl : vals.length = s.validators.length := by rw [← hvals]; exact initiate_pure_length _ _ _ _
    have hidx' : i < vals.length := by omega
    have hv : vals[i]? = some vals[i] := List.getElem?_eq_getElem hidx'
    have heff : vals[i].effective_balance = s.validators[i].effective_balance := by
      apply initiate_pure_eff cfg (s.slot / cfg.SLOTS_PER_EPOCH) s.validators i i
      · exact List.getElem?_eq_getElem hidx
      · rw [hvals]; exact hv
    have hmem : s.validators[i] ∈ s.validators := List.getElem_mem hidx
    simp only [toRes_bind, toRes_idx, rget, hv, res_bind_ok, u64_ok _ _ hs.epoch, toRes_ok, toRes_ite, toRes_invalid, toRes_pure,
      hz1, hz2, hz3, if_false]
    cases hslv : s.slashings[s.slot / cfg.SLOTS_PER_EPOCH % cfg.EPOCHS_PER_SLASHINGS_VECTOR]? with
    | none => rfl
    | some sl =>
      have hslmem : sl ∈ s.slashings := List.mem_of_getElem? hslv
      have hw1 : sl + vals[i].effective_balance < 2 ^ 64 := by rw [heff]; exact hs.slashings sl hslmem _ hmem
      have hor' : ¬ (False ∨ False ∨ s.fork = Fork.phase0 ∧ cfg.PROPOSER_REWARD_QUOTIENT = 0) := by simp [hz4]
      simp only [res_bind_ok, u64_ok _ _ hw1, toRes_ok, hor', if_false]
      unfold decrease_balance
      simp only [toRes_bind, toRes_idx, rget, toRes_pure]
      cases hb : s.balances[i]? with
      | none => rfl
      | some b =>
        simp only [res_bind_ok]
        have hframe' : ∀ (B SL : List Nat), Block.get_beacon_proposer_index cfg
            { s with validators := vals.set i { vals[i] with slashed := true, withdrawable_epoch := max vals[i].withdrawable_epoch (s.slot / cfg.SLOTS_PER_EPOCH + cfg.EPOCHS_PER_SLASHINGS_VECTOR) }, balances := B, slashings := SL } = .ok p := by
          intro B SL
          exact hframe _ _ rfl rfl rfl (by intro w hw; rw [hv] at hw; cases hw; exact ⟨rfl, rfl, rfl⟩)
        simp only [hframe']
        simp only [toRes_ok, res_bind_ok, Option.getD_none, hz4, if_false]
        generalize hE : vals[i].effective_balance = E at *
        have hEb : ∀ x ∈ s.balances, x + 2 * E < 2 ^ 64 := fun x hx => by rw [heff]; exact hs.balances x hx _ hmem
        have hEw : E * PROPOSER_WEIGHT < 2 ^ 64 := by rw [heff]; exact hs.eff _ hmem
        generalize hQ : min_slashing_penalty_quotient cfg s.fork = Q at *
        generalize hpen : E / Q = pen
        generalize hnb : (if pen > b then 0 else b - pen) = nb
        have hnb' : nb ≤ b := by rw [← hnb]; split <;> omega
        have hbmem : b ∈ s.balances := List.mem_of_getElem? hb
        have hb1 : ∀ x ∈ s.balances.set i nb, x + 2 * E < 2 ^ 64 := by
          intro x hx
          rcases List.mem_or_eq_of_mem_set hx with h | h
          · exact hEb x h
          · rw [h]; have := hEb b hbmem; omega
        generalize s.balances.set i nb = bal1 at *
        generalize hW : E / cfg.WHISTLEBLOWER_REWARD_QUOTIENT = W
        have hWE : W ≤ E := by rw [← hW]; exact Nat.div_le_self _ _
        have hfin : ∀ (pr : Nat) (V : List Validator) (SL : List Nat), pr ≤ W →
            (toRes (increase_balance { s with validators := V, balances := bal1, slashings := SL } p pr) >>= fun a => toRes (increase_balance a p (W - pr))) =
            optRes (match bal1[p]? with
              | none => none
              | some pb =>
                match (bal1.set p (pb + pr))[p]? with
                | none => none
                | some pb2 => some { s with validators := V, slashings := SL, balances := (bal1.set p (pb + pr)).set p (pb2 + (W - pr)) }) := by
          intro pr V SL hpr
          unfold increase_balance
          simp only [toRes_bind, toRes_idx, rget, toRes_pure]
          cases hpb : bal1[p]? with
          | none => rfl
          | some pb =>
            have hpl : p < bal1.length := (List.getElem?_eq_some_iff.mp hpb).1
            have hpbm : pb ∈ bal1 := List.mem_of_getElem? hpb
            have := hb1 pb hpbm
            have h3 : (bal1.set p (pb + pr))[p]? = some (pb + pr) := by
              rw [List.getElem?_set_self hpl]
            simp only [res_bind_ok, u64_ok _ _ (show pb + pr < 2 ^ 64 by omega), toRes_ok, h3,
              u64_ok _ _ (show pb + pr + (W - pr) < 2 ^ 64 by omega), optRes]
        by_cases hf : s.fork = .phase0
        · simp only [if_pos hf]
          exact hfin (W / cfg.PROPOSER_REWARD_QUOTIENT) _ _ (Nat.div_le_self _ _)
        · simp only [if_neg hf]
          exact hfin (W * PROPOSER_WEIGHT / WEIGHT_DENOMINATOR) _ _ (by unfold PROPOSER_WEIGHT WEIGHT_DENOMINATOR; omega)
  · have hnone : s.validators[i]? = none := by simp; omega
    simp [initiate_validator_exit, hnone, hidx, optRes, toRes_bind, Spec.idx, invalid, throw, throwThe, MonadExceptOf.throw, toRes, bind, Except.bind, Res.bind]

theorem toRes_crossCheck (name : String) (core : Option State) (r : SM State) (h : toRes r = optRes core) :
    toRes (Block.crossCheck name core r) = optRes core := by
  unfold Block.crossCheck
  cases r with
  | ok st =>
    cases core with
    | none => simp [toRes, optRes] at h
    | some st' =>
      have : st = st' := by simpa [toRes, optRes] using h
      simp [this, toRes, optRes]
  | error e =>
    cases core with
    | none => cases e <;> rfl
    | some st' => simp [toRes, optRes] at h

/-- `S`'s `slash_validator` (monadic version with its run-time comparison) = the pure core -/
theorem slash_link (cfg : Config) (s : State) (i p : Nat)
    (hp : Block.get_beacon_proposer_index cfg s = .ok p)
    (hq : cfg.CHURN_LIMIT_QUOTIENT ≠ 0) (hreg : RegU64 s.validators) (hsmall : ExitSmall cfg s) (hs : SlashSmall cfg s)
    (hz : cfg.EPOCHS_PER_SLASHINGS_VECTOR ≠ 0 ∧ min_slashing_penalty_quotient cfg s.fork ≠ 0 ∧
          cfg.WHISTLEBLOWER_REWARD_QUOTIENT ≠ 0 ∧ cfg.PROPOSER_REWARD_QUOTIENT ≠ 0) :
    toRes (Block.slash_validator cfg s i) = optRes (Block.slash_validator_pure cfg s i p) := by
  unfold Block.slash_validator
  simp only [hp]
  exact toRes_crossCheck _ _ _ (slash_m_link cfg s i p hp hq hreg hsmall hs hz)

/-- (d) `phase0.SlashValidator` = `S`'s `slash_validator`, accept/reject and post-state -/
theorem slash_S_eq (cfg : Config) (ctx : Ctx) (s : State) (i p : Nat)
    (hp : ctx.proposer = some p) (hps : Block.get_beacon_proposer_index cfg s = .ok p)
    (hact : ctx.activeCount = (s.validators.filter (is_active_validator · (s.slot / cfg.SLOTS_PER_EPOCH))).length)
    (hq : cfg.CHURN_LIMIT_QUOTIENT ≠ 0) (hreg : RegU64 s.validators) (hsmall : ExitSmall cfg s) (hs : SlashSmall cfg s)
    (hz : cfg.EPOCHS_PER_SLASHINGS_VECTOR ≠ 0 ∧ min_slashing_penalty_quotient cfg s.fork ≠ 0 ∧
          cfg.WHISTLEBLOWER_REWARD_QUOTIENT ≠ 0 ∧ cfg.PROPOSER_REWARD_QUOTIENT ≠ 0) :
    slashValidator cfg ctx s i = toRes (Block.slash_validator cfg s i) := by
  rw [slash_eq cfg ctx s i p hp hact hq hreg hsmall hs hz, slash_link cfg s i p hps hq hreg hsmall hs hz]

theorem isSlashable_eq (v : Validator) (epoch : Nat) : isSlashable v epoch = is_slashable_validator v epoch := by
  unfold isSlashable is_slashable_validator
  cases v.slashed <;> by_cases h1 : v.activation_epoch > epoch <;> by_cases h2 : v.withdrawable_epoch ≤ epoch <;>
    simp [h1, h2] <;> omega

/-- (d) `phase0.ProcessProposerSlashing` = `process_proposer_slashing`, accept/reject and post-state -/
theorem proposerSlashing_eq (cfg : Config) (ctx : Ctx) (s : State) (ps : ProposerSlashing) (p : Nat)
    (hp : ctx.proposer = some p) (hps : Block.get_beacon_proposer_index cfg s = .ok p)
    (hact : ctx.activeCount = (s.validators.filter (is_active_validator · (s.slot / cfg.SLOTS_PER_EPOCH))).length)
    (hq : cfg.CHURN_LIMIT_QUOTIENT ≠ 0) (hreg : RegU64 s.validators) (hsmall : ExitSmall cfg s) (hs : SlashSmall cfg s)
    (hz : cfg.EPOCHS_PER_SLASHINGS_VECTOR ≠ 0 ∧ min_slashing_penalty_quotient cfg s.fork ≠ 0 ∧
          cfg.WHISTLEBLOWER_REWARD_QUOTIENT ≠ 0 ∧ cfg.PROPOSER_REWARD_QUOTIENT ≠ 0) :
    processProposerSlashing cfg ctx s ps = toRes (Block.process_proposer_slashing cfg s ps) := by
  unfold processProposerSlashing Block.process_proposer_slashing get_current_epoch compute_epoch_at_slot
  simp only []
  rw [slash_S_eq cfg ctx s _ p hp hps hact hq hreg hsmall hs hz]
  simp only [toRes_bind, toRes_require, toRes_idx, guard_bind, rget_bind, isSlashable_eq]
  generalize toRes (Block.slash_validator cfg s ps.signed_header_1.message.proposer_index) = fin
  cases hv : s.validators[ps.signed_header_1.message.proposer_index]? with
  | none =>
    have : ¬ ps.signed_header_1.message.proposer_index < s.validators.length := by
      intro hlt; simp [List.getElem?_eq_getElem hlt] at hv
    simp [this]
  | some v =>
    have hlt : ps.signed_header_1.message.proposer_index < s.validators.length := (List.getElem?_eq_some_iff.mp hv).1
    simp only [hlt, decide_true, if_true]
    close_cases

/-- what an accepted `slash_validator` leaves behind, field by field -/
theorem slash_pure_shape (cfg : Config) (s s' : State) (i p : Nat) (h : Block.slash_validator_pure cfg s i p = some s') :
    ∃ (v : Validator) (sl b nb pb pr W : Nat),
      (initiate_validator_exit_pure cfg (s.slot / cfg.SLOTS_PER_EPOCH) s.validators i)[i]? = some v ∧
      s'.validators = (initiate_validator_exit_pure cfg (s.slot / cfg.SLOTS_PER_EPOCH) s.validators i).set i
        { v with slashed := true, withdrawable_epoch := max v.withdrawable_epoch (s.slot / cfg.SLOTS_PER_EPOCH + cfg.EPOCHS_PER_SLASHINGS_VECTOR) } ∧
      s.slashings[s.slot / cfg.SLOTS_PER_EPOCH % cfg.EPOCHS_PER_SLASHINGS_VECTOR]? = some sl ∧
      s'.slashings = s.slashings.set (s.slot / cfg.SLOTS_PER_EPOCH % cfg.EPOCHS_PER_SLASHINGS_VECTOR) (sl + v.effective_balance) ∧
      s.balances[i]? = some b ∧ nb ≤ b ∧ (s.balances.set i nb)[p]? = some pb ∧ pr ≤ W ∧ W ≤ v.effective_balance ∧
      s'.balances = ((s.balances.set i nb).set p (pb + pr)).set p (pb + pr + (W - pr)) ∧
      s'.slot = s.slot ∧ s'.randao_mixes = s.randao_mixes ∧ s'.fork = s.fork := by
  unfold Block.slash_validator_pure at h
  simp only [] at h
  split at h
  · cases h
  split at h
  · cases h
  split at h
  · cases h
  rename_i v hv
  split at h
  · cases h
  split at h
  · cases h
  rename_i sl hsl
  split at h
  · cases h
  split at h
  · cases h
  rename_i b hb
  split at h
  · cases h
  rename_i pb hpb
  split at h
  · cases h
  rename_i pb2 hpb2
  have hpl : p < (s.balances.set i (if v.effective_balance / min_slashing_penalty_quotient cfg s.fork > b then 0
      else b - v.effective_balance / min_slashing_penalty_quotient cfg s.fork)).length := (List.getElem?_eq_some_iff.mp hpb).1
  rw [List.getElem?_set_self hpl] at hpb2
  cases hpb2
  cases h
  refine ⟨v, sl, b, _, pb, _, v.effective_balance / cfg.WHISTLEBLOWER_REWARD_QUOTIENT, hv, rfl, hsl, rfl, hb, ?_, hpb, ?_,
    Nat.div_le_self _ _, rfl, rfl, rfl, rfl⟩
  · generalize v.effective_balance / min_slashing_penalty_quotient cfg s.fork = pen
    split <;> omega
  · split
    · exact Nat.div_le_self _ _
    · unfold PROPOSER_WEIGHT WEIGHT_DENOMINATOR; omega

end Zrnt.Proofs.BlockM
