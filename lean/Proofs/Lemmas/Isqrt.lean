import Zrnt.Gen.GoFuns
import Mathlib.Tactic.Linarith
import Mathlib.Tactic.Ring
/-! Newton iteration of `IntegerSquareroot` (regenerated from math_util.go): invariant and termination. -/
namespace Zrnt.Proofs.Isqrt
open Zrnt Zrnt.Gen.GoFuns

/-- one Newton step from any positive `x` lands on or above the floor square root -/
theorem newton_ge (n x : Nat) (hx : 0 < x) : n < ((x + n / x) / 2 + 1) * ((x + n / x) / 2 + 1) := by
  have h1 : n < (n / x + 1) * x := by
    have := Nat.lt_mul_div_succ n hx   -- n < x * (n / x + 1)
    rw [Nat.mul_comm]; exact this
  have h2 : x + n / x ≤ 2 * ((x + n / x) / 2) + 1 := by omega
  set q := n / x with hq
  set y := (x + q) / 2 with hy
  -- (2y+2)^2 ≥ (x+q+1)^2 ≥ 4 x (q+1) > 4 n
  have h3 : x + q + 1 ≤ 2 * y + 2 := by omega
  have h4 : 4 * (x * (q + 1)) ≤ (x + q + 1) * (x + q + 1) := by
    nlinarith [sq_nonneg ((x : Int) - (q + 1))]
  have h5 : (x + q + 1) * (x + q + 1) ≤ (2 * y + 2) * (2 * y + 2) := Nat.mul_le_mul h3 h3
  nlinarith

theorem add_div_le (n x : Nat) (h1 : 1 ≤ x) (h2 : x ≤ n) : x + n / x ≤ n + 1 := by
  have hq : 1 ≤ n / x := (Nat.one_le_div_iff (by omega)).mpr h2
  have hm : x * (n / x) ≤ n := Nat.mul_div_le n x
  nlinarith

theorem exit_le (n x : Nat) (_hx : 0 < x) (h : x ≤ (x + n / x) / 2) : x * x ≤ n := by
  have : x ≤ n / x := by omega
  calc x * x ≤ x * (n / x) := Nat.mul_le_mul_left x this
    _ ≤ n := Nat.mul_div_le n x

/-- loop invariant -/
def Inv (n x y : UInt64) : Prop :=
  0 < x.toNat ∧ x.toNat ≤ n.toNat ∧ y.toNat = (x.toNat + n.toNat / x.toNat) / 2 ∧
  n.toNat < (x.toNat + 1) * (x.toNat + 1)

theorem loop_correct (n : UInt64) (hn : n.toNat + 1 < 2 ^ 64) :
    ∀ (fuel : Nat) (x y : UInt64), Inv n x y → x.toNat < fuel →
      ∃ r y', IntegerSquareroot.loop1 n fuel x y = .ok (r, y') ∧
        r.toNat * r.toNat ≤ n.toNat ∧ n.toNat < (r.toNat + 1) * (r.toNat + 1) := by
  intro fuel
  induction fuel with
  | zero => intro x y _ h; omega
  | succ fuel ih =>
    intro x y ⟨hx0, hxn, hy, hlt⟩ hf
    unfold IntegerSquareroot.loop1
    by_cases hyx : y < x
    · have hyx' : y.toNat < x.toNat := UInt64.lt_iff_toNat_lt.mp hyx
      -- y ≥ 1
      have hq1 : 1 ≤ n.toNat / x.toNat := (Nat.one_le_div_iff hx0).mpr hxn
      have hy1 : 1 ≤ y.toNat := by omega
      have hyn : y.toNat ≤ n.toNat := by omega
      have hy0 : y ≠ 0 := by
        intro h; rw [h] at hy1; simp at hy1
      have hsum : y.toNat + n.toNat / y.toNat ≤ n.toNat + 1 := add_div_le _ _ hy1 hyn
      simp only [hyx, decide_true, ite_true, Res.udiv, hy0, if_false]
      have hnew : Inv n y (Res.shr (y + n / y) 1) := by
        refine ⟨hy1, hyn, ?_, by rw [hy]; exact newton_ge _ _ hx0⟩
        simp only [Res.shr]
        have : (1 : UInt64) < 64 := by decide
        simp only [this, ite_true]
        rw [UInt64.toNat_shiftRight, UInt64.toNat_add, UInt64.toNat_div]
        have h1 : (1 : UInt64).toNat % 64 = 1 := by decide
        rw [h1, Nat.shiftRight_eq_div_pow, Nat.mod_eq_of_lt (by omega)]
      have := ih y (Res.shr (y + n / y) 1) hnew (by omega)
      simpa using this
    · have hyx' : x.toNat ≤ y.toNat :=
        Nat.le_of_not_lt (fun h => hyx (UInt64.lt_iff_toNat_lt.mpr h))
      simp only [hyx, decide_false]
      refine ⟨x, y, rfl, exit_le _ _ hx0 (by omega), hlt⟩

end Zrnt.Proofs.Isqrt
