import Zrnt.ForkChoice.Model
/-!
# Fork choice: the notions the invariants and refinement theorems are stated with

Everything here speaks about the code-shaped model (`Zrnt.ForkChoice.PA`, `FC`) before any effective prune
(`offset = 0`), where a node index is a position in `nodes`.
-/
namespace Zrnt.ForkChoice

/-- fork-choice parent of the node at index `j` -/
def fpar (ns : List Node) (j : Nat) : Option Nat := (ns[j]?).bind (·.fparent)

/-- transition parent of the node at index `j` -/
def tpar (ns : List Node) (j : Nat) : Option Nat := (ns[j]?).bind (·.tparent)

/-- `i` is `j` or reached from `j` by at most `fuel` fork-choice-parent steps -/
def ancF (ns : List Node) (i : Nat) : Nat → Nat → Bool
  | 0, j => i == j
  | fuel + 1, j => i == j || (match fpar ns j with | some p => ancF ns i fuel p | none => false)

/-- `i` is `j` or a fork-choice ancestor of `j` (`j` lies in the subtree of `i`) -/
def anc (ns : List Node) (i j : Nat) : Bool := ancF ns i ns.length j

/-- sum of `ds[j]` over the subtree of `i` -/
def subSum (ns : List Node) (ds : List Int) (i : Nat) : Int :=
  (((List.range ns.length).filter (fun j => anc ns i j)).map (fun j => ds.getD j 0)).sum

/-- the part of a node that insertions fix once and for all -/
def Node.skel (n : Node) : NodeRef × Option Idx × Option Idx × Root × Nat × Nat :=
  (n.ref, n.tparent, n.fparent, n.parentRoot, n.jEpoch, n.fEpoch)

/-- Structure invariant of the proto array before any effective prune. -/
structure WF (pr : PA) : Prop where
  off : pr.offset = 0
  len : pr.indices.length = pr.nodes.length
  /-- the index map points at the node with that reference -/
  idx_sound : ∀ ref i, aGet pr.indices ref = some i → ∃ n, pr.nodes[i]? = some n ∧ n.ref = ref
  /-- every node is found under its reference (so references are unique) -/
  idx_complete : ∀ (i : Nat) (n : Node), pr.nodes[i]? = some n → aGet pr.indices n.ref = some i
  /-- parents have smaller indices -/
  tpar_lt : ∀ (i : Nat) (n : Node) (p : Nat), pr.nodes[i]? = some n → n.tparent = some p → p < i
  fpar_lt : ∀ (i : Nat) (n : Node) (p : Nat), pr.nodes[i]? = some n → n.fparent = some p → p < i
  /-- best-child / best-descendant links stay inside the array; the best child is a child and the best
  descendant lies in the subtree -/
  bc_child : ∀ (i : Nat) (n : Node) (c : Nat), pr.nodes[i]? = some n → n.bestChild = some c → fpar pr.nodes c = some i
  bd_desc : ∀ (i : Nat) (n : Node) (d : Nat), pr.nodes[i]? = some n → n.bestDesc = some d → d < pr.nodes.length ∧ i ≠ d ∧ anc pr.nodes i d = true
  bc_bd : ∀ (i : Nat) (n : Node), pr.nodes[i]? = some n → (n.bestChild.isSome ↔ n.bestDesc.isSome)
  /-- every root in `blockSlots` has its node -/
  bs_node : ∀ root s, aGet pr.blockSlots root = some s → (aGet pr.indices ⟨s, root⟩).isSome

/-- the applied vote of a validator lies in the subtree of node `i` -/
def appliedIn (pr : PA) (i : Nat) (v : Vote) : Bool :=
  match aGet pr.indices v.cur with
  | some j => anc pr.nodes i j
  | none => false

/-- sum of the balances of the validators `k, k+1, …` (votes `vs`) whose applied vote lies in the subtree of `i` -/
def wsumFrom (pr : PA) (bals : List Nat) (i : Nat) : Nat → List Vote → Int
  | _, [] => 0
  | k, v :: vs => (if appliedIn pr i v then ((bals.getD k 0 : Nat) : Int) else 0) + wsumFrom pr bals i (k + 1) vs

/-- sum of the balances of the validators whose applied vote lies in the subtree of `i` -/
def wsum (pr : PA) (votes : List Vote) (bals : List Nat) (i : Nat) : Int := wsumFrom pr bals i 0 votes

/-- the weight of every node is the sum of the balances `bals` of the validators whose applied vote (in `votes`)
lies in its subtree -/
def WeightsAre (pr : PA) (votes : List Vote) (bals : List Nat) : Prop :=
  ∀ (i : Nat) (n : Node), pr.nodes[i]? = some n → n.weight = wsum pr votes bals i

/-- every applied vote is Go's zero `NodeRef` ("never applied") or a node of the array -/
def VotesIn (pr : PA) (votes : List Vote) : Prop :=
  ∀ v ∈ votes, v.cur = NodeRef.zero ∨ (aGet pr.indices v.cur).isSome

/-- Go's zero `NodeRef` (root 0 at slot 0), the vote store's "no vote" sentinel, is not a node -/
def NoZero (pr : PA) : Prop := aGet pr.indices NodeRef.zero = none

/-- Weights invariant of the wrapper: `WeightsAre` for its vote trackers and its current balances. -/
def WeightsOK (fc : FC) : Prop := WeightsAre fc.pa fc.votes fc.balances

end Zrnt.ForkChoice
