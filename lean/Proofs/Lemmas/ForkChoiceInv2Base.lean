import Proofs.Lemmas.ForkChoiceInv
import Proofs.Lemmas.ForkChoiceWeights
/-! Chain structure, applied votes and weights: invariants over every admissible operation sequence (`inv_weights`). -/
namespace Zrnt.ForkChoice
open FC

/-- a query returned with a well-formed array that differs from the old one only in links and the flag -/
def GoodFr {α : Type} (pr : PA) (r : POut PA α) : Prop :=
  match r with
  | .ok s _ => WF s ∧ Frame pr s
  | .err s => WF s ∧ Frame pr s
  | .panic => False
  | .spin => False

theorem goodFr_findHead (pr : PA) (h : WF pr) (root : Root) (slot : Nat) : GoodFr pr (pr.findHead root slot) := by
  rw [findHead_eq]
  have step : ∀ q : PA, WF q → Frame pr q → GoodFr pr (findHeadStep q root slot) := by
    intro q hq fq
    rcases findHeadStep_cases q hq root slot with ⟨r, e, _⟩ | e
    · rw [e]; exact ⟨hq, fq⟩
    · rw [e]; exact ⟨hq, fq⟩
  split
  · exact step pr h (Frame.refl pr)
  · obtain ⟨pr1, h1, hw1, _, hf1⟩ := wf_updateConnections pr h
    rw [h1]
    exact step pr1 hw1 hf1

theorem goodFr_inSubtree (pr : PA) (h : WF pr) (a r : Root) : GoodFr pr (pr.inSubtree a r) := by
  obtain ⟨pr', res, e, hw, hf⟩ := inSubtree_wf pr h a r
  rw [e]; exact ⟨hw, hf⟩

theorem goodFr_canonicalChain (pr : PA) (h : WF pr) (root : Root) (slot : Nat) :
    GoodFr pr (pr.canonicalChain root slot) := by
  have hg := goodFr_findHead pr h root slot
  unfold PA.canonicalChain
  cases hf : pr.findHead root slot with
  | ok s a => rw [hf] at hg; simp only; split <;> exact hg
  | err s => rw [hf] at hg; exact hg
  | panic => rw [hf] at hg; exact hg.elim
  | spin => rw [hf] at hg; exact hg.elim

theorem goodFr_canonAtSlot (pr : PA) (h : WF pr) (anchor : Root) (slot : Nat) (wb : Bool) :
    GoodFr pr (pr.canonAtSlot anchor slot wb) := by
  unfold PA.canonAtSlot
  have triv : WF pr ∧ Frame pr pr := ⟨h, Frame.refl pr⟩
  cases hb : aGet pr.blockSlots anchor with
  | none => exact triv
  | some anchorSlot =>
    simp only
    split
    · exact triv
    · split
      · rename_i heq
        split
        · have hsome := h.bs_node anchor anchorSlot hb
          rw [heq] at hsome
          cases hi : aGet pr.indices ⟨slot, anchor⟩ with
          | none => rw [hi] at hsome; exact absurd hsome (by simp)
          | some i =>
            simp only
            obtain ⟨n, hn, _⟩ := h.idx_sound _ _ hi
            rw [hn]
            simp only
            split <;> exact triv
        · exact triv
      · have hg := goodFr_findHead pr h anchor anchorSlot
        cases hf : pr.findHead anchor anchorSlot with
        | ok s a =>
          rw [hf] at hg; simp only
          split
          · exact hg
          · split <;> exact hg
        | err s => rw [hf] at hg; exact hg
        | panic => rw [hf] at hg; exact hg.elim
        | spin => rw [hf] at hg; exact hg.elim

theorem goodFr_search (pr : PA) (h : WF pr) (anchor : NodeRef) (pR : Option Root) (sl : Option Nat) :
    GoodFr pr (pr.search anchor pR sl) := by
  have hg := goodFr_findHead pr h anchor.root anchor.slot
  unfold PA.search
  cases hf : pr.findHead anchor.root anchor.slot with
  | ok s a =>
    rw [hf] at hg; simp only
    obtain ⟨nc', c', e⟩ := searchLoop_done s hg.1 ((aGet s.indices anchor).getD 0) ((aGet s.indices a).getD 0) a pR sl _
      s.nodes [] [] (fun n hn => by
        obtain ⟨i, hi, e⟩ := List.mem_iff_getElem.mp hn
        exact ⟨i, by rw [List.getElem?_eq_getElem hi, e]⟩)
    rw [e]; exact hg
  | err s => rw [hf] at hg; exact hg
  | panic => rw [hf] at hg; exact hg.elim
  | spin => rw [hf] at hg; exact hg.elim

/-- the invariants of the array together with the vote trackers and balances -/
structure PInv (pr : PA) (votes : List Vote) (bals : List Nat) : Prop where
  wf : WF pr
  chain : Chain pr
  nz : NoZero pr
  w : WeightsAre pr votes bals

theorem PInv.frame {pr pr' : PA} {votes : List Vote} {bals : List Nat} (I : PInv pr votes bals) (hw : WF pr')
    (f : Frame pr pr') : PInv pr' votes bals :=
  ⟨hw, chain_congr f.indices f.blockSlots f.len f.skel I.chain, noZero_frame pr pr' f I.nz,
   weights_frame pr pr' f votes bals I.w⟩

/-- `ComputeDeltas` + `ApplyScoreChanges` re-establish the invariants for the new trackers and balances -/
theorem PInv.applyDeltas {pr : PA} {votes : List Vote} {oldB : List Nat} (I : PInv pr votes oldB) (newB : List Nat)
    (jE fE : Nat) :
    ∃ ds vs' pr', computeDeltas pr.indices votes oldB newB = some (ds, vs') ∧
      pr.applyScoreChanges ds jE fE = .ok pr' () ∧ PInv pr' vs' newB := by
  obtain ⟨ds, vs', e, _, _⟩ := computeDeltas_ok pr I.wf votes oldB newB
  obtain ⟨pr', e2, hw, fr, hwt⟩ := weights_applyDeltas pr I.wf I.nz votes oldB newB I.w ds vs' e jE fE
  refine ⟨ds, vs', pr', e, e2, hw, chain_congr fr.indices fr.blockSlots fr.len fr.skel I.chain,
    noZero_frameS pr pr' fr I.nz, hwt⟩

/-- invariant of a wrapper state (mutex aside) -/
def FI (fc : FC) : Prop := PInv fc.pa fc.votes fc.balances

/-- outcome of a method body: returned, invariant kept, mutex flag untouched -/
def BodyI {α : Type} (fc0 : FC) (r : Out FC α) : Prop :=
  match r with
  | .ok s _ => FI s ∧ s.held = fc0.held
  | .err s => FI s ∧ s.held = fc0.held
  | .panic => False
  | .blocked => False

/-- outcome of an exported method -/
def SafeI {α : Type} (r : Out FC α) : Prop :=
  match r with
  | .ok s _ => s.held = false ∧ FI s
  | .err s => s.held = false ∧ FI s
  | .panic => False
  | .blocked => False

theorem safeI_withLock {α : Type} (fc : FC) (hh : fc.held = false) (body : FC → Out FC α)
    (hb : BodyI { fc with held := true } (body { fc with held := true })) : SafeI (fc.withLock body) := by
  unfold withLock
  simp only [hh, Bool.false_eq_true, if_false]
  revert hb
  cases body { fc with held := true } with
  | ok s a => exact fun hb => ⟨rfl, hb.1⟩
  | err s => exact fun hb => ⟨rfl, hb.1⟩
  | panic => exact fun hb => hb
  | blocked => exact fun hb => hb

theorem updateVotesMaybe_inv (fc : FC) (I : FI fc) :
    ∃ fc', fc.updateVotesMaybe = .ok fc' () ∧ FI fc' ∧ fc'.held = fc.held ∧ fc'.pin = fc.pin ∧
      fc'.justified = fc.justified ∧ fc'.finalized = fc.finalized ∧ fc'.spe = fc.spe := by
  unfold updateVotesMaybe
  split
  · exact ⟨fc, rfl, I, rfl, rfl, rfl, rfl, rfl⟩
  · obtain ⟨ds, vs', pr', e, e2, I'⟩ := PInv.applyDeltas I fc.balances fc.justified.epoch fc.finalized.epoch
    rw [e]
    simp only
    rw [e2]
    exact ⟨_, rfl, I', rfl, rfl, rfl, rfl, rfl⟩

theorem bodyI_liftPA {α : Type} (fc0 fc : FC) (I : FI fc) (hh : fc.held = fc0.held) (r : POut PA α)
    (hg : GoodFr fc.pa r) : BodyI fc0 (fc.liftPA r) := by
  unfold liftPA
  cases r with
  | ok s a => exact ⟨PInv.frame I hg.1 hg.2, hh⟩
  | err s => exact ⟨PInv.frame I hg.1 hg.2, hh⟩
  | panic => exact hg.elim
  | spin => exact hg.elim

theorem bodyI_afterVotes {α : Type} (fc : FC) (I : FI fc) (f : PA → POut PA α)
    (hf : ∀ pr, WF pr → GoodFr pr (f pr)) : BodyI fc (fc.afterVotes f) := by
  unfold afterVotes
  obtain ⟨fc', e, I', hh, _⟩ := updateVotesMaybe_inv fc I
  rw [e]
  exact bodyI_liftPA fc fc' I' hh _ (hf _ I'.wf)

/-- outcome of the unexported `updateJustified` -/
def KeepsI (fc0 : FC) (r : Out FC Unit) : Prop :=
  match r with
  | .ok s _ => FI s ∧ s.held = fc0.held ∧ s.spe = fc0.spe
  | .err s => FI s ∧ s.held = fc0.held ∧ s.spe = fc0.spe
  | .panic => False
  | .blocked => False

theorem checkCp_inv (fc0 fc : FC) (I : FI fc) (hh : fc.held = fc0.held) (hs : fc.spe = fc0.spe) (changed : Bool)
    (cp : Checkpoint) (k : FC → Out FC Unit)
    (hk : ∀ fc', FI fc' → fc'.held = fc0.held → fc'.spe = fc0.spe → KeepsI fc0 (k fc')) :
    KeepsI fc0 (fc.checkCp changed cp k) := by
  unfold checkCp
  split
  · obtain ⟨pr', res, e, hw, hf⟩ := inSubtree_wf fc.pa I.wf fc.finalized.root cp.root
    rw [e]
    obtain ⟨u, i⟩ := res
    simp only
    have I' : FI { fc with pa := pr' } := PInv.frame I hw hf
    split
    · exact ⟨I', hh, hs⟩
    · split
      · exact ⟨I', hh, hs⟩
      · exact hk _ I' hh hs
  · exact hk fc I hh hs

theorem inner_inv (fc : FC) (I : FI fc) (f j : Checkpoint) (b : Option (List Nat)) :
    KeepsI fc (fc.updateJustifiedInner f j b) := by
  unfold updateJustifiedInner
  split
  · exact ⟨I, rfl, rfl⟩
  · apply checkCp_inv fc fc I rfl rfl
    intro fc1 I1 hh1 hs1
    apply checkCp_inv fc fc1 I1 hh1 hs1
    intro fc2 I2 hh2 hs2
    cases b with
    | none => exact ⟨I2, hh2, hs2⟩
    | some newBals =>
      simp only
      obtain ⟨ds, vs', pr', e, e2, I'⟩ := PInv.applyDeltas I2 newBals j.epoch f.epoch
      rw [e]
      simp only
      rw [e2]
      exact ⟨I', hh2, hs2⟩

theorem safeI_queryAfterVotes {α : Type} (fc : FC) (hh : fc.held = false) (I : FI fc) (f : PA → POut PA α)
    (hf : ∀ pr, WF pr → GoodFr pr (f pr)) : SafeI (fc.withLock (·.afterVotes f)) := by
  apply safeI_withLock fc hh
  exact bodyI_afterVotes { fc with held := true } I f hf

theorem safeI_head (fc : FC) (hh : fc.held = false) (I : FI fc) : SafeI fc.head := by
  unfold FC.head
  apply safeI_withLock fc hh
  obtain ⟨fc', e, I', hh', _⟩ := updateVotesMaybe_inv { fc with held := true } I
  rw [e]
  simp only
  split
  · exact bodyI_liftPA _ fc' I' hh' _ (goodFr_findHead _ I'.wf _ _)
  · exact bodyI_liftPA _ fc' I' hh' _ (goodFr_findHead _ I'.wf _ _)

theorem safeI_inSubtree (fc : FC) (hh : fc.held = false) (I : FI fc) (a r : Root) : SafeI (fc.inSubtree a r) := by
  unfold FC.inSubtree
  apply safeI_withLock fc hh
  exact bodyI_liftPA _ { fc with held := true } I rfl _ (goodFr_inSubtree fc.pa I.wf a r)

theorem safeI_setPin (fc : FC) (hh : fc.held = false) (I : FI fc) (r : Root) (s : Nat) : SafeI (fc.setPin r s) := by
  rcases setPin_eq fc hh r s with e | e
  · rw [e]; exact ⟨hh, I⟩
  · rw [e]; exact ⟨hh, I⟩

theorem safeI_closest (fc : FC) (hh : fc.held = false) (I : FI fc) (a : Root) (s : Nat) :
    SafeI (fc.closestToSlot a s) := by
  unfold FC.closestToSlot
  apply safeI_withLock fc hh
  simp only
  split <;> exact ⟨I, rfl⟩

theorem safeI_getSlot (fc : FC) (hh : fc.held = false) (I : FI fc) (r : Root) : SafeI (fc.getSlot r) := by
  unfold FC.getSlot
  apply safeI_withLock fc hh
  exact ⟨I, rfl⟩

theorem safeI_processAttestation (fc : FC) (hh : fc.held = false) (I : FI fc) (v : Nat) (r : Root) (s : Nat) :
    SafeI (fc.processAttestation v r s) := by
  unfold processAttestation
  apply safeI_withLock fc hh
  simp only
  split
  · exact ⟨I, rfl⟩
  · split
    · exact ⟨I, rfl⟩
    · split
      · exact ⟨I, rfl⟩
      · refine ⟨⟨I.wf, I.chain, I.nz, ?_⟩, rfl⟩
        intro i n hn
        show n.weight = wsum fc.pa (voteProcess fc.spe fc.votes fc.changed v r s).1 fc.balances i
        rw [voteProcess_weights fc.pa I.nz]
        exact I.w i n hn

theorem safeI_processSlot (fc : FC) (hh : fc.held = false) (I : FI fc) (p : Root) (s j f : Nat) (hp : p ≠ 0)
    (hok : (aGet fc.pa.indices ⟨s, p⟩).isSome ∨ ∃ s0, aGet fc.pa.blockSlots p = some s0 ∧ s0 ≤ s)
    (hnr : ∀ v ∈ fc.votes, aGet fc.pa.indices v.cur = none → aGet (fc.pa.processSlot p s j f).indices v.cur = none) :
    SafeI (fc.processSlot p s j f) := by
  unfold FC.processSlot
  apply safeI_withLock fc hh
  have hw' := wf_processSlot fc.pa I.wf p s j f
  have g := processSlot_frame fc.pa I.wf p s j f
  have hz' := noZero_grow fc.pa _ I.nz g I.wf hw' (fun r hr => by rw [hr]; exact hp)
  have w' := weights_grow' fc.pa _ I.wf hw' g hz' fc.votes fc.balances hnr I.w
  exact ⟨⟨hw', chain_processSlot fc.pa I.wf I.chain p s j f hok, hz', w'⟩, rfl⟩

theorem safeI_processBlock (fc : FC) (hh : fc.held = false) (I : FI fc) (p r : Root) (s j f : Nat) (hp : p ≠ 0)
    (hr : r ≠ 0)
    (hnr : ∀ v ∈ fc.votes, aGet fc.pa.indices v.cur = none →
      aGet ((fc.pa.processBlock p r s j f).getD (fc.pa, false)).1.indices v.cur = none) :
    SafeI (fc.processBlock p r s j f) := by
  unfold FC.processBlock
  apply safeI_withLock fc hh
  obtain ⟨pr', b, e, hw', g⟩ := processBlock_spec fc.pa I.wf p r s j f
  simp only
  rw [e]
  have hz' := noZero_grow fc.pa pr' I.nz g I.wf hw' (fun x hx => by
    rcases hx with hx | hx
    · rw [hx]; exact hp
    · rw [hx]; exact hr)
  have hnr' : ∀ v ∈ fc.votes, aGet fc.pa.indices v.cur = none → aGet pr'.indices v.cur = none := by
    intro v hv hn; have := hnr v hv hn; rw [e] at this; exact this
  have w' := weights_grow' fc.pa pr' I.wf hw' g hz' fc.votes fc.balances hnr' I.w
  exact ⟨⟨hw', chain_processBlock fc.pa I.wf I.chain p r s j f pr' b e, hz', w'⟩, rfl⟩

end Zrnt.ForkChoice
