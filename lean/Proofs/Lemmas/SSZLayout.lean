import Zrnt.SSZ.Layout
import Proofs.Lemmas.SSZBasic
/-! `splitParts` is the exact inverse of `joinParts` (both directions): the offset discipline of SSZ. -/
namespace Zrnt.Proofs.SSZ
open Zrnt.SSZ

/-- the parts fit the layout: same number, fixed entries have exactly their size -/
def Compat : Layout → List Bytes → Prop
  | [], [] => True
  | some n :: l, p :: ps => p.length = n ∧ Compat l ps
  | none :: l, _ :: ps => Compat l ps
  | _, _ => False

/-- the variable-size parts, in order -/
def varParts : Layout → List Bytes → List Bytes
  | some _ :: l, _ :: ps => varParts l ps
  | none :: l, p :: ps => p :: varParts l ps
  | _, _ => []

/-- absolute start positions of consecutive parts beginning at `pos` -/
def runOffsets : Nat → List Bytes → List Nat
  | _, [] => []
  | pos, v :: vs => pos :: runOffsets (pos + v.length) vs

def countVar : Layout → Nat
  | [] => 0
  | some _ :: l => countVar l
  | none :: l => countVar l + 1

theorem compat_length {lay : Layout} {ps : List Bytes} (h : Compat lay ps) : ps.length = lay.length := by
  induction lay generalizing ps with
  | nil => cases ps <;> simp_all [Compat]
  | cons e l ih =>
    cases ps with
    | nil => cases e <;> simp [Compat] at h
    | cons p ps =>
      cases e with
      | none => simp only [Compat] at h; simp [ih h]
      | some n => simp only [Compat] at h; simp [ih h.2]

theorem varSection_eq_flatten (lay : Layout) (ps : List Bytes) :
    varSection lay ps = (varParts lay ps).flatten := by
  induction lay generalizing ps with
  | nil => cases ps <;> simp [varSection, varParts]
  | cons e l ih =>
    cases ps with
    | nil => cases e <;> simp [varSection, varParts]
    | cons p ps => cases e <;> simp [varSection, varParts, ih]

theorem fixedSection_length (lay : Layout) (ps : List Bytes) (off : Nat) (h : Compat lay ps) :
    (fixedSection lay ps off).length = fixedPartLen lay := by
  induction lay generalizing ps off with
  | nil => cases ps <;> simp_all [fixedSection, fixedPartLen, Compat]
  | cons e l ih =>
    cases ps with
    | nil => cases e <;> simp [Compat] at h
    | cons p ps =>
      cases e with
      | none =>
        simp only [Compat] at h
        simp [fixedSection, fixedPartLen, natToLE_length, ih _ _ h]
      | some n =>
        simp only [Compat] at h
        simp [fixedSection, fixedPartLen, h.1, ih _ _ h.2]

theorem varParts_length (lay : Layout) (ps : List Bytes) (h : Compat lay ps) :
    (varParts lay ps).length = countVar lay := by
  induction lay generalizing ps with
  | nil => cases ps <;> simp_all [varParts, countVar, Compat]
  | cons e l ih =>
    cases ps with
    | nil => cases e <;> simp [Compat] at h
    | cons p ps =>
      cases e with
      | none => simp only [Compat] at h; simp [varParts, countVar, ih _ h]
      | some n => simp only [Compat] at h; simp [varParts, countVar, ih _ h.2]

/-- total size of an encoding -/
theorem joinParts_length (lay : Layout) (ps : List Bytes) (h : Compat lay ps) :
    (joinParts lay ps).length = fixedPartLen lay + (varParts lay ps).flatten.length := by
  simp [joinParts, fixedSection_length lay ps _ h, varSection_eq_flatten]

/-! ### encode then split -/

theorem readOffsets_fixedSection (lay : Layout) (ps : List Bytes) (off : Nat) (tail : Bytes)
    (h : Compat lay ps) (hb : off + (varParts lay ps).flatten.length < 2 ^ 32) :
    readOffsets lay (fixedSection lay ps off ++ tail) = runOffsets off (varParts lay ps) := by
  induction lay generalizing ps off with
  | nil => cases ps <;> simp_all [readOffsets, varParts, runOffsets, Compat]
  | cons e l ih =>
    cases ps with
    | nil => cases e <;> simp [Compat] at h
    | cons p ps =>
      cases e with
      | none =>
        simp only [Compat] at h
        simp only [varParts, List.flatten_cons, List.length_append] at hb
        simp only [fixedSection, readOffsets, varParts, runOffsets, List.append_assoc]
        have h4 : (natToLE 4 off).length = 4 := natToLE_length 4 off
        rw [List.take_left' h4, List.drop_left' h4]
        rw [leToNat_natToLE 4 off (by omega)]
        rw [ih ps (off + p.length) h (by omega)]
      | some n =>
        simp only [Compat] at h
        simp only [varParts] at hb
        simp only [fixedSection, readOffsets, varParts, List.append_assoc]
        rw [List.drop_left' h.1]
        exact ih ps off h.2 hb

theorem runOffsets_head {pos o : Nat} {vs : List Bytes} {os : List Nat}
    (h : runOffsets pos vs = o :: os) : o = pos := by
  cases vs with
  | nil => simp [runOffsets] at h
  | cons v vs => simp [runOffsets] at h; exact h.1.symm

theorem sliceVar_runOffsets (pos : Nat) (vs : List Bytes) :
    sliceVar pos (runOffsets pos vs) vs.flatten = some vs := by
  induction vs generalizing pos with
  | nil => simp [runOffsets, sliceVar]
  | cons v vs ih =>
    cases vs with
    | nil => simp [runOffsets, sliceVar]
    | cons w ws =>
      have ih' := ih (pos + v.length)
      simp only [runOffsets] at ih' ⊢
      simp only [sliceVar, List.flatten_cons]
      have e1 : pos + v.length - pos = v.length := by omega
      rw [e1]
      simp only [List.length_append, List.take_left, List.drop_left]
      rw [if_pos (by refine ⟨trivial, by omega, by omega⟩)]
      simp only [List.flatten_cons] at ih'
      rw [ih']
      rfl

theorem assemble_fixedSection (lay : Layout) (ps : List Bytes) (off : Nat) (tail : Bytes) (h : Compat lay ps) :
    assemble lay (fixedSection lay ps off ++ tail) (varParts lay ps) = ps := by
  induction lay generalizing ps off with
  | nil => cases ps <;> simp_all [assemble, Compat]
  | cons e l ih =>
    cases ps with
    | nil => cases e <;> simp [Compat] at h
    | cons p ps =>
      cases e with
      | none =>
        simp only [Compat] at h
        simp only [fixedSection, varParts, assemble, List.append_assoc]
        have h4 : (natToLE 4 off).length = 4 := natToLE_length 4 off
        rw [List.drop_left' h4, ih ps _ h]
      | some n =>
        simp only [Compat] at h
        simp only [fixedSection, varParts, assemble, List.append_assoc]
        rw [List.take_left' h.1, List.drop_left' h.1, ih ps _ h.2]

/-- **split ∘ join = id** for parts that fit the layout, when the encoding is shorter than 2^32 bytes -/
theorem splitParts_joinParts (lay : Layout) (ps : List Bytes) (h : Compat lay ps)
    (hlen : (joinParts lay ps).length < 2 ^ 32) : splitParts lay (joinParts lay ps) = some ps := by
  have hF := fixedSection_length lay ps (fixedPartLen lay) h
  have hl := joinParts_length lay ps h
  unfold splitParts
  have e1 : ¬ (joinParts lay ps).length < fixedPartLen lay := by omega
  rw [if_neg e1]
  unfold joinParts
  rw [List.take_left' hF, List.drop_left' hF]
  have := readOffsets_fixedSection lay ps (fixedPartLen lay) [] h (by omega)
  simp only [List.append_nil] at this
  rw [this, varSection_eq_flatten, sliceVar_runOffsets]
  simp only
  have := assemble_fixedSection lay ps (fixedPartLen lay) [] h
  simp only [List.append_nil] at this
  rw [this]

/-! ### split then join -/

theorem sliceVar_some (pos : Nat) (offs : List Nat) (rest : Bytes) (vs : List Bytes)
    (h : sliceVar pos offs rest = some vs) : offs = runOffsets pos vs ∧ vs.flatten = rest := by
  induction offs generalizing pos rest vs with
  | nil =>
    simp only [sliceVar] at h
    split at h
    · rename_i he
      simp at h; subst h
      simp [runOffsets]
      simpa using he
    · simp at h
  | cons o os ih =>
    cases os with
    | nil =>
      simp only [sliceVar] at h
      split at h
      · rename_i he
        simp at h; subst h; subst he
        simp [runOffsets]
      · simp at h
    | cons o' os' =>
      simp only [sliceVar] at h
      split at h
      · rename_i hc
        obtain ⟨rfl, hle, hlen⟩ := hc
        simp only [Option.map_eq_some_iff] at h
        obtain ⟨ws, hws, rfl⟩ := h
        obtain ⟨ih1, ih2⟩ := ih _ _ _ hws
        have hl : (List.take (o' - o) rest).length = o' - o := by
          rw [List.length_take]; omega
        refine ⟨?_, ?_⟩
        · simp only [runOffsets, hl]
          have : o + (o' - o) = o' := by omega
          rw [this, ← ih1]
        · simp only [List.flatten_cons, ih2, List.take_append_drop]
      · simp at h

theorem runOffsets_length (pos : Nat) (vs : List Bytes) : (runOffsets pos vs).length = vs.length := by
  induction vs generalizing pos with
  | nil => rfl
  | cons v vs ih => simp [runOffsets, ih]

theorem readOffsets_length (lay : Layout) (fx : Bytes) : (readOffsets lay fx).length = countVar lay := by
  induction lay generalizing fx with
  | nil => rfl
  | cons e l ih => cases e <;> simp [readOffsets, countVar, ih]

theorem compat_assemble (lay : Layout) (fx : Bytes) (vs : List Bytes)
    (hfx : fixedPartLen lay ≤ fx.length) (hvs : vs.length = countVar lay) : Compat lay (assemble lay fx vs) := by
  induction lay generalizing fx vs with
  | nil => simp [assemble, Compat]
  | cons e l ih =>
    cases e with
    | none =>
      cases vs with
      | nil => simp [countVar] at hvs
      | cons v vs =>
        simp only [fixedPartLen] at hfx
        simp only [countVar, List.length_cons, Nat.add_right_cancel_iff] at hvs
        simp only [assemble, Compat]
        exact ih _ _ (by simp; omega) hvs
    | some n =>
      simp only [fixedPartLen] at hfx
      simp only [countVar] at hvs
      simp only [assemble, Compat]
      refine ⟨by rw [List.length_take]; omega, ih _ _ (by simp; omega) hvs⟩

theorem varParts_assemble (lay : Layout) (fx : Bytes) (vs : List Bytes) (hvs : vs.length = countVar lay) :
    varParts lay (assemble lay fx vs) = vs := by
  induction lay generalizing fx vs with
  | nil => cases vs <;> simp_all [varParts, countVar]
  | cons e l ih =>
    cases e with
    | none =>
      cases vs with
      | nil => simp [countVar] at hvs
      | cons v vs =>
        simp only [countVar, List.length_cons, Nat.add_right_cancel_iff] at hvs
        simp [assemble, varParts, ih _ _ hvs]
    | some n =>
      simp only [countVar] at hvs
      simp [assemble, varParts, ih _ _ hvs]

theorem fixedSection_assemble (lay : Layout) (fx : Bytes) (vs : List Bytes) (off : Nat)
    (hfx : fx.length = fixedPartLen lay) (ho : readOffsets lay fx = runOffsets off vs) :
    fixedSection lay (assemble lay fx vs) off = fx := by
  induction lay generalizing fx vs off with
  | nil =>
    simp only [fixedPartLen] at hfx
    simp [fixedSection, List.length_eq_zero_iff.mp hfx]
  | cons e l ih =>
    cases e with
    | none =>
      simp only [fixedPartLen] at hfx
      cases vs with
      | nil => simp [readOffsets, runOffsets] at ho
      | cons v vs =>
        simp only [readOffsets, runOffsets, List.cons.injEq] at ho
        simp only [assemble, fixedSection]
        rw [ih (fx.drop 4) vs (off + v.length) (by simp; omega) ho.2]
        have h4 : (fx.take 4).length = 4 := by rw [List.length_take]; omega
        have := natToLE_leToNat (fx.take 4)
        rw [h4, ho.1] at this
        rw [this, List.take_append_drop]
    | some n =>
      simp only [fixedPartLen] at hfx
      simp only [readOffsets] at ho
      simp only [assemble, fixedSection]
      rw [ih (fx.drop n) vs off (by simp; omega) ho, List.take_append_drop]

/-- **join ∘ split = id**: whatever `splitParts` accepts is the canonical encoding of the parts it returns
(no slack: first offset = size of the fixed section, offsets increasing, nothing left over). -/
theorem splitParts_some (lay : Layout) (bs : Bytes) (ps : List Bytes) (h : splitParts lay bs = some ps) :
    Compat lay ps ∧ joinParts lay ps = bs := by
  unfold splitParts at h
  split at h
  · simp at h
  · rename_i hlen
    split at h
    · simp at h
    · rename_i vs hvs
      simp at h; subst h
      obtain ⟨ho, hflat⟩ := sliceVar_some _ _ _ _ hvs
      have hcount : vs.length = countVar lay := by
        have := congrArg List.length ho
        rw [readOffsets_length, runOffsets_length] at this
        exact this.symm
      have hfx : (bs.take (fixedPartLen lay)).length = fixedPartLen lay := by
        rw [List.length_take]; omega
      refine ⟨compat_assemble _ _ _ (by omega) hcount, ?_⟩
      unfold joinParts
      rw [fixedSection_assemble lay _ vs _ hfx ho, varSection_eq_flatten, varParts_assemble _ _ _ hcount, hflat,
        List.take_append_drop]

end Zrnt.Proofs.SSZ

namespace Zrnt.Proofs.SSZ
open Zrnt.SSZ

/-! ### homogeneous layouts (vectors and lists) -/

theorem fixedPartLen_replicate_some (n s : Nat) : fixedPartLen (List.replicate n (some s)) = n * s := by
  induction n with
  | zero => simp [fixedPartLen]
  | succ n ih => simp [List.replicate_succ, fixedPartLen, ih, Nat.succ_mul]; omega

theorem fixedPartLen_replicate_none (n : Nat) : fixedPartLen (List.replicate n none) = 4 * n := by
  induction n with
  | zero => simp [fixedPartLen]
  | succ n ih => simp [List.replicate_succ, fixedPartLen, ih]; omega

theorem varParts_replicate_some (n s : Nat) (ps : List Bytes) : varParts (List.replicate n (some s)) ps = [] := by
  induction n generalizing ps with
  | zero => cases ps <;> simp [varParts]
  | succ n ih => cases ps <;> simp [List.replicate_succ, varParts, ih]

theorem varParts_replicate_none (ps : List Bytes) : varParts (List.replicate ps.length none) ps = ps := by
  induction ps with
  | nil => simp [varParts]
  | cons p ps ih => simp [List.replicate_succ, varParts, ih]

/-- every part is at most as long as the whole encoding -/
theorem part_length_le (lay : Layout) (ps : List Bytes) (h : Compat lay ps) (p : Bytes) (hp : p ∈ ps) :
    p.length ≤ (joinParts lay ps).length := by
  rw [joinParts_length lay ps h]
  induction lay generalizing ps with
  | nil => cases ps <;> simp_all [Compat]
  | cons e l ih =>
    cases ps with
    | nil => simp at hp
    | cons q qs =>
      cases e with
      | none =>
        simp only [Compat] at h
        simp only [fixedPartLen, varParts, List.flatten_cons, List.length_append]
        rcases List.mem_cons.mp hp with rfl | hq
        · omega
        · have := ih qs h hq; omega
      | some n =>
        simp only [Compat] at h
        simp only [fixedPartLen, varParts]
        rcases List.mem_cons.mp hp with rfl | hq
        · omega
        · have := ih qs h.2 hq; omega

theorem splitList_joinParts (fl : Option Nat) (lim : Nat) (ps : List Bytes)
    (hc : Compat (List.replicate ps.length fl) ps) (hlim : ps.length ≤ lim)
    (hs : ∀ s, fl = some s → 0 < s)
    (hlen : (joinParts (List.replicate ps.length fl) ps).length < 2 ^ 32) :
    splitList fl lim (joinParts (List.replicate ps.length fl) ps) = some ps := by
  have hsp := splitParts_joinParts _ ps hc hlen
  have hl := joinParts_length _ ps hc
  cases fl with
  | some s =>
    have hs0 := hs s rfl
    rw [fixedPartLen_replicate_some, varParts_replicate_some] at hl
    simp only [List.flatten_nil, List.length_nil, Nat.add_zero] at hl
    unfold splitList
    simp only
    rw [if_neg (by omega), hl, Nat.mul_mod_left, if_neg (by simp), Nat.mul_div_cancel _ hs0, if_neg (by omega)]
    exact hsp
  | none =>
    unfold splitList
    simp only
    cases ps with
    | nil => simp [joinParts, fixedSection, varSection]
    | cons p ps =>
      rw [fixedPartLen_replicate_none] at hl
      have hne : (joinParts (List.replicate (p :: ps).length none) (p :: ps)).isEmpty = false := by
        rw [List.isEmpty_eq_false_iff]; intro h0; rw [h0] at hl; simp at hl; omega
      rw [hne]
      simp only [Bool.false_eq_true, ↓reduceIte]
      rw [if_neg (by simp only [List.length_cons] at hl ⊢; omega)]
      have htake : List.take 4 (joinParts (List.replicate (p :: ps).length none) (p :: ps))
          = natToLE 4 (4 * (p :: ps).length) := by
        simp only [joinParts, List.length_cons, List.replicate_succ, fixedSection, fixedPartLen,
          fixedPartLen_replicate_none, List.append_assoc]
        rw [List.take_left' (natToLE_length 4 _)]
        congr 1; omega
      rw [htake, leToNat_natToLE 4 _ (by simp only [List.length_cons] at hl hlen ⊢; omega)]
      rw [Nat.mul_mod_right, if_neg (by simp), Nat.mul_div_cancel_left _ (by omega : 0 < 4), if_neg (by omega)]
      exact hsp

theorem splitList_some (fl : Option Nat) (lim : Nat) (bs : Bytes) (ps : List Bytes)
    (h : splitList fl lim bs = some ps) :
    ps.length ≤ lim ∧ Compat (List.replicate ps.length fl) ps ∧ joinParts (List.replicate ps.length fl) ps = bs := by
  unfold splitList at h
  cases fl with
  | some s =>
    simp only at h
    split at h; · simp at h
    split at h; · simp at h
    split at h; · simp at h
    rename_i h1 h2 h3
    obtain ⟨hc, hj⟩ := splitParts_some _ _ _ h
    have hl := compat_length hc
    simp only [List.length_replicate] at hl
    rw [hl]
    exact ⟨by omega, hc, hj⟩
  | none =>
    simp only at h
    split at h
    · rename_i he
      simp at h; subst h
      simp only [List.isEmpty_iff] at he
      subst he
      simp [Compat, joinParts, fixedSection, varSection]
    · split at h; · simp at h
      split at h; · simp at h
      split at h; · simp at h
      rename_i h1 h2 h3
      obtain ⟨hc, hj⟩ := splitParts_some _ _ _ h
      have hl := compat_length hc
      simp only [List.length_replicate] at hl
      rw [hl]
      exact ⟨by omega, hc, hj⟩

end Zrnt.Proofs.SSZ
