import Zrnt.SSZ.Layout
import Proofs.Lemmas.SSZBasic
/-! `splitParts` is the exact inverse of `joinParts` (both directions): the offset discipline of SSZ. -/
namespace Zrnt.Proofs.SSZ
open Zrnt.SSZ

/-- the parts fit the layout: same number, fixed entries have exactly their size -/
def Compat : Layout → List Bytes → Prop
  | [], [] => True
  | some n :: l, p :: ps => p.length = n ∧ Compat l ps
  | none :: l, _ :: ps => Compat l ps
  | _, _ => False

/-- the variable-size parts, in order -/
def varParts : Layout → List Bytes → List Bytes
  | some _ :: l, _ :: ps => varParts l ps
  | none :: l, p :: ps => p :: varParts l ps
  | _, _ => []

/-- absolute start positions of consecutive parts beginning at `pos` -/
def runOffsets : Nat → List Bytes → List Nat
  | _, [] => []
  | pos, v :: vs => pos :: runOffsets (pos + v.length) vs

def countVar : Layout → Nat
  | [] => 0
  | some _ :: l => countVar l
  | none :: l => countVar l + 1

theorem compat_length {lay : Layout} {ps : List Bytes} (h : Compat lay ps) : ps.length = lay.length := by
  induction lay generalizing ps with
  | nil => cases ps <;> simp_all [Compat]
  | cons e l ih =>
    cases ps with
    | nil => cases e <;> simp [Compat] at h
    | cons p ps =>
      cases e with
      | none => simp only [Compat] at h; simp [ih h]
      | some n => simp only [Compat] at h; simp [ih h.2]

theorem varSection_eq_flatten (lay : Layout) (ps : List Bytes) :
    varSection lay ps = (varParts lay ps).flatten := by
  induction lay generalizing ps with
  | nil => cases ps <;> simp [varSection, varParts]
  | cons e l ih =>
    cases ps with
    | nil => cases e <;> simp [varSection, varParts]
    | cons p ps => cases e <;> simp [varSection, varParts, ih]

theorem fixedSection_length (lay : Layout) (ps : List Bytes) (off : Nat) (h : Compat lay ps) :
    (fixedSection lay ps off).length = fixedPartLen lay := by
  induction lay generalizing ps off with
  | nil => cases ps <;> simp_all [fixedSection, fixedPartLen, Compat]
  | cons e l ih =>
    cases ps with
    | nil => cases e <;> simp [Compat] at h
    | cons p ps =>
      cases e with
      | none =>
        simp only [Compat] at h
        simp [fixedSection, fixedPartLen, natToLE_length, ih _ _ h]
      | some n =>
        simp only [Compat] at h
        simp [fixedSection, fixedPartLen, h.1, ih _ _ h.2]

theorem varParts_length (lay : Layout) (ps : List Bytes) (h : Compat lay ps) :
    (varParts lay ps).length = countVar lay := by
  induction lay generalizing ps with
  | nil => cases ps <;> simp_all [varParts, countVar, Compat]
  | cons e l ih =>
    cases ps with
    | nil => cases e <;> simp [Compat] at h
    | cons p ps =>
      cases e with
      | none => simp only [Compat] at h; simp [varParts, countVar, ih _ h]
      | some n => simp only [Compat] at h; simp [varParts, countVar, ih _ h.2]

/-- total size of an encoding -/
theorem joinParts_length (lay : Layout) (ps : List Bytes) (h : Compat lay ps) :
    (joinParts lay ps).length = fixedPartLen lay + (varParts lay ps).flatten.length := by
  simp [joinParts, fixedSection_length lay ps _ h, varSection_eq_flatten]

/-! ### encode then split -/

theorem readOffsets_fixedSection (lay : Layout) (ps : List Bytes) (off : Nat) (tail : Bytes)
    (h : Compat lay ps) (hb : off + (varParts lay ps).flatten.length < 2 ^ 32) :
    readOffsets lay (fixedSection lay ps off ++ tail) = runOffsets off (varParts lay ps) := by
  induction lay generalizing ps off with
  | nil => cases ps <;> simp_all [readOffsets, varParts, runOffsets, Compat]
  | cons e l ih =>
    cases ps with
    | nil => cases e <;> simp [Compat] at h
    | cons p ps =>
      cases e with
      | none =>
        simp only [Compat] at h
        simp only [varParts, List.flatten_cons, List.length_append] at hb
        simp only [fixedSection, readOffsets, varParts, runOffsets, List.append_assoc]
        have h4 : (natToLE 4 off).length = 4 := natToLE_length 4 off
        rw [List.take_left' h4, List.drop_left' h4]
        rw [leToNat_natToLE 4 off (by omega)]
        rw [ih ps (off + p.length) h (by omega)]
      | some n =>
        simp only [Compat] at h
        simp only [varParts] at hb
        simp only [fixedSection, readOffsets, varParts, List.append_assoc]
        rw [List.drop_left' h.1]
        exact ih ps off h.2 hb

theorem runOffsets_head {pos o : Nat} {vs : List Bytes} {os : List Nat}
    (h : runOffsets pos vs = o :: os) : o = pos := by
  cases vs with
  | nil => simp [runOffsets] at h
  | cons v vs => simp [runOffsets] at h; exact h.1.symm

theorem sliceVar_runOffsets (pos : Nat) (vs : List Bytes) :
    sliceVar pos (runOffsets pos vs) vs.flatten = some vs := by
  induction vs generalizing pos with
  | nil => simp [runOffsets, sliceVar]
  | cons v vs ih =>
    cases vs with
    | nil => simp [runOffsets, sliceVar]
    | cons w ws =>
      have ih' := ih (pos + v.length)
      simp only [runOffsets] at ih' ⊢
      simp only [sliceVar, List.flatten_cons]
      have e1 : pos + v.length - pos = v.length := by omega
      rw [e1]
      simp only [List.length_append, List.take_left, List.drop_left]
      rw [if_pos (by refine ⟨trivial, by omega, by omega⟩)]
      simp only [List.flatten_cons] at ih'
      rw [ih']
      rfl

theorem assemble_fixedSection (lay : Layout) (ps : List Bytes) (off : Nat) (tail : Bytes) (h : Compat lay ps) :
    assemble lay (fixedSection lay ps off ++ tail) (varParts lay ps) = ps := by
  induction lay generalizing ps off with
  | nil => cases ps <;> simp_all [assemble, Compat]
  | cons e l ih =>
    cases ps with
    | nil => cases e <;> simp [Compat] at h
    | cons p ps =>
      cases e with
      | none =>
        simp only [Compat] at h
        simp only [fixedSection, varParts, assemble, List.append_assoc]
        have h4 : (natToLE 4 off).length = 4 := natToLE_length 4 off
        rw [List.drop_left' h4, ih ps _ h]
      | some n =>
        simp only [Compat] at h
        simp only [fixedSection, varParts, assemble, List.append_assoc]
        rw [List.take_left' h.1, List.drop_left' h.1, ih ps _ h.2]

/-- **split ∘ join = id** for parts that fit the layout, when the encoding is shorter than 2^32 bytes -/
theorem splitParts_joinParts (lay : Layout) (ps : List Bytes) (h : Compat lay ps)
    (hlen : (joinParts lay ps).length < 2 ^ 32) : splitParts lay (joinParts lay ps) = some ps := by
  have hF := fixedSection_length lay ps (fixedPartLen lay) h
  have hl := joinParts_length lay ps h
  unfold splitParts
  have e1 : ¬ (joinParts lay ps).length < fixedPartLen lay := by omega
  rw [if_neg e1]
  unfold joinParts
  rw [List.take_left' hF, List.drop_left' hF]
  have := readOffsets_fixedSection lay ps (fixedPartLen lay) [] h (by omega)
  simp only [List.append_nil] at this
  rw [this, varSection_eq_flatten, sliceVar_runOffsets]
  simp only
  have := assemble_fixedSection lay ps (fixedPartLen lay) [] h
  simp only [List.append_nil] at this
  rw [this]

/-! ### split then join -/

theorem sliceVar_some (pos : Nat) (offs : List Nat) (rest : Bytes) (vs : List Bytes)
    (h : sliceVar pos offs rest = some vs) : offs = runOffsets pos vs ∧ vs.flatten = rest := by
  induction offs generalizing pos rest vs with
  | nil =>
    simp only [sliceVar] at h
    split at h
    · rename_i he
      simp at h; subst h
      simp [runOffsets]
      simpa using he
    · simp at h
  | cons o os ih =>
    cases os with
    | nil =>
      simp only [sliceVar] at h
      split at h
      · rename_i he
        simp at h; subst h; subst he
        simp [runOffsets]
      · simp at h
    | cons o' os' =>
      simp only [sliceVar] at h
      split at h
      · rename_i hc
        obtain ⟨rfl, hle, hlen⟩ := hc
        simp only [Option.map_eq_some_iff] at h
        obtain ⟨ws, hws, rfl⟩ := h
        obtain ⟨ih1, ih2⟩ := ih _ _ _ hws
        have hl : (List.take (o' - o) rest).length = o' - o := by
          rw [List.length_take]; omega
        refine ⟨?_, ?_⟩
        · simp only [runOffsets, hl]
          have : o + (o' - o) = o' := by omega
          rw [this, ← ih1]
        · simp only [List.flatten_cons, ih2, List.take_append_drop]
      · simp at h

theorem runOffsets_length (pos : Nat) (vs : List Bytes) : (runOffsets pos vs).length = vs.length := by
  induction vs generalizing pos with
  | nil => rfl
  | cons v vs ih => simp [runOffsets, ih]

theorem readOffsets_length (lay : Layout) (fx : Bytes) : (readOffsets lay fx).length = countVar lay := by
  induction lay generalizing fx with
  | nil => rfl
  | cons e l ih => cases e <;> simp [readOffsets, countVar, ih]

theorem compat_assemble (lay : Layout) (fx : Bytes) (vs : List Bytes)
    (hfx : fixedPartLen lay ≤ fx.length) (hvs : vs.length = countVar lay) : Compat lay (assemble lay fx vs) := by
  induction lay generalizing fx vs with
  | nil => simp [assemble, Compat]
  | cons e l ih =>
    cases e with
    | none =>
      cases vs with
      | nil => simp [countVar] at hvs
      | cons v vs =>
        simp only [fixedPartLen] at hfx
        simp only [countVar, List.length_cons, Nat.add_right_cancel_iff] at hvs
        simp only [assemble, Compat]
        exact ih _ _ (by simp; omega) hvs
    | some n =>
      simp only [fixedPartLen] at hfx
      simp only [countVar] at hvs
      simp only [assemble, Compat]
      refine ⟨by rw [List.length_take]; omega, ih _ _ (by simp; omega) hvs⟩

theorem varParts_assemble (lay : Layout) (fx : Bytes) (vs : List Bytes) (hvs : vs.length = countVar lay) :
    varParts lay (assemble lay fx vs) = vs := by
  induction lay generalizing fx vs with
  | nil => cases vs <;> simp_all [assemble, varParts, countVar]
  | cons e l ih =>
    cases e with
    | none =>
      cases vs with
      | nil => simp [countVar] at hvs
      | cons v vs =>
        simp only [countVar, List.length_cons, Nat.add_right_cancel_iff] at hvs
        simp [assemble, varParts, ih _ _ hvs]
    | some n =>
      simp only [countVar] at hvs
      simp [assemble, varParts, ih _ _ hvs]

theorem fixedSection_assemble (lay : Layout) (fx : Bytes) (vs : List Bytes) (off : Nat)
    (hfx : fx.length = fixedPartLen lay) (ho : readOffsets lay fx = runOffsets off vs) :
    fixedSection lay (assemble lay fx vs) off = fx := by
  induction lay generalizing fx vs off with
  | nil =>
    simp only [fixedPartLen] at hfx
    simp [assemble, fixedSection, List.length_eq_zero_iff.mp hfx]
  | cons e l ih =>
    cases e with
    | none =>
      simp only [fixedPartLen] at hfx
      cases vs with
      | nil => simp [readOffsets, runOffsets] at ho
      | cons v vs =>
        simp only [readOffsets, runOffsets, List.cons.injEq] at ho
        simp only [assemble, fixedSection]
        rw [ih (fx.drop 4) vs (off + v.length) (by simp; omega) ho.2]
        have h4 : (fx.take 4).length = 4 := by rw [List.length_take]; omega
        have := natToLE_leToNat (fx.take 4)
        rw [h4, ho.1] at this
        rw [this, List.take_append_drop]
    | some n =>
      simp only [fixedPartLen] at hfx
      simp only [readOffsets] at ho
      simp only [assemble, fixedSection]
      rw [ih (fx.drop n) vs off (by simp; omega) ho, List.take_append_drop]

/-- **join ∘ split = id**: whatever `splitParts` accepts is the canonical encoding of the parts it returns
(no slack: first offset = size of the fixed section, offsets increasing, nothing left over). -/
theorem splitParts_some (lay : Layout) (bs : Bytes) (ps : List Bytes) (h : splitParts lay bs = some ps) :
    Compat lay ps ∧ joinParts lay ps = bs := by
  unfold splitParts at h
  split at h
  · simp at h
  · rename_i hlen
    split at h
    · simp at h
    · rename_i vs hvs
      simp at h; subst h
      obtain ⟨ho, hflat⟩ := sliceVar_some _ _ _ _ hvs
      have hcount : vs.length = countVar lay := by
        have := congrArg List.length ho
        rw [readOffsets_length, runOffsets_length] at this
        exact this.symm
      have hfx : (bs.take (fixedPartLen lay)).length = fixedPartLen lay := by
        rw [List.length_take]; omega
      refine ⟨compat_assemble _ _ _ (by omega) hcount, ?_⟩
      unfold joinParts
      rw [fixedSection_assemble lay _ vs _ hfx ho, varSection_eq_flatten, varParts_assemble _ _ _ hcount, hflat,
        List.take_append_drop]

end Zrnt.Proofs.SSZ
