import Proofs.Lemmas.ForkChoiceRefOps
/-!
# Fork choice: `UpdateJustified` in general (the finalized checkpoint may move, and then the array is pruned)

`ref_updateJustified_full`: for `Ref fc a` and the model invariants `FI fc`, the model's `UpdateJustified` and the
specification's `Abs.updateJustified` accept or refuse together, the results are related again, and the answer of
the specification lists exactly the sink calls the model logged. `ForkChoiceRefOps.ref_updateJustified` is the case
`f = fc.finalized`; new here are the subtree/epoch test of the new finalized checkpoint, the reset of the pin and
the prune. What `OnPrune` does on a related, settled pair is the hypothesis `RefJ.PruneOK` (proved elsewhere).

Both sides, in the same order: (1) nothing newer: unchanged, accepted; (2) pin test; (3) justified older than
finalized; (4) new finalized checkpoint inside the old one's subtree and not older; (5) the same for the justified
checkpoint; (6) balances available; (7) `ComputeDeltas` + `ApplyScoreChanges`, new balances and checkpoints (every
tracker is settled afterwards, which `PruneOK` needs); (8) if the finalized checkpoint moved: `pin := none` and the
prune at `(f.epoch * spe, f.root)`. Refusals leave the specification unchanged, the model only brought its links
up to date, and the sink was not called.

Auxiliaries (namespace `RefJ`): `specInner'`, `specPre`, `specAccept`, `specAfterPin`, `spec_updateJustified'` (branch
form of the specification), `InnerOut`, `inner_outcome'` (steps 3-7), `StL`, `Outcome'`, `prune_outcome` (step 8),
`afterPin_outcome'`, `ujBody_outcome'`, `Final'`, `final_withLock'`, `final_updateJustified'`.
-/
namespace Zrnt.ForkChoice.RefJ
open Zrnt.ForkChoice Spec FC RefOps

/-- the three acceptance tests of the specification after the pin test; `some bals` = accepted with new balances -/
def specInner' (a : Abs) (j f : Checkpoint) (b : Option (List Nat)) : Option (List Nat) :=
  if j.epoch < f.epoch then none else
  if a.finalized ≠ f && !(a.inside a.finalized.root f.root = some true && a.finalized.epoch ≤ f.epoch) then none else
  if a.justified ≠ j && !(a.inside a.finalized.root j.root = some true && a.finalized.epoch ≤ j.epoch) then none else
  b

/-- the state the specification prunes when the finalized checkpoint moved -/
def specPre (a : Abs) (j f : Checkpoint) (bals : List Nat) : Abs :=
  { a with balances := bals, justified := j, finalized := f, pin := none }

/-- the specification's result once the update is accepted -/
def specAccept (a : Abs) (j f : Checkpoint) (bals : List Nat) : Abs × Ans :=
  if a.finalized ≠ f then
    (((specPre a j f bals).prune ⟨f.epoch * a.spe, f.root⟩).1,
     .justify ((specPre a j f bals).prune ⟨f.epoch * a.spe, f.root⟩).2.2.2
      ((specPre a j f bals).prune ⟨f.epoch * a.spe, f.root⟩).2.1
      ((specPre a j f bals).prune ⟨f.epoch * a.spe, f.root⟩).2.2.1)
  else ({ a with balances := bals, justified := j, finalized := f }, .justify true [] none)

def specAfterPin (a : Abs) (j f : Checkpoint) (b : Option (List Nat)) : Abs × Ans :=
  match specInner' a j f b with
  | none => (a, .justify false [] none)
  | some bals => specAccept a j f bals

theorem spec_updateJustified' (a : Abs) (t : Root) (j f : Checkpoint) (b : Option (List Nat)) :
    a.updateJustified t j f b =
      if a.justified.epoch ≥ j.epoch && a.finalized.epoch ≥ f.epoch then (a, .justify true [] none) else
      if !specPinOk a t then (a, .justify false [] none) else specAfterPin a j f b := by
  unfold Abs.updateJustified specAfterPin specInner' specAccept specPinOk specPre
  simp only []
  by_cases h1 : (decide (a.justified.epoch ≥ j.epoch) && decide (a.finalized.epoch ≥ f.epoch)) = true
  · rw [if_pos h1, if_pos h1]
  · rw [if_neg h1, if_neg h1]
    generalize (!match a.pin with
      | some p => decide (t = p.root) || decide (a.inside p.root t = some true)
      | none => true) = c2
    cases c2 with
    | true => rfl
    | false =>
      simp only [Bool.false_eq_true, if_false]
      by_cases h3 : j.epoch < f.epoch
      · rw [if_pos h3, if_pos h3]
      · rw [if_neg h3, if_neg h3]
        generalize (decide (a.finalized ≠ f) &&
          !(decide (a.inside a.finalized.root f.root = some true) && decide (a.finalized.epoch ≤ f.epoch))) = c4
        generalize (decide (a.justified ≠ j) &&
          !(decide (a.inside a.finalized.root j.root = some true) && decide (a.finalized.epoch ≤ j.epoch))) = c5
        cases c4 <;> cases c5 <;> cases b <;> rfl

/-- outcome of the unexported `updateJustified` against the three acceptance tests -/
def InnerOut (a : Abs) (j f : Checkpoint) (sp : Option (List Nat)) (r : Out FC Unit) : Prop :=
  match r with
  | .ok fc' _ => ∃ bals, sp = some bals ∧ fc'.changed = false ∧
      St { a with balances := bals, justified := j, finalized := f } fc'
  | .err fc' => sp = none ∧ St a fc'
  | .panic => False
  | .blocked => False

theorem inner_outcome' {a : Abs} {fc : FC} (s : St a fc) (j f : Checkpoint) (b : Option (List Nat)) :
    InnerOut a j f (specInner' a j f b) (fc.updateJustifiedInner f j b) := by
  unfold updateJustifiedInner specInner'
  by_cases h1 : j.epoch < f.epoch
  · rw [if_pos h1, if_pos h1]; exact ⟨rfl, s⟩
  · rw [if_neg h1, if_neg h1]
    obtain ⟨fc1, s1, e1⟩ := checkCp_eq s (decide (fc.finalized ≠ f)) f
    rw [e1, ← s.ref.finalized]
    by_cases h2 : (decide (a.finalized ≠ f) &&
        !(decide (a.inside a.finalized.root f.root = some true) && decide (a.finalized.epoch ≤ f.epoch))) = true
    · rw [if_pos h2, if_pos h2]; exact ⟨rfl, s1⟩
    · rw [if_neg h2, if_neg h2]
      obtain ⟨fc2, s2, e2⟩ := checkCp_eq s1 (decide (fc1.justified ≠ j)) j
      simp only []
      rw [e2, ← s1.ref.justified]
      by_cases h3 : (decide (a.justified ≠ j) &&
          !(decide (a.inside a.finalized.root j.root = some true) && decide (a.finalized.epoch ≤ j.epoch))) = true
      · rw [if_pos h3, if_pos h3]; exact ⟨rfl, s2⟩
      · rw [if_neg h3, if_neg h3]
        cases b with
        | none => exact ⟨rfl, s2⟩
        | some bals =>
          simp only
          obtain ⟨ds, vs', pr', e, e3, I', fr, hj, hf⟩ := applyDeltas_frame s2.inv bals j.epoch f.epoch
          obtain ⟨t1, t2, t3, t4, t5⟩ :=
            computeDeltas_settle _ _ _ _ _ _ e s2.ref.fresh s2.ref.next_in s2.ref.cur_le
          rw [e]
          simp only
          rw [e3]
          refine ⟨bals, rfl, rfl, s2.held, fr.sinkLog.trans s2.log, I', ?_⟩
          have := ref_build s2.ref pr' fr vs' false fc2.held bals j f hj hf t3 t4 t5 (fun _ => t2)
          rw [t1, ← s2.ref.votes] at this
          exact this

/-- what the colleagues prove about `OnPrune` on a related, settled pair -/
def PruneOK : Prop :=
  ∀ (fc : FC) (a : Abs), FI fc → Ref fc a → (∀ v ∈ fc.votes, v.cur = v.next) → fc.pa.sinkLog = [] →
    ∀ (root : Root) (slot : Nat),
      match fc.pa.onPrune root slot with
      | .ok s _ => FI { fc with pa := s } ∧ Ref { fc with pa := s } (a.prune ⟨slot, root⟩).1 ∧
          (a.prune ⟨slot, root⟩).2.2.2 = true ∧
          sinkReport s.sinkLog = ((a.prune ⟨slot, root⟩).2.1, (a.prune ⟨slot, root⟩).2.2.1)
      | .err s => FI { fc with pa := s } ∧ Ref { fc with pa := s } (a.prune ⟨slot, root⟩).1 ∧
          (a.prune ⟨slot, root⟩).2.2.2 = false ∧
          sinkReport s.sinkLog = ((a.prune ⟨slot, root⟩).2.1, (a.prune ⟨slot, root⟩).2.2.1)
      | _ => False

/-- `St` without the claim that the sink was not called -/
structure StL (a : Abs) (fc : FC) : Prop where
  held : fc.held = true
  inv : FI fc
  ref : Ref fc a

/-- outcome of (a part of) the body against the specification's result `sp`, sink calls included -/
def Outcome' (sp : Abs × Ans) (r : Out FC Unit) : Prop :=
  match r with
  | .ok fc' _ => StL sp.1 fc' ∧
      sp.2 = .justify true (sinkReport fc'.pa.sinkLog).1 (sinkReport fc'.pa.sinkLog).2
  | .err fc' => StL sp.1 fc' ∧
      sp.2 = .justify false (sinkReport fc'.pa.sinkLog).1 (sinkReport fc'.pa.sinkLog).2
  | .panic => False
  | .blocked => False

theorem sinkReport_nil : sinkReport [] = ([], none) := rfl

theorem quiet_ok {a : Abs} {fc : FC} (s : St a fc) (ans : Ans) (h : ans = .justify true [] none) :
    Outcome' (a, ans) (.ok fc ()) := by
  refine ⟨⟨s.held, s.inv, s.ref⟩, ?_⟩
  show ans = _
  rw [s.log, h]; rfl

theorem quiet_err {a : Abs} {fc : FC} (s : St a fc) (ans : Ans) (h : ans = .justify false [] none) :
    Outcome' (a, ans) (.err fc) := by
  refine ⟨⟨s.held, s.inv, s.ref⟩, ?_⟩
  show ans = _
  rw [s.log, h]; rfl

/-- the pin is not mentioned by the invariants and is copied by the refinement relation -/
theorem ref_unpin {fc : FC} {a : Abs} (r : Ref fc a) : Ref { fc with pin := none } { a with pin := none } :=
  { spe := r.spe, nodes := r.nodes, votes := r.votes, balances := r.balances, justified := r.justified,
    finalized := r.finalized, pin := rfl, sink := r.sink, clean := r.clean, jE := r.jE, fE := r.fE,
    fresh := r.fresh, next_in := r.next_in, cur_le := r.cur_le, settled := r.settled }

/-- the prune step of `UpdateJustified` on the state left by the accepted update -/
theorem prune_outcome (hp : PruneOK) {a : Abs} {fc : FC} (s : St a fc) (hc : fc.changed = false) (root : Root)
    (slot slot' : Nat) (hs : slot' = slot) :
    Outcome'
      ((({ a with pin := none } : Abs).prune ⟨slot, root⟩).1,
       .justify (({ a with pin := none } : Abs).prune ⟨slot, root⟩).2.2.2
         (({ a with pin := none } : Abs).prune ⟨slot, root⟩).2.1
         (({ a with pin := none } : Abs).prune ⟨slot, root⟩).2.2.1)
      (match ({ fc with pin := none } : FC).pa.onPrune root slot' with
        | .panic => .panic
        | .spin => .blocked
        | .err pa => .err { ({ fc with pin := none } : FC) with pa := pa }
        | .ok pa _ => .ok { ({ fc with pin := none } : FC) with pa := pa } ()) := by
  subst hs
  have h := hp { fc with pin := none } { a with pin := none } s.inv (ref_unpin s.ref) (s.ref.settled hc) s.log root slot'
  revert h
  generalize ({ a with pin := none } : Abs).prune ⟨slot', root⟩ = p
  cases ({ fc with pin := none } : FC).pa.onPrune root slot' with
  | ok pa u =>
    intro h
    refine ⟨⟨s.held, h.1, h.2.1⟩, ?_⟩
    show Ans.justify p.2.2.2 p.2.1 p.2.2.1 = _
    rw [h.2.2.1, h.2.2.2]
  | err pa =>
    intro h
    refine ⟨⟨s.held, h.1, h.2.1⟩, ?_⟩
    show Ans.justify p.2.2.2 p.2.1 p.2.2.1 = _
    rw [h.2.2.1, h.2.2.2]
  | panic => exact fun h => h
  | spin => exact fun h => h

theorem afterPin_outcome' (hp : PruneOK) {a : Abs} {fc : FC} (s : St a fc) (j f : Checkpoint) (b : Option (List Nat)) :
    Outcome' (specAfterPin a j f b) (afterPin fc j f b) := by
  have h := inner_outcome' s j f b
  unfold afterPin specAfterPin
  revert h
  generalize specInner' a j f b = sp
  cases fc.updateJustifiedInner f j b with
  | ok fc1 u =>
    intro ⟨bals, e, hc, s1⟩
    subst e
    simp only []
    unfold specAccept
    rw [← s.ref.finalized]
    by_cases hne : a.finalized ≠ f
    · rw [if_pos hne, if_pos hne]
      exact prune_outcome hp s1 hc f.root (f.epoch * a.spe) (f.epoch * fc1.spe) (by rw [← s1.ref.spe])
    · rw [if_neg hne, if_neg hne]
      exact quiet_ok s1 _ rfl
  | err fc1 =>
    intro ⟨e, s1⟩
    subst e
    exact quiet_err s1 _ rfl
  | panic => exact fun h => h
  | blocked => exact fun h => h

theorem ujBody_outcome' (hp : PruneOK) {a : Abs} {fc : FC} (s : St a fc) (t : Root) (j f : Checkpoint)
    (b : Option (List Nat)) : Outcome' (a.updateJustified t j f b) (ujBody fc t j f b) := by
  rw [spec_updateJustified']
  unfold ujBody
  have c1 : (decide (fc.justified.epoch ≥ j.epoch) && decide (fc.finalized.epoch ≥ f.epoch)) =
      (decide (a.justified.epoch ≥ j.epoch) && decide (a.finalized.epoch ≥ f.epoch)) := by
    rw [s.ref.justified, s.ref.finalized]
  rw [c1]
  by_cases h1 : (decide (a.justified.epoch ≥ j.epoch) && decide (a.finalized.epoch ≥ f.epoch)) = true
  · rw [if_pos h1, if_pos h1]; exact quiet_ok s _ rfl
  · rw [if_neg h1, if_neg h1]
    unfold specPinOk
    rw [s.ref.pin]
    cases hpin : fc.pin with
    | none => exact afterPin_outcome' hp s j f b
    | some pin =>
      simp only
      by_cases h2 : t = pin.root
      · simp only [h2, ne_eq, not_true_eq_false, if_false, decide_true, Bool.true_or, Bool.not_true,
          Bool.false_eq_true]
        exact afterPin_outcome' hp s j f b
      · simp only [ne_eq, h2, not_false_eq_true, if_true, decide_false, Bool.false_or]
        obtain ⟨pa', e, s'⟩ := s.gate pin.root t
        rw [hpin] at s'
        have hin := inside_ans s.inv.wf s.inv.chain s.ref pin.root t
        rw [e]
        generalize insAns fc.pa pin.root t = ans at hin
        obtain ⟨u, i⟩ := ans
        cases u with
        | true =>
          have : ¬ a.inside pin.root t = some true := fun h => by have := hin.1 h; cases this
          simp only [this, decide_false, Bool.not_false, if_true]
          exact quiet_err s' _ rfl
        | false =>
          cases i with
          | false =>
            have : ¬ a.inside pin.root t = some true := fun h => by have := hin.1 h; cases this
            simp only [this, decide_false, Bool.not_false, if_true, Bool.false_eq_true, if_false]
            exact quiet_err s' _ rfl
          | true =>
            have : a.inside pin.root t = some true := hin.2 rfl
            simp only [this, decide_true, Bool.not_true, Bool.false_eq_true, if_false]
            exact afterPin_outcome' hp s' j f b

/-- the statement of `ref_updateJustified_full` as a predicate on the outcome -/
def Final' (sp : Abs × Ans) (r : Out FC Unit) : Prop :=
  match r with
  | .ok fc' _ => fc'.held = false ∧ FI fc' ∧ Ref fc' sp.1 ∧
      sp.2 = Ans.justify true (sinkReport fc'.pa.sinkLog).1 (sinkReport fc'.pa.sinkLog).2
  | .err fc' => fc'.held = false ∧ FI fc' ∧ Ref fc' sp.1 ∧
      sp.2 = Ans.justify false (sinkReport fc'.pa.sinkLog).1 (sinkReport fc'.pa.sinkLog).2
  | _ => False

theorem final_withLock' (fc : FC) (hh : fc.held = false) (sp : Abs × Ans) (body : FC → Out FC Unit)
    (hb : Outcome' sp (body { fc with held := true })) : Final' sp (fc.withLock body) := by
  unfold withLock
  simp only [hh, Bool.false_eq_true, if_false]
  revert hb
  cases body { fc with held := true } with
  | ok s u => exact fun hb => ⟨rfl, hb.1.inv, ref_held hb.1.ref false, hb.2⟩
  | err s => exact fun hb => ⟨rfl, hb.1.inv, ref_held hb.1.ref false, hb.2⟩
  | panic => exact fun hb => hb
  | blocked => exact fun hb => hb

theorem final_updateJustified' (hp : PruneOK) (fc : FC) (a : Abs) (hh : fc.held = false) (I : FI fc) (r : Ref fc a)
    (t : Root) (j f : Checkpoint) (b : Option (List Nat)) (hlog : fc.pa.sinkLog = []) :
    Final' (a.updateJustified t j f b) (fc.updateJustified t j f b) := by
  rw [updateJustified_unfold]
  apply final_withLock' fc hh
  exact ujBody_outcome' hp (fc := { fc with held := true }) ⟨rfl, hlog, I, ref_held r true⟩ t j f b

end Zrnt.ForkChoice.RefJ

namespace Zrnt.ForkChoice
open Spec FC

/-- `UpdateJustified` in general (the finalized checkpoint may move, and then the array is pruned): the model and
the specification accept or refuse together, stay related, and the specification's answer lists exactly the sink
calls the model made. The behaviour of `OnPrune` itself is the hypothesis `RefJ.PruneOK`. -/
theorem ref_updateJustified_full (hp : RefJ.PruneOK) (fc : FC) (a : Abs) (hh : fc.held = false) (I : FI fc)
    (r : Ref fc a) (t : Root) (j f : Checkpoint) (b : Option (List Nat)) (hlog : fc.pa.sinkLog = []) :
    match fc.updateJustified t j f b with
    | .ok fc' _ => fc'.held = false ∧ FI fc' ∧ Ref fc' (a.updateJustified t j f b).1 ∧
        (a.updateJustified t j f b).2 =
          Ans.justify true (sinkReport fc'.pa.sinkLog).1 (sinkReport fc'.pa.sinkLog).2
    | .err fc' => fc'.held = false ∧ FI fc' ∧ Ref fc' (a.updateJustified t j f b).1 ∧
        (a.updateJustified t j f b).2 =
          Ans.justify false (sinkReport fc'.pa.sinkLog).1 (sinkReport fc'.pa.sinkLog).2
    | _ => False := by
  have h := RefJ.final_updateJustified' hp fc a hh I r t j f b hlog
  revert h
  cases fc.updateJustified t j f b with
  | ok s u => exact fun h => h
  | err s => exact fun h => h
  | panic => exact fun h => h
  | blocked => exact fun h => h

end Zrnt.ForkChoice

/-! ## non-vacuity (on `refExFC2`/`refExAbs2`: anchor `(0,1)`, empty-slot node `(1,1)`, block `2` at slot `1`,
pin `(0,1)`, sink absent) -/
namespace Zrnt.ForkChoice
open Spec FC

/-- the conclusion of `RefJ.PruneOK` holds in full on an instance satisfying its premises (pruning at the
anchor: nothing is outside, both sides leave their state alone and succeed) -/
example : FI refExFC2 ∧ Ref refExFC2 refExAbs2 ∧ (∀ v ∈ refExFC2.votes, v.cur = v.next) ∧
    refExFC2.pa.sinkLog = [] ∧
    match refExFC2.pa.onPrune 1 0 with
    | .ok s _ => FI { refExFC2 with pa := s } ∧ Ref { refExFC2 with pa := s } (refExAbs2.prune ⟨0, 1⟩).1 ∧
        (refExAbs2.prune ⟨0, 1⟩).2.2.2 = true ∧
        sinkReport s.sinkLog = ((refExAbs2.prune ⟨0, 1⟩).2.1, (refExAbs2.prune ⟨0, 1⟩).2.2.1)
    | .err s => FI { refExFC2 with pa := s } ∧ Ref { refExFC2 with pa := s } (refExAbs2.prune ⟨0, 1⟩).1 ∧
        (refExAbs2.prune ⟨0, 1⟩).2.2.2 = false ∧
        sinkReport s.sinkLog = ((refExAbs2.prune ⟨0, 1⟩).2.1, (refExAbs2.prune ⟨0, 1⟩).2.2.1)
    | _ => False := by
  refine ⟨RefOps.refEx2_fi, refEx2_ref, fun v hv => (by cases hv), rfl, ?_⟩
  have e1 : refExFC2.pa.onPrune 1 0 = .ok refExFC2.pa () := rfl
  have e2 : refExAbs2.prune ⟨0, 1⟩ = (refExAbs2, [], none, true) := rfl
  rw [e1, e2]
  exact ⟨RefOps.refEx2_fi, refEx2_ref, rfl, rfl⟩

/-- its checkable part on a call that really prunes (at block `2`: the anchor and the empty-slot node go away on
both sides, the block loses its parents, both succeed, the absent sink reports nothing) -/
example : ∃ s, refExFC2.pa.onPrune 2 1 = .ok s () ∧ s.nodes.length = 1 ∧
    absNodes s.nodes = (refExAbs2.prune ⟨1, 2⟩).1.nodes ∧ (refExAbs2.prune ⟨1, 2⟩).2.2.2 = true ∧
    sinkReport s.sinkLog = ((refExAbs2.prune ⟨1, 2⟩).2.1, (refExAbs2.prune ⟨1, 2⟩).2.2.1) :=
  ⟨_, rfl, by decide⟩

/-- the other hypotheses of `ref_updateJustified_full` hold together, for an update that moves the finalized
checkpoint (to block `2`, epoch 1); the specification accepts it, moves the checkpoint and drops the pin -/
example : refExFC2.held = false ∧ FI refExFC2 ∧ Ref refExFC2 refExAbs2 ∧ refExFC2.pa.sinkLog = [] ∧
    (⟨1, 2⟩ : Checkpoint) ≠ refExFC2.finalized ∧
    (refExAbs2.updateJustified 1 ⟨1, 2⟩ ⟨1, 2⟩ (some [32, 32])).2 = .justify true [] none ∧
    (refExAbs2.updateJustified 1 ⟨1, 2⟩ ⟨1, 2⟩ (some [32, 32])).1.finalized = ⟨1, 2⟩ ∧
    (refExAbs2.updateJustified 1 ⟨1, 2⟩ ⟨1, 2⟩ (some [32, 32])).1.pin = none ∧
    (refExAbs2.updateJustified 1 ⟨1, 2⟩ ⟨1, 7⟩ (some [32, 32])).2 = .justify false [] none :=
  ⟨rfl, RefOps.refEx2_fi, refEx2_ref, rfl, by decide, by decide, by decide, by decide, by decide⟩

/-- and then the theorem says something: given the prune lemma, the model accepts as well, moves its checkpoint,
drops its pin and stays related -/
example (hp : RefJ.PruneOK) : ∃ fc', refExFC2.updateJustified 1 ⟨1, 2⟩ ⟨1, 2⟩ (some [32, 32]) = .ok fc' () ∧
    fc'.held = false ∧ FI fc' ∧ Ref fc' (refExAbs2.updateJustified 1 ⟨1, 2⟩ ⟨1, 2⟩ (some [32, 32])).1 ∧
    fc'.finalized = ⟨1, 2⟩ ∧ fc'.pin = none := by
  have h := ref_updateJustified_full hp refExFC2 refExAbs2 rfl RefOps.refEx2_fi refEx2_ref 1 ⟨1, 2⟩ ⟨1, 2⟩
    (some [32, 32]) rfl
  have hs : (refExAbs2.updateJustified 1 ⟨1, 2⟩ ⟨1, 2⟩ (some [32, 32])).2 = .justify true [] none := by decide
  have hf : (refExAbs2.updateJustified 1 ⟨1, 2⟩ ⟨1, 2⟩ (some [32, 32])).1.finalized = ⟨1, 2⟩ := by decide
  have hn : (refExAbs2.updateJustified 1 ⟨1, 2⟩ ⟨1, 2⟩ (some [32, 32])).1.pin = none := by decide
  revert h
  cases refExFC2.updateJustified 1 ⟨1, 2⟩ ⟨1, 2⟩ (some [32, 32]) with
  | ok s u =>
    exact fun h => ⟨s, rfl, h.1, h.2.1, h.2.2.1, h.2.2.1.finalized.symm.trans hf, h.2.2.1.pin.symm.trans hn⟩
  | err s => intro h; rw [hs] at h; cases h.2.2.2
  | panic => exact fun h => h.elim
  | blocked => exact fun h => h.elim

end Zrnt.ForkChoice
