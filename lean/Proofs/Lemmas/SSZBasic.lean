import Zrnt.SSZ.Basic
/-! Little-endian number and bitfield lemmas of the generic SSZ model. -/
namespace Zrnt.Proofs.SSZ
open Zrnt.SSZ

theorem natToLE_length (k n : Nat) : (natToLE k n).length = k := by
  induction k generalizing n with
  | zero => rfl
  | succ k ih => simp [natToLE, ih]

theorem leToNat_lt (bs : Bytes) : leToNat bs < 256 ^ bs.length := by
  induction bs with
  | nil => simp [leToNat]
  | cons b r ih =>
    have hb : b.toNat < 256 := by have := UInt8.toNat_lt b; omega
    simp only [leToNat, List.length_cons, Nat.pow_succ]
    omega

theorem leToNat_natToLE (k n : Nat) (h : n < 256 ^ k) : leToNat (natToLE k n) = n := by
  induction k generalizing n with
  | zero => simp at h; subst h; rfl
  | succ k ih =>
    have h2 : n / 256 < 256 ^ k := by
      rw [Nat.pow_succ] at h
      exact Nat.div_lt_of_lt_mul (by rw [Nat.mul_comm]; exact h)
    simp only [natToLE, leToNat, ih _ h2]
    have : (UInt8.ofNat (n % 256)).toNat = n % 256 := by
      simp [UInt8.toNat_ofNat']
    rw [this]; omega

theorem natToLE_leToNat (bs : Bytes) : natToLE bs.length (leToNat bs) = bs := by
  induction bs with
  | nil => rfl
  | cons b r ih =>
    have hb : b.toNat < 256 := by have := UInt8.toNat_lt b; omega
    simp only [List.length_cons, leToNat, natToLE]
    have h1 : (b.toNat + 256 * leToNat r) % 256 = b.toNat := by omega
    have h2 : (b.toNat + 256 * leToNat r) / 256 = leToNat r := by omega
    rw [h1, h2, ih]
    simp

theorem natToBits_length (k n : Nat) : (natToBits k n).length = k := by
  induction k generalizing n with
  | zero => rfl
  | succ k ih => simp [natToBits, ih]

theorem bitsToNat_lt (bs : List Bool) : bitsToNat bs < 2 ^ bs.length := by
  induction bs with
  | nil => simp [bitsToNat]
  | cons b r ih =>
    simp only [bitsToNat, List.length_cons, Nat.pow_succ]
    cases b <;> simp <;> omega

theorem natToBits_bitsToNat (bs : List Bool) : natToBits bs.length (bitsToNat bs) = bs := by
  induction bs with
  | nil => rfl
  | cons b r ih =>
    simp only [List.length_cons, bitsToNat, natToBits]
    have h1 : (b.toNat + 2 * bitsToNat r) / 2 = bitsToNat r := by cases b <;> simp <;> omega
    have h2 : ((b.toNat + 2 * bitsToNat r) % 2 == 1) = b := by cases b <;> simp <;> omega
    rw [h1, h2, ih]

theorem bitsToNat_natToBits (k n : Nat) : bitsToNat (natToBits k n) = n % 2 ^ k := by
  induction k generalizing n with
  | zero => simp [natToBits, bitsToNat, Nat.mod_one]
  | succ k ih =>
    simp only [natToBits, bitsToNat, ih, Nat.pow_succ]
    have : (n % 2 == 1).toNat = n % 2 := by
      rcases Nat.mod_two_eq_zero_or_one n with h | h <;> simp [h]
    rw [this]
    have := Nat.mod_mul_left_div_self n 2 (2 ^ k)
    have h3 : n % (2 ^ k * 2) = n % 2 + 2 * (n / 2 % 2 ^ k) := by
      rw [Nat.mul_comm, Nat.mod_mul]
    omega

/-- bits above position `k` do not influence the low `k` bits -/
theorem natToBits_add_mul (k a b : Nat) : natToBits k (a + 2 ^ k * b) = natToBits k a := by
  induction k generalizing a b with
  | zero => rfl
  | succ k ih =>
    have e : 2 ^ (k + 1) * b = 2 * (2 ^ k * b) := by
      rw [Nat.pow_succ, Nat.mul_comm (2 ^ k) 2, Nat.mul_assoc]
    have h1 : (a + 2 ^ (k + 1) * b) % 2 = a % 2 := by rw [e]; omega
    have h2 : (a + 2 ^ (k + 1) * b) / 2 = a / 2 + 2 ^ k * b := by rw [e]; omega
    simp only [natToBits, h1, h2, ih]

theorem bitsToNat_append (xs ys : List Bool) :
    bitsToNat (xs ++ ys) = bitsToNat xs + 2 ^ xs.length * bitsToNat ys := by
  induction xs with
  | nil => simp [bitsToNat]
  | cons b r ih =>
    simp only [List.cons_append, bitsToNat, ih, List.length_cons, Nat.pow_succ]
    rw [Nat.mul_add, Nat.mul_comm (2 ^ r.length) 2, Nat.mul_assoc]
    omega

theorem bitsToNat_snoc_true (bs : List Bool) : bitsToNat (bs ++ [true]) = bitsToNat bs + 2 ^ bs.length := by
  rw [bitsToNat_append]; simp [bitsToNat]

theorem mapOpt_eq_some_length {α β : Type} (f : α → Option β) (as : List α) (bs : List β)
    (h : mapOpt f as = some bs) : bs.length = as.length := by
  induction as generalizing bs with
  | nil => simp [mapOpt] at h; subst h; rfl
  | cons a r ih =>
    simp only [mapOpt] at h
    split at h
    · rename_i b bs' h1 h2
      simp at h; subst h
      simp [ih _ h2]
    · simp at h

end Zrnt.Proofs.SSZ
