import Zrnt.ForkChoice.Spec
/-!
# The specification's exact prune (`Spec.Abs.prune`) and its head walk: what they return

Facts about the executable specification alone (no model): which nodes `prune` keeps, what it tells the
sink, when it fails, which fields it leaves alone; the head returned by `headFrom` is a node of the state, so
after a successful prune it lies in the finalized subtree.
-/
namespace Zrnt.ForkChoice.Spec.Abs
open Zrnt.ForkChoice

/-- the nodes outside the finalized subtree of `anchor` -/
def outsideOf (a : Abs) (anchor : NodeRef) : List SNode :=
  a.nodes.filter (fun n => !a.inFinalized anchor a.fuel n.ref)

/-- what the sink is told about them -/
def reportsOf (a : Abs) (anchor : NodeRef) : List (NodeRef × Bool) :=
  (a.outsideOf anchor).map (fun n => (n.ref, a.tAncestorOrSelf n.ref a.fuel anchor))

/-- the reports a sink of kind `s` accepts -/
def sinkSent (s : SinkKind) (reports : List (NodeRef × Bool)) : List (NodeRef × Bool) :=
  match s with
  | .absent => reports
  | .recording => reports
  | .failAt k => reports.take k

/-- the report at which a sink of kind `s` fails -/
def sinkFailed (s : SinkKind) (reports : List (NodeRef × Bool)) : Option (NodeRef × Bool) :=
  match s with
  | .absent => none
  | .recording => none
  | .failAt k => reports[k]?

/-- the new parents of a node that stays -/
def reparent (left : Abs) (gone : List NodeRef) (n : SNode) : SNode :=
  let tp := match n.tparent with | some p => if gone.contains p then none else some p | none => none
  let fp := match n.fparent with
    | some p =>
      if gone.contains p then
        (if n.isBlock then
          match left.firstSlot n.parentRoot with
          | some s => if s < n.ref.slot then some ⟨s, n.parentRoot⟩ else none
          | none => none
         else none)
      else some p
    | none => none
  { n with tparent := tp, fparent := fp }

theorem reparent_ref (left : Abs) (gone : List NodeRef) (n : SNode) : (reparent left gone n).ref = n.ref := rfl

/-- the refs that go -/
def goneOf (a : Abs) (anchor : NodeRef) : List NodeRef := (a.reportsOf anchor).map (·.1)

/-- the nodes that stay, before they get their new parents -/
def keepOf (a : Abs) (anchor : NodeRef) : List SNode :=
  a.nodes.filter (fun n => !(a.goneOf anchor).contains n.ref)

/-- the nodes that stay -/
def keptOf (a : Abs) (anchor : NodeRef) : List SNode :=
  (a.keepOf anchor).map (reparent { a with nodes := a.keepOf anchor } (a.goneOf anchor))

/-- `prune` at a known anchor, with its local definitions named -/
theorem prune_eq (a : Abs) (anchor : NodeRef) (hhas : a.has anchor = true) :
    a.prune anchor =
      if (sinkFailed a.sink (a.reportsOf anchor)).isSome then
        (a, sinkSent a.sink (a.reportsOf anchor), sinkFailed a.sink (a.reportsOf anchor), false)
      else if (a.goneOf anchor).isEmpty then (a, [], none, true)
      else ({ a with nodes := a.keptOf anchor },
            (if a.sink = .absent then [] else sinkSent a.sink (a.reportsOf anchor)), none, true) := by
  unfold prune
  simp only [hhas, Bool.not_true, Bool.false_eq_true, if_false]
  cases hs : a.sink <;> rfl

/-! ### 1. unknown anchor -/

theorem prune_unknown (a : Abs) (anchor : NodeRef) (h : a.has anchor = false) :
    a.prune anchor = (a, [], none, true) := by
  unfold prune
  simp [h]

/-! ### membership in `goneOf` -/

theorem goneOf_eq (a : Abs) (anchor : NodeRef) : a.goneOf anchor = (a.outsideOf anchor).map (·.ref) := by
  simp [goneOf, reportsOf, List.map_map, Function.comp_def]

theorem gone_contains (a : Abs) (anchor : NodeRef) (n : SNode) (hn : n ∈ a.nodes) :
    (a.goneOf anchor).contains n.ref = !a.inFinalized anchor a.fuel n.ref := by
  rw [goneOf_eq]
  cases hin : a.inFinalized anchor a.fuel n.ref
  · simp only [Bool.not_false, List.contains_iff_mem, List.mem_map]
    refine ⟨n, ?_, rfl⟩
    simp [outsideOf, hn, hin]
  · simp only [Bool.not_true]
    apply Bool.eq_false_iff.mpr
    intro hc
    rw [List.contains_iff_mem, List.mem_map] at hc
    obtain ⟨m, hm, hmr⟩ := hc
    simp only [outsideOf, List.mem_filter, Bool.not_eq_true'] at hm
    rw [hmr, hin] at hm
    exact Bool.noConfusion hm.2

theorem keepOf_eq (a : Abs) (anchor : NodeRef) :
    a.keepOf anchor = a.nodes.filter (fun n => a.inFinalized anchor a.fuel n.ref) := by
  unfold keepOf
  apply List.filter_congr
  intro n hn
  rw [gone_contains a anchor n hn, Bool.not_not]

theorem keptOf_refs (a : Abs) (anchor : NodeRef) :
    (a.keptOf anchor).map (·.ref) = (a.nodes.filter (fun n => a.inFinalized anchor a.fuel n.ref)).map (·.ref) := by
  unfold keptOf
  rw [List.map_map, ← keepOf_eq]
  rfl

theorem gone_empty_all_in (a : Abs) (anchor : NodeRef) (h : (a.goneOf anchor).isEmpty = true) :
    a.nodes.filter (fun n => a.inFinalized anchor a.fuel n.ref) = a.nodes := by
  rw [List.filter_eq_self]
  intro n hn
  have hc := gone_contains a anchor n hn
  rw [List.isEmpty_iff] at h
  rw [h] at hc
  simpa using hc.symm

/-! ### the sink -/

theorem sinkFailed_isSome (s : SinkKind) (r : List (NodeRef × Bool)) (h : (sinkFailed s r).isSome = true) :
    ∃ k, s = .failAt k := by
  cases s with
  | absent => simp [sinkFailed] at h
  | recording => simp [sinkFailed] at h
  | failAt k => exact ⟨k, rfl⟩

theorem sinkSent_of_not_failed (s : SinkKind) (r : List (NodeRef × Bool)) (h : (sinkFailed s r).isSome = false) :
    sinkSent s r = r := by
  cases s with
  | absent => rfl
  | recording => rfl
  | failAt k =>
    simp only [sinkFailed, Option.isSome_eq_false_iff, Option.isNone_iff_eq_none, List.getElem?_eq_none_iff] at h
    simp only [sinkSent]
    exact List.take_of_length_le h

/-! ### 2. 3. failure -/

theorem prune_failed (a : Abs) (anchor : NodeRef) (h : (a.prune anchor).2.2.2 = false) :
    (a.prune anchor).1 = a ∧ ∃ k, a.sink = .failAt k ∧ (a.prune anchor).2.1 = (a.reportsOf anchor).take k ∧
      (a.prune anchor).2.2.1 = (a.reportsOf anchor)[k]? ∧ ((a.reportsOf anchor)[k]?).isSome = true := by
  cases hhas : a.has anchor with
  | false => rw [prune_unknown a anchor hhas] at h; exact Bool.noConfusion h
  | true =>
    rw [prune_eq a anchor hhas] at h ⊢
    by_cases hf : (sinkFailed a.sink (a.reportsOf anchor)).isSome = true
    · rw [if_pos hf]
      obtain ⟨k, hk⟩ := sinkFailed_isSome _ _ hf
      refine ⟨rfl, k, hk, ?_, ?_, ?_⟩
      · simp only [hk, sinkSent]
      · simp only [hk, sinkFailed]
      · simpa only [hk, sinkFailed] using hf
    · rw [if_neg hf] at h
      by_cases he : (a.goneOf anchor).isEmpty = true
      · rw [if_pos he] at h; exact Bool.noConfusion h
      · rw [if_neg he] at h; exact Bool.noConfusion h

theorem prune_ok_failed_none (a : Abs) (anchor : NodeRef) (h : (a.prune anchor).2.2.2 = true) :
    (a.prune anchor).2.2.1 = none := by
  cases hhas : a.has anchor with
  | false => rw [prune_unknown a anchor hhas]
  | true =>
    rw [prune_eq a anchor hhas] at h ⊢
    by_cases hf : (sinkFailed a.sink (a.reportsOf anchor)).isSome = true
    · rw [if_pos hf] at h; exact Bool.noConfusion h
    · rw [if_neg hf]
      by_cases he : (a.goneOf anchor).isEmpty = true
      · rw [if_pos he]
      · rw [if_neg he]

/-! ### 4. what stays -/

theorem prune_refs (a : Abs) (anchor : NodeRef) (hhas : a.has anchor = true) (h : (a.prune anchor).2.2.2 = true) :
    (a.prune anchor).1.nodes.map (·.ref) =
      (a.nodes.filter (fun n => a.inFinalized anchor a.fuel n.ref)).map (·.ref) := by
  rw [prune_eq a anchor hhas] at h ⊢
  by_cases hf : (sinkFailed a.sink (a.reportsOf anchor)).isSome = true
  · rw [if_pos hf] at h; exact Bool.noConfusion h
  · rw [if_neg hf]
    by_cases he : (a.goneOf anchor).isEmpty = true
    · rw [if_pos he, gone_empty_all_in a anchor he]
    · rw [if_neg he]
      exact keptOf_refs a anchor

/-! ### 5. what the sink is told -/

theorem prune_sent (a : Abs) (anchor : NodeRef) (hhas : a.has anchor = true) (h : (a.prune anchor).2.2.2 = true)
    (hs : a.sink ≠ .absent) : (a.prune anchor).2.1 = a.reportsOf anchor := by
  rw [prune_eq a anchor hhas] at h ⊢
  by_cases hf : (sinkFailed a.sink (a.reportsOf anchor)).isSome = true
  · rw [if_pos hf] at h; exact Bool.noConfusion h
  · rw [if_neg hf]
    by_cases he : (a.goneOf anchor).isEmpty = true
    · rw [if_pos he]
      rw [List.isEmpty_iff] at he
      simp only [goneOf, List.map_eq_nil_iff] at he
      rw [he]
    · rw [if_neg he]
      simp only [if_neg hs]
      exact sinkSent_of_not_failed _ _ (by simpa using hf)

theorem prune_sent_absent (a : Abs) (anchor : NodeRef) (hs : a.sink = .absent) : (a.prune anchor).2.1 = [] := by
  cases hhas : a.has anchor with
  | false => rw [prune_unknown a anchor hhas]
  | true =>
    rw [prune_eq a anchor hhas]
    have hf : ¬ (sinkFailed a.sink (a.reportsOf anchor)).isSome = true := by simp [hs, sinkFailed]
    rw [if_neg hf]
    by_cases he : (a.goneOf anchor).isEmpty = true
    · rw [if_pos he]
    · rw [if_neg he]
      simp only [if_pos hs]

/-- with an absent sink the call cannot fail -/
theorem prune_absent_ok (a : Abs) (anchor : NodeRef) (hs : a.sink = .absent) : (a.prune anchor).2.2.2 = true := by
  cases h : (a.prune anchor).2.2.2 with
  | true => rfl
  | false =>
    obtain ⟨_, k, hk, _⟩ := prune_failed a anchor h
    rw [hs] at hk
    exact SinkKind.noConfusion hk

/-! ### 6. the other fields -/

theorem prune_other_fields (a : Abs) (anchor : NodeRef) :
    let b := (a.prune anchor).1
    b.spe = a.spe ∧ b.votes = a.votes ∧ b.balances = a.balances ∧ b.justified = a.justified ∧
      b.finalized = a.finalized ∧ b.pin = a.pin ∧ b.sink = a.sink ∧ b.poisoned = a.poisoned := by
  intro b
  have hb : b = a ∨ b = { a with nodes := a.keptOf anchor } := by
    show (a.prune anchor).1 = a ∨ (a.prune anchor).1 = { a with nodes := a.keptOf anchor }
    cases hhas : a.has anchor with
    | false => rw [prune_unknown a anchor hhas]; exact Or.inl rfl
    | true =>
      rw [prune_eq a anchor hhas]
      by_cases hf : (sinkFailed a.sink (a.reportsOf anchor)).isSome = true
      · rw [if_pos hf]; exact Or.inl rfl
      · rw [if_neg hf]
        by_cases he : (a.goneOf anchor).isEmpty = true
        · rw [if_pos he]; exact Or.inl rfl
        · rw [if_neg he]; exact Or.inr rfl
  cases hb with
  | inl e => rw [e]; exact ⟨rfl, rfl, rfl, rfl, rfl, rfl, rfl, rfl⟩
  | inr e => rw [e]; exact ⟨rfl, rfl, rfl, rfl, rfl, rfl, rfl, rfl⟩

/-! ### 7. 8. the walk stays in the node list -/

theorem better_eq (a : Abs) (x y : SNode) : a.better x y = x ∨ a.better x y = y := by
  unfold better
  simp only
  split
  · exact Or.inr rfl
  · exact Or.inl rfl

theorem foldl_better_mem (a : Abs) (xs : List SNode) (x : SNode) :
    xs.foldl (better a) x = x ∨ xs.foldl (better a) x ∈ xs := by
  induction xs generalizing x with
  | nil => exact Or.inl rfl
  | cons y ys ih =>
    rw [List.foldl_cons]
    cases ih (a.better x y) with
    | inl e =>
      rw [e]
      cases better_eq a x y with
      | inl e' => exact Or.inl e'
      | inr e' => rw [e']; exact Or.inr (List.mem_cons_self ..)
    | inr m => exact Or.inr (List.mem_cons_of_mem _ m)

theorem best_mem (a : Abs) (l : List SNode) (c : SNode) (h : a.best l = some c) : c ∈ l := by
  cases l with
  | nil => simp [best] at h
  | cons x xs =>
    simp only [best, Option.some.injEq] at h
    rw [← h]
    cases foldl_better_mem a xs x with
    | inl e => rw [e]; exact List.mem_cons_self ..
    | inr m => exact List.mem_cons_of_mem _ m

theorem children_sub (a : Abs) (r : NodeRef) (c : SNode) (h : c ∈ a.children r) : c ∈ a.nodes :=
  (List.mem_filter.mp h).1

theorem ghost_mem (a : Abs) (fuel : Nat) (n : SNode) (hn : n ∈ a.nodes) : a.ghost fuel n ∈ a.nodes := by
  induction fuel generalizing n with
  | zero => exact hn
  | succ f ih =>
    simp only [ghost]
    cases hb : a.best ((a.children n.ref).filter (a.leads a.fuel)) with
    | none => exact hn
    | some c =>
      simp only
      exact ih c (children_sub a n.ref c (List.mem_filter.mp (best_mem a _ c hb)).1)

theorem find_mem (a : Abs) (r : NodeRef) (n : SNode) (h : a.find r = some n) : n ∈ a.nodes ∧ n.ref = r := by
  unfold find at h
  refine ⟨List.mem_of_find?_eq_some h, ?_⟩
  simpa using List.find?_some h

theorem headFrom_mem (a : Abs) (start h : NodeRef) (e : a.headFrom start = some h) :
    ∃ n ∈ a.nodes, n.ref = h := by
  unfold headFrom at e
  cases hf : a.find start with
  | none => rw [hf] at e; cases e
  | some n =>
    rw [hf] at e
    simp only at e
    by_cases hv : a.viable (a.ghost a.fuel n) = true
    · rw [if_pos hv] at e
      exact ⟨a.ghost a.fuel n, ghost_mem a a.fuel n (find_mem a start n hf).1, Option.some.inj e⟩
    · rw [if_neg hv] at e
      cases e

/-! ### 9. after a successful prune the head lies in the finalized subtree -/

theorem head_in_finalized (a : Abs) (anchor start h : NodeRef) (hhas : a.has anchor = true)
    (hok : (a.prune anchor).2.2.2 = true) (e : (a.prune anchor).1.headFrom start = some h) :
    a.inFinalized anchor a.fuel h = true := by
  obtain ⟨n, hn, hr⟩ := headFrom_mem _ start h e
  have hm : h ∈ (a.prune anchor).1.nodes.map (·.ref) := List.mem_map.mpr ⟨n, hn, hr⟩
  rw [prune_refs a anchor hhas hok, List.mem_map] at hm
  obtain ⟨m, hm, hmr⟩ := hm
  rw [← hmr]
  exact (List.mem_filter.mp hm).2

/-! ### 10. non-vacuity: a small tree -/

/-- anchor `(0,1)`; block 2 at slot 1 under it (through the empty-slot node `(1,1)`), block 3 at slot 2 under 2
(through `(2,2)`), a sibling block 4 at slot 1 under the anchor -/
def exNodes : List SNode :=
  [SNode.mk ⟨0, 1⟩ 0 none none 0 0,
   SNode.mk ⟨1, 1⟩ 1 (some ⟨0, 1⟩) (some ⟨0, 1⟩) 0 0,
   SNode.mk ⟨1, 2⟩ 1 (some ⟨1, 1⟩) (some ⟨0, 1⟩) 0 0,
   SNode.mk ⟨2, 2⟩ 2 (some ⟨1, 2⟩) (some ⟨1, 2⟩) 0 0,
   SNode.mk ⟨2, 3⟩ 2 (some ⟨2, 2⟩) (some ⟨1, 2⟩) 0 0,
   SNode.mk ⟨1, 4⟩ 1 (some ⟨1, 1⟩) (some ⟨0, 1⟩) 0 0]

def exAbs (sink : SinkKind) : Abs :=
  Abs.mk 8 exNodes [] [] ⟨0, 1⟩ ⟨0, 1⟩ none sink false

/-- the same tree, built by the specification's own insertions -/
example : (Abs.init 8 1 0 0 ⟨0, 1⟩ ⟨0, 1⟩ .recording []).map
    (fun a => (((a.processBlock 1 2 1 0 0).1.processBlock 2 3 2 0 0).1.processBlock 1 4 1 0 0).1.nodes) =
    some exNodes := by decide +kernel

example : ((exAbs .recording).prune ⟨1, 2⟩).2 =
    ([(⟨0, 1⟩, true), (⟨1, 1⟩, true), (⟨1, 4⟩, false)], none, true) := by decide +kernel

example : ((exAbs .recording).prune ⟨1, 2⟩).1.nodes.map (·.ref) = [⟨1, 2⟩, ⟨2, 2⟩, ⟨2, 3⟩] := by decide +kernel

example : (exAbs .recording).reportsOf ⟨1, 2⟩ = [(⟨0, 1⟩, true), (⟨1, 1⟩, true), (⟨1, 4⟩, false)] := by
  decide +kernel

/-- the anchor loses its parents -/
example : ((exAbs .recording).prune ⟨1, 2⟩).1.nodes.head? = some (SNode.mk ⟨1, 2⟩ 1 none none 0 0) := by
  decide +kernel

example : ((exAbs .absent).prune ⟨1, 2⟩).2 = ([], none, true) := by decide +kernel

example : ((exAbs (.failAt 0)).prune ⟨1, 2⟩).2 = ([], some (⟨0, 1⟩, true), false) := by decide +kernel

example : ((exAbs (.failAt 1)).prune ⟨1, 2⟩).2 = ([(⟨0, 1⟩, true)], some (⟨1, 1⟩, true), false) := by
  decide +kernel

example : ((exAbs (.failAt 1)).prune ⟨1, 2⟩).1.nodes = exNodes := by decide +kernel

/-- a sink that would fail at a call that does not happen -/
example : ((exAbs (.failAt 3)).prune ⟨1, 2⟩).2 =
    ([(⟨0, 1⟩, true), (⟨1, 1⟩, true), (⟨1, 4⟩, false)], none, true) := by decide +kernel

/-- nothing to drop -/
example : ((exAbs (.failAt 0)).prune ⟨0, 1⟩).2 = ([], none, true) := by decide +kernel

/-- unknown anchor -/
example : ((exAbs (.failAt 0)).prune ⟨5, 5⟩).2 = ([], none, true) := by decide +kernel

/-- the head after the prune -/
example : ((exAbs .recording).prune ⟨1, 2⟩).1.headFrom ⟨1, 2⟩ = some ⟨2, 3⟩ := by decide +kernel

end Zrnt.ForkChoice.Spec.Abs
