import Proofs.Lemmas.ForkChoiceW0Links
import Proofs.Lemmas.ForkChoicePrune
/-!
# Fork choice: `ProtoArray.OnPrune` keeps the weak invariant `WF0` — without any closedness hypothesis

`Prune.wf_pruned` (ForkChoicePrune.lean) needs that the fork-choice children of the nodes that stay stay, which only
holds for arrays built by well-placed insertions. For `WF0` nothing of the kind is needed: after the compaction a
best link is either `NONE` or the new position of a node that stays, hence inside the compacted array.
The lemmas on `keepFlags`, `newIndex`, `renumber`, `compact`, `rebuildIndices`, `rebuildBlockSlots`, `reparent`
are reused from ForkChoicePrune.lean; the few statements that assumed `WF` there are restated for `WF0`.
-/
namespace Zrnt.ForkChoice
namespace W0
open Prune

/-- the nodes that stay have pairwise distinct references -/
theorem compact_distinct {pr : PA} (h : WF0 pr) (keep : List Bool) (hl : keep.length = pr.nodes.length) :
    DistinctRefs (PA.compact 0 keep 0 pr.nodes) := by
  intro j j' m m' hm hm' e
  obtain ⟨i, n, hn, _, rfl, rfl⟩ := compact_inv keep pr.nodes hl hm
  obtain ⟨i', n', hn', _, rfl, rfl⟩ := compact_inv keep pr.nodes hl hm'
  simp only [renum_ref] at e
  have h1 := h.idx_complete i n hn
  have h2 := h.idx_complete i' n' hn'
  rw [e, h2] at h1
  cases h1; rfl

theorem pruned_tpar_lt {pr : PA} (h : WF0 pr) (keep : List Bool) (hl : keep.length = pr.nodes.length)
    (l : List (NodeRef × Bool × Bool)) (i : Nat) (n : Node) (p : Nat)
    (hn : (pruned pr keep l).nodes[i]? = some n) (hp : n.tparent = some p) : p < i := by
  obtain ⟨i0, n0, hn0, hk, rfl, hr⟩ := pruned_node_inv keep hl l hn
  rw [hr.tparent, renum_tparent] at hp
  obtain ⟨x, hx, hkx, rfl⟩ := (renumber_some_iff keep _ p).1 hp
  exact newIndex_lt keep hkx (h.tpar_lt i0 n0 x hn0 hx)

theorem pruned_fpar_lt {pr : PA} (h : WF0 pr) (keep : List Bool) (hl : keep.length = pr.nodes.length)
    (l : List (NodeRef × Bool × Bool)) (i : Nat) (n : Node) (p : Nat)
    (hn : (pruned pr keep l).nodes[i]? = some n) (hp : n.fparent = some p) : p < i := by
  obtain ⟨i0, n0, hn0, hk, rfl, hr⟩ := pruned_node_inv keep hl l hn
  rcases hr.fparent with e | ⟨_, _, ps, q, _, _, _, hq, e⟩
  · rw [e, renum_fparent] at hp
    obtain ⟨x, hx, hkx, rfl⟩ := (renumber_some_iff keep _ p).1 hp
    exact newIndex_lt keep hkx (h.fpar_lt i0 n0 x hn0 hx)
  · rw [e] at hp; cases hp; exact hq

/-- the array after an effective prune satisfies `WF0` — no closedness hypothesis -/
theorem wf0_pruned {pr : PA} (h : WF0 pr) (keep : List Bool) (hl : keep.length = pr.nodes.length)
    (l : List (NodeRef × Bool × Bool)) : WF0 (pruned pr keep l) := by
  have hd := compact_distinct h keep hl
  have hlen : (pruned pr keep l).nodes.length = (PA.compact 0 keep 0 pr.nodes).length := by
    rw [pruned_nodes]; exact (reparent_spec _ _ _ _).1
  refine ⟨h.off, ?_, ?_, ?_, pruned_tpar_lt h keep hl l, pruned_fpar_lt h keep hl l, ?_, ?_, ?_⟩
  · -- len
    rw [hlen, pruned_indices, rebuildIndices_length0 _ hd]
  · -- idx_sound
    intro ref i hi
    rw [pruned_indices] at hi
    obtain ⟨m, hm, e⟩ := (rebuildIndices_iff _ hd ref i).1 hi
    obtain ⟨n, hn, hr⟩ := (reparent_spec (pruned pr keep l).indices (pruned pr keep l).blockSlots _
      (PA.compact 0 keep 0 pr.nodes).length).2 i m hm
    exact ⟨n, hn, by rw [hr.ref, e]⟩
  · -- idx_complete
    intro i n hn
    rw [pruned_nodes] at hn
    obtain ⟨m, hm, hr⟩ := reparent_spec_inv _ _ _ _ hn
    rw [pruned_indices]
    exact (rebuildIndices_iff _ hd n.ref i).2 ⟨m, hm, hr.ref.symm⟩
  · -- bc_lt
    intro i n c hn hc
    obtain ⟨i0, n0, hn0, hk, rfl, hr⟩ := pruned_node_inv keep hl l hn
    rw [hr.bestChild, renum_bestChild] at hc
    obtain ⟨c0, hc0, hkc, rfl⟩ := (renumber_some_iff keep _ c).1 hc
    rw [pruned_length keep hl l]; exact newIndex_lt_count keep hkc
  · -- bd_lt
    intro i n d hn hdd
    obtain ⟨i0, n0, hn0, hk, rfl, hr⟩ := pruned_node_inv keep hl l hn
    rw [hr.bestDesc, renum_bestDesc] at hdd
    obtain ⟨d0, hd0, hkd, rfl⟩ := (renumber_some_iff keep _ d).1 hdd
    rw [pruned_length keep hl l]; exact newIndex_lt_count keep hkd
  · -- bs_node
    intro root s hs
    rw [pruned_blockSlots] at hs
    rcases rebuildBlockSlots_sound _ root _ [] s hs with e | ⟨_, k, m, hm, e⟩
    · cases e
    · rw [pruned_indices, (rebuildIndices_iff _ hd ⟨s, root⟩ k).2 ⟨m, hm, e⟩]; rfl

/-- `OnPrune` on an array satisfying `WF0` whose anchor sits at position `a`, as one equation -/
theorem onPrune_eq (pr : PA) (h : WF0 pr) (root : Root) (slot a : Nat)
    (ha : aGet pr.indices ⟨slot, root⟩ = some a) :
    ∃ an, pr.nodes[a]? = some an ∧ an.ref = ⟨slot, root⟩ ∧
      pr.onPrune root slot =
        if (PA.sinkLoop (triples pr a slot an) pr).2 = false then
          .err { pr with sinkLog := (PA.sinkLoop (triples pr a slot an) pr).1.sinkLog }
        else if (PA.keepFlags 0 a slot pr.nodes []).count false = 0 then
          .ok { pr with sinkLog := (PA.sinkLoop (triples pr a slot an) pr).1.sinkLog } ()
        else .ok (pruned pr (PA.keepFlags 0 a slot pr.nodes []) (PA.sinkLoop (triples pr a slot an) pr).1.sinkLog) () := by
  obtain ⟨an, han, hr⟩ := h.idx_sound _ _ ha
  refine ⟨an, han, hr, ?_⟩
  have hg : pr.getNode a = some an := by rw [getNode_eq h]; exact han
  have hoff := h.off
  obtain ⟨sink, sinkLog, offset, jE, fE, nodes, indices, blockSlots, updated⟩ := pr
  simp only at hoff han ha hg
  subst hoff
  unfold PA.onPrune
  simp only [ha, hg, Nat.sub_zero]
  have hfr := sinkLoop_frame (triples ⟨sink, sinkLog, 0, jE, fE, nodes, indices, blockSlots, updated⟩ a slot an)
    ⟨sink, sinkLog, 0, jE, fE, nodes, indices, blockSlots, updated⟩
  unfold triples at hfr ⊢
  simp only at hfr ⊢
  generalize PA.sinkLoop _ _ = out at hfr ⊢
  obtain ⟨pr1, b⟩ := out
  obtain ⟨s1, l1, o1, j1, f1, n1, i1, b1, u1⟩ := pr1
  simp only [PA.mk.injEq] at hfr
  obtain ⟨rfl, -, rfl, rfl, rfl, rfl, rfl, rfl, rfl⟩ := hfr
  cases b with
  | false => rfl
  | true => rfl

/-- The four shapes of the outcome of `OnPrune` on an array satisfying `WF0`: anchor unknown (nothing happens); the
sink failed (only `sinkLog` differs); nothing to drop (only `sinkLog` differs); pruned (`Prune.pruned`). -/
theorem onPrune_cases (pr : PA) (h : WF0 pr) (root : Root) (slot : Nat) :
    (aGet pr.indices ⟨slot, root⟩ = none ∧ pr.onPrune root slot = .ok pr ()) ∨
    ∃ a, aGet pr.indices ⟨slot, root⟩ = some a ∧ ∃ l,
      pr.onPrune root slot = .err { pr with sinkLog := l } ∨
      ((PA.keepFlags 0 a slot pr.nodes []).count false = 0 ∧
        pr.onPrune root slot = .ok { pr with sinkLog := l } ()) ∨
      ((PA.keepFlags 0 a slot pr.nodes []).count false ≠ 0 ∧
        pr.onPrune root slot = .ok (Prune.pruned pr (PA.keepFlags 0 a slot pr.nodes []) l) ()) := by
  cases ha : aGet pr.indices ⟨slot, root⟩ with
  | none => left; refine ⟨rfl, ?_⟩; unfold PA.onPrune; rw [ha]
  | some a =>
    right
    obtain ⟨an, _, _, e⟩ := onPrune_eq pr h root slot a ha
    refine ⟨a, rfl, (PA.sinkLoop (triples pr a slot an) pr).1.sinkLog, ?_⟩
    rw [e]
    by_cases c1 : (PA.sinkLoop (triples pr a slot an) pr).2 = false
    · rw [if_pos c1]; exact Or.inl rfl
    · rw [if_neg c1]
      by_cases c2 : (PA.keepFlags 0 a slot pr.nodes []).count false = 0
      · rw [if_pos c2]; exact Or.inr (Or.inl ⟨c2, rfl⟩)
      · rw [if_neg c2]; exact Or.inr (Or.inr ⟨c2, rfl⟩)

/-- the outcome carries an array satisfying `WF0` -/
def OutWF0 : POut PA Unit → Prop
  | .ok s _ => WF0 s
  | .err s => WF0 s
  | _ => False

/-- **`OnPrune` keeps `WF0`, unconditionally**, and never panics or loops -/
theorem onPrune_outWF0 (pr : PA) (h : WF0 pr) (root : Root) (slot : Nat) : OutWF0 (pr.onPrune root slot) := by
  rcases onPrune_cases pr h root slot with ⟨_, e⟩ | ⟨a, ha, l, e | ⟨_, e⟩ | ⟨_, e⟩⟩
  · rw [e]; exact h
  · rw [e]; exact h.congr rfl rfl rfl rfl
  · rw [e]; exact h.congr rfl rfl rfl rfl
  · rw [e]; exact wf0_pruned h _ (keep_length pr.nodes a slot) l

end W0
end Zrnt.ForkChoice
