import Proofs.Properties.C13
import Proofs.Lemmas.C02Inv
/-! C02 ↔ C13: every state `initialize_beacon_state_from_eth1` returns satisfies the slot-loop invariant `Q`. -/
namespace Zrnt.Proofs.Lemmas
open Zrnt.Beacon Zrnt.Beacon.Spec Zrnt.Beacon.Genesis Zrnt.Proofs.Genesis

/-- the fields the genesis deposits and activations never touch, as `genesisBlank` sets them -/
structure GenFrame (cfg : Config) (s : State) : Prop where
  fork : s.fork = .phase0
  slot : s.slot = GENESIS_SLOT
  bits : s.justification_bits.length = 4
  pj : s.previous_justified_checkpoint.epoch = 0
  cj : s.current_justified_checkpoint.epoch = 0
  fin : s.finalized_checkpoint.epoch = 0
  srlen : s.state_roots.length = cfg.SLOTS_PER_HISTORICAL_ROOT
  brlen : s.block_roots.length = cfg.SLOTS_PER_HISTORICAL_ROOT

variable {cfg : Config} {cp : Bool} {s s' : State} {d : DepositIn}

theorem process_deposit_frame (h : process_deposit cfg cp s d = .ok s') :
    s'.fork = s.fork ∧ s'.slot = s.slot ∧ s'.justification_bits = s.justification_bits ∧
    s'.previous_justified_checkpoint = s.previous_justified_checkpoint ∧
    s'.current_justified_checkpoint = s.current_justified_checkpoint ∧ s'.finalized_checkpoint = s.finalized_checkpoint ∧
    s'.state_roots = s.state_roots ∧ s'.block_roots = s.block_roots := by
  unfold process_deposit at h
  simp only [require, invalid, u64, bind, Except.bind, pure, Except.pure] at h
  split at h
  · cases h
  · split at h
    · cases h
    · rename_i x y z w
      split at w
      · cases w
        split at h
        · split at h <;> (cases h; exact ⟨rfl, rfl, rfl, rfl, rfl, rfl, rfl, rfl⟩)
        · simp only [increase_balance, idx, bind, Except.bind, u64, pure, Except.pure, invalid] at h
          split at h
          · cases h
          · split at h
            · cases h
            · rename_i q r
              split at r
              · cases r; cases h; exact ⟨rfl, rfl, rfl, rfl, rfl, rfl, rfl, rfl⟩
              · cases r
      · cases w

theorem genFrame_step (hp : GenFrame cfg s) (h : process_deposit cfg cp s d = .ok s') : GenFrame cfg s' := by
  obtain ⟨h1, h2, h3, h4, h5, h6, h7, h8⟩ := process_deposit_frame h
  exact ⟨h1.trans hp.fork, h2.trans hp.slot, by rw [h3]; exact hp.bits, by rw [h4]; exact hp.pj, by rw [h5]; exact hp.cj,
    by rw [h6]; exact hp.fin, by rw [h7]; exact hp.srlen, by rw [h8]; exact hp.brlen⟩

theorem genFrame_blank (hash : Bytes) (t n : Nat) : GenFrame cfg (genesisBlank cfg hash t n) :=
  ⟨rfl, rfl, rfl, rfl, rfl, rfl, by simp [genesisBlank], by simp [genesisBlank]⟩

theorem genesis_frame {hash : Bytes} {time : Nat} {deps : List DepositIn}
    (h : initialize_beacon_state_from_eth1 cfg hash time deps cp = .ok s) : GenFrame cfg s := by
  unfold initialize_beacon_state_from_eth1 at h
  simp only [u64, bind, Except.bind, pure, Except.pure] at h
  split at h
  · cases h
  · rename_i t ht
    split at ht
    · cases ht
      split at h
      · cases h
      · rename_i s1 hs1
        cases h
        have := deposits_inv (cfg := cfg) (cp := cp) (GenFrame cfg)
          (fun s r hp => ⟨hp.fork, hp.slot, hp.bits, hp.pj, hp.cj, hp.fin, hp.srlen, hp.brlen⟩)
          (fun s d s' hp hd => genFrame_step hp hd) _ _ _ _ _ (genFrame_blank _ _ _) hs1
        exact ⟨this.fork, this.slot, this.bits, this.pj, this.cj, this.fin, this.srlen, this.brlen⟩
    · cases ht

end Zrnt.Proofs.Lemmas
