import Zrnt.Schema.Denote
import Proofs.Lemmas.SSZHtrSpec
import Proofs.Lemmas.SSZCanonical
import Zrnt.SSZ.Impl
/-! Hand-written hash trees over byte arrays (`BLSPubkey`, `BLSSignature`, `LogsBloom`, `Version`, …): a tree that
passes `htOk` computes the specification's `hash_tree_root` of `Vector[byte, n]`. -/
namespace Zrnt.Proofs.SSZ
open Zrnt.SSZ Zrnt.Schema.Facts

/-- the chunk a leaf stands for: the slice, right-padded with zeros; `none` is a zero chunk -/
def leafVal (bs : Bytes) : Option (Nat × Nat) → Chunk
  | some (lo, hi) => padTo32 ((bs.drop lo).take (hi - lo))
  | none => zeroChunk

theorem ht_leaves_length : ∀ (t : HT) (d : Nat), t.depth? = some d → t.leaves.length = 2 ^ d
  | .leaf _ _, d, h => by simp [HT.depth?] at h; subst h; simp [HT.leaves]
  | .zero, d, h => by simp [HT.depth?] at h; subst h; simp [HT.leaves]
  | .node l r, d, h => by
    simp only [HT.depth?] at h
    cases hl : l.depth? with
    | none => simp [hl] at h
    | some a =>
      cases hr : r.depth? with
      | none => simp [hl, hr] at h
      | some b =>
        simp only [hl, hr] at h
        split at h
        · rename_i hab
          simp only [beq_iff_eq] at hab
          simp only [Option.some.injEq] at h
          subst h; subst hab
          simp [HT.leaves, ht_leaves_length l a hl, ht_leaves_length r a hr, Nat.pow_succ]; omega
        · simp at h

theorem htEval_treeRoot (H : Hash2) (bs : Bytes) : ∀ (t : HT) (d : Nat), t.depth? = some d →
    htEval H bs t = treeRoot H d (t.leaves.map (leafVal bs))
  | .leaf _ _, d, h => by simp [HT.depth?] at h; subst h; simp [htEval, HT.leaves, treeRoot, leafVal]
  | .zero, d, h => by simp [HT.depth?] at h; subst h; simp [htEval, HT.leaves, treeRoot, leafVal]
  | .node l r, d, h => by
    simp only [HT.depth?] at h
    cases hl : l.depth? with
    | none => simp [hl] at h
    | some a =>
      cases hr : r.depth? with
      | none => simp [hl, hr] at h
      | some b =>
        simp only [hl, hr] at h
        split at h
        · rename_i hab
          simp only [beq_iff_eq] at hab
          simp only [Option.some.injEq] at h
          subst h; subst hab
          have hlen : (l.leaves.map (leafVal bs)).length = 2 ^ a := by simp [ht_leaves_length l a hl]
          simp only [htEval, HT.leaves, List.map_append, treeRoot, List.take_left' hlen, List.drop_left' hlen,
            htEval_treeRoot H bs l a hl, htEval_treeRoot H bs r a hr]
        · simp at h

theorem packN_getElem (n : Nat) (bs : Bytes) (i : Nat) (hi : i < n) :
    (packN n bs)[i]'(by simp [packN_length, hi]) = padTo32 ((bs.drop (32 * i)).take 32) := by
  induction n generalizing bs i with
  | zero => omega
  | succ n ih =>
    cases i with
    | zero => simp [packN]
    | succ j =>
      simp only [packN, List.getElem_cons_succ]
      rw [ih (bs.drop 32) j (by omega), List.drop_drop]
      congr 3; omega

/-- the expected leaves, evaluated on an `n`-byte array, are `pack` of the bytes followed by zero chunks -/
theorem expectedLeaves_vals (bs : Bytes) (n d : Nat) (hn : bs.length = n) (hd : (n + 31) / 32 ≤ 2 ^ d) :
    (expectedLeaves n d).map (leafVal bs) = pack bs ++ List.replicate (2 ^ d - (pack bs).length) zeroChunk := by
  apply List.ext_getElem
  · simp [expectedLeaves, pack_length, hn]; omega
  · intro i h1 h2
    simp only [expectedLeaves, List.map_map, List.getElem_map, List.getElem_range, Function.comp]
    by_cases hi : 32 * i < n
    · have hic : i < (bs.length + 31) / 32 := by omega
      rw [List.getElem_append_left (by simp [pack_length]; exact hic)]
      simp only [hi, ↓reduceIte, leafVal, pack]
      rw [packN_getElem _ bs i hic]
      congr 1
      apply List.ext_getElem
      · simp [List.length_take, List.length_drop]; omega
      · intro j hj1 hj2
        simp
    · have hic : ¬ i < (bs.length + 31) / 32 := by omega
      rw [List.getElem_append_right (by simp [pack_length]; omega)]
      simp [hi, leafVal]

/-- **A hand-written hash tree that passes `htOk` is the hash-tree-root of the byte vector.** -/
theorem htOk_sound (H : Hash2) (n : Nat) (t : HT) (bs : Bytes) (hok : htOk n t = true) (hn : bs.length = n) :
    htEval H bs t = htr H (.bytesN n) (.bytes bs) := by
  unfold htOk at hok
  cases hd : t.depth? with
  | none => simp [hd] at hok
  | some d =>
    simp only [hd, Bool.and_eq_true, beq_iff_eq] at hok
    obtain ⟨hdep, hleaves⟩ := hok
    have hcap : (n + 31) / 32 ≤ 2 ^ d := by rw [hdep]; exact le_two_pow_ceilLog2 _
    rw [htEval_treeRoot H bs t d hd, hleaves, expectedLeaves_vals bs n d hn hcap]
    have hc : chunkCount n 1 = (n + 31) / 32 := by simp [chunkCount]
    simp only [htr, hc, ← hdep]
    rw [merkleize_eq_merkleizeSpec H _ _ (by rw [pack_length, hn]; exact hcap)]
    rfl

end Zrnt.Proofs.SSZ

namespace Zrnt.Proofs.SSZ
open Zrnt.SSZ

/-- position of the delimiter bit: 8 per full byte plus its index in the last byte -/
theorem log2_bytes (ys : Bytes) (last : UInt8) (hne : last ≠ 0) :
    Nat.log2 (leToNat (ys ++ [last])) = 8 * ys.length + Nat.log2 last.toNat := by
  have hlt : last.toNat < 256 := by have := UInt8.toNat_lt last; omega
  have hpos : last.toNat ≠ 0 := by
    intro h0; apply hne; apply UInt8.toNat_inj.mp; simpa using h0
  have hN : leToNat (ys ++ [last]) = leToNat ys + 256 ^ ys.length * last.toNat := by
    rw [leToNat_append]; simp [leToNat]
  have hys := leToNat_lt ys
  have l1 : 2 ^ Nat.log2 last.toNat ≤ last.toNat := Nat.log2_self_le hpos
  have l2 : last.toNat < 2 ^ (Nat.log2 last.toNat + 1) := Nat.lt_log2_self
  apply log2_eq
  · rw [hN, Nat.pow_add, ← pow_256]
    have := Nat.mul_le_mul_left (256 ^ ys.length) l1
    omega
  · rw [hN, show 8 * ys.length + Nat.log2 last.toNat + 1 = 8 * ys.length + (Nat.log2 last.toNat + 1) by omega,
      Nat.pow_add, ← pow_256]
    have : 256 ^ ys.length * (last.toNat + 1) ≤ 256 ^ ys.length * 2 ^ (Nat.log2 last.toNat + 1) :=
      Nat.mul_le_mul_left _ l2
    rw [Nat.mul_add, Nat.mul_one] at this
    omega

/-- **`common.ReadBitList` accepts exactly the byte strings the specification's bitlist decoder accepts.** -/
theorem goReadBitList_eq_decode (lim : Nat) (bs : Bytes) :
    goReadBitList lim bs = (decode (.bitlist lim) bs).isSome := by
  unfold goReadBitList
  simp only [decode]
  cases hlast : bs.getLast? with
  | none => simp
  | some last =>
    obtain ⟨ys, rfl⟩ := List.getLast?_eq_some_iff.mp hlast
    by_cases hz : last = 0
    · simp [hz]
    · simp only [hz, ↓reduceIte, log2_bytes ys last hz, List.length_append, List.length_singleton,
        Nat.add_sub_cancel]
      by_cases hlen : ys.length + 1 > lim / 8 + 1
      · have : ¬ (8 * ys.length + Nat.log2 last.toNat ≤ lim) := by omega
        simp [hlen, this]
      · simp only [hlen, ↓reduceIte]
        by_cases hle : 8 * ys.length + Nat.log2 last.toNat ≤ lim
        · have : ¬ (Nat.log2 last.toNat > lim - ys.length * 8) := by omega
          simp [hle, this]
        · have : Nat.log2 last.toNat > lim - ys.length * 8 := by omega
          simp [hle, this]

end Zrnt.Proofs.SSZ
