import Zrnt.Beacon.Committees
import Proofs.Lemmas.ShuffleList
import Proofs.Lemmas.ShufflePerm
namespace Zrnt.Proofs.Committees
open Zrnt Zrnt.Shuffle Zrnt.Beacon.Committees Zrnt.Gen.GoFuns

/-- `CommitteeCount` as regenerated from shuffling.go: `max(1, min(MAX, n / SPE / TCS))`, no panic when
`SLOTS_PER_EPOCH` and `TARGET_COMMITTEE_SIZE` are non-zero -/
theorem committeeCount_go (spec : Zrnt.Gen.GoFuns.Spec) (n : UInt64)
    (h1 : spec.SLOTS_PER_EPOCH ≠ 0) (h2 : spec.TARGET_COMMITTEE_SIZE ≠ 0) :
    ∃ c, CommitteeCount spec n = .ok c ∧
      c.toNat = max 1 (min spec.MAX_COMMITTEES_PER_SLOT.toNat
        (n.toNat / spec.SLOTS_PER_EPOCH.toNat / spec.TARGET_COMMITTEE_SIZE.toNat)) := by
  unfold CommitteeCount
  simp only [Res.udiv, h1, h2, if_false, bind, Res.bind]
  generalize hq : n / spec.SLOTS_PER_EPOCH / spec.TARGET_COMMITTEE_SIZE = q
  have hqn : q.toNat = n.toNat / spec.SLOTS_PER_EPOCH.toNat / spec.TARGET_COMMITTEE_SIZE.toNat := by
    rw [← hq, UInt64.toNat_div, UInt64.toNat_div]
  rw [← hqn]
  by_cases hlt : spec.MAX_COMMITTEES_PER_SLOT < q
  · have hlt' := UInt64.lt_iff_toNat_lt.mp hlt
    simp only [hlt, decide_true, if_true]
    by_cases hz : spec.MAX_COMMITTEES_PER_SLOT = 0
    · refine ⟨1, by simp [hz], ?_⟩
      have : spec.MAX_COMMITTEES_PER_SLOT.toNat = 0 := by rw [hz]; rfl
      rw [this]; simp
    · refine ⟨spec.MAX_COMMITTEES_PER_SLOT, by simp [hz], ?_⟩
      have : spec.MAX_COMMITTEES_PER_SLOT.toNat ≠ 0 := fun e => hz (UInt64.toNat_inj.mp (by rw [e]; rfl))
      omega
  · have hlt' : ¬ spec.MAX_COMMITTEES_PER_SLOT.toNat < q.toNat := fun e => hlt (UInt64.lt_iff_toNat_lt.mpr e)
    simp only [hlt, decide_false]
    by_cases hz : q = 0
    · refine ⟨1, by simp [hz], ?_⟩
      have : q.toNat = 0 := by rw [hz]; rfl
      rw [this]; simp
    · refine ⟨q, by simp [hz], ?_⟩
      have : q.toNat ≠ 0 := fun e => hz (UInt64.toNat_inj.mp (by rw [e]; rfl))
      omega

/-! ## committee count of the model -/

theorem ofNat_toNat_lt {n : Nat} (h : n < 2 ^ 64) : (UInt64.ofNat n).toNat = n := by
  simp [UInt64.toNat_ofNat', Nat.mod_eq_of_lt h]

theorem committeeCount_model (cfg : Cfg) (n : Nat) (h1 : 0 < cfg.SLOTS_PER_EPOCH) (h2 : 0 < cfg.TARGET_COMMITTEE_SIZE)
    (b1 : cfg.SLOTS_PER_EPOCH < 2 ^ 64) (b2 : cfg.TARGET_COMMITTEE_SIZE < 2 ^ 64)
    (b3 : cfg.MAX_COMMITTEES_PER_SLOT < 2 ^ 64) (bn : n < 2 ^ 64) :
    committeeCount cfg n = .ok (max 1 (min cfg.MAX_COMMITTEES_PER_SLOT
      (n / cfg.SLOTS_PER_EPOCH / cfg.TARGET_COMMITTEE_SIZE))) := by
  have e1 : (goSpec cfg).SLOTS_PER_EPOCH = UInt64.ofNat cfg.SLOTS_PER_EPOCH := rfl
  have e2 : (goSpec cfg).TARGET_COMMITTEE_SIZE = UInt64.ofNat cfg.TARGET_COMMITTEE_SIZE := rfl
  have e3 : (goSpec cfg).MAX_COMMITTEES_PER_SLOT = UInt64.ofNat cfg.MAX_COMMITTEES_PER_SLOT := rfl
  have n1 : (goSpec cfg).SLOTS_PER_EPOCH ≠ 0 := by
    intro e; rw [e1] at e
    have := congrArg UInt64.toNat e
    rw [ofNat_toNat_lt b1] at this; simp at this; omega
  have n2 : (goSpec cfg).TARGET_COMMITTEE_SIZE ≠ 0 := by
    intro e; rw [e2] at e
    have := congrArg UInt64.toNat e
    rw [ofNat_toNat_lt b2] at this; simp at this; omega
  obtain ⟨c, hc, hv⟩ := committeeCount_go (goSpec cfg) (UInt64.ofNat n) n1 n2
  unfold committeeCount
  rw [hc]
  simp only
  rw [hv, e1, e2, e3, ofNat_toNat_lt b1, ofNat_toNat_lt b2, ofNat_toNat_lt b3, ofNat_toNat_lt bn]

/-! ## slice arithmetic -/

theorem slice_first (n c : Nat) : n * 0 / c = 0 := by simp
theorem slice_last (n c : Nat) (hc : 0 < c) : n * c / c = n := Nat.mul_div_cancel n hc
theorem slice_mono (n c i : Nat) : n * i / c ≤ n * (i + 1) / c :=
  Nat.div_le_div_right (Nat.mul_le_mul_left n (Nat.le_succ i))
theorem slice_le (n c i : Nat) (hc : 0 < c) (hi : i ≤ c) : n * i / c ≤ n := by
  calc n * i / c ≤ n * c / c := Nat.div_le_div_right (Nat.mul_le_mul_left n hi)
    _ = n := Nat.mul_div_cancel n hc

/-- every committee has `⌊n/c⌋` or `⌊n/c⌋+1` members -/
theorem slice_size (n c i : Nat) (hc : 0 < c) :
    n * (i + 1) / c - n * i / c = n / c ∨ n * (i + 1) / c - n * i / c = n / c + 1 := by
  have e : n * (i + 1) = n * i + n := by rw [Nat.mul_add, Nat.mul_one]
  rw [e, Nat.add_div hc]
  generalize n * i / c = A
  generalize n / c = B
  split <;> omega
/-! ## consecutive slices tile the list -/

theorem extract_append_extract {α : Type} (L : List α) {x y z : Nat} (hxy : x ≤ y) (hyz : y ≤ z) :
    L.extract x y ++ L.extract y z = L.extract x z := by
  simp only [List.extract_eq_take_drop]
  have h1 : List.take (z - x) (List.drop x L) = List.take (y - x) (List.drop x L) ++ List.take (z - y) (List.drop y L) := by
    have : z - x = (y - x) + (z - y) := by omega
    rw [this, List.take_add, List.drop_drop]
    congr 3
    omega
  rw [h1]

/-- concatenating the slices `[b i, b (i+1))` for `i < m` gives `[b 0, b m)` -/
theorem flatMap_extract {α : Type} (L : List α) (b : Nat → Nat) (hb : ∀ i, b i ≤ b (i + 1)) :
    ∀ m, (List.range m).flatMap (fun i => L.extract (b i) (b (i + 1))) = L.extract (b 0) (b m) := by
  intro m
  induction m with
  | zero => simp
  | succ m ih =>
    have hmono : ∀ k, b 0 ≤ b k := by
      intro k; induction k with
      | zero => exact Nat.le_refl _
      | succ k ihk => exact Nat.le_trans ihk (hb k)
    rw [List.range_succ, List.flatMap_append, ih]
    simp only [List.flatMap_cons, List.flatMap_nil, List.append_nil]
    exact extract_append_extract L (hmono m) (hb m)

/-- slot-major double loop = single loop over `slot * b + t` -/
theorem flatMap_range_mul {β : Type} (f : Nat → β) (b : Nat) :
    ∀ a, (List.range a).flatMap (fun s => (List.range b).map (fun t => f (s * b + t))) = (List.range (a * b)).map f := by
  intro a
  induction a with
  | zero => simp
  | succ a ih =>
    rw [List.range_succ, List.flatMap_append, ih, Nat.succ_mul, List.range_add, List.map_append]
    simp [List.map_map, Function.comp]

/-! ## what `NewShufflingEpoch` returns -/

/-- committees per slot as the specification defines them -/
def cpsOf (cfg : Cfg) (n : Nat) : Nat :=
  max 1 (min cfg.MAX_COMMITTEES_PER_SLOT (n / cfg.SLOTS_PER_EPOCH / cfg.TARGET_COMMITTEE_SIZE))

theorem cpsOf_pos (cfg : Cfg) (n : Nat) : 0 < cpsOf cfg n := by unfold cpsOf; omega

/-- the configuration constants are non-zero where the code divides by them, and fit `uint64` -/
structure CfgOK (cfg : Cfg) : Prop where
  spe_pos : 0 < cfg.SLOTS_PER_EPOCH
  tcs_pos : 0 < cfg.TARGET_COMMITTEE_SIZE
  spe_lt : cfg.SLOTS_PER_EPOCH < 2 ^ 64
  tcs_lt : cfg.TARGET_COMMITTEE_SIZE < 2 ^ 64
  mcs_lt : cfg.MAX_COMMITTEES_PER_SLOT < 2 ^ 64

theorem size_activeIndices_le (vals : Array Val) (epoch : Nat) : (activeIndices vals epoch).size ≤ vals.size := by
  unfold activeIndices
  have := Array.size_filter_le (p := fun i => decide (vals[i]!.activation ≤ epoch ∧ epoch < vals[i]!.exit)) (xs := Array.range vals.size)
  simpa using this

theorem newShufflingEpoch_ok {H : ByteArray → ByteArray} {cfg : Cfg} (ok : CfgOK cfg) (vals : Array Val)
    (seed : ByteArray) (epoch : Nat) (hv : vals.size < 2 ^ 63) :
    let active := activeIndices vals epoch
    let shuffling := unshuffleList (Hasher.ofHash H seed) (rounds8 cfg) active
    let n := active.size
    let cps := cpsOf cfg n
    newShufflingEpoch H cfg vals seed epoch = .ok
      { epoch := epoch, activeIndices := active, shuffling := shuffling,
        committees := (List.range cfg.SLOTS_PER_EPOCH).map fun slot => (List.range cps).map fun slotIndex =>
          shuffling.toList.extract (n * (slot * cps + slotIndex) / (cps * cfg.SLOTS_PER_EPOCH))
            (n * (slot * cps + slotIndex + 1) / (cps * cfg.SLOTS_PER_EPOCH)) } := by
  intro active shuffling n cps
  have hle : active.size ≤ vals.size := size_activeIndices_le vals epoch
  have hn : n = active.size := rfl
  have hsz : shuffling.size = n :=
    (Zrnt.Proofs.Shuffle.unshuffleList_spec (Hasher.ofHash H seed) (rounds8 cfg) active (by show active.size ≤ 2 ^ 63; omega)).1
  unfold newShufflingEpoch
  simp only []
  rw [show (unshuffleList (Hasher.ofHash H seed) (rounds8 cfg) (activeIndices vals epoch)).size = n from hsz]
  rw [committeeCount_model cfg n ok.spe_pos ok.tcs_pos ok.spe_lt ok.tcs_lt ok.mcs_lt (by omega)]
  simp only [bind, Res.bind, pure, Array.toList_extract]
  rfl


/-- the committees of an epoch, concatenated in (slot, index) order, are the whole shuffled list -/
theorem committees_flatten {α : Type} (L : List α) (spe cps : Nat) (hc : 0 < cps * spe) (n : Nat) (hn : n = L.length) :
    (((List.range spe).map fun slot => (List.range cps).map fun slotIndex =>
        L.extract (n * (slot * cps + slotIndex) / (cps * spe)) (n * (slot * cps + slotIndex + 1) / (cps * spe))).flatten).flatten = L := by
  rw [← List.flatMap_def]
  rw [flatMap_range_mul (fun i => L.extract (n * i / (cps * spe)) (n * (i + 1) / (cps * spe))) cps spe]
  rw [← List.flatMap_def]
  have := flatMap_extract L (fun i => n * i / (cps * spe)) (fun i => slice_mono n (cps * spe) i) (spe * cps)
  rw [this, Nat.mul_comm spe cps, slice_last n _ hc, Nat.mul_zero, Nat.zero_div, hn]
  simp [List.extract_eq_take_drop]

theorem activeIndices_toList (vals : Array Val) (epoch : Nat) :
    (activeIndices vals epoch).toList =
      (List.range vals.size).filter fun i => decide (vals[i]!.activation ≤ epoch ∧ epoch < vals[i]!.exit) := by
  unfold activeIndices
  simp [Array.toList_range]

theorem activeIndices_nodup (vals : Array Val) (epoch : Nat) : (activeIndices vals epoch).toList.Nodup := by
  rw [activeIndices_toList]
  exact List.Nodup.filter _ List.nodup_range

theorem mem_activeIndices (vals : Array Val) (epoch i : Nat) :
    i ∈ (activeIndices vals epoch).toList ↔ i < vals.size ∧ vals[i]!.activation ≤ epoch ∧ epoch < vals[i]!.exit := by
  rw [activeIndices_toList]
  simp [List.mem_filter, List.mem_range]
instance : LawfulMonad Res := LawfulMonad.mk'
  (id_map := by intro α x; cases x <;> rfl)
  (pure_bind := by intro α β a f; rfl)
  (bind_assoc := by intro α β γ x f g; cases x <;> rfl)

theorem mapM_ok {α β : Type} (f : α → Res β) (g : α → β) :
    ∀ l : List α, (∀ x, x ∈ l → f x = .ok (g x)) → l.mapM f = .ok (l.map g) := by
  intro l
  induction l with
  | nil => intro _; rfl
  | cons a l ih =>
    intro h
    rw [List.mapM_cons, h a (List.mem_cons_self), ih (fun x hx => h x (List.mem_cons_of_mem a hx))]
    rfl

theorem mapM_ok_getElem {α β : Type} (f : α → Res β) :
    ∀ (l : List α) (r : List β), l.mapM f = .ok r →
      r.length = l.length ∧ ∀ i (hi : i < l.length) (hr : i < r.length), f l[i] = .ok r[i] := by
  intro l
  induction l with
  | nil =>
    intro r h
    rw [List.mapM_nil] at h
    injection h with h; subst h
    exact ⟨rfl, fun i hi => absurd hi (by simp)⟩
  | cons a l ih =>
    intro r h
    rw [List.mapM_cons] at h
    cases hfa : f a with
    | ok b =>
      rw [hfa] at h
      cases hl : l.mapM f with
      | ok r' =>
        rw [hl] at h
        have : r = b :: r' := by
          have h' : (Res.ok (b :: r') : Res (List β)) = .ok r := h
          injection h' with h'; exact h'.symm
        subst this
        obtain ⟨hlen, hget⟩ := ih r' hl
        refine ⟨by simp [hlen], fun i hi hr => ?_⟩
        cases i with
        | zero => simpa using hfa
        | succ i => simpa using hget i (by simpa using hi) (by simpa using hr)
      | err => rw [hl] at h; cases h
      | panic => rw [hl] at h; cases h
      | outOfFuel => rw [hl] at h; cases h
    | err => rw [hfa] at h; cases h
    | panic => rw [hfa] at h; cases h
    | outOfFuel => rw [hfa] at h; cases h

theorem extract_eq_map_range' {α : Type} (L : List α) (d : α) (s e : Nat) (he : e ≤ L.length) :
    L.extract s e = (List.range' s (e - s)).map (fun i => L[i]?.getD d) := by
  apply List.ext_getElem?
  intro k
  simp only [List.extract_eq_take_drop, List.getElem?_take, List.getElem?_drop, List.getElem?_map]
  by_cases hk : k < e - s
  · have : s + k < L.length := by omega
    simp [hk, List.getElem?_eq_getElem this]
  · simp [hk]

theorem rounds8_eq {cfg : Cfg} (h : cfg.SHUFFLE_ROUND_COUNT ≤ 255) : rounds8 cfg = cfg.SHUFFLE_ROUND_COUNT := by
  unfold rounds8; omega

open Zrnt.Proofs.Shuffle in
/-- position `i` of the un-shuffled active list is `active[compute_shuffled_index(i)]` -/
theorem shuffling_getElem?_spec {H : ByteArray → ByteArray} (hH : ∀ x, (H x).size = 32) {cfg : Cfg}
    (hsrc : cfg.SHUFFLE_ROUND_COUNT ≤ 255) (active : Array Nat) (hn : active.size ≤ 2 ^ 40) (seed : ByteArray)
    (i : Nat) (hi : i < active.size) :
    ∃ v, Zrnt.Shuffle.Spec.computeShuffledIndex H cfg.SHUFFLE_ROUND_COUNT i active.size seed = some v ∧
      ∃ hv : v < active.size,
      (unshuffleList (Hasher.ofHash H seed) (rounds8 cfg) active)[i]? = some active[v] := by
  have hn63 : active.size ≤ 2 ^ 63 := by omega
  refine ⟨permUp (Hasher.ofHash H seed) active.size cfg.SHUFFLE_ROUND_COUNT i, ?_, permUp_lt hn63 _ i hi, ?_⟩
  · rw [spec_unfold H _ i active.size seed hi]
    exact foldlM_spec_eq hH hn _ i (by omega) hi
  · rw [rounds8_eq hsrc, (unshuffleList_spec (Hasher.ofHash H seed) cfg.SHUFFLE_ROUND_COUNT active hn63).2 i hi]
    exact Array.getElem?_eq_getElem _

theorem compute_committee_eq {H : ByteArray → ByteArray} (hH : ∀ x, (H x).size = 32) {cfg : Cfg}
    (hsrc : cfg.SHUFFLE_ROUND_COUNT ≤ 255) (active : Array Nat) (hn : active.size ≤ 2 ^ 40) (seed : ByteArray)
    (index count : Nat) (hi : index < count) :
    Spec.compute_committee H cfg active.toList seed index count =
      .ok ((unshuffleList (Hasher.ofHash H seed) (rounds8 cfg) active).toList.extract
        (active.size * index / count) (active.size * (index + 1) / count)) := by
  have hc : 0 < count := by omega
  have hsz : (unshuffleList (Hasher.ofHash H seed) (rounds8 cfg) active).size = active.size :=
    (Zrnt.Proofs.Shuffle.unshuffleList_spec (Hasher.ofHash H seed) (rounds8 cfg) active (by omega)).1
  have hend : active.size * (index + 1) / count ≤ active.size := slice_le _ _ _ hc (by omega)
  unfold Spec.compute_committee
  have hc0 : ¬ count = 0 := by omega
  simp only [hc0, if_false, Array.length_toList]
  rw [extract_eq_map_range' _ 0 _ _ (by rw [Array.length_toList, hsz]; exact hend)]
  apply mapM_ok
  intro i hi'
  rw [List.mem_range'_1] at hi'
  have hlt : i < active.size := by
    have := slice_mono active.size count index
    omega
  obtain ⟨v, hv, hvlt, hg⟩ := shuffling_getElem?_spec hH hsrc active hn seed i hlt
  rw [hv]
  simp only [Array.getElem?_toList, hg, Option.getD_some, Array.getElem?_eq_getElem hvlt]

theorem zipIdx_filterMap (p : Val → Bool) : ∀ (l : List Val) (k : Nat),
    (l.zipIdx k).filterMap (fun (x : Val × Nat) => if p x.1 then some x.2 else none) =
      (List.range' k l.length).filter (fun i => p (l[i - k]!)) := by
  intro l
  induction l with
  | nil => intro k; rfl
  | cons a l ih =>
    intro k
    rw [List.zipIdx_cons, List.length_cons, List.range'_succ, List.filterMap_cons, List.filter_cons, ih (k + 1)]
    have h0 : (a :: l)[k - k]! = a := by simp
    rw [h0]
    have hrest : (List.range' (k + 1) l.length).filter (fun i => p (l[i - (k + 1)]!)) =
        (List.range' (k + 1) l.length).filter (fun i => p ((a :: l)[i - k]!)) := by
      apply List.filter_congr
      intro i hi
      rw [List.mem_range'_1] at hi
      have : i - k = (i - (k + 1)) + 1 := by omega
      rw [this]
      simp
    rw [hrest]
    cases p a <;> simp

theorem activeIndices_eq_spec (vals : Array Val) (epoch : Nat) :
    (activeIndices vals epoch).toList = Spec.get_active_validator_indices vals.toList epoch := by
  rw [activeIndices_toList]
  unfold Spec.get_active_validator_indices
  have := zipIdx_filterMap (fun v => Spec.is_active_validator v epoch) vals.toList 0
  simp only [Nat.sub_zero, Array.length_toList] at this
  rw [List.range_eq_range']
  rw [show (fun (x : Val × Nat) => if Spec.is_active_validator x.1 epoch = true then some x.2 else none) =
      (fun (x : Val × Nat) => match x with | (v, i) => if Spec.is_active_validator v epoch = true then some i else none) from by
    funext x; cases x; rfl] at this
  rw [this]
  apply List.filter_congr
  intro i _
  have : vals[i]! = vals[i]?.getD default := getElem!_def vals i ▸ (by cases vals[i]? <;> rfl)
  simp [Spec.is_active_validator, this]

theorem uintToBytes8 (v : Nat) : Zrnt.Shuffle.Spec.uintToBytes 8 v = putUint64 v := by
  apply ByteArray.ext
  simp [Zrnt.Shuffle.Spec.uintToBytes, putUint64, List.range, List.range.loop]

/-- `GetSeed` is the specification's `get_seed` -/
theorem getSeed_eq_spec (H : ByteArray → ByteArray) (cfg : Cfg) (mixes : Nat → ByteArray) (epoch : Nat) (dt : ByteArray) :
    getSeed H cfg mixes epoch dt = Spec.get_seed H cfg mixes epoch dt := by
  unfold getSeed Spec.get_seed Spec.get_randao_mix
  rw [uintToBytes8]
end Zrnt.Proofs.Committees
