import Zrnt.SSZ.Codec
import Proofs.Lemmas.SSZLayout
/-! Lengths of encodings: fixed-size types encode to their fixed length, and `encode` writes `byteLength` bytes. -/
namespace Zrnt.Proofs.SSZ
open Zrnt.SSZ

theorem compat_replicate_some {s : Nat} {ps : List Bytes} (h : ∀ p ∈ ps, p.length = s) :
    Compat (List.replicate ps.length (some s)) ps := by
  induction ps with
  | nil => simp [Compat]
  | cons p ps ih =>
    simp only [List.length_cons, List.replicate_succ, Compat]
    exact ⟨h p (by simp), ih (fun q hq => h q (by simp [hq]))⟩

theorem compat_replicate_none (ps : List Bytes) : Compat (List.replicate ps.length none) ps := by
  induction ps with
  | nil => simp [Compat]
  | cons p ps ih => simpa [List.replicate_succ, Compat] using ih

theorem compat_replicate (fl : Option Nat) (ps : List Bytes) (h : ∀ s, fl = some s → ∀ p ∈ ps, p.length = s) :
    Compat (List.replicate ps.length fl) ps := by
  cases fl with
  | none => exact compat_replicate_none ps
  | some s => exact compat_replicate_some (h s rfl)

theorem flatten_length_const {s : Nat} {ps : List Bytes} (h : ∀ p ∈ ps, p.length = s) :
    ps.flatten.length = ps.length * s := by
  induction ps with
  | nil => simp
  | cons p ps ih =>
    simp only [List.flatten_cons, List.length_append, List.length_cons]
    rw [h p (by simp), ih (fun q hq => h q (by simp [hq])), Nat.succ_mul]; omega

/-- a layout whose entries are all fixed: the fixed section is everything -/
theorem fields_fixed_layout : ∀ (fs : Fields) (n : Nat) (ps : List Bytes), fs.fixedLen? = some n →
    fixedPartLen fs.layout = n ∧ varParts fs.layout ps = []
  | .nil, n, ps, h => by
    simp only [Fields.fixedLen?, Option.some.injEq] at h
    cases ps <;> simp [Fields.layout, fixedPartLen, varParts, h]
  | .cons _ t r, n, ps, h => by
    simp only [Fields.fixedLen?] at h
    split at h
    · rename_i a b ha hb
      simp only [Option.some.injEq] at h
      cases ps with
      | nil => simp [Fields.layout, ha, fixedPartLen, varParts, (fields_fixed_layout r b [] hb).1, h]
      | cons p ps =>
        have := fields_fixed_layout r b ps hb
        simp [Fields.layout, ha, fixedPartLen, varParts, this.1, this.2, h]
    · simp at h

mutual
theorem encode_fixed : ∀ (t : Ty) (v : Val) (n : Nat), t.fixedLen? = some n → WF t v → (encode t v).length = n
  | .uint k, v, n, h, hw => by
    cases v <;> simp only [WF] at hw
    simp only [Ty.fixedLen?, Option.some.injEq] at h
    simp [encode, natToLE_length, h]
  | .bool, v, n, h, hw => by
    cases v <;> simp only [WF] at hw
    simp only [Ty.fixedLen?, Option.some.injEq] at h
    simp [encode, ← h]
  | .bytesN m, v, n, h, hw => by
    cases v <;> simp only [WF] at hw
    simp only [Ty.fixedLen?, Option.some.injEq] at h
    simp [encode, hw, h]
  | .vector t m, v, n, h, hw => by
    cases v <;> simp only [WF] at hw
    rename_i vs
    simp only [Ty.fixedLen?] at h
    split at h
    · rename_i s hs
      simp only [Option.some.injEq] at h
      have hp : ∀ p ∈ vs.map (encode t), p.length = s := by
        intro p hp
        obtain ⟨v, hv, rfl⟩ := List.mem_map.mp hp
        exact encode_fixed t v s hs (hw.2 v hv)
      have hc := compat_replicate_some hp
      simp only [List.length_map] at hc
      simp only [encode, hs]
      rw [joinParts_length _ _ hc, fixedPartLen_replicate_some, varParts_replicate_some]
      simp [hw.1, h]
    · simp at h
  | .list _ _, _, _, h, _ => by simp [Ty.fixedLen?] at h
  | .bitvector m, v, n, h, hw => by
    cases v <;> simp only [WF] at hw
    simp only [Ty.fixedLen?, Option.some.injEq] at h
    simp [encode, natToLE_length, h]
  | .bitlist _, _, _, h, _ => by simp [Ty.fixedLen?] at h
  | .byteList _, _, _, h, _ => by simp [Ty.fixedLen?] at h
  | .container fs, v, n, h, hw => by
    cases v <;> simp only [WF] at hw
    rename_i vs
    simp only [Ty.fixedLen?] at h
    have hc := encodeFields_compat fs vs hw
    have := fields_fixed_layout fs n (encodeFields fs vs) h
    simp only [encode]
    rw [joinParts_length _ _ hc, this.1, this.2]
    simp
theorem encodeFields_compat : ∀ (fs : Fields) (vs : List Val), WFFields fs vs → Compat fs.layout (encodeFields fs vs)
  | .nil, vs, hw => by
    cases vs <;> simp_all [WFFields, Fields.layout, encodeFields, Compat]
  | .cons _ t r, vs, hw => by
    cases vs with
    | nil => simp [WFFields] at hw
    | cons v vs =>
      simp only [WFFields] at hw
      simp only [Fields.layout, encodeFields]
      have ih := encodeFields_compat r vs hw.2
      cases hfl : t.fixedLen? with
      | none => simpa [Compat] using ih
      | some s => exact ⟨encode_fixed t v s hfl hw.1, ih⟩
end

theorem sum_map_add_const (f : Val → Nat) (vs : List Val) :
    (vs.map fun v => 4 + f v).sum = 4 * vs.length + (vs.map f).sum := by
  induction vs with
  | nil => simp
  | cons v vs ih => simp [ih]; omega

theorem flatten_length_map (f : Val → Bytes) (g : Val → Nat) (vs : List Val) (h : ∀ v ∈ vs, (f v).length = g v) :
    (vs.map f).flatten.length = (vs.map g).sum := by
  induction vs with
  | nil => simp
  | cons v vs ih =>
    simp only [List.map_cons, List.flatten_cons, List.length_append, List.sum_cons]
    rw [h v (by simp), ih (fun w hw => h w (by simp [hw]))]

mutual
/-- `encode` writes exactly `byteLength` bytes -/
theorem encode_length : ∀ (t : Ty) (v : Val), WF t v → (encode t v).length = byteLength t v
  | .uint k, v, hw => by cases v <;> simp only [WF] at hw; simp [encode, byteLength, natToLE_length]
  | .bool, v, hw => by cases v <;> simp only [WF] at hw; simp [encode, byteLength]
  | .bytesN m, v, hw => by cases v <;> simp only [WF] at hw; simp [encode, byteLength, hw]
  | .vector t m, v, hw => by
    cases v <;> simp only [WF] at hw
    rename_i vs
    simp only [byteLength]
    cases hfl : t.fixedLen? with
    | some s =>
      simp only
      exact encode_fixed (.vector t m) (.seq vs) (m * s) (by simp [Ty.fixedLen?, hfl]) (by simpa [WF] using hw)
    | none =>
      simp only [encode, hfl]
      have hc := compat_replicate_none (vs.map (encode t))
      have hv := varParts_replicate_none (vs.map (encode t))
      simp only [List.length_map] at hc hv
      rw [joinParts_length _ _ hc, fixedPartLen_replicate_none, hv]
      rw [flatten_length_map (encode t) (byteLength t) vs (fun v hv => encode_length t v (hw.2 v hv))]
      rw [sum_map_add_const]
  | .list t lim, v, hw => by
    cases v <;> simp only [WF] at hw
    rename_i vs
    simp only [byteLength]
    cases hfl : t.fixedLen? with
    | some s =>
      simp only [encode, hfl]
      have hp : ∀ p ∈ vs.map (encode t), p.length = s := by
        intro p hp
        obtain ⟨v, hv, rfl⟩ := List.mem_map.mp hp
        exact encode_fixed t v s hfl (hw.2 v hv)
      have hc := compat_replicate_some hp
      simp only [List.length_map] at hc
      rw [joinParts_length _ _ hc, fixedPartLen_replicate_some, varParts_replicate_some]
      simp
    | none =>
      simp only [encode, hfl]
      have hc := compat_replicate_none (vs.map (encode t))
      have hv := varParts_replicate_none (vs.map (encode t))
      simp only [List.length_map] at hc hv
      rw [joinParts_length _ _ hc, fixedPartLen_replicate_none, hv]
      rw [flatten_length_map (encode t) (byteLength t) vs (fun v hv => encode_length t v (hw.2 v hv))]
      rw [sum_map_add_const]
  | .bitvector m, v, hw => by cases v <;> simp only [WF] at hw; simp [encode, byteLength, natToLE_length]
  | .bitlist _, v, hw => by cases v <;> simp only [WF] at hw; simp [encode, byteLength, natToLE_length]
  | .byteList _, v, hw => by cases v <;> simp only [WF] at hw; simp [encode, byteLength]
  | .container fs, v, hw => by
    cases v <;> simp only [WF] at hw
    rename_i vs
    simp only [encode, byteLength]
    rw [joinParts_length _ _ (encodeFields_compat fs vs hw)]
    exact encodeFields_length fs vs hw
theorem encodeFields_length : ∀ (fs : Fields) (vs : List Val), WFFields fs vs →
    fixedPartLen fs.layout + (varParts fs.layout (encodeFields fs vs)).flatten.length = byteLengthFields fs vs
  | .nil, vs, hw => by cases vs <;> simp_all [WFFields, Fields.layout, fixedPartLen, varParts, byteLengthFields, encodeFields]
  | .cons _ t r, vs, hw => by
    cases vs with
    | nil => simp [WFFields] at hw
    | cons v vs =>
      simp only [WFFields] at hw
      have ih := encodeFields_length r vs hw.2
      simp only [Fields.layout, encodeFields, byteLengthFields]
      cases hfl : t.fixedLen? with
      | none =>
        simp only [fixedPartLen, varParts, List.flatten_cons, List.length_append]
        rw [encode_length t v hw.1]; omega
      | some s =>
        simp only [fixedPartLen, varParts]; omega
end

end Zrnt.Proofs.SSZ
