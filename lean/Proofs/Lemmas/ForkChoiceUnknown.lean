import Proofs.Lemmas.ForkChoiceOps
/-! C11 `unknown_reported`: roots that were never inserted are reported unknown by every query. -/
namespace Zrnt.ForkChoice

/-- a root without a first slot has no node at all -/
theorem unknown_no_node (pr : PA) (h : WF pr) (hc : Chain pr) (r : Root) (hr : aGet pr.blockSlots r = none)
    (s : Nat) : aGet pr.indices ⟨s, r⟩ = none := by
  cases hi : aGet pr.indices ⟨s, r⟩ with
  | none => rfl
  | some i =>
    obtain ⟨n, hn, href⟩ := h.idx_sound _ _ hi
    have := hc.rooted i n hn
    rw [href] at this
    simp [hr] at this

def isErr {α : Type} : POut PA α → Bool
  | .err _ => true
  | _ => false

theorem findHead_unknown (pr : PA) (h : WF pr) (r : Root) (s : Nat)
    (hi : ∀ q : PA, FrameS pr q → aGet q.indices ⟨s, r⟩ = none) : isErr (pr.findHead r s) = true := by
  rw [findHead_eq]
  split
  · unfold findHeadStep; rw [hi pr (FrameS.refl pr)]; rfl
  · obtain ⟨pr1, h1, hw1, _, hf1⟩ := wf_updateConnections pr h
    rw [h1]
    simp only
    unfold findHeadStep; rw [hi pr1 hf1.toFrameS]; rfl

/-- C11 `unknown_reported`: a root that was never inserted (it has no first slot) is reported unknown by every
query of a well-formed, chain-structured array: `GetSlot` finds nothing, `InSubtree` answers unknown in either
position, `ClosestToSlot` and `CanonAtSlot` return an error, and `FindHead`, `CanonicalChain`, `Search` from
any of its slots return an error. -/
theorem unknown_reported (pr : PA) (h : WF pr) (hc : Chain pr) (r : Root) (hr : aGet pr.blockSlots r = none) :
    pr.getSlot r = none ∧
    (∀ x, ∃ pr', pr.inSubtree r x = .ok pr' (true, false)) ∧
    (∀ x, ∃ pr', pr.inSubtree x r = .ok pr' (true, false)) ∧
    (∀ s, pr.closestToSlot r s = none) ∧
    (∀ s w, pr.canonAtSlot r s w = .err pr) ∧
    (∀ s, isErr (pr.findHead r s) = true) ∧
    (∀ s, isErr (pr.canonicalChain r s) = true) ∧
    (∀ s p sl, isErr (pr.search ⟨s, r⟩ p sl) = true) := by
  have hnone : ∀ q : PA, FrameS pr q → ∀ s, aGet q.indices ⟨s, r⟩ = none := by
    intro q fq s; rw [fq.indices]; exact unknown_no_node pr h hc r hr s
  have hfh : ∀ s, isErr (pr.findHead r s) = true := fun s => findHead_unknown pr h r s (fun q fq => hnone q fq s)
  refine ⟨hr, ?_, ?_, ?_, ?_, hfh, ?_, ?_⟩
  · intro x
    unfold PA.inSubtree
    split
    · rename_i heq; subst heq; rw [hr]; exact ⟨pr, rfl⟩
    · split
      · simp only [hr]; exact ⟨pr, rfl⟩
      · obtain ⟨pr1, h1, _, _, hf1⟩ := wf_updateConnections pr h
        rw [h1]; simp only [hf1.toFrameS.blockSlots, hr]; exact ⟨pr1, rfl⟩
  · intro x
    unfold PA.inSubtree
    split
    · rename_i heq; subst heq; rw [hr]; exact ⟨pr, rfl⟩
    · have step : ∀ q : PA, q.blockSlots = pr.blockSlots → ∃ pr',
          (match aGet q.blockSlots x with
            | none => POut.ok q (true, false)
            | some anchorSlot =>
              match aGet q.indices ⟨anchorSlot, x⟩ with
              | none => POut.ok q (true, false)
              | some anchorIndex =>
                match aGet q.blockSlots r with
                | none => POut.ok q (true, false)
                | some slot =>
                  match aGet q.indices ⟨slot, r⟩ with
                  | none => POut.ok q (true, false)
                  | some lookupIndex =>
                    if q.inSubtreeSpins anchorIndex lookupIndex then POut.spin else
                    match q.inSubtreeIdx anchorIndex lookupIndex with
                    | none => POut.panic
                    | some r => POut.ok q r) = .ok pr' (true, false) := by
        intro q hq
        rw [hq, hr]
        repeat' split
        all_goals first | exact ⟨q, rfl⟩ | (exfalso; simp_all)
      split
      · exact step pr rfl
      · obtain ⟨pr1, h1, _, _, hf1⟩ := wf_updateConnections pr h
        rw [h1]; exact step pr1 hf1.toFrameS.blockSlots
  · intro s
    unfold PA.closestToSlot
    rw [hnone pr (FrameS.refl pr) s, hr]; rfl
  · intro s w
    unfold PA.canonAtSlot
    rw [hr]
  · intro s
    unfold PA.canonicalChain
    have := hfh s
    revert this
    cases pr.findHead r s <;> simp [isErr]
  · intro s p sl
    unfold PA.search
    have := hfh s
    revert this
    cases pr.findHead r s <;> simp [isErr]

end Zrnt.ForkChoice
