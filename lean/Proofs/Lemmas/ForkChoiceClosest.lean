import Proofs.Lemmas.ForkChoiceDefs
/-! C11: `ClosestToSlot`'s binary search equals a linear scan when the empty-slot nodes of a root are contiguous. -/
namespace Zrnt.ForkChoice

/-- the empty-slot nodes of one root are contiguous from its first known slot -/
def Contig (pr : PA) : Prop :=
  ∀ root s0 s s', aGet pr.blockSlots root = some s0 → (aGet pr.indices ⟨s, root⟩).isSome →
    s0 ≤ s' → s' ≤ s → (aGet pr.indices ⟨s', root⟩).isSome

def hasRef (pr : PA) (anchor : Root) (s : Nat) : Bool := (aGet pr.indices ⟨s, anchor⟩).isSome

/-- linear scan downwards from `s0 + n` to `s0`: the greatest slot with a node -/
def scanDown (pr : PA) (anchor : Root) (s0 : Nat) : Nat → Nat
  | 0 => s0
  | n + 1 => if hasRef pr anchor (s0 + n + 1) then s0 + n + 1 else scanDown pr anchor s0 n

/-- `ClosestToSlot` by linear scan -/
def closestLinear (pr : PA) (anchor : Root) (slot : Nat) : Option NodeRef :=
  if hasRef pr anchor slot then some ⟨slot, anchor⟩ else
  match aGet pr.blockSlots anchor with
  | none => none
  | some s0 => if s0 > slot then none else some ⟨scanDown pr anchor s0 (slot - s0), anchor⟩

theorem bsearch_spec (pr : PA) (anchor : Root) (lo0 : Nat) :
    ∀ fuel mn mx, lo0 ≤ mn → mn < mx → mx - mn ≤ fuel + 1 → hasRef pr anchor mn = true → hasRef pr anchor mx = false →
      let r := pr.bsearch anchor fuel mn mx
      mn ≤ r ∧ r < mx ∧ hasRef pr anchor r = true ∧ hasRef pr anchor (r + 1) = false := by
  intro fuel
  induction fuel with
  | zero =>
    intro mn mx _ hlt hf hmn hmx
    have : mx = mn + 1 := by omega
    subst this
    simp [PA.bsearch, hmn, hmx]
  | succ f ih =>
    intro mn mx hlo hlt hf hmn hmx
    simp only [PA.bsearch]
    split
    · rename_i hgap
      have hp1 : mn < mn + (mx - mn) / 2 := by omega
      have hp2 : mn + (mx - mn) / 2 < mx := by omega
      split
      · rename_i hpiv
        have := ih (mn + (mx - mn) / 2) mx (by omega) hp2 (by omega) (by simpa [hasRef] using hpiv) hmx
        obtain ⟨a, b, c, d⟩ := this
        exact ⟨by omega, by omega, c, d⟩
      · rename_i hpiv
        have := ih mn (mn + (mx - mn) / 2) hlo hp1 (by omega) hmn (by simpa [hasRef] using hpiv)
        obtain ⟨a, b, c, d⟩ := this
        exact ⟨by omega, by omega, c, d⟩
    · have : mx = mn + 1 := by omega
      subst this
      simp [hmn, hmx]

theorem scanDown_spec (pr : PA) (anchor : Root) (s0 : Nat) (h0 : hasRef pr anchor s0 = true) :
    ∀ n, let r := scanDown pr anchor s0 n
      s0 ≤ r ∧ r ≤ s0 + n ∧ hasRef pr anchor r = true ∧ ∀ s, r < s → s ≤ s0 + n → hasRef pr anchor s = false := by
  intro n
  induction n with
  | zero => simp [scanDown, h0]; intro s h1 h2; omega
  | succ n ih =>
    simp only [scanDown]
    split
    · rename_i h; refine ⟨by omega, by omega, h, ?_⟩; intro s h1 h2; omega
    · rename_i h
      obtain ⟨a, b, c, d⟩ := ih
      refine ⟨a, by omega, c, ?_⟩
      intro s h1 h2
      by_cases hs : s = s0 + n + 1
      · subst hs; simpa using h
      · exact d s h1 (by omega)

/-- C11: the binary search of `ClosestToSlot` returns what the linear scan returns. -/
theorem closestToSlot_eq_linear (pr : PA) (hc : Contig pr)
    (hbs : ∀ root s, aGet pr.blockSlots root = some s → (aGet pr.indices ⟨s, root⟩).isSome)
    (anchor : Root) (slot : Nat) :
    pr.closestToSlot anchor slot = closestLinear pr anchor slot := by
  unfold PA.closestToSlot closestLinear
  by_cases hs : hasRef pr anchor slot = true
  · simp [hasRef] at hs; simp [hasRef, hs]
  · have hs' : (aGet pr.indices ⟨slot, anchor⟩).isSome = false := by simpa [hasRef] using hs
    simp only [hasRef, hs', Bool.false_eq_true, if_false]
    cases hb : aGet pr.blockSlots anchor with
    | none => rfl
    | some s0 =>
      simp only
      by_cases hgt : s0 > slot
      · simp [hgt]
      · simp only [hgt, if_false]
        have h0 : hasRef pr anchor s0 = true := hbs anchor s0 hb
        by_cases heq : s0 = slot
        · subst heq; rw [h0] at hs; exact absurd rfl hs
        · simp only [heq, if_false]
          have hlt : s0 < slot := by omega
          have hdown : ∀ s s', hasRef pr anchor s = true → s' ≤ s → s0 ≤ s' → hasRef pr anchor s' = true :=
            fun s s' h1 h2 h3 => hc anchor s0 s s' hb h1 h3 h2
          have hb1 := bsearch_spec pr anchor s0 slot s0 slot (Nat.le_refl _) hlt (by omega) h0
            (by simpa using hs)
          simp only at hb1
          obtain ⟨a1, a2, a3, a4⟩ := hb1
          obtain ⟨b1, b2, b3, b4⟩ := scanDown_spec pr anchor s0 h0 (slot - s0)
          -- both are the greatest slot below `slot` with a node
          have : pr.bsearch anchor slot s0 slot = scanDown pr anchor s0 (slot - s0) := by
            rcases Nat.lt_trichotomy (pr.bsearch anchor slot s0 slot) (scanDown pr anchor s0 (slot - s0)) with h | h | h
            · have := hdown _ (pr.bsearch anchor slot s0 slot + 1) b3 (by omega) (by omega)
              simp [this] at a4
            · exact h
            · have := b4 _ h (by omega); simp [this] at a3
          rw [this]

end Zrnt.ForkChoice
