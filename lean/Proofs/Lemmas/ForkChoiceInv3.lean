import Proofs.Lemmas.ForkChoiceInv2
import Proofs.Lemmas.ForkChoiceBest
import Proofs.Lemmas.ForkChoicePrune
/-! Links invariant over all admissible operation sequences: while the connections are flagged up to date, every
best-child / best-descendant link is the GHOST choice (`MInv3`). -/
namespace Zrnt.ForkChoice

/-- while the connections are flagged up to date, every link is the GHOST choice and `nodeLeads` is `leads` -/
def LI (pr : PA) : Prop :=
  pr.updated = true → LinksOK pr ∧ ∀ (i : Nat) (n : Node), pr.nodes[i]? = some n → pr.nodeLeads n = some (leads pr i)

/-- the state after a query: unchanged, or the connections were brought up to date -/
def Conn (pr s : PA) : Prop := s = pr ∨ (pr.updated = false ∧ s = (pr.updateConnections).1)

/-- the state carried by an outcome -/
def stateOf {α : Type} (pr : PA) : POut PA α → PA
  | .ok s _ => s
  | .err s => s
  | _ => pr

theorem li_conn (pr s : PA) (h : WF pr) (hc : Chain pr) (hl : LI pr) (c : Conn pr s) : LI s := by
  rcases c with e | ⟨_, e⟩
  · rw [e]; exact hl
  · rw [e]; intro _; exact linksOK_updateConnections pr h (sibDistinct_of_chain pr h hc)

theorem conn_findHead (pr : PA) (h : WF pr) (root : Root) (slot : Nat) :
    Conn pr (stateOf pr (pr.findHead root slot)) := by
  rw [findHead_eq]
  split
  · rcases findHeadStep_cases pr h root slot with ⟨r, e, _⟩ | e
    · rw [e]; exact Or.inl rfl
    · rw [e]; exact Or.inl rfl
  · rename_i hu
    obtain ⟨pr1, h1, hw1, _, _⟩ := wf_updateConnections pr h
    rw [h1]
    simp only
    have hu' : pr.updated = false := by simpa using hu
    have e1 : (pr.updateConnections).1 = pr1 := by rw [h1]
    rcases findHeadStep_cases pr1 hw1 root slot with ⟨r, e, _⟩ | e
    · rw [e]; exact Or.inr ⟨hu', e1.symm⟩
    · rw [e]; exact Or.inr ⟨hu', e1.symm⟩

theorem conn_canonicalChain (pr : PA) (h : WF pr) (root : Root) (slot : Nat) :
    Conn pr (stateOf pr (pr.canonicalChain root slot)) := by
  have hc := conn_findHead pr h root slot
  unfold PA.canonicalChain
  cases hf : pr.findHead root slot with
  | ok s a => rw [hf] at hc; simp only; split <;> exact hc
  | err s => rw [hf] at hc; exact hc
  | panic => exact Or.inl rfl
  | spin => exact Or.inl rfl

theorem conn_search (pr : PA) (h : WF pr) (anchor : NodeRef) (pR : Option Root) (sl : Option Nat) :
    Conn pr (stateOf pr (pr.search anchor pR sl)) := by
  have hc := conn_findHead pr h anchor.root anchor.slot
  unfold PA.search
  cases hf : pr.findHead anchor.root anchor.slot with
  | ok s a => rw [hf] at hc; simp only; split <;> first | exact hc | exact Or.inl rfl
  | err s => rw [hf] at hc; exact hc
  | panic => exact Or.inl rfl
  | spin => exact Or.inl rfl

theorem conn_canonAtSlot (pr : PA) (h : WF pr) (anchor : Root) (slot : Nat) (wb : Bool) :
    Conn pr (stateOf pr (pr.canonAtSlot anchor slot wb)) := by
  unfold PA.canonAtSlot
  have triv : Conn pr pr := Or.inl rfl
  cases hb : aGet pr.blockSlots anchor with
  | none => exact triv
  | some anchorSlot =>
    simp only
    split
    · exact triv
    · split
      · repeat' split
        all_goals exact triv
      · have hc := conn_findHead pr h anchor anchorSlot
        cases hf : pr.findHead anchor anchorSlot with
        | ok s a =>
          rw [hf] at hc; simp only
          split
          · exact hc
          · split <;> exact hc
        | err s => rw [hf] at hc; exact hc
        | panic => exact triv
        | spin => exact triv

theorem conn_inSubtree (pr : PA) (h : WF pr) (a r : Root) : Conn pr (stateOf pr (pr.inSubtree a r)) := by
  unfold PA.inSubtree
  have triv : Conn pr pr := Or.inl rfl
  have hstep : ∀ q : PA, Conn pr q →
      Conn pr (stateOf pr (match aGet q.blockSlots a with
          | none => POut.ok q (true, false)
          | some anchorSlot =>
            match aGet q.indices ⟨anchorSlot, a⟩ with
            | none => POut.ok q (true, false)
            | some anchorIndex =>
              match aGet q.blockSlots r with
              | none => POut.ok q (true, false)
              | some slot =>
                match aGet q.indices ⟨slot, r⟩ with
                | none => POut.ok q (true, false)
                | some lookupIndex =>
                  if q.inSubtreeSpins anchorIndex lookupIndex then POut.spin else
                  match q.inSubtreeIdx anchorIndex lookupIndex with
                  | none => POut.panic
                  | some r => POut.ok q r)) := by
    intro q hq
    repeat' split
    all_goals first
      | exact hq
      | exact triv
  split
  · split <;> exact triv
  · simp only
    split
    · exact hstep pr triv
    · rename_i hu
      have hu' : pr.updated = false := by simpa using hu
      obtain ⟨pr1, h1, _, _, _⟩ := wf_updateConnections pr h
      have e1 : (pr.updateConnections).1 = pr1 := by rw [h1]
      rw [h1]
      exact hstep pr1 (Or.inr ⟨hu', e1.symm⟩)

open FC

/-- outcome predicate: the state carried by the outcome satisfies `Q` -/
def OutQ {α : Type} (Q : FC → Prop) (r : Out FC α) : Prop :=
  match r with
  | .ok s _ => Q s
  | .err s => Q s
  | _ => True

def LQ (s : FC) : Prop := LI s.pa

theorem outQ_withLock {α : Type} (fc : FC) (body : FC → Out FC α)
    (hb : OutQ LQ (body { fc with held := true })) : OutQ LQ (fc.withLock body) := by
  unfold withLock
  split
  · trivial
  · revert hb
    cases body { fc with held := true } <;> exact fun hb => hb

theorem li_applyScoreChanges (pr : PA) (h : WF pr) (hc : Chain pr) (ds : List Int) (hl : ds.length = pr.nodes.length)
    (jE fE : Nat) (pr' : PA) (e : pr.applyScoreChanges ds jE fE = .ok pr' ()) : LI pr' := by
  obtain ⟨q, e2, _, _, hlk, hnl⟩ := linksOK_applyScoreChanges pr h (sibDistinct_of_chain pr h hc) ds hl jE fE
  rw [e] at e2
  injection e2 with e3
  subst e3
  exact fun _ => ⟨hlk, hnl⟩

theorem li_updateVotesMaybe (fc : FC) (I : FI fc) (hl : LI fc.pa) : OutQ LQ fc.updateVotesMaybe := by
  unfold updateVotesMaybe
  split
  · exact hl
  · obtain ⟨ds, vs', e, hlen, _⟩ := computeDeltas_ok fc.pa I.wf fc.votes fc.balances fc.balances
    rw [e]
    simp only
    cases he : fc.pa.applyScoreChanges ds fc.justified.epoch fc.finalized.epoch with
    | ok pa u => exact li_applyScoreChanges fc.pa I.wf I.chain ds hlen _ _ pa he
    | err pa =>
      obtain ⟨pr', e2, _⟩ := wf_applyScoreChanges fc.pa I.wf ds hlen fc.justified.epoch fc.finalized.epoch
      rw [he] at e2; cases e2
    | panic => trivial
    | spin => trivial

theorem li_liftPA {α : Type} (fc : FC) (I : FI fc) (hl : LI fc.pa) (r : POut PA α)
    (hc : Conn fc.pa (stateOf fc.pa r)) : OutQ LQ (fc.liftPA r) := by
  unfold liftPA
  cases r with
  | ok s a => exact li_conn fc.pa s I.wf I.chain hl hc
  | err s => exact li_conn fc.pa s I.wf I.chain hl hc
  | panic => trivial
  | spin => trivial

theorem li_afterVotes {α : Type} (fc : FC) (I : FI fc) (hl : LI fc.pa) (f : PA → POut PA α)
    (hf : ∀ pr, WF pr → Conn pr (stateOf pr (f pr))) : OutQ LQ (fc.afterVotes f) := by
  unfold afterVotes
  have h1 := li_updateVotesMaybe fc I hl
  obtain ⟨fc', e, I', _⟩ := updateVotesMaybe_inv fc I
  rw [e] at h1 ⊢
  exact li_liftPA fc' I' h1 _ (hf _ I'.wf)

theorem processSlot_updated (pr : PA) (p : Root) (s j f : Nat) :
    pr.processSlot p s j f = pr ∨ (pr.processSlot p s j f).updated = false := by
  unfold PA.processSlot
  split
  · exact Or.inl rfl
  · exact Or.inr rfl

theorem processBlock_updated (pr : PA) (p r : Root) (s j f : Nat) (pr' : PA) (b : Bool)
    (e : pr.processBlock p r s j f = some (pr', b)) : pr' = pr ∨ pr'.updated = false := by
  unfold PA.processBlock at e
  split at e
  · cases e; exact Or.inl rfl
  · split at e
    · cases e; exact Or.inl rfl
    · split at e
      · cases e; exact Or.inl rfl
      · split at e
        · cases e; exact Or.inl rfl
        · simp only at e
          split at e
          · cases e; exact processSlot_updated pr p s j f
          · split at e
            · cases e
            · cases e; exact Or.inr rfl

theorem li_checkCp (fc : FC) (I : FI fc) (hl : LI fc.pa) (changed : Bool) (cp : Checkpoint) (k : FC → Out FC Unit)
    (hk : ∀ fc', FI fc' → LI fc'.pa → OutQ LQ (k fc')) : OutQ LQ (fc.checkCp changed cp k) := by
  unfold checkCp
  split
  · have hc := conn_inSubtree fc.pa I.wf fc.finalized.root cp.root
    obtain ⟨pr', res, e, hw, hf⟩ := inSubtree_wf fc.pa I.wf fc.finalized.root cp.root
    rw [e] at hc ⊢
    obtain ⟨u, i⟩ := res
    simp only
    have hl' : LI pr' := li_conn fc.pa pr' I.wf I.chain hl hc
    have I' : FI { fc with pa := pr' } := PInv.frame I hw hf
    split
    · exact hl'
    · split
      · exact hl'
      · exact hk _ I' hl'
  · exact hk fc I hl

theorem li_inner (fc : FC) (I : FI fc) (hl : LI fc.pa) (f j : Checkpoint) (b : Option (List Nat)) :
    OutQ LQ (fc.updateJustifiedInner f j b) := by
  unfold updateJustifiedInner
  split
  · exact hl
  · apply li_checkCp fc I hl
    intro fc1 I1 hl1
    apply li_checkCp fc1 I1 hl1
    intro fc2 I2 hl2
    cases b with
    | none => exact hl2
    | some newBals =>
      simp only
      obtain ⟨ds, vs', e, hlen, _⟩ := computeDeltas_ok fc2.pa I2.wf fc2.votes fc2.balances newBals
      rw [e]
      simp only
      cases he : fc2.pa.applyScoreChanges ds j.epoch f.epoch with
      | ok pa u => exact li_applyScoreChanges fc2.pa I2.wf I2.chain ds hlen _ _ pa he
      | err pa =>
        obtain ⟨pr', e2, _⟩ := wf_applyScoreChanges fc2.pa I2.wf ds hlen j.epoch f.epoch
        rw [he] at e2; cases e2
      | panic => trivial
      | spin => trivial

theorem leadsF_sinkLog (pr : PA) (l : List (NodeRef × Bool × Bool)) :
    ∀ fuel i, leadsF { pr with sinkLog := l } fuel i = leadsF pr fuel i := by
  intro fuel
  induction fuel with
  | zero => intro i; rfl
  | succ f ih =>
    intro i
    have hf : leadsF { pr with sinkLog := l } f = leadsF pr f := funext ih
    simp only [leadsF, hf]
    rfl

theorem li_sinkLog (pr : PA) (l : List (NodeRef × Bool × Bool)) (hl : LI pr) : LI { pr with sinkLog := l } := by
  intro hu
  obtain ⟨a1, a2⟩ := hl hu
  have hleads : ∀ i, leads { pr with sinkLog := l } i = leads pr i := fun i => leadsF_sinkLog pr l _ i
  refine ⟨?_, ?_⟩
  · intro p n hn
    have := a1 p n hn
    refine ⟨?_, ?_⟩
    · intro hb c hc; rw [hleads]; exact this.1 hb c hc
    · intro b hb
      obtain ⟨x1, x2, x3, x4⟩ := this.2 b hb
      exact ⟨x1, by rw [hleads]; exact x2, fun c hc hlc => x3 c hc (by rw [← hleads]; exact hlc), x4⟩
  · intro i n hn
    rw [hleads]
    exact a2 i n hn

/-- `OnPrune` keeps the links invariant: either only the sink log changed, or the connections are flagged stale -/
theorem li_onPrune (pr : PA) (h : WF pr) (hl : LI pr) (root : Root) (slot : Nat) :
    match pr.onPrune root slot with
    | .ok s _ => LI s
    | .err s => LI s
    | _ => True := by
  rcases onPrune_cases pr h root slot with ⟨_, e⟩ | ⟨a, _, l, e | ⟨_, e⟩ | ⟨_, e⟩⟩
  · rw [e]; exact hl
  · rw [e]; exact li_sinkLog pr l hl
  · rw [e]; exact li_sinkLog pr l hl
  · rw [e]; intro hu; simp at hu

theorem li_updateJustified (fc : FC) (I : FI fc) (hl : LI fc.pa) (t : Root) (j f : Checkpoint)
    (b : Option (List Nat)) : OutQ LQ (fc.updateJustified t j f b) := by
  unfold updateJustified
  apply outQ_withLock
  simp only
  split
  · exact hl
  · have hafter : ∀ fc1 : FC, FI fc1 → LI fc1.pa → OutQ LQ (
        match fc1.updateJustifiedInner f j b with
        | .panic => .panic
        | .blocked => .blocked
        | .err fc => .err fc
        | .ok fc _ =>
          if fc1.finalized ≠ f then
            match ({ fc with pin := none } : FC).pa.onPrune f.root (f.epoch * ({ fc with pin := none } : FC).spe) with
            | .panic => .panic
            | .spin => .blocked
            | .err pa => .err { ({ fc with pin := none } : FC) with pa := pa }
            | .ok pa _ => .ok { ({ fc with pin := none } : FC) with pa := pa } ()
          else .ok fc ()) := by
      intro fc1 I1 hl1
      have hi := li_inner fc1 I1 hl1 f j b
      have hk := inner_inv fc1 I1 f j b
      cases he : fc1.updateJustifiedInner f j b with
      | panic => trivial
      | blocked => trivial
      | err s => rw [he] at hi; exact hi
      | ok s u =>
        rw [he] at hi hk
        simp only
        split
        · have hp := li_onPrune s.pa hk.1.wf hi f.root (f.epoch * s.spe)
          revert hp
          show (match s.pa.onPrune f.root (f.epoch * s.spe) with
              | .ok q _ => LI q | .err q => LI q | _ => True) → _
          cases s.pa.onPrune f.root (f.epoch * s.spe) with
          | ok pa u => exact fun hp => hp
          | err pa => exact fun hp => hp
          | panic => exact fun _ => trivial
          | spin => exact fun _ => trivial
        · exact hi
    cases hpin : fc.pin with
    | none => exact hafter _ I hl
    | some pin =>
      simp only
      split
      · have hc := conn_inSubtree fc.pa I.wf pin.root t
        obtain ⟨pr', res, e, hw, hf⟩ := inSubtree_wf fc.pa I.wf pin.root t
        rw [e] at hc ⊢
        obtain ⟨u, i⟩ := res
        simp only
        have hl' : LI pr' := li_conn fc.pa pr' I.wf I.chain hl hc
        have I' : FI { fc with pa := pr', held := true } := PInv.frame I hw hf
        split
        · exact hl'
        · split
          · exact hl'
          · exact hafter _ I' hl'
      · exact hafter _ I hl

theorem li_stepLive (fc : FC) (hh : fc.held = false) (I : FI fc) (hl : LI fc.pa) (op : Op) (hok : StepOK (.live fc) op) :
    match (stepLive fc op).1 with
    | .live s => LI s.pa
    | _ => True := by
  have fin : ∀ {α : Type} (r : Out FC α) (f : α → Ans), OutQ LQ r →
      (match (finish r f).1 with | .live s => LI s.pa | _ => True) := by
    intro α r f h
    unfold finish
    cases r <;> first | exact h | trivial
  cases op with
  | init => exact hl
  | slot p s j f =>
    apply fin
    unfold FC.processSlot
    apply outQ_withLock
    rcases processSlot_updated fc.pa p s j f with e | e
    · show LI _; simp only; rw [e]; exact hl
    · show LI _; intro hu; simp only at hu; rw [e] at hu; cases hu
  | block p r s j f =>
    apply fin
    unfold FC.processBlock
    apply outQ_withLock
    simp only
    cases e : fc.pa.processBlock p r s j f with
    | none => trivial
    | some x =>
      obtain ⟨pr', b⟩ := x
      simp only
      rcases processBlock_updated fc.pa p r s j f pr' b e with e1 | e1
      · show LI _; simp only; rw [e1]; exact hl
      · show LI _; intro hu; simp only at hu; rw [e1] at hu; cases hu
  | att v r s =>
    apply fin
    unfold FC.processAttestation
    apply outQ_withLock
    simp only
    repeat' split
    all_goals exact hl
  | justify t j f b =>
    have I0 : FI { fc with pa := { fc.pa with sinkLog := [] } } :=
      ⟨wf_sinkLog I.wf [], chain_congr (pr := fc.pa) (pr' := { fc.pa with sinkLog := [] }) rfl rfl rfl (fun _ => rfl) I.chain,
        I.nz, fun i n hn => by
        have := I.w i n hn
        rw [this]
        exact (wsumFrom_congr fc.pa { fc.pa with sinkLog := [] } fc.balances i fc.votes 0 (fun _ _ => rfl)).symm⟩
    have hl0 : LI ({ fc.pa with sinkLog := [] } : PA) := li_sinkLog fc.pa [] hl
    have hs := li_updateJustified { fc with pa := { fc.pa with sinkLog := [] } } I0 hl0 t j f b
    unfold stepLive
    simp only
    cases he : FC.updateJustified { fc with pa := { fc.pa with sinkLog := [] } } t j f b with
    | ok s a => rw [he] at hs; exact hs
    | err s => rw [he] at hs; exact hs
    | panic => trivial
    | blocked => trivial
  | pin r s =>
    apply fin
    rcases setPin_eq fc hh r s with e | e <;> (rw [e]; exact hl)
  | head =>
    apply fin
    unfold FC.head
    apply outQ_withLock
    have h1 := li_updateVotesMaybe { fc with held := true } I hl
    obtain ⟨fc', e, I', _⟩ := updateVotesMaybe_inv { fc with held := true } I
    rw [e] at h1 ⊢
    simp only
    split
    · exact li_liftPA fc' I' h1 _ (conn_findHead _ I'.wf _ _)
    · exact li_liftPA fc' I' h1 _ (conn_findHead _ I'.wf _ _)
  | findHead r s =>
    apply fin; unfold FC.findHead; apply outQ_withLock
    exact li_afterVotes { fc with held := true } I hl _ (fun pr hw => conn_findHead pr hw r s)
  | chain r s =>
    apply fin; unfold FC.canonicalChain; apply outQ_withLock
    exact li_afterVotes { fc with held := true } I hl _ (fun pr hw => conn_canonicalChain pr hw r s)
  | closest r s =>
    apply fin; unfold FC.closestToSlot; apply outQ_withLock
    simp only
    split <;> exact hl
  | canonAt r s w =>
    apply fin; unfold FC.canonAtSlot; apply outQ_withLock
    exact li_afterVotes { fc with held := true } I hl _ (fun pr hw => conn_canonAtSlot pr hw r s w)
  | getSlot r => apply fin; unfold FC.getSlot; apply outQ_withLock; exact hl
  | inSub a r =>
    apply fin; unfold FC.inSubtree; apply outQ_withLock
    exact li_liftPA { fc with held := true } I hl _ (conn_inSubtree fc.pa I.wf a r)
  | search a p s =>
    apply fin; unfold FC.search; apply outQ_withLock
    exact li_afterVotes { fc with held := true } I hl _ (fun pr hw => conn_search pr hw a p s)
  | just => exact hl
  | fin => exact hl
  | pinq => exact hl
  | nodes => exact hl

theorem li_new (parent root : Root) (slot jE fE : Nat) (sink : SinkKind) : LI (PA.new parent root slot jE fE sink) := by
  intro _
  have hf : ∀ c, fpar (PA.new parent root slot jE fE sink).nodes c = none := by
    intro c
    cases c with
    | zero => rfl
    | succ k => simp [fpar, PA.new]
  constructor
  · intro p n hn
    have hb : n.bestChild = none := by
      cases p with
      | zero => simp [PA.new] at hn; subst hn; rfl
      | succ k => simp [PA.new] at hn
    refine ⟨fun _ c hc => ?_, fun b hbb => ?_⟩
    · rw [hf c] at hc; cases hc
    · rw [hb] at hbb; cases hbb
  · intro i n hn
    cases i with
    | succ k => simp [PA.new] at hn
    | zero =>
      simp [PA.new] at hn
      subst hn
      have hch : childrenOf (PA.new parent root slot jE fE sink).nodes 0 = [] := by
        simp [childrenOf, PA.new, fpar]
      simp [PA.nodeLeads, leads, leadsF, viableAt, PA.new, childrenOf, fpar]

/-- the constructor establishes the links invariant -/
theorem li_newFC (spe : Nat) (f j : Checkpoint) (ar : Root) (aslot : Nat) (ap : Root) (bals : List Nat) (sink : SinkKind)
    (hr : ar ≠ 0) : OutQ LQ (FC.new spe f j ar aslot ap bals sink) := by
  unfold FC.new
  simp only
  have I0 := pinv_new ap ar aslot j.epoch f.epoch sink hr
  rcases setPin_eq (FC.mk (PA.new ap ar aslot j.epoch f.epoch sink) [] true spe [] none j f false) rfl ar aslot with e | e
  · rw [e]
    exact li_inner (FC.mk (PA.new ap ar aslot j.epoch f.epoch sink) [] true spe [] (some ⟨aslot, ar⟩) j f false) I0
      (li_new ap ar aslot j.epoch f.epoch sink) f j (some bals)
  · rw [e]
    exact fun hu => li_new ap ar aslot j.epoch f.epoch sink hu

/-! ## machine level -/

/-- full invariant incl. links -/
def MInv3 : MState → Prop
  | .none => True
  | .live fc => fc.held = false ∧ FI fc ∧ LI fc.pa
  | .dead => False

theorem step_inv3 (st : MState) (h : MInv3 st) (op : Op) (hok : StepOK st op) : MInv3 (step st op).1 := by
  have h2 : MInv2 st := by
    cases st with
    | none => trivial
    | dead => exact h.elim
    | live fc => exact ⟨h.1, h.2.1⟩
  have h2' := step_inv2 st h2 op hok
  cases op with
  | init spe ar aslot ap j f sink bals =>
    have hl := li_newFC spe f j ar aslot ap bals sink (by cases st <;> exact hok)
    revert h2' hl
    unfold step
    simp only
    cases FC.new spe f j ar aslot ap bals sink with
    | ok fc u => exact fun a b => ⟨a.1, a.2, b⟩
    | err s => exact fun _ _ => trivial
    | panic => exact fun a _ => a
    | blocked => exact fun a _ => a
  | _ =>
    cases st with
    | none => trivial
    | dead => exact h.elim
    | live fc =>
      have hl := li_stepLive fc h.1 h.2.1 h.2.2 _ hok
      revert h2' hl
      simp only [step]
      cases (stepLive fc _).1 with
      | none => exact fun _ _ => trivial
      | dead => exact fun a _ => a
      | live s => exact fun a b => ⟨a.1, a.2, b⟩

end Zrnt.ForkChoice
