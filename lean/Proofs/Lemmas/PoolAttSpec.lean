import Proofs.Lemmas.PoolBits
import Zrnt.Pool.Spec
/-!
# Facts about the list-of-accepted-items specification of the attestation pool
-/
set_option linter.unusedSectionVars false
set_option linter.unusedSimpArgs false
namespace Zrnt.Pool.Spec
open Zrnt Zrnt.Pool

/-- the first accepted individual attestation of `(v, epoch)`: data and signature -/
def singleRef (log : AttSpec) (v epoch : Nat) : Option (AttData × Nat) :=
  log.findSome? fun
    | .single v' d sig => if v' = v ∧ d.target = epoch then some (d, sig) else none
    | _ => none

theorem singleVote_eq (log : AttSpec) (v e : Nat) : singleVote log v e = (singleRef log v e).map (·.1) := by
  unfold singleVote singleRef
  induction log with
  | nil => rfl
  | cons ev log ih =>
    cases ev with
    | single v' d sig =>
      by_cases h : v' = v ∧ d.target = e
      · simp [List.findSome?_cons, h]
      · simp [List.findSome?_cons, h, ih]
    | agg d b s c => simp [List.findSome?_cons, ih]

/-- OR of the bits of a non-empty list of aggregates (`[]` for none) -/
def unionAll : List Agg → Bits
  | [] => []
  | f :: r => unionBits f.bits r

theorem unionAll_append_singleton (l : List Agg) (hl : l ≠ []) (a : Agg) :
    unionAll (l ++ [a]) = match Pool.or (unionAll l) a.bits with | .ok r => r | _ => unionAll l := by
  cases l with
  | nil => exact absurd rfl hl
  | cons f r =>
    simp only [unionAll, unionBits, List.cons_append, List.foldl_append, List.foldl_cons, List.foldl_nil]
    generalize Pool.or _ a.bits = x
    cases x <;> rfl

/-! ### appending an accepted item -/

theorem aggsFor_append_single (log : AttSpec) (v : Nat) (d' : AttData) (sig : Nat) (d : AttData) :
    aggsFor (log ++ [.single v d' sig]) d = aggsFor log d := by
  simp [aggsFor, List.filterMap_append]

theorem aggsFor_append_agg (log : AttSpec) (d' : AttData) (bits : Bits) (sig : Nat) (c : List Nat) (d : AttData) :
    aggsFor (log ++ [.agg d' bits sig c]) d = if d' = d then aggsFor log d ++ [⟨bits, sig⟩] else aggsFor log d := by
  by_cases h : d' = d <;> simp [aggsFor, List.filterMap_append, h]

theorem singleRef_append_agg (log : AttSpec) (d' : AttData) (bits : Bits) (sig : Nat) (c : List Nat) (v e : Nat) :
    singleRef (log ++ [.agg d' bits sig c]) v e = singleRef log v e := by
  simp [singleRef, List.findSome?_append]

theorem singleRef_append_single (log : AttSpec) (v' : Nat) (d' : AttData) (sig : Nat) (v e : Nat) :
    singleRef (log ++ [.single v' d' sig]) v e =
      (singleRef log v e).or (if v' = v ∧ d'.target = e then some (d', sig) else none) := by
  simp [singleRef, List.findSome?_append]

theorem votedAgg_append_single (log : AttSpec) (v' : Nat) (d' : AttData) (sig : Nat) (v e : Nat) :
    votedAgg (log ++ [.single v' d' sig]) v e = votedAgg log v e := by
  simp [votedAgg, List.any_append]

theorem votedAgg_append_agg (log : AttSpec) (d' : AttData) (bits : Bits) (sig : Nat) (c : List Nat) (v e : Nat) :
    votedAgg (log ++ [.agg d' bits sig c]) v e =
      (votedAgg log v e || (d'.target = e && (participants bits c).contains v)) := by
  simp [votedAgg, List.any_append]

/-! ### pruning -/

@[simp] theorem target_single (v : Nat) (d : AttData) (s : Nat) : (Ev.single v d s).target = d.target := rfl
@[simp] theorem target_agg (d : AttData) (b : Bits) (s : Nat) (c : List Nat) : (Ev.agg d b s c).target = d.target := rfl

theorem prune_cons (ev : Ev) (log : AttSpec) (e : Nat) :
    prune (ev :: log) e = if ev.target < e - 1 then prune log e else ev :: prune log e := by
  by_cases h : ev.target < e - 1 <;> simp [prune, List.filter_cons, h]

theorem prune_nil (e : Nat) : prune [] e = [] := rfl

theorem aggsFor_cons_single (v : Nat) (d' : AttData) (s : Nat) (log : AttSpec) (d : AttData) :
    aggsFor (.single v d' s :: log) d = aggsFor log d := by simp [aggsFor]

theorem aggsFor_cons_agg (d' : AttData) (b : Bits) (s : Nat) (c : List Nat) (log : AttSpec) (d : AttData) :
    aggsFor (.agg d' b s c :: log) d = if d' = d then ⟨b, s⟩ :: aggsFor log d else aggsFor log d := by
  by_cases h : d' = d <;> simp [aggsFor, h]

theorem singleRef_cons_single (v' : Nat) (d' : AttData) (s : Nat) (log : AttSpec) (v e : Nat) :
    singleRef (.single v' d' s :: log) v e = if v' = v ∧ d'.target = e then some (d', s) else singleRef log v e := by
  by_cases h : v' = v ∧ d'.target = e <;> simp [singleRef, List.findSome?_cons, h]

theorem singleRef_cons_agg (d' : AttData) (b : Bits) (s : Nat) (c : List Nat) (log : AttSpec) (v e : Nat) :
    singleRef (.agg d' b s c :: log) v e = singleRef log v e := by simp [singleRef, List.findSome?_cons]

theorem votedAgg_cons_single (v' : Nat) (d' : AttData) (s : Nat) (log : AttSpec) (v e : Nat) :
    votedAgg (.single v' d' s :: log) v e = votedAgg log v e := by simp [votedAgg]

theorem votedAgg_cons_agg (d' : AttData) (b : Bits) (s : Nat) (c : List Nat) (log : AttSpec) (v e : Nat) :
    votedAgg (.agg d' b s c :: log) v e =
      ((d'.target = e && (participants b c).contains v) || votedAgg log v e) := by simp [votedAgg]

theorem aggsFor_prune (log : AttSpec) (e : Nat) (d : AttData) :
    aggsFor (prune log e) d = if d.target < e - 1 then [] else aggsFor log d := by
  induction log with
  | nil => simp [prune_nil, aggsFor]
  | cons ev log ih =>
    cases ev with
    | single v d' sig =>
      by_cases h : d'.target < e - 1 <;> simp [prune_cons, h, aggsFor_cons_single, ih]
    | agg d' b s c =>
      by_cases h : d'.target < e - 1 <;> by_cases hd : d' = d
      · subst hd; simp [prune_cons, h, aggsFor_cons_agg, ih]
      · simp [prune_cons, h, aggsFor_cons_agg, ih, hd]
      · subst hd; simp [prune_cons, h, aggsFor_cons_agg, ih]
      · simp [prune_cons, h, aggsFor_cons_agg, ih, hd]

theorem singleRef_prune (log : AttSpec) (e : Nat) (v ep : Nat) :
    singleRef (prune log e) v ep = if ep < e - 1 then none else singleRef log v ep := by
  induction log with
  | nil => simp [prune_nil, singleRef]
  | cons ev log ih =>
    cases ev with
    | single v' d' sig =>
      by_cases h : d'.target < e - 1 <;> by_cases hd : v' = v ∧ d'.target = ep
      · obtain ⟨rfl, rfl⟩ := hd
        simp [prune_cons, h, singleRef_cons_single, ih]
      · simp [prune_cons, h, singleRef_cons_single, ih, hd]
      · obtain ⟨rfl, rfl⟩ := hd
        simp [prune_cons, h, singleRef_cons_single, ih]
      · simp [prune_cons, h, singleRef_cons_single, ih, hd]
    | agg d' b s c =>
      by_cases h : d'.target < e - 1 <;> simp [prune_cons, h, singleRef_cons_agg, ih]

theorem votedAgg_prune (log : AttSpec) (e : Nat) (v ep : Nat) :
    votedAgg (prune log e) v ep = (votedAgg log v ep && !decide (ep < e - 1)) := by
  induction log with
  | nil => simp [prune_nil, votedAgg]
  | cons ev log ih =>
    cases ev with
    | single v' d' sig =>
      by_cases h : d'.target < e - 1 <;> simp [prune_cons, h, votedAgg_cons_single, ih]
    | agg d' b s c =>
      by_cases h : d'.target < e - 1 <;> by_cases hd : d'.target = ep
      · subst hd; simp [prune_cons, h, votedAgg_cons_agg, ih]
      · simp [prune_cons, h, votedAgg_cons_agg, ih, hd]
      · subst hd
        simp only [prune_cons, target_agg, h, if_false, votedAgg_cons_agg, ih, decide_true, Bool.true_and,
          decide_false, Bool.not_false, Bool.and_true]
      · simp [prune_cons, h, votedAgg_cons_agg, ih, hd]

end Zrnt.Pool.Spec
