import Proofs.Lemmas.SSZRoundTrip
/-! `decode` accepts only canonical encodings of well-typed values (the "malformed input is refused" direction). -/
namespace Zrnt.Proofs.SSZ
open Zrnt.SSZ

theorem leToNat_append (xs ys : Bytes) : leToNat (xs ++ ys) = leToNat xs + 256 ^ xs.length * leToNat ys := by
  induction xs with
  | nil => simp [leToNat]
  | cons b r ih =>
    simp only [List.cons_append, leToNat, ih, List.length_cons, Nat.pow_succ]
    rw [Nat.mul_add, ← Nat.mul_assoc, Nat.mul_comm 256 (256 ^ r.length)]
    omega

theorem decode_bitvector_some (n : Nat) (bs : Bytes) (v : Val) (h : decode (.bitvector n) bs = some v) :
    WF (.bitvector n) v ∧ encode (.bitvector n) v = bs := by
  simp only [decode] at h
  split at h
  · rename_i hc
    simp only [Option.some.injEq] at h; subst h
    refine ⟨by simp [WF, natToBits_length], ?_⟩
    simp only [encode, bitsToNat_natToBits, Nat.mod_eq_of_lt hc.2]
    rw [← hc.1, natToLE_leToNat]
  · simp at h

theorem decode_bitlist_some (lim : Nat) (bs : Bytes) (v : Val) (h : decode (.bitlist lim) bs = some v) :
    WF (.bitlist lim) v ∧ encode (.bitlist lim) v = bs := by
  simp only [decode] at h
  split at h
  · simp at h
  · rename_i last hlast
    split at h
    · simp at h
    · rename_i hne
      split at h
      · rename_i hL
        simp only [Option.some.injEq] at h; subst h
        obtain ⟨ys, rfl⟩ := List.getLast?_eq_some_iff.mp hlast
        -- the number: 256^k ≤ N < 256^(k+1)
        have hlt : last.toNat < 256 := by have := UInt8.toNat_lt last; omega
        have hpos : 0 < last.toNat := by
          rcases Nat.eq_zero_or_pos last.toNat with h0 | h0
          · exfalso; apply hne; apply UInt8.toNat_inj.mp; simpa using h0
          · exact h0
        have hys := leToNat_lt ys
        generalize hN : leToNat (ys ++ [last]) = N at hL ⊢
        have hNv : N = leToNat ys + 256 ^ ys.length * last.toNat := by
          rw [← hN, leToNat_append]; simp [leToNat]
        have hlow : 256 ^ ys.length ≤ N := by
          rw [hNv]
          have : 256 ^ ys.length * 1 ≤ 256 ^ ys.length * last.toNat := Nat.mul_le_mul_left _ hpos
          omega
        have hhigh : N < 256 ^ (ys.length + 1) := by
          rw [hNv, Nat.pow_succ]
          have : 256 ^ ys.length * last.toNat ≤ 256 ^ ys.length * 255 := Nat.mul_le_mul_left _ (by omega)
          omega
        have hN0 : N ≠ 0 := by
          have : 0 < 256 ^ ys.length := Nat.pow_pos (by omega)
          omega
        have hl1 : 2 ^ N.log2 ≤ N := Nat.log2_self_le hN0
        have hl2 : N < 2 ^ (N.log2 + 1) := Nat.lt_log2_self
        rw [pow_256] at hlow hhigh
        have ha : 8 * ys.length < N.log2 + 1 :=
          (Nat.pow_lt_pow_iff_right (by omega : 1 < 2)).mp (Nat.lt_of_le_of_lt hlow hl2)
        have hb : N.log2 < 8 * (ys.length + 1) :=
          (Nat.pow_lt_pow_iff_right (by omega : 1 < 2)).mp (Nat.lt_of_le_of_lt hl1 hhigh)
        refine ⟨by simp [WF, natToBits_length, hL], ?_⟩
        simp only [encode, natToBits_length, bitsToNat_snoc_true, bitsToNat_natToBits]
        have hmod : N % 2 ^ N.log2 + 2 ^ N.log2 = N := by
          rw [Nat.mod_eq_sub_mod hl1, Nat.mod_eq_of_lt (by rw [Nat.pow_succ] at hl2; omega)]
          omega
        rw [hmod]
        have hk : N.log2 / 8 + 1 = (ys ++ [last]).length := by simp; omega
        rw [hk, ← hN, natToLE_leToNat]
      · simp at h

mutual
theorem decode_some_aux : ∀ (t : Ty) (bs : Bytes) (v : Val), decode t bs = some v → WF t v ∧ encode t v = bs
  | .uint k, bs, v, h => by
    simp only [decode] at h
    split at h
    · rename_i hk
      simp only [Option.some.injEq] at h; subst h
      have := leToNat_lt bs
      rw [hk, pow_256] at this
      refine ⟨by simpa [WF] using this, ?_⟩
      simp only [encode]
      rw [← hk, natToLE_leToNat]
    · simp at h
  | .bool, bs, v, h => by
    simp only [decode] at h
    split at h
    · rename_i b
      split at h
      · rename_i hb
        simp only [Option.some.injEq] at h; subst h
        simp [WF, encode, hb]
      · split at h
        · rename_i hb
          simp only [Option.some.injEq] at h; subst h
          simp [WF, encode, hb]
        · simp at h
    · simp at h
  | .bytesN n, bs, v, h => by
    simp only [decode] at h
    split at h
    · rename_i hk
      simp only [Option.some.injEq] at h; subst h
      simp [WF, encode, hk]
    · simp at h
  | .vector t n, bs, v, h => by
    simp only [decode] at h
    split at h
    · simp at h
    · rename_i ps hps
      simp only [Option.map_eq_some_iff] at h
      obtain ⟨vs, hvs, rfl⟩ := h
      obtain ⟨hc, hj⟩ := splitParts_some _ _ _ hps
      have hlen := mapOpt_eq_some_length _ _ _ hvs
      have hpl := compat_length hc
      simp only [List.length_replicate] at hpl
      obtain ⟨hP, hmap⟩ := mapOpt_some_inv (P := WF t) (g := encode t) ps vs hvs
        (fun p _ v hv => decode_some_aux t p v hv)
      refine ⟨by simp only [WF]; exact ⟨by omega, hP⟩, ?_⟩
      simp only [encode, hmap]
      rw [hlen, hpl]; exact hj
  | .list t lim, bs, v, h => by
    simp only [decode] at h
    split at h
    · simp at h
    · rename_i ps hps
      simp only [Option.map_eq_some_iff] at h
      obtain ⟨vs, hvs, rfl⟩ := h
      obtain ⟨hl, hc, hj⟩ := splitList_some _ _ _ _ hps
      have hlen := mapOpt_eq_some_length _ _ _ hvs
      obtain ⟨hP, hmap⟩ := mapOpt_some_inv (P := WF t) (g := encode t) ps vs hvs
        (fun p _ v hv => decode_some_aux t p v hv)
      refine ⟨by simp only [WF]; exact ⟨by omega, hP⟩, ?_⟩
      simp only [encode, hmap]
      rw [hlen]; exact hj
  | .bitvector n, bs, v, h => decode_bitvector_some n bs v h
  | .bitlist lim, bs, v, h => decode_bitlist_some lim bs v h
  | .byteList lim, bs, v, h => by
    simp only [decode] at h
    split at h
    · rename_i hk
      simp only [Option.some.injEq] at h; subst h
      simp [WF, encode, hk]
    · simp at h
  | .container fs, bs, v, h => by
    simp only [decode] at h
    split at h
    · simp at h
    · rename_i ps hps
      simp only [Option.map_eq_some_iff] at h
      obtain ⟨vs, hvs, rfl⟩ := h
      obtain ⟨_, hj⟩ := splitParts_some _ _ _ hps
      obtain ⟨hw, he⟩ := decodeFields_some_aux fs ps vs hvs
      exact ⟨by simpa [WF] using hw, by simp only [encode, he]; exact hj⟩
theorem decodeFields_some_aux : ∀ (fs : Fields) (ps : List Bytes) (vs : List Val), decodeFields fs ps = some vs →
    WFFields fs vs ∧ encodeFields fs vs = ps
  | .nil, ps, vs, h => by
    cases ps with
    | nil => simp only [decodeFields, Option.some.injEq] at h; subst h; simp [WFFields, encodeFields]
    | cons p ps => simp [decodeFields] at h
  | .cons _ t r, ps, vs, h => by
    cases ps with
    | nil => simp [decodeFields] at h
    | cons p ps =>
      simp only [decodeFields] at h
      split at h
      · rename_i v ws hv hws
        simp only [Option.some.injEq] at h; subst h
        obtain ⟨h1, h2⟩ := decode_some_aux t p v hv
        obtain ⟨h3, h4⟩ := decodeFields_some_aux r ps ws hws
        exact ⟨by simp only [WFFields]; exact ⟨h1, h3⟩, by simp [encodeFields, h2, h4]⟩
      · simp at h
end

end Zrnt.Proofs.SSZ
