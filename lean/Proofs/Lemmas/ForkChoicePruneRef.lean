import Proofs.Lemmas.ForkChoicePrune
import Proofs.Lemmas.ForkChoiceRefStatic
import Proofs.Lemmas.ForkChoiceInv2
/-!
# Fork choice: the rewritten `OnPrune` refines the specification's `prune`

For related states `Ref fc a` under the invariant `FI fc` (`WF`, `Chain`), an anchor `(root, slot)`, all votes applied
and an empty sink log (as `UpdateJustified` calls it), the model's `PA.onPrune` and the specification's `Abs.prune`
agree: related states afterwards, the same success flag, the same successful sink reports in the same order, the same
failing report (`ref_onPrune`). Auxiliaries live in `Zrnt.ForkChoice.PruneRef`:

1. flags: `keep_eq_inFinalized` (`keepFlags` = `inFinalized`), `canon_iff`, `canon_eq_tAnc`, `canon_dropped`
   (`canonFlags` = proper transition ancestors of the anchor = the specification's flag at every dropped position;
   the specification never flags the anchor: it only reports nodes outside the finalized subtree);
2. sink reports: `calls_eq_reports`, `sinkLoop_recording`, `sinkLoop_failAt`, `sinkLoop_report`;
3. `prune_eq`: the specification's prune as one if-chain (`reportsOf`, `sentFailed`, `goneOf`, `keptNodes`,
   `fixNode`, `fixedNodes`);
4. `reparent_fparent`: the last loop of `OnPrune` characterised completely (`rpT`), not only soundly;
5. chain facts: `tparent_slot_le`, `kept_slot_ge`, `slots_reach`;
6. `gone_contains`, `mem_keptNodes`, `left_firstSlot` (the first slot among the kept nodes = the rebuilt `blockSlots`);
7. one node: `renumber_ref`, `kept_orphan`, `rehang_target` (the guard `parentIndex < i` of the re-hanging loop always
   holds when the specification re-hangs, and the model never re-hangs a node that had no fork-choice parent),
   `fparent_eq`, `node_eq`;
8. `filter_map_of_index`, `nodes_eq`;
9. `ref_setLog`, `ref_pruned`, `Agrees`, `agrees_onPrune`.

Non-vacuity: `exFC`/`exAbs` at the end (three kinds of sink, evaluated on both sides).
-/
namespace Zrnt.ForkChoice
open Spec
namespace PruneRef
open Prune

/-! ## 1. flags -/

/-- the reference of a node is the anchor's iff it sits at the anchor's position -/
theorem ref_eq_anchor {pr : PA} (h : WF pr) {A : NodeRef} {x : Nat} (hx : aGet pr.indices A = some x)
    {i : Nat} {n : Node} (hn : pr.nodes[i]? = some n) : n.ref = A ↔ i = x := by
  obtain ⟨nx, hnx, e⟩ := h.idx_sound _ _ hx
  rw [← e]
  exact h.ref_eq_iff hn hnx

/-- the specification's finalized-subtree walk is the model's first loop, for every sufficient fuel -/
theorem inFin_eq_keepF {fc : FC} {a : Abs} (h : WF fc.pa) (r : Ref fc a) {root : Root} {slot x : Nat}
    (hx : aGet fc.pa.indices ⟨slot, root⟩ = some x) :
    ∀ (fuel i : Nat) (n : Node), fc.pa.nodes[i]? = some n → i < fuel →
      a.inFinalized ⟨slot, root⟩ fuel n.ref = (PA.keepFlags 0 x slot fc.pa.nodes []).getD i false := by
  intro fuel
  induction fuel with
  | zero => intro i n _ hi; omega
  | succ f ih =>
    intro i n hn hi
    rw [keep_get h x slot hn]
    simp only [Abs.inFinalized, find_node h r hn]
    by_cases hix : i = x
    · have : n.ref = ⟨slot, root⟩ := (ref_eq_anchor h hx hn).2 hix
      simp [hix, this]
    · have hne : ¬ n.ref = ⟨slot, root⟩ := fun e => hix ((ref_eq_anchor h hx hn).1 e)
      rw [if_neg hix]
      cases ht : n.tparent with
      | none => rw [absNode_tparent_none _ ht]; simp [hne]
      | some p =>
        obtain ⟨np, hnp, e⟩ := absNode_tparent_of h hn ht
        have hpi := h.tpar_lt i n p hn ht
        rw [e]
        simp only [absNode_ref]
        rw [ih p np hnp (by omega)]
        have h1 : decide (np.ref = (⟨slot, root⟩ : NodeRef)) = (p == x) := by
          by_cases hpx : p = x
          · simp [hpx, (ref_eq_anchor h hx hnp).2 hpx]
          · have : ¬ np.ref = ⟨slot, root⟩ := fun e => hpx ((ref_eq_anchor h hx hnp).1 e)
            simp [hpx, this]
        simp only [hne, decide_false, Bool.false_or, h1]
        rw [Bool.and_comm]
        congr 1

/-- item 1, first loop: `keepFlags` = the specification's `inFinalized` -/
theorem keep_eq_inFinalized {fc : FC} {a : Abs} (h : WF fc.pa) (r : Ref fc a) {root : Root} {slot x : Nat}
    (hx : aGet fc.pa.indices ⟨slot, root⟩ = some x) {i : Nat} {n : Node} (hn : fc.pa.nodes[i]? = some n) :
    (PA.keepFlags 0 x slot fc.pa.nodes []).getD i false = a.inFinalized ⟨slot, root⟩ a.fuel n.ref := by
  have hi : i < fc.pa.nodes.length := (List.getElem?_eq_some_iff.1 hn).1
  rw [fuel_eq r, inFin_eq_keepF h r hx _ i n hn (by omega)]


/-! second loop -/

theorem canonFlags_length (ns : List Node) : ∀ (fuel : Nat) (o : Option Nat) (acc : List Bool),
    (PA.canonFlags 0 ns fuel o acc).length = acc.length := by
  intro fuel
  induction fuel with
  | zero => intro o acc; rfl
  | succ f ih =>
    intro o acc
    cases o with
    | none => rfl
    | some p => rw [PA.canonFlags, ih]; simp

theorem relPos_tparent {pr : PA} (h : WF pr) {p : Nat} {n : Node} (hn : pr.nodes[p]? = some n) :
    PA.relPos 0 n.tparent p = tpar pr.nodes p := by
  rw [tpar_of_node hn]
  cases ht : n.tparent with
  | none => rfl
  | some q => exact relPos_zero_of_lt (h.tpar_lt p n q hn ht)

theorem getD_set_true (acc : List Bool) (p i : Nat) (hp : p < acc.length) :
    (acc.set p true).getD i false = true ↔ i = p ∨ acc.getD i false = true := by
  simp only [List.getD_eq_getElem?_getD]
  by_cases e : i = p
  · subst e; simp [hp]
  · rw [List.getElem?_set_ne (fun e' => e e'.symm)]; simp [e]

theorem preach_step_iff (par : Nat → Option Nat) (i p : Nat) :
    PReach par i p ↔ i = p ∨ ∃ q, par p = some q ∧ PReach par i q := by
  constructor
  · intro hr
    cases hr with
    | refl => exact Or.inl rfl
    | step hp hr' => exact Or.inr ⟨_, hp, hr'⟩
  · rintro (e | ⟨q, hq, hr⟩)
    · subst e; exact .refl
    · exact .step hq hr

/-- the second loop marks the start of the walk and its transition ancestors -/
theorem canonFlags_iff {pr : PA} (h : WF pr) : ∀ (fuel : Nat) (o : Option Nat) (acc : List Bool),
    (∀ p, o = some p → p < fuel ∧ p < pr.nodes.length) → acc.length = pr.nodes.length → ∀ i,
    ((PA.canonFlags 0 pr.nodes fuel o acc).getD i false = true ↔
      acc.getD i false = true ∨ ∃ p, o = some p ∧ PReach (tpar pr.nodes) i p) := by
  intro fuel
  induction fuel with
  | zero =>
    intro o acc ho _ i
    cases o with
    | none => simp [PA.canonFlags]
    | some p => have := (ho p rfl).1; omega
  | succ f ih =>
    intro o acc ho hl i
    cases o with
    | none => simp [PA.canonFlags]
    | some p =>
      obtain ⟨hpf, hpl⟩ := ho p rfl
      obtain ⟨n, hn⟩ : ∃ n, pr.nodes[p]? = some n := ⟨pr.nodes[p], List.getElem?_eq_getElem hpl⟩
      rw [PA.canonFlags, hn]
      simp only
      rw [relPos_tparent h hn]
      rw [ih (tpar pr.nodes p) (acc.set p true) (fun q hq => by
        have := h.tpar_lt2 p q hq
        exact ⟨by omega, by omega⟩) (by simp [hl]) i]
      rw [getD_set_true acc p i (by omega)]
      constructor
      · rintro ((e | e) | ⟨q, hq, hr⟩)
        · exact Or.inr ⟨p, rfl, by subst e; exact .refl⟩
        · exact Or.inl e
        · exact Or.inr ⟨p, rfl, .step hq hr⟩
      · rintro (e | ⟨p', hp', hr⟩)
        · exact Or.inl (Or.inr e)
        · cases hp'
          rcases (preach_step_iff _ i p).1 hr with e | ⟨q, hq, hr'⟩
          · exact Or.inl (Or.inl e)
          · exact Or.inr ⟨q, hq, hr'⟩

/-- the canonical flags of `OnPrune` for the anchor at position `x` -/
def canon (pr : PA) (x : Nat) (an : Node) : List Bool :=
  PA.canonFlags 0 pr.nodes pr.nodes.length (PA.relPos 0 an.tparent x) (List.replicate pr.nodes.length false)

theorem canon_length (pr : PA) (x : Nat) (an : Node) : (canon pr x an).length = pr.nodes.length := by
  unfold canon; rw [canonFlags_length]; simp

/-- item 1, second loop: the flagged positions are the proper transition ancestors of the anchor -/
theorem canon_iff {pr : PA} (h : WF pr) {x : Nat} {an : Node} (hx : pr.nodes[x]? = some an) (i : Nat) :
    (canon pr x an).getD i false = true ↔ i ≠ x ∧ PReach (tpar pr.nodes) i x := by
  have hxl : x < pr.nodes.length := (List.getElem?_eq_some_iff.1 hx).1
  unfold canon
  rw [relPos_tparent h hx, canonFlags_iff h _ _ _ (fun p hp => by
    have := h.tpar_lt2 x p hp
    exact ⟨by omega, by omega⟩) (by simp) i]
  have hf : ¬ (List.replicate pr.nodes.length false).getD i false = true := by
    simp only [List.getD_eq_getElem?_getD, List.getElem?_replicate]
    split <;> simp
  constructor
  · rintro (e | ⟨p, hp, hr⟩)
    · exact absurd e hf
    · have h1 := h.tpar_lt2 x p hp
      have h2 := hr.le h.tpar_lt2
      exact ⟨by omega, .step hp hr⟩
  · rintro ⟨hne, hr⟩
    rcases (preach_step_iff _ i x).1 hr with e | ⟨q, hq, hr'⟩
    · exact absurd e hne
    · exact Or.inr ⟨q, hq, hr'⟩

/-- … as a Boolean, with the specification's walk -/
theorem canon_eq_tAnc {fc : FC} {a : Abs} (h : WF fc.pa) (r : Ref fc a) {root : Root} {slot x : Nat}
    (hx : aGet fc.pa.indices ⟨slot, root⟩ = some x) {an : Node} (han : fc.pa.nodes[x]? = some an)
    {i : Nat} {n : Node} (hn : fc.pa.nodes[i]? = some n) :
    (canon fc.pa x an).getD i false = (decide (i ≠ x) && a.tAncestorOrSelf n.ref a.fuel ⟨slot, root⟩) := by
  have har : an.ref = ⟨slot, root⟩ := (ref_eq_anchor h hx han).2 rfl
  rw [tAncestorOrSelf_eq h r hn rfl han har, Bool.eq_iff_iff, canon_iff h han i]
  simp only [Bool.and_eq_true, decide_eq_true_eq, tanc_iff_reach _ h.tpar_lt2]

/-- what the specification needs: at a position that goes away the canonical flag is the specification's -/
theorem canon_dropped {fc : FC} {a : Abs} (h : WF fc.pa) (r : Ref fc a) {root : Root} {slot x : Nat}
    (hx : aGet fc.pa.indices ⟨slot, root⟩ = some x) {an : Node} (han : fc.pa.nodes[x]? = some an)
    {i : Nat} {n : Node} (hn : fc.pa.nodes[i]? = some n)
    (hk : (PA.keepFlags 0 x slot fc.pa.nodes []).getD i false = false) :
    (canon fc.pa x an).getD i false = a.tAncestorOrSelf n.ref a.fuel ⟨slot, root⟩ := by
  rw [canon_eq_tAnc h r hx han hn]
  have : i ≠ x := by
    intro e; subst e
    rw [keep_anchor h i slot (List.getElem?_eq_some_iff.1 han).1] at hk; cases hk
  simp [this]


/-! ## 2. sink reports -/

/-- the sink calls of a list of triples: what goes away, with its canonical flag -/
def callsOf (t : List (NodeRef × Bool × Bool)) : List (NodeRef × Bool) :=
  (t.filter (fun e => !e.2.1)).map (fun e => (e.1, e.2.2))

theorem callsOf_cons_keep (ref : NodeRef) (c : Bool) (rest : List (NodeRef × Bool × Bool)) :
    callsOf ((ref, true, c) :: rest) = callsOf rest := rfl

theorem callsOf_cons_drop (ref : NodeRef) (c : Bool) (rest : List (NodeRef × Bool × Bool)) :
    callsOf ((ref, false, c) :: rest) = (ref, c) :: callsOf rest := rfl

/-- three lists in lockstep: the triples of the nodes that go away are the filtered nodes -/
theorem callsOf_zip (K C : Node → Bool) : ∀ (ns : List Node) (ks cs : List Bool),
    ks.length = ns.length → cs.length = ns.length →
    (∀ i n, ns[i]? = some n → ks.getD i false = K n) →
    (∀ i n, ns[i]? = some n → ks.getD i false = false → cs.getD i false = C n) →
    callsOf ((ns.zip (ks.zip cs)).map (fun x => (x.1.ref, x.2.1, x.2.2))) =
      (ns.filter (fun n => !K n)).map (fun n => (n.ref, C n)) := by
  intro ns
  induction ns with
  | nil => intro ks cs _ _ _ _; rfl
  | cons n rest ih =>
    intro ks cs hk hc h1 h2
    cases ks with
    | nil => simp at hk
    | cons k ks' =>
      cases cs with
      | nil => simp at hc
      | cons c cs' =>
        have e1 : k = K n := by simpa using h1 0 n rfl
        have ih' := ih ks' cs' (by simpa using hk) (by simpa using hc)
          (fun i m hm => by simpa using h1 (i + 1) m (by simpa using hm))
          (fun i m hm hf => by simpa using h2 (i + 1) m (by simpa using hm) (by simpa using hf))
        simp only [List.zip_cons_cons, List.map_cons]
        cases hK : K n with
        | true =>
          rw [e1, hK, callsOf_cons_keep, ih']
          simp [hK]
        | false =>
          have e2 : c = C n := by
            have := h2 0 n rfl (by simp [e1, hK])
            simpa using this
          rw [e1, hK, callsOf_cons_drop, ih', e2]
          simp [hK]

/-- the specification's list of reports -/
def reportsOf (a : Abs) (anchor : NodeRef) : List (NodeRef × Bool) :=
  (a.nodes.filter (fun n => !a.inFinalized anchor a.fuel n.ref)).map
    (fun n => (n.ref, a.tAncestorOrSelf n.ref a.fuel anchor))

theorem triples_eq (pr : PA) (x slot : Nat) (an : Node) :
    triples pr x slot an =
      (pr.nodes.zip ((PA.keepFlags 0 x slot pr.nodes []).zip (canon pr x an))).map (fun t => (t.1.ref, t.2.1, t.2.2)) := rfl

/-- item 2: the model's sink calls are the specification's reports, in the same order -/
theorem calls_eq_reports {fc : FC} {a : Abs} (h : WF fc.pa) (r : Ref fc a) {root : Root} {slot x : Nat}
    (hx : aGet fc.pa.indices ⟨slot, root⟩ = some x) {an : Node} (han : fc.pa.nodes[x]? = some an) :
    callsOf (triples fc.pa x slot an) = reportsOf a ⟨slot, root⟩ := by
  rw [triples_eq, callsOf_zip (fun n => a.inFinalized ⟨slot, root⟩ a.fuel n.ref)
    (fun n => a.tAncestorOrSelf n.ref a.fuel ⟨slot, root⟩) fc.pa.nodes _ _ (keep_length _ _ _) (canon_length _ _ _)
    (fun i n hn => keep_eq_inFinalized h r hx hn) (fun i n hn hk => canon_dropped h r hx han hn hk)]
  unfold reportsOf
  rw [r.nodes]
  unfold absNodes
  rw [List.filter_map, List.map_map]
  rfl


/-- a successful log entry -/
def okEntry (c : NodeRef × Bool) : NodeRef × Bool × Bool := (c.1, c.2, true)

/-- a failing log entry -/
def badEntry (c : NodeRef × Bool) : NodeRef × Bool × Bool := (c.1, c.2, false)

theorem sinkLoop_cons_keep (ref : NodeRef) (c : Bool) (rest : List (NodeRef × Bool × Bool)) (pr : PA) :
    PA.sinkLoop ((ref, true, c) :: rest) pr = PA.sinkLoop rest pr := by
  rw [PA.sinkLoop]; simp

theorem sinkLoop_cons_drop (ref : NodeRef) (c : Bool) (rest : List (NodeRef × Bool × Bool)) (pr : PA)
    (hs : pr.sink ≠ .absent) :
    PA.sinkLoop ((ref, false, c) :: rest) pr =
      if (pr.sinkCall ref c).2 = true then PA.sinkLoop rest (pr.sinkCall ref c).1 else ((pr.sinkCall ref c).1, false) := by
  rw [PA.sinkLoop]
  simp only [Bool.false_eq_true, if_false, if_neg hs]
  generalize pr.sinkCall ref c = out
  obtain ⟨p', b⟩ := out
  cases b <;> rfl

/-- a recording sink: every call succeeds and is logged -/
theorem sinkLoop_recording : ∀ (t : List (NodeRef × Bool × Bool)) (pr : PA), pr.sink = .recording →
    (PA.sinkLoop t pr).1.sinkLog = pr.sinkLog ++ (callsOf t).map okEntry ∧ (PA.sinkLoop t pr).2 = true := by
  intro t
  induction t with
  | nil => intro pr _; simp [PA.sinkLoop, callsOf]
  | cons e rest ih =>
    intro pr hs
    obtain ⟨ref, k, c⟩ := e
    cases k with
    | true => rw [sinkLoop_cons_keep, callsOf_cons_keep]; exact ih pr hs
    | false =>
      rw [sinkLoop_cons_drop ref c rest pr (by rw [hs]; intro e; cases e), callsOf_cons_drop]
      have e2 : (pr.sinkCall ref c).2 = true := by simp [PA.sinkCall, hs]
      have e1 : (pr.sinkCall ref c).1 = { pr with sinkLog := pr.sinkLog ++ [(ref, c, true)] } := by
        simp [PA.sinkCall, hs]
      rw [if_pos e2, e1]
      obtain ⟨h1, h2⟩ := ih { pr with sinkLog := pr.sinkLog ++ [(ref, c, true)] } hs
      refine ⟨?_, h2⟩
      rw [h1]; simp [okEntry]

/-- a sink failing at its `k`-th call: the calls before it succeed, that one fails and ends the loop -/
theorem sinkLoop_failAt (k : Nat) : ∀ (t : List (NodeRef × Bool × Bool)) (pr : PA), pr.sink = .failAt k →
    pr.sinkLog.length ≤ k →
    (PA.sinkLoop t pr).1.sinkLog =
      pr.sinkLog ++ ((callsOf t).take (k - pr.sinkLog.length)).map okEntry ++
        (((callsOf t)[k - pr.sinkLog.length]?).map badEntry).toList ∧
    (PA.sinkLoop t pr).2 = ((callsOf t)[k - pr.sinkLog.length]?).isNone := by
  intro t
  induction t with
  | nil => intro pr _ _; simp [PA.sinkLoop, callsOf]
  | cons e rest ih =>
    intro pr hs hl
    obtain ⟨ref, kp, c⟩ := e
    cases kp with
    | true => rw [sinkLoop_cons_keep, callsOf_cons_keep]; exact ih pr hs hl
    | false =>
      rw [sinkLoop_cons_drop ref c rest pr (by rw [hs]; intro e; cases e), callsOf_cons_drop]
      by_cases hk : pr.sinkLog.length = k
      · have e2 : ¬ (pr.sinkCall ref c).2 = true := by simp [PA.sinkCall, hs, hk]
        have e1 : (pr.sinkCall ref c).1 = { pr with sinkLog := pr.sinkLog ++ [(ref, c, false)] } := by
          simp [PA.sinkCall, hs, hk]
        rw [if_neg e2, e1, hk]
        simp [badEntry]
      · have hlt : pr.sinkLog.length < k := by omega
        have e2 : (pr.sinkCall ref c).2 = true := by simp [PA.sinkCall, hs, hk]
        have e1 : (pr.sinkCall ref c).1 = { pr with sinkLog := pr.sinkLog ++ [(ref, c, true)] } := by
          simp [PA.sinkCall, hs, hk]
        rw [if_pos e2, e1]
        obtain ⟨h1, h2⟩ := ih { pr with sinkLog := pr.sinkLog ++ [(ref, c, true)] } hs (by simp; omega)
        have e3 : k - pr.sinkLog.length = (k - (pr.sinkLog ++ [(ref, c, true)]).length) + 1 := by
          simp; omega
        rw [h1, h2, e3]
        simp [okEntry]

theorem sinkReport_ok (cs : List (NodeRef × Bool)) : sinkReport (cs.map okEntry) = (cs, none) := by
  unfold sinkReport
  have h1 : (cs.map okEntry).filter (fun e => e.2.2) = cs.map okEntry := by
    rw [List.filter_eq_self]; intro e he; obtain ⟨c, _, rfl⟩ := List.mem_map.1 he; rfl
  have h2 : (cs.map okEntry).filter (fun e => !e.2.2) = [] := by
    rw [List.filter_eq_nil_iff]; intro e he; obtain ⟨c, _, rfl⟩ := List.mem_map.1 he; simp [okEntry]
  rw [h1, h2, List.map_map]
  simp [okEntry, Function.comp_def]

theorem sinkReport_ok_bad (cs : List (NodeRef × Bool)) (o : Option (NodeRef × Bool)) :
    sinkReport (cs.map okEntry ++ (o.map badEntry).toList) = (cs, o) := by
  unfold sinkReport
  have h1 : (cs.map okEntry).filter (fun e => e.2.2) = cs.map okEntry := by
    rw [List.filter_eq_self]; intro e he; obtain ⟨c, _, rfl⟩ := List.mem_map.1 he; rfl
  have h2 : (cs.map okEntry).filter (fun e => !e.2.2) = [] := by
    rw [List.filter_eq_nil_iff]; intro e he; obtain ⟨c, _, rfl⟩ := List.mem_map.1 he; simp [okEntry]
  rw [List.filter_append, List.filter_append, h1, h2, List.map_append, List.map_map]
  cases o with
  | none => simp [okEntry, Function.comp_def]
  | some c => simp [okEntry, badEntry, Function.comp_def]

/-- the specification's split of the reports by the kind of sink -/
def sentFailed (sink : SinkKind) (reports : List (NodeRef × Bool)) : List (NodeRef × Bool) × Option (NodeRef × Bool) :=
  match sink with
  | .absent => (reports, none)
  | .recording => (reports, none)
  | .failAt k => (reports.take k, reports[k]?)

/-- item 2: starting from an empty log, the sink loop logs exactly the specification's successful reports and its
failing report (none at all without a sink) and succeeds iff the specification does -/
theorem sinkLoop_report (t : List (NodeRef × Bool × Bool)) (pr : PA) (hl : pr.sinkLog = []) :
    sinkReport (PA.sinkLoop t pr).1.sinkLog =
      (if pr.sink = .absent then ([], none) else sentFailed pr.sink (callsOf t)) ∧
    (PA.sinkLoop t pr).2 = (sentFailed pr.sink (callsOf t)).2.isNone := by
  cases hs : pr.sink with
  | absent =>
    rw [sinkLoop_absent t pr hs, hl]
    exact ⟨rfl, rfl⟩
  | recording =>
    obtain ⟨h1, h2⟩ := sinkLoop_recording t pr hs
    rw [h1, h2, hl, List.nil_append, sinkReport_ok]
    exact ⟨rfl, rfl⟩
  | failAt k =>
    obtain ⟨h1, h2⟩ := sinkLoop_failAt k t pr hs (by simp [hl])
    rw [h1, h2, hl, List.nil_append, List.length_nil, Nat.sub_zero, sinkReport_ok_bad]
    exact ⟨rfl, rfl⟩


/-! ## 3. the specification's prune, as one equation -/

/-- what the specification does to a node that stays, `gone` being the references that go away and `left` the state
restricted to the nodes that stay -/
def fixNode (gone : List NodeRef) (left : Abs) (n : SNode) : SNode :=
  { n with
    tparent := (match n.tparent with | some p => if gone.contains p then none else some p | none => none)
    fparent := (match n.fparent with
      | some p =>
        if gone.contains p then
          (if n.isBlock then
            match left.firstSlot n.parentRoot with
            | some s => if s < n.ref.slot then some ⟨s, n.parentRoot⟩ else none
            | none => none
           else none)
        else some p
      | none => none) }

/-- the nodes that stay -/
def keptNodes (a : Abs) (gone : List NodeRef) : List SNode := a.nodes.filter (fun n => !gone.contains n.ref)

/-- the specification's node list after an effective prune -/
def fixedNodes (a : Abs) (gone : List NodeRef) : List SNode :=
  (keptNodes a gone).map (fixNode gone { a with nodes := keptNodes a gone })

theorem prune_eq (a : Abs) (anchor : NodeRef) :
    a.prune anchor =
      if !a.has anchor then (a, [], none, true) else
      if (sentFailed a.sink (reportsOf a anchor)).2.isSome then
        (a, (sentFailed a.sink (reportsOf a anchor)).1, (sentFailed a.sink (reportsOf a anchor)).2, false) else
      if ((reportsOf a anchor).map (·.1)).isEmpty then (a, [], none, true) else
      ({ a with nodes := fixedNodes a ((reportsOf a anchor).map (·.1)) },
        (if a.sink = .absent then [] else (sentFailed a.sink (reportsOf a anchor)).1), none, true) := by
  unfold Abs.prune
  cases hs : a.sink <;> rfl


/-! ## 4. the last loop of `OnPrune`, characterised completely -/

/-- the fork-choice parent `reparent` leaves at position `j`, where the node `n0` sat -/
def rpT (I : List (NodeRef × Idx)) (B : List (Root × Nat)) (j : Nat) (n0 : Node) : Option Idx :=
  if n0.fparent.isSome || n0.parentRoot = n0.ref.root then n0.fparent else
  match aGet B n0.parentRoot with
  | none => none
  | some ps =>
    if ps < n0.ref.slot then
      (if (aGet I ⟨ps, n0.parentRoot⟩).getD 0 < j then some ((aGet I ⟨ps, n0.parentRoot⟩).getD 0) else none)
    else none

theorem rpStep_fpar (I : List (NodeRef × Idx)) (B : List (Root × Nat)) (i : Nat) (ns : List Node) (node : Node)
    (hn : ns[i]? = some node) :
    fpar (rpStep I B i ns node) i = rpT I B i node ∧ ∀ c, c ≠ i → fpar (rpStep I B i ns node) c = fpar ns c := by
  have hil : i < ns.length := (List.getElem?_eq_some_iff.1 hn).1
  have hfi : fpar ns i = node.fparent := fpar_of_node hn
  unfold rpStep rpT
  by_cases c1 : (node.fparent.isSome || decide (node.parentRoot = node.ref.root)) = true
  · rw [if_pos c1, if_pos c1]; exact ⟨hfi, fun _ _ => rfl⟩
  · rw [if_neg c1, if_neg c1]
    have hnone : node.fparent = none := by
      cases hf : node.fparent with
      | none => rfl
      | some p => rw [hf] at c1; simp at c1
    cases c2 : aGet B node.parentRoot with
    | none => exact ⟨hfi.trans hnone, fun _ _ => rfl⟩
    | some ps =>
      simp only
      by_cases c3 : ps < node.ref.slot
      · rw [if_pos c3, if_pos c3]
        generalize (aGet I ⟨ps, node.parentRoot⟩).getD 0 = q'
        obtain ⟨q, rfl⟩ : ∃ q : Nat, q = q' := ⟨q', rfl⟩
        by_cases c4 : q < i
        · rw [if_pos (show q ≥ 0 ∧ q - 0 < i from ⟨Nat.zero_le _, by omega⟩), if_pos c4, Nat.sub_zero]
          have hql : q < ns.length := by omega
          rw [List.getElem?_eq_getElem hql]
          simp only
          have hqi : q ≠ i := by omega
          refine ⟨?_, fun c hc => ?_⟩
          · rw [fpar_set_ne _ q _ i (fun e => hqi e.symm), fpar_set_self ns i _ hil]
          · refine (fpar_set_same _ q ns[q] { ns[q] with weight := ns[q].weight + node.weight } ?_ rfl c).trans
              (fpar_set_ne ns i _ c hc)
            rw [List.getElem?_set_ne (fun e => hqi e.symm)]; exact List.getElem?_eq_getElem hql
        · rw [if_neg (show ¬ (q ≥ 0 ∧ q - 0 < i) from fun hh => c4 (by omega)), if_neg c4]
          exact ⟨hfi.trans hnone, fun _ _ => rfl⟩
      · rw [if_neg c3, if_neg c3]; exact ⟨hfi.trans hnone, fun _ _ => rfl⟩

/-- `rpT` only looks at the reference, the parent root and the fork-choice parent -/
theorem rpT_congr (I : List (NodeRef × Idx)) (B : List (Root × Nat)) (j : Nat) {n m : Node}
    (h1 : n.ref = m.ref) (h2 : n.parentRoot = m.parentRoot) (h3 : n.fparent = m.fparent) :
    rpT I B j n = rpT I B j m := by
  unfold rpT; rw [h1, h2, h3]

/-- the positions already visited carry their final fork-choice parent -/
def Done (I : List (NodeRef × Idx)) (B : List (Root × Nat)) (ns0 : List Node) (i : Nat) (ns : List Node) : Prop :=
  ∀ j, j < i → fpar ns j = (ns0[j]?).bind (rpT I B j)

theorem reparent_done (I : List (NodeRef × Idx)) (B : List (Root × Nat)) (ns0 : List Node) :
    ∀ (todo i : Nat) (ns : List Node), RInv I B ns0 i ns → Done I B ns0 i ns →
      Done I B ns0 (i + todo) (PA.reparent 0 I B todo i ns) := by
  intro todo
  induction todo with
  | zero => intro i ns _ hd; rw [reparent_zero]; exact hd
  | succ t ih =>
    intro i ns hr hd
    cases hn : ns[i]? with
    | none =>
      rw [reparent_none _ _ _ _ _ hn]
      intro j hj
      by_cases hji : j < i
      · exact hd j hji
      · have hl : ns.length ≤ i := by simpa using hn
        rw [fpar_none_of_ge ns j (by omega), List.getElem?_eq_none (by rw [← hr.len]; omega)]; rfl
    | some node =>
      rw [reparent_succ _ _ _ _ _ node hn, show i + (t + 1) = i + 1 + t by omega]
      refine ih (i + 1) _ (hr.step node hn) ?_
      obtain ⟨s1, s2⟩ := rpStep_fpar I B i ns node hn
      intro j hj
      by_cases hji : j = i
      · subst hji
        have hjl : j < ns0.length := by rw [← hr.len]; exact (List.getElem?_eq_some_iff.1 hn).1
        obtain ⟨n', hn', hrn, hf, _⟩ := hr.node j ns0[j] (List.getElem?_eq_getElem hjl)
        rw [hn] at hn'; cases hn'
        rw [s1, List.getElem?_eq_getElem hjl]
        exact rpT_congr I B j hrn.ref hrn.parentRoot (hf (Nat.le_refl _))
      · rw [s2 j hji]; exact hd j (by omega)

/-- A5, complete: the fork-choice parent of every node after the loop -/
theorem reparent_fparent (I : List (NodeRef × Idx)) (B : List (Root × Nat)) (ns0 : List Node)
    {j : Nat} {n0 n : Node} (hn0 : ns0[j]? = some n0) (hn : (PA.reparent 0 I B ns0.length 0 ns0)[j]? = some n) :
    n.fparent = rpT I B j n0 := by
  have hd := reparent_done I B ns0 ns0.length 0 ns0 (RInv.init I B ns0) (fun j hj => by omega)
  have hjl : j < ns0.length := (List.getElem?_eq_some_iff.1 hn0).1
  have := hd j (by omega)
  rw [fpar_of_node hn, hn0] at this
  exact this


/-! ## 5. chain structure: slots along transition parents -/

/-- the transition parent sits at the same or the previous slot -/
theorem tparent_slot_le {pr : PA} (h : WF pr) (hc : Chain pr) {j p : Nat} {n : Node}
    (hn : pr.nodes[j]? = some n) (hp : n.tparent = some p) :
    ∃ m, pr.nodes[p]? = some m ∧ m.ref.slot ≤ n.ref.slot := by
  obtain ⟨s0, hb, hk⟩ := hc.ok j n hn
  rcases hk with ⟨hlt, q, ht, _, hq⟩ | ⟨heq, hk⟩
  · rw [ht] at hp; cases hp
    obtain ⟨m, hm, hmr⟩ := h.idx_sound _ _ hq
    refine ⟨m, hm, ?_⟩
    rw [hmr]; show n.ref.slot - 1 ≤ n.ref.slot; omega
  · rcases hk with ⟨h1, _⟩ | ⟨_, p0, t, f, _, _, ht, hti, _, _⟩
    · rw [h1] at hp; cases hp
    · rw [ht] at hp; cases hp
      obtain ⟨m, hm, hmr⟩ := h.idx_sound _ _ hti
      refine ⟨m, hm, ?_⟩
      rw [hmr]; show s0 ≤ n.ref.slot; omega

theorem treach_slot_le {pr : PA} (h : WF pr) (hc : Chain pr) {a l : Nat} (hr : PReach (tpar pr.nodes) a l) :
    ∀ (na nl : Node), pr.nodes[a]? = some na → pr.nodes[l]? = some nl → na.ref.slot ≤ nl.ref.slot := by
  induction hr with
  | refl => intro na nl h1 h2; rw [h1] at h2; cases h2; exact Nat.le_refl _
  | @step j p hp _ ih =>
    intro na nl hna hnl
    rw [tpar_of_node hnl] at hp
    obtain ⟨m, hm, hle⟩ := tparent_slot_le h hc hnl hp
    have := ih na m hna hm
    omega

/-- what stays sits at the anchor's slot or later -/
theorem kept_slot_ge {pr : PA} (h : WF pr) (hc : Chain pr) {root : Root} {slot x : Nat}
    (hx : aGet pr.indices ⟨slot, root⟩ = some x) {i : Nat} {n : Node} (hn : pr.nodes[i]? = some n)
    (hk : (PA.keepFlags 0 x slot pr.nodes []).getD i false = true) : slot ≤ n.ref.slot := by
  obtain ⟨nx, hnx, e⟩ := h.idx_sound _ _ hx
  have := treach_slot_le h hc (keep_treach h x slot i hk) nx n hnx hn
  rw [e] at this
  exact this

/-- along the nodes of one root: the node at an earlier slot is a transition ancestor of the node at a later slot -/
theorem slots_reach {pr : PA} (h : WF pr) (hc : Chain pr) {R : Root} {p0 : Nat} (hb : aGet pr.blockSlots R = some p0)
    {s i : Nat} (hi : aGet pr.indices ⟨s, R⟩ = some i) :
    ∀ (d s' i' : Nat), s' = s + d → aGet pr.indices ⟨s', R⟩ = some i' → PReach (tpar pr.nodes) i i' := by
  have hps := hc.first_min h R p0 s i hb hi
  intro d
  induction d with
  | zero =>
    intro s' i' hs hi'
    rw [hs, Nat.add_zero, hi] at hi'; cases hi'; exact .refl
  | succ d ih =>
    intro s' i' hs hi'
    obtain ⟨n', hn', _⟩ := h.idx_sound _ _ hi'
    obtain ⟨q, ht, _, hq⟩ := hc.slot_node h R p0 s' i' n' hb hi' (by omega) hn'
    exact .step (by rw [tpar_of_node hn']; exact ht) (ih (s' - 1) q (by omega) hq)


/-! ## 6. the specification's `gone` and `left`, read on the array -/

/-- the references the specification drops -/
def goneOf (a : Abs) (anchor : NodeRef) : List NodeRef := (reportsOf a anchor).map (·.1)

theorem mem_goneOf (a : Abs) (anchor r : NodeRef) :
    r ∈ goneOf a anchor ↔ (∃ n ∈ a.nodes, n.ref = r) ∧ a.inFinalized anchor a.fuel r = false := by
  unfold goneOf reportsOf
  simp only [List.map_map, List.mem_map, List.mem_filter, Function.comp_apply, Bool.not_eq_true']
  constructor
  · rintro ⟨n, ⟨hn, hf⟩, rfl⟩; exact ⟨⟨n, hn, rfl⟩, hf⟩
  · rintro ⟨⟨n, hn, rfl⟩, hf⟩; exact ⟨n, ⟨hn, hf⟩, rfl⟩

/-- a node's reference is dropped by the specification iff the model's first loop does not keep its position -/
theorem gone_contains {fc : FC} {a : Abs} (h : WF fc.pa) (r : Ref fc a) {root : Root} {slot x : Nat}
    (hx : aGet fc.pa.indices ⟨slot, root⟩ = some x) {i : Nat} {n : Node} (hn : fc.pa.nodes[i]? = some n) :
    (goneOf a ⟨slot, root⟩).contains n.ref = !(PA.keepFlags 0 x slot fc.pa.nodes []).getD i false := by
  rw [keep_eq_inFinalized h r hx hn, Bool.eq_iff_iff, List.contains_iff_mem, mem_goneOf]
  simp only [Bool.not_eq_true']
  constructor
  · exact fun hh => hh.2
  · intro hf
    refine ⟨⟨absNode fc.pa.nodes n, ?_, rfl⟩, hf⟩
    rw [r.nodes]
    exact List.mem_map.2 ⟨n, List.mem_of_getElem? hn, rfl⟩

/-- the specification keeps exactly the nodes at the positions the model keeps -/
theorem mem_keptNodes {fc : FC} {a : Abs} (h : WF fc.pa) (r : Ref fc a) {root : Root} {slot x : Nat}
    (hx : aGet fc.pa.indices ⟨slot, root⟩ = some x) (sn : SNode) :
    sn ∈ keptNodes a (goneOf a ⟨slot, root⟩) ↔
      ∃ i n, fc.pa.nodes[i]? = some n ∧ (PA.keepFlags 0 x slot fc.pa.nodes []).getD i false = true ∧
        sn = absNode fc.pa.nodes n := by
  unfold keptNodes
  rw [List.mem_filter, r.nodes]
  constructor
  · rintro ⟨hm, hg⟩
    obtain ⟨n, hn, rfl⟩ := List.mem_map.1 hm
    obtain ⟨i, hi⟩ := List.getElem?_of_mem hn
    rw [absNode_ref, gone_contains h r hx hi] at hg
    exact ⟨i, n, hi, by simpa using hg, rfl⟩
  · rintro ⟨i, n, hn, hk, rfl⟩
    refine ⟨List.mem_map.2 ⟨n, List.mem_of_getElem? hn, rfl⟩, ?_⟩
    rw [absNode_ref, gone_contains h r hx hn, hk]; rfl

/-- the first slot of a root among the nodes the specification keeps is the rebuilt `blockSlots` entry -/
theorem left_firstSlot {fc : FC} {a : Abs} (h : WF fc.pa) (hc : Chain fc.pa) (r : Ref fc a) {root : Root} {slot x : Nat}
    (hx : aGet fc.pa.indices ⟨slot, root⟩ = some x) (l : List (NodeRef × Bool × Bool)) (R : Root) :
    ({ a with nodes := keptNodes a (goneOf a ⟨slot, root⟩) } : Abs).firstSlot R =
      aGet (pruned fc.pa (PA.keepFlags 0 x slot fc.pa.nodes []) l).blockSlots R := by
  rw [RefStatic.firstSlot_unfold]
  show ((keptNodes a (goneOf a ⟨slot, root⟩)).filter (fun n => n.ref.root = R)).foldl RefStatic.minStep none = _
  have hl := keep_length fc.pa.nodes x slot
  cases hB : aGet (pruned fc.pa (PA.keepFlags 0 x slot fc.pa.nodes []) l).blockSlots R with
  | none =>
    have : (keptNodes a (goneOf a ⟨slot, root⟩)).filter (fun n => n.ref.root = R) = [] := by
      rw [List.filter_eq_nil_iff]
      intro sn hsn hr
      obtain ⟨i, n, hn, hk, rfl⟩ := (mem_keptNodes h r hx sn).1 hsn
      have hr' : n.ref.root = R := of_decide_eq_true hr
      obtain ⟨s, hs, _⟩ := pruned_blockSlots_complete _ l hn hk (hc.rooted i n hn)
      rw [hr', hB] at hs; cases hs
    rw [this]; rfl
  | some ps =>
    apply RefStatic.foldl_minStep
    · intro sn hsn
      obtain ⟨hsn, hr⟩ := List.mem_filter.1 hsn
      obtain ⟨i, n, hn, hk, rfl⟩ := (mem_keptNodes h r hx sn).1 hsn
      have hr' : n.ref.root = R := of_decide_eq_true hr
      obtain ⟨s, hs, hle⟩ := pruned_blockSlots_complete _ l hn hk (hc.rooted i n hn)
      rw [hr', hB] at hs; cases hs
      exact hle
    · intro m hm; cases hm
    · right
      obtain ⟨_, i, n, hn, hk, e⟩ := pruned_blockSlots_sound _ hl l R ps hB
      refine ⟨absNode fc.pa.nodes n, ?_, ?_⟩
      · rw [List.mem_filter]
        exact ⟨(mem_keptNodes h r hx _).2 ⟨i, n, hn, hk, rfl⟩, by simp [absNode_ref, e]⟩
      · rw [absNode_ref, e]


/-! ## 7. one node that stays -/

theorem refAt_pruned {pr : PA} (keep : List Bool) (l : List (NodeRef × Bool × Bool)) {p : Nat} {np : Node}
    (hp : pr.nodes[p]? = some np) (hk : keep.getD p false = true) :
    refAt (pruned pr keep l).nodes (PA.newIndex 0 keep p) = some np.ref := by
  obtain ⟨n, hn, hr⟩ := pruned_node_of keep l hp hk
  rw [refAt_of_node hn, hr.ref, renum_ref]

/-- a renumbered parent index, read as a reference: the old parent reference unless the specification drops it -/
theorem renumber_ref {fc : FC} {a : Abs} (h : WF fc.pa) (r : Ref fc a) {root : Root} {slot x : Nat}
    (hx : aGet fc.pa.indices ⟨slot, root⟩ = some x) (l : List (NodeRef × Bool × Bool)) (o : Option Idx)
    (ho : ∀ p : Nat, o = some p → p < fc.pa.nodes.length) :
    (PA.renumber 0 (PA.keepFlags 0 x slot fc.pa.nodes []) o).bind
        (refAt (pruned fc.pa (PA.keepFlags 0 x slot fc.pa.nodes []) l).nodes) =
      match o.bind (refAt fc.pa.nodes) with
      | some p => if (goneOf a ⟨slot, root⟩).contains p then none else some p
      | none => none := by
  cases o with
  | none => rfl
  | some p =>
    have hp := ho p rfl
    have hnp : fc.pa.nodes[p]? = some fc.pa.nodes[p] := List.getElem?_eq_getElem hp
    rw [Option.bind_some, refAt_of_node hnp]
    simp only
    rw [gone_contains h r hx hnp]
    by_cases hk : (PA.keepFlags 0 x slot fc.pa.nodes []).getD p false = true
    · rw [renumber_kept _ hk, Option.bind_some, refAt_pruned _ l hnp hk, hk]; rfl
    · rw [renumber_dropped _ hk]
      have : (PA.keepFlags 0 x slot fc.pa.nodes []).getD p false = false := by simpa using hk
      rw [this]; rfl

/-- a node that stays and is not the anchor has a transition parent that stays -/
theorem kept_not_anchor {pr : PA} (h : WF pr) {x slot : Nat} {i : Nat} {n : Node} (hn : pr.nodes[i]? = some n)
    (hk : (PA.keepFlags 0 x slot pr.nodes []).getD i false = true) (hix : i ≠ x) :
    ∃ p : Nat, n.tparent = some p ∧ (PA.keepFlags 0 x slot pr.nodes []).getD p false = true := by
  obtain ⟨p, n', hn', ht, hp, _⟩ := (keep_iff h x slot hix).1 hk
  rw [hn] at hn'; cases hn'
  exact ⟨p, ht, hp⟩

/-- a node that stays and has no fork-choice parent that stays is the anchor, or a block whose transition parent
(the parent root's node at the block's slot) stays -/
theorem kept_orphan {pr : PA} (h : WF pr) (hc : Chain pr) {x slot : Nat} {i : Nat} {n : Node}
    (hn : pr.nodes[i]? = some n) (hk : (PA.keepFlags 0 x slot pr.nodes []).getD i false = true)
    (hf : PA.renumber 0 (PA.keepFlags 0 x slot pr.nodes []) n.fparent = none) :
    i = x ∨ ∃ p0 t : Nat, aGet pr.blockSlots n.parentRoot = some p0 ∧
      aGet pr.indices ⟨n.ref.slot, n.parentRoot⟩ = some t ∧ t < i ∧ n.fparent.isSome = true := by
  by_cases hix : i = x
  · exact Or.inl hix
  · right
    obtain ⟨tp, htp, hktp⟩ := kept_not_anchor h hn hk hix
    obtain ⟨s0, hb, hk'⟩ := hc.ok i n hn
    rcases hk' with ⟨_, q, ht, hfq, _⟩ | ⟨heq, hk'⟩
    · rw [ht] at htp; cases htp
      rw [hfq, renumber_kept _ hktp] at hf; cases hf
    · rcases hk' with ⟨h1, _⟩ | ⟨_, p0, t, f, hbp, _, ht, hti, hff, _⟩
      · rw [h1] at htp; cases htp
      · subst heq
        exact ⟨p0, t, hbp, hti, h.tpar_lt i n t hn ht, by rw [hff]; rfl⟩

/-- the guard of the re-hanging loop holds: the first node left of the parent root, when it sits at a lower slot than
the orphaned block, sits at a smaller position; for the anchor there is no such node -/
theorem rehang_target {pr : PA} (h : WF pr) (hc : Chain pr) {root : Root} {x slot : Nat}
    (hx : aGet pr.indices ⟨slot, root⟩ = some x) (l : List (NodeRef × Bool × Bool)) {i : Nat} {n : Node}
    (hn : pr.nodes[i]? = some n) (hk : (PA.keepFlags 0 x slot pr.nodes []).getD i false = true)
    (hf : PA.renumber 0 (PA.keepFlags 0 x slot pr.nodes []) n.fparent = none) {ps : Nat}
    (hB : aGet (pruned pr (PA.keepFlags 0 x slot pr.nodes []) l).blockSlots n.parentRoot = some ps)
    (hlt : ps < n.ref.slot) :
    n.fparent.isSome = true ∧ ∃ q : Nat,
      aGet (pruned pr (PA.keepFlags 0 x slot pr.nodes []) l).indices ⟨ps, n.parentRoot⟩ = some q ∧
      q < PA.newIndex 0 (PA.keepFlags 0 x slot pr.nodes []) i ∧
      refAt (pruned pr (PA.keepFlags 0 x slot pr.nodes []) l).nodes q = some ⟨ps, n.parentRoot⟩ := by
  have hl := keep_length pr.nodes x slot
  obtain ⟨_, q0, m, hm, hkm, em⟩ := pruned_blockSlots_sound _ hl l _ ps hB
  have hq0 : aGet pr.indices ⟨ps, n.parentRoot⟩ = some q0 := by rw [← em]; exact h.idx_complete q0 m hm
  rcases kept_orphan h hc hn hk hf with hix | ⟨p0, t, hbp, hti, hti', hfs⟩
  · exfalso
    subst hix
    have h1 := kept_slot_ge h hc hx hm hkm
    have h2 : n.ref.slot = slot := by rw [(ref_eq_anchor h hx hn).2 rfl]
    rw [em] at h1
    have h1' : slot ≤ ps := h1
    omega
  · have hreach := slots_reach h hc hbp hq0 (n.ref.slot - ps) n.ref.slot t (by omega) hti
    have hle := hreach.le h.tpar_lt2
    refine ⟨hfs, PA.newIndex 0 _ q0, ?_, newIndex_lt _ hkm (by omega), ?_⟩
    · exact (pruned_indices_iff h _ hl l _ _).2 ⟨q0, hq0, hkm, rfl⟩
    · rw [refAt_pruned _ l hm hkm, em]


/-- the fork-choice parent of a node that stays, after the last loop -/
theorem pruned_fparent_val {pr : PA} (keep : List Bool) (l : List (NodeRef × Bool × Bool)) {i0 : Nat} {n0 n : Node}
    (hn0 : pr.nodes[i0]? = some n0) (hk : keep.getD i0 false = true)
    (hn : (pruned pr keep l).nodes[PA.newIndex 0 keep i0]? = some n) :
    n.fparent = rpT (pruned pr keep l).indices (pruned pr keep l).blockSlots (PA.newIndex 0 keep i0) (renum keep n0) := by
  rw [pruned_nodes] at hn
  exact reparent_fparent _ _ _ (compact_get keep pr.nodes hn0 hk) hn

theorem rpT_renum_some (I : List (NodeRef × Idx)) (B : List (Root × Nat)) (j : Nat) (keep : List Bool) (n0 : Node)
    {y : Idx} (hy : PA.renumber 0 keep n0.fparent = some y) : rpT I B j (renum keep n0) = some y := by
  unfold rpT
  rw [renum_fparent, hy]; rfl

theorem rpT_renum_none (I : List (NodeRef × Idx)) (B : List (Root × Nat)) (j : Nat) (keep : List Bool) (n0 : Node)
    (hy : PA.renumber 0 keep n0.fparent = none) :
    rpT I B j (renum keep n0) =
      if n0.parentRoot = n0.ref.root then none else
      match aGet B n0.parentRoot with
      | none => none
      | some ps =>
        if ps < n0.ref.slot then
          (if (aGet I ⟨ps, n0.parentRoot⟩).getD 0 < j then some ((aGet I ⟨ps, n0.parentRoot⟩).getD 0) else none)
        else none := by
  unfold rpT
  rw [renum_fparent, hy, renum_parentRoot, renum_ref]
  by_cases e : n0.parentRoot = n0.ref.root
  · rw [if_pos e, if_pos (by simp [e])]
  · rw [if_neg e, if_neg (by simp [e])]

theorem fixNode_fparent (gone : List NodeRef) (left : Abs) (ns : List Node) (n0 : Node) :
    (fixNode gone left (absNode ns n0)).fparent =
      match n0.fparent.bind (refAt ns) with
      | some p =>
        if gone.contains p then
          (if (n0.parentRoot != n0.ref.root) = true then
            match left.firstSlot n0.parentRoot with
            | some s => if s < n0.ref.slot then some ⟨s, n0.parentRoot⟩ else none
            | none => none
           else none)
        else some p
      | none => none := rfl

theorem fparent_lt_len {pr : PA} (h : WF pr) {i0 p0 : Nat} {n0 : Node} (hn0 : pr.nodes[i0]? = some n0)
    (hf : n0.fparent = some p0) : p0 < pr.nodes.length := by
  have := h.fpar_lt i0 n0 p0 hn0 hf
  have := (List.getElem?_eq_some_iff.1 hn0).1
  omega

theorem tparent_lt_len {pr : PA} (h : WF pr) {i0 p0 : Nat} {n0 : Node} (hn0 : pr.nodes[i0]? = some n0)
    (hf : n0.tparent = some p0) : p0 < pr.nodes.length := by
  have := h.tpar_lt i0 n0 p0 hn0 hf
  have := (List.getElem?_eq_some_iff.1 hn0).1
  omega

/-- item 3, the heart: the fork-choice parent of a node that stays, read as a reference, is the specification's -/
theorem fparent_eq {fc : FC} {a : Abs} (h : WF fc.pa) (hc : Chain fc.pa) (r : Ref fc a) {root : Root} {slot x : Nat}
    (hx : aGet fc.pa.indices ⟨slot, root⟩ = some x) (l : List (NodeRef × Bool × Bool)) {i0 : Nat} {n0 n : Node}
    (hn0 : fc.pa.nodes[i0]? = some n0) (hk : (PA.keepFlags 0 x slot fc.pa.nodes []).getD i0 false = true)
    (hn : (pruned fc.pa (PA.keepFlags 0 x slot fc.pa.nodes []) l).nodes[PA.newIndex 0 (PA.keepFlags 0 x slot fc.pa.nodes []) i0]? = some n) :
    n.fparent.bind (refAt (pruned fc.pa (PA.keepFlags 0 x slot fc.pa.nodes []) l).nodes) =
      (fixNode (goneOf a ⟨slot, root⟩) { a with nodes := keptNodes a (goneOf a ⟨slot, root⟩) }
        (absNode fc.pa.nodes n0)).fparent := by
  rw [pruned_fparent_val _ l hn0 hk hn, fixNode_fparent, left_firstSlot h hc r hx l]
  cases hren : PA.renumber 0 (PA.keepFlags 0 x slot fc.pa.nodes []) n0.fparent with
  | some y =>
    rw [rpT_renum_some _ _ _ _ _ hren]
    obtain ⟨p0, hp0, hkp, rfl⟩ := (renumber_some_iff _ _ y).1 hren
    have hpl := fparent_lt_len h hn0 hp0
    have hnp : fc.pa.nodes[p0]? = some fc.pa.nodes[p0] := List.getElem?_eq_getElem hpl
    rw [Option.bind_some, refAt_pruned _ l hnp hkp, hp0, Option.bind_some, refAt_of_node hnp]
    simp only
    rw [gone_contains h r hx hnp, hkp]; rfl
  | none =>
    rw [rpT_renum_none _ _ _ _ _ hren]
    cases hf : n0.fparent with
    | none =>
      simp only [Option.bind_none]
      by_cases hblk : n0.parentRoot = n0.ref.root
      · rw [if_pos hblk]; rfl
      · rw [if_neg hblk]
        cases hB : aGet (pruned fc.pa (PA.keepFlags 0 x slot fc.pa.nodes []) l).blockSlots n0.parentRoot with
        | none => rfl
        | some ps =>
          simp only
          by_cases hlt : ps < n0.ref.slot
          · obtain ⟨hfs, _⟩ := rehang_target h hc hx l hn0 hk hren hB hlt
            rw [hf] at hfs; cases hfs
          · rw [if_neg hlt]; rfl
    | some p0 =>
      have hpl := fparent_lt_len h hn0 hf
      have hnp : fc.pa.nodes[p0]? = some fc.pa.nodes[p0] := List.getElem?_eq_getElem hpl
      have hkp : (PA.keepFlags 0 x slot fc.pa.nodes []).getD p0 false = false := by
        cases hkp : (PA.keepFlags 0 x slot fc.pa.nodes []).getD p0 false with
        | false => rfl
        | true => rw [hf, renumber_kept _ hkp] at hren; cases hren
      simp only [Option.bind_some, refAt_of_node hnp, gone_contains h r hx hnp, hkp, Bool.not_false, if_true]
      by_cases hblk : n0.parentRoot = n0.ref.root
      · have hb : (n0.parentRoot != n0.ref.root) = false := by simp [hblk]
        rw [if_pos hblk, hb]; rfl
      · have hb : (n0.parentRoot != n0.ref.root) = true := by simp [hblk]
        rw [if_neg hblk, hb, if_pos rfl]
        cases hB : aGet (pruned fc.pa (PA.keepFlags 0 x slot fc.pa.nodes []) l).blockSlots n0.parentRoot with
        | none => rfl
        | some ps =>
          simp only
          by_cases hlt : ps < n0.ref.slot
          · obtain ⟨_, q, hq, hqlt, hqr⟩ := rehang_target h hc hx l hn0 hk hren hB hlt
            rw [if_pos hlt, if_pos hlt, hq, Option.getD_some, if_pos hqlt, Option.bind_some, hqr]
          · rw [if_neg hlt, if_neg hlt]; rfl

theorem fixNode_tparent (gone : List NodeRef) (left : Abs) (ns : List Node) (n0 : Node) :
    (fixNode gone left (absNode ns n0)).tparent =
      match n0.tparent.bind (refAt ns) with
      | some p => if gone.contains p then none else some p
      | none => none := rfl

/-- item 3: a node that stays, abstracted in the pruned array, is the specification's fixed node -/
theorem node_eq {fc : FC} {a : Abs} (h : WF fc.pa) (hc : Chain fc.pa) (r : Ref fc a) {root : Root} {slot x : Nat}
    (hx : aGet fc.pa.indices ⟨slot, root⟩ = some x) (l : List (NodeRef × Bool × Bool)) {i0 : Nat} {n0 n : Node}
    (hn0 : fc.pa.nodes[i0]? = some n0) (hk : (PA.keepFlags 0 x slot fc.pa.nodes []).getD i0 false = true)
    (hn : (pruned fc.pa (PA.keepFlags 0 x slot fc.pa.nodes []) l).nodes[PA.newIndex 0 (PA.keepFlags 0 x slot fc.pa.nodes []) i0]? = some n) :
    absNode (pruned fc.pa (PA.keepFlags 0 x slot fc.pa.nodes []) l).nodes n =
      fixNode (goneOf a ⟨slot, root⟩) { a with nodes := keptNodes a (goneOf a ⟨slot, root⟩) }
        (absNode fc.pa.nodes n0) := by
  obtain ⟨e1, e2, e3, e4, e5, _, _⟩ := pruned_node_skel _ l hn0 hk hn
  have ht : n.tparent.bind (refAt (pruned fc.pa (PA.keepFlags 0 x slot fc.pa.nodes []) l).nodes) =
      (fixNode (goneOf a ⟨slot, root⟩) { a with nodes := keptNodes a (goneOf a ⟨slot, root⟩) }
        (absNode fc.pa.nodes n0)).tparent := by
    rw [e5, fixNode_tparent]
    exact renumber_ref h r hx l n0.tparent (fun p hp => tparent_lt_len h hn0 hp)
  have hf := fparent_eq h hc r hx l hn0 hk hn
  show SNode.mk n.ref n.parentRoot (n.tparent.bind _) (n.fparent.bind _) n.jEpoch n.fEpoch = _
  rw [ht, hf, e1, e2, e3, e4]
  rfl

/-! ## 8. the node lists -/

theorem newIndex_cons_true (k : List Bool) (i : Nat) : PA.newIndex 0 (true :: k) (i + 1) = PA.newIndex 0 k i + 1 := by
  simp [PA.newIndex]

theorem newIndex_cons_false (k : List Bool) (i : Nat) : PA.newIndex 0 (false :: k) (i + 1) = PA.newIndex 0 k i := by
  simp [PA.newIndex]

/-- a list whose entries are the images of the kept entries of `l`, at their new positions, is the filtered and
mapped `l` -/
theorem filter_map_of_index {α β : Type} (P : α → Bool) (g : α → β) : ∀ (l : List α) (keep : List Bool) (t : List β),
    keep.length = l.length → (∀ i x, l[i]? = some x → P x = keep.getD i false) → t.length = keep.count true →
    (∀ i x, l[i]? = some x → keep.getD i false = true → t[PA.newIndex 0 keep i]? = some (g x)) →
    t = (l.filter P).map g := by
  intro l
  induction l with
  | nil =>
    intro keep t hl _ ht _
    have : keep = [] := List.eq_nil_of_length_eq_zero (by simpa using hl)
    subst this
    exact List.eq_nil_of_length_eq_zero (by simpa using ht)
  | cons x rest ih =>
    intro keep t hl hP ht hg
    cases keep with
    | nil => simp at hl
    | cons b keep' =>
      have hP0 : P x = b := by simpa using hP 0 x rfl
      have hl' : keep'.length = rest.length := by simpa using hl
      have hP' : ∀ i y, rest[i]? = some y → P y = keep'.getD i false := fun i y hy => by
        simpa using hP (i + 1) y (by simpa using hy)
      cases b with
      | false =>
        rw [List.filter_cons, hP0]
        simp only [Bool.false_eq_true, if_false]
        refine ih keep' t hl' hP' (by simpa using ht) (fun i y hy hk => ?_)
        have := hg (i + 1) y (by simpa using hy) (by simpa using hk)
        rw [newIndex_cons_false] at this
        exact this
      | true =>
        rw [List.filter_cons, hP0]
        simp only [if_true, List.map_cons]
        have h0 := hg 0 x rfl (by simp)
        rw [newIndex_zero] at h0
        cases t with
        | nil => simp at h0
        | cons y t' =>
          simp only [List.getElem?_cons_zero, Option.some.injEq] at h0
          subst h0
          congr 1
          refine ih keep' t' hl' hP' (by simpa using ht) (fun i y hy hk => ?_)
          have := hg (i + 1) y (by simpa using hy) (by simpa using hk)
          rw [newIndex_cons_true, List.getElem?_cons_succ] at this
          exact this

/-- item 3: the abstraction of the pruned array is the specification's node list after the prune -/
theorem nodes_eq {fc : FC} {a : Abs} (h : WF fc.pa) (hc : Chain fc.pa) (r : Ref fc a) {root : Root} {slot x : Nat}
    (hx : aGet fc.pa.indices ⟨slot, root⟩ = some x) (l : List (NodeRef × Bool × Bool)) :
    fixedNodes a (goneOf a ⟨slot, root⟩) =
      absNodes (pruned fc.pa (PA.keepFlags 0 x slot fc.pa.nodes []) l).nodes := by
  have hl := keep_length fc.pa.nodes x slot
  have hkn : keptNodes a (goneOf a ⟨slot, root⟩) =
      (fc.pa.nodes.filter ((fun n => !(goneOf a ⟨slot, root⟩).contains n.ref) ∘ absNode fc.pa.nodes)).map
        (absNode fc.pa.nodes) := by
    unfold keptNodes; rw [r.nodes]; unfold absNodes; rw [List.filter_map]
  show (keptNodes a (goneOf a ⟨slot, root⟩)).map
    (fixNode (goneOf a ⟨slot, root⟩) { a with nodes := keptNodes a (goneOf a ⟨slot, root⟩) }) = _
  generalize hL : ({ a with nodes := keptNodes a (goneOf a ⟨slot, root⟩) } : Abs) = left
  rw [hkn, List.map_map]
  unfold absNodes
  symm
  apply filter_map_of_index _ _ fc.pa.nodes (PA.keepFlags 0 x slot fc.pa.nodes []) _ hl
  · intro i n hn
    simp only [Function.comp_apply, absNode_ref]
    rw [gone_contains h r hx hn]; simp
  · rw [List.length_map, pruned_length _ hl l]
  · intro i n0 hn0 hk
    obtain ⟨n, hn, _⟩ := pruned_node_of (PA.keepFlags 0 x slot fc.pa.nodes []) l hn0 hk
    rw [List.getElem?_map, hn, Option.map_some]
    congr 1
    subst hL
    exact node_eq h hc r hx l hn0 hk hn

/-! ## 9. the related states -/

/-- `Ref` does not mention the sink log -/
theorem ref_setLog {fc : FC} {a : Abs} (r : Ref fc a) (l : List (NodeRef × Bool × Bool)) :
    Ref { fc with pa := { fc.pa with sinkLog := l } } a :=
  { spe := r.spe, nodes := r.nodes, votes := r.votes, balances := r.balances, justified := r.justified,
    finalized := r.finalized, pin := r.pin, sink := r.sink, clean := r.clean, jE := r.jE, fE := r.fE,
    fresh := r.fresh, next_in := r.next_in, cur_le := r.cur_le, settled := r.settled }

/-- item 3: after an effective prune the states are related again -/
theorem ref_pruned {fc : FC} {a : Abs} (h : WF fc.pa) (hc : Chain fc.pa) (r : Ref fc a)
    (hset : ∀ v ∈ fc.votes, v.cur = v.next) {root : Root} {slot x : Nat}
    (hx : aGet fc.pa.indices ⟨slot, root⟩ = some x) (l : List (NodeRef × Bool × Bool)) :
    Ref { fc with pa := pruned fc.pa (PA.keepFlags 0 x slot fc.pa.nodes []) l }
      { a with nodes := fixedNodes a (goneOf a ⟨slot, root⟩) } :=
  { spe := r.spe, nodes := nodes_eq h hc r hx l, votes := r.votes, balances := r.balances,
    justified := r.justified, finalized := r.finalized, pin := r.pin, sink := r.sink, clean := r.clean,
    jE := r.jE, fE := r.fE, fresh := r.fresh, next_in := fun v hv => Or.inr (Or.inr (hset v hv)),
    cur_le := r.cur_le, settled := r.settled }

/-- as many positions go away as the specification reports -/
theorem filter_not_length {α : Type} (P : α → Bool) : ∀ (l : List α) (keep : List Bool), keep.length = l.length →
    (∀ i x, l[i]? = some x → P x = keep.getD i false) → (l.filter (fun x => !P x)).length = keep.count false := by
  intro l
  induction l with
  | nil =>
    intro keep hl _
    have : keep = [] := List.eq_nil_of_length_eq_zero (by simpa using hl)
    subst this; rfl
  | cons x rest ih =>
    intro keep hl hP
    cases keep with
    | nil => simp at hl
    | cons b keep' =>
      have hP0 : P x = b := by simpa using hP 0 x rfl
      have ih' := ih keep' (by simpa using hl) (fun i y hy => by simpa using hP (i + 1) y (by simpa using hy))
      rw [List.filter_cons, hP0]
      cases b <;> simp [ih']

theorem reports_length {fc : FC} {a : Abs} (h : WF fc.pa) (r : Ref fc a) {root : Root} {slot x : Nat}
    (hx : aGet fc.pa.indices ⟨slot, root⟩ = some x) :
    (reportsOf a ⟨slot, root⟩).length = (PA.keepFlags 0 x slot fc.pa.nodes []).count false := by
  unfold reportsOf
  rw [List.length_map, r.nodes]
  unfold absNodes
  rw [List.filter_map, List.length_map]
  exact filter_not_length (fun n => a.inFinalized ⟨slot, root⟩ a.fuel n.ref) fc.pa.nodes _ (keep_length _ _ _)
    (fun i n hn => (keep_eq_inFinalized h r hx hn).symm)

theorem sentFailed_nil (sink : SinkKind) : sentFailed sink [] = ([], none) := by
  cases sink <;> simp [sentFailed]

/-- the outcome of the model's `OnPrune` against the specification's result -/
def Agrees (fc : FC) (res : Abs × List (NodeRef × Bool) × Option (NodeRef × Bool) × Bool) : POut PA Unit → Prop
  | .ok s _ => Ref { fc with pa := s } res.1 ∧ res.2.2.2 = true ∧ sinkReport s.sinkLog = (res.2.1, res.2.2.1)
  | .err s => Ref { fc with pa := s } res.1 ∧ res.2.2.2 = false ∧ sinkReport s.sinkLog = (res.2.1, res.2.2.1)
  | _ => False

theorem agrees_onPrune (fc : FC) (a : Abs) (I : FI fc) (r : Ref fc a) (hset : ∀ v ∈ fc.votes, v.cur = v.next)
    (hlog : fc.pa.sinkLog = []) (root : Root) (slot : Nat) :
    Agrees fc (a.prune ⟨slot, root⟩) (fc.pa.onPrune root slot) := by
  have h := I.wf
  have hc := I.chain
  cases hx : aGet fc.pa.indices ⟨slot, root⟩ with
  | none =>
    have e : fc.pa.onPrune root slot = .ok fc.pa () := by unfold PA.onPrune; rw [hx]
    have hp : a.prune ⟨slot, root⟩ = (a, [], none, true) := by
      rw [prune_eq, has_iff h r, hx]; rfl
    rw [e, hp]
    exact ⟨r, rfl, by rw [hlog]; rfl⟩
  | some x =>
    obtain ⟨an, han, har, e⟩ := onPrune_eq fc.pa h root slot x hx
    obtain ⟨hrep, hok⟩ := sinkLoop_report (triples fc.pa x slot an) fc.pa hlog
    rw [calls_eq_reports h r hx han, ← r.sink] at hrep hok
    have hlen := reports_length h r hx
    have hhas : (!a.has ⟨slot, root⟩) = false := by rw [has_iff h r, hx]; rfl
    rw [e]
    by_cases c1 : (PA.sinkLoop (triples fc.pa x slot an) fc.pa).2 = false
    · rw [if_pos c1]
      rw [c1] at hok
      have hsome : (sentFailed a.sink (reportsOf a ⟨slot, root⟩)).2.isSome = true := by
        cases hh : (sentFailed a.sink (reportsOf a ⟨slot, root⟩)).2 with
        | none => rw [hh] at hok; cases hok
        | some _ => rfl
      have hp : a.prune ⟨slot, root⟩ = (a, (sentFailed a.sink (reportsOf a ⟨slot, root⟩)).1,
          (sentFailed a.sink (reportsOf a ⟨slot, root⟩)).2, false) := by
        rw [prune_eq, hhas, if_neg (by simp), if_pos hsome]
      have hna : ¬ a.sink = .absent := by
        intro ha; rw [ha] at hsome; cases hsome
      rw [hp]
      refine ⟨ref_setLog r _, rfl, ?_⟩
      rw [hrep, if_neg hna]
    · rw [if_neg c1]
      have hnone : (sentFailed a.sink (reportsOf a ⟨slot, root⟩)).2 = none := by
        cases hh : (sentFailed a.sink (reportsOf a ⟨slot, root⟩)).2 with
        | none => rfl
        | some _ => rw [hh] at hok; exact absurd hok c1
      have hnsome : ¬ (sentFailed a.sink (reportsOf a ⟨slot, root⟩)).2.isSome = true := by rw [hnone]; simp
      by_cases c2 : (PA.keepFlags 0 x slot fc.pa.nodes []).count false = 0
      · rw [if_pos c2]
        have hnil : reportsOf a ⟨slot, root⟩ = [] := List.eq_nil_of_length_eq_zero (by rw [hlen]; exact c2)
        have hp : a.prune ⟨slot, root⟩ = (a, [], none, true) := by
          rw [prune_eq, hhas, if_neg (by simp), if_neg hnsome, hnil]; rfl
        rw [hp]
        refine ⟨ref_setLog r _, rfl, ?_⟩
        rw [hrep, hnil, sentFailed_nil]; simp
      · rw [if_neg c2]
        have hne : ¬ ((reportsOf a ⟨slot, root⟩).map (·.1)).isEmpty = true := by
          intro he
          have : (reportsOf a ⟨slot, root⟩).length = 0 := by
            have := List.isEmpty_iff.1 he
            simpa using congrArg List.length this
          exact c2 (by rw [← hlen]; exact this)
        have hp : a.prune ⟨slot, root⟩ = ({ a with nodes := fixedNodes a (goneOf a ⟨slot, root⟩) },
            (if a.sink = .absent then [] else (sentFailed a.sink (reportsOf a ⟨slot, root⟩)).1), none, true) := by
          rw [prune_eq, hhas, if_neg (by simp), if_neg hnsome, if_neg hne]; rfl
        rw [hp]
        refine ⟨ref_pruned h hc r hset hx _, rfl, ?_⟩
        rw [pruned_sinkLog, hrep]
        by_cases ha : a.sink = .absent
        · rw [if_pos ha, if_pos ha]
        · rw [if_neg ha, if_neg ha, ← hnone]

/-! ## non-vacuity -/

/-- `chainEx` with a sink: anchor `(root 1, slot 0)`, block 2 at slot 1 and block 3 at slot 2, both children of root 1:
nodes `0:(1,0) 1:(1,1) 2:(2,1) 3:(1,2) 4:(3,2)` (root, slot) -/
def exPA (sink : SinkKind) : PA :=
  let p0 := PA.new 7 1 0 0 0 sink
  let p1 := ((p0.processBlock 1 2 1 0 0).getD (p0, false)).1
  ((p1.processBlock 1 3 2 0 0).getD (p1, false)).1

def exFC (sink : SinkKind) : FC :=
  { pa := exPA sink, votes := [], changed := false, spe := 4, balances := [], pin := some ⟨0, 1⟩,
    justified := ⟨0, 1⟩, finalized := ⟨0, 1⟩, held := false }

/-- the specification's state after the same history -/
def exAbs (sink : SinkKind) : Abs :=
  let a0 := (Abs.init 4 1 0 7 ⟨0, 1⟩ ⟨0, 1⟩ sink []).getD default
  let a1 := (a0.processBlock 1 2 1 0 0).1
  (a1.processBlock 1 3 2 0 0).1

theorem exPA_ok (sink : SinkKind) : WF (exPA sink) ∧ Chain (exPA sink) := by
  have h0 : WF (PA.new 7 1 0 0 0 sink) ∧ Chain (PA.new 7 1 0 0 0 sink) := ⟨wf_new .., chain_new ..⟩
  have h1 := wf_chain_processBlock _ h0.1 h0.2 1 2 1 0 0
  exact wf_chain_processBlock _ h1.1 h1.2 1 3 2 0 0

theorem exFC_inv (sink : SinkKind) : FI (exFC sink) := by
  refine ⟨(exPA_ok sink).1, (exPA_ok sink).2, ?_, ?_⟩
  · show aGet (exPA sink).indices NodeRef.zero = none
    rfl
  · intro i n hn
    have hall : ∀ m ∈ (exPA sink).nodes, m.weight = 0 := by
      intro m hm
      simp [exPA, PA.processBlock, PA.new, PA.processSlot, PA.push, PA.fillGaps, aGet, aSet] at hm
      rcases hm with rfl | rfl | rfl | rfl | rfl <;> rfl
    rw [hall n (List.mem_of_getElem? hn)]
    rfl

theorem exFC_ref (sink : SinkKind) : Ref (exFC sink) (exAbs sink) :=
  { spe := rfl, nodes := rfl, votes := rfl, balances := rfl, justified := rfl,
    finalized := rfl, pin := rfl, sink := rfl, clean := rfl, jE := rfl, fE := rfl,
    fresh := fun v hv => (by cases hv), next_in := fun v hv => (by cases hv),
    cur_le := fun v hv => (by cases hv), settled := fun _ v hv => (by cases hv) }


theorem exFC_log (sink : SinkKind) : (exFC sink).pa.sinkLog = [] := rfl

/-- all hypotheses of `ref_onPrune` hold together, for every kind of sink -/
example (sink : SinkKind) : FI (exFC sink) ∧ Ref (exFC sink) (exAbs sink) ∧ (∀ v ∈ (exFC sink).votes, v.cur = v.next) ∧
    (exFC sink).pa.sinkLog = [] :=
  ⟨exFC_inv sink, exFC_ref sink, fun v hv => (by cases hv), exFC_log sink⟩

/-- the abstract view of a node list -/
def view (ns : List SNode) : List (NodeRef × Option NodeRef × Option NodeRef) :=
  ns.map (fun n => (n.ref, n.tparent, n.fparent))

/-- the nodes, the sink report and the success flag of an outcome -/
def outNodes : POut PA Unit → List (NodeRef × Option Idx × Option Idx)
  | .ok s _ => s.nodes.map (fun n => (n.ref, n.tparent, n.fparent))
  | .err s => s.nodes.map (fun n => (n.ref, n.tparent, n.fparent))
  | _ => []

def outReport : POut PA Unit → List (NodeRef × Bool) × Option (NodeRef × Bool)
  | .ok s _ => sinkReport s.sinkLog
  | .err s => sinkReport s.sinkLog
  | _ => ([], none)

def outOk : POut PA Unit → Option Bool
  | .ok _ _ => some true
  | .err _ => some false
  | _ => none

/-- a recording sink, prune at the empty-slot node `(1,1)`: the old anchor `(1,0)` (canonical) and block 2 (a block at the
anchor's slot, not canonical) are reported and dropped, block 3 is re-hung from `(1,1)` — on both sides -/
example : outNodes ((exFC .recording).pa.onPrune 1 1) =
      [(⟨1, 1⟩, none, none), (⟨2, 1⟩, some 0, some 0), (⟨2, 3⟩, some 1, some 0)] ∧
    outReport ((exFC .recording).pa.onPrune 1 1) = ([(⟨0, 1⟩, true), (⟨1, 2⟩, false)], none) ∧
    outOk ((exFC .recording).pa.onPrune 1 1) = some true ∧
    view ((exAbs .recording).prune ⟨1, 1⟩).1.nodes =
      [(⟨1, 1⟩, none, none), (⟨2, 1⟩, some ⟨1, 1⟩, some ⟨1, 1⟩), (⟨2, 3⟩, some ⟨2, 1⟩, some ⟨1, 1⟩)] ∧
    ((exAbs .recording).prune ⟨1, 1⟩).2 = ([(⟨0, 1⟩, true), (⟨1, 2⟩, false)], none, true) := by decide

/-- a sink failing at its second call: the first report succeeds, the second fails, nothing is dropped — on both sides -/
example : outNodes ((exFC (.failAt 1)).pa.onPrune 1 1) =
      (exFC (.failAt 1)).pa.nodes.map (fun n => (n.ref, n.tparent, n.fparent)) ∧
    outReport ((exFC (.failAt 1)).pa.onPrune 1 1) = ([(⟨0, 1⟩, true)], some (⟨1, 2⟩, false)) ∧
    outOk ((exFC (.failAt 1)).pa.onPrune 1 1) = some false ∧
    view ((exAbs (.failAt 1)).prune ⟨1, 1⟩).1.nodes = view (exAbs (.failAt 1)).nodes ∧
    ((exAbs (.failAt 1)).prune ⟨1, 1⟩).2 = ([(⟨0, 1⟩, true)], some (⟨1, 2⟩, false), false) := by decide

/-- without a sink nothing is reported; the prune is the same -/
example : outNodes ((exFC .absent).pa.onPrune 1 1) =
      [(⟨1, 1⟩, none, none), (⟨2, 1⟩, some 0, some 0), (⟨2, 3⟩, some 1, some 0)] ∧
    outReport ((exFC .absent).pa.onPrune 1 1) = ([], none) ∧ outOk ((exFC .absent).pa.onPrune 1 1) = some true ∧
    ((exAbs .absent).prune ⟨1, 1⟩).2 = ([], none, true) := by decide

/-- … as the theorem says -/
example : Agrees (exFC .recording) ((exAbs .recording).prune ⟨1, 1⟩) ((exFC .recording).pa.onPrune 1 1) :=
  agrees_onPrune (exFC .recording) (exAbs .recording) (exFC_inv _) (exFC_ref _) (fun v hv => (by cases hv))
    (exFC_log _) 1 1

end PruneRef

open PruneRef in
/-- **The rewritten `OnPrune` refines the specification's prune.** From related states (all votes applied, sink log
cleared, as `UpdateJustified` calls it) the model's `OnPrune` returns — it neither panics nor loops — and ends in a
state related to the specification's, with the same success flag, the same successful sink reports in the same order
and the same failing report. -/
theorem ref_onPrune (fc : FC) (a : Abs) (I : FI fc) (r : Ref fc a) (hset : ∀ v ∈ fc.votes, v.cur = v.next)
    (hlog : fc.pa.sinkLog = []) (root : Root) (slot : Nat) :
    match fc.pa.onPrune root slot with
    | .ok s _ => Ref { fc with pa := s } (a.prune ⟨slot, root⟩).1 ∧ (a.prune ⟨slot, root⟩).2.2.2 = true ∧
        sinkReport s.sinkLog = ((a.prune ⟨slot, root⟩).2.1, (a.prune ⟨slot, root⟩).2.2.1)
    | .err s => Ref { fc with pa := s } (a.prune ⟨slot, root⟩).1 ∧ (a.prune ⟨slot, root⟩).2.2.2 = false ∧
        sinkReport s.sinkLog = ((a.prune ⟨slot, root⟩).2.1, (a.prune ⟨slot, root⟩).2.2.1)
    | _ => False := by
  have := agrees_onPrune fc a I r hset hlog root slot
  generalize fc.pa.onPrune root slot = out at this
  cases out <;> exact this

/-- the hypotheses of `ref_onPrune` are satisfiable (`PruneRef.exFC`, evaluated on both sides above) -/
example : match (PruneRef.exFC (.failAt 1)).pa.onPrune 1 1 with
    | .ok s _ => Ref { PruneRef.exFC (.failAt 1) with pa := s } ((PruneRef.exAbs (.failAt 1)).prune ⟨1, 1⟩).1 ∧
        ((PruneRef.exAbs (.failAt 1)).prune ⟨1, 1⟩).2.2.2 = true ∧
        sinkReport s.sinkLog = (((PruneRef.exAbs (.failAt 1)).prune ⟨1, 1⟩).2.1, ((PruneRef.exAbs (.failAt 1)).prune ⟨1, 1⟩).2.2.1)
    | .err s => Ref { PruneRef.exFC (.failAt 1) with pa := s } ((PruneRef.exAbs (.failAt 1)).prune ⟨1, 1⟩).1 ∧
        ((PruneRef.exAbs (.failAt 1)).prune ⟨1, 1⟩).2.2.2 = false ∧
        sinkReport s.sinkLog = (((PruneRef.exAbs (.failAt 1)).prune ⟨1, 1⟩).2.1, ((PruneRef.exAbs (.failAt 1)).prune ⟨1, 1⟩).2.2.1)
    | _ => False :=
  ref_onPrune (PruneRef.exFC (.failAt 1)) (PruneRef.exAbs (.failAt 1)) (PruneRef.exFC_inv _) (PruneRef.exFC_ref _)
    (fun v hv => (by cases hv)) (PruneRef.exFC_log _) 1 1

end Zrnt.ForkChoice
