import Proofs.Lemmas.ForkChoiceRefStatic
import Proofs.Lemmas.ForkChoiceInv2
import Proofs.Lemmas.ForkChoiceClosest
import Proofs.Lemmas.ForkChoiceOps
/-!
# Fork choice: operations that insert no node preserve the refinement relation and answer as the specification

For `Ref fc a` (and the model invariants `FI fc`):

1. `ref_frame`: link maintenance (`Frame`) keeps `Ref` (`RefOps.absNodes_congr`, `RefOps.ref_build`);
2. `RefOps.computeDeltas_settle`, `ref_updateVotesMaybe`: `ComputeDeltas` settles every tracker and keeps the
   abstraction of the votes;
3. `ref_processAttestation`;
4. `ref_setPin`;
5. `ref_updateJustified` (finalized checkpoint unchanged, so nothing is pruned).

Auxiliary lemmas live in `Zrnt.ForkChoice.RefOps`.
-/
namespace Zrnt.ForkChoice.RefOps
open Zrnt.ForkChoice Spec FC

/-! ## 1. frames -/

/-- `absNode` reads the skeleton of the node and the references of the array only -/
def absSkel (refs : Nat → Option NodeRef) (s : NodeRef × Option Idx × Option Idx × Root × Nat × Nat) : SNode :=
  { ref := s.1, parentRoot := s.2.2.2.1, tparent := s.2.1.bind refs, fparent := s.2.2.1.bind refs,
    jEpoch := s.2.2.2.2.1, fEpoch := s.2.2.2.2.2 }

theorem absNode_eq_absSkel (ns : List Node) (n : Node) : absNode ns n = absSkel (refAt ns) n.skel := rfl

theorem refAt_eq_skel (ns : List Node) (p : Nat) : refAt ns p = ((ns[p]?).map Node.skel).map (·.1) := by
  unfold refAt
  cases ns[p]? <;> rfl

theorem absNodes_congr (ns ns' : List Node)
    (hs : ∀ i : Nat, (ns'[i]?).map Node.skel = (ns[i]?).map Node.skel) : absNodes ns' = absNodes ns := by
  have hr : refAt ns' = refAt ns := by
    funext p
    rw [refAt_eq_skel, refAt_eq_skel, hs p]
  apply List.ext_getElem?
  intro i
  unfold absNodes
  rw [List.getElem?_map, List.getElem?_map]
  have e : ∀ (l : List Node), (l[i]?).map (absNode l) = ((l[i]?).map Node.skel).map (absSkel (refAt l)) := by
    intro l
    cases l[i]? <;> rfl
  rw [e ns', e ns, hs i, hr]

/-- the general way to re-establish `Ref` after an operation that keeps the skeletons -/
theorem ref_build {fc : FC} {a : Abs} (r : Ref fc a) (pa' : PA) (f : FrameS fc.pa pa') (vs' : List Vote) (c h : Bool)
    (B : List Nat) (J F : Checkpoint) (hj : pa'.jEpoch = J.epoch) (hf : pa'.fEpoch = F.epoch)
    (hfresh : ∀ v ∈ vs', v.next = NodeRef.zero → v = Vote.zero)
    (hnext : ∀ v ∈ vs', v.next = NodeRef.zero ∨ (aGet fc.pa.indices v.next).isSome ∨ v.cur = v.next)
    (hcur : ∀ v ∈ vs', v.cur = NodeRef.zero ∨ (v.curEpoch ≤ v.nextEpoch ∧ (v.curEpoch = v.nextEpoch → v.cur = v.next)))
    (hset : c = false → ∀ v ∈ vs', v.cur = v.next) :
    Ref { pa := pa', votes := vs', changed := c, spe := fc.spe, balances := B, pin := fc.pin, justified := J,
          finalized := F, held := h }
        { a with votes := vs'.map absVote, balances := B, justified := J, finalized := F } where
  spe := r.spe
  nodes := by rw [r.nodes]; exact (absNodes_congr _ _ f.skel).symm
  votes := rfl
  balances := rfl
  justified := rfl
  finalized := rfl
  pin := r.pin
  sink := by rw [r.sink]; exact f.sink.symm
  clean := r.clean
  jE := hj
  fE := hf
  fresh := hfresh
  next_in := by intro v hv; show _ ∨ (aGet pa'.indices v.next).isSome = true ∨ _; rw [f.indices]; exact hnext v hv
  cur_le := hcur
  settled := hset

/-- the abstract state is unchanged when the abstraction of the votes, the balances and the checkpoints are -/
theorem abs_same {fc : FC} {a : Abs} (r : Ref fc a) (vs' : List Vote) (hv : vs'.map absVote = fc.votes.map absVote) :
    ({ a with votes := vs'.map absVote, balances := fc.balances, justified := fc.justified,
              finalized := fc.finalized } : Abs) = a := by
  rw [hv, ← r.votes, ← r.balances, ← r.justified, ← r.finalized]

/-- only the votes change -/
theorem abs_votes {fc : FC} {a : Abs} (r : Ref fc a) (vs : List (Option LatestVote)) :
    ({ a with votes := vs, balances := fc.balances, justified := fc.justified, finalized := fc.finalized } : Abs) =
      { a with votes := vs } := by
  rw [← r.balances, ← r.justified, ← r.finalized]

end Zrnt.ForkChoice.RefOps

namespace Zrnt.ForkChoice
open Spec FC

theorem ref_frame (fc : FC) (a : Abs) (r : Ref fc a) (pa' : PA) (f : Frame fc.pa pa') : Ref { fc with pa := pa' } a := by
  have := RefOps.ref_build r pa' f.toFrameS fc.votes fc.changed fc.held fc.balances fc.justified fc.finalized
    (f.jE.trans r.jE) (f.fE.trans r.fE) r.fresh r.next_in r.cur_le r.settled
  rw [RefOps.abs_same r _ rfl] at this
  exact this

end Zrnt.ForkChoice
namespace Zrnt.ForkChoice.RefOps
open Zrnt.ForkChoice Spec FC

/-! ## 2. `ComputeDeltas` settles the votes -/

/-- the bookkeeping facts of `Ref` about one tracker -/
structure VOK (indices : List (NodeRef × Idx)) (v : Vote) : Prop where
  fresh : v.next = NodeRef.zero → v = Vote.zero
  next_in : v.next = NodeRef.zero ∨ (aGet indices v.next).isSome ∨ v.cur = v.next
  cur_le : v.cur = NodeRef.zero ∨ (v.curEpoch ≤ v.nextEpoch ∧ (v.curEpoch = v.nextEpoch → v.cur = v.next))

theorem absVote_congr {v w : Vote} (h1 : w.next = v.next) (h2 : w.nextEpoch = v.nextEpoch) : absVote w = absVote v := by
  unfold absVote; rw [h1, h2]

theorem computeDeltasLoop_settle (indices : List (NodeRef × Idx)) (oldB newB : List Nat) :
    ∀ (votes : List Vote) (k : Nat) (ds ds' : List Int) (vs' : List Vote),
      computeDeltasLoop indices oldB newB k votes ds = some (ds', vs') →
      (∀ v ∈ votes, VOK indices v) →
      vs'.map absVote = votes.map absVote ∧ ∀ v ∈ vs', v.cur = v.next ∧ VOK indices v := by
  intro votes
  induction votes with
  | nil =>
    intro k ds ds' vs' h _
    simp [computeDeltasLoop] at h
    obtain ⟨_, rfl⟩ := h
    exact ⟨rfl, fun v hv => by cases hv⟩
  | cons v vs ih =>
    intro k ds ds' vs' h hin
    have cont : ∀ (v' : Vote) (ds1 : List Int), absVote v' = absVote v → v'.cur = v'.next → VOK indices v' →
        (match computeDeltasLoop indices oldB newB (k + 1) vs ds1 with
          | some (d, l) => some (d, v' :: l)
          | none => none) = some (ds', vs') →
        vs'.map absVote = (v :: vs).map absVote ∧ ∀ w ∈ vs', w.cur = w.next ∧ VOK indices w := by
      intro v' ds1 ha hc hv' he
      cases hr : computeDeltasLoop indices oldB newB (k + 1) vs ds1 with
      | none => simp [hr] at he
      | some p =>
        obtain ⟨d, l⟩ := p
        simp [hr] at he
        obtain ⟨_, rfl⟩ := he
        obtain ⟨h1, h2⟩ := ih (k + 1) ds1 d l hr (fun x hx => hin x (List.mem_cons_of_mem _ hx))
        refine ⟨by rw [List.map_cons, List.map_cons, ha, h1], ?_⟩
        intro w hw
        rcases List.mem_cons.mp hw with e | hm
        · rw [e]; exact ⟨hc, hv'⟩
        · exact h2 w hm
    have hv0 : VOK indices v := hin v (List.mem_cons_self ..)
    unfold computeDeltasLoop at h
    simp only at h
    split at h
    · rename_i hz
      exact cont v ds rfl (by rw [hz.1, hz.2]) hv0 h
    · rename_i hnz
      have hnext : v.next ≠ NodeRef.zero := by
        intro e
        have := hv0.fresh e
        rw [this] at hnz
        exact hnz ⟨rfl, rfl⟩
      split at h
      · split at h
        · cases h
        · rename_i ds1 _
          split at h
          · rename_i n hn
            split at h
            · cases h
            · rename_i ds2 _
              refine cont { v with cur := v.next, curEpoch := v.nextEpoch } ds2 (absVote_congr rfl rfl) rfl ⟨?_, ?_, ?_⟩ h
              · intro e; exact absurd e hnext
              · exact Or.inr (Or.inr rfl)
              · exact Or.inr ⟨Nat.le_refl _, fun _ => rfl⟩
          · rename_i hn
            rcases hv0.next_in with e | e | e
            · exact absurd e hnext
            · rw [hn] at e; cases e
            · -- applied vote for a node that is gone: neither index exists, the tracker is unchanged
              have hcn : aGet indices v.cur = none := by rw [e]; exact hn
              rw [hcn] at h
              simp only at h
              exact cont v _ rfl e hv0 h
      · rename_i hno
        have hc : v.cur = v.next := by
          rcases hv0.cur_le with e | ⟨h1, h2⟩
          · exact absurd (Or.inl e) hno
          · apply h2
            have : ¬ v.curEpoch < v.nextEpoch := fun e => hno (Or.inr (Or.inl e))
            omega
        exact cont v ds rfl hc hv0 h

/-- part 2 of the task, on `computeDeltas` -/
theorem computeDeltas_settle (indices : List (NodeRef × Idx)) (votes : List Vote) (oldB newB : List Nat)
    (ds : List Int) (vs' : List Vote) (hd : computeDeltas indices votes oldB newB = some (ds, vs'))
    (hfresh : ∀ v ∈ votes, v.next = NodeRef.zero → v = Vote.zero)
    (hnext : ∀ v ∈ votes, v.next = NodeRef.zero ∨ (aGet indices v.next).isSome ∨ v.cur = v.next)
    (hcur : ∀ v ∈ votes, v.cur = NodeRef.zero ∨ (v.curEpoch ≤ v.nextEpoch ∧ (v.curEpoch = v.nextEpoch → v.cur = v.next))) :
    vs'.map absVote = votes.map absVote ∧ (∀ v ∈ vs', v.cur = v.next) ∧
    (∀ v ∈ vs', v.next = NodeRef.zero → v = Vote.zero) ∧
    (∀ v ∈ vs', v.next = NodeRef.zero ∨ (aGet indices v.next).isSome ∨ v.cur = v.next) ∧
    (∀ v ∈ vs', v.cur = NodeRef.zero ∨ (v.curEpoch ≤ v.nextEpoch ∧ (v.curEpoch = v.nextEpoch → v.cur = v.next))) := by
  obtain ⟨h1, h2⟩ := computeDeltasLoop_settle indices oldB newB votes 0 _ ds vs' hd
    (fun v hv => ⟨hfresh v hv, hnext v hv, hcur v hv⟩)
  exact ⟨h1, fun v hv => (h2 v hv).1, fun v hv => (h2 v hv).2.fresh, fun v hv => (h2 v hv).2.next_in,
    fun v hv => (h2 v hv).2.cur_le⟩

end Zrnt.ForkChoice.RefOps
namespace Zrnt.ForkChoice.RefOps
open Zrnt.ForkChoice Spec FC

/-- `PInv.applyDeltas` together with what the frame and the new epochs are -/
theorem applyDeltas_frame {pr : PA} {votes : List Vote} {oldB : List Nat} (I : PInv pr votes oldB) (newB : List Nat)
    (jE fE : Nat) :
    ∃ ds vs' pr', computeDeltas pr.indices votes oldB newB = some (ds, vs') ∧
      pr.applyScoreChanges ds jE fE = .ok pr' () ∧ PInv pr' vs' newB ∧ FrameS pr pr' ∧
      pr'.jEpoch = jE ∧ pr'.fEpoch = fE := by
  obtain ⟨ds, vs', pr', e, e2, I'⟩ := PInv.applyDeltas I newB jE fE
  obtain ⟨ds0, vs0, e0, l0, _⟩ := computeDeltas_ok pr I.wf votes oldB newB
  rw [e] at e0; cases e0
  obtain ⟨pr'', e3, _, hj, hf, _, fr⟩ := wf_applyScoreChanges pr I.wf ds l0 jE fE
  rw [e2] at e3
  cases e3
  exact ⟨ds, vs', pr', e, e2, I', fr, hj, hf⟩

end Zrnt.ForkChoice.RefOps

namespace Zrnt.ForkChoice
open Spec FC

theorem ref_updateVotesMaybe (fc : FC) (a : Abs) (I : FI fc) (r : Ref fc a) :
    ∃ fc', fc.updateVotesMaybe = .ok fc' () ∧ Ref fc' a ∧ FI fc' ∧ (∀ v ∈ fc'.votes, v.cur = v.next) ∧
      fc'.held = fc.held ∧ fc'.pin = fc.pin ∧ fc'.justified = fc.justified ∧ fc'.finalized = fc.finalized ∧
      fc'.spe = fc.spe ∧ FrameS fc.pa fc'.pa := by
  unfold updateVotesMaybe
  cases hc : fc.changed with
  | false =>
    exact ⟨fc, rfl, r, I, r.settled hc, rfl, rfl, rfl, rfl, rfl, FrameS.refl _⟩
  | true =>
    obtain ⟨ds, vs', pr', e, e2, I', fr, hj, hf⟩ :=
      RefOps.applyDeltas_frame I fc.balances fc.justified.epoch fc.finalized.epoch
    obtain ⟨s1, s2, s3, s4, s5⟩ := RefOps.computeDeltas_settle _ _ _ _ _ _ e r.fresh r.next_in r.cur_le
    simp only [Bool.not_true, Bool.false_eq_true, if_false]
    rw [e]
    simp only
    rw [e2]
    refine ⟨_, rfl, ?_, I', s2, rfl, rfl, rfl, rfl, rfl, fr⟩
    have := RefOps.ref_build r pr' fr vs' false fc.held fc.balances fc.justified fc.finalized hj hf s3 s4 s5
      (fun _ => s2)
    rw [RefOps.abs_same r _ s1] at this
    exact this

end Zrnt.ForkChoice

namespace Zrnt.ForkChoice.RefOps
open Zrnt.ForkChoice Spec FC

/-! ## 3. attestations -/

theorem held_eta (fc : FC) (hh : fc.held = false) : ({ fc with held := false } : FC) = fc := by
  cases fc; simp only at hh; subst hh; rfl

/-- the model's `ProcessAttestation` on a state satisfying the invariants: the two extra tests are implied -/
theorem processAttestation_eq (fc : FC) (hh : fc.held = false) (I : FI fc) (v : Nat) (root : Root) (slot : Nat) :
    fc.processAttestation v root slot =
      if (aGet fc.pa.indices ⟨slot, root⟩).isSome then
        .ok { fc with votes := (voteProcess fc.spe fc.votes fc.changed v root slot).1,
                      changed := (voteProcess fc.spe fc.votes fc.changed v root slot).2 } true
      else .ok fc false := by
  unfold processAttestation withLock
  simp only [hh, Bool.false_eq_true, if_false]
  cases hi : aGet fc.pa.indices ⟨slot, root⟩ with
  | none =>
    simp only [Option.isSome_none, Bool.false_eq_true, if_false, Option.isNone_none, if_true]
    have e := held_eta fc hh
    cases hs : fc.pa.getSlot root with
    | none => simp only; rw [e]
    | some bs =>
      by_cases hlt : slot < bs
      · simp only [hlt, if_true]; rw [e]
      · simp only [hlt, if_false]; rw [e]
  | some i =>
    obtain ⟨n, _, _, s0, hb, hk⟩ := I.chain.key I.wf hi
    have hle : s0 ≤ slot := I.chain.first_min I.wf root s0 slot i hb hi
    have hs : fc.pa.getSlot root = some s0 := hb
    simp only [hs, Option.isSome_some, if_true, Option.isNone_some, Bool.false_eq_true, if_false]
    have : ¬ slot < s0 := by omega
    simp only [this, if_false]

theorem absVote_zero : absVote Vote.zero = none := rfl

theorem votePad_map (votes : List Vote) (k : Nat) :
    (votePad votes k).map absVote =
      if k ≥ (votes.map absVote).length then
        votes.map absVote ++ List.replicate (k + 1 - (votes.map absVote).length) none
      else votes.map absVote := by
  unfold votePad
  rw [List.length_map]
  split
  · rw [List.map_append, List.map_replicate, absVote_zero]
  · rfl

theorem votePad_lt (votes : List Vote) (k : Nat) : k < (votePad votes k).length := by
  unfold votePad
  split
  · rw [List.length_append, List.length_replicate]; omega
  · omega

theorem votePad_mem (votes : List Vote) (k : Nat) (w : Vote) (hw : w ∈ votePad votes k) : w ∈ votes ∨ w = Vote.zero := by
  unfold votePad at hw
  split at hw
  · rcases List.mem_append.mp hw with h | h
    · exact Or.inl h
    · exact Or.inr (List.eq_of_mem_replicate h)
  · exact Or.inl hw

theorem getD_map_absVote (l : List Vote) (k : Nat) : (l.map absVote).getD k none = absVote (l.getD k Vote.zero) := by
  rw [List.getD_eq_getElem?_getD, List.getD_eq_getElem?_getD, List.getElem?_map]
  cases l[k]? <;> rfl

theorem getD_mem (l : List Vote) (k : Nat) (hk : k < l.length) : l.getD k Vote.zero ∈ l := by
  rw [List.getD_eq_getElem?_getD, List.getElem?_eq_getElem hk]
  exact List.getElem_mem hk

end Zrnt.ForkChoice.RefOps

namespace Zrnt.ForkChoice.RefOps
open Zrnt.ForkChoice Spec FC

/-- the padded trackers keep the bookkeeping facts -/
theorem votePad_vok {fc : FC} {a : Abs} (r : Ref fc a) (k : Nat) :
    ∀ w ∈ votePad fc.votes k, VOK fc.pa.indices w := by
  intro w hw
  rcases votePad_mem _ _ _ hw with h | h
  · exact ⟨r.fresh w h, r.next_in w h, r.cur_le w h⟩
  · subst h; exact ⟨fun _ => rfl, Or.inl rfl, Or.inl rfl⟩

theorem votePad_settled {fc : FC} {a : Abs} (r : Ref fc a) (k : Nat) (hc : fc.changed = false) :
    ∀ w ∈ votePad fc.votes k, w.cur = w.next := by
  intro w hw
  rcases votePad_mem _ _ _ hw with h | h
  · exact r.settled hc w h
  · subst h; rfl

/-- `Ref` after the trackers changed (nothing else) -/
theorem ref_votes {fc : FC} {a : Abs} (r : Ref fc a) (vs' : List Vote) (c : Bool)
    (hv : ∀ v ∈ vs', VOK fc.pa.indices v) (hset : c = false → ∀ v ∈ vs', v.cur = v.next) :
    Ref { fc with votes := vs', changed := c } { a with votes := vs'.map absVote } := by
  have := ref_build r fc.pa (FrameS.refl _) vs' c fc.held fc.balances fc.justified fc.finalized r.jE r.fE
    (fun v h => (hv v h).fresh) (fun v h => (hv v h).next_in) (fun v h => (hv v h).cur_le) hset
  rw [abs_votes r] at this
  exact this

end Zrnt.ForkChoice.RefOps

namespace Zrnt.ForkChoice
open Spec FC

theorem ref_processAttestation (fc : FC) (a : Abs) (hh : fc.held = false) (I : FI fc) (r : Ref fc a) (v : Nat)
    (root : Root) (slot : Nat) (hnz : ¬ (root = 0 ∧ slot = 0)) :
    ∃ fc' b, fc.processAttestation v root slot = .ok fc' b ∧ fc'.held = false ∧ fc'.pa = fc.pa ∧
      Ref fc' (a.processAttestation v root slot).1 ∧ (a.processAttestation v root slot).2 = b := by
  rw [RefOps.processAttestation_eq fc hh I]
  unfold Abs.processAttestation
  rw [if_neg hnz, has_iff I.wf r]
  cases hi : aGet fc.pa.indices ⟨slot, root⟩ with
  | none => exact ⟨fc, false, rfl, hh, rfl, r, rfl⟩
  | some i =>
    simp only [Option.isSome_some, Bool.not_true, Bool.false_eq_true, if_false, if_true]
    have hsp : slot / a.spe = slot / fc.spe := by rw [r.spe]
    generalize slot / a.spe = ep at hsp ⊢
    rw [r.votes, ← RefOps.votePad_map, RefOps.getD_map_absVote, voteProcess_def, ← hsp]
    have hwm := RefOps.getD_mem _ _ (RefOps.votePad_lt fc.votes v)
    have hP := RefOps.votePad_vok r v
    have hS := RefOps.votePad_settled r v
    have hne : (⟨slot, root⟩ : NodeRef) ≠ NodeRef.zero := by
      intro e; injection e with e1 e2; exact hnz ⟨e2, e1⟩
    generalize (votePad fc.votes v).getD v Vote.zero = w at hwm ⊢
    have hw := hP w hwm
    -- `Ref` after the tracker `w` was replaced
    have hnew : ∀ (hok : w.cur = NodeRef.zero ∨ w.nextEpoch < ep),
        Ref { fc with votes := (votePad fc.votes v).set v { w with nextEpoch := ep, next := ⟨slot, root⟩ },
                      changed := true }
            { a with votes := ((votePad fc.votes v).map absVote).set v (some ⟨⟨slot, root⟩, ep⟩) } := by
      intro hok
      have := RefOps.ref_votes r
        ((votePad fc.votes v).set v { w with nextEpoch := ep, next := ⟨slot, root⟩ }) true
        (by
          intro x hx
          rcases List.mem_or_eq_of_mem_set hx with h | h
          · exact hP x h
          · subst h
            refine ⟨fun e => absurd e hne, Or.inr (Or.inl (by rw [hi]; rfl)), ?_⟩
            rcases hok with h0 | h0
            · exact Or.inl h0
            · rcases hw.cur_le with h1 | ⟨h1, _⟩
              · exact Or.inl h1
              · exact Or.inr ⟨by show w.curEpoch ≤ ep; omega,
                  fun e => by have e' : w.curEpoch = ep := e; omega⟩)
        (fun e => by cases e)
      rw [List.map_set] at this
      have e : absVote { w with nextEpoch := ep, next := ⟨slot, root⟩ } =
          some ⟨⟨slot, root⟩, ep⟩ := by
        unfold absVote; rw [if_neg hne]
      rw [e] at this
      exact this
    by_cases hz : w.next = NodeRef.zero
    · have hw0 : w = Vote.zero := hw.fresh hz
      have e1 : absVote w = none := by unfold absVote; rw [if_pos hz]
      have hcond : (decide (ep > w.nextEpoch) || (ep == 0 && w == Vote.zero)) = true := by
        subst hw0
        by_cases h0 : ep = 0
        · simp [h0]
        · have : ep > Vote.zero.nextEpoch := Nat.pos_of_ne_zero h0
          simp [this]
      rw [e1, if_pos hcond]
      exact ⟨_, true, rfl, hh, rfl, hnew (Or.inl (by rw [hw0]; rfl)), rfl⟩
    · have e1 : absVote w = some ⟨w.next, w.nextEpoch⟩ := by unfold absVote; rw [if_neg hz]
      have hwne : (w == Vote.zero) = false := by
        rw [beq_eq_false_iff_ne]; intro e; rw [e] at hz; exact hz rfl
      rw [e1, hwne, Bool.and_false, Bool.or_false]
      simp only
      by_cases hgt : ep > w.nextEpoch
      · rw [if_pos hgt, if_pos (by simpa using hgt)]
        exact ⟨_, true, rfl, hh, rfl, hnew (Or.inr hgt), rfl⟩
      · rw [if_neg hgt, if_neg (by simpa using hgt)]
        exact ⟨_, true, rfl, hh, rfl, RefOps.ref_votes r _ _ hP hS, rfl⟩

end Zrnt.ForkChoice

namespace Zrnt.ForkChoice.RefOps
open Zrnt.ForkChoice Spec FC

/-! ## 4. the pin -/

/-- `ClosestToSlot` returns the node itself when it exists, and otherwise an error or a node at a lower slot -/
theorem closestToSlot_cases (pr : PA) (h : WF pr) (root : Root) (slot : Nat) :
    ((aGet pr.indices ⟨slot, root⟩).isSome = true ∧ pr.closestToSlot root slot = some ⟨slot, root⟩) ∨
    ((aGet pr.indices ⟨slot, root⟩).isSome = false ∧
      (pr.closestToSlot root slot = none ∨ ∃ c, pr.closestToSlot root slot = some c ∧ c.slot < slot)) := by
  unfold PA.closestToSlot
  cases hs : (aGet pr.indices ⟨slot, root⟩).isSome with
  | true => left; exact ⟨rfl, by simp⟩
  | false =>
    right
    refine ⟨rfl, ?_⟩
    simp only [Bool.false_eq_true, if_false]
    cases hb : aGet pr.blockSlots root with
    | none => left; rfl
    | some s0 =>
      simp only
      have h0 := h.bs_node root s0 hb
      by_cases h1 : s0 > slot
      · left; rw [if_pos h1]
      · rw [if_neg h1]
        by_cases h2 : s0 = slot
        · subst h2; rw [hs] at h0; cases h0
        · rw [if_neg h2]
          right
          refine ⟨_, rfl, ?_⟩
          have := bsearch_spec pr root s0 slot s0 slot (Nat.le_refl _) (by omega) (by omega) h0 hs
          exact this.2.1

theorem setPin_unfold (fc : FC) (hh : fc.held = false) (root : Root) (slot : Nat) :
    fc.setPin root slot =
      match fc.pa.closestToSlot root slot with
      | none => .err fc
      | some c => if c.slot < slot then .err fc else .ok { fc with pin := some ⟨slot, root⟩ } () := by
  unfold FC.setPin FC.withLock FC.setPinBody
  simp only [hh, Bool.false_eq_true, if_false]
  cases fc
  simp only at hh
  subst hh
  simp only
  cases PA.closestToSlot _ root slot with
  | none => rfl
  | some c =>
    simp only
    by_cases hc : c.slot < slot
    · simp [hc]
    · simp [hc]

end Zrnt.ForkChoice.RefOps

namespace Zrnt.ForkChoice
open Spec FC

theorem ref_setPin (fc : FC) (a : Abs) (hh : fc.held = false) (I : FI fc) (r : Ref fc a) (root : Root) (slot : Nat) :
    (a.has ⟨slot, root⟩ = true ∧ fc.setPin root slot = .ok { fc with pin := some ⟨slot, root⟩ } () ∧
       Ref { fc with pin := some ⟨slot, root⟩ } { a with pin := some ⟨slot, root⟩ }) ∨
    (a.has ⟨slot, root⟩ = false ∧ fc.setPin root slot = .err fc) := by
  rw [has_iff I.wf r, RefOps.setPin_unfold fc hh]
  rcases RefOps.closestToSlot_cases fc.pa I.wf root slot with ⟨h1, h2⟩ | ⟨h1, h2 | ⟨c, h2, h3⟩⟩
  · left
    rw [h2]
    refine ⟨h1, by simp, ?_⟩
    exact { spe := r.spe, nodes := r.nodes, votes := r.votes, balances := r.balances, justified := r.justified,
            finalized := r.finalized, pin := rfl, sink := r.sink, clean := r.clean, jE := r.jE, fE := r.fE,
            fresh := r.fresh, next_in := r.next_in, cur_le := r.cur_le, settled := r.settled }
  · right; rw [h2]; exact ⟨h1, rfl⟩
  · right; rw [h2]; exact ⟨h1, by simp [h3]⟩

end Zrnt.ForkChoice

namespace Zrnt.ForkChoice.RefOps
open Zrnt.ForkChoice Spec FC

/-! ## 5. `UpdateJustified` with an unchanged finalized checkpoint -/

/-- the answer of `InSubtree`, read off the two maps and fork-choice ancestry -/
def insAns (pr : PA) (ra rl : Root) : Bool × Bool :=
  match (aGet pr.blockSlots ra).bind (fun s => aGet pr.indices ⟨s, ra⟩),
        (aGet pr.blockSlots rl).bind (fun s => aGet pr.indices ⟨s, rl⟩) with
  | some a, some l => (false, anc pr.nodes a l)
  | _, _ => (true, false)

theorem insAns_frame {pr pr' : PA} (f : FrameS pr pr') (ra rl : Root) : insAns pr' ra rl = insAns pr ra rl := by
  unfold insAns
  rw [f.blockSlots, f.indices]
  cases (aGet pr.blockSlots ra).bind (fun s => aGet pr.indices ⟨s, ra⟩) with
  | none => rfl
  | some x =>
    cases (aGet pr.blockSlots rl).bind (fun s => aGet pr.indices ⟨s, rl⟩) with
    | none => rfl
    | some l => simp only [f.anc]

/-- `inSubtree_eq_anc` without the hypothesis `updated = true`: the call first brings the links up to date -/
theorem inSubtree_answer (pr : PA) (h : WF pr) (hc : Chain pr) (ra rl : Root) :
    ∃ pr1, pr.inSubtree ra rl = .ok pr1 (insAns pr ra rl) ∧ WF pr1 ∧ Frame pr pr1 := by
  by_cases hu : pr.updated = true
  · exact ⟨pr, inSubtree_eq_anc pr h hc hu ra rl, h, Frame.refl pr⟩
  · by_cases e : ra = rl
    · subst e
      refine ⟨pr, ?_, h, Frame.refl pr⟩
      unfold PA.inSubtree insAns
      rw [if_pos rfl]
      cases hb : aGet pr.blockSlots ra with
      | none => rfl
      | some s =>
        obtain ⟨i, hi⟩ := Option.isSome_iff_exists.1 (h.bs_node ra s hb)
        simp only [Option.bind_some, hi, anc_self]
    · obtain ⟨pr1, h1, hw1, hu1, hf1⟩ := wf_updateConnections pr h
      have hc1 : Chain pr1 := chain_congr hf1.indices hf1.blockSlots hf1.len hf1.skel hc
      have e1 : pr.inSubtree ra rl = pr1.inSubtree ra rl := by
        unfold PA.inSubtree
        simp only [if_neg e, hu, hu1, h1, Bool.false_eq_true, if_false, if_true]
      refine ⟨pr1, ?_, hw1, hf1⟩
      rw [e1, inSubtree_eq_anc pr1 hw1 hc1 hu1 ra rl]
      exact congrArg _ (insAns_frame hf1.toFrameS ra rl)

/-- the specification's `inside … = some true` is the model's "known and in the subtree" -/
theorem inside_ans {fc : FC} {a : Abs} (h : WF fc.pa) (hc : Chain fc.pa) (r : Ref fc a) (ra rl : Root) :
    a.inside ra rl = some true ↔ insAns fc.pa ra rl = (false, true) := by
  rw [inside_eq h hc r]
  unfold insAns
  cases (aGet fc.pa.blockSlots ra).bind (fun s => aGet fc.pa.indices ⟨s, ra⟩) with
  | none => simp
  | some x =>
    cases (aGet fc.pa.blockSlots rl).bind (fun s => aGet fc.pa.indices ⟨s, rl⟩) with
    | none => simp
    | some l => simp

end Zrnt.ForkChoice.RefOps

namespace Zrnt.ForkChoice.RefOps
open Zrnt.ForkChoice Spec FC

/-- the specification's `updateJustified` after the "nothing newer" and pin tests, finalized checkpoint unchanged -/
def specInner (a : Abs) (j : Checkpoint) (b : Option (List Nat)) : Abs × Ans :=
  if j.epoch < a.finalized.epoch then (a, .justify false [] none) else
  if a.justified ≠ j && !(a.inside a.finalized.root j.root = some true && a.finalized.epoch ≤ j.epoch) then
    (a, .justify false [] none) else
  match b with
  | none => (a, .justify false [] none)
  | some bals => ({ a with balances := bals, justified := j }, .justify true [] none)

def specPinOk (a : Abs) (t : Root) : Bool :=
  match a.pin with
  | some p => t = p.root || a.inside p.root t = some true
  | none => true

theorem spec_updateJustified (a : Abs) (t : Root) (j : Checkpoint) (b : Option (List Nat)) :
    a.updateJustified t j a.finalized b =
      if a.justified.epoch ≥ j.epoch && a.finalized.epoch ≥ a.finalized.epoch then (a, .justify true [] none) else
      if !specPinOk a t then (a, .justify false [] none) else specInner a j b := by
  unfold Abs.updateJustified specInner specPinOk
  simp only [ne_eq, not_true_eq_false, decide_false, Bool.false_and, Bool.false_eq_true, if_false]
  cases b <;> rfl

end Zrnt.ForkChoice.RefOps

namespace Zrnt.ForkChoice.RefOps
open Zrnt.ForkChoice Spec FC

/-- what holds of the model state inside the body of `UpdateJustified` (mutex held) -/
structure St (a : Abs) (fc : FC) : Prop where
  held : fc.held = true
  log : fc.pa.sinkLog = []
  inv : FI fc
  ref : Ref fc a

/-- outcome of (a part of) the body against the specification's result `sp` -/
def Outcome (sp : Abs × Ans) (r : Out FC Unit) : Prop :=
  match r with
  | .ok fc' _ => St sp.1 fc' ∧ sp.2 = .justify true [] none
  | .err fc' => St sp.1 fc' ∧ sp.2 = .justify false [] none
  | .panic => False
  | .blocked => False

theorem St.frame {a : Abs} {fc : FC} (s : St a fc) (pa' : PA) (hw : WF pa') (f : Frame fc.pa pa') :
    St a { fc with pa := pa' } :=
  ⟨s.held, f.sinkLog.trans s.log, PInv.frame s.inv hw f, ref_frame fc a s.ref pa' f⟩

/-- a subtree test inside the body: the answer, and the state it leaves -/
theorem St.gate {a : Abs} {fc : FC} (s : St a fc) (ra rl : Root) :
    ∃ pa', fc.pa.inSubtree ra rl = .ok pa' (insAns fc.pa ra rl) ∧ St a { fc with pa := pa' } := by
  obtain ⟨pa', e, hw, f⟩ := inSubtree_answer fc.pa s.inv.wf s.inv.chain ra rl
  exact ⟨pa', e, s.frame pa' hw f⟩

theorem checkCp_eq {a : Abs} {fc : FC} (s : St a fc) (changed : Bool) (cp : Checkpoint) :
    ∃ fc', St a fc' ∧ ∀ k : FC → Out FC Unit,
      fc.checkCp changed cp k =
        if changed && !(decide (a.inside a.finalized.root cp.root = some true) && decide (a.finalized.epoch ≤ cp.epoch))
        then .err fc' else k fc' := by
  cases changed with
  | false => exact ⟨fc, s, fun _ => rfl⟩
  | true =>
    obtain ⟨pa', e, s'⟩ := s.gate fc.finalized.root cp.root
    refine ⟨_, s', ?_⟩
    intro k
    have hin := inside_ans s.inv.wf s.inv.chain s.ref fc.finalized.root cp.root
    unfold checkCp
    rw [s.ref.finalized]
    simp only [if_true, e, Bool.true_and]
    generalize insAns fc.pa fc.finalized.root cp.root = ans at hin
    obtain ⟨u, i⟩ := ans
    cases u with
    | true =>
      have : ¬ a.inside fc.finalized.root cp.root = some true := fun h => by have := hin.1 h; cases this
      simp [this]
    | false =>
      cases i with
      | false =>
        have : ¬ a.inside fc.finalized.root cp.root = some true := fun h => by have := hin.1 h; cases this
        simp [this]
      | true =>
        have : a.inside fc.finalized.root cp.root = some true := hin.2 rfl
        simp only [this, decide_true, Bool.true_and, Bool.false_eq_true, if_false, Bool.not_true, Bool.false_or]
        by_cases hle : fc.finalized.epoch ≤ cp.epoch
        · have : ¬ fc.finalized.epoch > cp.epoch := by omega
          simp [hle, this]
        · have : fc.finalized.epoch > cp.epoch := by omega
          simp [hle, this]

end Zrnt.ForkChoice.RefOps

namespace Zrnt.ForkChoice.RefOps
open Zrnt.ForkChoice Spec FC

theorem checkCp_false (fc : FC) (cp : Checkpoint) (k : FC → Out FC Unit) : fc.checkCp false cp k = k fc := rfl

/-- the unexported `updateJustified` with the finalized checkpoint unchanged against the specification -/
theorem inner_outcome {a : Abs} {fc : FC} (s : St a fc) (j : Checkpoint) (b : Option (List Nat)) :
    Outcome (specInner a j b) (fc.updateJustifiedInner a.finalized j b) := by
  unfold updateJustifiedInner specInner
  by_cases h1 : j.epoch < a.finalized.epoch
  · rw [if_pos h1, if_pos h1]; exact ⟨s, rfl⟩
  · rw [if_neg h1, if_neg h1]
    have e0 : decide (fc.finalized ≠ a.finalized) = false := by rw [s.ref.finalized]; simp
    rw [e0, checkCp_false]
    obtain ⟨fc2, s2, e2⟩ := checkCp_eq s (decide (fc.justified ≠ j)) j
    rw [e2, ← s.ref.justified]
    by_cases h2 : (decide (a.justified ≠ j) &&
        !(decide (a.inside a.finalized.root j.root = some true) && decide (a.finalized.epoch ≤ j.epoch))) = true
    · rw [if_pos h2, if_pos h2]; exact ⟨s2, rfl⟩
    · rw [if_neg h2, if_neg h2]
      cases b with
      | none => exact ⟨s2, rfl⟩
      | some bals =>
        simp only
        obtain ⟨ds, vs', pr', e, e3, I', fr, hj, hf⟩ := applyDeltas_frame s2.inv bals j.epoch a.finalized.epoch
        obtain ⟨t1, t2, t3, t4, t5⟩ :=
          computeDeltas_settle _ _ _ _ _ _ e s2.ref.fresh s2.ref.next_in s2.ref.cur_le
        rw [e]
        simp only
        rw [e3]
        refine ⟨⟨s2.held, fr.sinkLog.trans s2.log, I', ?_⟩, rfl⟩
        have := ref_build s2.ref pr' fr vs' false fc2.held bals j a.finalized hj hf t3 t4 t5 (fun _ => t2)
        rw [t1, ← s2.ref.votes] at this
        exact this

end Zrnt.ForkChoice.RefOps

namespace Zrnt.ForkChoice.RefOps
open Zrnt.ForkChoice Spec FC

/-- `afterPin` of `UpdateJustified` (a local function there) -/
def afterPin (fc : FC) (justified finalized : Checkpoint) (balances : Option (List Nat)) : Out FC Unit :=
  let prevFinalized := fc.finalized
  match fc.updateJustifiedInner finalized justified balances with
  | .panic => .panic
  | .blocked => .blocked
  | .err fc => .err fc
  | .ok fc _ =>
    if prevFinalized ≠ finalized then
      let fc := { fc with pin := none }
      match fc.pa.onPrune finalized.root (finalized.epoch * fc.spe) with
      | .panic => .panic
      | .spin => .blocked
      | .err pa => .err { fc with pa := pa }
      | .ok pa _ => .ok { fc with pa := pa } ()
    else .ok fc ()

/-- the body of `UpdateJustified` under the lock -/
def ujBody (fc : FC) (trigger : Root) (justified finalized : Checkpoint) (balances : Option (List Nat)) : Out FC Unit :=
  if fc.justified.epoch ≥ justified.epoch && fc.finalized.epoch ≥ finalized.epoch then .ok fc () else
  match fc.pin with
  | some pin =>
    if trigger ≠ pin.root then
      match fc.pa.inSubtree pin.root trigger with
      | .panic => .panic
      | .spin => .blocked
      | .err pa => .err { fc with pa := pa }
      | .ok pa (unknown, inS) =>
        let fc := { fc with pa := pa }
        if unknown then .err fc else if !inS then .err fc else afterPin fc justified finalized balances
    else afterPin fc justified finalized balances
  | none => afterPin fc justified finalized balances

theorem updateJustified_unfold (fc : FC) (t : Root) (j f : Checkpoint) (b : Option (List Nat)) :
    fc.updateJustified t j f b = fc.withLock (fun fc => ujBody fc t j f b) := rfl

theorem afterPin_outcome {a : Abs} {fc : FC} (s : St a fc) (j : Checkpoint) (b : Option (List Nat)) :
    Outcome (specInner a j b) (afterPin fc j a.finalized b) := by
  have h := inner_outcome s j b
  unfold afterPin
  have e0 : ¬ fc.finalized ≠ a.finalized := by rw [s.ref.finalized]; simp
  simp only [e0, if_false]
  revert h
  cases fc.updateJustifiedInner a.finalized j b with
  | ok s' u => exact fun h => h
  | err s' => exact fun h => h
  | panic => exact fun h => h
  | blocked => exact fun h => h

theorem ujBody_outcome {a : Abs} {fc : FC} (s : St a fc) (t : Root) (j : Checkpoint) (b : Option (List Nat)) :
    Outcome (a.updateJustified t j a.finalized b) (ujBody fc t j a.finalized b) := by
  rw [spec_updateJustified]
  unfold ujBody
  have c1 : (decide (fc.justified.epoch ≥ j.epoch) && decide (fc.finalized.epoch ≥ a.finalized.epoch)) =
      (decide (a.justified.epoch ≥ j.epoch) && decide (a.finalized.epoch ≥ a.finalized.epoch)) := by
    rw [s.ref.justified, s.ref.finalized]
  rw [c1]
  by_cases h1 : (decide (a.justified.epoch ≥ j.epoch) && decide (a.finalized.epoch ≥ a.finalized.epoch)) = true
  · rw [if_pos h1, if_pos h1]; exact ⟨s, rfl⟩
  · rw [if_neg h1, if_neg h1]
    unfold specPinOk
    rw [s.ref.pin]
    cases hp : fc.pin with
    | none => exact afterPin_outcome s j b
    | some pin =>
      simp only
      by_cases h2 : t = pin.root
      · simp only [h2, ne_eq, not_true_eq_false, if_false, decide_true, Bool.true_or, Bool.not_true,
          Bool.false_eq_true]
        exact afterPin_outcome s j b
      · simp only [ne_eq, h2, not_false_eq_true, if_true, decide_false, Bool.false_or]
        obtain ⟨pa', e, s'⟩ := s.gate pin.root t
        rw [hp] at s'
        have hin := inside_ans s.inv.wf s.inv.chain s.ref pin.root t
        rw [e]
        generalize insAns fc.pa pin.root t = ans at hin
        obtain ⟨u, i⟩ := ans
        cases u with
        | true =>
          have : ¬ a.inside pin.root t = some true := fun h => by have := hin.1 h; cases this
          simp only [this, decide_false, Bool.not_false, if_true]
          exact ⟨s', rfl⟩
        | false =>
          cases i with
          | false =>
            have : ¬ a.inside pin.root t = some true := fun h => by have := hin.1 h; cases this
            simp only [this, decide_false, Bool.not_false, if_true, Bool.false_eq_true, if_false]
            exact ⟨s', rfl⟩
          | true =>
            have : a.inside pin.root t = some true := hin.2 rfl
            simp only [this, decide_true, Bool.not_true, Bool.false_eq_true, if_false]
            exact afterPin_outcome s' j b

end Zrnt.ForkChoice.RefOps

namespace Zrnt.ForkChoice.RefOps
open Zrnt.ForkChoice Spec FC

/-- the mutex flag is not part of the refinement relation -/
theorem ref_held {fc : FC} {a : Abs} (r : Ref fc a) (h : Bool) : Ref { fc with held := h } a :=
  { spe := r.spe, nodes := r.nodes, votes := r.votes, balances := r.balances, justified := r.justified,
    finalized := r.finalized, pin := r.pin, sink := r.sink, clean := r.clean, jE := r.jE, fE := r.fE,
    fresh := r.fresh, next_in := r.next_in, cur_le := r.cur_le, settled := r.settled }

/-- the statement of `ref_updateJustified` as a predicate on the outcome -/
def Final (sp : Abs × Ans) (r : Out FC Unit) : Prop :=
  match r with
  | .ok fc' _ => fc'.held = false ∧ fc'.pa.sinkLog = [] ∧ FI fc' ∧ Ref fc' sp.1 ∧ sp.2 = .justify true [] none
  | .err fc' => fc'.held = false ∧ fc'.pa.sinkLog = [] ∧ FI fc' ∧ Ref fc' sp.1 ∧ sp.2 = .justify false [] none
  | _ => False

theorem final_withLock (fc : FC) (hh : fc.held = false) (sp : Abs × Ans) (body : FC → Out FC Unit)
    (hb : Outcome sp (body { fc with held := true })) : Final sp (fc.withLock body) := by
  unfold withLock
  simp only [hh, Bool.false_eq_true, if_false]
  revert hb
  cases body { fc with held := true } with
  | ok s u => exact fun hb => ⟨rfl, hb.1.log, hb.1.inv, ref_held hb.1.ref false, hb.2⟩
  | err s => exact fun hb => ⟨rfl, hb.1.log, hb.1.inv, ref_held hb.1.ref false, hb.2⟩
  | panic => exact fun hb => hb
  | blocked => exact fun hb => hb

theorem final_updateJustified (fc : FC) (a : Abs) (hh : fc.held = false) (I : FI fc) (r : Ref fc a) (t : Root)
    (j f : Checkpoint) (b : Option (List Nat)) (hq : f = fc.finalized) (hlog : fc.pa.sinkLog = []) :
    Final (a.updateJustified t j f b) (fc.updateJustified t j f b) := by
  have hq' : f = a.finalized := by rw [r.finalized]; exact hq
  subst hq'
  rw [updateJustified_unfold]
  apply final_withLock fc hh
  exact ujBody_outcome (fc := { fc with held := true }) ⟨rfl, hlog, I, ref_held r true⟩ t j b

end Zrnt.ForkChoice.RefOps

namespace Zrnt.ForkChoice
open Spec FC

theorem ref_updateJustified (fc : FC) (a : Abs) (hh : fc.held = false) (I : FI fc) (r : Ref fc a) (t : Root)
    (j f : Checkpoint) (b : Option (List Nat)) (hq : f = fc.finalized) (hlog : fc.pa.sinkLog = []) :
    match fc.updateJustified t j f b with
    | .ok fc' _ => fc'.held = false ∧ fc'.pa.sinkLog = [] ∧ FI fc' ∧ Ref fc' (a.updateJustified t j f b).1 ∧
        (a.updateJustified t j f b).2 = .justify true [] none
    | .err fc' => fc'.held = false ∧ fc'.pa.sinkLog = [] ∧ FI fc' ∧ Ref fc' (a.updateJustified t j f b).1 ∧
        (a.updateJustified t j f b).2 = .justify false [] none
    | _ => False := by
  have h := RefOps.final_updateJustified fc a hh I r t j f b hq hlog
  revert h
  cases fc.updateJustified t j f b with
  | ok s u => exact fun h => h
  | err s => exact fun h => h
  | panic => exact fun h => h
  | blocked => exact fun h => h

end Zrnt.ForkChoice

/-! ## non-vacuity: all hypotheses hold together on `refExFC2`/`refExAbs2` (anchor `(1,0)`, block `2` at slot `1`),
and the theorems say something there -/
namespace Zrnt.ForkChoice
open Spec FC

theorem RefOps.refEx2_fi : FI refExFC2 := by
  have hz : aGet refExFC2.pa.indices NodeRef.zero = none := by decide
  refine PInv.mk refEx2_ok.1 refEx2_ok.2 hz ?_
  intro i n hn
  have hw : ∀ m ∈ refExFC2.pa.nodes, m.weight = 0 := by decide
  rw [hw n (List.mem_of_getElem? hn)]
  rfl

/-- 1: the link pass of `updateConnections` keeps `Ref` -/
example : Ref { refExFC2 with pa := refExFC2.pa.updateConnections.1 } refExAbs2 := by
  obtain ⟨pr', e, _, _, f⟩ := wf_updateConnections refExFC2.pa RefOps.refEx2_fi.wf
  rw [e]
  exact ref_frame refExFC2 refExAbs2 refEx2_ref pr' f

/-- 3: validator 0 attests to block `2` at slot `1`: accepted on both sides, `Ref` kept -/
example : ∃ fc' b, refExFC2.processAttestation 0 2 1 = .ok fc' b ∧ fc'.held = false ∧ fc'.pa = refExFC2.pa ∧
    Ref fc' (refExAbs2.processAttestation 0 2 1).1 ∧ (refExAbs2.processAttestation 0 2 1).2 = b :=
  ref_processAttestation refExFC2 refExAbs2 rfl RefOps.refEx2_fi refEx2_ref 0 2 1 (by decide)

example : (refExAbs2.processAttestation 0 2 1).2 = true ∧
    (refExAbs2.processAttestation 0 2 1).1.votes = [some ⟨⟨1, 2⟩, 0⟩] ∧
    (refExAbs2.processAttestation 0 3 1).2 = false := by decide

/-- 2: after that attestation a change is pending (`changed = true`, tracker not applied), and
`updateVotesMaybe` settles it under `Ref` -/
example : ∃ fc a, FI fc ∧ Ref fc a ∧ fc.changed = true ∧ (∃ v ∈ fc.votes, v.cur ≠ v.next) ∧
    ∃ fc', fc.updateVotesMaybe = .ok fc' () ∧ Ref fc' a ∧ ∀ v ∈ fc'.votes, v.cur = v.next := by
  obtain ⟨fc', b, e, hh, _, r', _⟩ :=
    ref_processAttestation refExFC2 refExAbs2 rfl RefOps.refEx2_fi refEx2_ref 0 2 1 (by decide)
  have hs := safeI_processAttestation refExFC2 rfl RefOps.refEx2_fi 0 2 1
  rw [e] at hs
  have e' : refExFC2.processAttestation 0 2 1 =
      .ok { refExFC2 with votes := [⟨NodeRef.zero, ⟨1, 2⟩, 0, 0⟩], changed := true } true := rfl
  rw [e'] at e
  cases e
  obtain ⟨fc'', e2, r2, _, hset, _⟩ := ref_updateVotesMaybe _ _ hs.2 r'
  exact ⟨_, _, hs.2, r', rfl, ⟨_, List.mem_cons_self .., by decide⟩, fc'', e2, r2, hset⟩

/-- 4: pinning an existing node succeeds on both sides, pinning a missing one fails on both sides -/
example : refExAbs2.has ⟨1, 2⟩ = true ∧ refExFC2.setPin 2 1 = .ok { refExFC2 with pin := some ⟨1, 2⟩ } () ∧
    Ref { refExFC2 with pin := some ⟨1, 2⟩ } { refExAbs2 with pin := some ⟨1, 2⟩ } := by
  rcases ref_setPin refExFC2 refExAbs2 rfl RefOps.refEx2_fi refEx2_ref 2 1 with h | h
  · exact h
  · have : refExAbs2.has ⟨1, 2⟩ = true := by decide
    rw [this] at h; cases h.1

example : refExAbs2.has ⟨2, 2⟩ = false ∧ refExFC2.setPin 2 2 = .err refExFC2 := by
  rcases ref_setPin refExFC2 refExAbs2 rfl RefOps.refEx2_fi refEx2_ref 2 2 with h | h
  · have : refExAbs2.has ⟨2, 2⟩ = false := by decide
    rw [this] at h; cases h.1
  · exact h

/-- 5: justifying block `2` (epoch 1) with the finalized checkpoint unchanged: the hypotheses hold, the
specification accepts, hence so does the model, and `Ref` holds afterwards; an unknown root is refused -/
example : refExFC2.held = false ∧ FI refExFC2 ∧ Ref refExFC2 refExAbs2 ∧ (⟨0, 1⟩ : Checkpoint) = refExFC2.finalized ∧
    refExFC2.pa.sinkLog = [] ∧
    (refExAbs2.updateJustified 1 ⟨1, 2⟩ ⟨0, 1⟩ (some [32, 32])).2 = .justify true [] none ∧
    (refExAbs2.updateJustified 1 ⟨1, 2⟩ ⟨0, 1⟩ (some [32, 32])).1.justified = ⟨1, 2⟩ ∧
    (refExAbs2.updateJustified 1 ⟨1, 7⟩ ⟨0, 1⟩ (some [32, 32])).2 = .justify false [] none :=
  ⟨rfl, RefOps.refEx2_fi, refEx2_ref, rfl, rfl, by decide, by decide, by decide⟩

example : ∃ fc', refExFC2.updateJustified 1 ⟨1, 2⟩ ⟨0, 1⟩ (some [32, 32]) = .ok fc' () ∧ fc'.held = false ∧ FI fc' ∧
    Ref fc' (refExAbs2.updateJustified 1 ⟨1, 2⟩ ⟨0, 1⟩ (some [32, 32])).1 := by
  have h := ref_updateJustified refExFC2 refExAbs2 rfl RefOps.refEx2_fi refEx2_ref 1 ⟨1, 2⟩ ⟨0, 1⟩ (some [32, 32]) rfl rfl
  have hs : (refExAbs2.updateJustified 1 ⟨1, 2⟩ ⟨0, 1⟩ (some [32, 32])).2 = .justify true [] none := by decide
  revert h
  cases refExFC2.updateJustified 1 ⟨1, 2⟩ ⟨0, 1⟩ (some [32, 32]) with
  | ok s u => exact fun h => ⟨s, rfl, h.1, h.2.2.1, h.2.2.2.1⟩
  | err s => intro h; rw [hs] at h; cases h.2.2.2.2
  | panic => exact fun h => h.elim
  | blocked => exact fun h => h.elim

end Zrnt.ForkChoice
