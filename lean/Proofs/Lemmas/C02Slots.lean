import Zrnt.Beacon.Impl.Slots
import Proofs.Lemmas.C02Altair
/-! Helper lemmas for the slot/upgrade part of C02: `ProcessSlot`, the four upgrades, `UpgradeMaybe`. -/
namespace Zrnt.Proofs.Lemmas
open Zrnt.Beacon Zrnt.Beacon.Spec

theorem processSlot_eq' (cfg : Config) (root : Bytes) (s : State)
    (h1 : s.state_roots.length = cfg.SLOTS_PER_HISTORICAL_ROOT) (h2 : s.block_roots.length = cfg.SLOTS_PER_HISTORICAL_ROOT) :
    Impl.processSlot root s = process_slot_pure cfg root s := by
  unfold Impl.processSlot process_slot_pure
  simp only [h1, h2]
  split <;> rfl

theorem upgradeToBellatrix_eq' (cfg : Config) (pre : State) :
    Impl.upgradeToBellatrix cfg pre = upgrade_to_bellatrix_pure cfg pre := by
  cases pre; rfl

theorem upgradeToCapella_eq' (cfg : Config) (pre : State) :
    Impl.upgradeToCapella cfg pre = upgrade_to_capella_pure cfg pre := by
  cases pre; rfl

theorem upgradeToDeneb_eq' (cfg : Config) (pre : State) :
    Impl.upgradeToDeneb cfg pre = upgrade_to_deneb_pure cfg pre := by
  cases pre; rfl

/-- the flag mask is the list of flag indices, entry by entry (participation values are 3-bit) -/
theorem flags_entry (x : Nat) (hx : x < 8) (b0 b1 b2 : Bool) :
    ((if b0 then [TIMELY_SOURCE_FLAG_INDEX] else []) ++ (if b1 then [TIMELY_TARGET_FLAG_INDEX] else []) ++
        (if b2 then [TIMELY_HEAD_FLAG_INDEX] else [])).foldl add_flag x =
      x ||| (let out := 0
             let out := if b0 then out ||| Impl.flagMask 0 else out
             let out := if b1 then out ||| Impl.flagMask 1 else out
             if b2 then out ||| Impl.flagMask 2 else out) ∧
    ((if b0 then [TIMELY_SOURCE_FLAG_INDEX] else []) ++ (if b1 then [TIMELY_TARGET_FLAG_INDEX] else []) ++
        (if b2 then [TIMELY_HEAD_FLAG_INDEX] else [])).foldl add_flag x < 8 := by
  have : x = 0 ∨ x = 1 ∨ x = 2 ∨ x = 3 ∨ x = 4 ∨ x = 5 ∨ x = 6 ∨ x = 7 := by omega
  rcases this with rfl | rfl | rfl | rfl | rfl | rfl | rfl | rfl <;> cases b0 <;> cases b1 <;> cases b2 <;> decide

theorem foldl_set_entry (g : Nat → Nat → Nat) (flags : List Nat) (part : List Nat) (index : Nat) :
    flags.foldl (fun part f => match part[index]? with
      | some x => part.set index (g x f)
      | none => part) part =
    match part[index]? with
    | some x => part.set index (flags.foldl g x)
    | none => part := by
  induction flags generalizing part with
  | nil =>
    cases h : part[index]? with
    | none => rfl
    | some x =>
      simp only [List.foldl_nil]
      obtain ⟨hlt, hget⟩ := List.getElem?_eq_some_iff.mp h
      apply List.ext_getElem?
      intro j
      rw [List.getElem?_set]
      by_cases hij : index = j
      · subst hij; simp [hlt, hget]
      · simp [hij]
  | cons f fs ih =>
    simp only [List.foldl_cons]
    rw [ih]
    cases h : part[index]? with
    | none => simp [h]
    | some x =>
      obtain ⟨hlt, _⟩ := List.getElem?_eq_some_iff.mp h
      simp [hlt, List.set_set]

def Small (part : List Nat) : Prop := ∀ x ∈ part, x < 8

theorem applicableFlags_eq (cfg : Config) (a : FlagAtt) (x : Nat) (hx : x < 8) :
    (participation_flag_indices_pure cfg a).foldl add_flag x = x ||| Impl.applicableFlags cfg a ∧
    (participation_flag_indices_pure cfg a).foldl add_flag x < 8 := by
  unfold participation_flag_indices_pure Impl.applicableFlags
  exact flags_entry x hx _ _ _

theorem translate_att_eq (cfg : Config) (att : FlagAtt) (idxs : List Nat) (part : List Nat) (hs : Small part) :
    idxs.foldl (fun registry vi => match registry[vi]? with
        | some x => registry.set vi (x ||| Impl.applicableFlags cfg att)
        | none => registry) part =
      idxs.foldl (fun epoch_participation index =>
        (participation_flag_indices_pure cfg att).foldl (fun epoch_participation flag_index =>
          match epoch_participation[index]? with
          | some flags => epoch_participation.set index (add_flag flags flag_index)
          | none => epoch_participation) epoch_participation) part ∧
    Small (idxs.foldl (fun registry vi => match registry[vi]? with
        | some x => registry.set vi (x ||| Impl.applicableFlags cfg att)
        | none => registry) part) := by
  induction idxs generalizing part with
  | nil => exact ⟨rfl, hs⟩
  | cons i rest ih =>
    simp only [List.foldl_cons]
    rw [foldl_set_entry add_flag]
    cases h : part[i]? with
    | none => simpa [h] using ih part hs
    | some x =>
      have hx : x < 8 := hs x (List.mem_of_getElem? h)
      obtain ⟨e1, e2⟩ := applicableFlags_eq cfg att x hx
      simp only []
      rw [e1]
      apply ih
      intro y hy
      rcases List.mem_or_eq_of_mem_set hy with hy' | hy'
      · exact hs y hy'
      · rw [hy', ← e1]; exact e2

theorem translateParticipation_eq' (cfg : Config) (atts : List FlagAtt) (part : List Nat) (hs : Small part) :
    Impl.translateParticipation cfg atts part = translate_participation_pure cfg atts part := by
  unfold Impl.translateParticipation translate_participation_pure
  induction atts generalizing part with
  | nil => rfl
  | cons a rest ih =>
    simp only [List.foldl_cons]
    obtain ⟨e1, e2⟩ := translate_att_eq cfg a a.indices part hs
    refine (ih _ e2).trans ?_
    exact congrArg (fun p => List.foldl _ p rest) e1

theorem small_zeros (n : Nat) : Small (List.replicate n 0) := by
  intro x hx
  rw [List.mem_replicate] at hx
  omega

theorem upgradeToAltair_eq' (cfg : Config) (inp : UpgradeInputs) (pre : State) :
    Impl.upgradeToAltair cfg inp pre = upgrade_to_altair_pure cfg inp pre := by
  unfold Impl.upgradeToAltair upgrade_to_altair_pure
  simp only [translateParticipation_eq' cfg inp.atts _ (small_zeros _)]
  cases pre; rfl

theorem at_fork_epoch_iff (cfg : Config) (E : Nat) (s : State) (hspe : 0 < cfg.SLOTS_PER_EPOCH) :
    (s.slot == E * cfg.SLOTS_PER_EPOCH) = at_fork_epoch cfg E s := by
  unfold at_fork_epoch compute_epoch_at_slot
  rw [Bool.eq_iff_iff]
  simp only [beq_iff_eq, Bool.and_eq_true, decide_eq_true_eq]
  constructor
  · intro h
    rw [h]
    exact ⟨Nat.mul_mod_left _ _, Nat.mul_div_cancel _ hspe⟩
  · rintro ⟨h1, h2⟩
    have := Nat.div_add_mod s.slot cfg.SLOTS_PER_EPOCH
    rw [h1, h2] at this
    rw [Nat.mul_comm]; omega

theorem upgradeMaybe_eq' (cfg : Config) (inp : UpgradeInputs) (s : State) (hspe : 0 < cfg.SLOTS_PER_EPOCH) :
    Impl.upgradeMaybe cfg inp s = upgrade_maybe_pure cfg inp s := by
  unfold Impl.upgradeMaybe upgrade_maybe_pure
  simp only [at_fork_epoch_iff cfg _ _ hspe, upgradeToAltair_eq', upgradeToBellatrix_eq', upgradeToCapella_eq', upgradeToDeneb_eq']

theorem epoch_end_iff (spe slot : Nat) :
    ((slot + 1) / spe != slot / spe) = decide ((slot + 1) % spe = 0) := by
  rw [Bool.eq_iff_iff]
  simp only [bne_iff_ne, ne_eq, decide_eq_true_eq]
  rw [Nat.succ_div, ← Nat.dvd_iff_mod_eq_zero]
  by_cases h : spe ∣ slot + 1
  · simp [h]
  · simp [h]

theorem processEpochPure_slot (cfg : Config) (inp : EpochInputs) (s : State) :
    (Impl.processEpochPure cfg inp s).slot = s.slot := by
  unfold Impl.processEpochPure
  simp only []
  have j : ∀ p c f x, (Impl.justificationStage cfg inp p c f x).slot = x.slot := by
    intro p c f x; unfold Impl.justificationStage; split <;> rfl
  have i : ∀ p c f x, (Impl.inactivityStage cfg p c f x).slot = x.slot := by
    intro p c f x; unfold Impl.inactivityStage; split <;> rfl
  have r : ∀ p c f x, (Impl.rewardsStage cfg inp p c f x).slot = x.slot := by
    intro p c f x; unfold Impl.rewardsStage; split
    · rfl
    · simp only []; split <;> rfl
  have h : ∀ c x, (Impl.historicalStage cfg c x).slot = x.slot := by
    intro c x; unfold Impl.historicalStage; split <;> rfl
  have pa : ∀ x, (Impl.participationStage x).slot = x.slot := by
    intro x; unfold Impl.participationStage; split <;> rfl
  have sy : ∀ c x, (Impl.syncStage cfg inp c x).slot = x.slot := by
    intro c x; unfold Impl.syncStage; split <;> rfl
  rw [sy, pa, h]
  simp only [Impl.randaoStage, Impl.slashingsResetStage, Impl.effectiveBalanceStage, Impl.eth1Stage, Impl.slashingsStage,
    Impl.registryStage]
  rw [r, i, j]

theorem process_epoch_pure_slot (cfg : Config) (inp : EpochInputs) (s : State) :
    (process_epoch_pure cfg inp s).slot = s.slot := by
  unfold process_epoch_pure
  simp only []
  have j : ∀ p c x, (justification_stage cfg inp p c x).slot = x.slot := by
    intro p c x; unfold justification_stage; split <;> rfl
  have i : ∀ p c x, (inactivity_stage cfg p c x).slot = x.slot := by
    intro p c x; unfold inactivity_stage; split <;> rfl
  have r : ∀ p c x, (rewards_stage cfg inp p c x).slot = x.slot := by
    intro p c x; unfold rewards_stage; split
    · rfl
    · split <;> rfl
  have h : ∀ c x, (historical_stage cfg c x).slot = x.slot := by
    intro c x; unfold historical_stage; split <;> rfl
  have pa : ∀ x, (participation_stage x).slot = x.slot := by
    intro x; unfold participation_stage; split <;> rfl
  have sy : ∀ c x, (sync_stage cfg inp c x).slot = x.slot := by
    intro c x; unfold sync_stage; split <;> rfl
  rw [sy, pa, h]
  simp only [randao_stage, slashings_reset_stage, effective_balance_stage, eth1_stage, slashings_stage, registry_stage]
  rw [r, i, j]

end Zrnt.Proofs.Lemmas
