import Proofs.Lemmas.PoolSim
/-!
# Facts about the specification used by the corollaries of the refinement (C20)
-/
set_option linter.unusedSectionVars false
set_option linter.unusedSimpArgs false
namespace Zrnt.Pool
open Zrnt Zrnt.Pool.Spec

/-! ## notation for the corollaries (C20) -/

/-- two attestation data used in examples and witnesses -/
def exD1 : AttData := ⟨1, 0, 0, 1⟩
def exD2 : AttData := ⟨1, 0, 0, 2⟩

/-- the model state reached by `ops` from the constructors -/
abbrev reach (ops : List Op) : Pools := (Pools.run Cfg.fixed (Pools.new Cfg.fixed) ops).1
/-- the model's answer to `op` in state `w` -/
abbrev answer (w : Pools) (op : Op) : Out := (w.step Cfg.fixed op).2
/-- the model state after `op` -/
abbrev after (w : Pools) (op : Op) : Pools := (w.step Cfg.fixed op).1
/-- the model state after `ops` -/
abbrev afterAll (w : Pools) (ops : List Op) : Pools := (w.run Cfg.fixed ops).1

/-- the specification state that belongs to `reach ops` -/
abbrev sreach (ops : List Op) : SPools := (SPools.run SPools.new ops).1

theorem reach_related (ops : List Op) : PoolsInv (reach ops) (sreach ops) := (run_sim poolsInv_new ops).1

theorem after_related {w : Pools} {sw : SPools} (h : PoolsInv w sw) (op : Op) :
    PoolsInv (after w op) (sw.step op).1 := (step_sim h op).1

theorem afterAll_related {w : Pools} {sw : SPools} (h : PoolsInv w sw) (ops : List Op) :
    PoolsInv (afterAll w ops) (sw.run ops).1 := (run_sim h ops).1

theorem answer_equiv {w : Pools} {sw : SPools} (h : PoolsInv w sw) (op : Op) :
    OutEquiv (answer w op) (sw.step op).2 := (step_sim h op).2

theorem spec_ok_of_answer_ok {w : Pools} {sw : SPools} (h : PoolsInv w sw) {op : Op}
    (hok : answer w op = .ok) : (sw.step op).2 = .ok := by
  have := answer_equiv h op
  rw [hok] at this
  exact OutEquiv.ok_iff.mp this.symm

theorem answer_err_of_spec_err {w : Pools} {sw : SPools} (h : PoolsInv w sw) {op : Op}
    (herr : (sw.step op).2 = .err) : answer w op = .err := by
  have := answer_equiv h op
  rw [herr] at this
  exact OutEquiv.err_iff.mp this

theorem answer_ok_of_spec_ok {w : Pools} {sw : SPools} (h : PoolsInv w sw) {op : Op}
    (hok : (sw.step op).2 = .ok) : answer w op = .ok := by
  have := answer_equiv h op
  rw [hok] at this
  exact OutEquiv.ok_iff.mp this


/-! ## positions in equivalent answer streams -/

theorem outsEquiv_getElem? {l1 l2 : List Out} (h : OutsEquiv l1 l2) (j : Nat) (b : Out)
    (hb : l2[j]? = some b) : ∃ a, l1[j]? = some a ∧ OutEquiv a b := by
  induction h generalizing j with
  | nil => simp at hb
  | cons hab _ ih =>
    cases j with
    | zero => simp at hb; subst hb; exact ⟨_, rfl, hab⟩
    | succ j => simpa using ih j (by simpa using hb)

theorem outsEquiv_length {l1 l2 : List Out} (h : OutsEquiv l1 l2) : l1.length = l2.length := by
  induction h with
  | nil => rfl
  | cons _ _ ih => simp [ih]

theorem srun_length (sw : SPools) (ops : List Op) : (sw.run ops).2.length = ops.length := by
  induction ops generalizing sw with
  | nil => rfl
  | cons op ops ih => rw [srun_cons]; simp [ih]

/-! ## what `Spec.add` does to the list -/

theorem spec_add_cases (log : AttSpec) (a : Att) (c : List Nat) :
    (Spec.add log a c).1 = log ∨
    ((Spec.add log a c).2 = true ∧
      ((∃ v, singleParticipant a.bits c = .ok v ∧ onesCount a.bits = 1 ∧ singleVote log v a.data.target = none ∧
          (Spec.add log a c).1 = log ++ [.single v a.data a.sig]) ∨
       (onesCount a.bits ≠ 0 ∧ onesCount a.bits ≠ 1 ∧ (Spec.add log a c).1 = log ++ [.agg a.data a.bits a.sig c]))) := by
  rw [spec_add_eq]
  by_cases h0 : onesCount a.bits = 0
  · simp [h0]
  · by_cases h1 : onesCount a.bits = 1
    · rw [if_neg h0, if_pos h1]
      unfold specAddSingle
      rcases singleParticipant_cases a.bits c with ⟨v, hv⟩ | hv
      · rw [hv]; dsimp only
        cases hs : singleVote log v a.data.target with
        | some d' => exact Or.inl rfl
        | none => exact Or.inr ⟨rfl, Or.inl ⟨v, rfl, h1, hs, rfl⟩⟩
      · rw [hv]; exact Or.inl rfl
    · rw [if_neg h0, if_neg h1]
      by_cases hl : bitlistLen a.bits = c.length
      · rw [if_neg (by simpa using hl)]
        unfold specAddAgg
        cases haf : aggsFor log a.data with
        | nil =>
          simp only
          split
          · exact Or.inr ⟨rfl, Or.inr ⟨h0, h1, rfl⟩⟩
          · exact Or.inl rfl
        | cons f r =>
          simp only
          rcases covers_cases (unionBits f.bits r) a.bits with ⟨r', hr, _⟩ | hr
          · rw [hr]
            cases r' with
            | true => exact Or.inl rfl
            | false => exact Or.inr ⟨rfl, Or.inr ⟨h0, h1, rfl⟩⟩
          · rw [hr]; exact Or.inl rfl
      · rw [if_pos hl]; exact Or.inl rfl

theorem spec_add_mono (log : AttSpec) (a : Att) (c : List Nat) (ev : Ev) (h : ev ∈ log) :
    ev ∈ (Spec.add log a c).1 := by
  rcases spec_add_cases log a c with e | ⟨_, ⟨v, _, _, _, e⟩ | ⟨_, _, e⟩⟩ <;> rw [e]
  · exact h
  · exact List.mem_append_left _ h
  · exact List.mem_append_left _ h

/-- only `att` and `prune` change the attestation part of the specification state -/
theorem sstep_att (sw : SPools) (op : Op) :
    (sw.step op).1.att = match op with
      | .att a c => (Spec.add sw.att a c).1
      | .prune e => Spec.prune sw.att e
      | _ => sw.att := by
  cases op <;> rfl

/-- an accepted item stays in the list until a `Prune` whose bound is above its target epoch -/
theorem srun_att_persist (sw : SPools) (mid : List Op) (ev : Ev) (h : ev ∈ sw.att)
    (hp : ∀ e, Op.prune e ∈ mid → ¬ ev.target < e - 1) : ev ∈ (sw.run mid).1.att := by
  induction mid generalizing sw with
  | nil => exact h
  | cons op mid ih =>
    rw [srun_cons]
    apply ih
    · rw [sstep_att]
      cases op with
      | att a c => exact spec_add_mono _ _ _ _ h
      | prune e =>
        simp only [Spec.prune, List.mem_filter]
        exact ⟨h, by simpa using hp e List.mem_cons_self⟩
      | _ => exact h
    · intro e he; exact hp e (List.mem_cons_of_mem _ he)

/-! ## `Search` and `Prune` -/

theorem search_prune (log : AttSpec) (e : Nat) (s i : Option Nat) :
    Spec.search (Spec.prune log e) s i =
      (Spec.search log s i).filter (fun a => !decide (a.data.target < e - 1)) := by
  induction log with
  | nil => rfl
  | cons ev log ih =>
    cases ev with
    | single v d sg =>
      rw [prune_cons, search_cons_single]
      split
      · exact ih
      · rw [search_cons_single]; exact ih
    | agg d b sg c =>
      rw [prune_cons, search_cons_agg, target_agg]
      by_cases hm : matchesFilter s i d <;> by_cases ht : d.target < e - 1 <;>
        simp [hm, ht, ih, search_cons_agg, List.filter_cons]

theorem mem_search_iff (log : AttSpec) (s i : Option Nat) (x : Att) :
    x ∈ Spec.search log s i ↔ matchesFilter s i x.data = true ∧ ∃ c, Ev.agg x.data x.bits x.sig c ∈ log := by
  simp only [Spec.search, List.mem_filterMap]
  constructor
  · rintro ⟨ev, hev, hf⟩
    cases ev with
    | single v d sg => simp at hf
    | agg d b sg c =>
      simp only at hf
      split at hf
      · rename_i hm; cases hf; exact ⟨hm, c, hev⟩
      · cases hf
  · rintro ⟨hm, c, hc⟩
    exact ⟨_, hc, by simp [hm]⟩

/-! ## individual votes persist -/

theorem singleVote_append {log : AttSpec} {v t : Nat} {d : AttData} (h : singleVote log v t = some d)
    (l : AttSpec) : singleVote (log ++ l) v t = some d := by
  unfold singleVote at *
  rw [List.findSome?_append, h]; rfl

theorem srun_singleVote_persist (sw : SPools) (mid : List Op) (v t : Nat) (d : AttData)
    (h : singleVote sw.att v t = some d) (hp : ∀ e, Op.prune e ∈ mid → ¬ t < e - 1) :
    singleVote (sw.run mid).1.att v t = some d := by
  induction mid generalizing sw with
  | nil => exact h
  | cons op mid ih =>
    rw [srun_cons]
    apply ih
    · rw [sstep_att]
      cases op with
      | att a c =>
        rcases spec_add_cases sw.att a c with e | ⟨_, ⟨v', _, _, _, e⟩ | ⟨_, _, e⟩⟩ <;> simp only [e]
        · exact h
        · exact singleVote_append h _
        · exact singleVote_append h _
      | prune e =>
        have := hp e List.mem_cons_self
        simp only [singleVote_eq, singleRef_prune, this, if_false] at h ⊢
        exact h
      | _ => exact h
    · intro e he; exact hp e (List.mem_cons_of_mem _ he)

/-! ## slashing and exit pools: an accepted item is listed from then on -/

theorem mem_keyedAll_of_first {κ ν : Type} [DecidableEq κ] {h t : KeyedSpec κ ν} {k : κ} {v : ν}
    {seen : List κ} (hs : k ∉ seen) (hk : k ∉ h.map (·.1)) : v ∈ keyedAll (h ++ (k, v) :: t) seen := by
  induction h generalizing seen with
  | nil => simp [keyedAll, hs]
  | cons a h ih =>
    obtain ⟨k', v'⟩ := a
    simp only [List.map_cons, List.mem_cons, not_or] at hk
    simp only [List.cons_append, keyedAll]
    split
    · exact ih hs hk.2
    · exact List.mem_cons_of_mem _ (ih (by simp [hk.1, hs]) hk.2)

theorem outOfBool_eq_ok {b : Bool} : outOfBool b = .ok ↔ b = true := by cases b <;> simp [outOfBool]
theorem outOfBool_eq_err {b : Bool} : outOfBool b = .err ↔ b = false := by cases b <;> simp [outOfBool]

theorem keyedAdd_true_iff {κ ν : Type} [DecidableEq κ] (h : KeyedSpec κ ν) (k : κ) (v : ν) :
    (keyedAdd h k v).2 = true ↔ k ∉ h.map (·.1) := by
  simp [keyedAdd]

theorem srun_asl_prefix (sw : SPools) (mid : List Op) : ∃ t, (sw.run mid).1.asl = sw.asl ++ t := by
  induction mid generalizing sw with
  | nil => exact ⟨[], by simp [SPools.run]⟩
  | cons op mid ih =>
    rw [srun_cons]
    obtain ⟨t, ht⟩ := ih (sw.step op).1
    cases op with
    | aslash a b => exact ⟨((a, b), (a, b)) :: t, by rw [ht]; simp [SPools.step, keyedAdd]⟩
    | _ => exact ⟨t, ht⟩

theorem srun_psl_prefix (sw : SPools) (mid : List Op) : ∃ t, (sw.run mid).1.psl = sw.psl ++ t := by
  induction mid generalizing sw with
  | nil => exact ⟨[], by simp [SPools.run]⟩
  | cons op mid ih =>
    rw [srun_cons]
    obtain ⟨t, ht⟩ := ih (sw.step op).1
    cases op with
    | pslash a b => exact ⟨(a, (a, b)) :: t, by rw [ht]; simp [SPools.step, keyedAdd]⟩
    | _ => exact ⟨t, ht⟩

theorem srun_exits_prefix (sw : SPools) (mid : List Op) : ∃ t, (sw.run mid).1.exits = sw.exits ++ t := by
  induction mid generalizing sw with
  | nil => exact ⟨[], by simp [SPools.run]⟩
  | cons op mid ih =>
    rw [srun_cons]
    obtain ⟨t, ht⟩ := ih (sw.step op).1
    cases op with
    | exit a b => exact ⟨(a, (a, b)) :: t, by rw [ht]; simp [SPools.step, keyedAdd]⟩
    | _ => exact ⟨t, ht⟩

/-! ## sync-committee pool: what is stored, what is accepted -/

/-- all messages the pool holds -/
def storedMsgs (p : SyncPool) : List SyncMsg := msgsOf p.prevMsgs ++ msgsOf p.currentMsgs ++ msgsOf p.nextMsgs
/-- all contributions the pool holds -/
def storedContribs (p : SyncPool) : List Contrib :=
  contribsOf p.prevContribs ++ contribsOf p.currentContribs ++ contribsOf p.nextContribs

@[simp] theorem msgsOf_make : msgsOf .make = [] := rfl
@[simp] theorem contribsOf_make : contribsOf .make = [] := rfl

theorem filter_slot_in {α : Type} (l : List α) (f : α → UInt64) (x slot : UInt64) (h : ∀ m ∈ l, f m = x)
    (hin : inWindow slot x = true) : l.filter (fun m => inWindow slot (f m)) = l :=
  List.filter_eq_self.mpr (fun m hm => by rw [h m hm]; exact hin)

theorem filter_slot_out {α : Type} (l : List α) (f : α → UInt64) (x slot : UInt64) (h : ∀ m ∈ l, f m = x)
    (hout : inWindow slot x = false) : l.filter (fun m => inWindow slot (f m)) = [] :=
  List.filter_eq_nil_iff.mpr (fun m hm => by rw [h m hm, hout]; simp)

theorem inWindow_false_iff (c s : UInt64) : inWindow c s = false ↔ s ≠ c - 1 ∧ s ≠ c ∧ s ≠ c + 1 := by
  rw [← Bool.not_eq_true, inWindow_iff]; simp [not_or]

theorem reset_stored {p : SyncPool} (hc : p.Consistent) (slot : UInt64) :
    storedMsgs (p.reset slot) =
      (if inWindow p.currentSlot slot then (storedMsgs p).filter (fun m => inWindow slot m.slot) else []) ∧
    storedContribs (p.reset slot) =
      (if inWindow p.currentSlot slot then (storedContribs p).filter (fun c => inWindow slot c.slot) else []) := by
  obtain ⟨cur, pm, cm, nm, pc, cc, nc⟩ := p
  have h1 := hc.prevSlotM; have h2 := hc.curSlotM; have h3 := hc.nextSlotM
  have h4 := hc.prevSlotC; have h5 := hc.curSlotC; have h6 := hc.nextSlotC
  simp only at h1 h2 h3 h4 h5 h6
  unfold SyncPool.reset storedMsgs storedContribs
  simp only [List.filter_append]
  by_cases e1 : cur = slot + 1
  · subst e1
    have hI : inWindow (slot + 1) slot = true := (inWindow_iff _ _).mpr (Or.inl (by u64_omega))
    have a1 : inWindow slot (slot + 1 - 1) = true := (inWindow_iff _ _).mpr (Or.inr (Or.inl (by u64_omega)))
    have a2 : inWindow slot (slot + 1) = true := (inWindow_iff _ _).mpr (Or.inr (Or.inr rfl))
    have a3 : inWindow slot (slot + 1 + 1) = false := (inWindow_false_iff _ _).mpr (by refine ⟨?_, ?_, ?_⟩ <;> u64_omega)
    simp only [hI, if_true, msgsOf_make, contribsOf_make, List.nil_append]
    rw [filter_slot_in _ _ _ _ h1 a1, filter_slot_in _ _ _ _ h2 a2, filter_slot_out _ _ _ _ h3 a3,
      filter_slot_in _ _ _ _ h4 a1, filter_slot_in _ _ _ _ h5 a2, filter_slot_out _ _ _ _ h6 a3]
    simp
  · by_cases e2 : cur = slot
    · subst e2
      have a1 : inWindow cur (cur - 1) = true := (inWindow_iff _ _).mpr (Or.inl rfl)
      have a2 : inWindow cur cur = true := inWindow_self _
      have a3 : inWindow cur (cur + 1) = true := (inWindow_iff _ _).mpr (Or.inr (Or.inr rfl))
      simp only [e1, if_false, if_true, a2]
      rw [filter_slot_in _ _ _ _ h1 a1, filter_slot_in _ _ _ _ h2 a2, filter_slot_in _ _ _ _ h3 a3,
        filter_slot_in _ _ _ _ h4 a1, filter_slot_in _ _ _ _ h5 a2, filter_slot_in _ _ _ _ h6 a3]
      exact ⟨rfl, rfl⟩
    · by_cases e3 : cur + 1 = slot
      · subst e3
        have hI : inWindow cur (cur + 1) = true := (inWindow_iff _ _).mpr (Or.inr (Or.inr rfl))
        have a1 : inWindow (cur + 1) (cur - 1) = false := (inWindow_false_iff _ _).mpr (by refine ⟨?_, ?_, ?_⟩ <;> u64_omega)
        have a2 : inWindow (cur + 1) cur = true := (inWindow_iff _ _).mpr (Or.inl (by u64_omega))
        have a3 : inWindow (cur + 1) (cur + 1) = true := inWindow_self _
        simp only [e1, e2, hI, if_false, if_true, msgsOf_make, contribsOf_make, List.append_nil]
        rw [filter_slot_out _ _ _ _ h1 a1, filter_slot_in _ _ _ _ h2 a2, filter_slot_in _ _ _ _ h3 a3,
          filter_slot_out _ _ _ _ h4 a1, filter_slot_in _ _ _ _ h5 a2, filter_slot_in _ _ _ _ h6 a3]
        simp
      · have hI : inWindow cur slot = false := (inWindow_false_iff _ _).mpr
          ⟨by intro e; apply e1; u64_omega, fun e => e2 e.symm, fun e => e3 e.symm⟩
        simp [e1, e2, e3, hI]

theorem addMessage_accept_iff {p : SyncPool} {s : SyncSpec} (h : SyncInv p s) (m : SyncMsg) :
    (∃ p', p.addMessage m = .ok (p', true)) ↔ inWindow p.currentSlot m.slot = true := by
  obtain ⟨p', hp, _⟩ := sync_addMessage_sim h m
  have : (s.addMessage m).2 = inWindow p.currentSlot m.slot := by
    rw [h.cur]; unfold SyncSpec.addMessage; split <;> simp_all
  rw [this] at hp
  rw [hp]
  cases inWindow p.currentSlot m.slot <;> simp

theorem addContribution_accept_iff {p : SyncPool} {s : SyncSpec} (h : SyncInv p s) (c : Contrib) :
    (∃ p', p.addContribution c = .ok (p', true)) ↔ inWindow p.currentSlot c.slot = true := by
  obtain ⟨p', hp, _⟩ := sync_addContribution_sim h c
  have : (s.addContribution c).2 = inWindow p.currentSlot c.slot := by
    rw [h.cur]; unfold SyncSpec.addContribution; split <;> simp_all
  rw [this] at hp
  rw [hp]
  cases inWindow p.currentSlot c.slot <;> simp

theorem reset_currentSlot (p : SyncPool) (slot : UInt64) : (p.reset slot).currentSlot = slot := by
  unfold SyncPool.reset
  split
  · rfl
  · split
    · rename_i h; exact h
    · split <;> rfl

/-! ## where an accepted aggregate comes from -/

theorem log_history_gen (sw : SPools) (ops : List Op) (d : AttData) (b : Bits) (sg : Nat) (c : List Nat)
    (h : Ev.agg d b sg c ∈ (sw.run ops).1.att) :
    (Ev.agg d b sg c ∈ sw.att ∧ ∀ (j' e : Nat), ops[j']? = some (Op.prune e) → ¬ d.target < e - 1) ∨
    ∃ j, ops[j]? = some (Op.att ⟨d, b, sg⟩ c) ∧ (sw.run ops).2[j]? = some Out.ok ∧
      ∀ (j' e : Nat), j < j' → ops[j']? = some (Op.prune e) → ¬ d.target < e - 1 := by
  induction ops generalizing sw with
  | nil => exact Or.inl ⟨h, by simp⟩
  | cons op ops ih =>
    rw [srun_cons] at h ⊢
    rcases ih (sw.step op).1 h with ⟨hmem, hpr⟩ | ⟨j, hj, hout, hpr⟩
    · rw [sstep_att] at hmem
      have hpr' : (∀ e : Nat, op ≠ Op.prune e) →
          ∀ (j' e' : Nat), (op :: ops)[j']? = some (Op.prune e') → ¬ d.target < e' - 1 := by
        intro hne j' e' hj'
        cases j' with
        | zero => simp at hj'; exact absurd hj' (hne e')
        | succ j' => exact hpr j' e' (by simpa using hj')
      cases op with
      | att a c' =>
        dsimp only at hmem
        have hnp : ∀ e : Nat, Op.att a c' ≠ Op.prune e := by intro e; simp
        rcases spec_add_cases sw.att a c' with e | ⟨htrue, ⟨v, _, _, _, e⟩ | ⟨_, _, e⟩⟩
        · rw [e] at hmem; exact Or.inl ⟨hmem, hpr' hnp⟩
        · rw [e] at hmem
          rcases List.mem_append.mp hmem with hm | hm
          · exact Or.inl ⟨hm, hpr' hnp⟩
          · simp at hm
        · rw [e] at hmem
          rcases List.mem_append.mp hmem with hm | hm
          · exact Or.inl ⟨hm, hpr' hnp⟩
          · simp only [List.mem_singleton, Ev.agg.injEq] at hm
            obtain ⟨e1, e2, e3, e4⟩ := hm
            refine Or.inr ⟨0, ?_, ?_, ?_⟩
            · cases a; simp_all
            · simp [SPools.step, htrue, outOfBool]
            · intro j' e' hlt hj'
              cases j' with
              | zero => omega
              | succ j' => exact hpr j' e' (by simpa using hj')
      | prune e =>
        dsimp only at hmem
        simp only [Spec.prune, List.mem_filter, target_agg] at hmem
        refine Or.inl ⟨hmem.1, ?_⟩
        intro j' e' hj'
        cases j' with
        | zero =>
          simp at hj'; subst hj'
          have h2 := hmem.2
          intro hlt; simp [hlt] at h2
        | succ j' => exact hpr j' e' (by simpa using hj')
      | _ => exact Or.inl ⟨hmem, hpr' (by simp)⟩
    · refine Or.inr ⟨j + 1, by simpa using hj, by simpa using hout, ?_⟩
      intro j' e' hlt hj'
      cases j' with
      | zero => omega
      | succ j' => exact hpr j' e' (by omega) (by simpa using hj')

theorem log_history (ops : List Op) (d : AttData) (b : Bits) (sg : Nat) (c : List Nat)
    (h : Ev.agg d b sg c ∈ (SPools.run SPools.new ops).1.att) :
    ∃ j, ops[j]? = some (Op.att ⟨d, b, sg⟩ c) ∧ (SPools.run SPools.new ops).2[j]? = some Out.ok ∧
      ∀ (j' e : Nat), j < j' → ops[j']? = some (Op.prune e) → ¬ d.target < e - 1 := by
  rcases log_history_gen SPools.new ops d b sg c h with ⟨hm, _⟩ | h
  · simp [SPools.new] at hm
  · exact h

/-! ## double votes -/

theorem spec_single_accepted {log : AttSpec} {a : Att} {c : List Nat} {v : Nat}
    (h1 : onesCount a.bits = 1) (hv : singleParticipant a.bits c = .ok v)
    (hok : (Spec.add log a c).2 = true) :
    singleVote (Spec.add log a c).1 v a.data.target = some a.data := by
  rw [spec_add_eq, if_neg (by omega), if_pos h1] at hok ⊢
  unfold specAddSingle at hok ⊢
  rw [hv] at hok ⊢
  dsimp only at hok ⊢
  cases hs : singleVote log v a.data.target with
  | some d' =>
    rw [hs] at hok; dsimp only at hok ⊢
    rw [hs, of_decide_eq_true hok]
  | none =>
    dsimp only
    unfold singleVote at hs ⊢
    rw [List.findSome?_append, hs]
    simp

theorem spec_single_conflict {log : AttSpec} {a : Att} {c : List Nat} {v : Nat} {d : AttData}
    (h1 : onesCount a.bits = 1) (hv : singleParticipant a.bits c = .ok v)
    (hs : singleVote log v a.data.target = some d) (hd : d ≠ a.data) :
    (Spec.add log a c).2 = false := by
  rw [spec_add_eq, if_neg (by omega), if_pos h1]
  unfold specAddSingle
  rw [hv]; dsimp only
  rw [hs]; dsimp only
  exact decide_eq_false hd

theorem spec_agg_all_voted {log : AttSpec} {a : Att} {c : List Nat}
    (h2 : 2 ≤ onesCount a.bits) (hnew : aggsFor log a.data = [])
    (hall : ∀ v ∈ participants a.bits c, votedAgg log v a.data.target = true) :
    (Spec.add log a c).2 = false := by
  rw [spec_add_eq, if_neg (by omega), if_neg (by omega)]
  split
  · rfl
  · unfold specAddAgg
    rw [hnew]; dsimp only
    have : (participants a.bits c).any (fun v => !votedAgg log v a.data.target) = false := by
      rw [List.any_eq_false]
      intro v hv; simp [hall v hv]
    rw [this]; rfl

theorem spec_addMessage_snd (s : SyncSpec) (m : SyncMsg) : (s.addMessage m).2 = inWindow s.cur m.slot := by
  unfold SyncSpec.addMessage; split <;> simp_all

theorem spec_addContribution_snd (s : SyncSpec) (c : Contrib) :
    (s.addContribution c).2 = inWindow s.cur c.slot := by
  unfold SyncSpec.addContribution; split <;> simp_all

theorem outOfBool_eq_ite (b : Bool) : outOfBool b = if b then .ok else .err := rfl

theorem spec_reset_cur (s : SyncSpec) (slot : UInt64) : (s.reset slot).cur = slot := by
  unfold SyncSpec.reset; split <;> rfl

/-! ## an exact duplicate is absorbed -/

theorem specAddAgg_nil {log : AttSpec} {a : Att} {c : List Nat} (haf : aggsFor log a.data = []) :
    specAddAgg log a c =
      if (participants a.bits c).any (fun v => !votedAgg log v a.data.target) then
        (log ++ [.agg a.data a.bits a.sig c], true)
      else (log, false) := by
  unfold specAddAgg; rw [haf]

theorem specAddAgg_cons {log : AttSpec} {a : Att} {c : List Nat} {first : Agg} {rest : List Agg}
    (haf : aggsFor log a.data = first :: rest) :
    specAddAgg log a c =
      match covers (unionBits first.bits rest) a.bits with
      | .ok true => (log, true)
      | .ok false => (log ++ [.agg a.data a.bits a.sig c], true)
      | _ => (log, false) := by
  unfold specAddAgg; rw [haf]; rfl

/-- adding an accepted attestation once more is answered `ok` and changes nothing -/
theorem spec_add_idem {log : AttSpec} {a : Att} {c : List Nat} (hok : (Spec.add log a c).2 = true) :
    Spec.add (Spec.add log a c).1 a c = ((Spec.add log a c).1, true) := by
  by_cases h0 : onesCount a.bits = 0
  · rw [spec_add_eq, if_pos h0] at hok; cases hok
  by_cases h1 : onesCount a.bits = 1
  · -- individual attestation
    rw [spec_add_eq, if_neg h0, if_pos h1] at hok
    rcases singleParticipant_cases a.bits c with ⟨v, hv⟩ | hv
    · have hvote := spec_single_accepted h1 hv (by rw [spec_add_eq, if_neg h0, if_pos h1]; exact hok)
      generalize (Spec.add log a c).1 = log' at hvote ⊢
      rw [spec_add_eq, if_neg h0, if_pos h1]
      unfold specAddSingle
      rw [hv]; dsimp only
      rw [hvote]; simp
    · unfold specAddSingle at hok; rw [hv] at hok; cases hok
  · rw [spec_add_eq, if_neg h0, if_neg h1] at hok
    by_cases hl : bitlistLen a.bits = c.length
    · rw [if_neg (by simpa using hl)] at hok
      have hform : ∀ log', Spec.add log' a c = specAddAgg log' a c := by
        intro log'; rw [spec_add_eq, if_neg h0, if_neg h1, if_neg (by simpa using hl)]
      cases haf : aggsFor log a.data with
      | nil =>
        rw [specAddAgg_nil haf] at hok
        split at hok
        · -- the first aggregate of this data: afterwards it covers itself
          rename_i hany
          have hadd : Spec.add log a c = (log ++ [.agg a.data a.bits a.sig c], true) := by
            rw [hform, specAddAgg_nil haf, if_pos hany]
          rw [hadd]; dsimp only
          have haf' : aggsFor (log ++ [.agg a.data a.bits a.sig c]) a.data = [⟨a.bits, a.sig⟩] := by
            rw [aggsFor_append_agg, if_pos rfl, haf]; rfl
          rw [hform, specAddAgg_cons haf']
          have : unionBits a.bits [] = a.bits := rfl
          rw [this, covers_self]
        · cases hok
      | cons first rest =>
        rw [specAddAgg_cons haf] at hok
        rcases covers_cases (unionBits first.bits rest) a.bits with ⟨r, hr, _⟩ | hr
        · rw [hr] at hok
          cases r with
          | true =>
            have hadd : Spec.add log a c = (log, true) := by rw [hform, specAddAgg_cons haf, hr]
            rw [hadd]; exact hadd
          | false =>
            -- appended: the OR of the participants now covers it
            have hadd : Spec.add log a c = (log ++ [.agg a.data a.bits a.sig c], true) := by
              rw [hform, specAddAgg_cons haf, hr]
            rw [hadd]; dsimp only
            have haf' : aggsFor (log ++ [.agg a.data a.bits a.sig c]) a.data =
                first :: (rest ++ [⟨a.bits, a.sig⟩]) := by
              rw [aggsFor_append_agg, if_pos rfl, haf]; rfl
            rw [hform, specAddAgg_cons haf']
            obtain ⟨hb, hlen⟩ := covers_ok_lens hr
            have hu : unionBits first.bits (rest ++ [⟨a.bits, a.sig⟩]) =
                (unionBits first.bits rest).zipWith (· ||| ·) a.bits := by
              have hor : Pool.or (unionBits first.bits rest) a.bits =
                  .ok ((unionBits first.bits rest).zipWith (· ||| ·) a.bits) := by simp [Pool.or, hlen]
              have h3 := unionAll_append_singleton (first :: rest) (by simp) ⟨a.bits, a.sig⟩
              change unionBits first.bits (rest ++ [_]) =
                match Pool.or (unionBits first.bits rest) a.bits with | .ok r => r | _ => _ at h3
              rw [hor] at h3; exact h3
            rw [hu, covers_or_self _ _ hb hlen]
        · rw [hr] at hok; cases hok
    · rw [if_pos hl] at hok; cases hok

/-! ## `SyncCommitteeMessages.Select` on a buffer of the pool -/

theorem select_spec' {b : MsgBuf} (hn : b.keys.Nodup) (hkey : ∀ e ∈ b.entries, e.1 = e.2.validator)
    (root : Nat) (members : List Nat) :
    select Cfg.fixed b root members = .ok (Spec.select (msgsOf b) root members) := by
  induction members with
  | nil => rfl
  | cons vi rest ih =>
    have hany : ∀ m, b.get? vi = some m →
        ((msgsOf b).any fun m' => decide (m'.validator = vi) && decide (m'.root = root)) = decide (m.root = root) := by
      intro m hm
      have hv : vi = m.validator := hkey (vi, m) (GoMap.mem_of_get? hm)
      by_cases hr : m.root = root
      · simp only [hr, decide_true, List.any_eq_true, Bool.and_eq_true, decide_eq_true_eq]
        exact ⟨m, List.mem_map.mpr ⟨(vi, m), GoMap.mem_of_get? hm, rfl⟩, hv.symm, hr⟩
      · simp only [hr, decide_false]
        rw [List.any_eq_false]
        intro m' hm'
        obtain ⟨e, he, rfl⟩ := List.mem_map.mp hm'
        simp only [Bool.and_eq_true, decide_eq_true_eq, not_and]
        intro hv'
        have : b.get? vi = some e.2 := GoMap.get?_of_mem hn (by rw [← hv', ← hkey e he]; exact he)
        rw [hm] at this; cases this; exact hr
    simp only [select, Spec.select, List.filter_cons]
    cases hg : b.get? vi with
    | some m =>
      have hv : vi = m.validator := hkey (vi, m) (GoMap.mem_of_get? hg)
      simp only [ih, Spec.select, hany m hg]
      by_cases hr : m.root = root <;> simp [hr, ← hv]
    | none =>
      have hnone : ((msgsOf b).any fun m' => decide (m'.validator = vi) && decide (m'.root = root)) = false := by
        rw [List.any_eq_false]
        intro m' hm'
        obtain ⟨e, he, rfl⟩ := List.mem_map.mp hm'
        simp only [Bool.and_eq_true, decide_eq_true_eq, not_and]
        intro hv'
        exfalso
        apply GoMap.get?_eq_none_iff.mp hg
        exact List.mem_map.mpr ⟨e, he, by rw [hkey e he, hv']⟩
      have hcfg : Cfg.fixed.selectSkipsMissing = true := rfl
      simp only [hcfg, if_true, ih, Spec.select, hnone, Bool.false_eq_true, if_false]

end Zrnt.Pool
