import Proofs.Lemmas.Monitor
import Zrnt.Conc.Bridge
/-!
Helper lemma for C17: the monitor code described by a regenerated lock-facts row that satisfies `methodOk`
is `Monitor.WellFormed` (one critical section, accesses inside, read-locked body pure).
-/
namespace Zrnt.Conc
open Monitor

/-- `methodOk` makes the monitor code described by a regenerated row well-formed -/
theorem modelCode_wellFormed (all : List TypeFacts) (t : TypeFacts) (mi : Nat)
    (he : (getM t mi).exported = true) (hok : methodOkT all t mi = true) :
    WellFormed (modelCode all t mi) := by
  simp only [methodOkT, he, if_true, Bool.and_eq_true] at hok
  obtain ⟨⟨⟨⟨⟨⟨hre, hga⟩, hrp⟩, hss⟩, _⟩, hfc⟩, _⟩ := hok
  -- no guarded access happens without the lock
  have hpre : (guardedAccs all t mi).filter (fun a => a.held == .n) = [] := by
    rw [List.filter_eq_nil_iff]
    intro a ha
    simp only [guardedAccs, List.mem_filter] at ha
    simp only [guardedAccess, List.all_eq_true] at hga
    have := hga a ha.1
    simp only [ha.2, Bool.not_true, Bool.false_or, bne_iff_ne, ne_eq] at this
    simp [this]
  -- at most one section
  have hk : (sectionModes t (fuelOf t) mi).length ≤ 1 := by
    simp only [singleSection, Bool.and_eq_true, sectionCount] at hss
    exact of_decide_eq_true hss.1
  unfold modelCode
  simp only [hpre, List.map_nil, List.nil_append, hre, if_true]
  by_cases h0 : (sectionModes t (fuelOf t) mi).length = 0
  · -- no section: then no access with the lock held either
    simp only [h0, if_true]
    have hm : sectionModes t (fuelOf t) mi = [] := List.length_eq_zero_iff.mp h0
    have hin : (guardedAccs all t mi).filter (fun a => a.held != .n) = [] := by
      rw [List.filter_eq_nil_iff]
      intro a ha hh
      simp only [factsConsistent, List.all_eq_true] at hfc
      have := hfc a (List.mem_filter.mpr ⟨ha, hh⟩)
      simp [hm] at this
    left
    simp [hin]
  · have h1 : (sectionModes t (fuelOf t) mi).length = 1 := by omega
    simp only [h1, Nat.sub_self, List.replicate_zero, List.flatten_nil]
    right
    refine ⟨modeOf t mi, ((guardedAccs all t mi).filter (fun a => a.held != .n)).map toAct, by simp, ?_, ?_⟩
    · intro a _ _ s l; rfl
    · intro hm a ha
      simp only [List.mem_map] at ha
      obtain ⟨e, he', rfl⟩ := ha
      simp only [factsConsistent, List.all_eq_true] at hfc
      have hc := hfc e he'
      have hr : (sectionModes t (fuelOf t) mi).head? = some .r := by
        unfold modeOf at hm
        split at hm
        · rename_i h; simpa using h
        · cases hm
      rw [hr] at hc
      have heldr : e.held = .r := by
        have := hc
        simp only [beq_iff_eq, Option.some.injEq] at this
        exact this.symm
      simp only [readersPure, List.all_eq_true] at hrp
      have hmem : e ∈ effAcc all t (fuelOf t) mi .n := (List.mem_filter.mp (List.mem_filter.mp he').1).1
      have := hrp e hmem
      simp only [heldr, bne_self_eq_false, Bool.or_false, Bool.not_eq_true'] at this
      simpa [toAct] using this

end Zrnt.Conc
