import Proofs.Lemmas.SSZCodec
/-! `decode ∘ encode = id` on well-typed values, and `decode` accepts only canonical encodings. -/
namespace Zrnt.Proofs.SSZ
open Zrnt.SSZ

theorem pow_256 (k : Nat) : 256 ^ k = 2 ^ (8 * k) := by
  rw [Nat.pow_mul]

mutual
theorem legal_fixed_pos : ∀ (t : Ty) (s : Nat), t.Legal → t.fixedLen? = some s → 0 < s
  | .uint k, s, hl, h => by
    simp only [Ty.fixedLen?, Option.some.injEq] at h
    simp only [Ty.Legal] at hl
    omega
  | .bool, s, _, h => by simp only [Ty.fixedLen?, Option.some.injEq] at h; omega
  | .bytesN n, s, hl, h => by
    simp only [Ty.fixedLen?, Option.some.injEq] at h
    simp only [Ty.Legal] at hl
    omega
  | .vector t n, s, hl, h => by
    simp only [Ty.Legal] at hl
    simp only [Ty.fixedLen?] at h
    split at h
    · rename_i s' hs'
      simp only [Option.some.injEq] at h
      have := legal_fixed_pos t s' hl.2 hs'
      subst h
      exact Nat.mul_pos hl.1 this
    · simp at h
  | .list _ _, _, _, h => by simp [Ty.fixedLen?] at h
  | .bitvector n, s, hl, h => by
    simp only [Ty.fixedLen?, Option.some.injEq] at h
    simp only [Ty.Legal] at hl
    omega
  | .bitlist _, _, _, h => by simp [Ty.fixedLen?] at h
  | .byteList _, _, _, h => by simp [Ty.fixedLen?] at h
  | .container fs, s, hl, h => by
    simp only [Ty.Legal] at hl
    simp only [Ty.fixedLen?] at h
    exact legalFields_fixed_pos fs s hl.2 hl.1 h
theorem legalFields_fixed_pos : ∀ (fs : Fields) (s : Nat), fs.Legal → 0 < fs.length → fs.fixedLen? = some s → 0 < s
  | .nil, _, _, hlen, _ => by simp [Fields.length] at hlen
  | .cons _ t r, s, hl, _, h => by
    simp only [Fields.Legal] at hl
    simp only [Fields.fixedLen?] at h
    split at h
    · rename_i a b ha hb
      simp only [Option.some.injEq] at h
      have := legal_fixed_pos t a hl.1 ha
      omega
    · simp at h
end

theorem mapOpt_map_of_forall {f : Bytes → Option Val} {g : Val → Bytes} (vs : List Val)
    (h : ∀ v ∈ vs, f (g v) = some v) : mapOpt f (vs.map g) = some vs := by
  induction vs with
  | nil => rfl
  | cons v vs ih =>
    simp only [List.map_cons, mapOpt]
    rw [h v (by simp), ih (fun w hw => h w (by simp [hw]))]

theorem mapOpt_some_inv {f : Bytes → Option Val} {g : Val → Bytes} {P : Val → Prop} (ps : List Bytes) (vs : List Val)
    (hm : mapOpt f ps = some vs) (h : ∀ p ∈ ps, ∀ v, f p = some v → P v ∧ g v = p) :
    (∀ v ∈ vs, P v) ∧ vs.map g = ps := by
  induction ps generalizing vs with
  | nil => simp [mapOpt] at hm; subst hm; simp
  | cons p ps ih =>
    simp only [mapOpt] at hm
    split at hm
    · rename_i b bs hb hbs
      simp only [Option.some.injEq] at hm; subst hm
      have h1 := h p (by simp) b hb
      have h2 := ih bs hbs (fun q hq => h q (by simp [hq]))
      refine ⟨?_, by simp [h1.2, h2.2]⟩
      intro v hv
      rcases List.mem_cons.mp hv with rfl | hv
      · exact h1.1
      · exact h2.1 v hv
    · simp at hm

/-- the last byte of a `(k+1)`-byte little-endian number is its top digit -/
theorem getLast?_natToLE (k n : Nat) : (natToLE (k + 1) n).getLast? = some (UInt8.ofNat (n / 256 ^ k % 256)) := by
  induction k generalizing n with
  | zero => simp [natToLE]
  | succ k ih =>
    have : natToLE (k + 1 + 1) n = UInt8.ofNat (n % 256) :: natToLE (k + 1) (n / 256) := rfl
    rw [this]
    have hne : natToLE (k + 1) (n / 256) ≠ [] := by
      intro h; have := congrArg List.length h; simp [natToLE_length] at this
    rw [List.getLast?_cons_of_ne_nil hne, ih]
    congr 3
    rw [Nat.div_div_eq_div_mul, Nat.pow_succ, Nat.mul_comm]

theorem ofNat_ne_zero {m : Nat} (h1 : 0 < m) (h2 : m < 256) : UInt8.ofNat m ≠ 0 := by
  intro h
  have := congrArg UInt8.toNat h
  simp [UInt8.toNat_ofNat'] at this
  omega

theorem log2_eq {n L : Nat} (h1 : 2 ^ L ≤ n) (h2 : n < 2 ^ (L + 1)) : Nat.log2 n = L := by
  have hn : n ≠ 0 := by
    have : 0 < 2 ^ L := Nat.two_pow_pos L
    omega
  have a : Nat.log2 n < L + 1 := (Nat.log2_lt hn).mpr h2
  have b : ¬ Nat.log2 n < L := fun h => by
    have := (Nat.log2_lt hn).mp h
    omega
  omega

theorem pow_le_pow_8 {a b : Nat} (h : a ≤ b) : 2 ^ a ≤ 2 ^ b := Nat.pow_le_pow_right (by omega) h

end Zrnt.Proofs.SSZ

namespace Zrnt.Proofs.SSZ
open Zrnt.SSZ

theorem decode_encode_bitvector (n : Nat) (bs : List Bool) (h : bs.length = n) :
    decode (.bitvector n) (encode (.bitvector n) (.bits bs)) = some (.bits bs) := by
  have hlt := bitsToNat_lt bs
  rw [h] at hlt
  have hbig : bitsToNat bs < 256 ^ ((n + 7) / 8) := by
    rw [pow_256]
    exact Nat.lt_of_lt_of_le hlt (pow_le_pow_8 (by omega))
  simp only [encode, decode, natToLE_length, leToNat_natToLE _ _ hbig]
  rw [if_pos ⟨trivial, hlt⟩]
  rw [← h, natToBits_bitsToNat]

theorem bitlist_num_bounds (bs : List Bool) :
    2 ^ bs.length ≤ bitsToNat (bs ++ [true]) ∧ bitsToNat (bs ++ [true]) < 2 ^ (bs.length + 1) := by
  rw [bitsToNat_snoc_true]
  have := bitsToNat_lt bs
  rw [Nat.pow_succ]
  omega

theorem decode_encode_bitlist (lim : Nat) (bs : List Bool) (h : bs.length ≤ lim) :
    decode (.bitlist lim) (encode (.bitlist lim) (.bits bs)) = some (.bits bs) := by
  obtain ⟨hlo, hhi⟩ := bitlist_num_bounds bs
  generalize hN : bitsToNat (bs ++ [true]) = N at hlo hhi
  have hk : 8 * (bs.length / 8) ≤ bs.length := by omega
  have hbig : N < 256 ^ (bs.length / 8 + 1) := by
    rw [pow_256]
    exact Nat.lt_of_lt_of_le hhi (pow_le_pow_8 (by omega))
  have hlow : 256 ^ (bs.length / 8) ≤ N := by
    rw [pow_256]
    exact Nat.le_trans (pow_le_pow_8 hk) hlo
  simp only [encode, decode, hN, getLast?_natToLE, leToNat_natToLE _ _ hbig]
  have hdig : N / 256 ^ (bs.length / 8) % 256 = N / 256 ^ (bs.length / 8) := by
    apply Nat.mod_eq_of_lt
    apply Nat.div_lt_of_lt_mul
    rw [Nat.pow_succ] at hbig
    exact hbig
  have hpos : 0 < N / 256 ^ (bs.length / 8) := Nat.div_pos hlow (Nat.pow_pos (by omega))
  have hlt : N / 256 ^ (bs.length / 8) < 256 := by
    apply Nat.div_lt_of_lt_mul
    rw [Nat.pow_succ] at hbig
    exact hbig
  rw [hdig]
  rw [if_neg (ofNat_ne_zero hpos hlt)]
  rw [log2_eq hlo hhi, if_pos h]
  congr 2
  rw [← hN, bitsToNat_snoc_true]
  have := natToBits_add_mul bs.length (bitsToNat bs) 1
  rw [Nat.mul_one] at this
  rw [this, natToBits_bitsToNat]

end Zrnt.Proofs.SSZ

namespace Zrnt.Proofs.SSZ
open Zrnt.SSZ

theorem encodeFields_length_eq : ∀ (fs : Fields) (vs : List Val), WFFields fs vs → (encodeFields fs vs).length = vs.length
  | .nil, vs, hw => by cases vs <;> simp_all [WFFields, encodeFields]
  | .cons _ t r, vs, hw => by
    cases vs with
    | nil => simp [WFFields] at hw
    | cons v vs =>
      simp only [WFFields] at hw
      simp [encodeFields, encodeFields_length_eq r vs hw.2]

mutual
theorem decode_encode_aux : ∀ (t : Ty) (v : Val), t.Legal → WF t v → (encode t v).length < 2 ^ 32 →
    decode t (encode t v) = some v
  | .uint k, v, _, hw, _ => by
    cases v <;> simp only [WF] at hw
    rename_i n
    rw [← pow_256] at hw
    simp [encode, decode, natToLE_length, leToNat_natToLE _ _ hw]
  | .bool, v, _hl, hw, _hlen => by
    cases v <;> simp only [WF] at hw
    case bool b => cases b <;> simp [encode, decode]
  | .bytesN m, v, _, hw, _ => by
    cases v <;> simp only [WF] at hw
    simp [encode, decode, hw]
  | .vector t m, v, hl, hw, hlen => by
    cases v <;> simp only [WF] at hw
    rename_i vs
    simp only [Ty.Legal] at hl
    simp only [encode] at hlen ⊢
    have hc : Compat (List.replicate vs.length t.fixedLen?) (vs.map (encode t)) := by
      have := compat_replicate t.fixedLen? (vs.map (encode t)) (by
        intro s hs p hp
        obtain ⟨v, hv, rfl⟩ := List.mem_map.mp hp
        exact encode_fixed t v s hs (hw.2 v hv))
      simpa using this
    simp only [decode]
    rw [← hw.1, splitParts_joinParts _ _ hc hlen]
    simp only
    rw [mapOpt_map_of_forall vs (fun v hv => decode_encode_aux t v hl.2 (hw.2 v hv)
      (Nat.lt_of_le_of_lt (part_length_le _ _ hc _ (List.mem_map_of_mem hv)) hlen))]
    rfl
  | .list t lim, v, hl, hw, hlen => by
    cases v <;> simp only [WF] at hw
    rename_i vs
    simp only [Ty.Legal] at hl
    simp only [encode] at hlen ⊢
    have hc : Compat (List.replicate vs.length t.fixedLen?) (vs.map (encode t)) := by
      have := compat_replicate t.fixedLen? (vs.map (encode t)) (by
        intro s hs p hp
        obtain ⟨v, hv, rfl⟩ := List.mem_map.mp hp
        exact encode_fixed t v s hs (hw.2 v hv))
      simpa using this
    have hsl := splitList_joinParts t.fixedLen? lim (vs.map (encode t)) (by simpa using hc) (by simpa using hw.1)
      (fun s hs => legal_fixed_pos t s hl hs) (by simpa using hlen)
    simp only [List.length_map] at hsl
    simp only [decode]
    rw [hsl]
    simp only
    rw [mapOpt_map_of_forall vs (fun v hv => decode_encode_aux t v hl (hw.2 v hv)
      (Nat.lt_of_le_of_lt (part_length_le _ _ hc _ (List.mem_map_of_mem hv)) hlen))]
    rfl
  | .bitvector m, v, _, hw, _ => by
    cases v <;> simp only [WF] at hw
    exact decode_encode_bitvector m _ hw
  | .bitlist lim, v, _, hw, _ => by
    cases v <;> simp only [WF] at hw
    exact decode_encode_bitlist lim _ hw
  | .byteList lim, v, _, hw, _ => by
    cases v <;> simp only [WF] at hw
    simp [encode, decode, hw]
  | .container fs, v, hl, hw, hlen => by
    cases v <;> simp only [WF] at hw
    rename_i vs
    simp only [Ty.Legal] at hl
    simp only [encode] at hlen ⊢
    have hc := encodeFields_compat fs vs hw
    simp only [decode]
    rw [splitParts_joinParts _ _ hc hlen]
    simp only
    rw [decodeFields_encodeFields fs vs hl.2 hw (fun p hp =>
      Nat.lt_of_le_of_lt (part_length_le _ _ hc p hp) hlen)]
    rfl
theorem decodeFields_encodeFields : ∀ (fs : Fields) (vs : List Val), fs.Legal → WFFields fs vs →
    (∀ p ∈ encodeFields fs vs, p.length < 2 ^ 32) → decodeFields fs (encodeFields fs vs) = some vs
  | .nil, vs, _, hw, _ => by cases vs <;> simp_all [WFFields, encodeFields, decodeFields]
  | .cons _ t r, vs, hl, hw, hlen => by
    cases vs with
    | nil => simp [WFFields] at hw
    | cons v vs =>
      simp only [WFFields] at hw
      simp only [Fields.Legal] at hl
      simp only [encodeFields, decodeFields]
      rw [decode_encode_aux t v hl.1 hw.1 (hlen _ (by simp [encodeFields])),
        decodeFields_encodeFields r vs hl.2 hw.2 (fun p hp => hlen p (by simp [encodeFields, hp]))]
end

end Zrnt.Proofs.SSZ
