import Zrnt.Beacon.Impl.Phase0
import Proofs.Lemmas.C02Altair
/-! Helper lemmas for the phase0 rewards part of C02: attester statuses, stakes, the rewards loop. -/
namespace Zrnt.Proofs.Lemmas
open Zrnt.Beacon Zrnt.Beacon.Spec Zrnt.Beacon.Impl

/-! ### Part A: what the status of validator `i` is after the attestation walk -/

theorem updAt_getElem? (st : List AttesterStatus) (p i : Nat) (f : AttesterStatus → AttesterStatus) :
    (updAt st p f)[i]? = if p = i then (st[i]?).map f else st[i]? := by
  unfold updAt
  cases h : st[p]? with
  | none =>
    simp only []
    split
    · rename_i hpi; subst hpi; simp [h]
    · rfl
  | some x =>
    simp only [List.getElem?_set]
    split
    · rename_i hpi; subst hpi
      obtain ⟨hlt, hget⟩ := List.getElem?_eq_some_iff.mp h
      simp [hlt, hget]
    · rfl

theorem foldl_updAt_getElem? (f : AttesterStatus → AttesterStatus) (hf : ∀ x, f (f x) = f x)
    (idxs : List Nat) (st : List AttesterStatus) (i : Nat) :
    (idxs.foldl (fun st p => updAt st p f) st)[i]? = (st[i]?).map (fun x => if idxs.contains i then f x else x) := by
  induction idxs generalizing st with
  | nil => simp
  | cons p ps ih =>
    simp only [List.foldl_cons]
    rw [ih, updAt_getElem?]
    by_cases hpi : p = i
    · subst hpi
      cases st[p]? with
      | none => simp
      | some x =>
        simp only [↓reduceIte, Option.map_some, List.contains_cons, BEq.rfl, Bool.true_or, Option.some.injEq]
        split
        · exact hf x
        · rfl
    · cases st[i]? with
      | none => simp [hpi]
      | some x =>
        have hne : ¬ i = p := fun h => hpi h.symm
        simp [hpi, hne]

theorem updDelay_idem (att : ResolvedAtt) (x : AttesterStatus) : updDelay att (updDelay att x) = updDelay att x := by
  unfold updDelay
  split <;> rename_i h1
  · simp
  · rfl

theorem updFlagsPrev_idem (att : ResolvedAtt) (x : AttesterStatus) : updFlagsPrev att (updFlagsPrev att x) = updFlagsPrev att x := by
  unfold updFlagsPrev
  cases att.matching_target <;> cases att.matching_head <;> rfl

theorem updFlagsCurr_idem (att : ResolvedAtt) (x : AttesterStatus) : updFlagsCurr att (updFlagsCurr att x) = updFlagsCurr att x := by
  unfold updFlagsCurr
  cases att.matching_target <;> cases att.matching_head <;> rfl

/-- what one previous-epoch attestation does to a status -/
def gPrev (att : ResolvedAtt) (x : AttesterStatus) : AttesterStatus := updFlagsPrev att (updDelay att x)

theorem processEpochPrev_getElem? (atts : List ResolvedAtt) (st : List AttesterStatus) (i : Nat) :
    (processEpochPrev atts st)[i]? =
      (st[i]?).map (fun x => atts.foldl (fun x att => if att.indices.contains i then gPrev att x else x) x) := by
  unfold processEpochPrev
  induction atts generalizing st with
  | nil => simp
  | cons att rest ih =>
    simp only [List.foldl_cons]
    rw [ih, foldl_updAt_getElem? _ (updFlagsPrev_idem att), foldl_updAt_getElem? _ (updDelay_idem att)]
    cases st[i]? with
    | none => rfl
    | some x =>
      simp only [Option.map_some, gPrev]
      split <;> rfl

theorem processEpochCurr_getElem? (atts : List ResolvedAtt) (st : List AttesterStatus) (i : Nat) :
    (processEpochCurr atts st)[i]? =
      (st[i]?).map (fun x => atts.foldl (fun x att => if att.indices.contains i then updFlagsCurr att x else x) x) := by
  unfold processEpochCurr
  induction atts generalizing st with
  | nil => simp
  | cons att rest ih =>
    simp only [List.foldl_cons]
    rw [ih, foldl_updAt_getElem? _ (updFlagsCurr_idem att)]
    cases st[i]? with
    | none => rfl
    | some x => simp only [Option.map_some]

/-- the walk over the previous epoch's attestations, seen from validator `i` -/
def pv (i : Nat) (atts : List ResolvedAtt) (x : AttesterStatus) : AttesterStatus :=
  atts.foldl (fun x att => if att.indices.contains i then gPrev att x else x) x

theorem pv_cons (i : Nat) (att : ResolvedAtt) (atts : List ResolvedAtt) (x : AttesterStatus) :
    pv i (att :: atts) x = pv i atts (if att.indices.contains i then gPrev att x else x) := rfl

theorem gPrev_fields (att : ResolvedAtt) (x : AttesterStatus) :
    (gPrev att x).prevSource = true ∧
    (gPrev att x).prevTarget = (x.prevTarget || att.matching_target) ∧
    (gPrev att x).prevHead = (x.prevHead || (att.matching_target && att.matching_head)) ∧
    (gPrev att x).unslashed = x.unslashed ∧ (gPrev att x).eligible = x.eligible ∧
    (gPrev att x).currSource = x.currSource ∧ (gPrev att x).currTarget = x.currTarget ∧ (gPrev att x).currHead = x.currHead ∧
    (gPrev att x).inclusionDelay = (updDelay att x).inclusionDelay ∧
    (gPrev att x).attestedProposer = (updDelay att x).attestedProposer := by
  unfold gPrev updFlagsPrev updDelay
  cases att.matching_target <;> cases att.matching_head <;> (split <;> simp)

theorem pv_flags (i : Nat) (atts : List ResolvedAtt) (x : AttesterStatus) :
    (pv i atts x).prevSource = (x.prevSource || atts.any (fun a => a.indices.contains i)) ∧
    (pv i atts x).prevTarget = (x.prevTarget || atts.any (fun a => a.indices.contains i && a.matching_target)) ∧
    (pv i atts x).prevHead = (x.prevHead || atts.any (fun a => a.indices.contains i && (a.matching_target && a.matching_head))) ∧
    (pv i atts x).unslashed = x.unslashed ∧ (pv i atts x).eligible = x.eligible ∧
    (pv i atts x).currSource = x.currSource ∧ (pv i atts x).currTarget = x.currTarget ∧ (pv i atts x).currHead = x.currHead := by
  induction atts generalizing x with
  | nil => simp [pv]
  | cons att rest ih =>
    rw [pv_cons]
    obtain ⟨h1, h2, h3, h4, h5, h6, h7, h8⟩ := ih (if att.indices.contains i then gPrev att x else x)
    rw [h1, h2, h3, h4, h5, h6, h7, h8]
    by_cases hc : att.indices.contains i = true
    · obtain ⟨g1, g2, g3, g4, g5, g6, g7, g8, _, _⟩ := gPrev_fields att x
      simp only [hc, ↓reduceIte, g1, g2, g3, g4, g5, g6, g7, g8, List.any_cons, Bool.true_and, Bool.true_or, Bool.or_true,
        Bool.or_assoc, and_self, and_true]
    · simp only [hc, Bool.false_eq_true, ↓reduceIte, List.any_cons, Bool.false_and, Bool.false_or, and_self]

theorem min_inclusion_cons (b a : ResolvedAtt) (l : List ResolvedAtt) :
    min_inclusion b (a :: l) = min_inclusion (if a.inclusion_delay < b.inclusion_delay then a else b) l := rfl

/-- once a proposer is recorded, the walk tracks the first attestation with the least inclusion delay -/
theorem pv_delay_some (i : Nat) (atts : List ResolvedAtt) (x : AttesterStatus) (b : ResolvedAtt)
    (hd : x.inclusionDelay = b.inclusion_delay) (hp : x.attestedProposer = some b.proposer_index) :
    (pv i atts x).inclusionDelay = (min_inclusion b (atts.filter fun a => a.indices.contains i)).inclusion_delay ∧
    (pv i atts x).attestedProposer = some (min_inclusion b (atts.filter fun a => a.indices.contains i)).proposer_index := by
  induction atts generalizing x b with
  | nil => simp [pv, min_inclusion, hd, hp]
  | cons att rest ih =>
    rw [pv_cons]
    by_cases hc : att.indices.contains i = true
    · simp only [hc, ↓reduceIte, List.filter_cons, min_inclusion_cons]
      obtain ⟨_, _, _, _, _, _, _, _, g9, g10⟩ := gPrev_fields att x
      apply ih
      · rw [g9]; unfold updDelay
        simp only [hp, Option.isNone_some, Bool.false_or, decide_eq_true_eq, hd]
        by_cases hlt : att.inclusion_delay < b.inclusion_delay
        · have : b.inclusion_delay > att.inclusion_delay := hlt
          simp [hlt, this]
        · have : ¬ b.inclusion_delay > att.inclusion_delay := hlt
          simp [hlt, this, hd]
      · rw [g10]; unfold updDelay
        simp only [hp, Option.isNone_some, Bool.false_or, decide_eq_true_eq, hd]
        by_cases hlt : att.inclusion_delay < b.inclusion_delay
        · have : b.inclusion_delay > att.inclusion_delay := hlt
          simp [hlt, this]
        · have : ¬ b.inclusion_delay > att.inclusion_delay := hlt
          simp [hlt, this, hp]
    · simp only [hc, Bool.false_eq_true, ↓reduceIte, List.filter_cons]
      exact ih x b hd hp

/-- from a status without a recorded proposer -/
theorem pv_delay_none (i : Nat) (atts : List ResolvedAtt) (x : AttesterStatus) (hp : x.attestedProposer = none) :
    match atts.filter (fun a => a.indices.contains i) with
    | [] => (pv i atts x).attestedProposer = none ∧ (pv i atts x).inclusionDelay = x.inclusionDelay
    | first :: rest =>
      (pv i atts x).inclusionDelay = (min_inclusion first rest).inclusion_delay ∧
      (pv i atts x).attestedProposer = some (min_inclusion first rest).proposer_index := by
  induction atts generalizing x with
  | nil => simp [pv, hp]
  | cons att rest ih =>
    rw [pv_cons]
    by_cases hc : att.indices.contains i = true
    · simp only [hc, ↓reduceIte, List.filter_cons]
      obtain ⟨_, _, _, _, _, _, _, _, g9, g10⟩ := gPrev_fields att x
      apply pv_delay_some
      · rw [g9]; unfold updDelay; simp [hp]
      · rw [g10]; unfold updDelay; simp [hp]
    · simp only [hc, Bool.false_eq_true, ↓reduceIte, List.filter_cons]
      exact ih x hp

/-- the walk over the current epoch's attestations, seen from validator `i` -/
def cv (i : Nat) (atts : List ResolvedAtt) (x : AttesterStatus) : AttesterStatus :=
  atts.foldl (fun x att => if att.indices.contains i then updFlagsCurr att x else x) x

theorem cv_fields (i : Nat) (atts : List ResolvedAtt) (x : AttesterStatus) :
    (cv i atts x).prevSource = x.prevSource ∧ (cv i atts x).prevTarget = x.prevTarget ∧ (cv i atts x).prevHead = x.prevHead ∧
    (cv i atts x).unslashed = x.unslashed ∧ (cv i atts x).eligible = x.eligible ∧
    (cv i atts x).inclusionDelay = x.inclusionDelay ∧ (cv i atts x).attestedProposer = x.attestedProposer ∧
    (cv i atts x).currTarget = (x.currTarget || atts.any (fun a => a.indices.contains i && a.matching_target)) := by
  induction atts generalizing x with
  | nil => simp [cv]
  | cons att rest ih =>
    have hcons : cv i (att :: rest) x = cv i rest (if att.indices.contains i then updFlagsCurr att x else x) := rfl
    rw [hcons]
    obtain ⟨h1, h2, h3, h4, h5, h6, h7, h8⟩ := ih (if att.indices.contains i then updFlagsCurr att x else x)
    rw [h1, h2, h3, h4, h5, h6, h7, h8]
    by_cases hc : att.indices.contains i = true
    · simp only [hc, ↓reduceIte, List.any_cons, Bool.true_and]
      unfold updFlagsCurr
      cases att.matching_target <;> cases att.matching_head <;> simp
    · simp only [hc, Bool.false_eq_true, ↓reduceIte, List.any_cons, Bool.false_and, Bool.false_or, and_self]

def init1 (flat : Validator) (prevEpoch : Nat) : AttesterStatus :=
  { inclusionDelay := 0, attestedProposer := none, prevSource := false, prevTarget := false, prevHead := false,
    currSource := false, currTarget := false, currHead := false,
    unslashed := !flat.slashed,
    eligible := is_active_validator flat prevEpoch || (flat.slashed && prevEpoch + 1 < flat.withdrawable_epoch) }

/-- the status of validator `i` at the end of `ComputeEpochAttesterData` -/
def statusOf (flats : List Validator) (prevEpoch : Nat) (prevAtts currAtts : List ResolvedAtt) (i : Nat) : AttesterStatus :=
  match flats[i]? with
  | some flat => cv i currAtts (pv i prevAtts (init1 flat prevEpoch))
  | none => default

theorem statuses_getElem? (cfg : Config) (flats : List Validator) (prevEpoch : Nat) (prevAtts currAtts : List ResolvedAtt) (i : Nat) :
    (computeEpochAttesterDataPhase0 cfg flats prevEpoch prevAtts currAtts).statuses[i]? =
      (flats[i]?).map (fun flat => cv i currAtts (pv i prevAtts (init1 flat prevEpoch))) := by
  unfold computeEpochAttesterDataPhase0
  simp only []
  rw [processEpochCurr_getElem?, processEpochPrev_getElem?]
  unfold initStatuses
  rw [List.getElem?_map]
  cases flats[i]? with
  | none => rfl
  | some flat => rfl

theorem statuses_length (cfg : Config) (flats : List Validator) (prevEpoch : Nat) (prevAtts currAtts : List ResolvedAtt) :
    (computeEpochAttesterDataPhase0 cfg flats prevEpoch prevAtts currAtts).statuses.length = flats.length := by
  have h := fun i => statuses_getElem? cfg flats prevEpoch prevAtts currAtts i
  apply Nat.le_antisymm
  · apply Nat.le_of_not_lt
    intro hlt
    have := h flats.length
    rw [List.getElem?_eq_getElem hlt] at this
    simp at this
  · apply Nat.le_of_not_lt
    intro hlt
    have := h (computeEpochAttesterDataPhase0 cfg flats prevEpoch prevAtts currAtts).statuses.length
    rw [List.getElem?_eq_getElem hlt] at this
    simp at this

theorem statuses_getD (cfg : Config) (flats : List Validator) (prevEpoch : Nat) (prevAtts currAtts : List ResolvedAtt) (i : Nat) :
    (computeEpochAttesterDataPhase0 cfg flats prevEpoch prevAtts currAtts).statuses.getD i default =
      statusOf flats prevEpoch prevAtts currAtts i := by
  unfold statusOf
  rw [List.getD_eq_getElem?_getD, statuses_getElem?]
  cases flats[i]? <;> rfl

theorem statusOf_fields (flats : List Validator) (prevEpoch : Nat) (prevAtts currAtts : List ResolvedAtt) (i : Nat)
    (flat : Validator) (hf : flats[i]? = some flat) :
    let st := statusOf flats prevEpoch prevAtts currAtts i
    st.prevSource = prevAtts.any (fun a => a.indices.contains i) ∧
    st.prevTarget = prevAtts.any (fun a => a.indices.contains i && a.matching_target) ∧
    st.prevHead = prevAtts.any (fun a => a.indices.contains i && (a.matching_target && a.matching_head)) ∧
    st.unslashed = !flat.slashed ∧
    st.eligible = (is_active_validator flat prevEpoch || (flat.slashed && decide (prevEpoch + 1 < flat.withdrawable_epoch))) ∧
    st.currTarget = currAtts.any (fun a => a.indices.contains i && a.matching_target) := by
  simp only [statusOf, hf]
  obtain ⟨c1, c2, c3, c4, c5, _, _, c8⟩ := cv_fields i currAtts (pv i prevAtts (init1 flat prevEpoch))
  obtain ⟨p1, p2, p3, p4, p5, _, p7, _⟩ := pv_flags i prevAtts (init1 flat prevEpoch)
  rw [c1, c2, c3, c4, c5, c8, p1, p2, p3, p4, p5, p7]
  simp [init1]

theorem any_matching_target (atts : List ResolvedAtt) (i : Nat) :
    (matching_target_atts atts).any (fun a => a.indices.contains i) =
      atts.any (fun a => a.indices.contains i && a.matching_target) := by
  unfold matching_target_atts
  rw [List.any_filter]
  congr 1; funext a; exact Bool.and_comm _ _

theorem any_matching_head (atts : List ResolvedAtt) (i : Nat) :
    (matching_head_atts atts).any (fun a => a.indices.contains i) =
      atts.any (fun a => a.indices.contains i && (a.matching_target && a.matching_head)) := by
  unfold matching_head_atts matching_target_atts
  rw [List.any_filter, List.any_filter]
  congr 1; funext a
  cases a.matching_target <;> cases a.matching_head <;> simp

/-- a stake accumulator of `ComputeEpochAttesterData` against `get_total_balance(get_unslashed_attesting_indices(..))` -/
theorem stake_eq (cfg : Config) (flats : List Validator) (prevEpoch : Nat) (prevAtts currAtts : List ResolvedAtt)
    (sel : AttesterStatus → Bool) (atts : List ResolvedAtt)
    (hsel : ∀ i flat, flats[i]? = some flat →
      sel (statusOf flats prevEpoch prevAtts currAtts i) = (atts.any (fun a => a.indices.contains i) && !flat.slashed)) :
    clampInc cfg (stakeOf flats (computeEpochAttesterDataPhase0 cfg flats prevEpoch prevAtts currAtts).statuses sel) =
      total_balance_of cfg flats (unslashed_attesting_indices_of flats atts) := by
  unfold stakeOf
  rw [foldl_cond_add (List.range _) (fun i => sel ((computeEpochAttesterDataPhase0 cfg flats prevEpoch prevAtts currAtts).statuses.getD i default))
    (fun i => (flats.getD i default).effective_balance) 0, statuses_length]
  unfold clampInc total_balance_of unslashed_attesting_indices_of
  simp only [Nat.zero_add, List.filter_filter]
  have hf : (List.range flats.length).filter (fun i => sel ((computeEpochAttesterDataPhase0 cfg flats prevEpoch prevAtts currAtts).statuses.getD i default)) =
      (List.range flats.length).filter (fun a => (!slashed_of flats a) && atts.any fun a_1 => a_1.indices.contains a) := by
    apply List.filter_congr
    intro i hi
    have hlt := List.mem_range.mp hi
    have hfl : flats[i]? = some flats[i] := List.getElem?_eq_getElem hlt
    rw [statuses_getD, hsel i _ hfl]
    simp [slashed_of, List.getD, hfl, Bool.and_comm]
  rw [hf]
  have hm : (fun i => (flats.getD i default).effective_balance) = eff_of flats := rfl
  rw [hm]
  split <;> omega

end Zrnt.Proofs.Lemmas
