import Zrnt.Beacon.Impl.Phase0
import Proofs.Lemmas.C02Altair
/-! Helper lemmas for the phase0 rewards part of C02: attester statuses, stakes, the rewards loop. -/
namespace Zrnt.Proofs.Lemmas
open Zrnt.Beacon Zrnt.Beacon.Spec Zrnt.Beacon.Impl

/-! ### Part A: what the status of validator `i` is after the attestation walk -/

theorem updAt_getElem? (st : List AttesterStatus) (p i : Nat) (f : AttesterStatus → AttesterStatus) :
    (updAt st p f)[i]? = if p = i then (st[i]?).map f else st[i]? := by
  unfold updAt
  cases h : st[p]? with
  | none =>
    simp only []
    split
    · rename_i hpi; subst hpi; simp [h]
    · rfl
  | some x =>
    simp only [List.getElem?_set]
    split
    · rename_i hpi; subst hpi
      obtain ⟨hlt, hget⟩ := List.getElem?_eq_some_iff.mp h
      simp [hlt, hget]
    · rfl

theorem foldl_updAt_getElem? (f : AttesterStatus → AttesterStatus) (hf : ∀ x, f (f x) = f x)
    (idxs : List Nat) (st : List AttesterStatus) (i : Nat) :
    (idxs.foldl (fun st p => updAt st p f) st)[i]? = (st[i]?).map (fun x => if idxs.contains i then f x else x) := by
  induction idxs generalizing st with
  | nil => simp
  | cons p ps ih =>
    simp only [List.foldl_cons]
    rw [ih, updAt_getElem?]
    by_cases hpi : p = i
    · subst hpi
      cases st[p]? with
      | none => simp
      | some x =>
        simp only [↓reduceIte, Option.map_some, List.contains_cons, BEq.rfl, Bool.true_or, Option.some.injEq]
        split
        · exact hf x
        · rfl
    · cases st[i]? with
      | none => simp [hpi]
      | some x =>
        have hne : ¬ i = p := fun h => hpi h.symm
        simp [hpi, hne]

theorem updDelay_idem (att : ResolvedAtt) (x : AttesterStatus) : updDelay att (updDelay att x) = updDelay att x := by
  unfold updDelay
  split <;> rename_i h1
  · simp
  · rfl

theorem updFlagsPrev_idem (att : ResolvedAtt) (x : AttesterStatus) : updFlagsPrev att (updFlagsPrev att x) = updFlagsPrev att x := by
  unfold updFlagsPrev
  cases att.matching_target <;> cases att.matching_head <;> rfl

theorem updFlagsCurr_idem (att : ResolvedAtt) (x : AttesterStatus) : updFlagsCurr att (updFlagsCurr att x) = updFlagsCurr att x := by
  unfold updFlagsCurr
  cases att.matching_target <;> cases att.matching_head <;> rfl

/-- what one previous-epoch attestation does to a status -/
def gPrev (att : ResolvedAtt) (x : AttesterStatus) : AttesterStatus := updFlagsPrev att (updDelay att x)

theorem processEpochPrev_getElem? (atts : List ResolvedAtt) (st : List AttesterStatus) (i : Nat) :
    (processEpochPrev atts st)[i]? =
      (st[i]?).map (fun x => atts.foldl (fun x att => if att.indices.contains i then gPrev att x else x) x) := by
  unfold processEpochPrev
  induction atts generalizing st with
  | nil => simp
  | cons att rest ih =>
    simp only [List.foldl_cons]
    rw [ih, foldl_updAt_getElem? _ (updFlagsPrev_idem att), foldl_updAt_getElem? _ (updDelay_idem att)]
    cases st[i]? with
    | none => rfl
    | some x =>
      simp only [Option.map_some, gPrev]
      split <;> rfl

theorem processEpochCurr_getElem? (atts : List ResolvedAtt) (st : List AttesterStatus) (i : Nat) :
    (processEpochCurr atts st)[i]? =
      (st[i]?).map (fun x => atts.foldl (fun x att => if att.indices.contains i then updFlagsCurr att x else x) x) := by
  unfold processEpochCurr
  induction atts generalizing st with
  | nil => simp
  | cons att rest ih =>
    simp only [List.foldl_cons]
    rw [ih, foldl_updAt_getElem? _ (updFlagsCurr_idem att)]
    cases st[i]? with
    | none => rfl
    | some x => simp only [Option.map_some]

/-- the walk over the previous epoch's attestations, seen from validator `i` -/
def pv (i : Nat) (atts : List ResolvedAtt) (x : AttesterStatus) : AttesterStatus :=
  atts.foldl (fun x att => if att.indices.contains i then gPrev att x else x) x

theorem pv_cons (i : Nat) (att : ResolvedAtt) (atts : List ResolvedAtt) (x : AttesterStatus) :
    pv i (att :: atts) x = pv i atts (if att.indices.contains i then gPrev att x else x) := rfl

theorem gPrev_fields (att : ResolvedAtt) (x : AttesterStatus) :
    (gPrev att x).prevSource = true ∧
    (gPrev att x).prevTarget = (x.prevTarget || att.matching_target) ∧
    (gPrev att x).prevHead = (x.prevHead || (att.matching_target && att.matching_head)) ∧
    (gPrev att x).unslashed = x.unslashed ∧ (gPrev att x).eligible = x.eligible ∧
    (gPrev att x).currSource = x.currSource ∧ (gPrev att x).currTarget = x.currTarget ∧ (gPrev att x).currHead = x.currHead ∧
    (gPrev att x).inclusionDelay = (updDelay att x).inclusionDelay ∧
    (gPrev att x).attestedProposer = (updDelay att x).attestedProposer := by
  unfold gPrev updFlagsPrev updDelay
  cases att.matching_target <;> cases att.matching_head <;> (split <;> simp)

theorem pv_flags (i : Nat) (atts : List ResolvedAtt) (x : AttesterStatus) :
    (pv i atts x).prevSource = (x.prevSource || atts.any (fun a => a.indices.contains i)) ∧
    (pv i atts x).prevTarget = (x.prevTarget || atts.any (fun a => a.indices.contains i && a.matching_target)) ∧
    (pv i atts x).prevHead = (x.prevHead || atts.any (fun a => a.indices.contains i && (a.matching_target && a.matching_head))) ∧
    (pv i atts x).unslashed = x.unslashed ∧ (pv i atts x).eligible = x.eligible ∧
    (pv i atts x).currSource = x.currSource ∧ (pv i atts x).currTarget = x.currTarget ∧ (pv i atts x).currHead = x.currHead := by
  induction atts generalizing x with
  | nil => simp [pv]
  | cons att rest ih =>
    rw [pv_cons]
    obtain ⟨h1, h2, h3, h4, h5, h6, h7, h8⟩ := ih (if att.indices.contains i then gPrev att x else x)
    rw [h1, h2, h3, h4, h5, h6, h7, h8]
    by_cases hc : att.indices.contains i = true
    · obtain ⟨g1, g2, g3, g4, g5, g6, g7, g8, _, _⟩ := gPrev_fields att x
      simp only [hc, ↓reduceIte, g1, g2, g3, g4, g5, g6, g7, g8, List.any_cons, Bool.true_and, Bool.true_or, Bool.or_true,
        Bool.or_assoc, and_self, and_true]
    · simp only [hc, Bool.false_eq_true, ↓reduceIte, List.any_cons, Bool.false_and, Bool.false_or, and_self]

theorem min_inclusion_cons (b a : ResolvedAtt) (l : List ResolvedAtt) :
    min_inclusion b (a :: l) = min_inclusion (if a.inclusion_delay < b.inclusion_delay then a else b) l := rfl

/-- once a proposer is recorded, the walk tracks the first attestation with the least inclusion delay -/
theorem pv_delay_some (i : Nat) (atts : List ResolvedAtt) (x : AttesterStatus) (b : ResolvedAtt)
    (hd : x.inclusionDelay = b.inclusion_delay) (hp : x.attestedProposer = some b.proposer_index) :
    (pv i atts x).inclusionDelay = (min_inclusion b (atts.filter fun a => a.indices.contains i)).inclusion_delay ∧
    (pv i atts x).attestedProposer = some (min_inclusion b (atts.filter fun a => a.indices.contains i)).proposer_index := by
  induction atts generalizing x b with
  | nil => simp [pv, min_inclusion, hd, hp]
  | cons att rest ih =>
    rw [pv_cons]
    by_cases hc : att.indices.contains i = true
    · simp only [hc, ↓reduceIte, List.filter_cons, min_inclusion_cons]
      obtain ⟨_, _, _, _, _, _, _, _, g9, g10⟩ := gPrev_fields att x
      apply ih
      · rw [g9]; unfold updDelay
        simp only [hp, Option.isNone_some, Bool.false_or, decide_eq_true_eq, hd]
        by_cases hlt : att.inclusion_delay < b.inclusion_delay
        · have : b.inclusion_delay > att.inclusion_delay := hlt
          simp [hlt, this]
        · have : ¬ b.inclusion_delay > att.inclusion_delay := hlt
          simp [hlt, this, hd]
      · rw [g10]; unfold updDelay
        simp only [hp, Option.isNone_some, Bool.false_or, decide_eq_true_eq, hd]
        by_cases hlt : att.inclusion_delay < b.inclusion_delay
        · have : b.inclusion_delay > att.inclusion_delay := hlt
          simp [hlt, this]
        · have : ¬ b.inclusion_delay > att.inclusion_delay := hlt
          simp [hlt, this, hp]
    · simp only [hc, Bool.false_eq_true, ↓reduceIte, List.filter_cons]
      exact ih x b hd hp

/-- from a status without a recorded proposer -/
theorem pv_delay_none (i : Nat) (atts : List ResolvedAtt) (x : AttesterStatus) (hp : x.attestedProposer = none) :
    match atts.filter (fun a => a.indices.contains i) with
    | [] => (pv i atts x).attestedProposer = none ∧ (pv i atts x).inclusionDelay = x.inclusionDelay
    | first :: rest =>
      (pv i atts x).inclusionDelay = (min_inclusion first rest).inclusion_delay ∧
      (pv i atts x).attestedProposer = some (min_inclusion first rest).proposer_index := by
  induction atts generalizing x with
  | nil => simp [pv, hp]
  | cons att rest ih =>
    rw [pv_cons]
    by_cases hc : att.indices.contains i = true
    · simp only [hc, ↓reduceIte, List.filter_cons]
      obtain ⟨_, _, _, _, _, _, _, _, g9, g10⟩ := gPrev_fields att x
      apply pv_delay_some
      · rw [g9]; unfold updDelay; simp [hp]
      · rw [g10]; unfold updDelay; simp [hp]
    · simp only [hc, Bool.false_eq_true, ↓reduceIte, List.filter_cons]
      exact ih x hp

/-- the walk over the current epoch's attestations, seen from validator `i` -/
def cv (i : Nat) (atts : List ResolvedAtt) (x : AttesterStatus) : AttesterStatus :=
  atts.foldl (fun x att => if att.indices.contains i then updFlagsCurr att x else x) x

theorem cv_fields (i : Nat) (atts : List ResolvedAtt) (x : AttesterStatus) :
    (cv i atts x).prevSource = x.prevSource ∧ (cv i atts x).prevTarget = x.prevTarget ∧ (cv i atts x).prevHead = x.prevHead ∧
    (cv i atts x).unslashed = x.unslashed ∧ (cv i atts x).eligible = x.eligible ∧
    (cv i atts x).inclusionDelay = x.inclusionDelay ∧ (cv i atts x).attestedProposer = x.attestedProposer ∧
    (cv i atts x).currTarget = (x.currTarget || atts.any (fun a => a.indices.contains i && a.matching_target)) := by
  induction atts generalizing x with
  | nil => simp [cv]
  | cons att rest ih =>
    have hcons : cv i (att :: rest) x = cv i rest (if att.indices.contains i then updFlagsCurr att x else x) := rfl
    rw [hcons]
    obtain ⟨h1, h2, h3, h4, h5, h6, h7, h8⟩ := ih (if att.indices.contains i then updFlagsCurr att x else x)
    rw [h1, h2, h3, h4, h5, h6, h7, h8]
    by_cases hc : att.indices.contains i = true
    · simp only [hc, ↓reduceIte, List.any_cons, Bool.true_and]
      unfold updFlagsCurr
      cases att.matching_target <;> cases att.matching_head <;> simp
    · simp only [hc, Bool.false_eq_true, ↓reduceIte, List.any_cons, Bool.false_and, Bool.false_or, and_self]

def init1 (flat : Validator) (prevEpoch : Nat) : AttesterStatus :=
  { inclusionDelay := 0, attestedProposer := none, prevSource := false, prevTarget := false, prevHead := false,
    currSource := false, currTarget := false, currHead := false,
    unslashed := !flat.slashed,
    eligible := is_active_validator flat prevEpoch || (flat.slashed && prevEpoch + 1 < flat.withdrawable_epoch) }

/-- the status of validator `i` at the end of `ComputeEpochAttesterData` -/
def statusOf (flats : List Validator) (prevEpoch : Nat) (prevAtts currAtts : List ResolvedAtt) (i : Nat) : AttesterStatus :=
  match flats[i]? with
  | some flat => cv i currAtts (pv i prevAtts (init1 flat prevEpoch))
  | none => default

theorem statuses_getElem? (cfg : Config) (flats : List Validator) (prevEpoch : Nat) (prevAtts currAtts : List ResolvedAtt) (i : Nat) :
    (computeEpochAttesterDataPhase0 cfg flats prevEpoch prevAtts currAtts).statuses[i]? =
      (flats[i]?).map (fun flat => cv i currAtts (pv i prevAtts (init1 flat prevEpoch))) := by
  unfold computeEpochAttesterDataPhase0
  simp only []
  rw [processEpochCurr_getElem?, processEpochPrev_getElem?]
  unfold initStatuses
  rw [List.getElem?_map]
  cases flats[i]? with
  | none => rfl
  | some flat => rfl

theorem statuses_length (cfg : Config) (flats : List Validator) (prevEpoch : Nat) (prevAtts currAtts : List ResolvedAtt) :
    (computeEpochAttesterDataPhase0 cfg flats prevEpoch prevAtts currAtts).statuses.length = flats.length := by
  have h := fun i => statuses_getElem? cfg flats prevEpoch prevAtts currAtts i
  apply Nat.le_antisymm
  · apply Nat.le_of_not_lt
    intro hlt
    have := h flats.length
    rw [List.getElem?_eq_getElem hlt] at this
    simp at this
  · apply Nat.le_of_not_lt
    intro hlt
    have := h (computeEpochAttesterDataPhase0 cfg flats prevEpoch prevAtts currAtts).statuses.length
    rw [List.getElem?_eq_getElem hlt] at this
    simp at this

theorem statuses_getD (cfg : Config) (flats : List Validator) (prevEpoch : Nat) (prevAtts currAtts : List ResolvedAtt) (i : Nat) :
    (computeEpochAttesterDataPhase0 cfg flats prevEpoch prevAtts currAtts).statuses.getD i default =
      statusOf flats prevEpoch prevAtts currAtts i := by
  unfold statusOf
  rw [List.getD_eq_getElem?_getD, statuses_getElem?]
  cases flats[i]? <;> rfl

theorem statusOf_fields (flats : List Validator) (prevEpoch : Nat) (prevAtts currAtts : List ResolvedAtt) (i : Nat)
    (flat : Validator) (hf : flats[i]? = some flat) :
    let st := statusOf flats prevEpoch prevAtts currAtts i
    st.prevSource = prevAtts.any (fun a => a.indices.contains i) ∧
    st.prevTarget = prevAtts.any (fun a => a.indices.contains i && a.matching_target) ∧
    st.prevHead = prevAtts.any (fun a => a.indices.contains i && (a.matching_target && a.matching_head)) ∧
    st.unslashed = !flat.slashed ∧
    st.eligible = (is_active_validator flat prevEpoch || (flat.slashed && decide (prevEpoch + 1 < flat.withdrawable_epoch))) ∧
    st.currTarget = currAtts.any (fun a => a.indices.contains i && a.matching_target) := by
  simp only [statusOf, hf]
  obtain ⟨c1, c2, c3, c4, c5, _, _, c8⟩ := cv_fields i currAtts (pv i prevAtts (init1 flat prevEpoch))
  obtain ⟨p1, p2, p3, p4, p5, _, p7, _⟩ := pv_flags i prevAtts (init1 flat prevEpoch)
  rw [c1, c2, c3, c4, c5, c8, p1, p2, p3, p4, p5, p7]
  simp [init1]

theorem any_matching_target (atts : List ResolvedAtt) (i : Nat) :
    (matching_target_atts atts).any (fun a => a.indices.contains i) =
      atts.any (fun a => a.indices.contains i && a.matching_target) := by
  unfold matching_target_atts
  rw [List.any_filter]
  congr 1; funext a; exact Bool.and_comm _ _

theorem any_matching_head (atts : List ResolvedAtt) (i : Nat) :
    (matching_head_atts atts).any (fun a => a.indices.contains i) =
      atts.any (fun a => a.indices.contains i && (a.matching_target && a.matching_head)) := by
  unfold matching_head_atts matching_target_atts
  rw [List.any_filter, List.any_filter]
  congr 1; funext a
  cases a.matching_target <;> cases a.matching_head <;> simp

/-- a stake accumulator of `ComputeEpochAttesterData` against `get_total_balance(get_unslashed_attesting_indices(..))` -/
theorem stake_eq (cfg : Config) (flats : List Validator) (prevEpoch : Nat) (prevAtts currAtts : List ResolvedAtt)
    (sel : AttesterStatus → Bool) (atts : List ResolvedAtt)
    (hsel : ∀ i flat, flats[i]? = some flat →
      sel (statusOf flats prevEpoch prevAtts currAtts i) = (atts.any (fun a => a.indices.contains i) && !flat.slashed)) :
    clampInc cfg (stakeOf flats (computeEpochAttesterDataPhase0 cfg flats prevEpoch prevAtts currAtts).statuses sel) =
      total_balance_of cfg flats (unslashed_attesting_indices_of flats atts) := by
  unfold stakeOf
  rw [foldl_cond_add (List.range _) (fun i => sel ((computeEpochAttesterDataPhase0 cfg flats prevEpoch prevAtts currAtts).statuses.getD i default))
    (fun i => (flats.getD i default).effective_balance) 0, statuses_length]
  unfold clampInc total_balance_of unslashed_attesting_indices_of
  simp only [Nat.zero_add, List.filter_filter]
  have hf : (List.range flats.length).filter (fun i => sel ((computeEpochAttesterDataPhase0 cfg flats prevEpoch prevAtts currAtts).statuses.getD i default)) =
      (List.range flats.length).filter (fun a => (!slashed_of flats a) && atts.any fun a_1 => a_1.indices.contains a) := by
    apply List.filter_congr
    intro i hi
    have hlt := List.mem_range.mp hi
    have hfl : flats[i]? = some flats[i] := List.getElem?_eq_getElem hlt
    rw [statuses_getD, hsel i _ hfl]
    simp [slashed_of, List.getD, hfl, Bool.and_comm]
  rw [hf]
  have hm : (fun i => (flats.getD i default).effective_balance) = eff_of flats := rfl
  rw [hm]
  split <;> omega

/-! ### Part C: the validator loop of `AttestationRewardsAndPenalties`, one delta at a time -/

theorem foldl_filter {α β : Type} (p : α → Bool) (f : β → α → β) (l : List α) (b : β) :
    l.foldl (fun b a => if p a then f b a else b) b = (l.filter p).foldl f b := by
  induction l generalizing b with
  | nil => rfl
  | cons x xs ih =>
    simp only [List.foldl_cons, List.filter_cons]
    split <;> simp [ih]

theorem foldl_proj {α β γ : Type} (π : β → γ) (step : β → α → β) (stepπ : γ → α → γ)
    (h : ∀ b a, π (step b a) = stepπ (π b) a) (l : List α) (b : β) :
    π (l.foldl step b) = l.foldl stepπ (π b) := by
  induction l generalizing b with
  | nil => rfl
  | cons x xs ih => simp only [List.foldl_cons]; rw [ih, h]

/-- one of the three attestation components for validator `i` -/
def compStep (base : Nat → Nat) (stakeIncs totalIncs : Nat) (leak : Bool) (attested : Nat → Bool) (d : Deltas) (i : Nat) : Deltas :=
  if attested i then
    if leak then (addAtPure d.1 i (base i), d.2)
    else (addAtPure d.1 i (base i * stakeIncs / totalIncs), d.2)
  else (d.1, addAtPure d.2 i (base i))

def baseM (cfg : Config) (flats : List Validator) (sq : Nat) (i : Nat) : Nat :=
  (flats.getD i default).effective_balance * cfg.BASE_REWARD_FACTOR / sq / BASE_REWARDS_PER_EPOCH

theorem rewardsStep_source (cfg : Config) (flats : List Validator) (tI sI gI hI sq fd q : Nat) (leak : Bool)
    (res : RewardsAndPenalties) (i : Nat) (st : AttesterStatus) :
    (rewardsStep cfg flats tI sI gI hI sq fd q leak res i st).source =
      if st.eligible then compStep (baseM cfg flats sq) sI tI leak (fun _ => st.prevSource && st.unslashed) res.source i
      else res.source := by
  obtain ⟨dl, pr, ps, pt, ph, cs, ct, ch, un, el⟩ := st
  cases ps <;> cases pt <;> cases ph <;> cases un <;> cases el <;> cases leak <;> simp [rewardsStep, compStep, baseM]

theorem rewardsStep_target (cfg : Config) (flats : List Validator) (tI sI gI hI sq fd q : Nat) (leak : Bool)
    (res : RewardsAndPenalties) (i : Nat) (st : AttesterStatus) :
    (rewardsStep cfg flats tI sI gI hI sq fd q leak res i st).target =
      if st.eligible then compStep (baseM cfg flats sq) gI tI leak (fun _ => st.prevTarget && st.unslashed) res.target i
      else res.target := by
  obtain ⟨dl, pr, ps, pt, ph, cs, ct, ch, un, el⟩ := st
  cases ps <;> cases pt <;> cases ph <;> cases un <;> cases el <;> cases leak <;> simp [rewardsStep, compStep, baseM]

theorem rewardsStep_head (cfg : Config) (flats : List Validator) (tI sI gI hI sq fd q : Nat) (leak : Bool)
    (res : RewardsAndPenalties) (i : Nat) (st : AttesterStatus) :
    (rewardsStep cfg flats tI sI gI hI sq fd q leak res i st).head =
      if st.eligible then compStep (baseM cfg flats sq) hI tI leak (fun _ => st.prevHead && st.unslashed) res.head i
      else res.head := by
  obtain ⟨dl, pr, ps, pt, ph, cs, ct, ch, un, el⟩ := st
  cases ps <;> cases pt <;> cases ph <;> cases un <;> cases el <;> cases leak <;> simp [rewardsStep, compStep, baseM]

theorem contains_uai (vals : List Validator) (atts : List ResolvedAtt) (i : Nat) (flat : Validator) (hf : vals[i]? = some flat) :
    (unslashed_attesting_indices_of vals atts).contains i = (atts.any (fun a => a.indices.contains i) && !flat.slashed) := by
  obtain ⟨hlt, _⟩ := List.getElem?_eq_some_iff.mp hf
  unfold unslashed_attesting_indices_of slashed_of
  rw [Bool.eq_iff_iff]
  simp only [List.contains_iff_mem, List.mem_filter, List.mem_range, hlt, true_and, List.getD, hf, Option.getD_some,
    Bool.and_eq_true]

theorem eligible_filter_eq (flats : List Validator) (prevEpoch : Nat) (prevAtts currAtts : List ResolvedAtt) :
    (List.range flats.length).filter (fun i => (statusOf flats prevEpoch prevAtts currAtts i).eligible) =
      eligible_indices_of flats prevEpoch := by
  unfold eligible_indices_of
  apply List.filter_congr
  intro i hi
  have hlt := List.mem_range.mp hi
  have hfl : flats[i]? = some flats[i] := List.getElem?_eq_getElem hlt
  obtain ⟨_, _, _, _, h5, _⟩ := statusOf_fields flats prevEpoch prevAtts currAtts i _ hfl
  rw [h5, hfl]

/-- one attestation component: the validator loop restricted to eligible validators, against the spec -/
theorem component_fold (cfg : Config) (flats : List Validator) (prevEpoch : Nat) (prevAtts currAtts atts' : List ResolvedAtt)
    (attestedSel : AttesterStatus → Bool) (stake total : Nat) (leak : Bool)
    (hsel : ∀ i flat, flats[i]? = some flat →
      (attestedSel (statusOf flats prevEpoch prevAtts currAtts i) && (statusOf flats prevEpoch prevAtts currAtts i).unslashed) =
        (atts'.any (fun a => a.indices.contains i) && !flat.slashed))
    (hstake : stake = total_balance_of cfg flats (unslashed_attesting_indices_of flats atts')) :
    (List.range flats.length).foldl (fun d i =>
        if (statusOf flats prevEpoch prevAtts currAtts i).eligible then
          compStep (baseM cfg flats (integer_squareroot total)) (stake / cfg.EFFECTIVE_BALANCE_INCREMENT)
            (total / cfg.EFFECTIVE_BALANCE_INCREMENT) leak
            (fun _ => attestedSel (statusOf flats prevEpoch prevAtts currAtts i) &&
              (statusOf flats prevEpoch prevAtts currAtts i).unslashed) d i
        else d) (zeros flats.length, zeros flats.length) =
      get_attestation_component_deltas_pure cfg flats prevEpoch total leak atts' := by
  rw [foldl_filter (fun i => (statusOf flats prevEpoch prevAtts currAtts i).eligible), eligible_filter_eq]
  unfold get_attestation_component_deltas_pure
  apply foldl_congr_mem
  intro d i hi
  obtain ⟨flat, hfl, _⟩ := (mem_eligible_indices flats prevEpoch i).mp hi
  rw [contains_uai flats atts' i flat hfl, ← hsel i flat hfl, hstake]
  unfold compStep baseM base_reward_phase0_of eff_of
  simp only []

theorem rewardsStep_incl (cfg : Config) (flats : List Validator) (tI sI gI hI sq fd q : Nat) (leak : Bool)
    (res : RewardsAndPenalties) (i : Nat) (st : AttesterStatus) :
    (rewardsStep cfg flats tI sI gI hI sq fd q leak res i st).inclusionDelay =
      if st.prevSource && st.unslashed then
        (addAtPure (addAtPure res.inclusionDelay.1 (st.attestedProposer.getD 0) (baseM cfg flats sq i / cfg.PROPOSER_REWARD_QUOTIENT)) i
          ((baseM cfg flats sq i - baseM cfg flats sq i / cfg.PROPOSER_REWARD_QUOTIENT) / st.inclusionDelay), res.inclusionDelay.2)
      else res.inclusionDelay := by
  obtain ⟨dl, pr, ps, pt, ph, cs, ct, ch, un, el⟩ := st
  cases ps <;> cases pt <;> cases ph <;> cases un <;> cases el <;> cases leak <;> simp [rewardsStep, baseM]

theorem rewardsStep_inact (cfg : Config) (flats : List Validator) (tI sI gI hI sq fd q : Nat) (leak : Bool)
    (res : RewardsAndPenalties) (i : Nat) (st : AttesterStatus) :
    (rewardsStep cfg flats tI sI gI hI sq fd q leak res i st).inactivity =
      if st.eligible && leak then
        (res.inactivity.1,
          if !(st.prevTarget && st.unslashed) then
            addAtPure (addAtPure res.inactivity.2 i
              (BASE_REWARDS_PER_EPOCH * baseM cfg flats sq i - baseM cfg flats sq i / cfg.PROPOSER_REWARD_QUOTIENT)) i
              ((flats.getD i default).effective_balance * fd / q)
          else addAtPure res.inactivity.2 i
              (BASE_REWARDS_PER_EPOCH * baseM cfg flats sq i - baseM cfg flats sq i / cfg.PROPOSER_REWARD_QUOTIENT))
      else res.inactivity := by
  obtain ⟨dl, pr, ps, pt, ph, cs, ct, ch, un, el⟩ := st
  cases ps <;> cases pt <;> cases ph <;> cases un <;> cases el <;> cases leak <;> simp [rewardsStep, baseM]

/-- the status of an unslashed attester records the first attestation with the least inclusion delay -/
theorem statusOf_delay (flats : List Validator) (prevEpoch : Nat) (prevAtts currAtts : List ResolvedAtt) (i : Nat)
    (flat : Validator) (hf : flats[i]? = some flat) (first : ResolvedAtt) (rest : List ResolvedAtt)
    (hfr : prevAtts.filter (fun a => a.indices.contains i) = first :: rest) :
    (statusOf flats prevEpoch prevAtts currAtts i).inclusionDelay = (min_inclusion first rest).inclusion_delay ∧
    (statusOf flats prevEpoch prevAtts currAtts i).attestedProposer = some (min_inclusion first rest).proposer_index := by
  simp only [statusOf, hf]
  obtain ⟨_, _, _, _, _, c6, c7, _⟩ := cv_fields i currAtts (pv i prevAtts (init1 flat prevEpoch))
  rw [c6, c7]
  have := pv_delay_none i prevAtts (init1 flat prevEpoch) rfl
  rw [hfr] at this
  exact this

theorem inclusion_fold (cfg : Config) (flats : List Validator) (prevEpoch : Nat) (prevAtts currAtts : List ResolvedAtt) (total : Nat) :
    (List.range flats.length).foldl (fun (d : Deltas) i =>
        if (statusOf flats prevEpoch prevAtts currAtts i).prevSource && (statusOf flats prevEpoch prevAtts currAtts i).unslashed then
          (addAtPure (addAtPure d.1 ((statusOf flats prevEpoch prevAtts currAtts i).attestedProposer.getD 0)
              (baseM cfg flats (integer_squareroot total) i / cfg.PROPOSER_REWARD_QUOTIENT)) i
            ((baseM cfg flats (integer_squareroot total) i - baseM cfg flats (integer_squareroot total) i / cfg.PROPOSER_REWARD_QUOTIENT) /
              (statusOf flats prevEpoch prevAtts currAtts i).inclusionDelay), d.2)
        else d) (zeros flats.length, zeros flats.length) =
      (get_inclusion_delay_deltas_pure cfg flats total prevAtts, zeros flats.length) := by
  rw [foldl_filter (fun i => (statusOf flats prevEpoch prevAtts currAtts i).prevSource && (statusOf flats prevEpoch prevAtts currAtts i).unslashed)
    (fun (d : Deltas) i => (addAtPure (addAtPure d.1 ((statusOf flats prevEpoch prevAtts currAtts i).attestedProposer.getD 0)
              (baseM cfg flats (integer_squareroot total) i / cfg.PROPOSER_REWARD_QUOTIENT)) i
            ((baseM cfg flats (integer_squareroot total) i - baseM cfg flats (integer_squareroot total) i / cfg.PROPOSER_REWARD_QUOTIENT) /
              (statusOf flats prevEpoch prevAtts currAtts i).inclusionDelay), d.2))]
  have hlist : (List.range flats.length).filter (fun i => (statusOf flats prevEpoch prevAtts currAtts i).prevSource &&
      (statusOf flats prevEpoch prevAtts currAtts i).unslashed) = unslashed_attesting_indices_of flats prevAtts := by
    unfold unslashed_attesting_indices_of
    rw [List.filter_filter]
    apply List.filter_congr
    intro i hi
    have hlt := List.mem_range.mp hi
    have hfl : flats[i]? = some flats[i] := List.getElem?_eq_getElem hlt
    obtain ⟨h1, _, _, h4, _⟩ := statusOf_fields flats prevEpoch prevAtts currAtts i _ hfl
    rw [h1, h4]
    simp [slashed_of, List.getD, hfl, Bool.and_comm]
  rw [hlist]
  unfold get_inclusion_delay_deltas_pure
  -- carry the untouched penalties component along
  have key : ∀ (l : List Nat) (r : List Nat), (∀ i ∈ l, i ∈ unslashed_attesting_indices_of flats prevAtts) →
      l.foldl (fun (d : Deltas) i => (addAtPure (addAtPure d.1 ((statusOf flats prevEpoch prevAtts currAtts i).attestedProposer.getD 0)
              (baseM cfg flats (integer_squareroot total) i / cfg.PROPOSER_REWARD_QUOTIENT)) i
            ((baseM cfg flats (integer_squareroot total) i - baseM cfg flats (integer_squareroot total) i / cfg.PROPOSER_REWARD_QUOTIENT) /
              (statusOf flats prevEpoch prevAtts currAtts i).inclusionDelay), d.2)) (r, zeros flats.length) =
      (l.foldl (fun rewards index =>
        match prevAtts.filter (fun a => a.indices.contains index) with
        | [] => rewards
        | first :: rest =>
          let attestation := min_inclusion first rest
          let rewards := addAtPure rewards attestation.proposer_index (proposer_reward_of cfg flats total index)
          let max_attester_reward :=
            base_reward_phase0_of cfg flats total index - proposer_reward_of cfg flats total index
          addAtPure rewards index (max_attester_reward / attestation.inclusion_delay)) r, zeros flats.length) := by
    intro l
    induction l with
    | nil => intro r _; rfl
    | cons i rest ih =>
      intro r hmem
      simp only [List.foldl_cons]
      have hi := hmem i (by simp)
      unfold unslashed_attesting_indices_of at hi
      simp only [List.mem_filter, List.mem_range] at hi
      obtain ⟨⟨hlt, hany⟩, _⟩ := hi
      have hfl : flats[i]? = some flats[i] := List.getElem?_eq_getElem hlt
      -- the filtered list is not empty
      cases hfr : prevAtts.filter (fun a => a.indices.contains i) with
      | nil =>
        exfalso
        rw [List.any_eq_true] at hany
        obtain ⟨a, ha, hc⟩ := hany
        have : a ∈ prevAtts.filter (fun a => a.indices.contains i) := List.mem_filter.mpr ⟨ha, hc⟩
        rw [hfr] at this; cases this
      | cons first others =>
        obtain ⟨hd, hp⟩ := statusOf_delay flats prevEpoch prevAtts currAtts i _ hfl first others hfr
        simp only [hd, hp, Option.getD_some]
        have := ih (addAtPure (addAtPure r (min_inclusion first others).proposer_index (proposer_reward_of cfg flats total i)) i
          ((base_reward_phase0_of cfg flats total i - proposer_reward_of cfg flats total i) / (min_inclusion first others).inclusion_delay))
          (fun j hj => hmem j (by simp [hj]))
        rw [← this]
        rfl
  exact key _ _ (fun i hi => hi)

theorem foldl_snd {α : Type} (g : List Nat → α → List Nat) (l : List α) (a b : List Nat) :
    l.foldl (fun (d : Deltas) i => (d.1, g d.2 i)) (a, b) = (a, l.foldl g b) := by
  induction l generalizing b with
  | nil => rfl
  | cons x xs ih => simp only [List.foldl_cons]; exact ih _

theorem foldl_id {α β : Type} (l : List α) (b : β) : l.foldl (fun b _ => b) b = b := by
  induction l with
  | nil => rfl
  | cons x xs ih => simpa using ih

theorem inactivity_fold (cfg : Config) (flats : List Validator) (prevEpoch : Nat) (prevAtts currAtts : List ResolvedAtt)
    (total fd : Nat) (leak : Bool) :
    (List.range flats.length).foldl (fun (d : Deltas) i =>
        if (statusOf flats prevEpoch prevAtts currAtts i).eligible && leak then
          (d.1,
            if !((statusOf flats prevEpoch prevAtts currAtts i).prevTarget && (statusOf flats prevEpoch prevAtts currAtts i).unslashed) then
              addAtPure (addAtPure d.2 i
                (BASE_REWARDS_PER_EPOCH * baseM cfg flats (integer_squareroot total) i -
                  baseM cfg flats (integer_squareroot total) i / cfg.PROPOSER_REWARD_QUOTIENT)) i
                ((flats.getD i default).effective_balance * fd / cfg.INACTIVITY_PENALTY_QUOTIENT)
            else addAtPure d.2 i
                (BASE_REWARDS_PER_EPOCH * baseM cfg flats (integer_squareroot total) i -
                  baseM cfg flats (integer_squareroot total) i / cfg.PROPOSER_REWARD_QUOTIENT))
        else d) (zeros flats.length, zeros flats.length) =
      (zeros flats.length, get_inactivity_penalty_deltas_phase0_pure cfg flats prevEpoch total fd leak prevAtts) := by
  unfold get_inactivity_penalty_deltas_phase0_pure
  cases leak with
  | false =>
    simp only [Bool.and_false, Bool.false_eq_true, ↓reduceIte]
    rw [foldl_id]
  | true =>
    simp only [Bool.and_true, ↓reduceIte]
    rw [foldl_filter (fun i => (statusOf flats prevEpoch prevAtts currAtts i).eligible)
      (fun (d : Deltas) i => (d.1,
            if !((statusOf flats prevEpoch prevAtts currAtts i).prevTarget && (statusOf flats prevEpoch prevAtts currAtts i).unslashed) then
              addAtPure (addAtPure d.2 i
                (BASE_REWARDS_PER_EPOCH * baseM cfg flats (integer_squareroot total) i -
                  baseM cfg flats (integer_squareroot total) i / cfg.PROPOSER_REWARD_QUOTIENT)) i
                ((flats.getD i default).effective_balance * fd / cfg.INACTIVITY_PENALTY_QUOTIENT)
            else addAtPure d.2 i
                (BASE_REWARDS_PER_EPOCH * baseM cfg flats (integer_squareroot total) i -
                  baseM cfg flats (integer_squareroot total) i / cfg.PROPOSER_REWARD_QUOTIENT))),
      eligible_filter_eq]
    refine Eq.trans (foldl_snd (fun (pen : List Nat) (i : Nat) =>
            if !((statusOf flats prevEpoch prevAtts currAtts i).prevTarget && (statusOf flats prevEpoch prevAtts currAtts i).unslashed) then
              addAtPure (addAtPure pen i
                (BASE_REWARDS_PER_EPOCH * baseM cfg flats (integer_squareroot total) i -
                  baseM cfg flats (integer_squareroot total) i / cfg.PROPOSER_REWARD_QUOTIENT)) i
                ((flats.getD i default).effective_balance * fd / cfg.INACTIVITY_PENALTY_QUOTIENT)
            else addAtPure pen i
                (BASE_REWARDS_PER_EPOCH * baseM cfg flats (integer_squareroot total) i -
                  baseM cfg flats (integer_squareroot total) i / cfg.PROPOSER_REWARD_QUOTIENT)) _ _ _) ?_
    congr 1
    apply foldl_congr_mem
    intro pen i hi
    obtain ⟨flat, hfl, _⟩ := (mem_eligible_indices flats prevEpoch i).mp hi
    obtain ⟨_, h2, _, h4, _⟩ := statusOf_fields flats prevEpoch prevAtts currAtts i flat hfl
    rw [contains_uai flats _ i flat hfl, any_matching_target, h2, h4]
    unfold baseM base_reward_phase0_of proposer_reward_of base_reward_phase0_of eff_of
    simp only []

/-! ### Part D: putting the deltas together -/

theorem any_imp (atts : List ResolvedAtt) (p q : ResolvedAtt → Bool) (h : ∀ a, p a = true → q a = true) :
    atts.any p = true → atts.any q = true := by
  intro hp
  rw [List.any_eq_true] at hp ⊢
  obtain ⟨a, ha, hpa⟩ := hp
  exact ⟨a, ha, h a hpa⟩

def addL (a b : List Nat) : List Nat := (List.range a.length).map fun i => a.getD i 0 + b.getD i 0

theorem addL_length (a b : List Nat) : (addL a b).length = a.length := by simp [addL]

theorem addL_getD (a b : List Nat) (i : Nat) (h : i < a.length) : (addL a b).getD i 0 = a.getD i 0 + b.getD i 0 := by
  unfold addL
  rw [List.getD_eq_getElem?_getD, List.getElem?_map, List.getElem?_range h]
  rfl

theorem deltasAdd_eq (a b : Deltas) : deltasAdd a b = (addL a.1 b.1, addL a.2 b.2) := rfl

theorem zeros_getD (n i : Nat) : (zeros n).getD i 0 = 0 := by
  unfold zeros
  rw [List.getD_eq_getElem?_getD]
  by_cases h : i < n
  · simp [h]
  · simp [h]

theorem sum5 (n : Nat) (s t h c e : List Nat) :
    addL (addL (addL (addL (addL (zeros n) s) t) h) c) e =
      (List.range n).map (fun i => s.getD i 0 + t.getD i 0 + h.getD i 0 + c.getD i 0 + e.getD i 0) := by
  have l0 : (zeros n).length = n := by simp [zeros]
  have l1 := addL_length (zeros n) s
  have l2 := addL_length (addL (zeros n) s) t
  have l3 := addL_length (addL (addL (zeros n) s) t) h
  have l4 := addL_length (addL (addL (addL (zeros n) s) t) h) c
  rw [l0] at l1; rw [l1] at l2; rw [l2] at l3; rw [l3] at l4
  have hdef : ∀ a b : List Nat, addL a b = (List.range a.length).map fun i => a.getD i 0 + b.getD i 0 := fun _ _ => rfl
  rw [hdef (addL (addL (addL (addL (zeros n) s) t) h) c) e, l4]
  apply List.map_congr_left
  intro i hi
  have hlt := List.mem_range.mp hi
  rw [addL_getD _ _ i (by rw [l3]; exact hlt), addL_getD _ _ i (by rw [l2]; exact hlt),
    addL_getD _ _ i (by rw [l1]; exact hlt), addL_getD _ _ i (by rw [l0]; exact hlt), zeros_getD]
  omega

/-- the five deltas of `AttestationRewardsAndPenalties` are the spec's five delta functions -/
theorem attestationRewards_eq (cfg : Config) (flats : List Validator) (prevEpoch : Nat) (prevAtts currAtts : List ResolvedAtt)
    (total fd : Nat) :
    let d := computeEpochAttesterDataPhase0 cfg flats prevEpoch prevAtts currAtts
    let leak := decide (fd > cfg.MIN_EPOCHS_TO_INACTIVITY_PENALTY)
    let r := attestationRewardsAndPenalties cfg flats d total fd cfg.INACTIVITY_PENALTY_QUOTIENT
    r.source = get_attestation_component_deltas_pure cfg flats prevEpoch total leak prevAtts ∧
    r.target = get_attestation_component_deltas_pure cfg flats prevEpoch total leak (matching_target_atts prevAtts) ∧
    r.head = get_attestation_component_deltas_pure cfg flats prevEpoch total leak (matching_head_atts prevAtts) ∧
    r.inclusionDelay = (get_inclusion_delay_deltas_pure cfg flats total prevAtts, zeros flats.length) ∧
    r.inactivity = (zeros flats.length, get_inactivity_penalty_deltas_phase0_pure cfg flats prevEpoch total fd leak prevAtts) := by
  intro d leak r
  have hlen : d.statuses.length = flats.length := statuses_length cfg flats prevEpoch prevAtts currAtts
  have hget : ∀ i, d.statuses.getD i default = statusOf flats prevEpoch prevAtts currAtts i :=
    statuses_getD cfg flats prevEpoch prevAtts currAtts
  have fields := statusOf_fields flats prevEpoch prevAtts currAtts
  -- stakes
  have hsrc : d.prevSourceStake = total_balance_of cfg flats (unslashed_attesting_indices_of flats prevAtts) := by
    apply stake_eq cfg flats prevEpoch prevAtts currAtts _ prevAtts
    intro i flat hfl
    obtain ⟨h1, _, _, h4, _⟩ := fields i flat hfl
    rw [h1, h4]
  have htgt : d.prevTargetStake = total_balance_of cfg flats (unslashed_attesting_indices_of flats (matching_target_atts prevAtts)) := by
    apply stake_eq cfg flats prevEpoch prevAtts currAtts _ (matching_target_atts prevAtts)
    intro i flat hfl
    obtain ⟨h1, h2, _, h4, _⟩ := fields i flat hfl
    rw [h1, h2, h4, any_matching_target]
    cases hps : prevAtts.any (fun a => a.indices.contains i)
    · have : (prevAtts.any fun a => a.indices.contains i && a.matching_target) = false := by
        cases hpt : prevAtts.any (fun a => a.indices.contains i && a.matching_target)
        · rfl
        · have := any_imp prevAtts _ (fun a => a.indices.contains i) (fun a ha => by
            simp only [Bool.and_eq_true] at ha; exact ha.1) hpt
          rw [hps] at this; cases this
      rw [this]; simp
    · cases flat.slashed <;> simp
  have hhead : d.prevHeadStake = total_balance_of cfg flats (unslashed_attesting_indices_of flats (matching_head_atts prevAtts)) := by
    apply stake_eq cfg flats prevEpoch prevAtts currAtts _ (matching_head_atts prevAtts)
    intro i flat hfl
    obtain ⟨h1, h2, h3, h4, _⟩ := fields i flat hfl
    rw [h1, h2, h3, h4, any_matching_head]
    cases hph : prevAtts.any (fun a => a.indices.contains i && (a.matching_target && a.matching_head))
    · simp
    · have hps := any_imp prevAtts _ (fun a => a.indices.contains i) (fun a ha => by
        simp only [Bool.and_eq_true] at ha; exact ha.1) hph
      have hpt := any_imp prevAtts _ (fun a => a.indices.contains i && a.matching_target) (fun a ha => by
        simp only [Bool.and_eq_true] at ha ⊢; exact ⟨ha.1, ha.2.1⟩) hph
      rw [hps, hpt]; cases flat.slashed <;> simp
  -- rewrite the loop over `d.statuses` as a loop over `statusOf`
  have hr : r = (List.range flats.length).foldl (fun res i =>
      rewardsStep cfg flats (total / cfg.EFFECTIVE_BALANCE_INCREMENT) (d.prevSourceStake / cfg.EFFECTIVE_BALANCE_INCREMENT)
        (d.prevTargetStake / cfg.EFFECTIVE_BALANCE_INCREMENT) (d.prevHeadStake / cfg.EFFECTIVE_BALANCE_INCREMENT)
        (integer_squareroot total) fd cfg.INACTIVITY_PENALTY_QUOTIENT leak res i (statusOf flats prevEpoch prevAtts currAtts i))
      ⟨(zeros flats.length, zeros flats.length), (zeros flats.length, zeros flats.length), (zeros flats.length, zeros flats.length),
       (zeros flats.length, zeros flats.length), (zeros flats.length, zeros flats.length)⟩ := by
    show attestationRewardsAndPenalties cfg flats d total fd cfg.INACTIVITY_PENALTY_QUOTIENT = _
    unfold attestationRewardsAndPenalties
    simp only [hlen, hget]
    rfl
  refine ⟨?_, ?_, ?_, ?_, ?_⟩
  · rw [hr]
    refine Eq.trans (foldl_proj (·.source) _ (fun (dl : Deltas) i =>
        if (statusOf flats prevEpoch prevAtts currAtts i).eligible then
          compStep (baseM cfg flats (integer_squareroot total)) (d.prevSourceStake / cfg.EFFECTIVE_BALANCE_INCREMENT)
            (total / cfg.EFFECTIVE_BALANCE_INCREMENT) leak
            (fun _ => (statusOf flats prevEpoch prevAtts currAtts i).prevSource && (statusOf flats prevEpoch prevAtts currAtts i).unslashed) dl i
        else dl)
      (fun res i => rewardsStep_source cfg flats _ _ _ _ _ _ _ _ res i _) _ _) ?_
    exact component_fold cfg flats prevEpoch prevAtts currAtts prevAtts (·.prevSource) d.prevSourceStake total leak
      (fun i flat hfl => by obtain ⟨h1, _, _, h4, _⟩ := fields i flat hfl; rw [h1, h4]) hsrc
  · rw [hr]
    refine Eq.trans (foldl_proj (·.target) _ (fun (dl : Deltas) i =>
        if (statusOf flats prevEpoch prevAtts currAtts i).eligible then
          compStep (baseM cfg flats (integer_squareroot total)) (d.prevTargetStake / cfg.EFFECTIVE_BALANCE_INCREMENT)
            (total / cfg.EFFECTIVE_BALANCE_INCREMENT) leak
            (fun _ => (statusOf flats prevEpoch prevAtts currAtts i).prevTarget && (statusOf flats prevEpoch prevAtts currAtts i).unslashed) dl i
        else dl)
      (fun res i => rewardsStep_target cfg flats _ _ _ _ _ _ _ _ res i _) _ _) ?_
    exact component_fold cfg flats prevEpoch prevAtts currAtts (matching_target_atts prevAtts) (·.prevTarget) d.prevTargetStake total leak
      (fun i flat hfl => by obtain ⟨_, h2, _, h4, _⟩ := fields i flat hfl; rw [h2, h4, any_matching_target]) htgt
  · rw [hr]
    refine Eq.trans (foldl_proj (·.head) _ (fun (dl : Deltas) i =>
        if (statusOf flats prevEpoch prevAtts currAtts i).eligible then
          compStep (baseM cfg flats (integer_squareroot total)) (d.prevHeadStake / cfg.EFFECTIVE_BALANCE_INCREMENT)
            (total / cfg.EFFECTIVE_BALANCE_INCREMENT) leak
            (fun _ => (statusOf flats prevEpoch prevAtts currAtts i).prevHead && (statusOf flats prevEpoch prevAtts currAtts i).unslashed) dl i
        else dl)
      (fun res i => rewardsStep_head cfg flats _ _ _ _ _ _ _ _ res i _) _ _) ?_
    exact component_fold cfg flats prevEpoch prevAtts currAtts (matching_head_atts prevAtts) (·.prevHead) d.prevHeadStake total leak
      (fun i flat hfl => by obtain ⟨_, _, h3, h4, _⟩ := fields i flat hfl; rw [h3, h4, any_matching_head]) hhead
  · rw [hr]
    refine Eq.trans (foldl_proj (·.inclusionDelay) _ (fun (dl : Deltas) i =>
        if (statusOf flats prevEpoch prevAtts currAtts i).prevSource && (statusOf flats prevEpoch prevAtts currAtts i).unslashed then
          (addAtPure (addAtPure dl.1 ((statusOf flats prevEpoch prevAtts currAtts i).attestedProposer.getD 0)
              (baseM cfg flats (integer_squareroot total) i / cfg.PROPOSER_REWARD_QUOTIENT)) i
            ((baseM cfg flats (integer_squareroot total) i - baseM cfg flats (integer_squareroot total) i / cfg.PROPOSER_REWARD_QUOTIENT) /
              (statusOf flats prevEpoch prevAtts currAtts i).inclusionDelay), dl.2)
        else dl)
      (fun res i => rewardsStep_incl cfg flats _ _ _ _ _ _ _ _ res i _) _ _) ?_
    exact inclusion_fold cfg flats prevEpoch prevAtts currAtts total
  · rw [hr]
    refine Eq.trans (foldl_proj (·.inactivity) _ (fun (dl : Deltas) i =>
        if (statusOf flats prevEpoch prevAtts currAtts i).eligible && leak then
          (dl.1,
            if !((statusOf flats prevEpoch prevAtts currAtts i).prevTarget && (statusOf flats prevEpoch prevAtts currAtts i).unslashed) then
              addAtPure (addAtPure dl.2 i
                (BASE_REWARDS_PER_EPOCH * baseM cfg flats (integer_squareroot total) i -
                  baseM cfg flats (integer_squareroot total) i / cfg.PROPOSER_REWARD_QUOTIENT)) i
                ((flats.getD i default).effective_balance * fd / cfg.INACTIVITY_PENALTY_QUOTIENT)
            else addAtPure dl.2 i
                (BASE_REWARDS_PER_EPOCH * baseM cfg flats (integer_squareroot total) i -
                  baseM cfg flats (integer_squareroot total) i / cfg.PROPOSER_REWARD_QUOTIENT))
        else dl)
      (fun res i => rewardsStep_inact cfg flats _ _ _ _ _ _ _ _ res i _) _ _) ?_
    exact inactivity_fold cfg flats prevEpoch prevAtts currAtts total fd leak

theorem attestationRewards_eq' (cfg : Config) (flats : List Validator) (prevEpoch : Nat) (prevAtts currAtts : List ResolvedAtt)
    (total fd : Nat) (r : RewardsAndPenalties)
    (hr : r = attestationRewardsAndPenalties cfg flats (computeEpochAttesterDataPhase0 cfg flats prevEpoch prevAtts currAtts)
      total fd cfg.INACTIVITY_PENALTY_QUOTIENT) :
    r.source = get_attestation_component_deltas_pure cfg flats prevEpoch total (decide (fd > cfg.MIN_EPOCHS_TO_INACTIVITY_PENALTY)) prevAtts ∧
    r.target = get_attestation_component_deltas_pure cfg flats prevEpoch total (decide (fd > cfg.MIN_EPOCHS_TO_INACTIVITY_PENALTY)) (matching_target_atts prevAtts) ∧
    r.head = get_attestation_component_deltas_pure cfg flats prevEpoch total (decide (fd > cfg.MIN_EPOCHS_TO_INACTIVITY_PENALTY)) (matching_head_atts prevAtts) ∧
    r.inclusionDelay = (get_inclusion_delay_deltas_pure cfg flats total prevAtts, zeros flats.length) ∧
    r.inactivity = (zeros flats.length, get_inactivity_penalty_deltas_phase0_pure cfg flats prevEpoch total fd
      (decide (fd > cfg.MIN_EPOCHS_TO_INACTIVITY_PENALTY)) prevAtts) := by
  subst hr
  exact attestationRewards_eq cfg flats prevEpoch prevAtts currAtts total fd

theorem rewards_assemble (n : Nat) (balances : List Nat) (r : RewardsAndPenalties) (s t h : Deltas) (incl inact : List Nat)
    (h1 : r.source = s) (h2 : r.target = t) (h3 : r.head = h) (h4 : r.inclusionDelay = (incl, zeros n))
    (h5 : r.inactivity = (zeros n, inact)) (hlen : balances.length = n) :
    applyDeltas balances
      (deltasAdd (deltasAdd (deltasAdd (deltasAdd (deltasAdd (zeros n, zeros n) r.source) r.target) r.head) r.inclusionDelay) r.inactivity) =
    apply_deltas_pure n balances
      ((List.range n).map (fun i => s.1.getD i 0 + t.1.getD i 0 + h.1.getD i 0 + incl.getD i 0),
       (List.range n).map (fun i => s.2.getD i 0 + t.2.getD i 0 + h.2.getD i 0 + inact.getD i 0)) := by
  rw [h1, h2, h3, h4, h5, applyDeltas_eq, hlen]
  simp only [deltasAdd_eq, sum5]
  congr 2
  · apply List.map_congr_left
    intro i _
    rw [zeros_getD]; omega
  · apply List.map_congr_left
    intro i _
    rw [zeros_getD]; omega

theorem rewards_phase0 (cfg : Config) (flats : List Validator) (prevEpoch curEpoch : Nat) (prevAtts currAtts : List ResolvedAtt)
    (fd : Nat) (balances : List Nat) (hlen : balances.length = flats.length) :
    processEpochRewardsAndPenaltiesPhase0 cfg flats (computeEpochAttesterDataPhase0 cfg flats prevEpoch prevAtts currAtts)
        (total_active_balance_of cfg flats curEpoch) fd cfg.INACTIVITY_PENALTY_QUOTIENT balances =
      process_rewards_and_penalties_phase0_pure cfg flats balances prevEpoch curEpoch fd
        (decide (fd > cfg.MIN_EPOCHS_TO_INACTIVITY_PENALTY)) prevAtts := by
  unfold processEpochRewardsAndPenaltiesPhase0 process_rewards_and_penalties_phase0_pure get_attestation_deltas_pure
  simp only [statuses_length]
  generalize hr : attestationRewardsAndPenalties cfg flats (computeEpochAttesterDataPhase0 cfg flats prevEpoch prevAtts currAtts)
      (total_active_balance_of cfg flats curEpoch) fd cfg.INACTIVITY_PENALTY_QUOTIENT = r
  obtain ⟨h1, h2, h3, h4, h5⟩ := attestationRewards_eq' cfg flats prevEpoch prevAtts currAtts _ fd r hr.symm
  exact rewards_assemble flats.length balances r _ _ _ _ _ h1 h2 h3 h4 h5 hlen

/-- `currentTargetStake` for phase0 -/
theorem targetStakes_phase0 (cfg : Config) (flats : List Validator) (prevEpoch : Nat) (prevAtts currAtts : List ResolvedAtt) :
    ((computeEpochAttesterDataPhase0 cfg flats prevEpoch prevAtts currAtts).prevTargetStake,
     (computeEpochAttesterDataPhase0 cfg flats prevEpoch prevAtts currAtts).currTargetStake) =
      target_balances_phase0_pure cfg flats prevAtts currAtts := by
  have fields := statusOf_fields flats prevEpoch prevAtts currAtts
  unfold target_balances_phase0_pure
  congr 1
  · apply stake_eq cfg flats prevEpoch prevAtts currAtts _ (matching_target_atts prevAtts)
    intro i flat hfl
    obtain ⟨h1, h2, _, h4, _⟩ := fields i flat hfl
    rw [h1, h2, h4, any_matching_target]
    cases hpt : prevAtts.any (fun a => a.indices.contains i && a.matching_target)
    · simp
    · have hps := any_imp prevAtts _ (fun a => a.indices.contains i) (fun a ha => by
        simp only [Bool.and_eq_true] at ha; exact ha.1) hpt
      rw [hps]; cases flat.slashed <;> simp
  · apply stake_eq cfg flats prevEpoch prevAtts currAtts _ (matching_target_atts currAtts)
    intro i flat hfl
    obtain ⟨_, _, _, h4, _, h6⟩ := fields i flat hfl
    rw [h6, h4, any_matching_target]

end Zrnt.Proofs.Lemmas
