import Zrnt.SSZ.Impl
import Proofs.Lemmas.SSZLeaf
/-! The byte-level models of the leaf readers and of ztyp's packing helpers against the generic specification. -/
namespace Zrnt.Proofs.SSZ
open Zrnt.SSZ

/-! ### readers -/

theorem readExact_uint (k : Nat) (bs : Bytes) : goReadExact k bs = (decode (.uint k) bs).map (encode (.uint k)) := by
  unfold goReadExact
  simp only [decode]
  split
  · rename_i h
    simp only [Option.map_some, encode, Option.some.injEq]
    rw [← h, natToLE_leToNat]
  · rfl

theorem readExact_bytesN (n : Nat) (bs : Bytes) : goReadExact n bs = (decode (.bytesN n) bs).map (encode (.bytesN n)) := by
  unfold goReadExact
  simp only [decode]
  split <;> simp [encode]

theorem readByteList_spec (lim : Nat) (bs : Bytes) :
    goReadByteList lim bs = (decode (.byteList lim) bs).map (encode (.byteList lim)) := by
  unfold goReadByteList
  simp only [decode]
  split <;> simp [encode]

/-- with `ceil(n/8)` bytes, "the number is below `2^n`" is "the unused high bits of the last byte are zero" -/
theorem bitvector_range (n : Nat) (bs : Bytes) (hlen : bs.length = (n + 7) / 8) :
    (leToNat bs < 2 ^ n) ↔ (n % 8 = 0 ∨ ∃ last, bs.getLast? = some last ∧ last.toNat / 2 ^ (n % 8) = 0) := by
  by_cases hr : n % 8 = 0
  · simp only [hr, true_or, iff_true]
    have := leToNat_lt bs
    rw [hlen, pow_256] at this
    have e : 8 * ((n + 7) / 8) = n := by omega
    rwa [e] at this
  · simp only [hr, false_or]
    have hq : (n + 7) / 8 = n / 8 + 1 := by omega
    have hne : bs ≠ [] := by intro h; simp [h] at hlen; omega
    obtain ⟨ys, last, rfl⟩ : ∃ ys last, bs = ys ++ [last] := by
      cases hl : bs.getLast? with
      | none => exact absurd (List.getLast?_eq_none_iff.mp hl) hne
      | some last => obtain ⟨ys, h⟩ := List.getLast?_eq_some_iff.mp hl; exact ⟨ys, last, h⟩
    have hys : ys.length = n / 8 := by simp at hlen; omega
    have hN : leToNat (ys ++ [last]) = leToNat ys + 256 ^ ys.length * last.toNat := by
      rw [leToNat_append]; simp [leToNat]
    have ha := leToNat_lt ys
    have hpow : 2 ^ n = 256 ^ ys.length * 2 ^ (n % 8) := by
      rw [pow_256, ← Nat.pow_add, hys]; congr 1; omega
    simp only [List.getLast?_append, List.getLast?_singleton, Option.some_or, Option.some.injEq, exists_eq_left']
    rw [hN, hpow]
    have hp : 0 < 256 ^ ys.length := Nat.pow_pos (by omega)
    have h2 : 0 < 2 ^ (n % 8) := Nat.pow_pos (by omega)
    constructor
    · intro h
      apply Nat.div_eq_of_lt
      rcases Nat.lt_or_ge last.toNat (2 ^ (n % 8)) with hlt | hge'
      · exact hlt
      · have := Nat.mul_le_mul_left (256 ^ ys.length) hge'
        omega
    · intro h
      have hlt : last.toNat < 2 ^ (n % 8) := by
        rcases Nat.lt_or_ge last.toNat (2 ^ (n % 8)) with hlt | hge
        · exact hlt
        · have : 0 < last.toNat / 2 ^ (n % 8) := Nat.div_pos hge h2
          omega
      have : 256 ^ ys.length * (last.toNat + 1) ≤ 256 ^ ys.length * 2 ^ (n % 8) := Nat.mul_le_mul_left _ hlt
      rw [Nat.mul_add, Nat.mul_one] at this
      omega

theorem readBitVector_spec (n : Nat) (bs : Bytes) :
    goReadBitVector n bs = (decode (.bitvector n) bs).map (encode (.bitvector n)) := by
  cases hd : decode (.bitvector n) bs with
  | some v =>
    have hcanon := (decode_bitvector_some n bs v hd).2
    simp only [Option.map_some, hcanon]
    simp only [decode] at hd
    split at hd
    · rename_i hc
      have hr := (bitvector_range n bs hc.1).mp hc.2
      unfold goReadBitVector
      simp only [hc.1, ↓reduceIte]
      rcases hr with hr | ⟨last, hl, hz⟩
      · simp [hr]
      · by_cases h8 : n % 8 = 0
        · simp [h8]
        · simp [h8, hl, hz]
    · simp at hd
  | none =>
    simp only [Option.map_none]
    simp only [decode] at hd
    unfold goReadBitVector
    split at hd
    · simp at hd
    · rename_i hc
      by_cases hlen : bs.length = (n + 7) / 8
      · have hnot : ¬ leToNat bs < 2 ^ n := fun h => hc ⟨hlen, h⟩
        have hr := mt (bitvector_range n bs hlen).mpr hnot
        simp only [not_or, not_exists, not_and] at hr
        simp only [hlen, ↓reduceIte, hr.1]
        cases hl : bs.getLast? with
        | none => rfl
        | some last => simp [hr.2 last hl]
      · simp [hlen]

/-! ### roots -/

theorem bytesRoot_bytesN (H : Hash2) (n : Nat) (raw : Bytes) (h : raw.length = n) :
    goBytesRoot H raw = htr H (.bytesN n) (.bytes raw) := by
  simp [goBytesRoot, htr, chunkCount, h]

theorem bytesRoot_bitvector (H : Hash2) (n : Nat) (bits : List Bool) :
    goBytesRoot H (encode (.bitvector n) (.bits bits)) = htr H (.bitvector n) (.bits bits) := by
  simp only [goBytesRoot, htr, encode, natToLE_length]
  congr 2
  omega

theorem byteListRoot_spec (H : Hash2) (lim : Nat) (raw : Bytes) :
    goByteListRoot H lim raw = htr H (.byteList lim) (.bytes raw) := by
  simp [goByteListRoot, htr, chunkCount]

/-- ztyp computes the chunk limit of `Uint64ListHTR` as `(limit + 3) >> 2` and of `Uint8ListHTR` as `(limit + 31) >> 5` -/
theorem chunkCount_uint64 (lim : Nat) : chunkCount lim 8 = (lim + 3) / 4 := by unfold chunkCount; omega
theorem chunkCount_uint8 (lim : Nat) : chunkCount lim 1 = (lim + 31) / 32 := by unfold chunkCount; omega

/-! ### `BitListHTR`: the delimiter is masked out of the raw bytes -/

theorem natToLE_add_mul (k a m : Nat) : natToLE k (a + 256 ^ k * m) = natToLE k a := by
  induction k generalizing a m with
  | zero => rfl
  | succ k ih =>
    have e : 256 ^ (k + 1) * m = 256 * (256 ^ k * m) := by
      rw [Nat.pow_succ, Nat.mul_comm (256 ^ k) 256, Nat.mul_assoc]
    have h1 : (a + 256 ^ (k + 1) * m) % 256 = a % 256 := by rw [e]; omega
    have h2 : (a + 256 ^ (k + 1) * m) / 256 = a / 256 + 256 ^ k * m := by rw [e]; omega
    simp only [natToLE, h1, h2, ih]

theorem natToLE_succ_snoc (k n : Nat) : natToLE (k + 1) n = natToLE k n ++ [UInt8.ofNat (n / 256 ^ k % 256)] := by
  induction k generalizing n with
  | zero => simp [natToLE]
  | succ k ih =>
    have : natToLE (k + 1 + 1) n = UInt8.ofNat (n % 256) :: natToLE (k + 1) (n / 256) := rfl
    rw [this, ih (n / 256)]
    simp only [natToLE, List.cons_append, Nat.div_div_eq_div_mul]
    congr 4
    rw [Nat.pow_succ, Nat.mul_comm]

theorem ofNat_toNat_lt (d : Nat) (h : d < 256) : (UInt8.ofNat d).toNat = d := by
  simp [UInt8.toNat_ofNat']; omega

/-- everything about the encoding of a bitlist with `L` bits, `q = L / 8` full bytes and the delimiter byte -/
theorem bitlist_encoding_shape (bits : List Bool) :
    encode (.bitlist 0) (.bits bits) = natToLE (bits.length / 8) (bitsToNat bits) ++
        [UInt8.ofNat (bitsToNat bits / 256 ^ (bits.length / 8) + 2 ^ (bits.length % 8))] ∧
      bitsToNat bits / 256 ^ (bits.length / 8) + 2 ^ (bits.length % 8) < 256 ∧
      2 ^ (bits.length % 8) ≤ bitsToNat bits / 256 ^ (bits.length / 8) + 2 ^ (bits.length % 8) ∧
      bitsToNat bits / 256 ^ (bits.length / 8) + 2 ^ (bits.length % 8) < 2 ^ (bits.length % 8 + 1) ∧
      bitsToNat bits / 256 ^ (bits.length / 8) < 2 ^ (bits.length % 8) := by
  have hB : bitsToNat bits < 2 ^ bits.length := bitsToNat_lt bits
  simp only [encode, bitsToNat_snoc_true]
  generalize bitsToNat bits = B at hB ⊢
  generalize bits.length = L at hB ⊢
  have hL : L = 8 * (L / 8) + L % 8 := by omega
  have hpow : 2 ^ L = 256 ^ (L / 8) * 2 ^ (L % 8) := by
    rw [pow_256, ← Nat.pow_add, ← hL]
  have hp : 0 < 256 ^ (L / 8) := Nat.pow_pos (by omega)
  have hlow : B / 256 ^ (L / 8) < 2 ^ (L % 8) := by
    apply Nat.div_lt_of_lt_mul; rw [← hpow]; exact hB
  have hr : 2 ^ (L % 8) ≤ 128 := by
    have : L % 8 ≤ 7 := by omega
    calc 2 ^ (L % 8) ≤ 2 ^ 7 := Nat.pow_le_pow_right (by omega) this
      _ = 128 := by decide
  have hdiv : (B + 2 ^ L) / 256 ^ (L / 8) = B / 256 ^ (L / 8) + 2 ^ (L % 8) := by
    rw [hpow, Nat.add_mul_div_left _ _ hp]
  generalize hd : B / 256 ^ (L / 8) = d at *
  refine ⟨?_, by omega, by omega, by rw [Nat.pow_succ]; omega, hlow⟩
  rw [natToLE_succ_snoc, hdiv, Nat.mod_eq_of_lt (by omega)]
  congr 1
  rw [hpow]
  exact natToLE_add_mul _ _ _

theorem bitlistLen_encode (lim : Nat) (bits : List Bool) :
    goBitlistLen (encode (.bitlist lim) (.bits bits)) = bits.length := by
  obtain ⟨henc, hd, hlo, hhi, _⟩ := bitlist_encoding_shape bits
  have henc' : encode (.bitlist lim) (.bits bits) = encode (.bitlist 0) (.bits bits) := by simp [encode]
  rw [henc', henc]
  unfold goBitlistLen
  simp only [List.getLast?_append, List.getLast?_singleton, Option.some_or, List.length_append, natToLE_length,
    List.length_singleton, Nat.add_sub_cancel]
  rw [ofNat_toNat_lt _ hd, log2_eq hlo hhi]
  omega

theorem clearBit_top (d r : Nat) (hd : d < 256) (hlo : 2 ^ r ≤ d) (hhi : d < 2 ^ (r + 1)) :
    clearBit (UInt8.ofNat d) r = UInt8.ofNat (d - 2 ^ r) := by
  unfold clearBit
  rw [ofNat_toNat_lt d hd]
  have h2 : 0 < 2 ^ r := Nat.pow_pos (by omega)
  have : d / 2 ^ r = 1 := by
    rw [Nat.pow_succ] at hhi
    apply Nat.div_eq_of_lt_le <;> omega
  rw [this]; simp

theorem bitlistPayload_encode (lim : Nat) (bits : List Bool) :
    goBitlistPayload (encode (.bitlist lim) (.bits bits)) = natToLE ((bits.length + 7) / 8) (bitsToNat bits) := by
  obtain ⟨henc, hd, hlo, hhi, hlow⟩ := bitlist_encoding_shape bits
  have hlen := bitlistLen_encode lim bits
  have henc' : encode (.bitlist lim) (.bits bits) = encode (.bitlist 0) (.bits bits) := by simp [encode]
  unfold goBitlistPayload
  simp only [hlen]
  rw [henc', henc]
  have hq : (natToLE (bits.length / 8) (bitsToNat bits)).length = bits.length / 8 := natToLE_length _ _
  by_cases hr : bits.length % 8 = 0
  · simp only [hr, ↓reduceIte, List.take_left' hq]
    congr 1; omega
  · simp only [hr, ↓reduceIte, List.take_left' hq]
    have hk : (bits.length + 7) / 8 = bits.length / 8 + 1 := by omega
    rw [hk, natToLE_succ_snoc]
    congr 2
    have hget : (natToLE (bits.length / 8) (bitsToNat bits) ++
        [UInt8.ofNat (bitsToNat bits / 256 ^ (bits.length / 8) + 2 ^ (bits.length % 8))]).getD (bits.length / 8) 0
        = UInt8.ofNat (bitsToNat bits / 256 ^ (bits.length / 8) + 2 ^ (bits.length % 8)) := by
      rw [List.getD_eq_getElem?_getD, List.getElem?_append_right (by rw [hq]; exact Nat.le_refl _), hq]
      simp
    rw [hget, clearBit_top _ _ hd hlo hhi, Nat.add_sub_cancel]
    congr 1
    rw [Nat.mod_eq_of_lt]
    omega

/-- **ztyp's `BitListHTR` on the raw bitlist is `hash_tree_root` of `Bitlist[limit]`.** -/
theorem bitListRoot_spec (H : Hash2) (lim : Nat) (bits : List Bool) :
    goBitListRoot H lim (encode (.bitlist lim) (.bits bits)) = htr H (.bitlist lim) (.bits bits) := by
  simp only [goBitListRoot, htr, bitlistLen_encode, bitlistPayload_encode]

/-! ### `Uint64ListHTR` / `Uint64VectorHTR`: four little-endian items per chunk is `pack` of the serialization -/

theorem flatMap_drop_const {α : Type} (f : α → Bytes) (s : Nat) (hf : ∀ a, (f a).length = s) :
    ∀ (vs : List α) (k : Nat), (vs.flatMap f).drop (s * k) = (vs.drop k).flatMap f
  | [], k => by simp
  | v :: vs, 0 => by simp
  | v :: vs, k + 1 => by
    have : s * (k + 1) = (f v).length + s * k := by rw [hf v, Nat.mul_succ, Nat.add_comm]
    simp only [List.flatMap_cons, List.drop_succ_cons, this, ← List.drop_drop, List.drop_left]
    exact flatMap_drop_const f s hf vs k

theorem flatMap_take_const {α : Type} (f : α → Bytes) (s : Nat) (hf : ∀ a, (f a).length = s) :
    ∀ (vs : List α) (k : Nat), (vs.flatMap f).take (s * k) = (vs.take k).flatMap f
  | [], k => by simp
  | v :: vs, 0 => by simp
  | v :: vs, k + 1 => by
    have : s * (k + 1) = (f v).length + s * k := by rw [hf v, Nat.mul_succ, Nat.add_comm]
    simp only [List.flatMap_cons, List.take_succ_cons, this, List.take_length_add_append]
    rw [flatMap_take_const f s hf vs k]

theorem uint64Chunks_eq_pack (vals : List Nat) : goUint64Chunks vals = pack (vals.flatMap (natToLE 8)) := by
  have hlen : (vals.flatMap (natToLE 8)).length = 8 * vals.length := by
    induction vals with
    | nil => rfl
    | cons v vs ih => simp only [List.flatMap_cons, List.length_append, natToLE_length, ih, List.length_cons]; omega
  apply List.ext_getElem
  · simp only [goUint64Chunks, List.length_map, List.length_range, pack_length, hlen]; omega
  · intro i h1 h2
    simp only [goUint64Chunks, List.length_map, List.length_range] at h1
    simp only [goUint64Chunks, List.getElem_map, List.getElem_range, pack]
    rw [packN_getElem _ _ i (by rw [hlen]; omega)]
    unfold goUint64Chunk
    congr 1
    have h8 : ∀ a, (natToLE 8 a).length = 8 := fun a => natToLE_length 8 a
    have e1 : 32 * i = 8 * (4 * i) := by omega
    have e2 : (32 : Nat) = 8 * 4 := rfl
    rw [e1, flatMap_drop_const (natToLE 8) 8 h8 vals (4 * i)]
    conv => rhs; rw [e2, flatMap_take_const (natToLE 8) 8 h8 _ 4]

theorem encode_uint64_seq (ns : List Nat) : ((ns.map Val.num).map (encode (.uint 8))).flatten = ns.flatMap (natToLE 8) := by
  induction ns with
  | nil => rfl
  | cons n ns ih => simp only [List.map_cons, List.flatten_cons, List.flatMap_cons, encode, ih]

theorem uint64ListRoot_spec (H : Hash2) (lim : Nat) (ns : List Nat) :
    goUint64ListRoot H lim ns = htr H (.list (.uint 8) lim) (.seq (ns.map .num)) := by
  simp only [goUint64ListRoot, htr, Ty.isBasic, if_true, uint64Chunks_eq_pack, encode_uint64_seq, List.length_map,
    Ty.fixedLen, Ty.fixedLen?, Option.getD_some, chunkCount_uint64]

theorem uint64VectorRoot_spec (H : Hash2) (n : Nat) (ns : List Nat) :
    goUint64VectorRoot H n ns = htr H (.vector (.uint 8) n) (.seq (ns.map .num)) := by
  simp only [goUint64VectorRoot, htr, Ty.isBasic, if_true, uint64Chunks_eq_pack, encode_uint64_seq,
    Ty.fixedLen, Ty.fixedLen?, Option.getD_some, chunkCount_uint64]

end Zrnt.Proofs.SSZ
