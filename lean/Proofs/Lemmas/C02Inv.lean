import Proofs.Lemmas.C02WF
import Zrnt.Beacon.Spec.SlotsPure
/-! The invariant `Q` carried through `process_slots`, and its preservation by `process_slot`, every stage of
`process_epoch`, the slot increment and the fork upgrades. -/
namespace Zrnt.Proofs.Lemmas
open Zrnt.Beacon Zrnt.Beacon.Spec

/-- The invariant carried through `process_slots` (everything the composed theorems need of a state), relative to the
epoch `cur`, the registry size `N`, the exit-queue budget `C` and the slot. -/
structure Q (cfg : Config) (C N cur : Nat) (s : State) : Prop where
  wf : WF s.validators
  budget : qmax cfg cur s.validators + farCount s.validators ≤ C
  vlen : s.validators.length = N
  blen : s.balances.length = N
  bits : s.justification_bits.length = 4
  pj : s.previous_justified_checkpoint.epoch ≤ cur
  cj : s.current_justified_checkpoint.epoch ≤ cur
  fin : s.finalized_checkpoint.epoch ≤ cur
  plen : s.fork ≠ .phase0 → s.current_epoch_participation.length = N
  srlen : s.state_roots.length = cfg.SLOTS_PER_HISTORICAL_ROOT
  brlen : s.block_roots.length = cfg.SLOTS_PER_HISTORICAL_ROOT

theorem weigh_bits (prev cur : Nat) (f : FFG) (total pt ct : Nat) (pr cr : Bytes) (hb : f.justification_bits.length = 4) :
    (weigh_justification_and_finalization_pure prev cur f total pt ct pr cr).justification_bits.length = 4 := by
  unfold weigh_justification_and_finalization_pure
  simp only [Id.run, pure, bind]
  by_cases c1 : pt * 3 ≥ total * 2 <;> by_cases c2 : ct * 3 ≥ total * 2 <;> simp only [c1, c2, ↓reduceIte] <;>
    (repeat' split) <;> simp [JUSTIFICATION_BITS_LENGTH, hb]

theorem weigh_pj (prev cur : Nat) (f : FFG) (total pt ct : Nat) (pr cr : Bytes)
    (h3 : f.current_justified_checkpoint.epoch ≤ cur) :
    (weigh_justification_and_finalization_pure prev cur f total pt ct pr cr).previous_justified_checkpoint.epoch ≤ cur := by
  unfold weigh_justification_and_finalization_pure
  simp only [Id.run, pure, bind]
  by_cases c1 : pt * 3 ≥ total * 2 <;> by_cases c2 : ct * 3 ≥ total * 2 <;> simp only [c1, c2, ↓reduceIte] <;>
    (repeat' split) <;> exact h3

theorem weigh_cj (prev cur : Nat) (f : FFG) (total pt ct : Nat) (pr cr : Bytes) (hprev : prev ≤ cur)
    (h3 : f.current_justified_checkpoint.epoch ≤ cur) :
    (weigh_justification_and_finalization_pure prev cur f total pt ct pr cr).current_justified_checkpoint.epoch ≤ cur := by
  unfold weigh_justification_and_finalization_pure
  simp only [Id.run, pure, bind]
  by_cases c1 : pt * 3 ≥ total * 2 <;> by_cases c2 : ct * 3 ≥ total * 2 <;> simp only [c1, c2, ↓reduceIte] <;>
    (repeat' split) <;> first | exact h3 | exact hprev | exact Nat.le_refl _

theorem weigh_fin (prev cur : Nat) (f : FFG) (total pt ct : Nat) (pr cr : Bytes)
    (h1 : f.finalized_checkpoint.epoch ≤ cur) (h2 : f.previous_justified_checkpoint.epoch ≤ cur)
    (h3 : f.current_justified_checkpoint.epoch ≤ cur) :
    (weigh_justification_and_finalization_pure prev cur f total pt ct pr cr).finalized_checkpoint.epoch ≤ cur := by
  unfold weigh_justification_and_finalization_pure
  simp only [Id.run, pure, bind]
  by_cases c1 : pt * 3 ≥ total * 2 <;> by_cases c2 : ct * 3 ≥ total * 2 <;> simp only [c1, c2, ↓reduceIte] <;>
    (repeat' split) <;> first | exact h1 | exact h2 | exact h3

theorem Q_justification (cfg : Config) (inp : EpochInputs) (C N prev cur : Nat) (s : State) (hprev : prev ≤ cur)
    (h : Q cfg C N cur s) : Q cfg C N cur (justification_stage cfg inp prev cur s) := by
  unfold justification_stage
  split
  · exact h
  · exact { wf := h.wf, budget := h.budget, vlen := h.vlen, blen := h.blen,
            bits := weigh_bits prev cur (ffgOf s) _ _ _ _ _ h.bits,
            pj := weigh_pj prev cur (ffgOf s) _ _ _ _ _ h.cj,
            cj := weigh_cj prev cur (ffgOf s) _ _ _ _ _ hprev h.cj,
            fin := weigh_fin prev cur (ffgOf s) _ _ _ _ _ h.fin h.pj h.cj,
            plen := h.plen, srlen := h.srlen, brlen := h.brlen }

theorem Q_inactivity (cfg : Config) (C N prev cur : Nat) (s : State) (h : Q cfg C N cur s) :
    Q cfg C N cur (inactivity_stage cfg prev cur s) := by
  unfold inactivity_stage
  split
  · exact h
  · exact { wf := h.wf, budget := h.budget, vlen := h.vlen, blen := h.blen, bits := h.bits, pj := h.pj, cj := h.cj,
            fin := h.fin, plen := h.plen, srlen := h.srlen, brlen := h.brlen }

theorem apply_deltas_pure_length' (n : Nat) (balances : List Nat) (d : Deltas) :
    (apply_deltas_pure n balances d).length = balances.length := by
  unfold apply_deltas_pure
  refine foldl_preserves (fun (b : List Nat) => b.length = balances.length) _ _ _ rfl ?_
  intro b i hb
  cases b[i]? <;> simp [hb]

theorem foldl_apply_deltas_length' (n : Nat) (ds : List Deltas) (balances : List Nat) :
    (ds.foldl (apply_deltas_pure n) balances).length = balances.length := by
  induction ds generalizing balances with
  | nil => rfl
  | cons d ds ih => simp only [List.foldl_cons]; rw [ih, apply_deltas_pure_length']

theorem Q_rewards (cfg : Config) (inp : EpochInputs) (C N prev cur : Nat) (s : State) (h : Q cfg C N cur s) :
    Q cfg C N cur (rewards_stage cfg inp prev cur s) := by
  unfold rewards_stage
  split
  · exact h
  · split
    · exact { wf := h.wf, budget := h.budget, vlen := h.vlen,
              blen := by simp only [process_rewards_and_penalties_phase0_pure, apply_deltas_pure_length']; exact h.blen,
              bits := h.bits, pj := h.pj, cj := h.cj, fin := h.fin, plen := h.plen, srlen := h.srlen, brlen := h.brlen }
    · exact { wf := h.wf, budget := h.budget, vlen := h.vlen,
              blen := by simp only [process_rewards_and_penalties_altair_pure, foldl_apply_deltas_length']; exact h.blen,
              bits := h.bits, pj := h.pj, cj := h.cj, fin := h.fin, plen := h.plen, srlen := h.srlen, brlen := h.brlen }

theorem registry_length' (cfg : Config) (cur fin limit : Nat) (vals : List Validator) :
    (registry_activations_pure cfg cur fin limit (registry_eligibility_and_ejections_pure cfg cur vals)).length = vals.length := by
  have h1 := registry_activations_map_same (fun _ => ()) cfg cur fin limit (registry_eligibility_and_ejections_pure cfg cur vals) (fun _ _ => rfl)
  have h2 := registry_first_loop_map_same (fun _ => ()) cfg cur vals (fun _ _ _ => rfl) (fun _ _ => rfl)
  have := congrArg List.length (h1.trans h2)
  simpa using this

theorem Q_registry (cfg : Config) (C N cur : Nat) (s : State) (h : Q cfg C N cur s) (hC : C < FAR_FUTURE_EPOCH)
    (hcae : compute_activation_exit_epoch cfg cur ≤ FAR_FUTURE_EPOCH) :
    Q cfg C N cur (registry_stage cfg cur s) := by
  unfold registry_stage
  simp only []
  have hex := registry_activations_map_same (·.exit_epoch) cfg cur s.finalized_checkpoint.epoch
    (if s.fork ≥ .deneb then min cfg.MAX_PER_EPOCH_ACTIVATION_CHURN_LIMIT
        (churn_limit_of cfg (registry_eligibility_and_ejections_pure cfg cur s.validators) cur)
      else churn_limit_of cfg (registry_eligibility_and_ejections_pure cfg cur s.validators) cur)
    (registry_eligibility_and_ejections_pure cfg cur s.validators) (fun _ _ => rfl)
  exact { wf := WF_activations cfg cur _ _ _ (WF_first_loop cfg cur s.validators h.wf) hcae,
          budget := by
            show qmax cfg cur _ + farCount _ ≤ C
            rw [qmax_congr cfg cur _ _ hex]
            unfold farCount
            rw [(exits_congr _ _ hex).2]
            exact budget_first_loop cfg cur C s.validators h.budget hC,
          vlen := by show List.length _ = N; rw [registry_length']; exact h.vlen,
          blen := h.blen, bits := h.bits, pj := h.pj, cj := h.cj, fin := h.fin,
          plen := h.plen, srlen := h.srlen, brlen := h.brlen }

theorem Q_slashings (cfg : Config) (C N cur : Nat) (s : State) (h : Q cfg C N cur s) :
    Q cfg C N cur (slashings_stage cfg cur s) := by
  unfold slashings_stage
  exact { wf := h.wf, budget := h.budget, vlen := h.vlen,
          blen := by
            show List.length (_ ++ _) = N
            unfold process_slashings_pure
            simp only [List.length_append, List.length_map, List.length_zip, List.length_drop]
            have := h.vlen; have := h.blen; omega,
          bits := h.bits, pj := h.pj, cj := h.cj, fin := h.fin, plen := h.plen, srlen := h.srlen, brlen := h.brlen }

theorem effbal_map_same {β : Type} (f : Validator → β) (cfg : Config) (vals : List Validator) (balances : List Nat)
    (hlen : vals.length ≤ balances.length) (hf : ∀ v e, f { v with effective_balance := e } = f v) :
    (process_effective_balance_updates_pure cfg vals balances).map f = vals.map f := by
  unfold process_effective_balance_updates_pure
  induction vals generalizing balances with
  | nil => simp
  | cons v vs ih =>
    cases balances with
    | nil => simp at hlen
    | cons b bs =>
      simp only [List.length_cons, Nat.add_le_add_iff_right] at hlen
      simp only [List.zip_cons_cons, List.map_cons, List.cons.injEq]
      exact ⟨hf v _, ih bs hlen⟩

theorem Q_effbal (cfg : Config) (C N cur : Nat) (s : State) (h : Q cfg C N cur s) :
    Q cfg C N cur (effective_balance_stage cfg s) := by
  unfold effective_balance_stage
  have hle : s.validators.length ≤ s.balances.length := by rw [h.vlen, h.blen]; exact Nat.le_refl _
  have hex := effbal_map_same (·.exit_epoch) cfg s.validators s.balances hle (fun _ _ => rfl)
  exact { wf := WF_effective_balance cfg s.validators s.balances h.wf,
          budget := by
            show qmax cfg cur _ + farCount _ ≤ C
            rw [qmax_congr cfg cur _ _ hex]
            unfold farCount
            rw [(exits_congr _ _ hex).2]
            exact h.budget,
          vlen := by
            have := congrArg List.length hex
            simp only [List.length_map] at this
            show List.length _ = N
            rw [this]; exact h.vlen,
          blen := h.blen, bits := h.bits, pj := h.pj, cj := h.cj, fin := h.fin,
          plen := h.plen, srlen := h.srlen, brlen := h.brlen }

theorem Q_simple (cfg : Config) (C N cur : Nat) (s : State) (h : Q cfg C N cur s) :
    Q cfg C N cur (eth1_stage cfg cur s) ∧ Q cfg C N cur (slashings_reset_stage cfg cur s) ∧
    Q cfg C N cur (randao_stage cfg cur s) := by
  refine ⟨?_, ?_, ?_⟩ <;>
    exact { wf := h.wf, budget := h.budget, vlen := h.vlen, blen := h.blen, bits := h.bits, pj := h.pj, cj := h.cj,
            fin := h.fin, plen := h.plen, srlen := h.srlen, brlen := h.brlen }

theorem Q_historical (cfg : Config) (C N cur : Nat) (s : State) (h : Q cfg C N cur s) :
    Q cfg C N cur (historical_stage cfg cur s) := by
  unfold historical_stage
  split <;>
    exact { wf := h.wf, budget := h.budget, vlen := h.vlen, blen := h.blen, bits := h.bits, pj := h.pj, cj := h.cj,
            fin := h.fin, plen := h.plen, srlen := h.srlen, brlen := h.brlen }

theorem Q_participation (cfg : Config) (C N cur : Nat) (s : State) (h : Q cfg C N cur s) :
    Q cfg C N cur (participation_stage s) := by
  unfold participation_stage
  split
  · rename_i hf
    exact { wf := h.wf, budget := h.budget, vlen := h.vlen, blen := h.blen, bits := h.bits, pj := h.pj, cj := h.cj,
            fin := h.fin, plen := fun hne => absurd hf hne, srlen := h.srlen, brlen := h.brlen }
  · exact { wf := h.wf, budget := h.budget, vlen := h.vlen, blen := h.blen, bits := h.bits, pj := h.pj, cj := h.cj,
            fin := h.fin,
            plen := fun _ => by
              show List.length (process_participation_flag_updates_pure s.validators.length s.current_epoch_participation).2 = N
              simp [process_participation_flag_updates_pure, h.vlen],
            srlen := h.srlen, brlen := h.brlen }

theorem Q_sync (cfg : Config) (inp : EpochInputs) (C N cur : Nat) (s : State) (h : Q cfg C N cur s) :
    Q cfg C N cur (sync_stage cfg inp cur s) := by
  unfold sync_stage
  split
  · exact h
  · exact { wf := h.wf, budget := h.budget, vlen := h.vlen, blen := h.blen, bits := h.bits, pj := h.pj, cj := h.cj,
            fin := h.fin, plen := h.plen, srlen := h.srlen, brlen := h.brlen }

/-- the whole epoch transition keeps the invariant -/
theorem Q_process_epoch (cfg : Config) (inp : EpochInputs) (C N : Nat) (s : State)
    (h : Q cfg C N (get_current_epoch cfg s) s) (hC : C < FAR_FUTURE_EPOCH)
    (hcae : compute_activation_exit_epoch cfg (get_current_epoch cfg s) ≤ FAR_FUTURE_EPOCH) :
    Q cfg C N (get_current_epoch cfg s) (process_epoch_pure cfg inp s) := by
  unfold process_epoch_pure
  simp only []
  have hprev : get_previous_epoch cfg s ≤ get_current_epoch cfg s := by
    unfold get_previous_epoch; simp only []; split <;> omega
  apply Q_sync
  apply Q_participation
  apply Q_historical
  apply (Q_simple cfg C N _ _ _).2.2
  apply (Q_simple cfg C N _ _ _).2.1
  apply Q_effbal
  apply (Q_simple cfg C N _ _ _).1
  apply Q_slashings
  apply Q_registry _ _ _ _ _ _ hC hcae
  apply Q_rewards
  apply Q_inactivity
  exact Q_justification cfg inp C N _ _ s hprev h

theorem Q_process_slot (cfg : Config) (root : Bytes) (C N cur : Nat) (s : State) (h : Q cfg C N cur s) :
    Q cfg C N cur (process_slot_pure cfg root s) := by
  unfold process_slot_pure
  simp only []
  split <;>
    exact { wf := h.wf, budget := h.budget, vlen := h.vlen, blen := h.blen, bits := h.bits, pj := h.pj, cj := h.cj,
            fin := h.fin, plen := h.plen,
            srlen := by show List.length (List.set _ _ _) = _; rw [List.length_set]; exact h.srlen,
            brlen := by show List.length (List.set _ _ _) = _; rw [List.length_set]; exact h.brlen }

theorem qmax_mono (cfg : Config) (cur cur' : Nat) (vals : List Validator) (hle : cur ≤ cur') :
    qmax cfg cur' vals ≤ qmax cfg cur vals + (cur' - cur) := by
  rw [qmax_eq, qmax_eq]
  unfold compute_activation_exit_epoch
  omega

/-- moving to a later epoch costs at most the number of epochs moved -/
theorem Q_advance (cfg : Config) (C N cur cur' : Nat) (s : State) (h : Q cfg C N cur s) (hle : cur ≤ cur') (slot' : Nat) :
    Q cfg (C + (cur' - cur)) N cur' { s with slot := slot' } := by
  have := qmax_mono cfg cur cur' s.validators hle
  exact { wf := h.wf, budget := by show qmax cfg cur' s.validators + farCount s.validators ≤ _; have := h.budget; omega,
          vlen := h.vlen, blen := h.blen, bits := h.bits,
          pj := Nat.le_trans h.pj hle, cj := Nat.le_trans h.cj hle, fin := Nat.le_trans h.fin hle,
          plen := h.plen, srlen := h.srlen, brlen := h.brlen }

theorem translate_length (cfg : Config) (atts : List FlagAtt) (part : List Nat) :
    (translate_participation_pure cfg atts part).length = part.length := by
  unfold translate_participation_pure
  refine foldl_preserves (fun (p : List Nat) => p.length = part.length) _ _ _ rfl ?_
  intro p a hp
  refine foldl_preserves (fun (q : List Nat) => q.length = part.length) _ _ _ hp ?_
  intro q i hq
  refine foldl_preserves (fun (r : List Nat) => r.length = part.length) _ _ _ hq ?_
  intro r f hr
  cases r[i]? <;> simp [hr]

theorem Q_upgrade (cfg : Config) (inp : UpgradeInputs) (C N cur : Nat) (s : State) (h : Q cfg C N cur s) :
    Q cfg C N cur (upgrade_maybe_pure cfg inp s) := by
  have ha : ∀ x, Q cfg C N cur x → Q cfg C N cur (upgrade_to_altair_pure cfg inp x) := fun x hx =>
    { wf := hx.wf, budget := hx.budget, vlen := hx.vlen, blen := hx.blen, bits := hx.bits, pj := hx.pj, cj := hx.cj,
      fin := hx.fin, plen := fun _ => by
        show List.length (List.replicate x.validators.length 0) = N
        simp [hx.vlen],
      srlen := hx.srlen, brlen := hx.brlen }
  have hb : ∀ x, x.fork ≠ .phase0 → Q cfg C N cur x → Q cfg C N cur (upgrade_to_bellatrix_pure cfg x) := fun x hf hx =>
    { wf := hx.wf, budget := hx.budget, vlen := hx.vlen, blen := hx.blen, bits := hx.bits, pj := hx.pj, cj := hx.cj,
      fin := hx.fin, plen := fun _ => hx.plen hf, srlen := hx.srlen, brlen := hx.brlen }
  have hc : ∀ x, x.fork ≠ .phase0 → Q cfg C N cur x → Q cfg C N cur (upgrade_to_capella_pure cfg x) := fun x hf hx =>
    { wf := hx.wf, budget := hx.budget, vlen := hx.vlen, blen := hx.blen, bits := hx.bits, pj := hx.pj, cj := hx.cj,
      fin := hx.fin, plen := fun _ => hx.plen hf, srlen := hx.srlen, brlen := hx.brlen }
  have hd : ∀ x, x.fork ≠ .phase0 → Q cfg C N cur x → Q cfg C N cur (upgrade_to_deneb_pure cfg x) := fun x hf hx =>
    { wf := hx.wf, budget := hx.budget, vlen := hx.vlen, blen := hx.blen, bits := hx.bits, pj := hx.pj, cj := hx.cj,
      fin := hx.fin, plen := fun _ => hx.plen hf, srlen := hx.srlen, brlen := hx.brlen }
  unfold upgrade_maybe_pure
  simp only []
  -- the four steps, each guarded by the type of the state
  have s1 : Q cfg C N cur (if (s.fork = .phase0 && at_fork_epoch cfg cfg.ALTAIR_FORK_EPOCH s) = true then
      upgrade_to_altair_pure cfg inp s else s) := by split; exact ha s h; exact h
  generalize (if (s.fork = .phase0 && at_fork_epoch cfg cfg.ALTAIR_FORK_EPOCH s) = true then
      upgrade_to_altair_pure cfg inp s else s) = x1 at s1 ⊢
  have s2 : Q cfg C N cur (if (x1.fork = .altair && at_fork_epoch cfg cfg.BELLATRIX_FORK_EPOCH x1) = true then
      upgrade_to_bellatrix_pure cfg x1 else x1) := by
    split
    · rename_i hg
      simp only [Bool.and_eq_true, decide_eq_true_eq] at hg
      exact hb x1 (by rw [hg.1]; decide) s1
    · exact s1
  generalize (if (x1.fork = .altair && at_fork_epoch cfg cfg.BELLATRIX_FORK_EPOCH x1) = true then
      upgrade_to_bellatrix_pure cfg x1 else x1) = x2 at s2 ⊢
  have s3 : Q cfg C N cur (if (x2.fork = .bellatrix && at_fork_epoch cfg cfg.CAPELLA_FORK_EPOCH x2) = true then
      upgrade_to_capella_pure cfg x2 else x2) := by
    split
    · rename_i hg
      simp only [Bool.and_eq_true, decide_eq_true_eq] at hg
      exact hc x2 (by rw [hg.1]; decide) s2
    · exact s2
  generalize (if (x2.fork = .bellatrix && at_fork_epoch cfg cfg.CAPELLA_FORK_EPOCH x2) = true then
      upgrade_to_capella_pure cfg x2 else x2) = x3 at s3 ⊢
  split
  · rename_i hg
    simp only [Bool.and_eq_true, decide_eq_true_eq] at hg
    exact hd x3 (by rw [hg.1]; decide) s3
  · exact s3

end Zrnt.Proofs.Lemmas
