import Proofs.Lemmas.ForkChoicePrune
import Proofs.Lemmas.ForkChoiceInv2Base
/-!
# Fork choice: the bundled invariants survive `ProtoArray.OnPrune`

`ForkChoicePrune` characterises the outcome of the compacting prune and shows that it keeps the array well formed
(`onPrune_wf_of_chain`). Here the rest of `PInv` follows, for every outcome of `pr.onPrune root slot` (anchor
unknown, sink failure, nothing to drop, effective prune):

* `chain_onPrune`: the chain structure `Chain`;
* `noZero_onPrune`: Go's zero `NodeRef` stays outside the index map;
* `weights_onPrune`: `WeightsAre` — the weight of every node left is still the sum of the balances of the
  validators whose applied vote lies in its (new) fork-choice subtree;
* `pinv_onPrune`: the bundle `PInv`.

Route, for an effective prune (`Prune.pruned pr keep l`, `keep = keepFlags 0 a slot pr.nodes []`, `a` the position
of the anchor; the setting is `PruneInv.Ctx`):

* `reparent_fires`/`pruned_rehang`: the last loop of `OnPrune` does re-hang a block that passes its tests
  (the converse of `Prune.reparent_parent`).
* `Ctx.kept_cases`, `Ctx.lowest_kept`: a node that stays and is not the anchor is an empty-slot node whose parent
  stays or a block whose transition parent stays; the lowest node left of a root is the anchor or the root's old
  first node. With these the four map-keyed readings of `Chain` hold for the pruned array (`Ctx.rooted_pruned`,
  `first_min_pruned`, `slot_node_pruned`, `first_node_pruned`), hence `Ctx.chain_pruned` by `Chain.of_keyed`. A
  block whose fork-choice parent went away hangs from the anchor afterwards, which is then the first node left of
  its parent root, at a lower slot.
* weights: `reh pr keep l j i` says that the old position `i` stays, loses its fork-choice parent and hangs from
  the new position `j`. `reh_target`: then `j` is the anchor's new position. `reach_pruned_iff`: new ancestry =
  old ancestry, or old ancestry below a node re-hung from the ancestor. `reh_disjoint`, `reh_disjoint_target`: the
  old subtrees of the re-hung nodes and of the node they hang from are pairwise disjoint (the fork-choice children
  of what stays stay, `keep_closed_of_chain`). `applied_pruned` turns this into a statement per vote tracker,
  `addedW_total`/`sumR_eq` re-index `Prune.addedW` over the old positions and turn it into a sum of balances
  (`wsumP`, `wsumP_or`), and `Ctx.weights_pruned` adds up.
-/
namespace Zrnt.ForkChoice
namespace PruneInv
open Prune

/-! ## the last loop of `OnPrune` does re-hang a block that qualifies -/

/-- the step fires when every test of the loop body passes -/
theorem rpStep_fire (I : List (NodeRef × Idx)) (B : List (Root × Nat)) (i : Nat) (ns : List Node) (node : Node)
    (ps q : Nat) (parent : Node) (f1 : node.fparent = none) (f2 : node.parentRoot ≠ node.ref.root)
    (f3 : aGet B node.parentRoot = some ps) (f4 : ps < node.ref.slot)
    (f5 : aGet I ⟨ps, node.parentRoot⟩ = some q) (f6 : q < i) (f7 : ns[q]? = some parent) :
    rpStep I B i ns node =
      (ns.set i { node with fparent := some q }).set q { parent with weight := parent.weight + node.weight } := by
  unfold rpStep
  have c1 : ¬ ((node.fparent.isSome || decide (node.parentRoot = node.ref.root)) = true) := by
    simp [f1, f2]
  rw [if_neg c1, f3]
  simp only
  rw [if_pos f4, f5]
  simp only [Option.getD_some, Nat.sub_zero]
  rw [if_pos ⟨Nat.zero_le _, f6⟩, f7]

/-- a step leaves the fork-choice parents of the other positions alone -/
theorem rpStep_fpar_ne (I : List (NodeRef × Idx)) (B : List (Root × Nat)) (i : Nat) (ns : List Node) (node : Node)
    (c : Nat) (hc : c ≠ i) : fpar (rpStep I B i ns node) c = fpar ns c := by
  rcases rpStep_cases I B i ns node with e | ⟨ps, q, parent, _, _, _, _, _, f6, f7, e⟩
  · rw [e]
  · rw [e]
    have hqi : q ≠ i := by omega
    refine (fpar_set_same _ q parent { parent with weight := parent.weight + node.weight } ?_ rfl c).trans
      (fpar_set_ne ns i _ c hc)
    rw [List.getElem?_set_ne (fun e => hqi e.symm)]; exact f7

/-- the loop re-hangs the node at position `j` when it qualifies -/
theorem reparent_fires_gen (I : List (NodeRef × Idx)) (B : List (Root × Nat)) (ns0 : List Node) {j : Nat} {n0 : Node}
    {ps q : Nat} (hn0 : ns0[j]? = some n0) (f1 : n0.fparent = none) (f2 : n0.parentRoot ≠ n0.ref.root)
    (f3 : aGet B n0.parentRoot = some ps) (f4 : ps < n0.ref.slot)
    (f5 : aGet I ⟨ps, n0.parentRoot⟩ = some q) (f6 : q < j) :
    ∀ (todo i : Nat) (ns : List Node), RInv I B ns0 i ns → (i ≤ j ∨ fpar ns j = some q) → j < i + todo →
      fpar (PA.reparent 0 I B todo i ns) j = some q := by
  intro todo
  induction todo with
  | zero =>
    intro i ns _ hor hlt
    rw [reparent_zero]
    rcases hor with hle | hf
    · omega
    · exact hf
  | succ t ih =>
    intro i ns hinv hor hlt
    have hjl : j < ns.length := by rw [hinv.len]; exact (List.getElem?_eq_some_iff.1 hn0).1
    cases hn : ns[i]? with
    | none =>
      rw [reparent_none _ _ _ _ _ hn]
      have hil : ns.length ≤ i := by simpa using hn
      rcases hor with hle | hf
      · omega
      · exact hf
    | some node =>
      have hil : i < ns.length := (List.getElem?_eq_some_iff.1 hn).1
      rw [reparent_succ _ _ _ _ _ node hn]
      refine ih (i + 1) _ (hinv.step node hn) ?_ (by omega)
      by_cases hij : i = j
      · right
        subst hij
        obtain ⟨n, h1, h2, h3, _⟩ := hinv.node i n0 hn0
        rw [hn] at h1; cases h1
        have hq : q < ns.length := by omega
        rw [rpStep_fire I B i ns node ps q ns[q]
          (by rw [h3 (Nat.le_refl _)]; exact f1)
          (by rw [h2.parentRoot, h2.ref]; exact f2)
          (by rw [h2.parentRoot]; exact f3)
          (by rw [h2.ref]; exact f4)
          (by rw [h2.parentRoot]; exact f5) f6 (List.getElem?_eq_getElem hq)]
        rw [fpar_set_ne _ q _ i (by omega), fpar_set_self ns i _ hil]
      · rcases hor with hle | hf
        · left; omega
        · right
          rw [rpStep_fpar_ne I B i ns node j (fun e => hij e.symm)]; exact hf

theorem reparent_fires (I : List (NodeRef × Idx)) (B : List (Root × Nat)) (ns0 : List Node) {j : Nat} {n0 : Node}
    {ps q : Nat} (hn0 : ns0[j]? = some n0) (f1 : n0.fparent = none) (f2 : n0.parentRoot ≠ n0.ref.root)
    (f3 : aGet B n0.parentRoot = some ps) (f4 : ps < n0.ref.slot)
    (f5 : aGet I ⟨ps, n0.parentRoot⟩ = some q) (f6 : q < j) :
    fpar (PA.reparent 0 I B ns0.length 0 ns0) j = some q :=
  reparent_fires_gen I B ns0 hn0 f1 f2 f3 f4 f5 f6 ns0.length 0 ns0 (RInv.init I B ns0) (Or.inl (Nat.zero_le _))
    (by have := (List.getElem?_eq_some_iff.1 hn0).1; omega)

/-- in the pruned array: a block that stays, whose fork-choice parent went away, hangs from the first node left of
its parent root if that one sits at a lower slot and an earlier position -/
theorem pruned_rehang {pr : PA} (keep : List Bool) (l : List (NodeRef × Bool × Bool)) {i0 : Nat} {n0 : Node}
    {ps q : Nat} (hn0 : pr.nodes[i0]? = some n0) (hk : keep.getD i0 false = true)
    (hf : PA.renumber 0 keep n0.fparent = none) (hne : n0.parentRoot ≠ n0.ref.root)
    (hb : aGet (pruned pr keep l).blockSlots n0.parentRoot = some ps) (hlt : ps < n0.ref.slot)
    (hq : aGet (pruned pr keep l).indices ⟨ps, n0.parentRoot⟩ = some q) (hqj : q < PA.newIndex 0 keep i0) :
    fpar (pruned pr keep l).nodes (PA.newIndex 0 keep i0) = some q := by
  rw [pruned_nodes]
  exact reparent_fires _ _ _ (compact_get keep pr.nodes hn0 hk) (by rw [renum_fparent]; exact hf)
    (by rw [renum_parentRoot, renum_ref]; exact hne) (by rw [renum_parentRoot]; exact hb)
    (by rw [renum_ref]; exact hlt) (by rw [renum_parentRoot]; exact hq) hqj

/-! ## the setting of an effective prune -/

/-- a well-formed, chain-structured array whose node `(root, slot)` — the anchor of the prune — sits at position `a` -/
structure Ctx (pr : PA) (root : Root) (slot a : Nat) : Prop where
  h : WF pr
  hc : Chain pr
  ha : aGet pr.indices ⟨slot, root⟩ = some a

section
variable {pr : PA} {root : Root} {slot a : Nat}

local notation "KP" => PA.keepFlags 0 a slot pr.nodes []

theorem Ctx.hl (_X : Ctx pr root slot a) : (KP).length = pr.nodes.length := keep_length pr.nodes a slot

theorem Ctx.closed (X : Ctx pr root slot a) :
    ∀ i c, (KP).getD i false = true → fpar pr.nodes c = some i → (KP).getD c false = true :=
  keep_closed_of_chain pr X.h X.hc root slot a X.ha

theorem Ctx.anchor_node (X : Ctx pr root slot a) : ∃ na, pr.nodes[a]? = some na ∧ na.ref = ⟨slot, root⟩ :=
  X.h.idx_sound _ _ X.ha

theorem Ctx.keep_a (X : Ctx pr root slot a) : (KP).getD a false = true :=
  keep_anchor X.h a slot (X.h.idx_lt X.ha)

theorem Ctx.kept_node (X : Ctx pr root slot a) {i : Nat} (hk : (KP).getD i false = true) :
    ∃ n, pr.nodes[i]? = some n := by
  have hi := getD_true_lt hk
  rw [X.hl] at hi
  exact ⟨pr.nodes[i], List.getElem?_eq_getElem hi⟩

/-- nothing before the anchor stays, so the anchor moves to position 0 -/
theorem Ctx.newIndex_anchor (X : Ctx pr root slot a) : PA.newIndex 0 (KP) a = 0 := by
  rcases Nat.eq_zero_or_pos (PA.newIndex 0 (KP) a) with e | e
  · exact e
  · obtain ⟨i, h1, h2, _⟩ := newIndex_surj_below (KP) a 0 e
    have := keep_ge X.h a slot h2
    omega

/-- a node that stays and is not the anchor, read through the chain structure: an empty-slot node whose parent
stays, or a block whose transition parent stays -/
theorem Ctx.kept_cases (X : Ctx pr root slot a) {i0 : Nat} {n0 : Node} (hk : (KP).getD i0 false = true)
    (hne : i0 ≠ a) (hn0 : pr.nodes[i0]? = some n0) :
    (∃ s0 q, aGet pr.blockSlots n0.ref.root = some s0 ∧ s0 < n0.ref.slot ∧ n0.tparent = some q ∧
      n0.fparent = some q ∧ aGet pr.indices ⟨n0.ref.slot - 1, n0.ref.root⟩ = some q ∧ (KP).getD q false = true) ∨
    (aGet pr.blockSlots n0.ref.root = some n0.ref.slot ∧ n0.parentRoot ≠ n0.ref.root ∧
      ∃ p0 t f, aGet pr.blockSlots n0.parentRoot = some p0 ∧ p0 < n0.ref.slot ∧ n0.tparent = some t ∧
        aGet pr.indices ⟨n0.ref.slot, n0.parentRoot⟩ = some t ∧ (KP).getD t false = true ∧
        ¬ (t = a ∧ n0.ref.slot = slot) ∧ n0.fparent = some f ∧ aGet pr.indices ⟨p0, n0.parentRoot⟩ = some f) := by
  obtain ⟨p, n, hn, ht, hp, hx⟩ := (keep_iff X.h a slot hne).1 hk
  rw [hn0] at hn; cases hn
  obtain ⟨s0, hb, hcase⟩ := X.hc.ok i0 n0 hn0
  rcases hcase with ⟨hlt, q, htq, hfq, hq⟩ | ⟨heq, hcase⟩
  · rw [ht] at htq; cases htq
    exact Or.inl ⟨s0, p, hb, hlt, ht, hfq, hq, hp⟩
  · rcases hcase with ⟨h1, _⟩ | ⟨h1, p0, t, f, h2, h3, h4, h5, h6, h7⟩
    · rw [ht] at h1; cases h1
    · rw [ht] at h4; cases h4
      subst heq
      exact Or.inr ⟨hb, h1, p0, p, f, h2, h3, ht, h5, hp, hx, h6, h7⟩

/-- the lowest node left of a root is the anchor or that root's old first node -/
theorem Ctx.lowest_kept (X : Ctx pr root slot a) (l : List (NodeRef × Bool × Bool)) {P : Root} {ps y : Nat}
    (hb : aGet (pruned pr (KP) l).blockSlots P = some ps) (hy : aGet pr.indices ⟨ps, P⟩ = some y)
    (hk : (KP).getD y false = true) : y = a ∨ aGet pr.blockSlots P = some ps := by
  by_cases hya : y = a
  · exact Or.inl hya
  · right
    obtain ⟨ty, ny, hny, hty, hkt, _⟩ := (keep_iff X.h a slot hya).1 hk
    obtain ⟨n', hn', _, s0, hb0, hcase⟩ := X.hc.key X.h hy
    rw [hny] at hn'; cases hn'
    rcases hcase with ⟨hlt, q, htq, _, hq⟩ | ⟨heq, _⟩
    · rw [hty] at htq; cases htq
      obtain ⟨m, hm, hmr⟩ := X.h.idx_sound _ _ hq
      obtain ⟨s, hs, hle⟩ := pruned_blockSlots_complete (KP) l hm hkt (by rw [hmr]; show (aGet pr.blockSlots P).isSome = true; rw [hb0]; rfl)
      rw [hmr] at hs hle
      have hs' : aGet (pruned pr (KP) l).blockSlots P = some s := hs
      rw [hb] at hs'; cases hs'
      have hle' : ps ≤ ps - 1 := hle
      omega
    · rw [← heq]; exact hb0

/-- the slot of a node that stays, for the rebuilt `blockSlots` -/
theorem Ctx.bs_le (X : Ctx pr root slot a) (l : List (NodeRef × Bool × Bool)) {i : Nat} {n : Node}
    (hn : pr.nodes[i]? = some n) (hk : (KP).getD i false = true) :
    ∃ s, aGet (pruned pr (KP) l).blockSlots n.ref.root = some s ∧ s ≤ n.ref.slot :=
  pruned_blockSlots_complete (KP) l hn hk (X.hc.rooted i n hn)

/-- … read through the index map -/
theorem Ctx.bs_le_key (X : Ctx pr root slot a) (l : List (NodeRef × Bool × Bool)) {r : Root} {s i : Nat}
    (hi : aGet pr.indices ⟨s, r⟩ = some i) (hk : (KP).getD i false = true) :
    ∃ s', aGet (pruned pr (KP) l).blockSlots r = some s' ∧ s' ≤ s := by
  obtain ⟨n, hn, hnr⟩ := X.h.idx_sound _ _ hi
  have := X.bs_le l hn hk
  rw [hnr] at this
  exact this

/-- an entry of the rebuilt `blockSlots` is the slot of a node that stays -/
theorem Ctx.bs_key (X : Ctx pr root slot a) (l : List (NodeRef × Bool × Bool)) {r : Root} {s : Nat}
    (hs : aGet (pruned pr (KP) l).blockSlots r = some s) :
    ∃ i, aGet pr.indices ⟨s, r⟩ = some i ∧ (KP).getD i false = true := by
  obtain ⟨_, i, n, hn, hk, hr⟩ := pruned_blockSlots_sound (KP) X.hl l r s hs
  exact ⟨i, by rw [← hr]; exact X.h.idx_complete i n hn, hk⟩

theorem Ctx.wfN (X : Ctx pr root slot a) (l : List (NodeRef × Bool × Bool)) : WF (pruned pr (KP) l) :=
  wf_pruned X.h (KP) X.hl X.closed l

end

/-! ## the chain structure after an effective prune -/

section
variable {pr : PA} {root : Root} {slot a : Nat}

local notation "KP" => PA.keepFlags 0 a slot pr.nodes []

/-- no orphans -/
theorem Ctx.rooted_pruned (X : Ctx pr root slot a) (l : List (NodeRef × Bool × Bool)) (j : Nat) (n : Node)
    (hn : (pruned pr (KP) l).nodes[j]? = some n) : (aGet (pruned pr (KP) l).blockSlots n.ref.root).isSome = true := by
  obtain ⟨i0, n0, hn0, hk, _, hr⟩ := pruned_node_inv (KP) X.hl l hn
  obtain ⟨s, hs, _⟩ := X.bs_le l hn0 hk
  rw [hr.ref, renum_ref, hs]; rfl

/-- the new first slot of a root is its lowest slot left -/
theorem Ctx.first_min_pruned (X : Ctx pr root slot a) (l : List (NodeRef × Bool × Bool)) (r : Root) (s0 s i : Nat)
    (hb : aGet (pruned pr (KP) l).blockSlots r = some s0) (hi : aGet (pruned pr (KP) l).indices ⟨s, r⟩ = some i) :
    s0 ≤ s := by
  obtain ⟨i0, hi0, hk, _⟩ := (pruned_indices_iff X.h (KP) X.hl l _ _).1 hi
  obtain ⟨s', hs', hle⟩ := X.bs_le_key l hi0 hk
  rw [hb] at hs'; cases hs'; exact hle

/-- the anchor has no parent left -/
theorem Ctx.anchor_pruned (X : Ctx pr root slot a) (l : List (NodeRef × Bool × Bool)) {n0 n : Node}
    (hn0 : pr.nodes[a]? = some n0) (hn : (pruned pr (KP) l).nodes[PA.newIndex 0 (KP) a]? = some n) :
    n.tparent = none ∧ n.fparent = none := by
  have hka := X.keep_a
  obtain ⟨_, _, _, _, ht, _, _⟩ := pruned_node_skel (KP) l hn0 hka hn
  constructor
  · rw [ht]
    cases htp : n0.tparent with
    | none => rfl
    | some p =>
      have hp := X.h.tpar_lt a n0 p hn0 htp
      exact renumber_dropped (KP) (fun hkp => by have := keep_ge X.h a slot hkp; omega)
  · rcases pruned_node_fparent X.h (KP) X.hl l hn0 hka hn with ⟨p, hp, hkp, _⟩ | ⟨_, h2 | ⟨q, _, _, _, hq, _⟩⟩
    · have h1 := X.h.fpar_lt a n0 p hn0 hp
      have h2 := keep_ge X.h a slot hkp
      omega
    · exact h2
    · rw [X.newIndex_anchor] at hq; omega

/-- an empty-slot node left above the new first slot of its root still hangs from the node one slot below -/
theorem Ctx.slot_node_pruned (X : Ctx pr root slot a) (l : List (NodeRef × Bool × Bool)) (r : Root) (s0 s i : Nat)
    (n : Node) (hb : aGet (pruned pr (KP) l).blockSlots r = some s0)
    (hi : aGet (pruned pr (KP) l).indices ⟨s, r⟩ = some i) (hlt : s0 < s)
    (hn : (pruned pr (KP) l).nodes[i]? = some n) :
    ∃ q, n.tparent = some q ∧ n.fparent = some q ∧ aGet (pruned pr (KP) l).indices ⟨s - 1, r⟩ = some q := by
  obtain ⟨i0, hi0, hk, rfl⟩ := (pruned_indices_iff X.h (KP) X.hl l _ _).1 hi
  obtain ⟨n0, hn0, hn0r⟩ := X.h.idx_sound _ _ hi0
  obtain ⟨y, hy, hky⟩ := X.bs_key l hb
  by_cases hia : i0 = a
  · -- the anchor is the lowest node left of its root
    exfalso
    subst hia
    obtain ⟨na, hna, hnar⟩ := X.anchor_node
    rw [hn0] at hna; cases hna
    rw [hn0r] at hnar
    have e1 : s = slot := congrArg NodeRef.slot hnar
    have e2 : r = root := congrArg NodeRef.root hnar
    subst e1; subst e2
    have hya : y = i0 := by
      rcases X.lowest_kept l hb hy hky with e | e
      · exact e
      · obtain ⟨m, hm, hmr⟩ := X.h.idx_sound _ _ hy
        have hreach := (reach_first X.h X.hc i0 n0 y hn0 ⟨s0, by rw [hn0r]; exact e, by rw [hn0r]; exact hy⟩).2
        exact Nat.le_antisymm (hreach.le X.h.tpar_lt2) (keep_ge X.h i0 s hky)
    subst hya
    obtain ⟨m, hm, hmr⟩ := X.h.idx_sound _ _ hy
    rw [hn0] at hm; cases hm
    rw [hn0r] at hmr
    have : s = s0 := congrArg NodeRef.slot hmr
    omega
  · rcases X.kept_cases hk hia hn0 with ⟨s1, q, _, _, htq, hfq, hq, hkq⟩ | ⟨hb1, _⟩
    · rw [hn0r] at hq
      obtain ⟨_, _, _, _, ht, _, _⟩ := pruned_node_skel (KP) l hn0 hk hn
      refine ⟨PA.newIndex 0 (KP) q, ?_, ?_, ?_⟩
      · rw [ht, htq]; exact renumber_kept (KP) hkq
      · rcases pruned_node_fparent X.h (KP) X.hl l hn0 hk hn with ⟨p, hp, _, e⟩ | ⟨e, _⟩
        · rw [hfq] at hp; cases hp; exact e
        · rw [hfq, renumber_kept (KP) hkq] at e; cases e
      · exact (pruned_indices_iff X.h (KP) X.hl l _ _).2 ⟨q, hq, hkq, rfl⟩
    · -- a first node of the old array cannot sit above another node of its root
      exfalso
      rw [hn0r] at hb1
      have hb1' : aGet pr.blockSlots r = some s := hb1
      have := X.hc.first_min X.h r s s0 y hb1' hy
      omega

/-- a first node after the prune: the anchor, or a block whose transition parent stayed and whose fork-choice
parent is the parent root's first node left (the old one, or the anchor from which the block was re-hung) -/
theorem Ctx.first_node_pruned (X : Ctx pr root slot a) (l : List (NodeRef × Bool × Bool)) (r : Root) (s0 i : Nat)
    (n : Node) (hb : aGet (pruned pr (KP) l).blockSlots r = some s0)
    (hi : aGet (pruned pr (KP) l).indices ⟨s0, r⟩ = some i) (hn : (pruned pr (KP) l).nodes[i]? = some n) :
    (n.tparent = none ∧ n.fparent = none) ∨
    (n.parentRoot ≠ r ∧ ∃ p0 t f, aGet (pruned pr (KP) l).blockSlots n.parentRoot = some p0 ∧ p0 < s0 ∧
       n.tparent = some t ∧ aGet (pruned pr (KP) l).indices ⟨s0, n.parentRoot⟩ = some t ∧
       n.fparent = some f ∧ aGet (pruned pr (KP) l).indices ⟨p0, n.parentRoot⟩ = some f) := by
  obtain ⟨i0, hi0, hk, rfl⟩ := (pruned_indices_iff X.h (KP) X.hl l _ _).1 hi
  obtain ⟨n0, hn0, hn0r⟩ := X.h.idx_sound _ _ hi0
  by_cases hia : i0 = a
  · subst hia; exact Or.inl (X.anchor_pruned l hn0 hn)
  obtain ⟨_, hpr, _, _, ht, _, _⟩ := pruned_node_skel (KP) l hn0 hk hn
  have hslot : n0.ref.slot = s0 := by rw [hn0r]
  have hroot : n0.ref.root = r := by rw [hn0r]
  rcases X.kept_cases hk hia hn0 with ⟨s1, q, _, hlt, _, _, hq, hkq⟩ | ⟨_, hne, p0, t, f, hbP, hp0, htp, hti, hkt, hx, hfp, hfi⟩
  · -- an empty-slot node whose parent stays is not a first node
    exfalso
    rw [hslot, hroot] at hq
    obtain ⟨s', hs', hle⟩ := X.bs_le_key l hq hkq
    rw [hb] at hs'; cases hs'
    rw [hslot] at hlt
    omega
  · right
    rw [hslot] at hp0 hti hx
    rw [hroot] at hne
    rw [hpr]
    refine ⟨hne, ?_⟩
    have htN : n.tparent = some (PA.newIndex 0 (KP) t) := by rw [ht, htp]; exact renumber_kept (KP) hkt
    have htI : aGet (pruned pr (KP) l).indices ⟨s0, n0.parentRoot⟩ = some (PA.newIndex 0 (KP) t) :=
      (pruned_indices_iff X.h (KP) X.hl l _ _).2 ⟨t, hti, hkt, rfl⟩
    by_cases hkf : (KP).getD f false = true
    · -- the parent root's first node stays
      obtain ⟨s', hs', hle⟩ := X.bs_le_key l hfi hkf
      obtain ⟨y, hy, _⟩ := X.bs_key l hs'
      have hge := X.hc.first_min X.h _ _ _ _ hbP hy
      have e : s' = p0 := by omega
      subst e
      refine ⟨s', PA.newIndex 0 (KP) t, PA.newIndex 0 (KP) f, hs', hp0, htN, htI, ?_,
        (pruned_indices_iff X.h (KP) X.hl l _ _).2 ⟨f, hfi, hkf, rfl⟩⟩
      rcases pruned_node_fparent X.h (KP) X.hl l hn0 hk hn with ⟨p, hp, _, e⟩ | ⟨e, _⟩
      · rw [hfp] at hp; cases hp; exact e
      · rw [hfp, renumber_kept (KP) hkf] at e; cases e
    · -- it went away: the block hangs from the anchor now
      obtain ⟨ps, hps, hle⟩ := X.bs_le_key l hti hkt
      obtain ⟨y, hy, hky⟩ := X.bs_key l hps
      have hya : y = a := by
        rcases X.lowest_kept l hps hy hky with e | e
        · exact e
        · rw [hbP] at e; cases e
          rw [hfi] at hy; cases hy
          exact absurd hky hkf
      rw [hya] at hy hky
      have hlt : ps < s0 := by
        rcases Nat.lt_or_ge ps s0 with h1 | h1
        · exact h1
        · exfalso
          have e : ps = s0 := by omega
          subst e
          rw [hti] at hy; cases hy
          obtain ⟨na, hna, hnar⟩ := X.anchor_node
          obtain ⟨m, hm, hmr⟩ := X.h.idx_sound _ _ hti
          rw [hna] at hm; cases hm
          rw [hnar] at hmr
          exact hx ⟨rfl, (congrArg NodeRef.slot hmr).symm⟩
      have hai : a < i0 := Nat.lt_of_le_of_ne (keep_ge X.h a slot hk) (fun e => hia e.symm)
      have hqI : aGet (pruned pr (KP) l).indices ⟨ps, n0.parentRoot⟩ = some (PA.newIndex 0 (KP) a) :=
        (pruned_indices_iff X.h (KP) X.hl l _ _).2 ⟨a, hy, hky, rfl⟩
      have hfN := pruned_rehang (KP) l hn0 hk (by rw [hfp]; exact renumber_dropped (KP) hkf)
        (by rw [hroot]; exact hne) hps (by rw [hslot]; exact hlt) hqI (newIndex_lt (KP) hky hai)
      rw [fpar_of_node hn] at hfN
      exact ⟨ps, PA.newIndex 0 (KP) t, PA.newIndex 0 (KP) a, hps, hlt, htN, htI, hfN, hqI⟩

/-- the chain structure survives an effective prune -/
theorem Ctx.chain_pruned (X : Ctx pr root slot a) (l : List (NodeRef × Bool × Bool)) : Chain (pruned pr (KP) l) :=
  Chain.of_keyed (X.wfN l) (X.rooted_pruned l) (X.first_min_pruned l) (X.slot_node_pruned l) (X.first_node_pruned l)

end

/-! ## sums of balances over the votes selected by a predicate -/

/-- `wsumFrom` with the test abstracted -/
def wsumP (bals : List Nat) (f : Vote → Bool) : Nat → List Vote → Int
  | _, [] => 0
  | k, v :: vs => (if f v then ((bals.getD k 0 : Nat) : Int) else 0) + wsumP bals f (k + 1) vs

theorem wsumFrom_eq_wsumP (pr : PA) (bals : List Nat) (i : Nat) : ∀ (vs : List Vote) (k : Nat),
    wsumFrom pr bals i k vs = wsumP bals (appliedIn pr i) k vs := by
  intro vs
  induction vs with
  | nil => intro k; rfl
  | cons v vs ih => intro k; simp only [wsumFrom, wsumP, ih]

theorem wsumP_congr (bals : List Nat) (f g : Vote → Bool) : ∀ (vs : List Vote) (k : Nat),
    (∀ v ∈ vs, f v = g v) → wsumP bals f k vs = wsumP bals g k vs := by
  intro vs
  induction vs with
  | nil => intro k _; rfl
  | cons v vs ih =>
    intro k h
    simp only [wsumP]
    rw [h v (List.mem_cons_self ..), ih (k + 1) (fun w hw => h w (List.mem_cons_of_mem _ hw))]

/-- two tests that never hold together: the sums add up -/
theorem wsumP_or (bals : List Nat) (f g : Vote → Bool) : ∀ (vs : List Vote) (k : Nat),
    (∀ v ∈ vs, ¬ (f v = true ∧ g v = true)) →
    wsumP bals (fun v => f v || g v) k vs = wsumP bals f k vs + wsumP bals g k vs := by
  intro vs
  induction vs with
  | nil => intro k _; rfl
  | cons v vs ih =>
    intro k h
    simp only [wsumP]
    rw [ih (k + 1) (fun w hw => h w (List.mem_cons_of_mem _ hw))]
    have hv := h v (List.mem_cons_self ..)
    rcases Bool.eq_false_or_eq_true (f v) with hf | hf <;> rcases Bool.eq_false_or_eq_true (g v) with hg | hg
    · exact absurd ⟨hf, hg⟩ hv
    all_goals (simp [hf, hg] <;> omega)

/-! ## the weights after an effective prune -/

/-- the old position `i` stays, loses its fork-choice parent, and hangs from the new position `j` afterwards -/
def reh (pr : PA) (keep : List Bool) (l : List (NodeRef × Bool × Bool)) (j i : Nat) : Bool :=
  keep.getD i false && rehung (PA.compact 0 keep 0 pr.nodes) (pruned pr keep l).nodes j (PA.newIndex 0 keep i)

/-- the old weights of the positions below `m` that are re-hung from `j` -/
def sumR (pr : PA) (keep : List Bool) (l : List (NodeRef × Bool × Bool)) (j : Nat) : Nat → Int
  | 0 => 0
  | m + 1 => sumR pr keep l j m + (if reh pr keep l j m = true then w0 pr.nodes m else 0)

/-- the applied vote lies in the old subtree of a position below `m` that is re-hung from `j` -/
def inR (pr : PA) (keep : List Bool) (l : List (NodeRef × Bool × Bool)) (j m : Nat) (v : Vote) : Bool :=
  (List.range m).any (fun i => reh pr keep l j i && appliedIn pr i v)

theorem inR_succ (pr : PA) (keep : List Bool) (l : List (NodeRef × Bool × Bool)) (j m : Nat) (v : Vote) :
    inR pr keep l j (m + 1) v = (inR pr keep l j m v || (reh pr keep l j m && appliedIn pr m v)) := by
  unfold inR
  rw [List.range_succ, List.any_append]
  simp

theorem inR_iff (pr : PA) (keep : List Bool) (l : List (NodeRef × Bool × Bool)) (j m : Nat) (v : Vote) :
    inR pr keep l j m v = true ↔ ∃ i, i < m ∧ reh pr keep l j i = true ∧ appliedIn pr i v = true := by
  unfold inR
  simp only [List.any_eq_true, List.mem_range, Bool.and_eq_true]

/-- `addedW` runs over the new positions; the same sum over the old ones -/
theorem addedW_newIndex {pr : PA} (keep : List Bool) (hl : keep.length = pr.nodes.length)
    (l : List (NodeRef × Bool × Bool)) (j : Nat) : ∀ m,
    addedW (PA.compact 0 keep 0 pr.nodes) (pruned pr keep l).nodes j (PA.newIndex 0 keep m) = sumR pr keep l j m := by
  intro m
  induction m with
  | zero => rw [newIndex_zero]; rfl
  | succ m ih =>
    rw [newIndex_succ, sumR, ← ih]
    by_cases hk : keep.getD m false = true
    · rw [if_pos hk, addedW]
      have hm : m < pr.nodes.length := by rw [← hl]; exact getD_true_lt hk
      have hw : w0 (PA.compact 0 keep 0 pr.nodes) (PA.newIndex 0 keep m) = w0 pr.nodes m := by
        unfold w0
        rw [compact_get keep pr.nodes (List.getElem?_eq_getElem hm) hk, List.getElem?_eq_getElem hm]
        rfl
      rw [hw]
      unfold reh
      rw [hk, Bool.true_and]
    · rw [if_neg hk, Nat.add_zero]
      unfold reh
      have : keep.getD m false = false := by simpa using hk
      rw [this]
      simp

theorem addedW_total {pr : PA} (keep : List Bool) (hl : keep.length = pr.nodes.length)
    (l : List (NodeRef × Bool × Bool)) (j : Nat) :
    addedW (PA.compact 0 keep 0 pr.nodes) (pruned pr keep l).nodes j (PA.compact 0 keep 0 pr.nodes).length =
      sumR pr keep l j pr.nodes.length := by
  rw [← addedW_newIndex keep hl l j, compact_length keep pr.nodes hl, newIndex_ge_length keep (by omega)]

/-- with right weights before the prune and pairwise disjoint re-hung subtrees, the added weight is the sum of
the balances whose applied vote lies in one of them -/
theorem sumR_eq {pr : PA} (keep : List Bool) (hl : keep.length = pr.nodes.length)
    (l : List (NodeRef × Bool × Bool)) (j : Nat) (votes : List Vote) (bals : List Nat)
    (hw : WeightsAre pr votes bals)
    (hdis : ∀ i i', reh pr keep l j i = true → reh pr keep l j i' = true → i ≠ i' → ∀ v ∈ votes,
      ¬ (appliedIn pr i v = true ∧ appliedIn pr i' v = true)) :
    ∀ m, sumR pr keep l j m = wsumP bals (inR pr keep l j m) 0 votes := by
  intro m
  induction m with
  | zero =>
    rw [sumR]
    have : ∀ (vs : List Vote) (k : Nat), wsumP bals (inR pr keep l j 0) k vs = 0 := by
      intro vs
      induction vs with
      | nil => intro k; rfl
      | cons v vs ih => intro k; simp [wsumP, ih, inR]
    rw [this]
  | succ m ih =>
    rw [sumR, ih]
    by_cases hr : reh pr keep l j m = true
    · rw [if_pos hr]
      have hk : keep.getD m false = true := by
        unfold reh at hr; simp only [Bool.and_eq_true] at hr; exact hr.1
      have hm : m < pr.nodes.length := by rw [← hl]; exact getD_true_lt hk
      have hwm : w0 pr.nodes m = wsumP bals (appliedIn pr m) 0 votes := by
        unfold w0
        rw [List.getElem?_eq_getElem hm]
        show pr.nodes[m].weight = _
        rw [hw m pr.nodes[m] (List.getElem?_eq_getElem hm)]
        exact wsumFrom_eq_wsumP pr bals m votes 0
      rw [hwm, ← wsumP_or bals _ _ votes 0]
      · exact wsumP_congr bals _ _ votes 0 (fun v _ => by rw [inR_succ, hr, Bool.true_and])
      · intro v hv ⟨h1, h2⟩
        obtain ⟨i, hi, hri, hai⟩ := (inR_iff pr keep l j m v).1 h1
        exact hdis i m hri hr (by omega) v hv ⟨hai, h2⟩
    · rw [if_neg hr, Int.add_zero]
      refine wsumP_congr bals _ _ votes 0 (fun v _ => ?_)
      have : reh pr keep l j m = false := by simpa using hr
      rw [inR_succ, this]; simp

section
variable {pr : PA} {root : Root} {slot a : Nat}

local notation "KP" => PA.keepFlags 0 a slot pr.nodes []

/-- `reh` spelled out -/
theorem reh_iff (X : Ctx pr root slot a) (l : List (NodeRef × Bool × Bool)) (j i : Nat) :
    reh pr (KP) l j i = true ↔
      (KP).getD i false = true ∧ (∃ n, pr.nodes[i]? = some n ∧ PA.renumber 0 (KP) n.fparent = none) ∧
      fpar (pruned pr (KP) l).nodes (PA.newIndex 0 (KP) i) = some j := by
  unfold reh rehung
  simp only [Bool.and_eq_true, Option.isNone_iff_eq_none, beq_iff_eq]
  constructor
  · rintro ⟨hk, h1, h2⟩
    obtain ⟨n, hn⟩ := X.kept_node hk
    refine ⟨hk, ⟨n, hn, ?_⟩, h2⟩
    rw [fpar_of_node (compact_get (KP) pr.nodes hn hk), renum_fparent] at h1
    exact h1
  · rintro ⟨hk, ⟨n, hn, h1⟩, h2⟩
    refine ⟨hk, ?_, h2⟩
    rw [fpar_of_node (compact_get (KP) pr.nodes hn hk), renum_fparent]
    exact h1

/-- whatever is re-hung hangs from the anchor afterwards -/
theorem reh_target (X : Ctx pr root slot a) (l : List (NodeRef × Bool × Bool)) {j i : Nat}
    (hr : reh pr (KP) l j i = true) : i ≠ a ∧ j = PA.newIndex 0 (KP) a := by
  obtain ⟨hk, ⟨n0, hn0, hren⟩, hf⟩ := (reh_iff X l j i).1 hr
  obtain ⟨n, hn, _⟩ := pruned_node_of (KP) l hn0 hk
  rw [fpar_of_node hn] at hf
  rcases pruned_node_fparent X.h (KP) X.hl l hn0 hk hn with ⟨p, hp, hkp, _⟩ | ⟨_, h2 | ⟨q, ps, parent, hq, hqlt, _, hb, _, hqi, _, _⟩⟩
  · rw [hp, renumber_kept (KP) hkp] at hren; cases hren
  · rw [h2] at hf; cases hf
  · rw [hq] at hf; cases hf
    have hia : i ≠ a := by
      intro e; subst e
      rw [X.newIndex_anchor] at hqlt; omega
    refine ⟨hia, ?_⟩
    obtain ⟨y, hy, hky, rfl⟩ := (pruned_indices_iff X.h (KP) X.hl l _ _).1 hqi
    rcases X.lowest_kept l hb hy hky with e | e
    · rw [e]
    · exfalso
      rcases X.kept_cases hk hia hn0 with ⟨_, q', _, _, _, hfq, _, hkq⟩ | ⟨_, _, p0, t, f, hbP, _, _, _, _, _, hfp, hfi⟩
      · rw [hfq, renumber_kept (KP) hkq] at hren; cases hren
      · rw [hbP] at e; cases e
        rw [hfi] at hy; cases hy
        rw [hfp, renumber_kept (KP) hky] at hren; cases hren

/-- below a node that stays everything stays, in particular the fork-choice parent of a proper descendant -/
theorem kept_anc_fpar (X : Ctx pr root slot a) (l : List (NodeRef × Bool × Bool)) {x y : Nat}
    (hk : (KP).getD x false = true) (hr : PReach (fpar pr.nodes) x y) (hne : x ≠ y) :
    ∃ f ny, pr.nodes[y]? = some ny ∧ ny.fparent = some f ∧ (KP).getD f false = true := by
  cases hr with
  | refl => exact absurd rfl hne
  | @step _ p hp hr' =>
    obtain ⟨ny, hny, hfy⟩ := fpar_some hp
    exact ⟨p, ny, hny, hfy, (pruned_reach (KP) l X.closed hk hr').1⟩

/-- a re-hung node was not below any other node that stays -/
theorem reh_not_desc (X : Ctx pr root slot a) (l : List (NodeRef × Bool × Bool)) {j x y : Nat}
    (hk : (KP).getD x false = true) (hr : reh pr (KP) l j y = true) (hne : x ≠ y) :
    ¬ PReach (fpar pr.nodes) x y := by
  intro hreach
  obtain ⟨f, ny, hny, hfy, hkf⟩ := kept_anc_fpar X l hk hreach hne
  obtain ⟨_, ⟨n, hn, hren⟩, _⟩ := (reh_iff X l j y).1 hr
  rw [hny] at hn; cases hn
  rw [hfy, renumber_kept (KP) hkf] at hren; cases hren

/-- the old subtrees of two re-hung nodes are disjoint -/
theorem reh_disjoint (X : Ctx pr root slot a) (l : List (NodeRef × Bool × Bool)) {j i i' c : Nat}
    (hr : reh pr (KP) l j i = true) (hr' : reh pr (KP) l j i' = true) (hne : i ≠ i')
    (h1 : PReach (fpar pr.nodes) i c) (h2 : PReach (fpar pr.nodes) i' c) : False := by
  have hk := ((reh_iff X l j i).1 hr).1
  have hk' := ((reh_iff X l j i').1 hr').1
  rcases Nat.le_total i i' with hle | hle
  · exact reh_not_desc X l hk hr' hne (h1.comparable X.h.fpar_lt2 h2 hle)
  · exact reh_not_desc X l hk' hr (fun e => hne e.symm) (h2.comparable X.h.fpar_lt2 h1 hle)

/-- … and disjoint from the old subtree of the node they hang from -/
theorem reh_disjoint_target (X : Ctx pr root slot a) (l : List (NodeRef × Bool × Bool)) {i0 i c : Nat}
    (hk0 : (KP).getD i0 false = true) (hr : reh pr (KP) l (PA.newIndex 0 (KP) i0) i = true)
    (h1 : PReach (fpar pr.nodes) i0 c) (h2 : PReach (fpar pr.nodes) i c) : False := by
  obtain ⟨hia, e⟩ := reh_target X l hr
  have e0 : i0 = a := newIndex_inj (KP) hk0 X.keep_a e
  have hk := ((reh_iff X l _ i).1 hr).1
  have hle : i0 ≤ i := by rw [e0]; exact keep_ge X.h a slot hk
  exact reh_not_desc X l hk0 hr (by rw [e0]; exact fun e => hia e.symm) (h1.comparable X.h.fpar_lt2 h2 hle)

/-- fork-choice ancestry after the prune: what it was before, or through a node re-hung from the ancestor -/
theorem reach_pruned_of (X : Ctx pr root slot a) (l : List (NodeRef × Bool × Bool)) {i0 : Nat}
    (hk0 : (KP).getD i0 false = true) {x : Nat}
    (hr : PReach (fpar (pruned pr (KP) l).nodes) (PA.newIndex 0 (KP) i0) x) :
    ∀ c0 : Nat, (KP).getD c0 false = true → x = PA.newIndex 0 (KP) c0 →
      PReach (fpar pr.nodes) i0 c0 ∨
      ∃ i, reh pr (KP) l (PA.newIndex 0 (KP) i0) i = true ∧ PReach (fpar pr.nodes) i c0 := by
  induction hr with
  | refl =>
    intro c0 hkc e
    rw [newIndex_inj (KP) hk0 hkc e]
    exact Or.inl .refl
  | @step x p hp hr' ih =>
    intro c0 hkc e
    subst e
    obtain ⟨nc, hnc⟩ := X.kept_node hkc
    obtain ⟨n, hn, _⟩ := pruned_node_of (KP) l hnc hkc
    have hp' := hp
    rw [fpar_of_node hn] at hp'
    rcases pruned_node_fparent X.h (KP) X.hl l hnc hkc hn with ⟨p0, hp0, hkp, e⟩ | ⟨hren, _⟩
    · rw [e] at hp'; cases hp'
      have hstep : fpar pr.nodes c0 = some p0 := by rw [fpar_of_node hnc]; exact hp0
      rcases ih p0 hkp rfl with h1 | ⟨i, hri, h1⟩
      · exact Or.inl (.step hstep h1)
      · exact Or.inr ⟨i, hri, .step hstep h1⟩
    · -- `c0` itself was re-hung, from the anchor: `i0` is the anchor
      have hrc : reh pr (KP) l p c0 = true := (reh_iff X l p c0).2 ⟨hkc, ⟨nc, hnc, hren⟩, hp⟩
      obtain ⟨_, ep⟩ := reh_target X l hrc
      have hle := hr'.le (pruned_fpar_lt2 X.h (KP) X.hl l)
      rw [ep, X.newIndex_anchor] at hle
      have e0 : PA.newIndex 0 (KP) i0 = p := by rw [ep, X.newIndex_anchor]; omega
      rw [e0]
      exact Or.inr ⟨c0, hrc, .refl⟩

theorem reach_pruned_iff (X : Ctx pr root slot a) (l : List (NodeRef × Bool × Bool)) {i0 c0 : Nat}
    (hk0 : (KP).getD i0 false = true) (hkc : (KP).getD c0 false = true) :
    PReach (fpar (pruned pr (KP) l).nodes) (PA.newIndex 0 (KP) i0) (PA.newIndex 0 (KP) c0) ↔
      PReach (fpar pr.nodes) i0 c0 ∨
      ∃ i, reh pr (KP) l (PA.newIndex 0 (KP) i0) i = true ∧ PReach (fpar pr.nodes) i c0 := by
  constructor
  · intro hr; exact reach_pruned_of X l hk0 hr c0 hkc rfl
  · rintro (h1 | ⟨i, hri, h1⟩)
    · exact (pruned_reach (KP) l X.closed hk0 h1).2
    · obtain ⟨hki, _, hf⟩ := (reh_iff X l _ i).1 hri
      exact (PReach.step hf .refl).trans (pruned_reach (KP) l X.closed hki h1).2

theorem appliedIn_iff {p : PA} (h : WF p) (i : Nat) (v : Vote) :
    appliedIn p i v = true ↔ ∃ c : Nat, aGet p.indices v.cur = some c ∧ PReach (fpar p.nodes) i c := by
  unfold appliedIn
  cases hc : aGet p.indices v.cur with
  | none => simp
  | some c =>
    simp only [anc_iff_reach p.nodes h.fpar_lt2 i c]
    constructor
    · intro hr; exact ⟨c, rfl, hr⟩
    · rintro ⟨c', e, hr⟩; cases e; exact hr

/-- which applied votes lie below a node after the prune -/
theorem applied_pruned (X : Ctx pr root slot a) (l : List (NodeRef × Bool × Bool)) {i0 : Nat}
    (hk0 : (KP).getD i0 false = true) (v : Vote) :
    appliedIn (pruned pr (KP) l) (PA.newIndex 0 (KP) i0) v =
      (appliedIn pr i0 v || inR pr (KP) l (PA.newIndex 0 (KP) i0) pr.nodes.length v) := by
  rw [Bool.eq_iff_iff, Bool.or_eq_true, appliedIn_iff (X.wfN l), appliedIn_iff X.h, inR_iff]
  constructor
  · rintro ⟨c, hc, hr⟩
    obtain ⟨c0, hc0, hkc, rfl⟩ := (pruned_indices_iff X.h (KP) X.hl l _ _).1 hc
    rcases (reach_pruned_iff X l hk0 hkc).1 hr with h1 | ⟨i, hri, h1⟩
    · exact Or.inl ⟨c0, hc0, h1⟩
    · have hki := ((reh_iff X l _ i).1 hri).1
      have hi : i < pr.nodes.length := by rw [← X.hl]; exact getD_true_lt hki
      exact Or.inr ⟨i, hi, hri, (appliedIn_iff X.h i v).2 ⟨c0, hc0, h1⟩⟩
  · rintro (⟨c0, hc0, h1⟩ | ⟨i, _, hri, hai⟩)
    · have hkc := (pruned_reach (KP) l X.closed hk0 h1).1
      exact ⟨_, (pruned_indices_iff X.h (KP) X.hl l _ _).2 ⟨c0, hc0, hkc, rfl⟩,
        (reach_pruned_iff X l hk0 hkc).2 (Or.inl h1)⟩
    · obtain ⟨c0, hc0, h1⟩ := (appliedIn_iff X.h i v).1 hai
      have hki := ((reh_iff X l _ i).1 hri).1
      have hkc := (pruned_reach (KP) l X.closed hki h1).1
      exact ⟨_, (pruned_indices_iff X.h (KP) X.hl l _ _).2 ⟨c0, hc0, hkc, rfl⟩,
        (reach_pruned_iff X l hk0 hkc).2 (Or.inr ⟨i, hri, h1⟩)⟩

/-- the weights are right after an effective prune -/
theorem Ctx.weights_pruned (X : Ctx pr root slot a) (l : List (NodeRef × Bool × Bool)) (votes : List Vote)
    (bals : List Nat) (hw : WeightsAre pr votes bals) : WeightsAre (pruned pr (KP) l) votes bals := by
  intro j n hn
  obtain ⟨i0, n0, hn0, hk0, rfl, _⟩ := pruned_node_inv (KP) X.hl l hn
  rw [pruned_node_weight (KP) l hn0 hk0 hn, addedW_total (KP) X.hl l, hw i0 n0 hn0]
  have hdis : ∀ i i', reh pr (KP) l (PA.newIndex 0 (KP) i0) i = true →
      reh pr (KP) l (PA.newIndex 0 (KP) i0) i' = true → i ≠ i' → ∀ v ∈ votes,
      ¬ (appliedIn pr i v = true ∧ appliedIn pr i' v = true) := by
    intro i i' hr hr' hne v _ ⟨h1, h2⟩
    obtain ⟨c, hc, r1⟩ := (appliedIn_iff X.h i v).1 h1
    obtain ⟨c', hc', r2⟩ := (appliedIn_iff X.h i' v).1 h2
    rw [hc] at hc'; cases hc'
    exact reh_disjoint X l hr hr' hne r1 r2
  rw [sumR_eq (KP) X.hl l _ votes bals hw hdis pr.nodes.length]
  unfold wsum
  rw [wsumFrom_eq_wsumP, wsumFrom_eq_wsumP, ← wsumP_or bals _ _ votes 0]
  · exact (wsumP_congr bals _ _ votes 0 (fun v _ => applied_pruned X l hk0 v)).symm
  · intro v _ ⟨h1, h2⟩
    obtain ⟨c, hc, r1⟩ := (appliedIn_iff X.h i0 v).1 h1
    obtain ⟨i, _, hri, hai⟩ := (inR_iff pr (KP) l _ _ v).1 h2
    obtain ⟨c', hc', r2⟩ := (appliedIn_iff X.h i v).1 hai
    rw [hc] at hc'; cases hc'
    exact reh_disjoint_target X l hk0 hri r1 r2

end

/-- the keys of the rebuilt index map were keys before -/
theorem noZero_pruned {pr : PA} (h : WF pr) (keep : List Bool) (hl : keep.length = pr.nodes.length)
    (l : List (NodeRef × Bool × Bool)) (hz : NoZero pr) : NoZero (pruned pr keep l) := by
  unfold NoZero at hz ⊢
  rw [pruned_indices_get h keep hl l, hz]

/-! ## the outcomes of `OnPrune` -/

/-- the state an outcome of `OnPrune` carries has the property `P` (a panic or an endless loop has none) -/
def OutP (P : PA → Prop) : POut PA Unit → Prop
  | .ok s _ => P s
  | .err s => P s
  | _ => False

theorem OutP.toMatch {P : PA → Prop} : ∀ {o : POut PA Unit}, OutP P o →
    match o with | .ok s _ => P s | .err s => P s | _ => False := by
  intro o h
  cases o <;> exact h

/-- a property that holds before, survives a change of `sinkLog` and holds for the pruned array holds for every
outcome -/
theorem onPrune_outP (P : PA → Prop) (pr : PA) (h : WF pr) (root : Root) (slot : Nat) (h0 : P pr)
    (hlog : ∀ l, P { pr with sinkLog := l })
    (hpruned : ∀ a l, aGet pr.indices ⟨slot, root⟩ = some a → P (pruned pr (PA.keepFlags 0 a slot pr.nodes []) l)) :
    OutP P (pr.onPrune root slot) := by
  rcases onPrune_cases pr h root slot with ⟨_, e⟩ | ⟨a, ha, l, e | ⟨_, e⟩ | ⟨_, e⟩⟩
  · rw [e]; exact h0
  · rw [e]; exact hlog l
  · rw [e]; exact hlog l
  · rw [e]; exact hpruned a l ha

theorem chain_setSinkLog {pr : PA} (hc : Chain pr) (l : List (NodeRef × Bool × Bool)) :
    Chain { pr with sinkLog := l } :=
  chain_congr (pr := pr) (pr' := { pr with sinkLog := l }) rfl rfl rfl (fun _ => rfl) hc

theorem weights_setSinkLog {pr : PA} {votes : List Vote} {bals : List Nat} (hw : WeightsAre pr votes bals)
    (l : List (NodeRef × Bool × Bool)) : WeightsAre { pr with sinkLog := l } votes bals := by
  intro i n hn
  rw [hw i n hn]
  exact (wsumFrom_congr pr { pr with sinkLog := l } bals i votes 0 (fun _ _ => rfl)).symm

end PruneInv

open Prune PruneInv

/-- C11/C09: `OnPrune` keeps the chain structure -/
theorem chain_onPrune (pr : PA) (h : WF pr) (hc : Chain pr) (root : Root) (slot : Nat) :
    match pr.onPrune root slot with | .ok s _ => Chain s | .err s => Chain s | _ => False :=
  (onPrune_outP Chain pr h root slot hc (chain_setSinkLog hc)
    (fun _ l ha => (Ctx.mk h hc ha).chain_pruned l)).toMatch

/-- `OnPrune` does not make Go's zero `NodeRef` a node -/
theorem noZero_onPrune (pr : PA) (h : WF pr) (hz : NoZero pr) (root : Root) (slot : Nat) :
    match pr.onPrune root slot with | .ok s _ => NoZero s | .err s => NoZero s | _ => False :=
  (onPrune_outP NoZero pr h root slot hz (fun _ => hz)
    (fun a l _ => noZero_pruned h _ (keep_length pr.nodes a slot) l hz)).toMatch

/-- `OnPrune` keeps the weights right: the weight a re-hung block hands to its new parent is exactly the balance
of the votes in its subtree, which was not below the new parent before -/
theorem weights_onPrune (pr : PA) (h : WF pr) (hc : Chain pr) (votes : List Vote) (bals : List Nat)
    (hw : WeightsAre pr votes bals) (root : Root) (slot : Nat) :
    match pr.onPrune root slot with
    | .ok s _ => WeightsAre s votes bals | .err s => WeightsAre s votes bals | _ => False :=
  (onPrune_outP (fun s => WeightsAre s votes bals) pr h root slot hw (weights_setSinkLog hw)
    (fun _ l ha => (Ctx.mk h hc ha).weights_pruned l votes bals hw)).toMatch

/-- the bundled invariant survives `OnPrune`, whatever its outcome -/
theorem pinv_onPrune (pr : PA) (votes : List Vote) (bals : List Nat) (I : PInv pr votes bals) (root : Root)
    (slot : Nat) :
    match pr.onPrune root slot with | .ok s _ => PInv s votes bals | .err s => PInv s votes bals | _ => False :=
  (onPrune_outP (fun s => PInv s votes bals) pr I.wf root slot I
    (fun l => ⟨wf_setSinkLog I.wf l, chain_setSinkLog I.chain l, I.nz, weights_setSinkLog I.w l⟩)
    (fun _ l ha =>
      let X : Ctx pr root slot _ := ⟨I.wf, I.chain, ha⟩
      ⟨X.wfN l, X.chain_pruned l, noZero_pruned I.wf _ X.hl l I.nz, X.weights_pruned l votes bals I.w⟩)).toMatch

/-! ## non-vacuity

`chainEx` has the nodes `0:(1,0) 1:(1,1) 2:(2,1) 3:(1,2) 4:(3,2)` (root, slot). Three validators vote for block 3
(balance 5), for the empty-slot node `(1,2)` (balance 3) and for block 2 (balance 7); `ApplyScoreChanges` with the
deltas `ComputeDeltas` computes (`0 0 7 3 5`) gives the weights `15 3 7 3 5`. Pruning at `(1,1)` drops `(1,0)` and block 2; block 3
is re-hung from `(1,1)`, which takes over its weight: `8 3 5`, and the vote for the dropped block 2 no longer counts. -/

def pruneExVotes0 : List Vote := [⟨NodeRef.zero, ⟨2, 3⟩, 0, 0⟩, ⟨NodeRef.zero, ⟨2, 1⟩, 0, 0⟩, ⟨NodeRef.zero, ⟨1, 2⟩, 0, 0⟩]
def pruneExVotes : List Vote := [⟨⟨2, 3⟩, ⟨2, 3⟩, 0, 0⟩, ⟨⟨2, 1⟩, ⟨2, 1⟩, 0, 0⟩, ⟨⟨1, 2⟩, ⟨1, 2⟩, 0, 0⟩]

def pruneEx : PA :=
  match chainEx.applyScoreChanges [0, 0, 7, 3, 5] 0 0 with
  | .ok s _ => s
  | _ => chainEx

theorem pruneEx_inv : PInv pruneEx pruneExVotes [5, 3, 7] := by
  have I0 : PInv chainEx pruneExVotes0 [5, 3, 7] :=
    ⟨chainEx_ok.1, chainEx_ok.2, (show aGet chainEx.indices NodeRef.zero = none by decide),
      weightsAre_of_lt _ _ _ (by decide)⟩
  obtain ⟨ds, vs', pr', e, e2, I'⟩ := I0.applyDeltas [5, 3, 7] 0 0
  have hd : computeDeltas chainEx.indices pruneExVotes0 [5, 3, 7] [5, 3, 7] = some ([0, 0, 7, 3, 5], pruneExVotes) := by
    decide
  rw [hd] at e
  cases e
  unfold pruneEx
  rw [e2]
  exact I'

example : pruneEx.nodes.map (fun n => (n.ref, n.fparent, n.weight)) =
    [(⟨0, 1⟩, none, 15), (⟨1, 1⟩, some 0, 3), (⟨1, 2⟩, some 0, 7), (⟨2, 1⟩, some 1, 3), (⟨2, 3⟩, some 0, 5)] := by
  decide
example : (Prune.outState (pruneEx.onPrune 1 1)).map
      (fun s => s.nodes.map (fun (n : Node) => (n.ref, n.fparent, n.weight))) =
    some [(⟨1, 1⟩, none, 8), (⟨2, 1⟩, some 0, 3), (⟨2, 3⟩, some 0, 5)] := by decide
/-- the hypotheses of `pinv_onPrune` are satisfiable, on an array where the prune drops nodes, re-hangs a block and
moves weight -/
example : match pruneEx.onPrune 1 1 with
    | .ok s _ => PInv s pruneExVotes [5, 3, 7] | .err s => PInv s pruneExVotes [5, 3, 7] | _ => False :=
  pinv_onPrune pruneEx pruneExVotes [5, 3, 7] pruneEx_inv 1 1
/-- … so the three weights above are the sums of the balances of the votes left in the subtrees -/
example : ∃ s, pruneEx.onPrune 1 1 = .ok s () ∧ WeightsAre s pruneExVotes [5, 3, 7] ∧
    s.nodes.map (·.weight) = [8, 3, 5] := by
  have hw := weights_onPrune pruneEx pruneEx_inv.wf pruneEx_inv.chain _ _ pruneEx_inv.w 1 1
  rcases onPrune_total pruneEx pruneEx_inv.wf 1 1 with ⟨s, e⟩ | ⟨s, e⟩
  · rw [e] at hw
    refine ⟨s, e, hw, ?_⟩
    have h3 : (Prune.outState (pruneEx.onPrune 1 1)).map (fun s => s.nodes.map (·.weight)) = some [8, 3, 5] := by
      decide
    rw [e] at h3
    exact Option.some.inj h3
  · have h3 : (Prune.outState (pruneEx.onPrune 1 1)).isSome = true := by decide
    rw [e] at h3; cases h3
example : match pruneEx.onPrune 1 1 with | .ok s _ => Chain s | .err s => Chain s | _ => False :=
  chain_onPrune pruneEx pruneEx_inv.wf pruneEx_inv.chain 1 1
example : match pruneEx.onPrune 1 1 with | .ok s _ => NoZero s | .err s => NoZero s | _ => False :=
  noZero_onPrune pruneEx pruneEx_inv.wf pruneEx_inv.nz 1 1

end Zrnt.ForkChoice
