import Proofs.Lemmas.SSZDenote
import Proofs.Lemmas.SSZLeafImpl
/-! Soundness of the facts check for leaf rows (integer aliases, byte arrays) and bitfield rows. -/
namespace Zrnt.Proofs.SSZ
open Zrnt.SSZ Zrnt.Schema Zrnt.Schema.Facts

section
variable (H : Hash2) (c : Config) (owners : Owners) (views : List ViewDef)

/-- a length report accepted for a fixed-size schema is the schema's fixed length -/
theorem lenReport_fixed (sty : STy) (s : LExpr) (hs : fixedLenS sty = some s) (isFL : Bool) (m : Method)
    (h : lengthMethodOk owners views sty isFL m = true) :
    denoteLen c owners views m = some (sty.eval c).fixedLen := by
  rw [denoteLen_fixed c owners views sty isFL m s hs h]
  simp [Ty.fixedLen, fixedLenS_some c sty s hs]

/-- the length cases of `leafMethodOk` -/
theorem leafLen_sound (sty : STy) (s : LExpr) (hs : fixedLenS sty = some s) (which : Name)
    (hw : which = n!"ByteLength" ∨ which = n!"FixedLength") (m : Method) (hop : m.isOpaque = false)
    (h : leafMethodOk owners views sty which m = true) :
    denoteLen c owners views m = some (sty.eval c).fixedLen := by
  cases m <;> simp only [leafMethodOk, Method.isOpaque] at h hop <;> (try (simp at hop))
  case const e =>
    simp only [Bool.and_eq_true] at h
    have := h.2
    unfold isFixedLenOf at this
    simp only [hs] at this
    simp [denoteLen, sameLen_sound s e this c, Ty.fixedLen, fixedLenS_some c sty s hs]
  case typeByteLength v =>
    simp only [Bool.and_eq_true] at h
    exact lenReport_fixed c owners views sty s hs _ _ h.2
  all_goals (rcases hw with rfl | rfl <;> simp at h)

theorem leafBlen_const (sty : STy) (s : LExpr) (hs : fixedLenS sty = some s) (m : Method) (hop : m.isOpaque = false)
    (h : leafMethodOk owners views sty n!"ByteLength" m = true) :
    leafBlen c owners views m = some (fun _ => (sty.eval c).fixedLen) := by
  have hl := leafLen_sound c owners views sty s hs n!"ByteLength" (Or.inl rfl) m hop h
  cases m <;> simp only [leafMethodOk, Method.isOpaque] at h hop <;> (try (simp at hop)) <;> (try (simp at h; done))
  all_goals simp only [leafBlen, hl, Option.map_some]

/-! #### integer aliases (`type Slot Uint64View`, …) -/

theorem uint_row_sound (k : Nat) (T : GoType)
    (o1 : T.deserialize.isOpaque = false) (o2 : T.serialize.isOpaque = false) (o3 : T.byteLength.isOpaque = false)
    (o4 : T.fixedLength.isOpaque = false)
    (h1 : leafMethodOk owners views (.uint k) n!"Deserialize" T.deserialize = true)
    (h2 : leafMethodOk owners views (.uint k) n!"Serialize" T.serialize = true)
    (h3 : leafMethodOk owners views (.uint k) n!"ByteLength" T.byteLength = true)
    (h4 : leafMethodOk owners views (.uint k) n!"FixedLength" T.fixedLength = true) :
    ∃ L, denoteLeafCodec c owners views T = some L ∧ L.Meets (.uint k) := by
  have hs : fixedLenS (.uint k) = some (.lit k) := rfl
  have e3 := leafBlen_const c owners views (.uint k) _ hs _ o3 h3
  have e4 := leafLen_sound c owners views (.uint k) _ hs n!"FixedLength" (Or.inr rfl) _ o4 h4
  have e1 : leafDes c T.deserialize = some (goReadExact k) := by
    cases hm : T.deserialize <;> simp only [hm, leafMethodOk, Method.isOpaque] at h1 o1 <;> (try (simp at o1)) <;>
      (try (simp at h1; done))
    case basic v k' =>
      simp only [Bool.and_eq_true, beq_iff_eq, Bool.or_eq_true] at h1
      obtain ⟨hk, hv⟩ := h1
      have hv' : v = n!"ViewDeserialize" := by
        rcases hv with ⟨⟨_, hv⟩ | ⟨h, _⟩⟩ | ⟨h, _⟩ <;> first | exact hv | (simp at h)
      subst hv'; subst hk
      simp [leafDes]
  have e2 : leafSer T.serialize = some id := by
    cases hm : T.serialize <;> simp only [hm, leafMethodOk, Method.isOpaque] at h2 o2 <;> (try (simp at o2)) <;>
      (try (simp at h2; done))
    case basic v k' =>
      simp only [Bool.and_eq_true, beq_iff_eq, Bool.or_eq_true] at h2
      obtain ⟨_, hv⟩ := h2
      have hv' : v = n!"WriteUint" := by
        rcases hv with ⟨⟨h, _⟩ | ⟨_, hv⟩⟩ | ⟨h, _⟩ <;> first | exact hv | (simp at h)
      subst hv'
      simp [leafSer]
    case bits v l =>
      simp only [Bool.and_eq_true, beq_iff_eq] at h2
      simp [leafSer, h2.2]
  refine ⟨⟨goReadExact k, id, fun _ => (STy.eval c (.uint k)).fixedLen, (STy.eval c (.uint k)).fixedLen⟩,
    by simp only [denoteLeafCodec, e1, e2, e3, e4], ?_⟩
  refine ⟨fun bs => readExact_uint k bs, by simp [STy.eval], ?_⟩
  intro v hw
  cases v <;> simp only [WF] at hw
  simp [STy.eval, Ty.fixedLen, Ty.fixedLen?, byteLength]

/-! #### byte arrays (`type BLSPubkey [48]byte`, `Version`, `LogsBloom`, …) -/

theorem bytesN_row_sound (e : LExpr) (T : GoType)
    (o1 : T.deserialize.isOpaque = false) (o2 : T.serialize.isOpaque = false) (o3 : T.byteLength.isOpaque = false)
    (o4 : T.fixedLength.isOpaque = false)
    (h1 : leafMethodOk owners views (.bytesN e) n!"Deserialize" T.deserialize = true)
    (h2 : leafMethodOk owners views (.bytesN e) n!"Serialize" T.serialize = true)
    (h3 : leafMethodOk owners views (.bytesN e) n!"ByteLength" T.byteLength = true)
    (h4 : leafMethodOk owners views (.bytesN e) n!"FixedLength" T.fixedLength = true) :
    ∃ L, denoteLeafCodec c owners views T = some L ∧ L.Meets (.bytesN (e.eval c)) := by
  have hs : fixedLenS (.bytesN e) = some e := rfl
  have e3 := leafBlen_const c owners views (.bytesN e) _ hs _ o3 h3
  have e4 := leafLen_sound c owners views (.bytesN e) _ hs n!"FixedLength" (Or.inr rfl) _ o4 h4
  have e1 : leafDes c T.deserialize = some (goReadExact (e.eval c)) := by
    cases hm : T.deserialize <;> simp only [hm, leafMethodOk, Method.isOpaque] at h1 o1 <;> (try (simp at o1)) <;>
      (try (simp at h1; done))
    case raw v n k =>
      simp only [Bool.and_eq_true, beq_iff_eq, Bool.or_eq_true] at h1
      obtain ⟨hn, hv⟩ := h1
      have hv' : v = n!"ReadAll" := by
        rcases hv with ⟨_, hv⟩ | ⟨h, _⟩ <;> first | exact hv | (simp at h)
      subst hv'
      simp [leafDes, isLit_sound e n hn c]
  have e2 : leafSer T.serialize = some id := by
    cases hm : T.serialize <;> simp only [hm, leafMethodOk, Method.isOpaque] at h2 o2 <;> (try (simp at o2)) <;>
      (try (simp at h2; done))
    case raw v n k =>
      simp only [Bool.and_eq_true, beq_iff_eq, Bool.or_eq_true] at h2
      obtain ⟨_, hv⟩ := h2
      have hv' : v = n!"Write" := by
        rcases hv with ⟨h, _⟩ | ⟨_, hv⟩ <;> first | exact hv | (simp at h)
      subst hv'
      simp [leafSer]
    case bits v l =>
      simp only [Bool.and_eq_true, beq_iff_eq] at h2
      simp [leafSer, h2.2]
  refine ⟨⟨goReadExact (e.eval c), id, fun _ => (STy.eval c (.bytesN e)).fixedLen, (STy.eval c (.bytesN e)).fixedLen⟩,
    by simp only [denoteLeafCodec, e1, e2, e3, e4], ?_⟩
  refine ⟨fun bs => readExact_bytesN _ bs, by simp [STy.eval], ?_⟩
  intro v hw
  cases v <;> simp only [WF] at hw
  exact ⟨rfl, by simp [STy.eval, Ty.fixedLen, Ty.fixedLen?, byteLength]⟩

/-! #### bitfields and byte lists -/

theorem limit_eval (lim : LExpr) (limit : Option LExpr) (h : limitOk lim limit = true) :
    ∃ l, limit = some l ∧ l.eval c = lim.eval c := by
  cases limit with
  | none => simp [limitOk] at h
  | some l => exact ⟨l, rfl, sameLen_sound l lim (by simpa [limitOk] using h) c⟩

theorem readExact_eq_bitvector (n : Nat) : goReadExact n = goReadBitVector (8 * n) := by
  funext bs
  have e1 : (8 * n + 7) / 8 = n := by omega
  have e2 : 8 * n % 8 = 0 := by omega
  simp [goReadExact, goReadBitVector, e1, e2]

/-- length reports of a bitfield row (the default branch of `bitsMethodOk`) -/
theorem bitsLen_sound (sty : STy) (kind : Name) (lim : LExpr) (which : Name)
    (hw : which = n!"ByteLength" ∨ which = n!"FixedLength") (m : Method) (hop : m.isOpaque = false)
    (hnl : m ≠ .len) (h : bitsMethodOk owners views sty kind lim which m = true) :
    lengthMethodOk owners views sty (which == n!"FixedLength") m = true := by
  cases m <;> simp only [bitsMethodOk, Method.isOpaque] at h hop <;> (try (simp at hop)) <;> (try (exact absurd rfl hnl))
  all_goals (first
    | (rcases hw with rfl | rfl <;> simp at h <;> done)
    | (simp only [Bool.and_eq_true] at h; exact h.2))

theorem bitvector_row_sound (lim : LExpr) (T : GoType)
    (o1 : T.deserialize.isOpaque = false) (o2 : T.serialize.isOpaque = false) (o3 : T.byteLength.isOpaque = false)
    (o4 : T.fixedLength.isOpaque = false)
    (h1 : bitsMethodOk owners views (.bitvector lim) n!"bitvector" lim n!"Deserialize" T.deserialize = true)
    (h2 : bitsMethodOk owners views (.bitvector lim) n!"bitvector" lim n!"Serialize" T.serialize = true)
    (h3 : bitsMethodOk owners views (.bitvector lim) n!"bitvector" lim n!"ByteLength" T.byteLength = true)
    (h4 : bitsMethodOk owners views (.bitvector lim) n!"bitvector" lim n!"FixedLength" T.fixedLength = true) :
    ∃ L, denoteLeafCodec c owners views T = some L ∧ L.Meets (.bitvector (lim.eval c)) := by
  have hs : fixedLenS (.bitvector lim) = some (.div (.add lim (.lit 7)) (.lit 8)) := rfl
  have hfl : (STy.eval c (.bitvector lim)).fixedLen = (lim.eval c + 7) / 8 := by simp [STy.eval, Ty.fixedLen, Ty.fixedLen?]
  -- lengths
  have hnl3 : T.byteLength ≠ .len := by
    intro hl; simp [hl, bitsMethodOk] at h3
  have hnl4 : T.fixedLength ≠ .len := by
    intro hl; simp [hl, bitsMethodOk] at h4
  have e3 : leafBlen c owners views T.byteLength = some (fun _ => (lim.eval c + 7) / 8) := by
    have hl := lenReport_fixed c owners views _ _ hs _ _
      (bitsLen_sound owners views _ _ lim n!"ByteLength" (Or.inl rfl) _ o3 hnl3 h3)
    rw [hfl] at hl
    cases hm : T.byteLength <;> simp only [hm] at hl hnl3 <;> (try (exact absurd rfl hnl3)) <;>
      simp only [leafBlen, hl, Option.map_some]
  have e4 : denoteLen c owners views T.fixedLength = some ((lim.eval c + 7) / 8) := by
    have hl := lenReport_fixed c owners views _ _ hs _ _
      (bitsLen_sound owners views _ _ lim n!"FixedLength" (Or.inr rfl) _ o4 hnl4 h4)
    rwa [hfl] at hl
  have e1 : leafDes c T.deserialize = some (goReadBitVector (lim.eval c)) := by
    cases hm : T.deserialize <;> simp only [hm, bitsMethodOk, Method.isOpaque] at h1 o1 <;> (try (simp at o1)) <;>
      (try (simp [lengthMethodOk] at h1; done))
    case bits v limit =>
      simp at h1
      obtain ⟨l, rfl, hl⟩ := limit_eval c lim limit h1.2
      simp [leafDes, h1.1, hl]
    case raw v n k =>
      simp only [Bool.and_eq_true, Bool.or_eq_true, beq_iff_eq, decide_eq_true_eq] at h1
      obtain ⟨_, hv⟩ := h1
      rcases hv with ⟨h, _⟩ | ⟨_, hv⟩
      · simp at h
      · rcases hv with ⟨⟨⟨hv, hl⟩, hk0⟩, hk8⟩ | ⟨hv, hl⟩
        · have := sameLen_sound _ _ hl c
          simp only [LExpr.eval] at this
          subst hv
          simp [leafDes, this]
        · have := sameLen_sound _ _ hl c
          simp only [LExpr.eval] at this
          subst hv
          simp [leafDes, this, readExact_eq_bitvector]
  have e2 : leafSer T.serialize = some id := by
    cases hm : T.serialize <;> simp only [hm, bitsMethodOk, Method.isOpaque] at h2 o2 <;> (try (simp at o2)) <;>
      (try (simp [lengthMethodOk] at h2; done))
    case bits v limit =>
      simp at h2
      rcases h2 with h | h <;> simp [leafSer, h]
    case raw v n k =>
      simp only [Bool.and_eq_true, Bool.or_eq_true, beq_iff_eq] at h2
      rcases h2.2 with ⟨_, hv⟩ | ⟨h, _⟩
      · simp [leafSer, hv]
      · simp at h
  refine ⟨⟨goReadBitVector (lim.eval c), id, fun _ => (lim.eval c + 7) / 8, (lim.eval c + 7) / 8⟩,
    by simp only [denoteLeafCodec, e1, e2, e3, e4], ?_⟩
  refine ⟨fun bs => readBitVector_spec _ bs, by simp [Ty.fixedLen, Ty.fixedLen?], ?_⟩
  intro v hw
  cases v <;> simp only [WF] at hw
  exact ⟨rfl, by simp [byteLength]⟩

/-- length methods of a variable-size bitfield row: `len(raw)` and `0` -/
theorem varLen_sound (sty : STy) (kind : Name) (hk : kind ≠ n!"bitvector") (lim : LExpr) (hv : fixedLenS sty = none) (T : GoType)
    (o3 : T.byteLength.isOpaque = false) (o4 : T.fixedLength.isOpaque = false)
    (h3 : bitsMethodOk owners views sty kind lim n!"ByteLength" T.byteLength = true)
    (h4 : bitsMethodOk owners views sty kind lim n!"FixedLength" T.fixedLength = true) :
    leafBlen c owners views T.byteLength = some List.length ∧ denoteLen c owners views T.fixedLength = some 0 := by
  constructor
  · cases hm : T.byteLength <;> simp only [hm, bitsMethodOk, Method.isOpaque] at h3 o3 <;> (try (simp at o3)) <;>
      (try (simp [lengthMethodOk, hv] at h3; done))
    case len => rfl
    case typeByteLength v =>
      exfalso
      simp only [Bool.and_eq_true, lengthMethodOk, hv] at h3
      cases hvw : viewSTy owners views viewFuel v with
      | none => simp [hvw] at h3
      | some t => cases hft : fixedLenS t <;> simp [hvw, hft] at h3
  · have hnl : T.fixedLength ≠ .len := by
      intro hl; simp [hl, bitsMethodOk] at h4
    exact denoteLen_variable c owners views sty _ hv
      (by simpa using bitsLen_sound owners views sty kind lim n!"FixedLength" (Or.inr rfl) _ o4 hnl h4)

theorem bitlist_row_sound (lim : LExpr) (T : GoType)
    (o1 : T.deserialize.isOpaque = false) (o2 : T.serialize.isOpaque = false) (o3 : T.byteLength.isOpaque = false)
    (o4 : T.fixedLength.isOpaque = false)
    (h1 : bitsMethodOk owners views (.bitlist lim) n!"bitlist" lim n!"Deserialize" T.deserialize = true)
    (h2 : bitsMethodOk owners views (.bitlist lim) n!"bitlist" lim n!"Serialize" T.serialize = true)
    (h3 : bitsMethodOk owners views (.bitlist lim) n!"bitlist" lim n!"ByteLength" T.byteLength = true)
    (h4 : bitsMethodOk owners views (.bitlist lim) n!"bitlist" lim n!"FixedLength" T.fixedLength = true) :
    ∃ L, denoteLeafCodec c owners views T = some L ∧ L.Meets (.bitlist (lim.eval c)) := by
  obtain ⟨e3, e4⟩ := varLen_sound c owners views (.bitlist lim) n!"bitlist" (by decide) lim rfl T o3 o4 h3 h4
  have e1 : leafDes c T.deserialize =
      some (fun bs => if goReadBitList (lim.eval c) bs then some bs else none) := by
    cases hm : T.deserialize <;> simp only [hm, bitsMethodOk, Method.isOpaque] at h1 o1 <;> (try (simp at o1)) <;>
      (try (simp [lengthMethodOk, fixedLenS] at h1; done))
    case bits v limit =>
      simp at h1
      obtain ⟨l, rfl, hl⟩ := limit_eval c lim limit h1.2
      simp [leafDes, h1.1, hl]
  have e2 : leafSer T.serialize = some id := by
    cases hm : T.serialize <;> simp only [hm, bitsMethodOk, Method.isOpaque] at h2 o2 <;> (try (simp at o2)) <;>
      (try (simp [lengthMethodOk, fixedLenS] at h2; done))
    case bits v limit =>
      simp at h2
      simp [leafSer, h2]
  refine ⟨⟨fun bs => if goReadBitList (lim.eval c) bs then some bs else none, id, List.length, 0⟩,
    by simp only [denoteLeafCodec, e1, e2, e3, e4], ?_⟩
  refine ⟨?_, by simp [Ty.fixedLen, Ty.fixedLen?], ?_⟩
  · intro bs
    simp only [goReadBitList_eq_decode]
    cases hd : decode (.bitlist (lim.eval c)) bs with
    | none => simp
    | some v => simp [(decode_bitlist_some _ bs v hd).2]
  · intro v hw
    have hl := encode_length _ v hw
    cases v <;> simp only [WF] at hw
    exact ⟨rfl, hl⟩

theorem bytelist_row_sound (lim : LExpr) (T : GoType)
    (o1 : T.deserialize.isOpaque = false) (o2 : T.serialize.isOpaque = false) (o3 : T.byteLength.isOpaque = false)
    (o4 : T.fixedLength.isOpaque = false)
    (h1 : bitsMethodOk owners views (.byteList lim) n!"bytelist" lim n!"Deserialize" T.deserialize = true)
    (h2 : bitsMethodOk owners views (.byteList lim) n!"bytelist" lim n!"Serialize" T.serialize = true)
    (h3 : bitsMethodOk owners views (.byteList lim) n!"bytelist" lim n!"ByteLength" T.byteLength = true)
    (h4 : bitsMethodOk owners views (.byteList lim) n!"bytelist" lim n!"FixedLength" T.fixedLength = true) :
    ∃ L, denoteLeafCodec c owners views T = some L ∧ L.Meets (.byteList (lim.eval c)) := by
  obtain ⟨e3, e4⟩ := varLen_sound c owners views (.byteList lim) n!"bytelist" (by decide) lim rfl T o3 o4 h3 h4
  have e1 : leafDes c T.deserialize = some (goReadByteList (lim.eval c)) := by
    cases hm : T.deserialize <;> simp only [hm, bitsMethodOk, Method.isOpaque] at h1 o1 <;> (try (simp at o1)) <;>
      (try (simp [lengthMethodOk, fixedLenS] at h1; done))
    case bits v limit =>
      simp at h1
      obtain ⟨l, rfl, hl⟩ := limit_eval c lim limit h1.2
      simp [leafDes, h1.1, hl]
  have e2 : leafSer T.serialize = some id := by
    cases hm : T.serialize <;> simp only [hm, bitsMethodOk, Method.isOpaque] at h2 o2 <;> (try (simp at o2)) <;>
      (try (simp [lengthMethodOk, fixedLenS] at h2; done))
    case bits v limit =>
      simp at h2
      simp [leafSer, h2]
  refine ⟨⟨goReadByteList (lim.eval c), id, List.length, 0⟩,
    by simp only [denoteLeafCodec, e1, e2, e3, e4], ?_⟩
  refine ⟨fun bs => readByteList_spec _ bs, by simp [Ty.fixedLen, Ty.fixedLen?], ?_⟩
  intro v hw
  cases v <;> simp only [WF] at hw
  exact ⟨rfl, by simp [encode, byteLength]⟩

/-! #### the `HashTreeRoot` method of the same rows (property C05) -/

theorem uint_root_sound (k : Nat) (T : GoType) (o5 : T.hashTreeRoot.isOpaque = false)
    (h5 : leafMethodOk owners views (.uint k) n!"HashTreeRoot" T.hashTreeRoot = true) :
    ∃ r, leafRoot H c T.hashTreeRoot = some r ∧ LeafRootMeets H (.uint k) r := by
  have e5 : leafRoot H c T.hashTreeRoot = some padTo32 := by
    cases hm : T.hashTreeRoot <;> simp only [hm, leafMethodOk, Method.isOpaque] at h5 o5 <;> (try (simp at o5)) <;>
      (try (simp at h5; done))
    case basic v k' =>
      simp only [Bool.and_eq_true, beq_iff_eq, Bool.or_eq_true] at h5
      obtain ⟨_, hv⟩ := h5
      have hv' : v = n!"ViewHashTreeRoot" := by
        rcases hv with ⟨⟨h, _⟩ | ⟨h, _⟩⟩ | ⟨_, hv⟩ <;> first | exact hv | (simp at h)
      subst hv'
      simp [leafRoot]
  refine ⟨padTo32, e5, ?_⟩
  intro v hw
  cases v <;> simp only [WF] at hw
  simp [encode, htr]

theorem bytesN_root_sound (e : LExpr) (T : GoType) (o5 : T.hashTreeRoot.isOpaque = false)
    (h5 : leafMethodOk owners views (.bytesN e) n!"HashTreeRoot" T.hashTreeRoot = true) :
    ∃ r, leafRoot H c T.hashTreeRoot = some r ∧ LeafRootMeets H (.bytesN (e.eval c)) r := by
  obtain ⟨t, e5, htok⟩ : ∃ t, leafRoot H c T.hashTreeRoot = some (fun raw => htEval H raw t) ∧ htOk (e.eval c) t = true := by
    cases hm : T.hashTreeRoot <;> simp only [hm, leafMethodOk, Method.isOpaque] at h5 o5 <;> (try (simp at o5)) <;>
      (try (simp at h5; done))
    case htrTree n t =>
      simp only [Bool.and_eq_true, beq_iff_eq] at h5
      have hn := isLit_sound e n h5.2 c
      exact ⟨t, by simp [leafRoot], by rw [hn]; exact h5.1.2⟩
  refine ⟨fun raw => htEval H raw t, e5, ?_⟩
  intro v hw
  cases v <;> simp only [WF] at hw
  rename_i bs
  simp only [encode]
  exact htOk_sound H _ t bs htok hw

theorem bitvector_root_sound (lim : LExpr) (T : GoType) (o5 : T.hashTreeRoot.isOpaque = false)
    (h5 : bitsMethodOk owners views (.bitvector lim) n!"bitvector" lim n!"HashTreeRoot" T.hashTreeRoot = true) :
    ∃ r, leafRoot H c T.hashTreeRoot = some r ∧ LeafRootMeets H (.bitvector (lim.eval c)) r := by
  have hs : fixedLenS (.bitvector lim) = some (.div (.add lim (.lit 7)) (.lit 8)) := rfl
  obtain ⟨r, e5, hr⟩ : ∃ r, leafRoot H c T.hashTreeRoot = some r ∧
      ∀ bits : List Bool, bits.length = lim.eval c →
        r (encode (.bitvector (lim.eval c)) (.bits bits)) = htr H (.bitvector (lim.eval c)) (.bits bits) := by
    cases hm : T.hashTreeRoot <;> simp only [hm, bitsMethodOk, Method.isOpaque] at h5 o5 <;> (try (simp at o5)) <;>
      (try (simp [lengthMethodOk] at h5; done))
    case bits v limit =>
      simp at h5
      exact ⟨goBytesRoot H, by simp [leafRoot, h5], fun bits _ => bytesRoot_bitvector H _ bits⟩
    case htrTree n t =>
      simp only [Bool.and_eq_true, beq_iff_eq] at h5
      obtain ⟨⟨_, hfix⟩, hok⟩ := h5
      unfold isFixedLenOf at hfix
      simp only [hs] at hfix
      have hn := sameLen_sound _ _ hfix c
      simp only [LExpr.eval] at hn
      refine ⟨fun raw => htEval H raw t, by simp [leafRoot], ?_⟩
      intro bits _
      have hlen : (encode (.bitvector (lim.eval c)) (.bits bits)).length = n := by
        simp [encode, natToLE_length, hn]
      show htEval H (encode (.bitvector (lim.eval c)) (.bits bits)) t = _
      rw [htOk_sound H n t _ hok hlen, ← bytesRoot_bytesN H n _ hlen, bytesRoot_bitvector]
  refine ⟨r, e5, ?_⟩
  intro v hw
  cases v <;> simp only [WF] at hw
  exact hr _ hw

theorem bitlist_root_sound (lim : LExpr) (T : GoType) (o5 : T.hashTreeRoot.isOpaque = false)
    (h5 : bitsMethodOk owners views (.bitlist lim) n!"bitlist" lim n!"HashTreeRoot" T.hashTreeRoot = true) :
    ∃ r, leafRoot H c T.hashTreeRoot = some r ∧ LeafRootMeets H (.bitlist (lim.eval c)) r := by
  have e5 : leafRoot H c T.hashTreeRoot = some (goBitListRoot H (lim.eval c)) := by
    cases hm : T.hashTreeRoot <;> simp only [hm, bitsMethodOk, Method.isOpaque] at h5 o5 <;> (try (simp at o5)) <;>
      (try (simp [lengthMethodOk, fixedLenS] at h5; done))
    case bits v limit =>
      simp at h5
      obtain ⟨l, rfl, hl⟩ := limit_eval c lim limit h5.2
      simp [leafRoot, h5.1, hl]
  refine ⟨_, e5, ?_⟩
  intro v hw
  cases v <;> simp only [WF] at hw
  exact bitListRoot_spec H _ _

theorem bytelist_root_sound (lim : LExpr) (T : GoType) (o5 : T.hashTreeRoot.isOpaque = false)
    (h5 : bitsMethodOk owners views (.byteList lim) n!"bytelist" lim n!"HashTreeRoot" T.hashTreeRoot = true) :
    ∃ r, leafRoot H c T.hashTreeRoot = some r ∧ LeafRootMeets H (.byteList (lim.eval c)) r := by
  have e5 : leafRoot H c T.hashTreeRoot = some (goByteListRoot H (lim.eval c)) := by
    cases hm : T.hashTreeRoot <;> simp only [hm, bitsMethodOk, Method.isOpaque] at h5 o5 <;> (try (simp at o5)) <;>
      (try (simp [lengthMethodOk, fixedLenS] at h5; done))
    case bits v limit =>
      simp at h5
      obtain ⟨l, rfl, hl⟩ := limit_eval c lim limit h5.2
      simp [leafRoot, h5.1, hl]
  refine ⟨_, e5, ?_⟩
  intro v hw
  cases v <;> simp only [WF] at hw
  simp only [encode]
  exact byteListRoot_spec H _ _

end

end Zrnt.Proofs.SSZ
