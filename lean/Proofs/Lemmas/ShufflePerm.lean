import Proofs.Lemmas.ShuffleList
import Mathlib.Data.List.Nodup
import Mathlib.Data.List.Induction
namespace Zrnt.Proofs.Shuffle
open Zrnt Zrnt.Shuffle

theorem list_eq_filterMap_range {α : Type} (l : List α) :
    l = (List.range l.length).filterMap (fun k => l[k]?) := by
  induction l using List.reverseRecOn with
  | nil => rfl
  | append_singleton l x ih =>
    rw [List.length_append, List.length_singleton, List.range_succ, List.filterMap_append]
    have h1 : (List.range l.length).filterMap (fun k => (l ++ [x])[k]?) = (List.range l.length).filterMap (fun k => l[k]?) := by
      apply List.filterMap_congr
      intro k hk
      rw [List.mem_range] at hk
      rw [List.getElem?_append_left hk]
    rw [h1, ← ih]
    simp

theorem range_map_perm {n : Nat} (π ρ : Nat → Nat) (hπ : ∀ x, x < n → π x < n) (hρ : ∀ x, x < n → ρ x < n)
    (hl : ∀ x, x < n → ρ (π x) = x) (hr : ∀ x, x < n → π (ρ x) = x) :
    ((List.range n).map π).Perm (List.range n) := by
  apply (List.perm_ext_iff_of_nodup ?_ List.nodup_range).mpr
  · intro y
    simp only [List.mem_map, List.mem_range]
    constructor
    · rintro ⟨x, hx, rfl⟩; exact hπ x hx
    · intro hy; exact ⟨ρ y, hρ y hy, hr y hy⟩
  · apply List.Nodup.map_on ?_ List.nodup_range
    intro x hx y hy e
    rw [List.mem_range] at hx hy
    rw [← hl x hx, ← hl y hy, e]

theorem perm_of_index_bijection {α : Type} (a b : Array α) (π ρ : Nat → Nat) (hs : b.size = a.size)
    (hπ : ∀ x, x < a.size → π x < a.size) (hρ : ∀ x, x < a.size → ρ x < a.size)
    (hl : ∀ x, x < a.size → ρ (π x) = x) (hr : ∀ x, x < a.size → π (ρ x) = x)
    (hg : ∀ x, x < a.size → b[x]? = a[π x]?) : b.toList.Perm a.toList := by
  have hb : b.toList = ((List.range a.size).map π).filterMap (fun k => a.toList[k]?) := by
    conv => lhs; rw [list_eq_filterMap_range b.toList]
    rw [List.filterMap_map]
    simp only [Array.length_toList, hs]
    apply List.filterMap_congr
    intro k hk
    rw [List.mem_range] at hk
    simp only [Function.comp, Array.getElem?_toList]
    exact hg k hk
  have ha : a.toList = (List.range a.size).filterMap (fun k => a.toList[k]?) := by
    conv => lhs; rw [list_eq_filterMap_range a.toList]
    simp
  rw [hb]
  conv => rhs; rw [ha]
  exact (range_map_perm π ρ hπ hρ hl hr).filterMap _
end Zrnt.Proofs.Shuffle
