import Zrnt.Pool.GoMap
/-!
# Lemmas about `GoMap` (Go maps as association lists with a nil flag)
-/
set_option linter.unusedSectionVars false
set_option linter.unusedSimpArgs false
namespace Zrnt.Pool.GoMap
open Zrnt
variable {κ ν : Type} [DecidableEq κ]

/-- allocated, keys unique -/
structure WF (m : GoMap κ ν) : Prop where
  alloc : m.alloc = true
  nodup : m.keys.Nodup

/-- the map after `m[k] = v` -/
def insert (m : GoMap κ ν) (k : κ) (v : ν) : GoMap κ ν := ⟨true, (k, v) :: m.entries.filter (fun e => e.1 ≠ k)⟩

theorem wf_make : (make : GoMap κ ν).WF := ⟨rfl, by simp [make, keys]⟩

@[simp] theorem get?_make (k : κ) : (make : GoMap κ ν).get? k = none := rfl
@[simp] theorem entries_make : (make : GoMap κ ν).entries = [] := rfl
@[simp] theorem keys_make : (make : GoMap κ ν).keys = [] := rfl

theorem set_of_alloc {m : GoMap κ ν} (h : m.alloc = true) (k : κ) (v : ν) : m.set k v = .ok (m.insert k v) := by
  simp [set, insert, h]

theorem set_of_wf {m : GoMap κ ν} (h : m.WF) (k : κ) (v : ν) : m.set k v = .ok (m.insert k v) :=
  set_of_alloc h.alloc k v

theorem keys_filter_ne (l : List (κ × ν)) (k : κ) :
    (l.filter (fun e => e.1 ≠ k)).map (·.1) = (l.map (·.1)).filter (fun x => x ≠ k) := by
  induction l with
  | nil => rfl
  | cons a l ih => grind

theorem find_filter_ne (l : List (κ × ν)) (k k' : κ) (h : k' ≠ k) :
    (l.filter (fun e => e.1 ≠ k)).find? (fun e => e.1 = k') = l.find? (fun e => e.1 = k') := by
  induction l with
  | nil => rfl
  | cons a l ih => grind

theorem keys_insert (m : GoMap κ ν) (k : κ) (v : ν) :
    (m.insert k v).keys = k :: m.keys.filter (fun x => x ≠ k) := by
  simp only [insert, keys, List.map_cons, keys_filter_ne]

theorem mem_keys_insert {m : GoMap κ ν} {k k' : κ} {v : ν} :
    k' ∈ (m.insert k v).keys ↔ k' = k ∨ k' ∈ m.keys := by
  rw [keys_insert]; by_cases h : k' = k <;> simp [h]

theorem wf_insert {m : GoMap κ ν} (h : m.keys.Nodup) (k : κ) (v : ν) : (m.insert k v).WF := by
  refine ⟨rfl, ?_⟩
  rw [keys_insert]
  exact List.nodup_cons.mpr ⟨by simp, h.filter _⟩

theorem get?_insert (m : GoMap κ ν) (k k' : κ) (v : ν) :
    (m.insert k v).get? k' = if k' = k then some v else m.get? k' := by
  by_cases h : k' = k
  · subst h; simp [insert, get?]
  · have h' : ¬ k = k' := fun e => h e.symm
    simp only [insert, get?, List.find?_cons, h, if_false, h', decide_false]
    rw [find_filter_ne _ _ _ h]

theorem get?_eq_none_iff {m : GoMap κ ν} {k : κ} : m.get? k = none ↔ k ∉ m.keys := by
  simp only [get?, keys, Option.map_eq_none_iff, List.find?_eq_none, List.mem_map]
  constructor
  · rintro h ⟨e, he, rfl⟩; exact h e he (by simp)
  · intro h e he hk; exact h ⟨e, he, by simpa using hk⟩

theorem mem_keys_iff {m : GoMap κ ν} {k : κ} : k ∈ m.keys ↔ ∃ v, m.get? k = some v := by
  by_cases h : k ∈ m.keys
  · simp only [h, true_iff]
    cases hg : m.get? k with
    | none => exact absurd h (get?_eq_none_iff.mp hg)
    | some v => exact ⟨v, rfl⟩
  · simp only [h, false_iff]
    rintro ⟨v, hv⟩
    rw [get?_eq_none_iff.mpr h] at hv; cases hv

theorem mem_of_get? {m : GoMap κ ν} {k : κ} {v : ν} (h : m.get? k = some v) : (k, v) ∈ m.entries := by
  simp only [get?, Option.map_eq_some_iff] at h
  obtain ⟨e, he, rfl⟩ := h
  have := List.find?_some he
  have hm := List.mem_of_find?_eq_some he
  simp at this; subst this; exact hm

theorem get?_of_mem {m : GoMap κ ν} (hn : m.keys.Nodup) {k : κ} {v : ν} (h : (k, v) ∈ m.entries) :
    m.get? k = some v := by
  obtain ⟨al, l⟩ := m
  simp only [get?, keys] at *
  induction l with
  | nil => simp at h
  | cons a l ih => grind

theorem filter_ne_of_not_mem {m : GoMap κ ν} {k : κ} (h : k ∉ m.keys) :
    m.entries.filter (fun e => e.1 ≠ k) = m.entries := by
  apply List.filter_eq_self.mpr
  intro e he
  simp only [keys, List.mem_map, not_exists, not_and] at h
  simpa using fun e' => h e he e'

theorem insert_of_not_mem {m : GoMap κ ν} {k : κ} (h : k ∉ m.keys) (v : ν) :
    (m.insert k v).entries = (k, v) :: m.entries := by
  simp only [insert, filter_ne_of_not_mem h]

theorem perm_of_get? {m : GoMap κ ν} (hn : m.keys.Nodup) {k : κ} {v : ν} (h : m.get? k = some v) :
    m.entries.Perm ((k, v) :: m.entries.filter (fun e => e.1 ≠ k)) := by
  obtain ⟨al, l⟩ := m
  simp only [get?, keys] at *
  induction l with
  | nil => simp at h
  | cons a l ih =>
    simp only [List.map_cons, List.nodup_cons] at hn
    by_cases ha : a.1 = k
    · have hav : a = (k, v) := by
        simp [List.find?_cons, ha] at h; rw [← ha, ← h]
      subst hav
      have : k ∉ (GoMap.mk al l).keys := hn.1
      have hf := filter_ne_of_not_mem this
      simp only at hf
      simp only [List.filter_cons, ne_eq, not_true_eq_false, decide_false, Bool.false_eq_true, if_false]
      simp only [ne_eq] at hf
      rw [hf]
    · have h' : Option.map (·.2) (l.find? (fun e => e.1 = k)) = some v := by
        simpa [List.find?_cons, ha] using h
      have := ih hn.2 h'
      simp only [List.filter_cons, ha, ne_eq, not_false_eq_true, decide_true, if_true]
      exact (List.Perm.cons a this).trans (List.Perm.swap _ _ _)

/-! ### `eraseIf` -/

@[simp] theorem alloc_eraseIf (m : GoMap κ ν) (p) : (m.eraseIf p).alloc = m.alloc := rfl

theorem keys_eraseIf_sublist (m : GoMap κ ν) (p) : (m.eraseIf p).keys.Sublist m.keys := by
  simp only [eraseIf, keys]; exact (List.filter_sublist).map _

theorem wf_eraseIf {m : GoMap κ ν} (h : m.WF) (p) : (m.eraseIf p).WF :=
  ⟨h.alloc, h.nodup.sublist (keys_eraseIf_sublist m p)⟩

theorem get?_eraseIf {m : GoMap κ ν} (hn : m.keys.Nodup) (p : κ × ν → Bool) (k : κ) :
    (m.eraseIf p).get? k = (m.get? k).filter (fun v => !p (k, v)) := by
  obtain ⟨al, l⟩ := m
  simp only [get?, keys, eraseIf] at *
  induction l with
  | nil => rfl
  | cons a l ih =>
    simp only [List.map_cons, List.nodup_cons] at hn
    have ih' := ih hn.2
    by_cases ha : a.1 = k
    · have hnone : List.find? (fun e => decide (e.1 = k)) l = none := by
        apply List.find?_eq_none.mpr
        intro e he hk
        apply hn.1
        simp at hk; rw [ha, ← hk]; exact List.mem_map.mpr ⟨e, he, rfl⟩
      rw [hnone] at ih'
      obtain ⟨a1, a2⟩ := a
      simp only at ha; subst ha
      by_cases hp : p (a1, a2) = true
      · simp only [List.filter_cons, hp, Bool.not_true, Bool.false_eq_true, if_false, ih']
        simp [Option.filter, hp]
      · simp [List.filter_cons, hp, Option.filter]
    · by_cases hp : p a = true
      · simp only [List.filter_cons, hp, Bool.not_true, Bool.false_eq_true, if_false, ih']
        simp [List.find?_cons, ha]
      · simp only [List.filter_cons, hp, Bool.not_false, if_true]
        simp only [List.find?_cons, ha, decide_false, ih']

theorem eraseIf_congr {m : GoMap κ ν} {p q : κ × ν → Bool} (h : ∀ e ∈ m.entries, p e = q e) :
    m.eraseIf p = m.eraseIf q := by
  simp only [eraseIf, mk.injEq, true_and]
  apply List.filter_congr
  intro e he; rw [h e he]

theorem mem_keys_eraseIf_key {m : GoMap κ ν} (q : κ → Bool) (k : κ) :
    k ∈ (m.eraseIf (fun e => q e.1)).keys ↔ k ∈ m.keys ∧ q k = false := by
  simp only [eraseIf, keys, List.mem_map, List.mem_filter]
  constructor
  · rintro ⟨e, ⟨he, hq⟩, rfl⟩; exact ⟨⟨e, he, rfl⟩, by simpa using hq⟩
  · rintro ⟨⟨e, he, rfl⟩, hq⟩; exact ⟨e, ⟨he, by simp [hq]⟩, rfl⟩

end Zrnt.Pool.GoMap
