import Proofs.Lemmas.PoolMap
import Zrnt.Pool.Spec
/-!
# Slashing and exit pools: the one-map model against the first-call-per-key specification
-/
set_option linter.unusedSectionVars false
set_option linter.unusedSimpArgs false
namespace Zrnt.Pool
open Zrnt Zrnt.Pool.Spec
variable {κ ν : Type} [DecidableEq κ]

theorem keyedAll_append (h : KeyedSpec κ ν) (k : κ) (v : ν) (seen : List κ) :
    keyedAll (h ++ [(k, v)]) seen =
      if k ∈ seen ∨ k ∈ h.map (·.1) then keyedAll h seen else keyedAll h seen ++ [v] := by
  induction h generalizing seen with
  | nil => by_cases hs : k ∈ seen <;> simp [keyedAll, hs]
  | cons a h ih =>
    obtain ⟨k', v'⟩ := a
    simp only [List.cons_append, keyedAll, List.contains_eq_mem, ih, List.map_cons, List.mem_cons, decide_eq_true_eq]
    grind

/-- every value the pool returns is the value of the first `Add` call for its key -/
theorem mem_keyedAll {h : KeyedSpec κ ν} {seen : List κ} {v : ν} (hv : v ∈ keyedAll h seen) :
    ∃ k, (k, v) ∈ h ∧ k ∉ seen := by
  induction h generalizing seen with
  | nil => simp [keyedAll] at hv
  | cons a h ih =>
    obtain ⟨k', v'⟩ := a
    by_cases hs' : k' ∈ seen
    · simp only [keyedAll, List.contains_eq_mem, hs', decide_true, if_true] at hv
      obtain ⟨k, hk, hn⟩ := ih hv
      exact ⟨k, List.mem_cons_of_mem _ hk, hn⟩
    · simp only [keyedAll, List.contains_eq_mem, hs', decide_false, Bool.false_eq_true, if_false,
        List.mem_cons] at hv
      rcases hv with rfl | hv
      · exact ⟨k', List.mem_cons_self, hs'⟩
      · obtain ⟨k, hk, hn⟩ := ih hv
        exact ⟨k, List.mem_cons_of_mem _ hk, fun hm => hn (List.mem_cons_of_mem _ hm)⟩

/-- simulation relation between the map-based pool and the call history -/
structure KeyedInv (p : KeyedPool κ ν) (h : KeyedSpec κ ν) : Prop where
  wf : p.items.WF
  keys : ∀ k, k ∈ p.items.keys ↔ k ∈ h.map (·.1)
  all : p.all.Perm (keyedAll h [])

theorem keyedInv_new : KeyedInv (KeyedPool.new : KeyedPool κ ν) [] :=
  ⟨GoMap.wf_make, by simp [KeyedPool.new], by simp [KeyedPool.new, KeyedPool.all, keyedAll]⟩

theorem keyed_add_sim {p : KeyedPool κ ν} {h : KeyedSpec κ ν} (hi : KeyedInv p h) (k : κ) (v : ν) :
    ∃ p', p.add k v = .ok (p', (keyedAdd h k v).2) ∧ KeyedInv p' (keyedAdd h k v).1 := by
  unfold KeyedPool.add keyedAdd
  by_cases hk : k ∈ p.items.keys
  · obtain ⟨x, hx⟩ := GoMap.mem_keys_iff.mp hk
    have hk' := (hi.keys k).mp hk
    refine ⟨p, by simp [hx, hk'], hi.wf, ?_, ?_⟩
    · intro k2
      simp only [List.map_append, List.map_cons, List.map_nil, List.mem_append, List.mem_singleton]
      rw [hi.keys k2]
      constructor
      · exact Or.inl
      · rintro (h1 | rfl)
        · exact h1
        · exact hk'
    · rw [keyedAll_append]; simpa [hk'] using hi.all
  · have hk' : k ∉ h.map (·.1) := fun hm => hk ((hi.keys k).mpr hm)
    have hg := GoMap.get?_eq_none_iff.mpr hk
    refine ⟨⟨p.items.insert k v⟩, by simp [hg, GoMap.set_of_wf hi.wf, hk'], GoMap.wf_insert hi.wf.nodup k v, ?_, ?_⟩
    · intro k2
      simp only [GoMap.mem_keys_insert, List.map_append, List.map_cons, List.map_nil, List.mem_append,
        List.mem_singleton, hi.keys k2]
      exact Or.comm
    · rw [keyedAll_append]
      simp only [List.not_mem_nil, hk', or_self, if_false]
      simp only [KeyedPool.all, GoMap.insert_of_not_mem hk, List.map_cons]
      exact (List.Perm.cons v hi.all).trans (List.perm_append_singleton _ _).symm

end Zrnt.Pool
