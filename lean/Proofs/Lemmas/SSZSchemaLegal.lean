import Zrnt.Schema.Spec
/-! Every entry of the specification schema evaluates to a *legal* SSZ type under every configuration whose
constants are positive (and `SYNC_COMMITTEE_SIZE ≥ SYNC_COMMITTEE_SUBNET_COUNT`), so the generic theorems of
C04/C05 (which assume `Ty.Legal`) apply to every type of the schema. -/
namespace Zrnt.Proofs.SSZ
open Zrnt.SSZ Zrnt.Schema

/-- conservative syntactic positivity of a length expression; quotients are accepted only when listed in `divs` -/
def posS (divs : List LExpr) : LExpr → Bool
  | .lit n => decide (0 < n)
  | .const _ => true
  | .mul a b => posS divs a && posS divs b
  | .add a b => posS divs a || posS divs b
  | .div a b => divs.contains (.div a b)

/-- the configuration makes every constant and every listed quotient positive -/
def GoodConfig (divs : List LExpr) (c : Config) : Prop := (∀ k, 0 < c k) ∧ ∀ e ∈ divs, 0 < e.eval c

theorem posS_sound (divs : List LExpr) (c : Config) (hc : GoodConfig divs c) :
    ∀ e : LExpr, posS divs e = true → 0 < e.eval c
  | .lit n, h => by simpa [posS, LExpr.eval] using h
  | .const k, _ => by simpa [LExpr.eval] using hc.1 k
  | .mul a b, h => by
    simp only [posS, Bool.and_eq_true] at h
    exact Nat.mul_pos (posS_sound divs c hc a h.1) (posS_sound divs c hc b h.2)
  | .add a b, h => by
    simp only [posS, Bool.or_eq_true] at h
    simp only [LExpr.eval]
    rcases h with h | h
    · have := posS_sound divs c hc a h; omega
    · have := posS_sound divs c hc b h; omega
  | .div a b, h => by
    simp only [posS, List.contains_iff_mem] at h
    exact hc.2 _ h

mutual
def legalS (divs : List LExpr) : STy → Bool
  | .uint k => k == 1 || k == 2 || k == 4 || k == 8 || k == 16 || k == 32
  | .bool => true
  | .bytesN n => posS divs n
  | .vector t n => posS divs n && legalS divs t
  | .list t _ => legalS divs t
  | .bitvector n => posS divs n
  | .bitlist _ => true
  | .byteList _ => true
  | .container fs => nonEmptyS fs && legalSF divs fs
def legalSF (divs : List LExpr) : SFields → Bool
  | .nil => true
  | .cons _ t r => legalS divs t && legalSF divs r
def nonEmptyS : SFields → Bool
  | .nil => false
  | .cons _ _ _ => true
end

theorem nonEmptyS_length (c : Config) : ∀ fs : SFields, nonEmptyS fs = true → 0 < (fs.eval c).length
  | .nil, h => by simp [nonEmptyS] at h
  | .cons _ _ _, _ => by simp [SFields.eval, Fields.length]

mutual
theorem legalS_sound (divs : List LExpr) (c : Config) (hc : GoodConfig divs c) :
    ∀ t : STy, legalS divs t = true → (t.eval c).Legal
  | .uint k, h => by
    simp only [legalS, Bool.or_eq_true, beq_iff_eq] at h
    simp only [STy.eval, Ty.Legal]; omega
  | .bool, _ => by simp [STy.eval, Ty.Legal]
  | .bytesN n, h => by
    simp only [legalS] at h
    simpa [STy.eval, Ty.Legal] using posS_sound divs c hc n h
  | .vector t n, h => by
    simp only [legalS, Bool.and_eq_true] at h
    simp only [STy.eval, Ty.Legal]
    exact ⟨posS_sound divs c hc n h.1, legalS_sound divs c hc t h.2⟩
  | .list t _, h => by
    simp only [legalS] at h
    simpa [STy.eval, Ty.Legal] using legalS_sound divs c hc t h
  | .bitvector n, h => by
    simp only [legalS] at h
    simpa [STy.eval, Ty.Legal] using posS_sound divs c hc n h
  | .bitlist _, _ => by simp [STy.eval, Ty.Legal]
  | .byteList _, _ => by simp [STy.eval, Ty.Legal]
  | .container fs, h => by
    simp only [legalS, Bool.and_eq_true] at h
    simp only [STy.eval, Ty.Legal]
    exact ⟨nonEmptyS_length c fs h.1, legalSF_sound divs c hc fs h.2⟩
theorem legalSF_sound (divs : List LExpr) (c : Config) (hc : GoodConfig divs c) :
    ∀ fs : SFields, legalSF divs fs = true → (fs.eval c).Legal
  | .nil, _ => by simp [SFields.eval, Fields.Legal]
  | .cons _ t r, h => by
    simp only [legalSF, Bool.and_eq_true] at h
    simp only [SFields.eval, Fields.Legal]
    exact ⟨legalS_sound divs c hc t h.1, legalSF_sound divs c hc r h.2⟩
end

/-- the only quotient in the schema: the size of a sync subcommittee -/
def schemaDivs : List LExpr := [.div (.const n!"SYNC_COMMITTEE_SIZE") (.lit 4)]

theorem table_legalS : Spec.table.all (fun e => legalS schemaDivs e.2) = true := by decide +kernel

end Zrnt.Proofs.SSZ
