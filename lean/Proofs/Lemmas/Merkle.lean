import Zrnt.Util.Merkle
/-! Lemmas about the hand model of `VerifyMerkleBranch` and Merkle trees. -/
namespace Zrnt.Proofs.Merkle
open Zrnt Zrnt.Util.Merkle
variable {α : Type}

theorem fold_eq_spec (H : α → α → α) (branch : List α) (index : Nat) :
    ∀ (rem i : Nat) (v : α), i + rem ≤ branch.length →
      fold H branch index rem i v = .ok (specRoot H v (index >>> i) ((branch.drop i).take rem)) := by
  intro rem
  induction rem with
  | zero => intro i v _; simp [fold, specRoot]
  | succ rem ih =>
    intro i v h
    have hi : i < branch.length := by omega
    have hget : branch[i]? = some branch[i] := List.getElem?_eq_getElem hi
    have hdrop : branch.drop i = branch[i] :: branch.drop (i + 1) := by
      rw [List.drop_eq_getElem_cons hi]
    unfold fold
    rw [hget]
    simp only
    rw [ih (i + 1) _ (by omega), hdrop, List.take_succ_cons]
    simp only [specRoot, stepNode]
    have h2 : index >>> i / 2 = index >>> (i + 1) := by
      rw [Nat.shiftRight_succ]
    rw [h2]

theorem fold_panic (H : α → α → α) (branch : List α) (index : Nat) :
    ∀ (rem i : Nat) (v : α), i ≤ branch.length → branch.length < i + rem →
      fold H branch index rem i v = .panic := by
  intro rem
  induction rem with
  | zero => intro i v h1 h2; omega
  | succ rem ih =>
    intro i v h1 h2
    unfold fold
    by_cases hi : i < branch.length
    · rw [List.getElem?_eq_getElem hi]
      exact ih (i + 1) _ (by omega) (by omega)
    · have : branch[i]? = none := List.getElem?_eq_none (by omega)
      rw [this]

theorem specRoot_append (H : α → α → α) (sibs : List α) (top : α) :
    ∀ (v : α) (idx : Nat), specRoot H v idx (sibs ++ [top]) =
      (if (idx >>> sibs.length) % 2 = 1 then H top (specRoot H v idx sibs) else H (specRoot H v idx sibs) top) := by
  induction sibs with
  | nil => intro v idx; simp [specRoot]
  | cons s rest ih =>
    intro v idx
    simp only [List.cons_append, specRoot, List.length_cons]
    rw [ih]
    have : (idx / 2) >>> rest.length = idx >>> (rest.length + 1) := by
      rw [Nat.shiftRight_succ_inside]
    rw [this]

theorem proof_length (H : α → α → α) : ∀ (t : Tree α) (d idx : Nat) (v : α) (sibs : List α),
    Tree.proof H t d idx = some (v, sibs) → sibs.length = d := by
  intro t
  induction t with
  | leaf x =>
    intro d idx v sibs h
    cases d with
    | zero => simp [Tree.proof] at h; obtain ⟨_, rfl⟩ := h; rfl
    | succ d => simp [Tree.proof] at h
  | node l r ihl ihr =>
    intro d idx v sibs h
    cases d with
    | zero => simp [Tree.proof] at h
    | succ d =>
      simp only [Tree.proof] at h
      split at h
      · cases hp : Tree.proof H r d idx with
        | none => simp [hp] at h
        | some p =>
          simp [hp] at h
          have := ihr d idx p.1 p.2 (by rw [hp])
          rw [← h.2]; simp [this]
      · cases hp : Tree.proof H l d idx with
        | none => simp [hp] at h
        | some p =>
          simp [hp] at h
          have := ihl d idx p.1 p.2 (by rw [hp])
          rw [← h.2]; simp [this]

/-- completeness: a proof read off a Merkle tree verifies against that tree's root -/
theorem proof_verifies (H : α → α → α) : ∀ (t : Tree α) (d idx : Nat) (v : α) (sibs : List α),
    Tree.proof H t d idx = some (v, sibs) → specRoot H v idx sibs = t.root H := by
  intro t
  induction t with
  | leaf x =>
    intro d idx v sibs h
    cases d with
    | zero => simp [Tree.proof] at h; obtain ⟨rfl, rfl⟩ := h; rfl
    | succ d => simp [Tree.proof] at h
  | node l r ihl ihr =>
    intro d idx v sibs h
    cases d with
    | zero => simp [Tree.proof] at h
    | succ d =>
      simp only [Tree.proof] at h
      split at h
      next hb =>
        cases hp : Tree.proof H r d idx with
        | none => simp [hp] at h
        | some p =>
          simp [hp] at h
          have hl := proof_length H r d idx p.1 p.2 (by rw [hp])
          have hr := ihr d idx p.1 p.2 (by rw [hp])
          rw [← h.1, ← h.2, specRoot_append, hl, if_pos hb, hr]; rfl
      next hb =>
        cases hp : Tree.proof H l d idx with
        | none => simp [hp] at h
        | some p =>
          simp [hp] at h
          have hl := proof_length H l d idx p.1 p.2 (by rw [hp])
          have hr := ihl d idx p.1 p.2 (by rw [hp])
          rw [← h.1, ← h.2, specRoot_append, hl, if_neg hb, hr]; rfl
end Zrnt.Proofs.Merkle
