import Zrnt.ForkChoice.Model
/-! C10: older/equal checkpoints are a no-op of `UpdateJustified`. -/
namespace Zrnt.ForkChoice
open FC

theorem older_equal_noop (fc : FC) (h : fc.held = false) (t : Root) (j f : Checkpoint) (b : Option (List Nat))
    (hj : j.epoch ≤ fc.justified.epoch) (hf : f.epoch ≤ fc.finalized.epoch) :
    fc.updateJustified t j f b = .ok fc () := by
  unfold updateJustified withLock
  simp [h, hj, hf]
  cases fc; simp_all

theorem inner_refuses_finalized (fc : FC) (f j : Checkpoint) (b : Option (List Nat)) (pa : PA) (u i : Bool)
    (hje : ¬ j.epoch < f.epoch) (hne : fc.finalized ≠ f)
    (hsub : fc.pa.inSubtree fc.finalized.root f.root = .ok pa (u, i))
    (hbad : u = true ∨ i = false ∨ fc.finalized.epoch > f.epoch) :
    fc.updateJustifiedInner f j b = .err { fc with pa := pa } := by
  unfold updateJustifiedInner checkCp
  simp only [hje, if_false, hne, ne_eq, not_false_eq_true, decide_true, if_true, hsub]
  rcases hbad with h | h | h
  · simp [h]
  · cases u <;> simp [h]
  · cases u <;> cases i <;> simp [h]

theorem inner_refuses_justified (fc : FC) (f j : Checkpoint) (b : Option (List Nat)) (pa : PA) (u i : Bool)
    (hje : ¬ j.epoch < f.epoch) (heq : fc.finalized = f) (hne : fc.justified ≠ j)
    (hsub : fc.pa.inSubtree fc.finalized.root j.root = .ok pa (u, i))
    (hbad : u = true ∨ i = false ∨ fc.finalized.epoch > j.epoch) :
    fc.updateJustifiedInner f j b = .err { fc with pa := pa } := by
  unfold updateJustifiedInner checkCp
  simp only [hje, if_false, heq, ne_eq, not_true_eq_false, decide_false, Bool.false_eq_true]
  subst heq
  simp only [hne, ne_eq, not_false_eq_true, decide_true, if_true, hsub]
  rcases hbad with h | h | h
  · simp [h]
  · cases u <;> simp [h]
  · exact absurd h (by omega)

end Zrnt.ForkChoice
