import Zrnt.ForkChoice.Model
/-! C10: the wrapper's mutex is acquired once per exported call; `UpdateJustified` never blocks; older/equal checkpoints are a no-op. -/
namespace Zrnt.ForkChoice
open FC

def Out.isBlocked {σ α} : Out σ α → Bool
  | .blocked => true
  | _ => false

theorem inner_not_blocked (fc : FC) (f j : Checkpoint) (b : Option (List Nat)) :
    (fc.updateJustifiedInner f j b).isBlocked = false := by
  unfold updateJustifiedInner
  simp only
  repeat' split
  all_goals (try rfl)
  all_goals simp_all [Out.isBlocked]

theorem inner_ne_blocked (fc : FC) (f j : Checkpoint) (b : Option (List Nat)) :
    fc.updateJustifiedInner f j b ≠ .blocked := by
  intro h; have := inner_not_blocked fc f j b; rw [h] at this; simp [Out.isBlocked] at this

theorem withLock_not_blocked {α} (fc : FC) (h : fc.held = false) (body : FC → Out FC α)
    (hb : ∀ fc', (body fc').isBlocked = false) : (fc.withLock body).isBlocked = false := by
  unfold withLock
  simp only [h]
  have := hb { fc with held := true }
  revert this
  cases body { fc with held := true } <;> simp [Out.isBlocked]

theorem updateJustified_returns (fc : FC) (h : fc.held = false) (t : Root) (j f : Checkpoint) (b : Option (List Nat)) :
    (fc.updateJustified t j f b).isBlocked = false := by
  unfold updateJustified
  apply withLock_not_blocked _ h
  intro fc'
  simp only
  repeat' split
  all_goals (try rfl)
  all_goals (try exact absurd ‹_ = Out.blocked› (inner_ne_blocked _ _ _ _))

theorem older_equal_noop (fc : FC) (h : fc.held = false) (t : Root) (j f : Checkpoint) (b : Option (List Nat))
    (hj : j.epoch ≤ fc.justified.epoch) (hf : f.epoch ≤ fc.finalized.epoch) :
    fc.updateJustified t j f b = .ok fc () := by
  unfold updateJustified withLock
  simp [h, hj, hf]
  cases fc; simp_all

end Zrnt.ForkChoice
