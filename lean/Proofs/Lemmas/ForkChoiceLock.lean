import Zrnt.ForkChoice.Model
/-! C10: older/equal checkpoints are a no-op of `UpdateJustified`. -/
namespace Zrnt.ForkChoice
open FC

theorem older_equal_noop (fc : FC) (h : fc.held = false) (t : Root) (j f : Checkpoint) (b : Option (List Nat))
    (hj : j.epoch ≤ fc.justified.epoch) (hf : f.epoch ≤ fc.finalized.epoch) :
    fc.updateJustified t j f b = .ok fc () := by
  unfold updateJustified withLock
  simp [h, hj, hf]
  cases fc; simp_all

end Zrnt.ForkChoice
