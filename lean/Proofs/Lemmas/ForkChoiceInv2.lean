import Proofs.Lemmas.ForkChoiceInv2Base
import Proofs.Lemmas.ForkChoicePruneInv
/-! Chain structure, applied votes and weights: invariants over every admissible operation sequence (`inv_weights`),
pruning included. -/
namespace Zrnt.ForkChoice
open FC

/-- `UpdateJustified` keeps all invariants, whether or not it moves the finalized checkpoint and prunes -/
theorem safeI_updateJustified (fc : FC) (hh : fc.held = false) (I : FI fc) (t : Root) (j f : Checkpoint)
    (b : Option (List Nat)) : SafeI (fc.updateJustified t j f b) := by
  unfold updateJustified
  apply safeI_withLock fc hh
  simp only
  split
  · exact ⟨I, rfl⟩
  · have hafter : ∀ fc1 : FC, FI fc1 → fc1.held = true → BodyI { fc with held := true } (
        match fc1.updateJustifiedInner f j b with
        | .panic => .panic
        | .blocked => .blocked
        | .err fc => .err fc
        | .ok fc _ =>
          if fc1.finalized ≠ f then
            match ({ fc with pin := none } : FC).pa.onPrune f.root (f.epoch * ({ fc with pin := none } : FC).spe) with
            | .panic => .panic
            | .spin => .blocked
            | .err pa => .err { ({ fc with pin := none } : FC) with pa := pa }
            | .ok pa _ => .ok { ({ fc with pin := none } : FC) with pa := pa } ()
          else .ok fc ()) := by
      intro fc1 I1 hh1
      have hi := inner_inv fc1 I1 f j b
      cases he : fc1.updateJustifiedInner f j b with
      | panic => rw [he] at hi; exact hi.elim
      | blocked => rw [he] at hi; exact hi.elim
      | err s => rw [he] at hi; exact ⟨hi.1, by rw [hi.2.1]; exact hh1⟩
      | ok s u =>
        rw [he] at hi
        simp only
        split
        · have hp := pinv_onPrune s.pa s.votes s.balances hi.1 f.root (f.epoch * s.spe)
          revert hp
          show (match s.pa.onPrune f.root (f.epoch * s.spe) with
              | .ok q _ => PInv q s.votes s.balances | .err q => PInv q s.votes s.balances | _ => False) → _
          cases s.pa.onPrune f.root (f.epoch * s.spe) with
          | ok pa u => exact fun hp => ⟨hp, by show s.held = true; rw [hi.2.1]; exact hh1⟩
          | err pa => exact fun hp => ⟨hp, by show s.held = true; rw [hi.2.1]; exact hh1⟩
          | panic => exact fun hp => hp
          | spin => exact fun hp => hp
        · exact ⟨hi.1, by rw [hi.2.1]; exact hh1⟩
    cases hpin : fc.pin with
    | none => exact hafter _ I rfl
    | some pin =>
      simp only
      split
      · obtain ⟨pr', res, e, hw, hf⟩ := inSubtree_wf fc.pa I.wf pin.root t
        rw [e]
        obtain ⟨u, i⟩ := res
        simp only
        have I' : FI { fc with pa := pr', held := true } := PInv.frame I hw hf
        split
        · exact ⟨I', rfl⟩
        · split
          · exact ⟨I', rfl⟩
          · exact hafter _ I' rfl
      · exact hafter _ I rfl

theorem pinv_new (parent root : Root) (slot jE fE : Nat) (sink : SinkKind) (hr : root ≠ 0) :
    PInv (PA.new parent root slot jE fE sink) [] [] := by
  refine ⟨wf_new .., chain_new .., ?_, ?_⟩
  · unfold NoZero PA.new
    simp only [aGet, NodeRef.zero]
    have : (⟨slot, root⟩ : NodeRef) ≠ ⟨0, 0⟩ := by
      intro h; injection h with h1 h2; exact hr h2
    simp [this]
  · intro i n hn
    cases i with
    | zero => simp [PA.new] at hn; subst hn; simp [wsum, wsumFrom]
    | succ k => simp [PA.new] at hn

/-- outcome of the constructor under the full invariant -/
def NewI (r : Out FC Unit) : Prop :=
  match r with
  | .ok fc _ => fc.held = false ∧ FI fc
  | .err _ => True
  | .panic => False
  | .blocked => False

theorem newTail_inv (fc0 : FC) (hh0 : fc0.held = false) (I0 : FI fc0) (f j : Checkpoint) (ar : Root) (aslot : Nat)
    (bals : List Nat) :
    NewI (match fc0.setPin ar aslot with
      | .ok fc _ => fc.updateJustifiedInner f j (some bals)
      | .err fc => .err fc
      | .panic => .panic
      | .blocked => .blocked) := by
  rcases setPin_eq fc0 hh0 ar aslot with e | e
  · rw [e]
    simp only
    have hi := inner_inv { fc0 with pin := some ⟨aslot, ar⟩ } I0 f j (some bals)
    cases he : FC.updateJustifiedInner { fc0 with pin := some ⟨aslot, ar⟩ } f j (some bals) with
    | panic => rw [he] at hi; exact hi.elim
    | blocked => rw [he] at hi; exact hi.elim
    | err s2 => trivial
    | ok s2 u2 =>
      rw [he] at hi
      exact ⟨by rw [hi.2.1]; exact hh0, hi.1⟩
  · rw [e]; trivial

theorem new_inv (spe : Nat) (f j : Checkpoint) (ar : Root) (aslot : Nat) (ap : Root) (bals : List Nat) (sink : SinkKind)
    (hr : ar ≠ 0) : NewI (FC.new spe f j ar aslot ap bals sink) := by
  unfold FC.new
  exact newTail_inv (FC.mk (PA.new ap ar aslot j.epoch f.epoch sink) [] true spe [] none j f false) rfl
    (pinv_new ap ar aslot j.epoch f.epoch sink hr) f j ar aslot bals

/-! ## the machine -/

/-- full invariant of the harness machine -/
def MInv2 : MState → Prop
  | .none => True
  | .live fc => fc.held = false ∧ FI fc
  | .dead => False

/-- the insertion does not re-create a node that an applied vote names although it is not (no longer) in the array:
a pruned node does not come back -/
def NoRevive (fc : FC) (pa' : PA) : Prop :=
  ∀ v ∈ fc.votes, aGet fc.pa.indices v.cur = none → aGet pa'.indices v.cur = none

/-- the step is inside the domain of the refinement: roots are non-zero, an empty-slot insertion is under a known
root at or after its first slot (or re-inserts an existing node), a new block root is not one that a vote still
refers to (a root identifies one block), and no insertion re-creates a pruned node that an applied vote names.
`UpdateJustified` is unrestricted: it may move the finalized checkpoint and prune. -/
def StepOK (st : MState) (op : Op) : Prop :=
  match op, st with
  | .init _ ar _ _ _ _ _ _, _ => ar ≠ 0
  | .slot p s j f, .live fc =>
    p ≠ 0 ∧ ((aGet fc.pa.indices ⟨s, p⟩).isSome ∨ ∃ s0, aGet fc.pa.blockSlots p = some s0 ∧ s0 ≤ s) ∧
      NoRevive fc (fc.pa.processSlot p s j f)
  | .block p r s j f, .live fc =>
    p ≠ 0 ∧ r ≠ 0 ∧ (aGet fc.pa.blockSlots r = none → ∀ v ∈ fc.votes, v.next.root ≠ r ∧ v.cur.root ≠ r) ∧
      NoRevive fc ((fc.pa.processBlock p r s j f).getD (fc.pa, false)).1
  | .att _ r s, .live _ => ¬ (r = 0 ∧ s = 0)
  | _, _ => True

/-- every step of the history is inside the domain -/
def Admissible : MState → List Op → Prop
  | _, [] => True
  | st, op :: ops => StepOK st op ∧ Admissible (step st op).1 ops

theorem finish_inv2 {α : Type} (r : Out FC α) (f : α → Ans) (hs : SafeI r) : MInv2 (finish r f).1 := by
  unfold finish
  cases r with
  | ok s a => exact hs
  | err s => exact hs
  | panic => exact hs.elim
  | blocked => exact hs.elim

theorem stepLive_inv2 (fc : FC) (hh : fc.held = false) (I : FI fc) (op : Op) (hok : StepOK (.live fc) op) :
    MInv2 (stepLive fc op).1 := by
  cases op with
  | init => exact ⟨hh, I⟩
  | slot p s j f => exact finish_inv2 _ _ (safeI_processSlot fc hh I p s j f hok.1 hok.2.1 hok.2.2)
  | block p r s j f => exact finish_inv2 _ _ (safeI_processBlock fc hh I p r s j f hok.1 hok.2.1 hok.2.2.2)
  | att v r s => exact finish_inv2 _ _ (safeI_processAttestation fc hh I v r s)
  | justify t j f b =>
    have I0 : FI { fc with pa := { fc.pa with sinkLog := [] } } :=
      ⟨wf_sinkLog I.wf [], chain_congr (pr := fc.pa) (pr' := { fc.pa with sinkLog := [] }) rfl rfl rfl (fun _ => rfl) I.chain, I.nz, fun i n hn => by
        have := I.w i n hn
        rw [this]
        exact (wsumFrom_congr fc.pa { fc.pa with sinkLog := [] } fc.balances i fc.votes 0 (fun _ _ => rfl)).symm⟩
    have hs := safeI_updateJustified { fc with pa := { fc.pa with sinkLog := [] } } hh I0 t j f b
    unfold stepLive
    simp only
    cases he : FC.updateJustified { fc with pa := { fc.pa with sinkLog := [] } } t j f b with
    | ok s a => rw [he] at hs; exact hs
    | err s => rw [he] at hs; exact hs
    | panic => rw [he] at hs; exact hs.elim
    | blocked => rw [he] at hs; exact hs.elim
  | pin r s => exact finish_inv2 _ _ (safeI_setPin fc hh I r s)
  | head => exact finish_inv2 _ _ (safeI_head fc hh I)
  | findHead r s => exact finish_inv2 _ _ (safeI_queryAfterVotes fc hh I _ (fun pr hw => goodFr_findHead pr hw r s))
  | chain r s => exact finish_inv2 _ _ (safeI_queryAfterVotes fc hh I _ (fun pr hw => goodFr_canonicalChain pr hw r s))
  | closest r s => exact finish_inv2 _ _ (safeI_closest fc hh I r s)
  | canonAt r s w => exact finish_inv2 _ _ (safeI_queryAfterVotes fc hh I _ (fun pr hw => goodFr_canonAtSlot pr hw r s w))
  | getSlot r => exact finish_inv2 _ _ (safeI_getSlot fc hh I r)
  | inSub a r => exact finish_inv2 _ _ (safeI_inSubtree fc hh I a r)
  | search a p s => exact finish_inv2 _ _ (safeI_queryAfterVotes fc hh I _ (fun pr hw => goodFr_search pr hw a p s))
  | just => exact ⟨hh, I⟩
  | fin => exact ⟨hh, I⟩
  | pinq => exact ⟨hh, I⟩
  | nodes => exact ⟨hh, I⟩

theorem step_inv2 (st : MState) (h : MInv2 st) (op : Op) (hok : StepOK st op) : MInv2 (step st op).1 := by
  cases op with
  | init spe ar aslot ap j f sink bals =>
    have hn := new_inv spe f j ar aslot ap bals sink (by cases st <;> exact hok)
    unfold step
    simp only
    cases he : FC.new spe f j ar aslot ap bals sink with
    | ok fc u => rw [he] at hn; exact hn
    | err s => trivial
    | panic => rw [he] at hn; exact hn.elim
    | blocked => rw [he] at hn; exact hn.elim
  | _ =>
    cases st with
    | none => trivial
    | dead => exact h.elim
    | live fc => exact stepLive_inv2 fc h.1 h.2 _ hok

/-- **Weights, chain-structure and votes invariants over all admissible operation sequences.** For every history
inside the domain (non-zero roots, well-placed empty-slot insertions, pruned nodes do not come back) — finalizing
updates and pruning included — the live
instance satisfies: structure invariant `WF`, chain structure `Chain`, every applied vote is a node, and the
weight of every node is the sum of the current balances of the validators whose applied vote lies in its
fork-choice subtree (a vote counts once; moving it subtracts the old and adds the new balance; balance changes
are applied as new − old). No call panics, blocks or loops. -/
theorem inv_weights : ∀ (ops : List Op) (st : MState), MInv2 st → Admissible st ops → MInv2 (run st ops).1 := by
  intro ops
  induction ops with
  | nil => intro st h _; simpa [run] using h
  | cons op rest ih =>
    intro st h ha
    rw [run_cons]
    exact ih _ (step_inv2 st h op ha.1) ha.2

/-- executable version of `NoRevive` -/
def noReviveB (fc : FC) (pa' : PA) : Bool :=
  fc.votes.all (fun v => (aGet fc.pa.indices v.cur).isSome || (aGet pa'.indices v.cur).isNone)

theorem noReviveB_sound (fc : FC) (pa' : PA) (h : noReviveB fc pa' = true) : NoRevive fc pa' := by
  intro v hv hn
  unfold noReviveB at h
  rw [List.all_eq_true] at h
  have := h v hv
  simp [hn] at this
  exact this

/-- executable version of `StepOK` -/
def stepOKb (st : MState) (op : Op) : Bool :=
  match op, st with
  | .init _ ar _ _ _ _ _ _, _ => decide (ar ≠ 0)
  | .slot p s j f, .live fc =>
    decide (p ≠ 0) && ((aGet fc.pa.indices ⟨s, p⟩).isSome ||
      (match aGet fc.pa.blockSlots p with | some s0 => decide (s0 ≤ s) | none => false)) &&
      noReviveB fc (fc.pa.processSlot p s j f)
  | .block p r s j f, .live fc =>
    decide (p ≠ 0) && decide (r ≠ 0) &&
      ((aGet fc.pa.blockSlots r).isSome || fc.votes.all (fun v => decide (v.next.root ≠ r) && decide (v.cur.root ≠ r))) &&
      noReviveB fc ((fc.pa.processBlock p r s j f).getD (fc.pa, false)).1
  | .att _ r s, .live _ => decide (¬ (r = 0 ∧ s = 0))
  | _, _ => true

theorem stepOKb_sound (st : MState) (op : Op) (h : stepOKb st op = true) : StepOK st op := by
  cases op with
  | init spe ar aslot ap j f sink bals => cases st <;> simpa [stepOKb, StepOK] using h
  | slot p s j f =>
    cases st with
    | none => trivial
    | dead => trivial
    | live fc =>
      simp only [stepOKb, Bool.and_eq_true, Bool.or_eq_true, decide_eq_true_eq] at h
      refine ⟨h.1.1, ?_, noReviveB_sound _ _ h.2⟩
      rcases h.1.2 with h2 | h2
      · exact Or.inl h2
      · cases hb : aGet fc.pa.blockSlots p with
        | none => simp [hb] at h2
        | some s0 => simp [hb] at h2; exact Or.inr ⟨s0, rfl, h2⟩
  | block p r s j f =>
    cases st with
    | none => trivial
    | dead => trivial
    | live fc =>
      simp only [stepOKb, Bool.and_eq_true, Bool.or_eq_true, decide_eq_true_eq, List.all_eq_true] at h
      refine ⟨h.1.1.1, h.1.1.2, fun hnone v hv => ?_, noReviveB_sound _ _ h.2⟩
      rcases h.1.2 with h2 | h2
      · rw [hnone] at h2; cases h2
      · exact h2 v hv
  | att v r s =>
    cases st with
    | none => trivial
    | dead => trivial
    | live fc =>
      simp only [stepOKb, decide_eq_true_eq] at h
      exact h
  | _ => cases st <;> trivial

def admissibleB : MState → List Op → Bool
  | _, [] => true
  | st, op :: ops => stepOKb st op && admissibleB (step st op).1 ops

theorem admissibleB_sound : ∀ (ops : List Op) (st : MState), admissibleB st ops = true → Admissible st ops := by
  intro ops
  induction ops with
  | nil => intro _ _; trivial
  | cons op rest ih =>
    intro st h
    simp only [admissibleB, Bool.and_eq_true] at h
    exact ⟨stepOKb_sound st op h.1, ih _ h.2⟩

end Zrnt.ForkChoice
