import Proofs.Lemmas.ForkChoiceInv
import Proofs.Lemmas.ForkChoiceWeights
/-! Chain structure, applied votes and weights: invariants over every admissible operation sequence (`inv_weights`). -/
namespace Zrnt.ForkChoice
open FC

/-- a query returned with a well-formed array that differs from the old one only in links and the flag -/
def GoodFr {α : Type} (pr : PA) (r : POut PA α) : Prop :=
  match r with
  | .ok s _ => WF s ∧ Frame pr s
  | .err s => WF s ∧ Frame pr s
  | .panic => False
  | .spin => False

theorem goodFr_findHead (pr : PA) (h : WF pr) (root : Root) (slot : Nat) : GoodFr pr (pr.findHead root slot) := by
  rw [findHead_eq]
  have step : ∀ q : PA, WF q → Frame pr q → GoodFr pr (findHeadStep q root slot) := by
    intro q hq fq
    rcases findHeadStep_cases q hq root slot with ⟨r, e, _⟩ | e
    · rw [e]; exact ⟨hq, fq⟩
    · rw [e]; exact ⟨hq, fq⟩
  split
  · exact step pr h (Frame.refl pr)
  · obtain ⟨pr1, h1, hw1, _, hf1⟩ := wf_updateConnections pr h
    rw [h1]
    exact step pr1 hw1 hf1

theorem goodFr_inSubtree (pr : PA) (h : WF pr) (a r : Root) : GoodFr pr (pr.inSubtree a r) := by
  obtain ⟨pr', res, e, hw, hf⟩ := inSubtree_wf pr h a r
  rw [e]; exact ⟨hw, hf⟩

theorem goodFr_canonicalChain (pr : PA) (h : WF pr) (root : Root) (slot : Nat) :
    GoodFr pr (pr.canonicalChain root slot) := by
  have hg := goodFr_findHead pr h root slot
  unfold PA.canonicalChain
  cases hf : pr.findHead root slot with
  | ok s a => rw [hf] at hg; simp only; split <;> exact hg
  | err s => rw [hf] at hg; exact hg
  | panic => rw [hf] at hg; exact hg.elim
  | spin => rw [hf] at hg; exact hg.elim

theorem goodFr_canonAtSlot (pr : PA) (h : WF pr) (anchor : Root) (slot : Nat) (wb : Bool) :
    GoodFr pr (pr.canonAtSlot anchor slot wb) := by
  unfold PA.canonAtSlot
  have triv : WF pr ∧ Frame pr pr := ⟨h, Frame.refl pr⟩
  cases hb : aGet pr.blockSlots anchor with
  | none => exact triv
  | some anchorSlot =>
    simp only
    split
    · exact triv
    · split
      · rename_i heq
        split
        · have hsome := h.bs_node anchor anchorSlot hb
          rw [heq] at hsome
          cases hi : aGet pr.indices ⟨slot, anchor⟩ with
          | none => rw [hi] at hsome; exact absurd hsome (by simp)
          | some i =>
            simp only
            obtain ⟨n, hn, _⟩ := h.idx_sound _ _ hi
            rw [hn]
            simp only
            split <;> exact triv
        · exact triv
      · have hg := goodFr_findHead pr h anchor anchorSlot
        cases hf : pr.findHead anchor anchorSlot with
        | ok s a =>
          rw [hf] at hg; simp only
          split
          · exact hg
          · split <;> exact hg
        | err s => rw [hf] at hg; exact hg
        | panic => rw [hf] at hg; exact hg.elim
        | spin => rw [hf] at hg; exact hg.elim

theorem goodFr_search (pr : PA) (h : WF pr) (anchor : NodeRef) (pR : Option Root) (sl : Option Nat) :
    GoodFr pr (pr.search anchor pR sl) := by
  have hg := goodFr_findHead pr h anchor.root anchor.slot
  unfold PA.search
  cases hf : pr.findHead anchor.root anchor.slot with
  | ok s a =>
    rw [hf] at hg; simp only
    obtain ⟨nc', c', e⟩ := searchLoop_done s hg.1 ((aGet s.indices anchor).getD 0) ((aGet s.indices a).getD 0) a pR sl
      s.nodes [] [] (fun n hn => by
        obtain ⟨i, hi, e⟩ := List.mem_iff_getElem.mp hn
        exact ⟨i, by rw [List.getElem?_eq_getElem hi, e]⟩)
    rw [e]; exact hg
  | err s => rw [hf] at hg; exact hg
  | panic => rw [hf] at hg; exact hg.elim
  | spin => rw [hf] at hg; exact hg.elim

/-- the invariants of the array together with the vote trackers and balances -/
structure PInv (pr : PA) (votes : List Vote) (bals : List Nat) : Prop where
  wf : WF pr
  chain : Chain pr
  nz : NoZero pr
  w : WeightsAre pr votes bals

theorem PInv.frame {pr pr' : PA} {votes : List Vote} {bals : List Nat} (I : PInv pr votes bals) (hw : WF pr')
    (f : Frame pr pr') : PInv pr' votes bals :=
  ⟨hw, chain_congr f.indices f.blockSlots f.len f.skel I.chain, noZero_frame pr pr' f I.nz,
   weights_frame pr pr' f votes bals I.w⟩

/-- `ComputeDeltas` + `ApplyScoreChanges` re-establish the invariants for the new trackers and balances -/
theorem PInv.applyDeltas {pr : PA} {votes : List Vote} {oldB : List Nat} (I : PInv pr votes oldB) (newB : List Nat)
    (jE fE : Nat) :
    ∃ ds vs' pr', computeDeltas pr.indices votes oldB newB = some (ds, vs') ∧
      pr.applyScoreChanges ds jE fE = .ok pr' () ∧ PInv pr' vs' newB := by
  obtain ⟨ds, vs', e, _, _⟩ := computeDeltas_ok pr I.wf votes oldB newB
  obtain ⟨pr', e2, hw, fr, hwt⟩ := weights_applyDeltas pr I.wf I.nz votes oldB newB I.w ds vs' e jE fE
  refine ⟨ds, vs', pr', e, e2, hw, chain_congr fr.indices fr.blockSlots fr.len fr.skel I.chain,
    noZero_frameS pr pr' fr I.nz, hwt⟩

/-- invariant of a wrapper state (mutex aside) -/
def FI (fc : FC) : Prop := PInv fc.pa fc.votes fc.balances

/-- outcome of a method body: returned, invariant kept, mutex flag untouched -/
def BodyI {α : Type} (fc0 : FC) (r : Out FC α) : Prop :=
  match r with
  | .ok s _ => FI s ∧ s.held = fc0.held
  | .err s => FI s ∧ s.held = fc0.held
  | .panic => False
  | .blocked => False

/-- outcome of an exported method -/
def SafeI {α : Type} (r : Out FC α) : Prop :=
  match r with
  | .ok s _ => s.held = false ∧ FI s
  | .err s => s.held = false ∧ FI s
  | .panic => False
  | .blocked => False

theorem safeI_withLock {α : Type} (fc : FC) (hh : fc.held = false) (body : FC → Out FC α)
    (hb : BodyI { fc with held := true } (body { fc with held := true })) : SafeI (fc.withLock body) := by
  unfold withLock
  simp only [hh, Bool.false_eq_true, if_false]
  revert hb
  cases body { fc with held := true } with
  | ok s a => exact fun hb => ⟨rfl, hb.1⟩
  | err s => exact fun hb => ⟨rfl, hb.1⟩
  | panic => exact fun hb => hb
  | blocked => exact fun hb => hb

theorem updateVotesMaybe_inv (fc : FC) (I : FI fc) :
    ∃ fc', fc.updateVotesMaybe = .ok fc' () ∧ FI fc' ∧ fc'.held = fc.held ∧ fc'.pin = fc.pin ∧
      fc'.justified = fc.justified ∧ fc'.finalized = fc.finalized ∧ fc'.spe = fc.spe := by
  unfold updateVotesMaybe
  split
  · exact ⟨fc, rfl, I, rfl, rfl, rfl, rfl, rfl⟩
  · obtain ⟨ds, vs', pr', e, e2, I'⟩ := PInv.applyDeltas I fc.balances fc.justified.epoch fc.finalized.epoch
    rw [e]
    simp only
    rw [e2]
    exact ⟨_, rfl, I', rfl, rfl, rfl, rfl, rfl⟩

theorem bodyI_liftPA {α : Type} (fc0 fc : FC) (I : FI fc) (hh : fc.held = fc0.held) (r : POut PA α)
    (hg : GoodFr fc.pa r) : BodyI fc0 (fc.liftPA r) := by
  unfold liftPA
  cases r with
  | ok s a => exact ⟨PInv.frame I hg.1 hg.2, hh⟩
  | err s => exact ⟨PInv.frame I hg.1 hg.2, hh⟩
  | panic => exact hg.elim
  | spin => exact hg.elim

theorem bodyI_afterVotes {α : Type} (fc : FC) (I : FI fc) (f : PA → POut PA α)
    (hf : ∀ pr, WF pr → GoodFr pr (f pr)) : BodyI fc (fc.afterVotes f) := by
  unfold afterVotes
  obtain ⟨fc', e, I', hh, _⟩ := updateVotesMaybe_inv fc I
  rw [e]
  exact bodyI_liftPA fc fc' I' hh _ (hf _ I'.wf)

/-- outcome of the unexported `updateJustified` -/
def KeepsI (fc0 : FC) (r : Out FC Unit) : Prop :=
  match r with
  | .ok s _ => FI s ∧ s.held = fc0.held ∧ s.spe = fc0.spe
  | .err s => FI s ∧ s.held = fc0.held ∧ s.spe = fc0.spe
  | .panic => False
  | .blocked => False

theorem checkCp_inv (fc0 fc : FC) (I : FI fc) (hh : fc.held = fc0.held) (hs : fc.spe = fc0.spe) (changed : Bool)
    (cp : Checkpoint) (k : FC → Out FC Unit)
    (hk : ∀ fc', FI fc' → fc'.held = fc0.held → fc'.spe = fc0.spe → KeepsI fc0 (k fc')) :
    KeepsI fc0 (fc.checkCp changed cp k) := by
  unfold checkCp
  split
  · obtain ⟨pr', res, e, hw, hf⟩ := inSubtree_wf fc.pa I.wf fc.finalized.root cp.root
    rw [e]
    obtain ⟨u, i⟩ := res
    simp only
    have I' : FI { fc with pa := pr' } := PInv.frame I hw hf
    split
    · exact ⟨I', hh, hs⟩
    · split
      · exact ⟨I', hh, hs⟩
      · exact hk _ I' hh hs
  · exact hk fc I hh hs

theorem inner_inv (fc : FC) (I : FI fc) (f j : Checkpoint) (b : Option (List Nat)) :
    KeepsI fc (fc.updateJustifiedInner f j b) := by
  unfold updateJustifiedInner
  split
  · exact ⟨I, rfl, rfl⟩
  · apply checkCp_inv fc fc I rfl rfl
    intro fc1 I1 hh1 hs1
    apply checkCp_inv fc fc1 I1 hh1 hs1
    intro fc2 I2 hh2 hs2
    cases b with
    | none => exact ⟨I2, hh2, hs2⟩
    | some newBals =>
      simp only
      obtain ⟨ds, vs', pr', e, e2, I'⟩ := PInv.applyDeltas I2 newBals j.epoch f.epoch
      rw [e]
      simp only
      rw [e2]
      exact ⟨I', hh2, hs2⟩

theorem safeI_queryAfterVotes {α : Type} (fc : FC) (hh : fc.held = false) (I : FI fc) (f : PA → POut PA α)
    (hf : ∀ pr, WF pr → GoodFr pr (f pr)) : SafeI (fc.withLock (·.afterVotes f)) := by
  apply safeI_withLock fc hh
  exact bodyI_afterVotes { fc with held := true } I f hf

theorem safeI_head (fc : FC) (hh : fc.held = false) (I : FI fc) : SafeI fc.head := by
  unfold FC.head
  apply safeI_withLock fc hh
  obtain ⟨fc', e, I', hh', _⟩ := updateVotesMaybe_inv { fc with held := true } I
  rw [e]
  simp only
  split
  · exact bodyI_liftPA _ fc' I' hh' _ (goodFr_findHead _ I'.wf _ _)
  · exact bodyI_liftPA _ fc' I' hh' _ (goodFr_findHead _ I'.wf _ _)

theorem safeI_inSubtree (fc : FC) (hh : fc.held = false) (I : FI fc) (a r : Root) : SafeI (fc.inSubtree a r) := by
  unfold FC.inSubtree
  apply safeI_withLock fc hh
  exact bodyI_liftPA _ { fc with held := true } I rfl _ (goodFr_inSubtree fc.pa I.wf a r)

theorem safeI_setPin (fc : FC) (hh : fc.held = false) (I : FI fc) (r : Root) (s : Nat) : SafeI (fc.setPin r s) := by
  rcases setPin_eq fc hh r s with e | e
  · rw [e]; exact ⟨hh, I⟩
  · rw [e]; exact ⟨hh, I⟩

theorem safeI_closest (fc : FC) (hh : fc.held = false) (I : FI fc) (a : Root) (s : Nat) :
    SafeI (fc.closestToSlot a s) := by
  unfold FC.closestToSlot
  apply safeI_withLock fc hh
  simp only
  split <;> exact ⟨I, rfl⟩

theorem safeI_getSlot (fc : FC) (hh : fc.held = false) (I : FI fc) (r : Root) : SafeI (fc.getSlot r) := by
  unfold FC.getSlot
  apply safeI_withLock fc hh
  exact ⟨I, rfl⟩

theorem safeI_processAttestation (fc : FC) (hh : fc.held = false) (I : FI fc) (v : Nat) (r : Root) (s : Nat) :
    SafeI (fc.processAttestation v r s) := by
  unfold processAttestation
  apply safeI_withLock fc hh
  simp only
  split
  · exact ⟨I, rfl⟩
  · split
    · exact ⟨I, rfl⟩
    · split
      · exact ⟨I, rfl⟩
      · refine ⟨⟨I.wf, I.chain, I.nz, ?_⟩, rfl⟩
        intro i n hn
        show n.weight = wsum fc.pa (voteProcess fc.spe fc.votes fc.changed v r s).1 fc.balances i
        rw [voteProcess_weights fc.pa I.nz]
        exact I.w i n hn

theorem safeI_processSlot (fc : FC) (hh : fc.held = false) (I : FI fc) (p : Root) (s j f : Nat) (hp : p ≠ 0)
    (hok : (aGet fc.pa.indices ⟨s, p⟩).isSome ∨ ∃ s0, aGet fc.pa.blockSlots p = some s0 ∧ s0 ≤ s)
    (hnr : ∀ v ∈ fc.votes, aGet fc.pa.indices v.cur = none → aGet (fc.pa.processSlot p s j f).indices v.cur = none) :
    SafeI (fc.processSlot p s j f) := by
  unfold FC.processSlot
  apply safeI_withLock fc hh
  have hw' := wf_processSlot fc.pa I.wf p s j f
  have g := processSlot_frame fc.pa I.wf p s j f
  have hz' := noZero_grow fc.pa _ I.nz g I.wf hw' (fun r hr => by rw [hr]; exact hp)
  have w' := weights_grow' fc.pa _ I.wf hw' g hz' fc.votes fc.balances hnr I.w
  exact ⟨⟨hw', chain_processSlot fc.pa I.wf I.chain p s j f hok, hz', w'⟩, rfl⟩

theorem safeI_processBlock (fc : FC) (hh : fc.held = false) (I : FI fc) (p r : Root) (s j f : Nat) (hp : p ≠ 0)
    (hr : r ≠ 0)
    (hnr : ∀ v ∈ fc.votes, aGet fc.pa.indices v.cur = none →
      aGet ((fc.pa.processBlock p r s j f).getD (fc.pa, false)).1.indices v.cur = none) :
    SafeI (fc.processBlock p r s j f) := by
  unfold FC.processBlock
  apply safeI_withLock fc hh
  obtain ⟨pr', b, e, hw', g⟩ := processBlock_spec fc.pa I.wf p r s j f
  simp only
  rw [e]
  have hz' := noZero_grow fc.pa pr' I.nz g I.wf hw' (fun x hx => by
    rcases hx with hx | hx
    · rw [hx]; exact hp
    · rw [hx]; exact hr)
  have hnr' : ∀ v ∈ fc.votes, aGet fc.pa.indices v.cur = none → aGet pr'.indices v.cur = none := by
    intro v hv hn; have := hnr v hv hn; rw [e] at this; exact this
  have w' := weights_grow' fc.pa pr' I.wf hw' g hz' fc.votes fc.balances hnr' I.w
  exact ⟨⟨hw', chain_processBlock fc.pa I.wf I.chain p r s j f pr' b e, hz', w'⟩, rfl⟩

/-- `UpdateJustified` with an unchanged finalized checkpoint (nothing to prune) keeps all invariants -/
theorem safeI_updateJustified (fc : FC) (hh : fc.held = false) (I : FI fc) (t : Root) (j f : Checkpoint)
    (b : Option (List Nat)) (hq : f = fc.finalized) : SafeI (fc.updateJustified t j f b) := by
  unfold updateJustified
  apply safeI_withLock fc hh
  simp only
  split
  · exact ⟨I, rfl⟩
  · have hafter : ∀ fc1 : FC, FI fc1 → fc1.held = true → fc1.finalized = f → BodyI { fc with held := true } (
        match fc1.updateJustifiedInner f j b with
        | .panic => .panic
        | .blocked => .blocked
        | .err fc => .err fc
        | .ok fc _ =>
          if fc1.finalized ≠ f then
            match ({ fc with pin := none } : FC).pa.onPrune f.root (f.epoch * ({ fc with pin := none } : FC).spe) with
            | .panic => .panic
            | .spin => .blocked
            | .err pa => .err { ({ fc with pin := none } : FC) with pa := pa }
            | .ok pa _ => .ok { ({ fc with pin := none } : FC) with pa := pa } ()
          else .ok fc ()) := by
      intro fc1 I1 hh1 hf1
      have hi := inner_inv fc1 I1 f j b
      cases he : fc1.updateJustifiedInner f j b with
      | panic => rw [he] at hi; exact hi.elim
      | blocked => rw [he] at hi; exact hi.elim
      | err s => rw [he] at hi; exact ⟨hi.1, by rw [hi.2.1]; exact hh1⟩
      | ok s u =>
        rw [he] at hi
        simp only [hf1, ne_eq, not_true_eq_false, if_false]
        exact ⟨hi.1, by rw [hi.2.1]; exact hh1⟩
    cases hpin : fc.pin with
    | none => exact hafter _ I rfl hq.symm
    | some pin =>
      simp only
      split
      · obtain ⟨pr', res, e, hw, hf⟩ := inSubtree_wf fc.pa I.wf pin.root t
        rw [e]
        obtain ⟨u, i⟩ := res
        simp only
        have I' : FI { fc with pa := pr', held := true } := PInv.frame I hw hf
        split
        · exact ⟨I', rfl⟩
        · split
          · exact ⟨I', rfl⟩
          · exact hafter _ I' rfl hq.symm
      · exact hafter _ I rfl hq.symm

theorem pinv_new (parent root : Root) (slot jE fE : Nat) (sink : SinkKind) (hr : root ≠ 0) :
    PInv (PA.new parent root slot jE fE sink) [] [] := by
  refine ⟨wf_new .., chain_new .., ?_, ?_⟩
  · unfold NoZero PA.new
    simp only [aGet, NodeRef.zero]
    have : (⟨slot, root⟩ : NodeRef) ≠ ⟨0, 0⟩ := by
      intro h; injection h with h1 h2; exact hr h2
    simp [this]
  · intro i n hn
    cases i with
    | zero => simp [PA.new] at hn; subst hn; simp [wsum, wsumFrom]
    | succ k => simp [PA.new] at hn

/-- outcome of the constructor under the full invariant -/
def NewI (r : Out FC Unit) : Prop :=
  match r with
  | .ok fc _ => fc.held = false ∧ FI fc
  | .err _ => True
  | .panic => False
  | .blocked => False

theorem newTail_inv (fc0 : FC) (hh0 : fc0.held = false) (I0 : FI fc0) (f j : Checkpoint) (ar : Root) (aslot : Nat)
    (bals : List Nat) :
    NewI (match fc0.setPin ar aslot with
      | .ok fc _ => fc.updateJustifiedInner f j (some bals)
      | .err fc => .err fc
      | .panic => .panic
      | .blocked => .blocked) := by
  rcases setPin_eq fc0 hh0 ar aslot with e | e
  · rw [e]
    simp only
    have hi := inner_inv { fc0 with pin := some ⟨aslot, ar⟩ } I0 f j (some bals)
    cases he : FC.updateJustifiedInner { fc0 with pin := some ⟨aslot, ar⟩ } f j (some bals) with
    | panic => rw [he] at hi; exact hi.elim
    | blocked => rw [he] at hi; exact hi.elim
    | err s2 => trivial
    | ok s2 u2 =>
      rw [he] at hi
      exact ⟨by rw [hi.2.1]; exact hh0, hi.1⟩
  · rw [e]; trivial

theorem new_inv (spe : Nat) (f j : Checkpoint) (ar : Root) (aslot : Nat) (ap : Root) (bals : List Nat) (sink : SinkKind)
    (hr : ar ≠ 0) : NewI (FC.new spe f j ar aslot ap bals sink) := by
  unfold FC.new
  exact newTail_inv (FC.mk (PA.new ap ar aslot j.epoch f.epoch sink) [] true spe [] none j f false) rfl
    (pinv_new ap ar aslot j.epoch f.epoch sink hr) f j ar aslot bals

/-! ## the machine -/

/-- full invariant of the harness machine -/
def MInv2 : MState → Prop
  | .none => True
  | .live fc => fc.held = false ∧ FI fc
  | .dead => False

/-- the insertion does not re-create a node that an applied vote names although it is not (no longer) in the array:
a pruned node does not come back -/
def NoRevive (fc : FC) (pa' : PA) : Prop :=
  ∀ v ∈ fc.votes, aGet fc.pa.indices v.cur = none → aGet pa'.indices v.cur = none

/-- the step is inside the domain of the refinement: roots are non-zero, an empty-slot insertion is under a known
root at or after its first slot (or re-inserts an existing node), a new block root is not one that a vote still
refers to (a root identifies one block: a pruned block does not come back as another one), and `UpdateJustified` leaves the finalized
checkpoint alone (so nothing is pruned) -/
def StepOK (st : MState) (op : Op) : Prop :=
  match op, st with
  | .init _ ar _ _ _ _ _ _, _ => ar ≠ 0
  | .slot p s j f, .live fc =>
    p ≠ 0 ∧ ((aGet fc.pa.indices ⟨s, p⟩).isSome ∨ ∃ s0, aGet fc.pa.blockSlots p = some s0 ∧ s0 ≤ s) ∧
      NoRevive fc (fc.pa.processSlot p s j f)
  | .block p r s j f, .live fc =>
    p ≠ 0 ∧ r ≠ 0 ∧ (aGet fc.pa.blockSlots r = none → ∀ v ∈ fc.votes, v.next.root ≠ r ∧ v.cur.root ≠ r) ∧
      NoRevive fc ((fc.pa.processBlock p r s j f).getD (fc.pa, false)).1
  | .att _ r s, .live _ => ¬ (r = 0 ∧ s = 0)
  | .justify _ _ f _, .live fc => f = fc.finalized
  | _, _ => True

/-- every step of the history is inside the domain -/
def Admissible : MState → List Op → Prop
  | _, [] => True
  | st, op :: ops => StepOK st op ∧ Admissible (step st op).1 ops

theorem finish_inv2 {α : Type} (r : Out FC α) (f : α → Ans) (hs : SafeI r) : MInv2 (finish r f).1 := by
  unfold finish
  cases r with
  | ok s a => exact hs
  | err s => exact hs
  | panic => exact hs.elim
  | blocked => exact hs.elim

theorem stepLive_inv2 (fc : FC) (hh : fc.held = false) (I : FI fc) (op : Op) (hok : StepOK (.live fc) op) :
    MInv2 (stepLive fc op).1 := by
  cases op with
  | init => exact ⟨hh, I⟩
  | slot p s j f => exact finish_inv2 _ _ (safeI_processSlot fc hh I p s j f hok.1 hok.2.1 hok.2.2)
  | block p r s j f => exact finish_inv2 _ _ (safeI_processBlock fc hh I p r s j f hok.1 hok.2.1 hok.2.2.2)
  | att v r s => exact finish_inv2 _ _ (safeI_processAttestation fc hh I v r s)
  | justify t j f b =>
    have I0 : FI { fc with pa := { fc.pa with sinkLog := [] } } :=
      ⟨wf_sinkLog I.wf [], chain_congr (pr := fc.pa) (pr' := { fc.pa with sinkLog := [] }) rfl rfl rfl (fun _ => rfl) I.chain, I.nz, fun i n hn => by
        have := I.w i n hn
        rw [this]
        exact (wsumFrom_congr fc.pa { fc.pa with sinkLog := [] } fc.balances i fc.votes 0 (fun _ _ => rfl)).symm⟩
    have hs := safeI_updateJustified { fc with pa := { fc.pa with sinkLog := [] } } hh I0 t j f b hok
    unfold stepLive
    simp only
    cases he : FC.updateJustified { fc with pa := { fc.pa with sinkLog := [] } } t j f b with
    | ok s a => rw [he] at hs; exact hs
    | err s => rw [he] at hs; exact hs
    | panic => rw [he] at hs; exact hs.elim
    | blocked => rw [he] at hs; exact hs.elim
  | pin r s => exact finish_inv2 _ _ (safeI_setPin fc hh I r s)
  | head => exact finish_inv2 _ _ (safeI_head fc hh I)
  | findHead r s => exact finish_inv2 _ _ (safeI_queryAfterVotes fc hh I _ (fun pr hw => goodFr_findHead pr hw r s))
  | chain r s => exact finish_inv2 _ _ (safeI_queryAfterVotes fc hh I _ (fun pr hw => goodFr_canonicalChain pr hw r s))
  | closest r s => exact finish_inv2 _ _ (safeI_closest fc hh I r s)
  | canonAt r s w => exact finish_inv2 _ _ (safeI_queryAfterVotes fc hh I _ (fun pr hw => goodFr_canonAtSlot pr hw r s w))
  | getSlot r => exact finish_inv2 _ _ (safeI_getSlot fc hh I r)
  | inSub a r => exact finish_inv2 _ _ (safeI_inSubtree fc hh I a r)
  | search a p s => exact finish_inv2 _ _ (safeI_queryAfterVotes fc hh I _ (fun pr hw => goodFr_search pr hw a p s))
  | just => exact ⟨hh, I⟩
  | fin => exact ⟨hh, I⟩
  | pinq => exact ⟨hh, I⟩
  | nodes => exact ⟨hh, I⟩

theorem step_inv2 (st : MState) (h : MInv2 st) (op : Op) (hok : StepOK st op) : MInv2 (step st op).1 := by
  cases op with
  | init spe ar aslot ap j f sink bals =>
    have hn := new_inv spe f j ar aslot ap bals sink (by cases st <;> exact hok)
    unfold step
    simp only
    cases he : FC.new spe f j ar aslot ap bals sink with
    | ok fc u => rw [he] at hn; exact hn
    | err s => trivial
    | panic => rw [he] at hn; exact hn.elim
    | blocked => rw [he] at hn; exact hn.elim
  | _ =>
    cases st with
    | none => trivial
    | dead => exact h.elim
    | live fc => exact stepLive_inv2 fc h.1 h.2 _ hok

/-- **Weights, chain-structure and votes invariants over all admissible operation sequences.** For every history
inside the domain (non-zero roots, well-placed empty-slot insertions, finalized checkpoint never moved) the live
instance satisfies: structure invariant `WF`, chain structure `Chain`, every applied vote is a node, and the
weight of every node is the sum of the current balances of the validators whose applied vote lies in its
fork-choice subtree (a vote counts once; moving it subtracts the old and adds the new balance; balance changes
are applied as new − old). No call panics, blocks or loops. -/
theorem inv_weights : ∀ (ops : List Op) (st : MState), MInv2 st → Admissible st ops → MInv2 (run st ops).1 := by
  intro ops
  induction ops with
  | nil => intro st h _; simpa [run] using h
  | cons op rest ih =>
    intro st h ha
    rw [run_cons]
    exact ih _ (step_inv2 st h op ha.1) ha.2

/-- executable version of `NoRevive` -/
def noReviveB (fc : FC) (pa' : PA) : Bool :=
  fc.votes.all (fun v => (aGet fc.pa.indices v.cur).isSome || (aGet pa'.indices v.cur).isNone)

theorem noReviveB_sound (fc : FC) (pa' : PA) (h : noReviveB fc pa' = true) : NoRevive fc pa' := by
  intro v hv hn
  unfold noReviveB at h
  rw [List.all_eq_true] at h
  have := h v hv
  simp [hn] at this
  exact this

/-- executable version of `StepOK` -/
def stepOKb (st : MState) (op : Op) : Bool :=
  match op, st with
  | .init _ ar _ _ _ _ _ _, _ => decide (ar ≠ 0)
  | .slot p s j f, .live fc =>
    decide (p ≠ 0) && ((aGet fc.pa.indices ⟨s, p⟩).isSome ||
      (match aGet fc.pa.blockSlots p with | some s0 => decide (s0 ≤ s) | none => false)) &&
      noReviveB fc (fc.pa.processSlot p s j f)
  | .block p r s j f, .live fc =>
    decide (p ≠ 0) && decide (r ≠ 0) &&
      ((aGet fc.pa.blockSlots r).isSome || fc.votes.all (fun v => decide (v.next.root ≠ r) && decide (v.cur.root ≠ r))) &&
      noReviveB fc ((fc.pa.processBlock p r s j f).getD (fc.pa, false)).1
  | .att _ r s, .live _ => decide (¬ (r = 0 ∧ s = 0))
  | .justify _ _ f _, .live fc => decide (f = fc.finalized)
  | _, _ => true

theorem stepOKb_sound (st : MState) (op : Op) (h : stepOKb st op = true) : StepOK st op := by
  cases op with
  | init spe ar aslot ap j f sink bals => cases st <;> simpa [stepOKb, StepOK] using h
  | slot p s j f =>
    cases st with
    | none => trivial
    | dead => trivial
    | live fc =>
      simp only [stepOKb, Bool.and_eq_true, Bool.or_eq_true, decide_eq_true_eq] at h
      refine ⟨h.1.1, ?_, noReviveB_sound _ _ h.2⟩
      rcases h.1.2 with h2 | h2
      · exact Or.inl h2
      · cases hb : aGet fc.pa.blockSlots p with
        | none => simp [hb] at h2
        | some s0 => simp [hb] at h2; exact Or.inr ⟨s0, rfl, h2⟩
  | block p r s j f =>
    cases st with
    | none => trivial
    | dead => trivial
    | live fc =>
      simp only [stepOKb, Bool.and_eq_true, Bool.or_eq_true, decide_eq_true_eq, List.all_eq_true] at h
      refine ⟨h.1.1.1, h.1.1.2, fun hnone v hv => ?_, noReviveB_sound _ _ h.2⟩
      rcases h.1.2 with h2 | h2
      · rw [hnone] at h2; cases h2
      · exact h2 v hv
  | justify t j f b =>
    cases st with
    | none => trivial
    | dead => trivial
    | live fc => simpa [stepOKb, StepOK] using h
  | att v r s =>
    cases st with
    | none => trivial
    | dead => trivial
    | live fc =>
      simp only [stepOKb, decide_eq_true_eq] at h
      exact h
  | _ => cases st <;> trivial

def admissibleB : MState → List Op → Bool
  | _, [] => true
  | st, op :: ops => stepOKb st op && admissibleB (step st op).1 ops

theorem admissibleB_sound : ∀ (ops : List Op) (st : MState), admissibleB st ops = true → Admissible st ops := by
  intro ops
  induction ops with
  | nil => intro _ _; trivial
  | cons op rest ih =>
    intro st h
    simp only [admissibleB, Bool.and_eq_true] at h
    exact ⟨stepOKb_sound st op h.1, ih _ h.2⟩

end Zrnt.ForkChoice
