import Zrnt.Gen.GoFuns
import Mathlib.Tactic.Linarith
/-! The two correction loops of `floorSquareRootFrom` (regenerated from math_util.go): from **any**
estimate they walk to the floor square root. `R n r` says `r` is the floor square root of `n`. -/
namespace Zrnt.Proofs.IsqrtFrom
open Zrnt Zrnt.Gen.GoFuns

/-- `r` is the floor of the real square root of `n` -/
def R (n r : Nat) : Prop := r * r ≤ n ∧ n < (r + 1) * (r + 1)

theorem R_lt (n r : Nat) (h : R n r) (hn : n < 2 ^ 64) : r < 2 ^ 32 := by
  rcases h with ⟨h1, _⟩
  by_contra hc
  have : 2 ^ 32 ≤ r := Nat.le_of_not_lt hc
  have : 2 ^ 32 * 2 ^ 32 ≤ r * r := Nat.mul_le_mul this this
  omega

theorem R_mono_lt (n r x : Nat) (h : R n r) : x * x ≤ n ↔ x ≤ r := by
  rcases h with ⟨h1, h2⟩
  constructor
  · intro hx
    by_contra hc
    have : r + 1 ≤ x := by omega
    have : (r + 1) * (r + 1) ≤ x * x := Nat.mul_le_mul this this
    omega
  · intro hx
    have : x * x ≤ r * r := Nat.mul_le_mul hx hx
    omega

theorem mul_toNat_small (x : UInt64) (h : x.toNat < 2 ^ 32) : (x * x).toNat = x.toNat * x.toNat := by
  rw [UInt64.toNat_mul]
  apply Nat.mod_eq_of_lt
  have : x.toNat * x.toNat ≤ (2 ^ 32 - 1) * (2 ^ 32 - 1) := Nat.mul_le_mul (by omega) (by omega)
  omega

/-- the guard of the first loop is exactly "x is above the floor root" -/
theorem guard1_iff (n x : UInt64) (r : Nat) (hr : R n.toNat r) :
    ((decide (x > 4294967295)) || (decide ((x * x) > n))) = decide (r < x.toNat) := by
  have hr32 := R_lt _ _ hr n.toNat_lt
  by_cases hbig : x > 4294967295
  · have : (4294967295 : UInt64).toNat < x.toNat := UInt64.lt_iff_toNat_lt.mp hbig
    have h2 : (4294967295 : UInt64).toNat = 4294967295 := by decide
    simp only [hbig, decide_true, Bool.true_or]
    symm; apply decide_eq_true; omega
  · have hx : x.toNat ≤ 4294967295 := by
      have h2 : (4294967295 : UInt64).toNat = 4294967295 := by decide
      have := Nat.le_of_not_lt (fun h => hbig (UInt64.lt_iff_toNat_lt.mpr h))
      omega
    simp only [hbig, decide_false, Bool.false_or]
    have hm := mul_toNat_small x (by omega)
    have hiff := R_mono_lt n.toNat r x.toNat hr
    by_cases hgt : x * x > n
    · have : n.toNat < (x * x).toNat := UInt64.lt_iff_toNat_lt.mp hgt
      simp only [hgt, decide_true]
      symm; apply decide_eq_true
      by_contra hc
      have := hiff.mpr (by omega)
      omega
    · have : (x * x).toNat ≤ n.toNat := Nat.le_of_not_lt (fun h => hgt (UInt64.lt_iff_toNat_lt.mpr h))
      simp only [hgt, decide_false]
      symm; apply decide_eq_false
      have := hiff.mp (by omega)
      omega

theorem loop1_correct (n : UInt64) (r : Nat) (hr : R n.toNat r) :
    ∀ (fuel : Nat) (x : UInt64), 0 < fuel → x.toNat < fuel + r →
      ∃ x', FloorSquareRootFrom.loop1 n fuel x = .ok x' ∧ x'.toNat = min x.toNat r := by
  intro fuel
  induction fuel with
  | zero => intro x h; omega
  | succ fuel ih =>
    intro x _ hx
    unfold FloorSquareRootFrom.loop1
    rw [guard1_iff n x r hr]
    by_cases hgt : r < x.toNat
    · simp only [hgt, decide_true, ite_true]
      have hx1 : (x - 1).toNat = x.toNat - 1 := by
        rw [UInt64.toNat_sub_of_le]
        · rfl
        · apply UInt64.le_iff_toNat_le.mpr
          have : (1 : UInt64).toNat = 1 := by decide
          omega
      have := ih (x - 1) (by omega) (by omega)
      obtain ⟨x', h1, h2⟩ := this
      refine ⟨x', by simpa using h1, ?_⟩
      rw [h2, hx1]; omega
    · simp only [hgt, decide_false]
      refine ⟨x, rfl, ?_⟩
      omega

/-- the guard of the second loop is exactly "x is below the floor root" (for x not above it) -/
theorem guard2_iff (n x : UInt64) (r : Nat) (hr : R n.toNat r) (hx : x.toNat ≤ r) :
    ((decide (x < 4294967295)) && (decide (((x + 1) * (x + 1)) ≤ n))) = decide (x.toNat < r) := by
  have hr32 := R_lt _ _ hr n.toNat_lt
  have h2 : (4294967295 : UInt64).toNat = 4294967295 := by decide
  by_cases hsm : x < 4294967295
  · have hsm' : x.toNat < 4294967295 := by
      have := UInt64.lt_iff_toNat_lt.mp hsm
      omega
    simp only [hsm, decide_true, Bool.true_and]
    have h1 : (x + 1).toNat = x.toNat + 1 := by
      rw [UInt64.toNat_add]
      have : (1 : UInt64).toNat = 1 := by decide
      rw [this]; apply Nat.mod_eq_of_lt; omega
    have hm := mul_toNat_small (x + 1) (by omega)
    have hiff := R_mono_lt n.toNat r (x.toNat + 1) hr
    by_cases hle : (x + 1) * (x + 1) ≤ n
    · have : ((x + 1) * (x + 1)).toNat ≤ n.toNat := UInt64.le_iff_toNat_le.mp hle
      simp only [hle, decide_true]
      symm; apply decide_eq_true
      have := hiff.mp (by rw [← h1]; omega)
      omega
    · have : n.toNat < ((x + 1) * (x + 1)).toNat :=
        Nat.lt_of_not_le (fun h => hle (UInt64.le_iff_toNat_le.mpr h))
      simp only [hle, decide_false]
      symm; apply decide_eq_false
      intro hc
      have := hiff.mpr (by omega)
      rw [← h1] at this
      omega
  · have : 4294967295 ≤ x.toNat := by
      have := Nat.le_of_not_lt (fun h => hsm (UInt64.lt_iff_toNat_lt.mpr h))
      omega
    simp only [hsm, decide_false, Bool.false_and]
    symm; apply decide_eq_false; omega

theorem loop2_correct (n : UInt64) (r : Nat) (hr : R n.toNat r) :
    ∀ (fuel : Nat) (x : UInt64), x.toNat ≤ r → r < fuel + x.toNat →
      ∃ x', FloorSquareRootFrom.loop2 n fuel x = .ok x' ∧ x'.toNat = r := by
  intro fuel
  induction fuel with
  | zero => intro x h1 h2; omega
  | succ fuel ih =>
    intro x hle hf
    unfold FloorSquareRootFrom.loop2
    rw [guard2_iff n x r hr hle]
    have hr32 := R_lt _ _ hr n.toNat_lt
    by_cases hlt : x.toNat < r
    · simp only [hlt, decide_true, ite_true]
      have h1 : (x + 1).toNat = x.toNat + 1 := by
        rw [UInt64.toNat_add]
        have : (1 : UInt64).toNat = 1 := by decide
        rw [this]; apply Nat.mod_eq_of_lt; omega
      obtain ⟨x', e1, e2⟩ := ih (x + 1) (by omega) (by omega)
      exact ⟨x', by simpa using e1, e2⟩
    · simp only [hlt, decide_false]
      exact ⟨x, rfl, by omega⟩

/-- `floorSquareRootFrom n x` is the floor square root of `n` for **every** estimate `x`; the loops
terminate: fuel above `x` and above 2^32 suffices. -/
theorem floorFrom_correct (n x : UInt64) (fuel : Nat) (hf1 : x.toNat < fuel) (hf2 : 2 ^ 32 ≤ fuel) :
    ∃ v, FloorSquareRootFrom fuel n x = .ok v ∧ R n.toNat v.toNat := by
  let r := Nat.sqrt n.toNat
  have hr : R n.toNat r := ⟨Nat.sqrt_le _, Nat.lt_succ_sqrt _⟩
  have hr32 := R_lt _ _ hr n.toNat_lt
  obtain ⟨x1, e1, h1⟩ := loop1_correct n r hr fuel x (by omega) (by omega)
  obtain ⟨x2, e2, h2⟩ := loop2_correct n r hr fuel x1 (by omega) (by omega)
  refine ⟨x2, ?_, by rw [h2]; exact hr⟩
  simp [FloorSquareRootFrom, e1, e2]

end Zrnt.Proofs.IsqrtFrom
