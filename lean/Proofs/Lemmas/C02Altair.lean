import Zrnt.Beacon.Impl.Altair
import Zrnt.Beacon.Impl.Final
/-! Helper lemmas for the altair part of C02: flag masks, stake loops, flag deltas, inactivity, ApplyDeltas. -/
namespace Zrnt.Proofs.Lemmas
open Zrnt.Beacon Zrnt.Beacon.Spec

theorem and_two_pow_ne_zero (x k : Nat) : ((x &&& 2 ^ k) != 0) = x.testBit k := by
  cases hb : x.testBit k
  · have : x &&& 2 ^ k = 0 := by
      apply Nat.eq_of_testBit_eq
      intro j
      rw [Nat.testBit_and, Nat.testBit_two_pow, Nat.zero_testBit]
      by_cases hkj : k = j
      · subst hkj; simp [hb]
      · simp [hkj]
    simp [this]
  · have : (x &&& 2 ^ k).testBit k = true := by
      rw [Nat.testBit_and, Nat.testBit_two_pow, hb]; simp
    have hne : x &&& 2 ^ k ≠ 0 := by
      intro h0; rw [h0, Nat.zero_testBit] at this; cases this
    simp [hne]

theorem mask_test (x k : Nat) : ((x &&& Impl.flagMask k) != 0) = has_flag x k := by
  unfold Impl.flagMask has_flag
  rw [Nat.one_shiftLeft, and_two_pow_ne_zero, Nat.testBit_eq_decide_div_mod_eq]

theorem foldl_congr_mem {α β : Type} (f g : β → α → β) (l : List α) (b : β)
    (h : ∀ b a, a ∈ l → f b a = g b a) : l.foldl f b = l.foldl g b := by
  induction l generalizing b with
  | nil => rfl
  | cons x xs ih =>
    simp only [List.foldl_cons]
    rw [h b x (by simp), ih _ (fun b a ha => h b a (by simp [ha]))]

theorem foldl_cond_add (l : List Nat) (c : Nat → Bool) (f : Nat → Nat) (a : Nat) :
    l.foldl (fun acc vi => if c vi then acc + f vi else acc) a = a + ((l.filter c).map f).sum := by
  induction l generalizing a with
  | nil => simp
  | cons x xs ih =>
    simp only [List.foldl_cons, List.filter_cons]
    split
    · rw [ih]; simp; omega
    · rw [ih]

theorem mem_active_indices (vals : List Validator) (e i : Nat) :
    i ∈ active_indices_of vals e ↔ ∃ v, vals[i]? = some v ∧ is_active_validator v e = true := by
  unfold active_indices_of
  simp only [List.mem_filter, List.mem_range]
  constructor
  · rintro ⟨hi, h⟩
    have : vals[i]? = some vals[i] := List.getElem?_eq_getElem hi
    rw [this] at h
    exact ⟨_, this, h⟩
  · rintro ⟨v, hv, h⟩
    obtain ⟨hi, _⟩ := List.getElem?_eq_some_iff.mp hv
    exact ⟨hi, by rw [hv]; exact h⟩

theorem mem_eligible_indices (vals : List Validator) (e i : Nat) :
    i ∈ eligible_indices_of vals e ↔ ∃ v, vals[i]? = some v ∧
      (is_active_validator v e || (v.slashed && decide (e + 1 < v.withdrawable_epoch))) = true := by
  unfold eligible_indices_of
  simp only [List.mem_filter, List.mem_range]
  constructor
  · rintro ⟨hi, h⟩
    have : vals[i]? = some vals[i] := List.getElem?_eq_getElem hi
    rw [this] at h
    exact ⟨_, this, h⟩
  · rintro ⟨v, hv, h⟩
    obtain ⟨hi, _⟩ := List.getElem?_eq_some_iff.mp hv
    exact ⟨hi, by rw [hv]; exact h⟩

/-- for an eligible validator, membership in the unslashed participating indices is "not slashed and flag set" -/
theorem contains_upi_of_eligible (vals : List Validator) (part : List Nat) (k e i : Nat)
    (hi : i ∈ eligible_indices_of vals e) :
    (unslashed_participating_indices_of vals part k e).contains i =
      (!Impl.flatSlashed vals i && ((part.getD i 0 &&& Impl.flagMask k) != 0)) := by
  obtain ⟨v, hv, hel⟩ := (mem_eligible_indices vals e i).mp hi
  rw [mask_test]
  have hgd : vals.getD i default = v := by simp [List.getD, hv]
  unfold unslashed_participating_indices_of Impl.flatSlashed slashed_of
  simp only [hgd]
  rw [Bool.eq_iff_iff]
  simp only [List.contains_iff_mem, List.mem_filter, mem_active_indices, hv, Option.some.injEq, exists_eq_left',
    Bool.and_eq_true, Bool.not_eq_true', hgd]
  constructor
  · rintro ⟨⟨_, h2⟩, h3⟩; exact ⟨h3, h2⟩
  · rintro ⟨h3, h2⟩
    refine ⟨⟨?_, h2⟩, h3⟩
    simp only [h3, Bool.false_and, Bool.or_false] at hel
    exact hel

/-- the stake loop is `sum` over the filtered list -/
theorem stakeLoop_eq (vals : List Validator) (part : List Nat) (k : Nat) (active : List Nat) :
    Impl.stakeLoop vals part (Impl.flagMask k) active =
      (((active.filter fun i => has_flag (part.getD i 0) k).filter fun i => !slashed_of vals i).map (eff_of vals)).sum := by
  unfold Impl.stakeLoop
  rw [foldl_cond_add, List.filter_filter]
  simp only [Nat.zero_add]
  congr 2
  apply List.filter_congr
  intro i _
  rw [mask_test]
  simp [Impl.flatSlashed, slashed_of, Bool.and_comm]

theorem clamp_stake_eq (cfg : Config) (vals : List Validator) (part : List Nat) (k e : Nat) :
    Impl.clampIncrement cfg (Impl.stakeLoop vals part (Impl.flagMask k) (active_indices_of vals e)) =
      total_balance_of cfg vals (unslashed_participating_indices_of vals part k e) := by
  rw [stakeLoop_eq]
  unfold Impl.clampIncrement total_balance_of unslashed_participating_indices_of
  simp only []
  split <;> omega

theorem flagMask_eq_head (k : Nat) (hk : k < 3) : (Impl.flagMask k != Impl.flagMask 2) = decide (k ≠ TIMELY_HEAD_FLAG_INDEX) := by
  have : k = 0 ∨ k = 1 ∨ k = 2 := by omega
  rcases this with rfl | rfl | rfl <;> decide

theorem flagDeltas_altair (cfg : Config) (vals : List Validator) (part : List Nat) (prev total : Nat) (leak : Bool)
    (k : Nat) (hk : k < 3) :
    Impl.computeFlagDeltas cfg vals part (active_indices_of vals prev) (eligible_indices_of vals prev)
        total (integer_squareroot total) (Impl.flagMask k) (PARTICIPATION_FLAG_WEIGHTS.getD k 0) leak =
      get_flag_index_deltas_pure cfg vals part prev total leak k := by
  unfold Impl.computeFlagDeltas get_flag_index_deltas_pure
  simp only [clamp_stake_eq]
  apply foldl_congr_mem
  intro d i hi
  rw [contains_upi_of_eligible vals part k prev i hi, flagMask_eq_head k hk]
  simp only [base_reward_of, base_reward_per_increment_of, Impl.flatEff, eff_of]
  by_cases h1 : (!Impl.flatSlashed vals i && (part.getD i 0 &&& Impl.flagMask k) != 0) = true
  · simp only [h1, ↓reduceIte]
  · simp only [h1, Bool.false_eq_true, ↓reduceIte]
    by_cases h2 : k = TIMELY_HEAD_FLAG_INDEX <;> simp [h2]

theorem inactivityPenaltyDeltas_altair (cfg : Config) (vals : List Validator) (part scores : List Nat) (prev quotient : Nat) :
    Impl.computeInactivityPenaltyDeltas cfg vals part scores (eligible_indices_of vals prev) quotient =
      get_inactivity_penalty_deltas_pure cfg vals part scores prev quotient := by
  unfold Impl.computeInactivityPenaltyDeltas get_inactivity_penalty_deltas_pure
  apply foldl_congr_mem
  intro d i hi
  have := contains_upi_of_eligible vals part TIMELY_TARGET_FLAG_INDEX prev i hi
  rw [this]
  rfl

theorem score_step (c l : Bool) (score bias rate : Nat) :
    (if l = true then
        (if (if c = true then (if score > 0 then score - 1 else score) else score + bias) < rate then 0
         else (if c = true then (if score > 0 then score - 1 else score) else score + bias) - rate)
      else (if c = true then (if score > 0 then score - 1 else score) else score + bias)) =
    (if l = true then
        (if c = true then score - min 1 score else score + bias) - min rate (if c = true then score - min 1 score else score + bias)
      else (if c = true then score - min 1 score else score + bias)) := by
  have h1 : (if score > 0 then score - 1 else score) = score - min 1 score := by split <;> omega
  rw [h1]
  generalize (if c = true then score - min 1 score else score + bias) = n
  cases l
  · simp
  · simp only [↓reduceIte]; split <;> omega

theorem set_if_ne (sc : List Nat) (i score x : Nat) (hs : sc[i]? = some score) :
    (if (x != score) = true then sc.set i x else sc) = sc.set i x := by
  split
  · rfl
  · rename_i hne
    have : x = score := by simpa using hne
    rw [this]
    obtain ⟨hlt, hget⟩ := List.getElem?_eq_some_iff.mp hs
    apply List.ext_getElem?
    intro j
    rw [List.getElem?_set]
    by_cases hij : i = j
    · subst hij; simp [hlt, hget]
    · simp [hij]

theorem inactivityUpdates_altair (cfg : Config) (vals : List Validator) (part scores : List Nat) (prev : Nat) (leak : Bool) :
    Impl.processInactivityUpdates cfg vals part (eligible_indices_of vals prev) leak scores =
      process_inactivity_updates_pure cfg vals part scores prev leak := by
  unfold Impl.processInactivityUpdates process_inactivity_updates_pure
  apply foldl_congr_mem
  intro sc i hi
  have hc := contains_upi_of_eligible vals part TIMELY_TARGET_FLAG_INDEX prev i hi
  rw [hc]
  cases hs : sc[i]? with
  | none => rfl
  | some score =>
    simp only [TIMELY_TARGET_FLAG_INDEX]
    rw [score_step (!Impl.flatSlashed vals i && (part.getD i 0 &&& Impl.flagMask 1) != 0) (!leak) score
      cfg.INACTIVITY_SCORE_BIAS cfg.INACTIVITY_SCORE_RECOVERY_RATE]
    rw [set_if_ne _ _ _ _ hs]
    congr

theorem foldl_range_set (g : Nat → Nat → Nat) (n : Nat) (l : List Nat) (hn : n ≤ l.length) :
    (List.range n).foldl (fun l i => match l[i]? with
      | none => l
      | some b => l.set i (g i b)) l =
    (List.range l.length).map (fun i => if i < n then g i (l.getD i 0) else l.getD i 0) := by
  induction n with
  | zero =>
    simp only [List.range_zero, List.foldl_nil, Nat.not_lt_zero, ↓reduceIte]
    apply List.ext_getElem?
    intro j
    by_cases hj : j < l.length
    · simp [hj, List.getD]
    · simp [hj]
  | succ n ih =>
    rw [List.range_succ, List.foldl_append, ih (by omega)]
    simp only [List.foldl_cons, List.foldl_nil]
    have hn' : n < l.length := by omega
    have hget : ((List.range l.length).map (fun i => if i < n then g i (l.getD i 0) else l.getD i 0))[n]? = some (l.getD n 0) := by
      simp [hn']
    rw [hget]
    apply List.ext_getElem?
    intro j
    rw [List.getElem?_set]
    by_cases hnj : n = j
    · subst hnj; simp [hn']
    · by_cases hj : j < l.length
      · simp only [hnj, ↓reduceIte, List.getElem?_map, List.getElem?_range hj, Option.map_some]
        congr 1
        by_cases h1 : j < n
        · have : j < n + 1 := by omega
          simp [h1, this]
        · have : ¬ j < n + 1 := by omega
          simp [h1, this]
      · simp [hnj, hj]

theorem applyDeltas_eq (balances : List Nat) (d : Deltas) :
    Impl.applyDeltas balances d = apply_deltas_pure balances.length balances d := by
  unfold Impl.applyDeltas apply_deltas_pure
  have := foldl_range_set (fun i b => if d.2.getD i 0 > b + d.1.getD i 0 then 0 else b + d.1.getD i 0 - d.2.getD i 0)
    balances.length balances (Nat.le_refl _)
  show _ = List.foldl (fun l i => match l[i]? with
      | none => l
      | some b => l.set i (if d.2.getD i 0 > b + d.1.getD i 0 then 0 else b + d.1.getD i 0 - d.2.getD i 0))
    balances (List.range balances.length)
  rw [this]
  apply List.map_congr_left
  intro i hi
  have hi' : i < balances.length := List.mem_range.mp hi
  simp only [hi', ↓reduceIte]
  split <;> split <;> omega

theorem length_applyDeltas (balances : List Nat) (d : Deltas) : (Impl.applyDeltas balances d).length = balances.length := by
  simp [Impl.applyDeltas]

theorem foldl_applyDeltas (n : Nat) (ds : List Deltas) (balances : List Nat) (h : balances.length = n) :
    ds.foldl Impl.applyDeltas balances = ds.foldl (apply_deltas_pure n) balances := by
  induction ds generalizing balances with
  | nil => rfl
  | cons d ds ih =>
    simp only [List.foldl_cons]
    rw [ih (Impl.applyDeltas balances d) (by rw [length_applyDeltas]; exact h), applyDeltas_eq, h]

theorem rewards_altair (cfg : Config) (vals : List Validator) (part scores balances : List Nat)
    (prev cur quotient : Nat) (leak : Bool) (hlen : balances.length = vals.length) :
    Impl.processEpochRewardsAndPenaltiesAltair cfg vals part scores (active_indices_of vals prev)
        (eligible_indices_of vals prev) (total_active_balance_of cfg vals cur)
        (integer_squareroot (total_active_balance_of cfg vals cur)) quotient leak balances =
      process_rewards_and_penalties_altair_pure cfg vals part scores balances prev cur quotient leak := by
  unfold Impl.processEpochRewardsAndPenaltiesAltair process_rewards_and_penalties_altair_pure
  have hw0 : TIMELY_SOURCE_WEIGHT = PARTICIPATION_FLAG_WEIGHTS.getD 0 0 := rfl
  have hw1 : TIMELY_TARGET_WEIGHT = PARTICIPATION_FLAG_WEIGHTS.getD 1 0 := rfl
  have hw2 : TIMELY_HEAD_WEIGHT = PARTICIPATION_FLAG_WEIGHTS.getD 2 0 := rfl
  rw [hw0, hw1, hw2, flagDeltas_altair _ _ _ _ _ _ 0 (by decide), flagDeltas_altair _ _ _ _ _ _ 1 (by decide),
    flagDeltas_altair _ _ _ _ _ _ 2 (by decide), inactivityPenaltyDeltas_altair]
  have hr : List.range PARTICIPATION_FLAG_WEIGHTS.length = [0, 1, 2] := by decide
  rw [foldl_applyDeltas vals.length _ balances hlen]
  simp only [hr, List.map_cons, List.map_nil, List.cons_append, List.nil_append]

/-- `currentTargetStake_eq` and its previous-epoch sibling -/
theorem targetStakes_altair (cfg : Config) (vals : List Validator) (prevPart currPart : List Nat) (prev cur : Nat) :
    let d := Impl.computeEpochAttesterDataAltair cfg vals prevPart currPart prev (active_indices_of vals prev)
      (active_indices_of vals cur)
    (d.prevTargetStake, d.currTargetStake) = target_balances_altair_pure cfg vals prevPart currPart prev cur ∧
    d.eligibleIndices = eligible_indices_of vals prev := by
  simp only [Impl.computeEpochAttesterDataAltair, target_balances_altair_pure, TIMELY_TARGET_FLAG_INDEX, clamp_stake_eq]
  exact ⟨trivial, rfl⟩

theorem syncLoop_eq (cfg : Config) (vals : List Validator) (active : List Nat) (seed : Bytes) (shuffled : Nat → Nat)
    (fuel i : Nat) (h : Bytes) (acc : List Nat)
    (hinv : i % 32 ≠ 0 → h = Spec.hash (seed ++ uintToBytes 8 (i / 32))) :
    Impl.computeSyncCommitteeIndicesLoop cfg vals active seed shuffled fuel i h acc =
      sync_committee_indices_loop cfg vals active seed shuffled fuel i acc := by
  induction fuel generalizing i h acc with
  | zero => rfl
  | succ fuel ih =>
    unfold Impl.computeSyncCommitteeIndicesLoop sync_committee_indices_loop
    split
    · rfl
    · have hh : (if (i % 32 == 0) = true then Spec.hash (seed ++ uintToBytes 8 (i / 32)) else h) =
          Spec.hash (seed ++ uintToBytes 8 (i / 32)) := by
        by_cases h0 : i % 32 = 0
        · simp [h0]
        · simp [h0, hinv h0]
      simp only [hh]
      apply ih
      intro hne
      have : (i + 1) / 32 = i / 32 := by omega
      rw [this]

end Zrnt.Proofs.Lemmas
