import Proofs.Lemmas.ForkChoiceInsert
import Proofs.Lemmas.ForkChoiceClosest
/-!
# Fork choice (C11): the chain structure of the proto array, and `inSubtree` = fork-choice ancestry

Nodes are `(root, slot)` pairs. For a root `R` with `aGet pr.blockSlots R = some s0`, `(R, s0)` is `R`'s *first*
node (its block node, or the initial anchor); the nodes `(R, s)`, `s > s0`, are `R`'s empty-slot nodes.

* `Chain pr` (item 1): every node is either an empty-slot node hanging (transition and fork-choice parent) from
  the node one slot before it, or a first node: the anchor (no parents) or a block node whose transition parent
  is the parent root's node at the same slot and whose fork-choice parent is the parent root's first node, at a
  lower slot. It is stated per node (`NodeOK`), which only mentions *positive* map facts and is therefore
  monotone under insertions (`Grow`); the map-keyed readings `Chain.rooted`, `Chain.first_min`,
  `Chain.slot_node`, `Chain.first_node` are theorems under `WF`, and `Chain.of_keyed` is the converse.
* preservation (item 2): `chain_new`, `chain_processSlot`, `chain_processBlock`, `chain_congr`.
* `contig_of_chain` (item 3).
* ancestry (item 4): `PReach` (inductive reachability along a parent function), `anc_iff_reach`,
  `tanc`/`tanc_iff_reach`, `anc_comparable`, `tanc_of_anc`, `anc_of_tanc`, `anc_lt`, `anc_first_lt`.
* C11 (item 5): `inSubtreeIdx_eq_anc`, `inSubtreeSpins_false`, `inSubtree_eq_anc`.
-/
namespace Zrnt.ForkChoice

/-! ## reachability along a parent function -/

/-- `i` is `j` or reached from `j` by following `par` -/
inductive PReach (par : Nat → Option Nat) (i : Nat) : Nat → Prop
  | refl : PReach par i i
  | step {j p : Nat} : par j = some p → PReach par i p → PReach par i j

theorem PReach.trans {par : Nat → Option Nat} {a b c : Nat} (h1 : PReach par a b) (h2 : PReach par b c) :
    PReach par a c := by
  induction h2 with
  | refl => exact h1
  | step hp _ ih => exact .step hp ih

theorem PReach.le {par : Nat → Option Nat} (hlt : ∀ j p, par j = some p → p < j) {i j : Nat}
    (h : PReach par i j) : i ≤ j := by
  induction h with
  | refl => exact Nat.le_refl _
  | @step j p hp _ ih => have := hlt j p hp; omega

/-- two ancestors of the same node are comparable -/
theorem PReach.comparable {par : Nat → Option Nat} (hlt : ∀ j p, par j = some p → p < j) {a b d : Nat}
    (ha : PReach par a d) (hb : PReach par b d) (hab : a ≤ b) : PReach par a b := by
  induction ha with
  | refl =>
    have := hb.le hlt
    have : b = a := by omega
    subst this; exact .refl
  | @step j p hp hr ih =>
    cases hb with
    | refl => exact .step hp hr
    | @step _ p' hp' hr' =>
      rw [hp] at hp'; cases hp'
      exact ih hr'

/-- the fuelled Boolean version, generic in the parent function -/
def reachF (par : Nat → Option Nat) (i : Nat) : Nat → Nat → Bool
  | 0, j => i == j
  | fuel + 1, j => i == j || (match par j with | some p => reachF par i fuel p | none => false)

theorem reachF_sound (par : Nat → Option Nat) (i : Nat) : ∀ fuel j, reachF par i fuel j = true → PReach par i j := by
  intro fuel
  induction fuel with
  | zero => intro j h; simp [reachF] at h; subst h; exact .refl
  | succ f ih =>
    intro j h
    simp only [reachF, Bool.or_eq_true, beq_iff_eq] at h
    rcases h with h | h
    · subst h; exact .refl
    · cases hp : par j with
      | none => simp [hp] at h
      | some p => simp only [hp] at h; exact .step hp (ih p h)

theorem reachF_complete (par : Nat → Option Nat) (i : Nat) (hlt : ∀ j p, par j = some p → p < j) {j : Nat}
    (h : PReach par i j) : ∀ fuel, j ≤ fuel → reachF par i fuel j = true := by
  induction h with
  | refl => intro fuel _; cases fuel <;> simp [reachF]
  | @step j p hjp _ ih =>
    intro fuel hf
    have := hlt j p hjp
    cases fuel with
    | zero => omega
    | succ f => simp only [reachF, hjp, ih f (by omega)]; simp

theorem ancF_eq_reachF (ns : List Node) (i : Nat) : ∀ fuel j, ancF ns i fuel j = reachF (fpar ns) i fuel j := by
  intro fuel
  induction fuel with
  | zero => intro j; rfl
  | succ f ih =>
    intro j
    simp only [ancF, reachF]
    cases fpar ns j with
    | none => rfl
    | some p => simp only [ih p]

/-- `tancF`: like `ancF`, along transition parents -/
def tancF (ns : List Node) (i : Nat) : Nat → Nat → Bool
  | 0, j => i == j
  | fuel + 1, j => i == j || (match tpar ns j with | some p => tancF ns i fuel p | none => false)

/-- `i` is `j` or a transition ancestor of `j` -/
def tanc (ns : List Node) (i j : Nat) : Bool := tancF ns i ns.length j

theorem tancF_eq_reachF (ns : List Node) (i : Nat) : ∀ fuel j, tancF ns i fuel j = reachF (tpar ns) i fuel j := by
  intro fuel
  induction fuel with
  | zero => intro j; rfl
  | succ f ih =>
    intro j
    simp only [tancF, reachF]
    cases tpar ns j with
    | none => rfl
    | some p => simp only [ih p]

theorem fpar_none_of_ge (ns : List Node) (j : Nat) (h : ns.length ≤ j) : fpar ns j = none := by
  unfold fpar; rw [List.getElem?_eq_none h]; rfl

theorem tpar_none_of_ge (ns : List Node) (j : Nat) (h : ns.length ≤ j) : tpar ns j = none := by
  unfold tpar; rw [List.getElem?_eq_none h]; rfl

theorem reachF_iff (par : Nat → Option Nat) (hlt : ∀ j p, par j = some p → p < j) (len : Nat)
    (hnone : ∀ j, len ≤ j → par j = none) (i j : Nat) :
    reachF par i len j = true ↔ PReach par i j := by
  constructor
  · exact reachF_sound par i len j
  · intro h
    by_cases hj : j ≤ len
    · exact reachF_complete par i hlt h len hj
    · cases h with
      | refl => cases len <;> simp [reachF]
      | step hp _ => rw [hnone j (by omega)] at hp; cases hp

theorem anc_iff_reach (ns : List Node) (hlt : ∀ j p, fpar ns j = some p → p < j) (i j : Nat) :
    anc ns i j = true ↔ PReach (fpar ns) i j := by
  unfold anc; rw [ancF_eq_reachF]
  exact reachF_iff _ hlt _ (fpar_none_of_ge ns) i j

theorem tanc_iff_reach (ns : List Node) (hlt : ∀ j p, tpar ns j = some p → p < j) (i j : Nat) :
    tanc ns i j = true ↔ PReach (tpar ns) i j := by
  unfold tanc; rw [tancF_eq_reachF]
  exact reachF_iff _ hlt _ (tpar_none_of_ge ns) i j

theorem WF.fpar_lt2 {pr : PA} (h : WF pr) (j p : Nat) (hp : fpar pr.nodes j = some p) : p < j := by
  unfold fpar at hp
  cases hj : pr.nodes[j]? with
  | none => simp [hj] at hp
  | some n => rw [hj] at hp; exact h.fpar_lt j n p hj hp

theorem WF.tpar_lt2 {pr : PA} (h : WF pr) (j p : Nat) (hp : tpar pr.nodes j = some p) : p < j := by
  unfold tpar at hp
  cases hj : pr.nodes[j]? with
  | none => simp [hj] at hp
  | some n => rw [hj] at hp; exact h.tpar_lt j n p hj hp


/-! ## the chain structure -/

/-- What the insertions guarantee about one node, given the two maps. -/
def NodeOK (pr : PA) (n : Node) : Prop :=
  ∃ s0, aGet pr.blockSlots n.ref.root = some s0 ∧
    ((s0 < n.ref.slot ∧ ∃ q, n.tparent = some q ∧ n.fparent = some q ∧
        aGet pr.indices ⟨n.ref.slot - 1, n.ref.root⟩ = some q) ∨
     (s0 = n.ref.slot ∧
       ((n.tparent = none ∧ n.fparent = none) ∨
        (n.parentRoot ≠ n.ref.root ∧ ∃ p0 t f, aGet pr.blockSlots n.parentRoot = some p0 ∧ p0 < s0 ∧
          n.tparent = some t ∧ aGet pr.indices ⟨s0, n.parentRoot⟩ = some t ∧
          n.fparent = some f ∧ aGet pr.indices ⟨p0, n.parentRoot⟩ = some f))))

structure Chain (pr : PA) : Prop where
  ok : ∀ (i : Nat) (n : Node), pr.nodes[i]? = some n → NodeOK pr n

theorem NodeOK.mono {pr pr' : PA} {n : Node}
    (hi : ∀ (r : NodeRef) (i : Nat), aGet pr.indices r = some i → aGet pr'.indices r = some i)
    (hb : ∀ (r : Root) (s : Nat), aGet pr.blockSlots r = some s → aGet pr'.blockSlots r = some s)
    (h : NodeOK pr n) : NodeOK pr' n := by
  obtain ⟨s0, h0, h⟩ := h
  refine ⟨s0, hb _ _ h0, ?_⟩
  rcases h with ⟨h1, q, h2, h3, h4⟩ | ⟨h1, h⟩
  · exact Or.inl ⟨h1, q, h2, h3, hi _ _ h4⟩
  · refine Or.inr ⟨h1, ?_⟩
    rcases h with h | ⟨h2, p0, t, f, h3, h4, h5, h6, h7, h8⟩
    · exact Or.inl h
    · exact Or.inr ⟨h2, p0, t, f, hb _ _ h3, h4, h5, hi _ _ h6, h7, hi _ _ h8⟩

theorem NodeOK.skel {pr : PA} {n m : Node} (e : m.skel = n.skel) (h : NodeOK pr n) : NodeOK pr m := by
  have e' := e
  simp only [Node.skel, Prod.mk.injEq] at e'
  obtain ⟨e1, e2, e3, e4, -, -⟩ := e'
  unfold NodeOK at h ⊢
  rw [e1, e2, e3, e4]; exact h

/-- old nodes stay fine when the array grows; only the new ones need a look -/
theorem chain_grow {P : Root → Prop} {pr pr' : PA} (g : Grow P pr pr') (hc : Chain pr)
    (hnew : ∀ (i : Nat) (n : Node), pr.nodes.length ≤ i → pr'.nodes[i]? = some n → NodeOK pr' n) :
    Chain pr' := by
  refine ⟨fun i n hn => ?_⟩
  by_cases hi : i < pr.nodes.length
  · obtain ⟨m, hm⟩ : ∃ m, pr.nodes[i]? = some m := ⟨pr.nodes[i], List.getElem?_eq_getElem hi⟩
    have := g.nodes_old i m hm
    rw [hn] at this; cases this
    exact (hc.ok i n hm).mono g.idx_old g.bs_old
  · exact hnew i n (Nat.le_of_not_lt hi) hn

theorem chain_new (parent root : Root) (slot jE fE : Nat) (sink : SinkKind) :
    Chain (PA.new parent root slot jE fE sink) := by
  refine ⟨fun i n hn => ?_⟩
  cases i with
  | zero =>
    simp [PA.new] at hn; subst hn
    exact ⟨slot, by simp [PA.new, aGet], Or.inr ⟨rfl, Or.inl ⟨rfl, rfl⟩⟩⟩
  | succ i => simp [PA.new] at hn

theorem chain_congr {pr pr' : PA} (hi : pr'.indices = pr.indices) (hb : pr'.blockSlots = pr.blockSlots)
    (_hl : pr'.nodes.length = pr.nodes.length)
    (hs : ∀ i : Nat, (pr'.nodes[i]?).map Node.skel = (pr.nodes[i]?).map Node.skel) (hc : Chain pr) :
    Chain pr' := by
  refine ⟨fun i n hn => ?_⟩
  have h1 := hs i
  rw [hn] at h1
  cases hm : pr.nodes[i]? with
  | none => rw [hm] at h1; simp at h1
  | some m =>
    rw [hm] at h1
    simp only [Option.map_some, Option.some.injEq] at h1
    have := (hc.ok i m hm).skel h1
    exact this.mono (fun r i h => by rw [hi]; exact h) (fun r s h => by rw [hb]; exact h)

theorem chain_setUpdated {pr : PA} (hc : Chain pr) (b : Bool) : Chain { pr with updated := b } :=
  ⟨fun i n hn => (hc.ok i n hn).mono (fun _ _ h => h) (fun _ _ h => h)⟩

/-! ### pushing an empty-slot node -/

theorem chain_push_slot (pr : PA) (hc : Chain pr) (r : Root) (s0 s q : Nat) (jE fE : Nat)
    (hb : aGet pr.blockSlots r = some s0) (hlt : s0 < s) (hnew : aGet pr.indices ⟨s, r⟩ = none)
    (hq : aGet pr.indices ⟨s - 1, r⟩ = some q) :
    Chain (pr.push ⟨s, r⟩ (some q) (some q) r jE fE) := by
  have g := push_grow pr ⟨s, r⟩ (some q) (some q) r jE fE hnew
  refine chain_grow g hc (fun i n hi hn => ?_)
  simp only [PA.push] at hn
  rcases (getElem?_snoc_some _ _ _ _).1 hn with hn | ⟨_, hn⟩
  · have : i < pr.nodes.length := (List.getElem?_eq_some_iff.1 hn).1
    omega
  · subst hn
    exact ⟨s0, hb, Or.inl ⟨hlt, q, rfl, rfl, g.idx_old _ _ hq⟩⟩

/-- the loop of `ProcessSlot` keeps the chain structure and hands on the node one slot below -/
theorem fillGaps_chain (parent : Root) (jE fE ps : Nat) (n i : Nat) (pr : PA) (pi : Option Idx) (h : WF pr)
    (hc : Chain pr) (hb : aGet pr.blockSlots parent = some ps) (hi : ps < i)
    (hpi : ∃ q, pi = some q ∧ aGet pr.indices ⟨i - 1, parent⟩ = some q) :
    Chain (PA.fillGaps parent jE fE n i pr pi).1 ∧
    ∃ q, (PA.fillGaps parent jE fE n i pr pi).2 = some q ∧
      aGet (PA.fillGaps parent jE fE n i pr pi).1.indices ⟨i + n - 1, parent⟩ = some q := by
  induction n generalizing i pr pi with
  | zero => exact ⟨hc, hpi⟩
  | succ n ih =>
    have e : i + (n + 1) - 1 = i + 1 + n - 1 := by omega
    rw [e]
    unfold PA.fillGaps
    cases hg : aGet pr.indices ⟨i, parent⟩ with
    | some ni =>
      simp only []
      exact ih (i + 1) pr (some ni) h hc hb (by omega) ⟨ni, rfl, by simpa using hg⟩
    | none =>
      simp only []
      obtain ⟨q, hq1, hq2⟩ := hpi
      subst hq1
      have hql : q < pr.nodes.length := h.idx_lt hq2
      have hw := wf_push pr h ⟨i, parent⟩ (some q) (some q) parent jE fE hg
        (fun p hp => by cases hp; exact hql) (fun p hp => by cases hp; exact hql)
      have hc' := chain_push_slot pr hc parent ps i q jE fE hb hi hg hq2
      exact ih (i + 1) (pr.push ⟨i, parent⟩ (some q) (some q) parent jE fE) (some (pr.offset + pr.nodes.length))
        hw hc' hb (by omega) ⟨_, rfl, by simpa using push_indices_self pr ⟨i, parent⟩ (some q) (some q) parent jE fE⟩

theorem gapFill_chain (pr : PA) (h : WF pr) (hc : Chain pr) (parent : Root) (slot jE fE ps : Nat)
    (hb : aGet pr.blockSlots parent = some ps) (hlt : ps < slot) :
    Chain (gapFill pr parent slot jE fE).1 ∧
    ∃ q, (gapFill pr parent slot jE fE).2 = some q ∧
      aGet (gapFill pr parent slot jE fE).1.indices ⟨slot - 1, parent⟩ = some q := by
  unfold gapFill
  rw [hb]
  simp only []
  obtain ⟨i, hi⟩ := Option.isSome_iff_exists.1 (h.bs_node parent ps hb)
  have := fillGaps_chain parent jE fE ps (slot - (ps + 1)) (ps + 1) pr
    (some ((aGet pr.indices ⟨ps, parent⟩).getD 0)) h hc hb (by omega)
    ⟨i, by rw [hi]; rfl, by simpa using hi⟩
  have e : ps + 1 + (slot - (ps + 1)) - 1 = slot - 1 := by omega
  rw [e] at this
  exact this

theorem chain_processSlot (pr : PA) (h : WF pr) (hc : Chain pr) (parent : Root) (slot jE fE : Nat)
    (hok : (aGet pr.indices ⟨slot, parent⟩).isSome ∨ ∃ s0, aGet pr.blockSlots parent = some s0 ∧ s0 ≤ slot) :
    Chain (pr.processSlot parent slot jE fE) := by
  rw [processSlot_eq]
  split
  · exact hc
  · next hs =>
    have hs' : aGet pr.indices ⟨slot, parent⟩ = none := by simpa using hs
    rcases hok with hok | ⟨ps, hb, hle⟩
    · exact absurd hok hs
    · have hlt : ps < slot := by
        rcases Nat.lt_or_ge ps slot with h1 | h1
        · exact h1
        · have : ps = slot := by omega
          subst this
          have := h.bs_node parent ps hb
          rw [hs'] at this; cases this
      obtain ⟨a, b, c, d, e⟩ := gapFill_spec pr h parent slot jE fE hs'
      obtain ⟨c1, q, hq1, hq2⟩ := gapFill_chain pr h hc parent slot jE fE ps hb hlt
      rw [hq1]
      exact chain_setUpdated
        (chain_push_slot _ c1 parent ps slot q jE fE (by rw [d]; exact hb) hlt e hq2) false


/-! ### pushing a block node -/

theorem chain_push_block (pr : PA) (hc : Chain pr) (parent root : Root) (slot p0 tpi fpi : Nat)
    (jE fE : Nat) (b : Bool)
    (hbr : aGet pr.blockSlots root = none) (hnew : aGet pr.indices ⟨slot, root⟩ = none)
    (hbp : aGet pr.blockSlots parent = some p0) (hlt : p0 < slot)
    (ht : aGet pr.indices ⟨slot, parent⟩ = some tpi) (hf : aGet pr.indices ⟨p0, parent⟩ = some fpi) :
    Chain { pr.push ⟨slot, root⟩ (some tpi) (some fpi) parent jE fE with
            blockSlots := aSet (pr.push ⟨slot, root⟩ (some tpi) (some fpi) parent jE fE).blockSlots root slot,
            updated := b } := by
  have g := grow_setBlockSlot pr _ (push_grow pr ⟨slot, root⟩ (some tpi) (some fpi) parent jE fE hnew)
    root slot b hbr
  have hne : parent ≠ root := by intro e; subst e; rw [hbr] at hbp; cases hbp
  refine chain_grow g hc (fun i n hi hn => ?_)
  simp only [PA.push] at hn
  rcases (getElem?_snoc_some _ _ _ _).1 hn with hn | ⟨_, hn⟩
  · have : i < pr.nodes.length := (List.getElem?_eq_some_iff.1 hn).1
    omega
  · subst hn
    refine ⟨slot, ?_, Or.inr ⟨rfl, Or.inr ⟨hne, p0, tpi, fpi, g.bs_old _ _ hbp, hlt, rfl, g.idx_old _ _ ht, rfl,
      g.idx_old _ _ hf⟩⟩⟩
    show aGet (aSet pr.blockSlots root slot) root = some slot
    exact aGet_aSet_self _ _ _

theorem chain_processBlock (pr : PA) (h : WF pr) (hc : Chain pr) (parent root : Root) (slot jE fE : Nat)
    (pr' : PA) (b : Bool) (e : pr.processBlock parent root slot jE fE = some (pr', b)) : Chain pr' := by
  unfold PA.processBlock at e
  split at e
  · cases e; exact hc
  next h1 =>
  split at e
  · cases e; exact hc
  next h2 =>
  split at e
  · cases e; exact hc
  next pbs hp =>
  split at e
  · cases e; exact hc
  next h3 =>
  obtain ⟨w1, g1, bs1, s1⟩ := processSlot_spec pr h parent slot jE fE
  have c1 : Chain (pr.processSlot parent slot jE fE) :=
    chain_processSlot pr h hc parent slot jE fE (Or.inr ⟨pbs, hp, by omega⟩)
  simp only [] at e
  split at e
  · cases e; exact c1
  next fpi hf =>
  split at e
  · cases e
  next tpi ht =>
  cases e
  have hne : root ≠ parent := by
    intro e; subst e; rw [hp] at h2; exact h2 rfl
  have h1' : aGet pr.indices ⟨slot, root⟩ = none := by simpa using h1
  have h2' : aGet pr.blockSlots root = none := by simpa using h2
  have hnew : aGet (pr.processSlot parent slot jE fE).indices ⟨slot, root⟩ = none :=
    g1.idx_new h w1 ⟨slot, root⟩ h1' hne
  exact chain_push_block _ c1 parent root slot pbs tpi fpi jE fE false (by rw [bs1]; exact h2') hnew
    (by rw [bs1]; exact hp) (by omega) ht hf


/-! ## the chain structure, read through the index map (needs `WF`) -/

theorem Chain.key {pr : PA} (h : WF pr) (hc : Chain pr) {s : Nat} {r : Root} {i : Nat}
    (hi : aGet pr.indices ⟨s, r⟩ = some i) :
    ∃ n, pr.nodes[i]? = some n ∧ n.ref = ⟨s, r⟩ ∧ ∃ s0, aGet pr.blockSlots r = some s0 ∧
      ((s0 < s ∧ ∃ q, n.tparent = some q ∧ n.fparent = some q ∧ aGet pr.indices ⟨s - 1, r⟩ = some q) ∨
       (s0 = s ∧
         ((n.tparent = none ∧ n.fparent = none) ∨
          (n.parentRoot ≠ r ∧ ∃ p0 t f, aGet pr.blockSlots n.parentRoot = some p0 ∧ p0 < s0 ∧
            n.tparent = some t ∧ aGet pr.indices ⟨s0, n.parentRoot⟩ = some t ∧
            n.fparent = some f ∧ aGet pr.indices ⟨p0, n.parentRoot⟩ = some f)))) := by
  obtain ⟨n, hn, hnr⟩ := h.idx_sound _ _ hi
  have := hc.ok i n hn
  unfold NodeOK at this
  rw [hnr] at this
  exact ⟨n, hn, hnr, this⟩

/-- no orphans: every node's root has a first slot -/
theorem Chain.rooted {pr : PA} (hc : Chain pr) (i : Nat) (n : Node) (hn : pr.nodes[i]? = some n) :
    (aGet pr.blockSlots n.ref.root).isSome := by
  obtain ⟨s0, hb, _⟩ := hc.ok i n hn
  rw [hb]; rfl

/-- the first slot of a root is its lowest slot -/
theorem Chain.first_min {pr : PA} (h : WF pr) (hc : Chain pr) (r : Root) (s0 s i : Nat)
    (hb : aGet pr.blockSlots r = some s0) (hi : aGet pr.indices ⟨s, r⟩ = some i) : s0 ≤ s := by
  obtain ⟨n, _, _, s0', hb', hk⟩ := hc.key h hi
  rw [hb] at hb'; cases hb'
  rcases hk with ⟨h1, _⟩ | ⟨h1, _⟩ <;> omega

/-- an empty-slot node hangs from the node one slot before it, both as transition and fork-choice parent -/
theorem Chain.slot_node {pr : PA} (h : WF pr) (hc : Chain pr) (r : Root) (s0 s i : Nat) (n : Node)
    (hb : aGet pr.blockSlots r = some s0) (hi : aGet pr.indices ⟨s, r⟩ = some i) (hlt : s0 < s)
    (hn : pr.nodes[i]? = some n) :
    ∃ q, n.tparent = some q ∧ n.fparent = some q ∧ aGet pr.indices ⟨s - 1, r⟩ = some q := by
  obtain ⟨n', hn', _, s0', hb', hk⟩ := hc.key h hi
  rw [hb] at hb'; cases hb'
  rw [hn] at hn'; cases hn'
  rcases hk with ⟨_, h2⟩ | ⟨h1, _⟩
  · exact h2
  · omega

/-- a first node is the anchor (no parents) or a block node: transition parent = the parent root's node at
the same slot, fork-choice parent = the parent root's first node, which is at a lower slot -/
theorem Chain.first_node {pr : PA} (h : WF pr) (hc : Chain pr) (r : Root) (s0 i : Nat) (n : Node)
    (hb : aGet pr.blockSlots r = some s0) (hi : aGet pr.indices ⟨s0, r⟩ = some i)
    (hn : pr.nodes[i]? = some n) :
    (n.tparent = none ∧ n.fparent = none) ∨
    (n.parentRoot ≠ r ∧ ∃ p0 t f, aGet pr.blockSlots n.parentRoot = some p0 ∧ p0 < s0 ∧
       n.tparent = some t ∧ aGet pr.indices ⟨s0, n.parentRoot⟩ = some t ∧
       n.fparent = some f ∧ aGet pr.indices ⟨p0, n.parentRoot⟩ = some f) := by
  obtain ⟨n', hn', _, s0', hb', hk⟩ := hc.key h hi
  rw [hb] at hb'; cases hb'
  rw [hn] at hn'; cases hn'
  rcases hk with ⟨h1, _⟩ | ⟨_, h2⟩
  · omega
  · exact h2

/-! ## item 3: the empty-slot nodes of a root are contiguous -/

theorem contig_of_chain {pr : PA} (h : WF pr) (hc : Chain pr) : Contig pr := by
  intro root s0 s s' hb hs h1 h2
  generalize hk : s - s' = k
  induction k generalizing s with
  | zero => have : s' = s := by omega
            subst this; exact hs
  | succ k ih =>
    obtain ⟨i, hi⟩ := Option.isSome_iff_exists.1 hs
    obtain ⟨n, _, _, s0', hb', hk'⟩ := hc.key h hi
    rw [hb] at hb'; cases hb'
    rcases hk' with ⟨_, q, _, _, hq⟩ | ⟨h3, _⟩
    · exact ih (s - 1) (by rw [hq]; rfl) (by omega) (by omega)
    · omega

/-! ## item 4: ancestry facts -/

theorem fpar_of_node {ns : List Node} {i : Nat} {n : Node} (hn : ns[i]? = some n) : fpar ns i = n.fparent := by
  simp [fpar, hn]

theorem tpar_of_node {ns : List Node} {i : Nat} {n : Node} (hn : ns[i]? = some n) : tpar ns i = n.tparent := by
  simp [tpar, hn]

theorem fpar_some {ns : List Node} {j p : Nat} (h : fpar ns j = some p) :
    ∃ n, ns[j]? = some n ∧ n.fparent = some p := by
  unfold fpar at h
  cases hj : ns[j]? with
  | none => simp [hj] at h
  | some n => rw [hj] at h; exact ⟨n, rfl, h⟩

theorem tpar_some {ns : List Node} {j p : Nat} (h : tpar ns j = some p) :
    ∃ n, ns[j]? = some n ∧ n.tparent = some p := by
  unfold tpar at h
  cases hj : ns[j]? with
  | none => simp [hj] at h
  | some n => rw [hj] at h; exact ⟨n, rfl, h⟩

/-- `f` is the index of the first node of root `r` (its block node, or the anchor) -/
def FirstOf (pr : PA) (r : Root) (f : Nat) : Prop :=
  ∃ s0, aGet pr.blockSlots r = some s0 ∧ aGet pr.indices ⟨s0, r⟩ = some f

theorem FirstOf.unique {pr : PA} {r : Root} {f f' : Nat} (h : FirstOf pr r f) (h' : FirstOf pr r f') : f = f' := by
  obtain ⟨s, a, b⟩ := h
  obtain ⟨s', a', b'⟩ := h'
  rw [a] at a'; cases a'
  rw [b] at b'; cases b'; rfl

/-- a node at its root's first slot is the root's first node -/
theorem firstOf_self {pr : PA} (h : WF pr) {j : Nat} {n : Node} {f : Nat} (hn : pr.nodes[j]? = some n)
    (hb : aGet pr.blockSlots n.ref.root = some n.ref.slot) (hf : FirstOf pr n.ref.root f) : f = j := by
  have : aGet pr.indices ⟨n.ref.slot, n.ref.root⟩ = some j := h.idx_complete j n hn
  exact hf.unique ⟨_, hb, this⟩

/-- the first node of a root is a fork-choice and a transition ancestor of all the root's nodes -/
theorem reach_first {pr : PA} (h : WF pr) (hc : Chain pr) :
    ∀ (i : Nat) (n : Node) (f : Nat), pr.nodes[i]? = some n → FirstOf pr n.ref.root f →
      PReach (fpar pr.nodes) f i ∧ PReach (tpar pr.nodes) f i := by
  intro i
  induction i using Nat.strongRecOn with
  | _ i ih =>
    intro n f hn hf
    obtain ⟨s0, hb, hk⟩ := hc.ok i n hn
    rcases hk with ⟨hlt, q, ht, hfp, hq⟩ | ⟨heq, _⟩
    · obtain ⟨m, hm, hmr⟩ := h.idx_sound _ _ hq
      have hqi : q < i := h.tpar_lt i n q hn ht
      have hmroot : m.ref.root = n.ref.root := by rw [hmr]
      obtain ⟨r1, r2⟩ := ih q hqi m f hm (by rw [hmroot]; exact hf)
      exact ⟨.step (by rw [fpar_of_node hn]; exact hfp) r1, .step (by rw [tpar_of_node hn]; exact ht) r2⟩
    · subst heq
      rw [firstOf_self h hn hb hf]
      exact ⟨.refl, .refl⟩

/-- a first node above some node of a root is above (or is) that root's first node -/
theorem first_reach_first {pr : PA} (h : WF pr) (hc : Chain pr) {a : Nat} (ha : ∃ r, FirstOf pr r a) {i : Nat}
    (hr : PReach (fpar pr.nodes) a i) :
    ∀ (n : Node) (f : Nat), pr.nodes[i]? = some n → FirstOf pr n.ref.root f → PReach (fpar pr.nodes) a f := by
  induction hr with
  | refl =>
    intro n f hn hf
    obtain ⟨r, sa, hb, hi⟩ := ha
    obtain ⟨m, hm, hmr⟩ := h.idx_sound _ _ hi
    rw [hn] at hm; cases hm
    have : FirstOf pr n.ref.root a := ⟨sa, by rw [hmr]; exact hb, by rw [hmr]; exact hi⟩
    rw [hf.unique this]; exact .refl
  | @step j p hp hr ih =>
    intro n f hn hf
    obtain ⟨s0, hb, hk⟩ := hc.ok j n hn
    have hp' := hp
    rw [fpar_of_node hn] at hp'
    rcases hk with ⟨hlt, q, ht, hfp, hq⟩ | ⟨heq, _⟩
    · rw [hfp] at hp'; cases hp'
      obtain ⟨m, hm, hmr⟩ := h.idx_sound _ _ hq
      have hmroot : m.ref.root = n.ref.root := by rw [hmr]
      exact ih m f hm (by rw [hmroot]; exact hf)
    · subst heq
      rw [firstOf_self h hn hb hf]
      exact .step hp hr

/-- a fork-choice ancestor is a transition ancestor -/
theorem treach_of_reach {pr : PA} (h : WF pr) (hc : Chain pr) {a l : Nat} (hr : PReach (fpar pr.nodes) a l) :
    PReach (tpar pr.nodes) a l := by
  induction hr with
  | refl => exact .refl
  | @step j p hp hr ih =>
    obtain ⟨n, hn, hfp⟩ := fpar_some hp
    obtain ⟨s0, hb, hk⟩ := hc.ok j n hn
    rcases hk with ⟨hlt, q, ht, hfq, hq⟩ | ⟨heq, hk⟩
    · rw [hfq] at hfp; cases hfp
      exact .step (by rw [tpar_of_node hn]; exact ht) ih
    · rcases hk with ⟨_, h2⟩ | ⟨_, p0, t, f, hbp, _, ht, hti, hf, hfi⟩
      · rw [h2] at hfp; cases hfp
      · rw [hf] at hfp; cases hfp
        obtain ⟨m, hm, hmr⟩ := h.idx_sound _ _ hti
        have hmroot : m.ref.root = n.parentRoot := by rw [hmr]
        have := (reach_first h hc t m p hm ⟨p0, by rw [hmroot]; exact hbp, by rw [hmroot]; exact hfi⟩).2
        exact .step (by rw [tpar_of_node hn]; exact ht) (ih.trans this)

/-- the chain lemma behind `inSubtree`'s walk: a first node that is a fork-choice ancestor-or-self of a
transition ancestor of `l` is a fork-choice ancestor-or-self of `l` -/
theorem reach_of_treach {pr : PA} (h : WF pr) (hc : Chain pr) {a : Nat} (ha : ∃ r, FirstOf pr r a) {i l : Nat}
    (ht : PReach (tpar pr.nodes) i l) (hr : PReach (fpar pr.nodes) a i) : PReach (fpar pr.nodes) a l := by
  induction ht with
  | refl => exact hr
  | @step j p hp _ ih =>
    obtain ⟨n, hn, htp⟩ := tpar_some hp
    obtain ⟨s0, hb, hk⟩ := hc.ok j n hn
    rcases hk with ⟨hlt, q, ht, hfq, hq⟩ | ⟨heq, hk⟩
    · rw [ht] at htp; cases htp
      exact .step (by rw [fpar_of_node hn]; exact hfq) ih
    · rcases hk with ⟨h1, _⟩ | ⟨_, p0, t, f, hbp, _, ht, hti, hf, hfi⟩
      · rw [h1] at htp; cases htp
      · rw [ht] at htp; cases htp
        obtain ⟨m, hm, hmr⟩ := h.idx_sound _ _ hti
        have hmroot : m.ref.root = n.parentRoot := by rw [hmr]
        have := first_reach_first h hc ha ih m f hm ⟨p0, by rw [hmroot]; exact hbp, by rw [hmroot]; exact hfi⟩
        exact .step (by rw [fpar_of_node hn]; exact hf) this

/-- the fork-choice parent sits at a strictly lower slot -/
theorem fparent_slot_lt {pr : PA} (h : WF pr) (hc : Chain pr) {j : Nat} {n : Node} {p : Nat}
    (hn : pr.nodes[j]? = some n) (hp : n.fparent = some p) :
    ∃ m, pr.nodes[p]? = some m ∧ m.ref.slot < n.ref.slot := by
  obtain ⟨s0, hb, hk⟩ := hc.ok j n hn
  rcases hk with ⟨hlt, q, _, hfq, hq⟩ | ⟨heq, hk⟩
  · rw [hfq] at hp; cases hp
    obtain ⟨m, hm, hmr⟩ := h.idx_sound _ _ hq
    refine ⟨m, hm, ?_⟩
    rw [hmr]; show n.ref.slot - 1 < n.ref.slot; omega
  · rcases hk with ⟨_, h2⟩ | ⟨_, p0, t, f, _, hlt, _, _, hf, hfi⟩
    · rw [h2] at hp; cases hp
    · rw [hf] at hp; cases hp
      obtain ⟨m, hm, hmr⟩ := h.idx_sound _ _ hfi
      refine ⟨m, hm, ?_⟩
      rw [hmr]; show p0 < n.ref.slot; omega

/-- a proper fork-choice ancestor sits at a strictly lower slot -/
theorem reach_slot {pr : PA} (h : WF pr) (hc : Chain pr) {a l : Nat} (hr : PReach (fpar pr.nodes) a l) :
    ∀ (na nl : Node), pr.nodes[a]? = some na → pr.nodes[l]? = some nl → a = l ∨ na.ref.slot < nl.ref.slot := by
  induction hr with
  | refl => intro _ _ _ _; exact Or.inl rfl
  | @step j p hp _ ih =>
    intro na nl hna hnl
    rw [fpar_of_node hnl] at hp
    obtain ⟨m, hm, hlt⟩ := fparent_slot_lt h hc hnl hp
    rcases ih na m hna hm with e | e
    · subst e; rw [hna] at hm; cases hm; exact Or.inr hlt
    · exact Or.inr (by omega)


/-- the converse of the four readings: under `WF` the map-keyed formulation gives `Chain` -/
theorem Chain.of_keyed {pr : PA} (h : WF pr)
    (rooted : ∀ (i : Nat) (n : Node), pr.nodes[i]? = some n → (aGet pr.blockSlots n.ref.root).isSome)
    (first_min : ∀ r s0 s i, aGet pr.blockSlots r = some s0 → aGet pr.indices ⟨s, r⟩ = some i → s0 ≤ s)
    (slot_node : ∀ r s0 s i (n : Node), aGet pr.blockSlots r = some s0 → aGet pr.indices ⟨s, r⟩ = some i →
      s0 < s → pr.nodes[i]? = some n →
      ∃ q, n.tparent = some q ∧ n.fparent = some q ∧ aGet pr.indices ⟨s - 1, r⟩ = some q)
    (first_node : ∀ r s0 i (n : Node), aGet pr.blockSlots r = some s0 → aGet pr.indices ⟨s0, r⟩ = some i →
      pr.nodes[i]? = some n →
      (n.tparent = none ∧ n.fparent = none) ∨
      (n.parentRoot ≠ r ∧ ∃ p0 t f, aGet pr.blockSlots n.parentRoot = some p0 ∧ p0 < s0 ∧
         n.tparent = some t ∧ aGet pr.indices ⟨s0, n.parentRoot⟩ = some t ∧
         n.fparent = some f ∧ aGet pr.indices ⟨p0, n.parentRoot⟩ = some f)) :
    Chain pr := by
  refine ⟨fun i n hn => ?_⟩
  obtain ⟨s0, hb⟩ := Option.isSome_iff_exists.1 (rooted i n hn)
  have hi : aGet pr.indices ⟨n.ref.slot, n.ref.root⟩ = some i := h.idx_complete i n hn
  have hle := first_min _ _ _ _ hb hi
  refine ⟨s0, hb, ?_⟩
  rcases Nat.lt_or_ge s0 n.ref.slot with hlt | hge
  · exact Or.inl ⟨hlt, slot_node _ _ _ _ n hb hi hlt hn⟩
  · have e : s0 = n.ref.slot := by omega
    subst e
    exact Or.inr ⟨rfl, first_node _ _ _ n hb hi hn⟩


/-! ## item 5: `inSubtree` on first nodes is fork-choice ancestry -/

theorem getNode_off0 {pr : PA} (h : WF pr) (i : Nat) : pr.getNode i = pr.nodes[i]? := by
  unfold PA.getNode; rw [h.off]; simp

/-- the walk never leaves the array -/
theorem subWalk_some {pr : PA} (h : WF pr) (a : Nat) (best : Option Idx) :
    ∀ fuel oi, (∀ i, oi = some i → i < pr.nodes.length) → ∃ b, pr.subWalk a best fuel oi = some b := by
  intro fuel
  induction fuel with
  | zero => intro oi _; exact ⟨false, rfl⟩
  | succ f ih =>
    intro oi hoi
    cases oi with
    | none => exact ⟨false, rfl⟩
    | some i =>
      have hi := hoi i rfl
      obtain ⟨n, hn⟩ : ∃ n, pr.nodes[i]? = some n := ⟨pr.nodes[i], List.getElem?_eq_getElem hi⟩
      simp only [PA.subWalk, hn]
      split
      · exact ⟨_, rfl⟩
      · split
        · exact ⟨_, rfl⟩
        · split
          · exact ⟨_, rfl⟩
          · exact ih n.tparent (fun p hp => by have := h.tpar_lt i n p hn hp; omega)

/-- the shortcut: equal best descendants put the two nodes on one fork-choice chain -/
theorem shortcut_sound {pr : PA} (h : WF pr) {a l : Nat} {na nl : Node} (hna : pr.nodes[a]? = some na)
    (hnl : pr.nodes[l]? = some nl) (halt : a ≤ l)
    (hs : (na.bestDesc.isSome && (na.bestDesc = some l || na.bestDesc = nl.bestDesc)) = true) :
    PReach (fpar pr.nodes) a l := by
  simp only [Bool.and_eq_true, Bool.or_eq_true, decide_eq_true_eq] at hs
  obtain ⟨h1, h2⟩ := hs
  obtain ⟨d, hd⟩ := Option.isSome_iff_exists.1 h1
  have r1 := (anc_iff_reach _ h.fpar_lt2 a d).1 (h.bd_desc a na d hna hd).2.2
  rcases h2 with h2 | h2
  · rw [hd] at h2; cases h2; exact r1
  · rw [hd] at h2
    have r2 := (anc_iff_reach _ h.fpar_lt2 l d).1 (h.bd_desc l nl d hnl h2.symm).2.2
    exact r1.comparable h.fpar_lt2 r2 halt

/-- soundness of the walk's `true` exits -/
theorem subWalk_sound {pr : PA} (h : WF pr) (hc : Chain pr) {a : Nat} (ha : ∃ r, FirstOf pr r a) {na : Node}
    (hna : pr.nodes[a]? = some na) (l : Nat) :
    ∀ fuel oi, (∀ i, oi = some i → PReach (tpar pr.nodes) i l) →
      pr.subWalk a na.bestDesc fuel oi = some true → PReach (fpar pr.nodes) a l := by
  intro fuel
  induction fuel with
  | zero => intro oi _ hw; simp [PA.subWalk] at hw
  | succ f ih =>
    intro oi hoi hw
    cases oi with
    | none => simp [PA.subWalk] at hw
    | some i =>
      have hil := hoi i rfl
      simp only [PA.subWalk] at hw
      split at hw
      · cases hw
      next h1 =>
      split at hw
      · next h2 => subst h2; exact reach_of_treach h hc ha hil .refl
      next h2 =>
      split at hw
      · cases hw
      next tmp htmp =>
      split at hw
      · next h3 =>
        have : PReach (fpar pr.nodes) a i :=
          shortcut_sound h hna htmp (Nat.le_of_not_lt h1) (by
            simp only [Bool.and_eq_true, decide_eq_true_eq] at h3
            simp only [Bool.and_eq_true, Bool.or_eq_true, decide_eq_true_eq]
            exact ⟨h3.1, Or.inr h3.2.symm⟩)
        exact reach_of_treach h hc ha hil this
      · exact ih tmp.tparent (fun p hp =>
          (PReach.step (by rw [tpar_of_node htmp]; exact hp) .refl).trans hil) hw

/-- completeness of the walk: it reaches every transition ancestor not below the anchor -/
theorem subWalk_complete {pr : PA} (h : WF pr) (a : Nat) (best : Option Idx) :
    ∀ fuel i, PReach (tpar pr.nodes) a i → i < fuel → i < pr.nodes.length →
      pr.subWalk a best fuel (some i) = some true := by
  intro fuel
  induction fuel with
  | zero => intro i _ hi _; omega
  | succ f ih =>
    intro i hr hi hlen
    have hle := hr.le h.tpar_lt2
    obtain ⟨n, hn⟩ : ∃ n, pr.nodes[i]? = some n := ⟨pr.nodes[i], List.getElem?_eq_getElem hlen⟩
    simp only [PA.subWalk, hn]
    rw [if_neg (show ¬ i < a from by omega)]
    split
    · rfl
    next h2 =>
    split
    · rfl
    · cases hr with
      | refl => exact absurd rfl h2
      | @step _ p hp hr' =>
        have hpi := h.tpar_lt2 i p hp
        rw [tpar_of_node hn] at hp
        rw [hp]
        exact ih p hr' (by omega) (by omega)

/-- C11: on the first nodes of two roots the index-level `inSubtree` is exactly fork-choice ancestry. -/
theorem inSubtreeIdx_eq_anc (pr : PA) (h : WF pr) (hc : Chain pr) (ra rl : Root) (sa sl a l : Nat)
    (ha : aGet pr.blockSlots ra = some sa) (ia : aGet pr.indices ⟨sa, ra⟩ = some a)
    (_hl : aGet pr.blockSlots rl = some sl) (il : aGet pr.indices ⟨sl, rl⟩ = some l) :
    pr.inSubtreeIdx a l = some (false, anc pr.nodes a l) := by
  obtain ⟨na, hna, _⟩ := h.idx_sound _ _ ia
  obtain ⟨nl, hnl, _⟩ := h.idx_sound _ _ il
  have hfa : ∃ r, FirstOf pr r a := ⟨ra, sa, ha, ia⟩
  have hiff := anc_iff_reach pr.nodes h.fpar_lt2 a l
  unfold PA.inSubtreeIdx
  by_cases hal : a = l
  · subst hal
    rw [if_pos rfl, hiff.2 .refl]
  · rw [if_neg hal, getNode_off0 h, getNode_off0 h, hna, hnl]
    simp only []
    cases hA : anc pr.nodes a l with
    | true =>
      have hr := hiff.1 hA
      have h1 : na.ref.slot < nl.ref.slot := by
        rcases reach_slot h hc hr na nl hna hnl with e | e
        · exact absurd e hal
        · exact e
      have h2 : a < l := by have := hr.le h.fpar_lt2; omega
      rw [if_neg (show ¬ na.ref.slot ≥ nl.ref.slot from by omega), if_neg (show ¬ a ≥ l from by omega)]
      split
      · rfl
      · cases treach_of_reach h hc hr with
        | refl => exact absurd rfl hal
        | @step _ p hp hr' =>
          have hpl := h.tpar_lt2 l p hp
          have hll : l < pr.nodes.length := (List.getElem?_eq_some_iff.1 hnl).1
          rw [tpar_of_node hnl] at hp
          rw [hp, subWalk_complete h a na.bestDesc (l + 1 + pr.nodes.length) p hr' (by omega) (by omega)]
    | false =>
      split
      · rfl
      next h1 =>
      split
      · rfl
      next h2 =>
      split
      · next h3 =>
        have := hiff.2 (shortcut_sound h hna hnl (Nat.le_of_lt (Nat.lt_of_not_le h2)) h3)
        rw [hA] at this; cases this
      · obtain ⟨b, hb⟩ := subWalk_some h a na.bestDesc (l + 1 + pr.nodes.length) nl.tparent
          (fun p hp => by
            have := h.tpar_lt l nl p hnl hp
            have hll : l < pr.nodes.length := (List.getElem?_eq_some_iff.1 hnl).1
            omega)
        rw [hb]
        cases b with
        | false => rfl
        | true =>
          have := hiff.2 (subWalk_sound h hc hfa hna l (l + 1 + pr.nodes.length) nl.tparent
            (fun p hp => PReach.step (by rw [tpar_of_node hnl]; exact hp) .refl) hb)
          rw [hA] at this; cases this

/-- in a well-formed array the walk cannot run out of fuel: indices strictly decrease -/
theorem subSpins_false {pr : PA} (h : WF pr) (a : Nat) (best : Option Idx) :
    ∀ fuel oi, (∀ i, oi = some i → i < fuel) → pr.subSpins a best fuel oi = false := by
  intro fuel
  induction fuel with
  | zero =>
    intro oi hoi
    cases oi with
    | none => rfl
    | some i => have := hoi i rfl; omega
  | succ f ih =>
    intro oi hoi
    cases oi with
    | none => rfl
    | some i =>
      have hi := hoi i rfl
      simp only [PA.subSpins]
      split
      · rfl
      · split
        · rfl
        · split
          · rfl
          next tmp htmp =>
          split
          · rfl
          · exact ih tmp.tparent (fun p hp => by have := h.tpar_lt i tmp p htmp hp; omega)

/-- `inSubtree` on indices always returns in a well-formed array -/
theorem inSubtreeSpins_false (pr : PA) (h : WF pr) (a l : Nat) : pr.inSubtreeSpins a l = false := by
  unfold PA.inSubtreeSpins
  split
  · rfl
  · rw [getNode_off0 h, getNode_off0 h]
    split
    next na nl hna hnl =>
      split
      · rfl
      · split
        · rfl
        · split
          · rfl
          · exact subSpins_false h a na.bestDesc _ _
              (fun p hp => by have := h.tpar_lt l nl p hnl hp; omega)
    · rfl

/-- C11, root level: with connections up to date, `InSubtree` answers "unknown" exactly for a root
outside `blockSlots`, and otherwise fork-choice ancestry of the two roots' first nodes. -/
theorem inSubtree_eq_anc (pr : PA) (h : WF pr) (hc : Chain pr) (hu : pr.updated = true) (ra rl : Root) :
    pr.inSubtree ra rl = .ok pr
      (match (aGet pr.blockSlots ra).bind (fun s => aGet pr.indices ⟨s, ra⟩),
             (aGet pr.blockSlots rl).bind (fun s => aGet pr.indices ⟨s, rl⟩) with
       | some a, some l => (false, anc pr.nodes a l)
       | _, _ => (true, false)) := by
  unfold PA.inSubtree
  by_cases e : ra = rl
  · subst e
    rw [if_pos rfl]
    cases hb : aGet pr.blockSlots ra with
    | none => rfl
    | some s =>
      obtain ⟨i, hi⟩ := Option.isSome_iff_exists.1 (h.bs_node ra s hb)
      simp only [Option.bind_some, hi]
      rw [(anc_iff_reach pr.nodes h.fpar_lt2 i i).2 .refl]
  · rw [if_neg e]
    simp only [hu, if_true]
    cases hb : aGet pr.blockSlots ra with
    | none => rfl
    | some sa =>
      obtain ⟨a, ia⟩ := Option.isSome_iff_exists.1 (h.bs_node ra sa hb)
      simp only [Option.bind_some, ia]
      cases hb' : aGet pr.blockSlots rl with
      | none => rfl
      | some sl =>
        obtain ⟨l, il⟩ := Option.isSome_iff_exists.1 (h.bs_node rl sl hb')
        simp only [Option.bind_some, il]
        rw [inSubtreeSpins_false pr h a l, inSubtreeIdx_eq_anc pr h hc ra rl sa sl a l hb ia hb' il]
        rfl


/-! ## item 4, stated with the Boolean `anc` / `tanc` -/

/-- two fork-choice ancestors of the same node are comparable -/
theorem anc_comparable (ns : List Node) (hlt : ∀ j p, fpar ns j = some p → p < j) {a b d : Nat}
    (ha : anc ns a d = true) (hb : anc ns b d = true) (hab : a ≤ b) : anc ns a b = true :=
  (anc_iff_reach ns hlt a b).2
    (((anc_iff_reach ns hlt a d).1 ha).comparable hlt ((anc_iff_reach ns hlt b d).1 hb) hab)

/-- a fork-choice ancestor is a transition ancestor -/
theorem tanc_of_anc {pr : PA} (h : WF pr) (hc : Chain pr) {a l : Nat} (ha : anc pr.nodes a l = true) :
    tanc pr.nodes a l = true :=
  (tanc_iff_reach _ h.tpar_lt2 a l).2 (treach_of_reach h hc ((anc_iff_reach _ h.fpar_lt2 a l).1 ha))

/-- a first node that is a fork-choice ancestor-or-self of a transition ancestor of `l` is a fork-choice
ancestor-or-self of `l` -/
theorem anc_of_tanc {pr : PA} (h : WF pr) (hc : Chain pr) {ra : Root} {sa a i l : Nat}
    (hb : aGet pr.blockSlots ra = some sa) (ia : aGet pr.indices ⟨sa, ra⟩ = some a)
    (ht : tanc pr.nodes i l = true) (ha : anc pr.nodes a i = true) : anc pr.nodes a l = true :=
  (anc_iff_reach _ h.fpar_lt2 a l).2
    (reach_of_treach h hc ⟨ra, sa, hb, ia⟩ ((tanc_iff_reach _ h.tpar_lt2 i l).1 ht)
      ((anc_iff_reach _ h.fpar_lt2 a i).1 ha))

/-- a proper fork-choice ancestor has a lower slot and a lower index (any two nodes, first or not) -/
theorem anc_lt {pr : PA} (h : WF pr) (hc : Chain pr) {a l : Nat} {na nl : Node}
    (hna : pr.nodes[a]? = some na) (hnl : pr.nodes[l]? = some nl) (hne : a ≠ l)
    (ha : anc pr.nodes a l = true) : na.ref.slot < nl.ref.slot ∧ a < l := by
  have hr := (anc_iff_reach _ h.fpar_lt2 a l).1 ha
  refine ⟨?_, ?_⟩
  · rcases reach_slot h hc hr na nl hna hnl with e | e
    · exact absurd e hne
    · exact e
  · have := hr.le h.fpar_lt2; omega

/-- the same for the first nodes of two roots, through the maps -/
theorem anc_first_lt {pr : PA} (h : WF pr) (hc : Chain pr) {ra rl : Root} {sa sl a l : Nat}
    (_ha : aGet pr.blockSlots ra = some sa) (ia : aGet pr.indices ⟨sa, ra⟩ = some a)
    (_hl : aGet pr.blockSlots rl = some sl) (il : aGet pr.indices ⟨sl, rl⟩ = some l) (hne : a ≠ l)
    (hanc : anc pr.nodes a l = true) : sa < sl ∧ a < l := by
  obtain ⟨na, hna, hnar⟩ := h.idx_sound _ _ ia
  obtain ⟨nl, hnl, hnlr⟩ := h.idx_sound _ _ il
  have := anc_lt h hc hna hnl hne hanc
  rw [hnar, hnlr] at this
  exact this

/-! ## non-vacuity: a concrete forked array satisfies `WF` and `Chain`, and `inSubtreeIdx` computes on it -/

/-- `ProcessBlock` from a well-formed, chain-structured array: no panic, both invariants kept -/
theorem wf_chain_processBlock (pr : PA) (h : WF pr) (hc : Chain pr) (parent root : Root) (slot jE fE : Nat) :
    WF ((pr.processBlock parent root slot jE fE).getD (pr, false)).1 ∧
    Chain ((pr.processBlock parent root slot jE fE).getD (pr, false)).1 := by
  obtain ⟨pr', b, e, w, _⟩ := processBlock_spec pr h parent root slot jE fE
  rw [e]
  exact ⟨w, chain_processBlock pr h hc parent root slot jE fE pr' b e⟩

/-- anchor `(root 1, slot 0)`; block 2 at slot 1 and block 3 at slot 2, both children of root 1:
nodes `0:(1,0) 1:(1,1) 2:(2,1) 3:(1,2) 4:(3,2)` -/
def chainEx0 : PA := PA.new 7 1 0 0 0 .absent
def chainEx1 : PA := ((chainEx0.processBlock 1 2 1 0 0).getD (chainEx0, false)).1
def chainEx : PA := ((chainEx1.processBlock 1 3 2 0 0).getD (chainEx1, false)).1

theorem chainEx_ok : WF chainEx ∧ Chain chainEx := by
  have h0 : WF chainEx0 ∧ Chain chainEx0 := ⟨wf_new 7 1 0 0 0 .absent, chain_new 7 1 0 0 0 .absent⟩
  have h1 := wf_chain_processBlock chainEx0 h0.1 h0.2 1 2 1 0 0
  exact wf_chain_processBlock chainEx1 h1.1 h1.2 1 3 2 0 0

example : chainEx.nodes.map (·.ref) = [⟨0, 1⟩, ⟨1, 1⟩, ⟨1, 2⟩, ⟨2, 1⟩, ⟨2, 3⟩] := by decide
example : aGet chainEx.blockSlots 1 = some 0 ∧ aGet chainEx.indices ⟨0, 1⟩ = some 0 ∧
    aGet chainEx.blockSlots 2 = some 1 ∧ aGet chainEx.indices ⟨1, 2⟩ = some 2 ∧
    aGet chainEx.blockSlots 3 = some 2 ∧ aGet chainEx.indices ⟨2, 3⟩ = some 4 := by decide
/-- the anchor is above block 3 (found by the walk), the sibling block 2 is not -/
example : chainEx.inSubtreeIdx 0 4 = some (false, true) ∧ chainEx.inSubtreeIdx 2 4 = some (false, false) ∧
    chainEx.inSubtreeIdx 4 0 = some (false, false) := by decide
/-- … as the theorem says -/
example : chainEx.inSubtreeIdx 2 4 = some (false, anc chainEx.nodes 2 4) :=
  inSubtreeIdx_eq_anc chainEx chainEx_ok.1 chainEx_ok.2 2 3 1 2 2 4 (by decide) (by decide) (by decide) (by decide)
example : anc chainEx.nodes 0 4 = true ∧ anc chainEx.nodes 2 4 = false ∧ tanc chainEx.nodes 3 4 = true := by decide
/-- `ProcessSlot`'s side condition in `chain_processSlot` is satisfiable and the insertion is effective -/
example : (∃ s0, aGet chainEx.blockSlots 2 = some s0 ∧ s0 ≤ 4) ∧
    (chainEx.processSlot 2 4 0 0).nodes.length = 8 := ⟨⟨1, by decide, by decide⟩, by decide⟩
example : Contig chainEx := contig_of_chain chainEx_ok.1 chainEx_ok.2

end Zrnt.ForkChoice
