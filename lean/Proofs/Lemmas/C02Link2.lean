import Proofs.Lemmas.C02Link
import Zrnt.Beacon.Spec.EpochPure
import Zrnt.Beacon.Spec.SlotsPure
/-! More links between the executable (monadic) specification and its pure stage functions: total balances,
`process_slashings`, the historical accumulators, justification, and the composition `process_epoch`. -/
namespace Zrnt.Proofs.Lemmas
open Zrnt.Beacon Zrnt.Beacon.Spec

theorem total_balance_fold (s : State) : ∀ (indices : List Nat) (acc r : Nat),
    indices.foldlM (fun acc i => do
      let v ← idx s.validators i "validators"
      u64 (acc + v.effective_balance) "get_total_balance") acc = .ok r →
    r = acc + (indices.map (eff_of s.validators)).sum := by
  intro indices
  induction indices with
  | nil =>
    intro acc r h
    simp only [List.foldlM_nil, pure, Except.pure] at h
    injection h with h
    simp [← h]
  | cons i rest ih =>
    intro acc r h
    rw [List.foldlM_cons] at h
    obtain ⟨b, hb, h⟩ := bind_ok _ _ _ h
    obtain ⟨v, hv, hb⟩ := bind_ok _ _ _ hb
    unfold idx at hv
    cases hvi : s.validators[i]? with
    | none => rw [hvi] at hv; cases hv
    | some v' =>
      rw [hvi] at hv
      simp only [pure, Except.pure] at hv
      injection hv with hv
      subst hv
      unfold u64 at hb
      split at hb
      · simp only [pure, Except.pure] at hb
        injection hb with hb
        have := ih _ _ h
        rw [this, ← hb]
        have he : eff_of s.validators i = v'.effective_balance := by
          unfold eff_of
          simp [List.getD, hvi]
        simp only [List.map_cons, List.sum_cons, he]
        omega
      · cases hb

theorem total_balance_link (cfg : Config) (s : State) (indices : List Nat) (r : Nat)
    (h : get_total_balance cfg s indices = .ok r) : r = total_balance_of cfg s.validators indices := by
  unfold get_total_balance at h
  obtain ⟨sum, hsum, h⟩ := bind_ok _ _ _ h
  simp only [pure, Except.pure] at h
  injection h with h
  have := total_balance_fold s indices 0 sum hsum
  unfold total_balance_of
  rw [← h, this, Nat.zero_add]

theorem total_active_balance_link (cfg : Config) (s : State) (r : Nat) (h : get_total_active_balance cfg s = .ok r) :
    r = total_active_balance_of cfg s.validators (get_current_epoch cfg s) :=
  total_balance_link cfg s _ r h

theorem slashings_pure_len (cfg : Config) (fork : Fork) (epoch total : Nat) (slashings : List Nat)
    (vals : List Validator) (balances : List Nat) :
    (process_slashings_pure cfg fork epoch total slashings vals balances).length = min vals.length balances.length := by
  unfold process_slashings_pure
  simp

theorem slashings_stage_link (cfg : Config) (s s' : State) (h : process_slashings cfg s = .ok s') :
    s' = slashings_stage cfg (get_current_epoch cfg s) s := by
  unfold process_slashings at h
  simp only [] at h
  obtain ⟨total, ht, h⟩ := bind_ok _ _ _ h
  obtain ⟨sum, _, h⟩ := bind_ok _ _ _ h
  obtain ⟨adj, _, h⟩ := bind_ok _ _ _ h
  split at h
  · cases h
  · obtain ⟨_, _, h⟩ := bind_ok _ _ _ h
    simp only [pure, Except.pure] at h
    injection h with h
    have e := total_active_balance_link cfg s total ht
    unfold slashings_stage
    rw [← h, e, slashings_pure_len]
    congr 2
    by_cases hl : s.validators.length ≤ s.balances.length
    · rw [Nat.min_eq_left hl]
    · have hl' : s.balances.length ≤ s.validators.length := by omega
      rw [Nat.min_eq_right hl', List.drop_length, List.drop_eq_nil_of_le hl']

theorem historical_stage_link (cfg : Config) (s s' : State)
    (h : (if s.fork ≥ .capella then process_historical_summaries_update cfg s else process_historical_roots_update cfg s) = .ok s') :
    s' = historical_stage cfg (get_current_epoch cfg s) s := by
  unfold historical_stage
  by_cases hf : s.fork ≥ .capella
  · simp only [hf, if_true] at h ⊢
    unfold process_historical_summaries_update at h
    by_cases hz : (cfg.SLOTS_PER_EPOCH = 0 || cfg.SLOTS_PER_HISTORICAL_ROOT / cfg.SLOTS_PER_EPOCH = 0) = true
    · simp only [hz, if_true, invalid, bind, Except.bind] at h
      cases h
    · simp only [hz, Bool.false_eq_true, if_false, bind, Except.bind, pure, Except.pure] at h
      by_cases hd : historical_batch_due cfg (get_current_epoch cfg s) = true
      · simp only [hd, if_true] at h
        split at h
        · cases h
        · injection h with h; exact h.symm
      · simp only [hd, Bool.false_eq_true, if_false] at h
        injection h with h; exact h.symm
  · simp only [hf, if_false] at h ⊢
    unfold process_historical_roots_update at h
    by_cases hz : (cfg.SLOTS_PER_EPOCH = 0 || cfg.SLOTS_PER_HISTORICAL_ROOT / cfg.SLOTS_PER_EPOCH = 0) = true
    · simp only [hz, if_true, invalid, bind, Except.bind] at h
      cases h
    · simp only [hz, Bool.false_eq_true, if_false, bind, Except.bind, pure, Except.pure] at h
      by_cases hd : historical_batch_due cfg (get_current_epoch cfg s) = true
      · simp only [hd, if_true] at h
        split at h
        · cases h
        · injection h with h; exact h.symm
      · simp only [hd, Bool.false_eq_true, if_false] at h
        injection h with h; exact h.symm

theorem map_ok {α β : Type} {f : α → β} {x : SM α} {r : β} (h : f <$> x = .ok r) : ∃ a, x = .ok a ∧ r = f a := by
  cases x with
  | error e => cases h
  | ok a => injection h with h; exact ⟨a, rfl, h.symm⟩

theorem weigh_inputs_fields (cfg : Config) (s : State) (t p c : Nat) (i : FFGInputs) (h : weigh_inputs cfg s t p c = .ok i) :
    i.total_active_balance = t ∧ i.previous_epoch_target_balance = p ∧ i.current_epoch_target_balance = c := by
  unfold weigh_inputs at h
  obtain ⟨_, _, h⟩ := bind_ok _ _ _ h
  obtain ⟨_, _, h⟩ := bind_ok _ _ _ h
  obtain ⟨_, _, h⟩ := bind_ok _ _ _ h
  simp only [] at h
  by_cases h1 : p * 3 ≥ t * 2 <;> by_cases h2 : c * 3 ≥ t * 2 <;> simp only [h1, h2, if_true, if_false] at h
  all_goals
    obtain ⟨_, _, h⟩ := bind_ok _ _ _ h
    obtain ⟨_, _, h⟩ := bind_ok _ _ _ h
    simp only [pure, Except.pure] at h
    injection h with h
    subst h
    exact ⟨rfl, rfl, rfl⟩

theorem justification_stage_link (cfg : Config) (s s' : State) (h : process_justification_and_finalization cfg s = .ok s') :
    ∃ prevAtts currAtts pr cr,
      (s.fork = .phase0 → ¬ get_current_epoch cfg s ≤ GENESIS_EPOCH + 1 →
        resolve_attestations cfg s (get_previous_epoch cfg s) = .ok prevAtts ∧
        resolve_attestations cfg s (get_current_epoch cfg s) = .ok currAtts) ∧
      s' = justification_stage cfg ⟨prevAtts, currAtts, pr, cr, none⟩ (get_previous_epoch cfg s) (get_current_epoch cfg s) s := by
  unfold process_justification_and_finalization at h
  obtain ⟨o, ho, h⟩ := bind_ok _ _ _ h
  unfold justification_inputs at ho
  by_cases hearly : get_current_epoch cfg s ≤ GENESIS_EPOCH + 1
  · simp only [hearly, if_true, pure, Except.pure] at ho
    injection ho with ho
    subst ho
    simp only [pure, Except.pure] at h
    injection h with h
    refine ⟨[], [], ZERO32, ZERO32, fun _ hn => absurd hearly hn, ?_⟩
    unfold justification_stage
    rw [if_pos hearly]; exact h.symm
  · simp only [hearly, if_false] at ho
    obtain ⟨total, htotal, ho⟩ := bind_ok _ _ _ ho
    have etotal := total_active_balance_link cfg s total htotal
    by_cases hf : s.fork = .phase0
    · simp only [hf, if_true] at ho
      obtain ⟨pa, _, ho⟩ := bind_ok _ _ _ ho
      obtain ⟨ca, _, ho⟩ := bind_ok _ _ _ ho
      obtain ⟨ptb, _, ho⟩ := bind_ok _ _ _ ho
      obtain ⟨ctb, _, ho⟩ := bind_ok _ _ _ ho
      obtain ⟨r1, hr1, ho⟩ := bind_ok _ _ _ ho
      obtain ⟨r2, hr2, ho⟩ := bind_ok _ _ _ ho
      obtain ⟨r3, hr3, ho⟩ := bind_ok _ _ _ ho
      obtain ⟨r4, hr4, ho⟩ := bind_ok _ _ _ ho
      rw [hr1] at hr3; injection hr3 with hr3
      rw [hr2] at hr4; injection hr4 with hr4
      rw [← hr3, ← hr4] at ho
      obtain ⟨_, hc, hfin⟩ := bind_ok _ _ _ ho
      have e := crossCheck_ok _ _ _ hc
      obtain ⟨i, hw, ho⟩ := map_ok hfin
      · subst ho
        simp only [pure, Except.pure] at h
        injection h with h
        obtain ⟨f1, f2, f3⟩ := weigh_inputs_fields cfg s total ptb ctb i hw
        refine ⟨r1, r2, i.previous_root, i.current_root, fun _ _ => ⟨hr1, hr2⟩, ?_⟩
        unfold justification_stage
        rw [if_neg hearly, ← h, f1, f2, f3]
        simp only [hf, if_true]
        injection e with e1 e2
        injection e2 with e2 e3
        rw [← e1, ← e2, ← e3]
    · simp only [hf, if_false] at ho
      obtain ⟨pi, _, ho⟩ := bind_ok _ _ _ ho
      obtain ⟨ci, _, ho⟩ := bind_ok _ _ _ ho
      obtain ⟨ptb, _, ho⟩ := bind_ok _ _ _ ho
      obtain ⟨ctb, _, ho⟩ := bind_ok _ _ _ ho
      obtain ⟨_, hc, ho⟩ := bind_ok _ _ _ ho
      have e := crossCheck_ok _ _ _ hc
      obtain ⟨i, hw, ho⟩ := map_ok ho
      · subst ho
        simp only [pure, Except.pure] at h
        injection h with h
        obtain ⟨f1, f2, f3⟩ := weigh_inputs_fields cfg s total ptb ctb i hw
        refine ⟨[], [], i.previous_root, i.current_root, fun h0 => absurd h0 hf, ?_⟩
        unfold justification_stage
        rw [if_neg hearly, ← h, f1, f2, f3]
        simp only [hf, if_false]
        injection e with e1 e2
        injection e2 with e2 e3
        rw [← e1, ← e2, ← e3]

/-! ### the composition -/

theorem resolve_withFFG (cfg : Config) (s : State) (f : FFG) (e : Nat) :
    resolve_attestations cfg (withFFG s f) e = resolve_attestations cfg s e := rfl

theorem justification_stage_sf (cfg : Config) (inp : EpochInputs) (p c : Nat) (x : State) :
    (justification_stage cfg inp p c x).slot = x.slot ∧ (justification_stage cfg inp p c x).fork = x.fork := by
  unfold justification_stage; split <;> exact ⟨rfl, rfl⟩
theorem inactivity_stage_sf (cfg : Config) (p c : Nat) (x : State) :
    (inactivity_stage cfg p c x).slot = x.slot ∧ (inactivity_stage cfg p c x).fork = x.fork := by
  unfold inactivity_stage; split <;> exact ⟨rfl, rfl⟩
theorem rewards_stage_sf (cfg : Config) (inp : EpochInputs) (p c : Nat) (x : State) :
    (rewards_stage cfg inp p c x).slot = x.slot ∧ (rewards_stage cfg inp p c x).fork = x.fork := by
  unfold rewards_stage; split
  · exact ⟨rfl, rfl⟩
  · split <;> exact ⟨rfl, rfl⟩
theorem historical_stage_sf (cfg : Config) (c : Nat) (x : State) :
    (historical_stage cfg c x).slot = x.slot ∧ (historical_stage cfg c x).fork = x.fork := by
  unfold historical_stage; split <;> exact ⟨rfl, rfl⟩
theorem participation_stage_sf (x : State) :
    (participation_stage x).slot = x.slot ∧ (participation_stage x).fork = x.fork := by
  unfold participation_stage; split <;> exact ⟨rfl, rfl⟩

theorem justification_stage_resolve (cfg : Config) (inp : EpochInputs) (p c : Nat) (x : State) (e : Nat) :
    resolve_attestations cfg (justification_stage cfg inp p c x) e = resolve_attestations cfg x e := by
  unfold justification_stage; split
  · rfl
  · exact resolve_withFFG cfg x _ e

/-- the justification stage reads the attestations only after the first two epochs and only on phase0 states -/
theorem justification_stage_inp (cfg : Config) (a b : EpochInputs) (p c : Nat) (x : State)
    (hr : a.prevRoot = b.prevRoot ∧ a.curRoot = b.curRoot)
    (h : x.fork = .phase0 → ¬ c ≤ GENESIS_EPOCH + 1 → a.prevAtts = b.prevAtts ∧ a.currAtts = b.currAtts) :
    justification_stage cfg a p c x = justification_stage cfg b p c x := by
  unfold justification_stage
  by_cases he : c ≤ GENESIS_EPOCH + 1
  · rw [if_pos he, if_pos he]
  · rw [if_neg he, if_neg he]
    by_cases hf : x.fork = .phase0
    · obtain ⟨h1, h2⟩ := h hf he
      simp only [hf, if_true, h1, h2, hr.1, hr.2]
    · simp only [hf, if_false, hr.1, hr.2]

theorem rewards_stage_inp (cfg : Config) (a b : EpochInputs) (p c : Nat) (x : State)
    (h : x.fork = .phase0 → c ≠ GENESIS_EPOCH → a.prevAtts = b.prevAtts) :
    rewards_stage cfg a p c x = rewards_stage cfg b p c x := by
  unfold rewards_stage
  by_cases hg : c = GENESIS_EPOCH
  · rw [if_pos hg, if_pos hg]
  · rw [if_neg hg, if_neg hg]
    by_cases hf : x.fork = .phase0
    · simp only [hf, if_true, h hf hg]
    · simp only [hf, if_false]

theorem sync_stage_inp (cfg : Config) (a b : EpochInputs) (c : Nat) (x : State) (h : a.computedSync = b.computedSync) :
    sync_stage cfg a c x = sync_stage cfg b c x := by
  unfold sync_stage
  rw [h]

theorem cur_of_slot (cfg : Config) (a b : State) (h : a.slot = b.slot) :
    get_current_epoch cfg a = get_current_epoch cfg b ∧ get_previous_epoch cfg a = get_previous_epoch cfg b := by
  unfold get_previous_epoch get_current_epoch
  rw [h]
  exact ⟨rfl, rfl⟩

theorem ok_inj {α : Type} {a b : α} (h : (Except.ok a : SM α) = .ok b) : a = b := by injection h

/-- **`process_epoch` of the executable specification is `process_epoch_pure`**: whenever the monadic function (with all
its `uint64` / index / assertion guards and its run-time comparisons) accepts, its result is the pure pipeline's, for
inputs whose attestation lists are the state's pending attestations as `resolve_attestations` resolves them. -/
theorem process_epoch_link (cfg : Config) (agg : AggOracle) (s s' : State) (h : process_epoch cfg agg s = .ok s') :
    ∃ inp : EpochInputs,
      (s.fork = .phase0 → get_current_epoch cfg s ≠ GENESIS_EPOCH →
        resolve_attestations cfg s (get_previous_epoch cfg s) = .ok inp.prevAtts) ∧
      (s.fork = .phase0 → ¬ get_current_epoch cfg s ≤ GENESIS_EPOCH + 1 →
        resolve_attestations cfg s (get_current_epoch cfg s) = .ok inp.currAtts) ∧
      s' = process_epoch_pure cfg inp s := by
  unfold process_epoch at h
  by_cases hf : s.fork = .phase0
  · simp only [hf, if_true] at h
    obtain ⟨s1, h1, h⟩ := bind_ok _ _ _ h
    obtain ⟨s2, h2, h⟩ := bind_ok _ _ _ h
    obtain ⟨s3, h3, h⟩ := bind_ok _ _ _ h
    obtain ⟨s4, h4, h⟩ := bind_ok _ _ _ h
    obtain ⟨s5, h5, h⟩ := bind_ok _ _ _ h
    obtain ⟨s6, h6, h⟩ := bind_ok _ _ _ h
    obtain ⟨s7, h7, h⟩ := bind_ok _ _ _ h
    obtain ⟨s8, h8, h⟩ := bind_ok _ _ _ h
    obtain ⟨s9, h9, h⟩ := bind_ok _ _ _ h
    obtain ⟨pa, ca, pr, cr, hres, e1⟩ := justification_stage_link cfg s s1 h1
    have sf1 : s1.slot = s.slot ∧ s1.fork = s.fork := by rw [e1]; exact justification_stage_sf ..
    obtain ⟨atts, hatts, e2⟩ := rewards_stage_link cfg s1 s2 h2
    have c1 := cur_of_slot cfg s1 s sf1.1
    rw [c1.1, c1.2] at e2 hatts
    have sf2 : s2.slot = s.slot ∧ s2.fork = s.fork := by
      rw [e2]; exact ⟨(rewards_stage_sf ..).1.trans sf1.1, (rewards_stage_sf ..).2.trans sf1.2⟩
    have e3 := registry_stage_link cfg s2 s3 h3
    rw [(cur_of_slot cfg s2 s sf2.1).1] at e3
    have sf3 : s3.slot = s.slot ∧ s3.fork = s.fork := by rw [e3]; exact sf2
    have e4 := slashings_stage_link cfg s3 s4 h4
    rw [(cur_of_slot cfg s3 s sf3.1).1] at e4
    have sf4 : s4.slot = s.slot ∧ s4.fork = s.fork := by rw [e4]; exact sf3
    have e5 := eth1_stage_link cfg s4 s5 h5
    rw [(cur_of_slot cfg s4 s sf4.1).1] at e5
    have sf5 : s5.slot = s.slot ∧ s5.fork = s.fork := by rw [e5]; exact sf4
    have e6 := effective_balance_stage_link cfg s5 s6 h6
    have sf6 : s6.slot = s.slot ∧ s6.fork = s.fork := by rw [e6]; exact sf5
    have e7 := slashings_reset_stage_link cfg s6 s7 h7
    rw [(cur_of_slot cfg s6 s sf6.1).1] at e7
    have sf7 : s7.slot = s.slot ∧ s7.fork = s.fork := by rw [e7]; exact sf6
    have e8 := randao_stage_link cfg s7 s8 h8
    rw [(cur_of_slot cfg s7 s sf7.1).1] at e8
    have sf8 : s8.slot = s.slot ∧ s8.fork = s.fork := by rw [e8]; exact sf7
    have hnc : ¬ s8.fork ≥ .capella := by rw [sf8.2, hf]; decide
    have e9 := historical_stage_link cfg s8 s9 (by rw [if_neg hnc]; exact h9)
    rw [(cur_of_slot cfg s8 s sf8.1).1] at e9
    have sf9 : s9.slot = s.slot ∧ s9.fork = s.fork := by
      rw [e9]; exact ⟨(historical_stage_sf ..).1.trans sf8.1, (historical_stage_sf ..).2.trans sf8.2⟩
    have e10 := (participation_stage_link s9 s').1 (sf9.2.trans hf) h
    -- the attestations the rewards step resolved (on the state after justification) are those of `s`
    have hatts' : get_current_epoch cfg s ≠ GENESIS_EPOCH →
        resolve_attestations cfg s (get_previous_epoch cfg s) = .ok atts := by
      intro hg
      have := hatts (sf1.2.trans hf) hg
      rw [e1, justification_stage_resolve] at this
      exact this
    refine ⟨⟨atts, ca, pr, cr, none⟩, fun _ hg => hatts' hg, fun _ he => (hres hf he).2, ?_⟩
    have ej : justification_stage cfg ⟨pa, ca, pr, cr, none⟩ (get_previous_epoch cfg s) (get_current_epoch cfg s) s =
        justification_stage cfg ⟨atts, ca, pr, cr, none⟩ (get_previous_epoch cfg s) (get_current_epoch cfg s) s := by
      refine justification_stage_inp cfg ⟨pa, ca, pr, cr, none⟩ ⟨atts, ca, pr, cr, none⟩ _ _ _ ⟨rfl, rfl⟩ ?_
      intro _ he
      have hg : get_current_epoch cfg s ≠ GENESIS_EPOCH := by
        intro h0; apply he; rw [h0]; exact Nat.zero_le _
      have h1 := (hres hf he).1
      rw [hatts' hg] at h1
      exact ⟨(ok_inj h1).symm, rfl⟩
    rw [ej] at e1
    have er : rewards_stage cfg ⟨atts, [], ZERO32, ZERO32, none⟩ (get_previous_epoch cfg s) (get_current_epoch cfg s) s1 =
        rewards_stage cfg ⟨atts, ca, pr, cr, none⟩ (get_previous_epoch cfg s) (get_current_epoch cfg s) s1 :=
      rewards_stage_inp cfg ⟨atts, [], ZERO32, ZERO32, none⟩ ⟨atts, ca, pr, cr, none⟩ _ _ _ (fun _ _ => rfl)
    rw [er] at e2
    unfold process_epoch_pure
    simp only []
    have esync : ∀ x : State, x.fork = .phase0 →
        sync_stage cfg ⟨atts, ca, pr, cr, none⟩ (get_current_epoch cfg s) x = x := by
      intro x hx; unfold sync_stage; rw [if_pos hx]
    have sf10 : s'.fork = .phase0 := by rw [e10]; exact (participation_stage_sf s9).2.trans (sf9.2.trans hf)
    have eina : inactivity_stage cfg (get_previous_epoch cfg s) (get_current_epoch cfg s) s1 = s1 := by
      unfold inactivity_stage; rw [if_pos (Or.inl (sf1.2.trans hf))]
    rw [← e1, eina, ← e2, ← e3, ← e4, ← e5, ← e6, ← e7, ← e8, ← e9, ← e10, esync s' sf10]
  · simp only [hf, if_false] at h
    obtain ⟨s1, h1, h⟩ := bind_ok _ _ _ h
    obtain ⟨s1b, h1b, h⟩ := bind_ok _ _ _ h
    obtain ⟨s2, h2, h⟩ := bind_ok _ _ _ h
    obtain ⟨s3, h3, h⟩ := bind_ok _ _ _ h
    obtain ⟨s4, h4, h⟩ := bind_ok _ _ _ h
    obtain ⟨s5, h5, h⟩ := bind_ok _ _ _ h
    obtain ⟨s6, h6, h⟩ := bind_ok _ _ _ h
    obtain ⟨s7, h7, h⟩ := bind_ok _ _ _ h
    obtain ⟨s8, h8, h⟩ := bind_ok _ _ _ h
    have hsplit : ∃ s9, (if s8.fork ≥ .capella then process_historical_summaries_update cfg s8
        else process_historical_roots_update cfg s8) = .ok s9 ∧
        (process_participation_flag_updates s9 >>= fun s => process_sync_committee_updates cfg agg s) = .ok s' := by
      by_cases hcap : s8.fork ≥ .capella
      · simp only [hcap, if_true] at h ⊢
        obtain ⟨s9, h9, h⟩ := bind_ok _ _ _ h
        exact ⟨s9, h9, h⟩
      · simp only [hcap, if_false] at h ⊢
        obtain ⟨s9, h9, h⟩ := bind_ok _ _ _ h
        exact ⟨s9, h9, h⟩
    obtain ⟨s9, h9, h⟩ := hsplit
    obtain ⟨s10, h10, h⟩ := bind_ok _ _ _ h
    obtain ⟨pa, ca, pr, cr, _, e1⟩ := justification_stage_link cfg s s1 h1
    have sf1 : s1.slot = s.slot ∧ s1.fork = s.fork := by rw [e1]; exact justification_stage_sf ..
    have c1 := cur_of_slot cfg s1 s sf1.1
    have e1b := inactivity_stage_link cfg s1 s1b h1b (by rw [sf1.2]; exact hf)
    rw [c1.1, c1.2] at e1b
    have sf1b : s1b.slot = s.slot ∧ s1b.fork = s.fork := by
      rw [e1b]; exact ⟨(inactivity_stage_sf ..).1.trans sf1.1, (inactivity_stage_sf ..).2.trans sf1.2⟩
    obtain ⟨atts, _, e2⟩ := rewards_stage_link cfg s1b s2 h2
    have c1b := cur_of_slot cfg s1b s sf1b.1
    rw [c1b.1, c1b.2] at e2
    have sf2 : s2.slot = s.slot ∧ s2.fork = s.fork := by
      rw [e2]; exact ⟨(rewards_stage_sf ..).1.trans sf1b.1, (rewards_stage_sf ..).2.trans sf1b.2⟩
    have e3 := registry_stage_link cfg s2 s3 h3
    rw [(cur_of_slot cfg s2 s sf2.1).1] at e3
    have sf3 : s3.slot = s.slot ∧ s3.fork = s.fork := by rw [e3]; exact sf2
    have e4 := slashings_stage_link cfg s3 s4 h4
    rw [(cur_of_slot cfg s3 s sf3.1).1] at e4
    have sf4 : s4.slot = s.slot ∧ s4.fork = s.fork := by rw [e4]; exact sf3
    have e5 := eth1_stage_link cfg s4 s5 h5
    rw [(cur_of_slot cfg s4 s sf4.1).1] at e5
    have sf5 : s5.slot = s.slot ∧ s5.fork = s.fork := by rw [e5]; exact sf4
    have e6 := effective_balance_stage_link cfg s5 s6 h6
    have sf6 : s6.slot = s.slot ∧ s6.fork = s.fork := by rw [e6]; exact sf5
    have e7 := slashings_reset_stage_link cfg s6 s7 h7
    rw [(cur_of_slot cfg s6 s sf6.1).1] at e7
    have sf7 : s7.slot = s.slot ∧ s7.fork = s.fork := by rw [e7]; exact sf6
    have e8 := randao_stage_link cfg s7 s8 h8
    rw [(cur_of_slot cfg s7 s sf7.1).1] at e8
    have sf8 : s8.slot = s.slot ∧ s8.fork = s.fork := by rw [e8]; exact sf7
    have e9 := historical_stage_link cfg s8 s9 h9
    rw [(cur_of_slot cfg s8 s sf8.1).1] at e9
    have sf9 : s9.slot = s.slot ∧ s9.fork = s.fork := by
      rw [e9]; exact ⟨(historical_stage_sf ..).1.trans sf8.1, (historical_stage_sf ..).2.trans sf8.2⟩
    have e10 := (participation_stage_link s9 s10).2 (by rw [sf9.2]; exact hf) h10
    have sf10 : s10.slot = s.slot ∧ s10.fork = s.fork := by
      rw [e10]; exact ⟨(participation_stage_sf s9).1.trans sf9.1, (participation_stage_sf s9).2.trans sf9.2⟩
    obtain ⟨computed, e11⟩ := sync_stage_link cfg agg s10 s' h (by rw [sf10.2]; exact hf)
    rw [(cur_of_slot cfg s10 s sf10.1).1] at e11
    refine ⟨⟨pa, ca, pr, cr, computed⟩, fun h0 => absurd h0 hf, fun h0 => absurd h0 hf, ?_⟩
    have ej : justification_stage cfg ⟨pa, ca, pr, cr, none⟩ (get_previous_epoch cfg s) (get_current_epoch cfg s) s =
        justification_stage cfg ⟨pa, ca, pr, cr, computed⟩ (get_previous_epoch cfg s) (get_current_epoch cfg s) s :=
      justification_stage_inp cfg ⟨pa, ca, pr, cr, none⟩ ⟨pa, ca, pr, cr, computed⟩ _ _ _ ⟨rfl, rfl⟩ (fun _ _ => ⟨rfl, rfl⟩)
    rw [ej] at e1
    have er : rewards_stage cfg ⟨atts, [], ZERO32, ZERO32, none⟩ (get_previous_epoch cfg s) (get_current_epoch cfg s) s1b =
        rewards_stage cfg ⟨pa, ca, pr, cr, computed⟩ (get_previous_epoch cfg s) (get_current_epoch cfg s) s1b :=
      rewards_stage_inp cfg ⟨atts, [], ZERO32, ZERO32, none⟩ ⟨pa, ca, pr, cr, computed⟩ _ _ _
        (fun h0 => absurd (sf1b.2.symm.trans h0) hf)
    rw [er] at e2
    have es : sync_stage cfg ⟨[], [], ZERO32, ZERO32, computed⟩ (get_current_epoch cfg s) s10 =
        sync_stage cfg ⟨pa, ca, pr, cr, computed⟩ (get_current_epoch cfg s) s10 :=
      sync_stage_inp cfg ⟨[], [], ZERO32, ZERO32, computed⟩ ⟨pa, ca, pr, cr, computed⟩ _ _ rfl
    rw [es] at e11
    unfold process_epoch_pure
    simp only []
    rw [← e1, ← e1b, ← e2, ← e3, ← e4, ← e5, ← e6, ← e7, ← e8, ← e9, ← e10, ← e11]

/-! ### `upgrade_maybe` and `process_slots` -/

def um4 (cfg : Config) (s : State) : SM State :=
  if s.fork = .deneb && at_fork_epoch cfg cfg.ELECTRA_FORK_EPOCH s then do invalid "electra is not supported"; pure s else pure s
def um3 (cfg : Config) (s : State) : SM State :=
  if s.fork = .capella && at_fork_epoch cfg cfg.DENEB_FORK_EPOCH s then upgrade_to_deneb cfg s >>= um4 cfg else um4 cfg s
def um2 (cfg : Config) (s : State) : SM State :=
  if s.fork = .bellatrix && at_fork_epoch cfg cfg.CAPELLA_FORK_EPOCH s then upgrade_to_capella cfg s >>= um3 cfg else um3 cfg s
def um1 (cfg : Config) (s : State) : SM State :=
  if s.fork = .altair && at_fork_epoch cfg cfg.BELLATRIX_FORK_EPOCH s then upgrade_to_bellatrix cfg s >>= um2 cfg else um2 cfg s

theorem upgrade_maybe_unfold (cfg : Config) (agg : AggOracle) (s : State) :
    upgrade_maybe cfg agg s =
      if s.fork = .phase0 && at_fork_epoch cfg cfg.ALTAIR_FORK_EPOCH s then upgrade_to_altair cfg agg s >>= um1 cfg else um1 cfg s := rfl

theorem um4_link (cfg : Config) (s s' : State) (h : um4 cfg s = .ok s') : s' = s := by
  unfold um4 at h
  split at h
  · simp only [invalid, bind, Except.bind] at h; cases h
  · exact (ok_inj h).symm

def up3 (cfg : Config) (s : State) : State :=
  if s.fork = .capella && at_fork_epoch cfg cfg.DENEB_FORK_EPOCH s then upgrade_to_deneb_pure cfg s else s
def up2 (cfg : Config) (s : State) : State :=
  up3 cfg (if s.fork = .bellatrix && at_fork_epoch cfg cfg.CAPELLA_FORK_EPOCH s then upgrade_to_capella_pure cfg s else s)
def up1 (cfg : Config) (s : State) : State :=
  up2 cfg (if s.fork = .altair && at_fork_epoch cfg cfg.BELLATRIX_FORK_EPOCH s then upgrade_to_bellatrix_pure cfg s else s)

theorem upgrade_maybe_pure_unfold (cfg : Config) (inp : UpgradeInputs) (s : State) :
    upgrade_maybe_pure cfg inp s =
      up1 cfg (if s.fork = .phase0 && at_fork_epoch cfg cfg.ALTAIR_FORK_EPOCH s then upgrade_to_altair_pure cfg inp s else s) := rfl

theorem um3_link (cfg : Config) (s s' : State) (h : um3 cfg s = .ok s') : s' = up3 cfg s := by
  unfold um3 at h
  unfold up3
  split at h
  · rename_i hc
    obtain ⟨x, hx, h⟩ := bind_ok _ _ _ h
    rw [if_pos hc, um4_link cfg x s' h, (upgrade_links cfg s x).2.2 hx]
  · rename_i hc
    rw [if_neg hc]; exact um4_link cfg s s' h

theorem um2_link (cfg : Config) (s s' : State) (h : um2 cfg s = .ok s') : s' = up2 cfg s := by
  unfold um2 at h
  unfold up2
  split at h
  · rename_i hc
    obtain ⟨x, hx, h⟩ := bind_ok _ _ _ h
    rw [if_pos hc, um3_link cfg x s' h, (upgrade_links cfg s x).2.1 hx]
  · rename_i hc
    rw [if_neg hc]; exact um3_link cfg s s' h

theorem um1_link (cfg : Config) (s s' : State) (h : um1 cfg s = .ok s') : s' = up1 cfg s := by
  unfold um1 at h
  unfold up1
  split at h
  · rename_i hc
    obtain ⟨x, hx, h⟩ := bind_ok _ _ _ h
    rw [if_pos hc, um2_link cfg x s' h, (upgrade_links cfg s x).1 hx]
  · rename_i hc
    rw [if_neg hc]; exact um2_link cfg s s' h

/-- `upgrade_maybe` of the executable specification is `upgrade_maybe_pure` -/
theorem upgrade_maybe_link (cfg : Config) (agg : AggOracle) (s s' : State) (h : upgrade_maybe cfg agg s = .ok s') :
    ∃ inp, s' = upgrade_maybe_pure cfg inp s := by
  rw [upgrade_maybe_unfold] at h
  split at h
  · rename_i hc
    obtain ⟨x, hx, h⟩ := bind_ok _ _ _ h
    obtain ⟨atts, c, e⟩ := upgrade_altair_link cfg agg s x hx
    refine ⟨⟨atts, some c⟩, ?_⟩
    rw [upgrade_maybe_pure_unfold, if_pos hc, um1_link cfg x s' h, e]
  · rename_i hc
    refine ⟨⟨[], none⟩, ?_⟩
    rw [upgrade_maybe_pure_unfold, if_neg hc]
    exact um1_link cfg s s' h

theorem process_slots_loop_link (cfg : Config) (agg : AggOracle) (roots : RootOracle) :
    ∀ (n : Nat) (s s' : State), process_slots_with.loop process_epoch cfg agg roots n s = .ok s' →
      ∃ inps : List SlotInputs, inps.length = n ∧ s' = process_slots_pure cfg inps s := by
  intro n
  induction n with
  | zero =>
    intro s s' h
    unfold process_slots_with.loop at h
    exact ⟨[], rfl, (ok_inj h).symm⟩
  | succ n ih =>
    intro s s' h
    unfold process_slots_with.loop at h
    obtain ⟨s1, h1, h⟩ := bind_ok _ _ _ h
    have hsplit : ∃ s2, (if (s1.slot + 1) % cfg.SLOTS_PER_EPOCH = 0 then process_epoch cfg agg s1 else pure s1) = .ok s2 ∧
        (u64 (s2.slot + 1) "slot" >>= fun next_slot =>
          upgrade_maybe cfg agg { s2 with slot := next_slot } >>= fun s =>
            process_slots_with.loop process_epoch cfg agg roots n s) = .ok s' := by
      simp only [] at h
      by_cases hb : (s1.slot + 1) % cfg.SLOTS_PER_EPOCH = 0
      · simp only [hb, if_true] at h ⊢
        obtain ⟨s2, h2, h⟩ := bind_ok _ _ _ h
        exact ⟨s2, h2, h⟩
      · simp only [hb, if_false] at h ⊢
        obtain ⟨s2, h2, h⟩ := bind_ok _ _ _ h
        exact ⟨s2, h2, h⟩
    obtain ⟨s2, h2, h⟩ := hsplit
    obtain ⟨next, hn, h⟩ := bind_ok _ _ _ h
    obtain ⟨s3, h3, h⟩ := bind_ok _ _ _ h
    obtain ⟨root, _, e1⟩ := process_slot_link cfg roots s s1 h1
    have e2 : ∃ einp, s2 = if (s1.slot + 1) % cfg.SLOTS_PER_EPOCH = 0 then process_epoch_pure cfg einp s1 else s1 := by
      by_cases hb : (s1.slot + 1) % cfg.SLOTS_PER_EPOCH = 0
      · simp only [hb, if_true] at h2 ⊢
        obtain ⟨einp, _, _, e⟩ := process_epoch_link cfg agg s1 s2 h2
        exact ⟨einp, e⟩
      · simp only [hb, if_false] at h2 ⊢
        exact ⟨⟨[], [], ZERO32, ZERO32, none⟩, (ok_inj h2).symm⟩
    obtain ⟨einp, e2⟩ := e2
    have en : next = s2.slot + 1 := by
      unfold u64 at hn
      split at hn
      · exact (ok_inj hn).symm
      · cases hn
    obtain ⟨uinp, e3⟩ := upgrade_maybe_link cfg agg _ s3 h3
    obtain ⟨rest, hlen, e4⟩ := ih s3 s' h
    refine ⟨⟨root, einp, uinp⟩ :: rest, by simp [hlen], ?_⟩
    unfold process_slots_pure at e4 ⊢
    rw [List.foldl_cons, e4]
    congr 1
    unfold process_slot_step_pure
    simp only []
    rw [e3, en, e2, e1]

/-- **`process_slots` of the executable specification is `process_slots_pure`**: whenever the monadic function accepts,
its result is the pure slot loop's over one `SlotInputs` per processed slot -/
theorem process_slots_link (cfg : Config) (agg : AggOracle) (roots : RootOracle) (s s' : State) (target : Nat)
    (h : process_slots cfg agg roots s target = .ok s') :
    ∃ inps : List SlotInputs, inps.length = target - s.slot ∧ s' = process_slots_pure cfg inps s := by
  unfold process_slots process_slots_with at h
  obtain ⟨_, _, h⟩ := bind_ok _ _ _ h
  split at h
  · simp only [invalid, bind, Except.bind] at h; cases h
  · exact process_slots_loop_link cfg agg roots _ s s' h

end Zrnt.Proofs.Lemmas
