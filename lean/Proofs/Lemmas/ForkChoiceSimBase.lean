import Proofs.Lemmas.ForkChoiceInv3
import Proofs.Lemmas.ForkChoiceRefHead
import Proofs.Lemmas.ForkChoiceRefInsert
import Proofs.Lemmas.ForkChoiceRefOps
/-! Simulation of the specification by the code-shaped model on admissible histories: `head_eq_ghost_run`. -/
namespace Zrnt.ForkChoice
open Spec FC

/-- the operations whose answers C09 is about -/
def IsHeadOp : Op → Bool
  | .head => true
  | .findHead _ _ => true
  | _ => false

/-- the operations whose answers are proved equal to the specification's on admissible histories: insertions,
votes, checkpoint updates, pin, heads, `GetSlot`, `InSubtree`, `CanonicalChain`, `ClosestToSlot`, `CanonAtSlot` and
the checkpoint/pin getters (`Search` is handled separately: the specification leaves some searches unconstrained) -/
def Refined : Op → Bool
  | .slot .. => true
  | .block .. => true
  | .att .. => true
  | .justify .. => true
  | .pin .. => true
  | .head => true
  | .findHead .. => true
  | .getSlot _ => true
  | .chain .. => true
  | .closest .. => true
  | .canonAt .. => true
  | .inSub .. => true
  | .just => true
  | .fin => true
  | .pinq => true
  | .nodes => true
  | _ => false

/-- `Search` operations -/
def IsSearch : Op → Bool
  | .search .. => true
  | _ => false

theorem refined_of_head {op : Op} (h : IsHeadOp op = true) : Refined op = true := by
  cases op <;> simp_all [IsHeadOp, Refined]

theorem ref_held {fc : FC} {a : Abs} (r : Ref fc a) (b : Bool) : Ref { fc with held := b } a :=
  { spe := r.spe, nodes := r.nodes, votes := r.votes, balances := r.balances, justified := r.justified,
    finalized := r.finalized, pin := r.pin, sink := r.sink, clean := r.clean, jE := r.jE, fE := r.fE,
    fresh := r.fresh, next_in := r.next_in, cur_le := r.cur_le, settled := r.settled }

theorem fi_held {fc : FC} (I : FI fc) (b : Bool) : FI { fc with held := b } := I

/-- `findHead` on an array whose connections are stale equals `findHead` on the refreshed array -/
theorem findHead_refresh (pr : PA) (h : WF pr) (hu : pr.updated = false) (root : Root) (slot : Nat) :
    pr.findHead root slot = (pr.updateConnections).1.findHead root slot := by
  obtain ⟨pr1, h1, _, hu1, _⟩ := wf_updateConnections pr h
  rw [findHead_eq pr, findHead_eq (pr.updateConnections).1, h1]
  simp [hu, hu1]

/-- head from any start node: the model's `findHead` on a settled, invariant-satisfying state answers as the
specification's GHOST walk, and the state it leaves is still related -/
theorem findHead_sim (fc : FC) (a : Abs) (I : FI fc) (hl : LI fc.pa) (r : Ref fc a)
    (hset : ∀ v ∈ fc.votes, v.cur = v.next) (root : Root) (slot : Nat) :
    match fc.pa.findHead root slot with
    | .ok s ref => Ref { fc with pa := s } a ∧ a.headFrom ⟨slot, root⟩ = some ref
    | .err s => Ref { fc with pa := s } a ∧ a.headFrom ⟨slot, root⟩ = none
    | _ => False := by
  have hsd := sibDistinct_of_chain fc.pa I.wf I.chain
  by_cases hu : fc.pa.updated = true
  · obtain ⟨hlk, _⟩ := hl hu
    have he := headFrom_eq_findHead I.wf r I.nz hset I.w hlk hsd hu root slot
    rcases findHead_state fc.pa hu root slot with ⟨ref, e⟩ | e
    · rw [e] at he ⊢; exact ⟨r, he⟩
    · rw [e] at he ⊢; exact ⟨r, he⟩
  · have hu' : fc.pa.updated = false := by simpa using hu
    obtain ⟨pr1, h1, hw1, hu1, hf1⟩ := wf_updateConnections fc.pa I.wf
    have e1 : (fc.pa.updateConnections).1 = pr1 := by rw [h1]
    rw [findHead_refresh fc.pa I.wf hu', e1]
    have r1 : Ref { fc with pa := pr1 } a := ref_frame fc a r pr1 hf1
    have I1 : FI { fc with pa := pr1 } := PInv.frame I hw1 hf1
    have hlk := (linksOK_updateConnections fc.pa I.wf hsd).1
    rw [e1] at hlk
    have he := headFrom_eq_findHead (fc := { fc with pa := pr1 }) I1.wf r1 I1.nz hset I1.w hlk
      (sibDistinct_of_chain pr1 I1.wf I1.chain) hu1 root slot
    rcases findHead_state pr1 hu1 root slot with ⟨ref, e⟩ | e
    · rw [e] at he ⊢; exact ⟨r1, he⟩
    · rw [e] at he ⊢; exact ⟨r1, he⟩

/-- `fc.withLock body` when the mutex is free -/
theorem withLock_free {α : Type} (fc : FC) (hh : fc.held = false) (body : FC → Out FC α) :
    fc.withLock body =
      (match body { fc with held := true } with
       | .ok s a => .ok { s with held := false } a
       | .err s => .err { s with held := false }
       | .panic => .panic
       | .blocked => .blocked) := by
  unfold withLock
  simp only [hh, Bool.false_eq_true, if_false]
  cases body { fc with held := true } <;> rfl

/-- a query of the form lock; `updateVotesMaybe`; proto-array query: the state stays related -/
theorem query_sim {α : Type} (fc : FC) (a : Abs) (hh : fc.held = false) (I : FI fc) (r : Ref fc a)
    (f : PA → POut PA α) (hf : ∀ pr, WF pr → GoodFr pr (f pr)) :
    match fc.withLock (·.afterVotes f) with
    | .ok s _ => Ref s a
    | .err s => Ref s a
    | _ => False := by
  rw [withLock_free fc hh]
  simp only [afterVotes]
  obtain ⟨fc', e, r', I', _, _⟩ := ref_updateVotesMaybe { fc with held := true } a (fi_held I true) (ref_held r true)
  rw [e]
  simp only [liftPA]
  have hg := hf fc'.pa I'.wf
  cases hq : f fc'.pa with
  | ok s x => rw [hq] at hg; exact ref_held (ref_frame fc' a r' s hg.2) false
  | err s => rw [hq] at hg; exact ref_held (ref_frame fc' a r' s hg.2) false
  | panic => rw [hq] at hg; exact hg.elim
  | spin => rw [hq] at hg; exact hg.elim

/-- `FindHead` of the wrapper: related state and the specification's answer -/
theorem wrapperFindHead_sim (fc : FC) (a : Abs) (hh : fc.held = false) (I : FI fc) (hl : LI fc.pa) (r : Ref fc a)
    (root : Root) (slot : Nat) :
    match fc.findHead root slot with
    | .ok s ref => Ref s a ∧ a.headFrom ⟨slot, root⟩ = some ref
    | .err s => Ref s a ∧ a.headFrom ⟨slot, root⟩ = none
    | _ => False := by
  unfold FC.findHead
  rw [withLock_free fc hh]
  simp only [afterVotes]
  have hl1 := li_updateVotesMaybe { fc with held := true } (fi_held I true) hl
  obtain ⟨fc', e, r', I', hset, _⟩ := ref_updateVotesMaybe { fc with held := true } a (fi_held I true) (ref_held r true)
  rw [e] at hl1 ⊢
  simp only [liftPA]
  have hs := findHead_sim fc' a I' hl1 r' hset root slot
  cases hq : fc'.pa.findHead root slot with
  | ok s x => rw [hq] at hs; exact ⟨ref_held hs.1 false, hs.2⟩
  | err s => rw [hq] at hs; exact ⟨ref_held hs.1 false, hs.2⟩
  | panic => rw [hq] at hs; exact hs.elim
  | spin => rw [hq] at hs; exact hs.elim

/-- `Head` of the wrapper -/
theorem wrapperHead_sim (fc : FC) (a : Abs) (hh : fc.held = false) (I : FI fc) (hl : LI fc.pa) (r : Ref fc a) :
    match fc.head with
    | .ok s ref => Ref s a ∧ a.headFrom a.startNode = some ref
    | .err s => Ref s a ∧ a.headFrom a.startNode = none
    | _ => False := by
  unfold FC.head
  rw [withLock_free fc hh]
  have hl1 := li_updateVotesMaybe { fc with held := true } (fi_held I true) hl
  obtain ⟨fc', e, r', I', hset, _, hpin, hjust, _, hspe, _⟩ :=
    ref_updateVotesMaybe { fc with held := true } a (fi_held I true) (ref_held r true)
  rw [e] at hl1 ⊢
  simp only
  have hstart : a.startNode = (match fc'.pin with
      | some p => p
      | none => ⟨fc'.justified.epoch * fc'.spe, fc'.justified.root⟩) := by
    unfold Abs.startNode
    rw [r'.pin, r'.justified, r'.spe]
    cases fc'.pin <;> rfl
  rw [hstart]
  cases hp : fc'.pin with
  | some p =>
    simp only [liftPA]
    have hs := findHead_sim fc' a I' hl1 r' hset p.root p.slot
    cases hq : fc'.pa.findHead p.root p.slot with
    | ok s x => rw [hq] at hs; exact ⟨ref_held hs.1 false, hs.2⟩
    | err s => rw [hq] at hs; exact ⟨ref_held hs.1 false, hs.2⟩
    | panic => rw [hq] at hs; exact hs.elim
    | spin => rw [hq] at hs; exact hs.elim
  | none =>
    simp only [liftPA]
    have hs := findHead_sim fc' a I' hl1 r' hset fc'.justified.root (fc'.justified.epoch * fc'.spe)
    cases hq : fc'.pa.findHead fc'.justified.root (fc'.justified.epoch * fc'.spe) with
    | ok s x => rw [hq] at hs; exact ⟨ref_held hs.1 false, hs.2⟩
    | err s => rw [hq] at hs; exact ⟨ref_held hs.1 false, hs.2⟩
    | panic => rw [hq] at hs; exact hs.elim
    | spin => rw [hq] at hs; exact hs.elim

end Zrnt.ForkChoice
