import Proofs.Lemmas.Fault
import Zrnt.Gen.FaultSites
import Zrnt.Fault.Baseline
/-!
# C18 — cancellation and execution-engine faults always surface as errors

Two layers.
(1) Shape facts about /repo, **regenerated from the source on every run** (`Zrnt.Gen.FaultSites`):
every context poll is `if err := ctx.Err(); err != nil { return …err }`, every `err != nil` guard in
a function of the transition packages that takes a context returns an error, every execution-engine
call is either forwarded (`(false, nil)` / direct return inside `VerifyAndNotifyNewPayload`) or turned
into an error before `SetLatestExecutionPayloadHeader` (in `ProcessExecutionPayload`), and no engine
call sits in an unrecognised position.
(2) The semantics of programs built from such shapes (`Zrnt.Fault`): for EVERY program, every start
configuration and every environment, a cancellation or a non-valid engine answer inside the part of
the run that the fault-free run executes yields an error, and without a fault the result is that of
the undisturbed run. The correspondence (fault enumeration on the real code, every poll index and
every engine call × verdict) ties (2) to the Go transition.
-/
namespace Zrnt.Proofs.C18
open Zrnt.Fault Zrnt.Gen.FaultSites

/-! ## (1) shape facts over the regenerated tables -/

theorem poll_sites_propagate : ∀ p ∈ polls, p.shapeOk = true := by decide +kernel

theorem errors_propagate : ∀ g ∈ guards, g.propagates = true := by decide +kernel

theorem engine_verdicts_map_to_errors :
    (∀ e ∈ engineCalls, e.shape ≠ .other ∧ (e.shape = .guardError → e.setHeaderAfter = true)) ∧
    engineCalls.length = engineCallExprs ∧
    (∀ e ∈ engineCalls, e.fn = "ProcessExecutionPayload" → e.shape = .guardError) ∧
    (∀ e ∈ engineCalls, e.shape = .guardForward ∨ e.shape = .directReturn → e.fn = "VerifyAndNotifyNewPayload") := by
  decide

/-- Regenerated from every fork's `ProcessBlock`: each of bellatrix, capella and deneb calls ProcessExecutionPayload
exactly once, in the guarded shape, and the only conditions around the call are the specification's — bellatrix
`is_execution_enabled`, from capella on none: no fast path lets a block through without the payload step (and so
without the engine). -/
theorem payload_step_placed_as_specified :
    payloadSteps.map (·.pkg) = ["bellatrix", "capella", "deneb"] ∧
    ∀ s ∈ payloadSteps, s.calls = 1 ∧
      (forkOfName s.pkg).map expectedPayloadGuards = some s.guards := by decide +kernel

/-- what the placement means: from capella on the payload step runs whatever the state and payload look like -/
theorem payload_step_unconditional_from_capella (b : Bool) :
    payloadStepRuns .capella b = true ∧ payloadStepRuns .deneb b = true ∧ payloadStepRuns .bellatrix b = b := by
  cases b <;> decide

/-- every sub-transition that polled the context at its head on the pinned tree still does -/
theorem head_polls_kept : ∀ f ∈ Zrnt.Fault.headPollBaseline, f ∈ headPolls := by decide +kernel

/-- non-vacuity: the tables are not empty (36 polls, 10 engine call sites on the pinned tree) -/
example : polls.length ≥ 30 ∧ guards.length ≥ 300 ∧ engineCalls.length ≥ 10 := by decide +kernel

/-! ## (2) semantics -/
variable {σ : Type}

/-- A cancellation seen by a poll that the fault-free run executes, or a non-valid answer to an engine
query that the fault-free run makes, turns the run into an error — for every program and every state. -/
theorem fault_implies_error (p : Prog σ) (c c' : Cfg σ) (env : Env)
    (hclean : run Env.clean p c = .ok c')
    (hfault : (∃ i, c.polls ≤ i ∧ i < c'.polls ∧ env.cancelledAt i = true) ∨
              (∃ j, c.queries ≤ j ∧ j < c'.queries ∧ env.engine j ≠ .valid)) :
    ∃ e, run env p c = .error e := by
  cases hr : run env p c with
  | error e => exact ⟨e, rfl⟩
  | ok c'' =>
    exfalso
    have hcl : Clean env c c'' := run_clean env p c c'' hr
    have hag : Agree env Env.clean c c'' := by
      refine ⟨fun i h1 h2 => ?_, fun j h1 h2 => ?_⟩
      · rw [hcl.2.2.1 i h1 h2]; rfl
      · rw [hcl.2.2.2 j h1 h2]; rfl
    have h2 := run_agree env Env.clean p c c'' hr hag
    rw [hclean] at h2
    cases h2
    rcases hfault with ⟨i, h1, h2, h3⟩ | ⟨j, h1, h2, h3⟩
    · rw [hcl.2.2.1 i h1 h2] at h3; cases h3
    · exact h3 (hcl.2.2.2 j h1 h2)

/-- Without a fault in the part of the run that is executed, the result is the undisturbed one. -/
theorem no_fault_same_result (p : Prog σ) (c c' : Cfg σ) (env : Env)
    (hclean : run Env.clean p c = .ok c')
    (hp : ∀ i, c.polls ≤ i → i < c'.polls → env.cancelledAt i = false)
    (hq : ∀ j, c.queries ≤ j → j < c'.queries → env.engine j = .valid) :
    run env p c = .ok c' :=
  run_agree Env.clean env p c c' hclean ⟨fun i h1 h2 => by rw [hp i h1 h2]; rfl, fun j h1 h2 => by rw [hq j h1 h2]; rfl⟩

/-- … including when the undisturbed run itself rejects (an invalid block stays invalid). -/
theorem no_fault_same_result_total (p : Prog σ) (c : Cfg σ) (env : Env)
    (h1 : env.cancelFrom = none) (h2 : ∀ j, env.engine j = .valid) :
    run env p c = run Env.clean p c := by
  have : env = Env.clean := by
    cases env with
    | mk cf eng =>
      simp only [Env.clean] at *
      subst h1
      congr
      funext j; exact h2 j
  rw [this]

/-- Cancellation is sticky: cancelling from poll `k` on, for any `k` below the number of polls the
fault-free run executes, is an error (this is exactly what the fault enumeration replays on the real code). -/
theorem cancel_from_any_poll_is_error (p : Prog σ) (s : σ) (c' : Cfg σ) (k : Nat) (eng : Nat → Verdict)
    (hclean : run Env.clean p ⟨0, 0, s⟩ = .ok c') (hk : k < c'.polls) :
    ∃ e, run ⟨some k, eng⟩ p ⟨0, 0, s⟩ = .error e :=
  fault_implies_error p _ c' _ hclean (Or.inl ⟨k, Nat.zero_le _, hk, by simp [Env.cancelledAt]⟩)

/-- non-vacuity: a three-step program with one poll and one engine query -/
example : run Env.clean (.seq (.seq .poll (.step (fun n : Nat => some (n + 1)))) .query) ⟨0, 0, 5⟩
    = .ok ⟨1, 1, 6⟩ := by rfl
example : run ⟨some 0, fun _ => .valid⟩ (.seq (.seq .poll (.step (fun n : Nat => some (n + 1)))) .query) ⟨0, 0, 5⟩
    = .error .cancelled := by rfl
example : run ⟨none, fun _ => .invalid⟩ (.seq (.seq .poll (.step (fun n : Nat => some (n + 1)))) .query) ⟨0, 0, 5⟩
    = .error .engine := by rfl

end Zrnt.Proofs.C18
