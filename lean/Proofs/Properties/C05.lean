import Proofs.Lemmas.SSZTree
import Proofs.Lemmas.SSZHtrSpec
import Proofs.Lemmas.SSZCanonical
import Zrnt.Gen.SszFacts
/-!
# C05 — hash-tree-roots agree across struct form, view form and the SSZ specification

`Zrnt.SSZ.htr` is `hash_tree_root` of simple-serialize.md at a schema, parametric in the two-to-one hash `H`
(no theorem depends on `H` being SHA-256). The Go struct form and the Go tree-view form are tied to it by the
differential run of every type/value (mode `ssz`: struct root = view root = `htr` at the specification
schema) and, for tree-backed states, by the mutation-sequence run (mode `sszstate`).

What is proved here:
* the algorithm that actually runs (`merkleize`: level by level, zero hashes instead of zero subtrees) is the
  specification's `merkleize(chunks, limit)` — pad with zero chunks to the next power of two, hash the tree;
* padding/limit lemmas, length mix-in injectivity up to a collision of `H`;
* in the persistent cached tree model there is no stale hash: after any sequence of `setLeaf` the cached root
  equals the root of the same leaves built from scratch, and `setLeaf` changes exactly the addressed leaf.

Partial (stated in the evidence): ztyp's in-memory caching and pointer sharing are runtime behaviour of a
dependency; `tree_root_after_sets` is about the model, the real trees are covered by the mutation-sequence
correspondence only.
-/
namespace Zrnt.Proofs.C05
open Zrnt.SSZ Zrnt.Proofs.SSZ

/-- **merkleize = the specification's merkleize** for every chunk list within the limit `2^d`. -/
theorem merkleize_eq_spec (H : Hash2) (cs : List Chunk) (d : Nat) (h : cs.length ≤ 2 ^ d) :
    merkleize H cs d = merkleizeSpec H cs d :=
  merkleize_eq_merkleizeSpec H cs d h

/-- explicit zero chunks behind the data do not change the root (virtual padding = real padding) -/
theorem merkleize_pad_zero (H : Hash2) (cs : List Chunk) (k d : Nat) (h : cs.length + k ≤ 2 ^ d) :
    merkleize H (cs ++ List.replicate k zeroChunk) d = merkleize H cs d :=
  merkleize_append_zero H cs k d h

/-- `H` has a collision: two different input pairs with the same output -/
def Collides (H : Hash2) : Prop := ∃ a b a' b', (a, b) ≠ (a', b') ∧ H a b = H a' b'

/-- the length mix-in is injective in (root, length) unless `H` collides -/
theorem mixInLength_inj (H : Hash2) (r r' : Chunk) (n n' : Nat) (hn : n < 2 ^ 256) (hn' : n' < 2 ^ 256)
    (h : mixInLength H r n = mixInLength H r' n') : (r = r' ∧ n = n') ∨ Collides H := by
  unfold mixInLength at h
  by_cases hc : r = r' ∧ natToLE 32 n = natToLE 32 n'
  · left
    refine ⟨hc.1, ?_⟩
    have e : (256 : Nat) ^ 32 = 2 ^ 256 := by decide
    have h1 := leToNat_natToLE 32 n (by omega)
    have h2 := leToNat_natToLE 32 n' (by omega)
    rw [hc.2] at h1
    omega
  · right
    refine ⟨r, natToLE 32 n, r', natToLE 32 n', ?_, h⟩
    intro he
    apply hc
    exact ⟨(Prod.mk.inj he).1, (Prod.mk.inj he).2⟩

/-- The root of a decoded byte string is a function of the bytes and the schema alone: what the struct form,
the view form and the specification compute for the same bytes can only differ if one of them is not `htr`
at that schema (which is what the correspondence run compares). -/
theorem htr_determined_by_bytes (H : Hash2) (t : Ty) (bs : Bytes) (v w : Val)
    (hv : decode t bs = some v) (hw : decode t bs = some w) : htr H t v = htr H t w := by
  rw [hv] at hw; cases hw; rfl

/-- **`htr` = the specification's `hash_tree_root`.** On every well-typed value of every type the executable
`htr` (level-by-level merkleization that never materialises the zero padding, so that `List[Validator, 2^40]`
is feasible) equals `htrSpec`, the same recursion over the schema with the literal `merkleize(chunks, limit)`
of simple-serialize.md (pad with zero chunks to `next_pow_of_two(limit)` leaves, hash the perfect tree):
packing of basic elements, chunk-count limits, field order, and length mix-ins are shared by construction. -/
theorem htr_eq_spec (H : Hash2) (t : Ty) (v : Val) (hw : WF t v) : htr H t v = htrSpec H t v :=
  htr_eq_htrSpec H t v hw

/-- in particular for whatever the strict decoder accepts -/
theorem htr_eq_spec_of_decode (H : Hash2) (t : Ty) (bs : Bytes) (v : Val) (h : decode t bs = some v) :
    htr H t v = htrSpec H t v :=
  htr_eq_htrSpec H t v (decode_some_aux t bs v h).1

open Zrnt.Schema Zrnt.Schema.Facts Zrnt.Gen.SszFacts in
/-- **Struct form and view form against the schema** (facts regenerated from /repo): for every Go SSZ type whose
`HashTreeRoot` body has a recognised shape, it merkleizes the struct's fields in the schema's order
(`hFn.HashTreeRoot`), resp. the list/vector/bitfield with the schema's limit and the helper that packs the
schema's element type (`ComplexListHTR`/`Uint64ListHTR`/`Uint8ListHTR`/`BitListHTR`/`ByteListHTR`/…); and every
tree-view type definition (`XType`: `ContainerType`, `ListType`, `VectorType`, `BitListType` …, field order,
element types, limit expressions) denotes the specification schema — for all configurations. This is the
`HashTreeRoot`/view-type part of `Zrnt.Schema.Facts.checkType`, the same per-row obligations as C04's
`ssz_methods_agree`. -/
theorem htr_struct_and_view_agree_with_schema : ∀ T ∈ types, checkType owners views T = none := by
  intro T h
  have := List.all_eq_true.mp all_rows_ok T h
  simpa [Option.isNone_iff_eq_none] using this

/-! ## The persistent tree behind the views: no stale caches (model) -/

/-- apply a sequence of leaf updates -/
def setMany (H : Hash2) (t : CTree) : List (List Bool × Chunk) → CTree
  | [] => t
  | (p, c) :: ops => setMany H (t.setLeaf H p c) ops

theorem setMany_valid (H : Hash2) (t : CTree) (ops : List (List Bool × Chunk)) (hv : t.Valid H) :
    (setMany H t ops).Valid H := by
  induction ops generalizing t with
  | nil => exact hv
  | cons o ops ih => exact ih _ (set_valid H t o.1 o.2 hv)

theorem setMany_perfect (H : Hash2) (d : Nat) (t : CTree) (ops : List (List Bool × Chunk)) (hp : CTree.Perfect d t) :
    CTree.Perfect d (setMany H t ops) := by
  induction ops generalizing t with
  | nil => exact hp
  | cons o ops ih => exact ih _ (set_perfect H d t o.1 o.2 hp)

/-- **No stale cached hash.** After any sequence of leaf updates on a tree built with valid caches, the root
the tree reports from its cache equals the root of the same leaves built from scratch (and equals the
specification's tree root over the current leaf list). -/
theorem tree_root_after_sets (H : Hash2) (d : Nat) (cs : List Chunk) (ops : List (List Bool × Chunk)) :
    let t := setMany H (CTree.build H d cs) ops
    t.cachedRoot = (CTree.build H d t.leaves).cachedRoot ∧ t.cachedRoot = treeRoot H d t.leaves := by
  intro t
  have hv : t.Valid H := setMany_valid H _ ops (build_valid H d cs)
  have hp : CTree.Perfect d t := setMany_perfect H d _ ops (build_perfect H d cs)
  have h1 : t.cachedRoot = t.rehash H := valid_hash H t hv
  have h2 := rehash_build_leaves H d t hp
  have h3 := valid_hash H _ (build_valid H d t.leaves)
  refine ⟨by rw [h1, h3, h2], ?_⟩
  rw [h1, ← h2, rehash_build]

/-- a leaf update changes exactly the addressed leaf (`tree_set_get` / `tree_set_other`) -/
theorem tree_set_leaves (H : Hash2) (d : Nat) (t : CTree) (p : List Bool) (c : Chunk)
    (hp : CTree.Perfect d t) (hl : p.length = d) :
    (t.setLeaf H p c).leaves = t.leaves.set (CTree.pathIndex p) c :=
  leaves_set H d t p c hp hl

/-! ## Non-vacuity -/

def xorH : Hash2 := fun a b => (a.zip b).map fun (x, y) => x ^^^ (y + 1)

example : merkleize xorH [[1], [2], [3]] 2 = merkleizeSpec xorH [[1], [2], [3]] 2 := by decide
example : ([[1], [2], [3]] : List Chunk).length ≤ 2 ^ 2 := by decide
example : (CTree.build xorH 2 [[1], [2], [3], [4]]).Valid xorH := build_valid _ _ _
example : ((CTree.build xorH 2 [[1], [2], [3], [4]]).setLeaf xorH [true, false] [9]).leaves = [[1], [2], [9], [4]] := by
  decide

end Zrnt.Proofs.C05
