import Zrnt.SSZ.Merkle
/-! # C05 — hash-tree-roots agree across struct form, view form and the SSZ spec (under construction) -/
namespace Zrnt.Proofs.C05
open Zrnt.SSZ

/-- mixing in the length is one application of the two-to-one hash -/
theorem mixInLength_def (H : Hash2) (r : Chunk) (n : Nat) : mixInLength H r n = H r (natToLE 32 n) := rfl

end Zrnt.Proofs.C05
