import Proofs.Lemmas.SSZTree
import Proofs.Lemmas.SSZHtrSpec
import Proofs.Lemmas.SSZBacking
import Proofs.Lemmas.SSZLeaf
import Proofs.Lemmas.SSZLeafImpl
import Proofs.Lemmas.SSZCanonical
import Zrnt.Gen.SszFacts
import Zrnt.Gen.SszRoot
import Proofs.Lemmas.SSZDenoteLeaf
/-!
# C05 — hash-tree-roots agree across struct form, view form and the SSZ specification

`Zrnt.SSZ.htr` is `hash_tree_root` of simple-serialize.md at a schema, parametric in the two-to-one hash `H`
(no theorem depends on `H` being SHA-256). The Go struct form and the Go tree-view form are tied to it by the
differential run of every type/value (mode `ssz`: struct root = view root = `htr` at the specification
schema) and, for tree-backed states, by the mutation-sequence run (mode `sszstate`).

What is proved here:
* the algorithm that actually runs (`merkleize`: level by level, zero hashes instead of zero subtrees) is the
  specification's `merkleize(chunks, limit)` — pad with zero chunks to the next power of two, hash the tree;
* padding/limit lemmas, length mix-in injectivity up to a collision of `H`;
* in the persistent cached tree model there is no stale hash: after any sequence of `setLeaf` the cached root
  equals the root of the same leaves built from scratch, and `setLeaf` changes exactly the addressed leaf.

Partial (stated in the evidence): ztyp's in-memory caching and pointer sharing are runtime behaviour of a
dependency; `tree_root_after_sets` is about the model, the real trees are covered by the mutation-sequence
correspondence only.
-/
namespace Zrnt.Proofs.C05
open Zrnt.SSZ Zrnt.Proofs.SSZ

/-- **merkleize = the specification's merkleize** for every chunk list within the limit `2^d`. -/
theorem merkleize_eq_spec (H : Hash2) (cs : List Chunk) (d : Nat) (h : cs.length ≤ 2 ^ d) :
    merkleize H cs d = merkleizeSpec H cs d :=
  merkleize_eq_merkleizeSpec H cs d h

/-- explicit zero chunks behind the data do not change the root (virtual padding = real padding) -/
theorem merkleize_pad_zero (H : Hash2) (cs : List Chunk) (k d : Nat) (h : cs.length + k ≤ 2 ^ d) :
    merkleize H (cs ++ List.replicate k zeroChunk) d = merkleize H cs d :=
  merkleize_append_zero H cs k d h

/-- `H` has a collision: two different input pairs with the same output -/
def Collides (H : Hash2) : Prop := ∃ a b a' b', (a, b) ≠ (a', b') ∧ H a b = H a' b'

/-- the length mix-in is injective in (root, length) unless `H` collides -/
theorem mixInLength_inj (H : Hash2) (r r' : Chunk) (n n' : Nat) (hn : n < 2 ^ 256) (hn' : n' < 2 ^ 256)
    (h : mixInLength H r n = mixInLength H r' n') : (r = r' ∧ n = n') ∨ Collides H := by
  unfold mixInLength at h
  by_cases hc : r = r' ∧ natToLE 32 n = natToLE 32 n'
  · left
    refine ⟨hc.1, ?_⟩
    have e : (256 : Nat) ^ 32 = 2 ^ 256 := by decide
    have h1 := leToNat_natToLE 32 n (by omega)
    have h2 := leToNat_natToLE 32 n' (by omega)
    rw [hc.2] at h1
    omega
  · right
    refine ⟨r, natToLE 32 n, r', natToLE 32 n', ?_, h⟩
    intro he
    apply hc
    exact ⟨(Prod.mk.inj he).1, (Prod.mk.inj he).2⟩

/-- The root of a decoded byte string is a function of the bytes and the schema alone: what the struct form,
the view form and the specification compute for the same bytes can only differ if one of them is not `htr`
at that schema (which is what the correspondence run compares). -/
theorem htr_determined_by_bytes (H : Hash2) (t : Ty) (bs : Bytes) (v w : Val)
    (hv : decode t bs = some v) (hw : decode t bs = some w) : htr H t v = htr H t w := by
  rw [hv] at hw; cases hw; rfl

/-- **`htr` = the specification's `hash_tree_root`.** On every well-typed value of every type the executable
`htr` (level-by-level merkleization that never materialises the zero padding, so that `List[Validator, 2^40]`
is feasible) equals `htrSpec`, the same recursion over the schema with the literal `merkleize(chunks, limit)`
of simple-serialize.md (pad with zero chunks to `next_pow_of_two(limit)` leaves, hash the perfect tree):
packing of basic elements, chunk-count limits, field order, and length mix-ins are shared by construction. -/
theorem htr_eq_spec (H : Hash2) (t : Ty) (v : Val) (hw : WF t v) : htr H t v = htrSpec H t v :=
  htr_eq_htrSpec H t v hw

/-- in particular for whatever the strict decoder accepts -/
theorem htr_eq_spec_of_decode (H : Hash2) (t : Ty) (bs : Bytes) (v : Val) (h : decode t bs = some v) :
    htr H t v = htrSpec H t v :=
  htr_eq_htrSpec H t v (decode_some_aux t bs v h).1

open Zrnt.Schema Zrnt.Schema.Facts Zrnt.Gen.SszFacts in
/-- **Struct form and view form against the schema** (facts regenerated from /repo, module `Zrnt.Gen.SszRoot`): for every
Go SSZ type, the `HashTreeRoot` body merkleizes the struct's fields in the schema's order (`hFn.HashTreeRoot`; the
struct declaration has the schema's fields with the schema's field types), resp. the list/vector/bitfield with the
schema's limit and the helper that packs the schema's element type (`ComplexListHTR`/`Uint64ListHTR`/`Uint8ListHTR`/
`BitListHTR`/`ByteListHTR`/…); and every tree-view type definition (`XType`: `ContainerType`, `ListType`,
`VectorType`, `BitListType` …, field order, element types, limit expressions) denotes the specification schema — for
all configurations. This is the `.root` part of `Zrnt.Schema.Facts.checkType`; the four encoding methods are the
`.codec` part (C04's `ssz_methods_agree`, module `Zrnt.Gen.SszCodec`), json/yaml tags a third table (C04): a method body
that stops agreeing is charged to the property that speaks about that method. -/
theorem htr_struct_and_view_agree_with_schema :
    ∀ T ∈ types, T.name ∉ knownDeviations.map (·.1) → checkType owners views .root T = none := by
  intro T h hdev
  have hrow := List.all_eq_true.mp Zrnt.Gen.SszRoot.all_rows_ok T h
  unfold rowOk at hrow
  cases hc : checkType owners views .root T with
  | none => rfl
  | some r =>
    exfalso
    simp only [hc, List.any_eq_true, Bool.and_eq_true, beq_iff_eq] at hrow
    obtain ⟨d, hd, hn, _⟩ := hrow
    exact hdev (hn ▸ List.mem_map_of_mem hd)

/-! ## What a checked row means for `HashTreeRoot`: the Go method computes the specification's `hash_tree_root` -/

open Zrnt.Schema Zrnt.Schema.Facts Zrnt.Gen.SszFacts in
/-- no `HashTreeRoot` body of the regenerated table is outside the recognised shapes -/
theorem no_opaque_root_bodies : types.all (fun T => !T.hashTreeRoot.isOpaque) = true := by decide +kernel

open Zrnt.Schema Zrnt.Schema.Facts Zrnt.Gen.SszFacts in
theorem root_not_opaque (T : GoType) (hT : T ∈ types) : T.hashTreeRoot.isOpaque = false := by
  simpa using List.all_eq_true.mp no_opaque_root_bodies T hT

open Zrnt.Schema Zrnt.Schema.Facts Zrnt.Gen.SszFacts in
/-- **`HashTreeRoot` of struct types.** For a row whose schema is a container, with field implementations that meet the
specification (compositional hypothesis `EnvOk`, as in C04's `checkType_sound_struct`): the model of
`hFn.HashTreeRoot(fields…)` over the fields in the order the body lists them is `hash_tree_root` of the container. -/
theorem checkType_root_struct (H : Hash2) (c : Config) (env : Env) (T : GoType) (hT : T ∈ types)
    (hdev : T.name ∉ knownDeviations.map (·.1)) (sfs : SFields) (fields : List GoField)
    (hschema : Spec.lookup T.name = some (.container sfs)) (hdecl : T.decl = .struct fields)
    (henv : EnvOk H c env fields) :
    structRoot H env fields T.hashTreeRoot = some (htr H ((STy.container sfs).eval c)) := by
  obtain ⟨hs, hroot⟩ := extract_struct_root owners views T sfs fields (htr_struct_and_view_agree_with_schema T hT hdev) hschema hdecl
  exact structRoot_sound H c owners views env fields sfs hs henv _ (root_not_opaque T hT) hroot

open Zrnt.Schema Zrnt.Schema.Facts Zrnt.Gen.SszFacts in
/-- **`HashTreeRoot` of list wrapper types**: `ComplexListHTR / Uint64ListHTR / Uint8ListHTR(…, limit)` with the limit
expression of the body evaluated under `c` is `hash_tree_root` of `List[elem, limit]` — the limit is the schema's under
every configuration and the packing helper fits the element type. -/
theorem checkType_root_list (H : Hash2) (c : Config) (T : GoType) (hT : T ∈ types)
    (hdev : T.name ∉ knownDeviations.map (·.1)) (elem : STy) (lim : LExpr)
    (hschema : Spec.lookup T.name = some (.list elem lim)) :
    listRoot H c (specImpl H (elem.eval c)) T.hashTreeRoot = some (htr H ((STy.list elem lim).eval c)) := by
  have hroot := extract_list_root owners views T elem lim (htr_struct_and_view_agree_with_schema T hT hdev) hschema
  exact listRoot_sound H c owners views elem lim _ (root_not_opaque T hT) hroot

open Zrnt.Schema Zrnt.Schema.Facts Zrnt.Gen.SszFacts in
/-- **`HashTreeRoot` of vector types**: `ComplexVectorHTR / ChunksHTR / Uint64VectorHTR(…, len)` — a length the body takes
from the receiver (`len(a)`) is the receiver's — is `hash_tree_root` of `Vector[elem, len]` on every well-typed value. -/
theorem checkType_root_vector (H : Hash2) (c : Config) (T : GoType) (hT : T ∈ types)
    (hdev : T.name ∉ knownDeviations.map (·.1)) (elem : STy) (len : LExpr)
    (hschema : Spec.lookup T.name = some (.vector elem len)) :
    ∃ r, vecRoot H c (specImpl H (elem.eval c)) T.hashTreeRoot = some r ∧
      ∀ v, WF ((STy.vector elem len).eval c) v → r v = htr H ((STy.vector elem len).eval c) v := by
  have hroot := extract_vector_root owners views T elem len (htr_struct_and_view_agree_with_schema T hT hdev) hschema
  exact vecRoot_sound H c owners views elem len _ (root_not_opaque T hT) hroot

open Zrnt.Schema Zrnt.Schema.Facts Zrnt.Gen.SszFacts in
/-- **`HashTreeRoot` of bit fields and byte lists** (the Go value is the byte string): the byte-level models of
`BitListHTR / BitVectorHTR / ByteListHTR(…, limit)` resp. a hand-written tree over the bytes, with the limit of the
body evaluated under `c`, compute `hash_tree_root` at the schema on the encoding of every well-typed value. -/
theorem checkType_root_bitfield (H : Hash2) (c : Config) (T : GoType) (hT : T ∈ types)
    (hdev : T.name ∉ knownDeviations.map (·.1)) (lim : LExpr) (sty : STy)
    (hkind : sty = .bitlist lim ∨ sty = .bitvector lim ∨ sty = .byteList lim)
    (hschema : Spec.lookup T.name = some sty) :
    ∃ r, leafRoot H c T.hashTreeRoot = some r ∧ LeafRootMeets H (sty.eval c) r := by
  have o5 := root_not_opaque T hT
  rcases hkind with rfl | rfl | rfl
  · exact bitlist_root_sound H c owners views lim T o5
      (extract_bitlist_root owners views T lim (htr_struct_and_view_agree_with_schema T hT hdev) hschema)
  · exact bitvector_root_sound H c owners views lim T o5
      (extract_bitvector_root owners views T lim (htr_struct_and_view_agree_with_schema T hT hdev) hschema)
  · exact bytelist_root_sound H c owners views lim T o5
      (extract_byteList_root owners views T lim (htr_struct_and_view_agree_with_schema T hT hdev) hschema)

open Zrnt.Schema Zrnt.Schema.Facts Zrnt.Gen.SszFacts in
/-- **`HashTreeRoot` of leaf types** (integer aliases, byte arrays): the padded little-endian chunk resp. the
hand-written tree over the array's 32-byte slices (`handwritten_htr_sound`) is `hash_tree_root` at the schema. -/
theorem checkType_root_leaf (H : Hash2) (c : Config) (T : GoType) (hT : T ∈ types)
    (hdev : T.name ∉ knownDeviations.map (·.1)) (sty : STy)
    (hkind : (∃ k, sty = .uint k) ∨ (∃ e, sty = .bytesN e))
    (hschema : Spec.lookup T.name = some sty) :
    ∃ r, leafRoot H c T.hashTreeRoot = some r ∧ LeafRootMeets H (sty.eval c) r := by
  have o5 := root_not_opaque T hT
  rcases hkind with ⟨k, rfl⟩ | ⟨e, rfl⟩
  · exact uint_root_sound H c owners views k T o5
      (extract_uint_root owners views T k (htr_struct_and_view_agree_with_schema T hT hdev) hschema)
  · exact bytesN_root_sound H c owners views e T o5
      (extract_bytesN_root owners views T e (htr_struct_and_view_agree_with_schema T hT hdev) hschema)

open Zrnt.Schema Zrnt.Schema.Facts Zrnt.Gen.SszFacts in
/-- the five root theorems cover every row of the regenerated table -/
theorem root_soundness_covers_all_rows : types.all rowKindCovered = true := by decide +kernel

/-! ## The persistent tree behind the views: no stale caches (model) -/

/-- apply a sequence of leaf updates -/
def setMany (H : Hash2) (t : CTree) : List (List Bool × Chunk) → CTree
  | [] => t
  | (p, c) :: ops => setMany H (t.setLeaf H p c) ops

theorem setMany_valid (H : Hash2) (t : CTree) (ops : List (List Bool × Chunk)) (hv : t.Valid H) :
    (setMany H t ops).Valid H := by
  induction ops generalizing t with
  | nil => exact hv
  | cons o ops ih => exact ih _ (set_valid H t o.1 o.2 hv)

theorem setMany_perfect (H : Hash2) (d : Nat) (t : CTree) (ops : List (List Bool × Chunk)) (hp : CTree.Perfect d t) :
    CTree.Perfect d (setMany H t ops) := by
  induction ops generalizing t with
  | nil => exact hp
  | cons o ops ih => exact ih _ (set_perfect H d t o.1 o.2 hp)

/-- **No stale cached hash.** After any sequence of leaf updates on a tree built with valid caches, the root
the tree reports from its cache equals the root of the same leaves built from scratch (and equals the
specification's tree root over the current leaf list). -/
theorem tree_root_after_sets (H : Hash2) (d : Nat) (cs : List Chunk) (ops : List (List Bool × Chunk)) :
    let t := setMany H (CTree.build H d cs) ops
    t.cachedRoot = (CTree.build H d t.leaves).cachedRoot ∧ t.cachedRoot = treeRoot H d t.leaves := by
  intro t
  have hv : t.Valid H := setMany_valid H _ ops (build_valid H d cs)
  have hp : CTree.Perfect d t := setMany_perfect H d _ ops (build_perfect H d cs)
  have h1 : t.cachedRoot = t.rehash H := valid_hash H t hv
  have h2 := rehash_build_leaves H d t hp
  have h3 := valid_hash H _ (build_valid H d t.leaves)
  refine ⟨by rw [h1, h3, h2], ?_⟩
  rw [h1, ← h2, rehash_build]

/-- a leaf update changes exactly the addressed leaf (`tree_set_get` / `tree_set_other`) -/
theorem tree_set_leaves (H : Hash2) (d : Nat) (t : CTree) (p : List Bool) (c : Chunk)
    (hp : CTree.Perfect d t) (hl : p.length = d) :
    (t.setLeaf H p c).leaves = t.leaves.set (CTree.pathIndex p) c :=
  leaves_set H d t p c hp hl

/-! ## Hand-written merkleization of byte arrays

`BLSPubkey`, `BLSSignature`, `KZGCommitment`, `LogsBloom`, `Version`, `Eth1Address`, … compute their root with
bespoke code: slices of the array are copied into zeroed 32-byte roots and combined with `hFn` by hand. The
extractor records that code as a tree (`Zrnt.Schema.Facts.HT`); `checkType` accepts the tree only if it is the
perfect tree of depth `ceil(log2(ceil(n/32)))` whose leaves are the consecutive 32-byte slices followed by
zero roots (`htOk`). -/

open Zrnt.Schema.Facts in
/-- **A hand-written hash tree accepted by the facts check is `hash_tree_root` of `Vector[byte, n]`.** -/
theorem handwritten_htr_sound (H : Hash2) (n : Nat) (t : HT) (bs : Bytes) (hok : htOk n t = true) (hn : bs.length = n) :
    htEval H bs t = htr H (.bytesN n) (.bytes bs) :=
  htOk_sound H n t bs hok hn

open Zrnt.Schema.Facts in
/-- e.g. `BLSSignature.HashTreeRoot`: `hFn(hFn(s[0:32], s[32:64]), hFn(s[64:96], Root{}))` -/
example : htOk 96 (.node (.node (.leaf 0 32) (.leaf 32 64)) (.node (.leaf 64 96) .zero)) = true := by decide +kernel
open Zrnt.Schema.Facts in
/-- a tree that forgets the zero sibling, or swaps two slices, is refused -/
example : htOk 96 (.node (.node (.leaf 0 32) (.leaf 32 64)) (.leaf 64 96)) = false ∧
    htOk 48 (.node (.leaf 32 48) (.leaf 0 32)) = false := by decide +kernel

/-! ## ztyp's packing helpers at the level of bytes

The bit fields, byte lists and integer lists of zrnt are hashed by ztyp helpers that work on the raw Go
representation (`[]byte`, resp. a `func(i) uint64`). `Zrnt.SSZ.Impl` models each helper at that level — chunking of
the raw bytes, the masked delimiter bit, the chunk limit computed with shifts, the mixed-in length read off the raw
bytes — and the theorems below identify them with `htr` on the encoding of every value. These are the `root`
functions `checkType_root_bitfield` / `_leaf` / `_vector` / `_list` above attach to the rows that call them. -/

/-- **`BitListHTR(bits, limit)`**: on the raw bytes of any bitlist (data bits, delimiter bit, zero padding) — length
from `BitlistLen` (position of the highest set bit of the last byte), payload cut to `ceil(len/8)` bytes with the
delimiter bit cleared, chunk limit `(limit + 255) >> 8`, length mixed in — is `hash_tree_root` of `Bitlist[limit]`. -/
theorem bitlist_htr_bytes (H : Hash2) (lim : Nat) (bits : List Bool) :
    goBitListRoot H lim (encode (.bitlist lim) (.bits bits)) = htr H (.bitlist lim) (.bits bits) :=
  bitListRoot_spec H lim bits

/-- **`BitVectorHTR(bits)`**: `Merkleize` over `ceil(len(bits)/32)` chunks of the raw bytes is `hash_tree_root` of
`Bitvector[n]` (whose chunk count is `ceil(n/256)`). -/
theorem bitvector_htr_bytes (H : Hash2) (n : Nat) (bits : List Bool) :
    goBytesRoot H (encode (.bitvector n) (.bits bits)) = htr H (.bitvector n) (.bits bits) :=
  bytesRoot_bitvector H n bits

/-- **`ByteListHTR(values, limit)`**: chunk limit `(limit + 31) / 32`, byte length mixed in. -/
theorem bytelist_htr_bytes (H : Hash2) (lim : Nat) (raw : Bytes) :
    goByteListRoot H lim raw = htr H (.byteList lim) (.bytes raw) :=
  byteListRoot_spec H lim raw

/-- **`Uint64ListHTR(value, length, limit)`**: chunk `i` = items `4i..4i+3` (below `length`) little-endian in a zeroed
root, `(length + 3) >> 2` chunks, chunk limit `(limit + 3) >> 2`, `length` mixed in — is `hash_tree_root` of
`List[uint64, limit]`; in particular the chunks are `pack` of the serialization. -/
theorem uint64list_htr_chunks (H : Hash2) (lim : Nat) (ns : List Nat) :
    goUint64Chunks ns = pack (ns.flatMap (natToLE 8)) ∧
    goUint64ListRoot H lim ns = htr H (.list (.uint 8) lim) (.seq (ns.map .num)) :=
  ⟨uint64Chunks_eq_pack ns, uint64ListRoot_spec H lim ns⟩

/-- **`Uint64VectorHTR(value, length)`** likewise, without length mix-in. -/
theorem uint64vector_htr_chunks (H : Hash2) (n : Nat) (ns : List Nat) :
    goUint64VectorRoot H n ns = htr H (.vector (.uint 8) n) (.seq (ns.map .num)) :=
  uint64VectorRoot_spec H n ns

/-! ## The three hand-built backings denote the tree of the typed value

zrnt installs three subtrees without going through the typed view API: `SeedRandao` (all mixes = the seed),
`ParticipationRegistryView.FillZeroes` (all flags zero) — both through ztyp's `SubtreeFillToLength`, modelled
by `CTree.fillToLength` — and the rotation of the pending attestations / participation registries through
`SetBacking` (a subtree of the state is replaced by another subtree). -/

/-- **`SeedRandao`**: the vector backing built by `SubtreeFillToLength(seed, CoverDepth(n), n)` has valid caches
and reports the hash-tree-root of `Vector[Bytes32, n]` holding `n` copies of the seed. -/
theorem seedRandao_eq (H : Hash2) (seed : Bytes) (hs : seed.length = 32) (n : Nat) (hn : 0 < n) :
    let t := CTree.fillToLength H seed (ceilLog2 n) n
    t.Valid H ∧ t.cachedRoot = htr H (.vector (.bytesN 32) n) (.seq (List.replicate n (.bytes seed))) := by
  refine ⟨fillToLength_valid H seed _ n, ?_⟩
  rw [fillToLength_root H seed _ n hn (le_two_pow_ceilLog2 n)]
  have hleaf : htr H (.bytesN 32) (.bytes seed) = seed := by
    have hp : pack seed = [seed] := by
      simp [pack, hs, packN, padTo32, List.take_of_length_le (Nat.le_of_eq hs)]
    simp only [htr, hp]
    simp [merkleize, merkleizeFrom, chunkCount, ceilLog2]
  have hvec : htr H (.vector (.bytesN 32) n) (.seq (List.replicate n (.bytes seed)))
      = merkleize H (List.replicate n seed) (ceilLog2 n) := by
    simp only [htr, Ty.isBasic, Bool.false_eq_true, ↓reduceIte, List.map_replicate]
    have hleaf' : merkleize H (pack seed) (ceilLog2 (chunkCount 32 1)) = seed := by simpa [htr] using hleaf
    rw [hleaf']
  rw [hvec, merkleize_eq_merkleizeSpec H _ _ (by simpa using le_two_pow_ceilLog2 n)]

/-- **`FillZeroes(length)`**: the list backing `Pair(SubtreeFillToLength(zero, depth, ceil(length/32)), length)`
reports the hash-tree-root of `List[uint8, limit]` holding `length` zero flags (`0 < length ≤ limit`;
`length = 0` is outside the domain of `SubtreeFillToLength`, see the fix of `FillZeroes(0)`). -/
theorem fillZeroes_eq (H : Hash2) (lim length : Nat) (h0 : 0 < length) (hl : length ≤ lim) :
    mixInLength H (CTree.fillToLength H zeroChunk (ceilLog2 (chunkCount lim 1)) ((length + 31) / 32)).cachedRoot length
      = htr H (.list (.uint 1) lim) (.seq (List.replicate length (.num 0))) := by
  have hnodes : (length + 31) / 32 ≤ 2 ^ ceilLog2 (chunkCount lim 1) := by
    apply two_pow_mono
    unfold chunkCount
    omega
  rw [fillToLength_root H zeroChunk _ _ (by omega) hnodes]
  have henc : ((List.replicate length (Val.num 0)).map (encode (.uint 1))).flatten = List.replicate length (0 : UInt8) := by
    simp [encode, natToLE, List.map_replicate]
  simp only [htr, Ty.isBasic, ↓reduceIte, henc, List.length_replicate, Ty.fixedLen, Ty.fixedLen?, Option.getD_some]
  congr 1
  rw [merkleize_eq_merkleizeSpec H _ _ (by rw [pack_length]; simpa using hnodes)]
  congr 1
  simp only [pack, List.length_replicate]
  exact (packN_zeros _ length (by omega)).symm

/-- **Rotation through `SetBacking`**: replacing, in the tree over the field roots of a state, the root at
position `i` by the root at position `j` and the root at position `j` by the root `fresh` of a freshly built
subtree (what `ProcessParticipationRecordUpdates` / `ProcessParticipationFlagUpdates` do with
`previous := current; current := empty`) leaves valid caches, and the reported state root is the root over
the rotated field-root list, i.e. the container root of the rotated value. -/
theorem rotation_eq (H : Hash2) (d : Nat) (roots : List Chunk) (pi pj : List Bool) (cur fresh : Chunk) :
    let t := setMany H (CTree.build H d roots) [(pi, cur), (pj, fresh)]
    t.Valid H ∧ t.cachedRoot = treeRoot H d t.leaves ∧
      (pi.length = d → pj.length = d →
        t.leaves = (((CTree.build H d roots).leaves.set (CTree.pathIndex pi) cur).set (CTree.pathIndex pj) fresh)) := by
  intro t
  refine ⟨setMany_valid H _ _ (build_valid H d roots), (tree_root_after_sets H d roots _).2, ?_⟩
  intro hi hj
  have hp := build_perfect H d roots
  show (((CTree.build H d roots).setLeaf H pi cur).setLeaf H pj fresh).leaves = _
  rw [leaves_set H d _ pj fresh (set_perfect H d _ pi cur hp) hj, leaves_set H d _ pi cur hp hi]

/-! ## Non-vacuity -/

def xorH : Hash2 := fun a b => (a.zip b).map fun (x, y) => x ^^^ (y + 1)

example : merkleize xorH [[1], [2], [3]] 2 = merkleizeSpec xorH [[1], [2], [3]] 2 := by decide
example : ([[1], [2], [3]] : List Chunk).length ≤ 2 ^ 2 := by decide
example : (CTree.build xorH 2 [[1], [2], [3], [4]]).Valid xorH := build_valid _ _ _
example : ((CTree.build xorH 2 [[1], [2], [3], [4]]).setLeaf xorH [true, false] [9]).leaves = [[1], [2], [9], [4]] := by
  decide

/-- the byte-level bitlist root on concrete raw bytes: 9 bits `1,0,1,0,0,0,0,0,1` + delimiter = `0x05 0x03` -/
example : goBitlistLen [0x05, 0x03] = 9 ∧ goBitlistPayload [0x05, 0x03] = [0x05, 0x01] := by decide
/-- a multiple of 8 bits: the delimiter byte disappears from the payload -/
example : goBitlistLen [0xff, 0x01] = 8 ∧ goBitlistPayload [0xff, 0x01] = [0xff] := by decide
example : (goUint64Chunks [1, 2, 3, 4, 5]).length = 2 := by decide

end Zrnt.Proofs.C05
