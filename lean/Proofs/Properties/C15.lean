import Zrnt.State.Accessors
/-!
# C15 — state accessors are exact and state copies are independent

The facts `Zrnt.Gen.StateFacts` are **regenerated from the Go source on every run** (tie R-fact:
`go/cmd/extract/statefacts.go`): for every container view type of eth2/beacon (the beacon state of each
fork and the typed sub-views) the ContainerType field list, the iota index constants and, per method,
every positional access `Get(i)` / `Set(i, v)` / `Fields[i]` / `values[i]` with the wrapper applied.
The expectations (`specFields`, `accessorField`, `wrapOk`, `setOk`, `constName`) are hand-written in
`Zrnt/State/Accessors.lean`. One `decide` obligation per view type (`view_ok_*`), lifted to the quantified
theorems by a membership case split; `#eval Zrnt.State.report` names an offending accessor.

On the tree as found `subview_positions_correct` was false: `CheckpointView.Root` read field 0 (the
epoch) through `AsRoot` and so always failed (also shown on the real code by mode c15);
/repo commit eb1dea3 repairs it.
-/
namespace Zrnt.Proofs.C15
open Zrnt.State Zrnt.Gen.StateFacts

/-! ## one obligation per view type (regenerated definitions on the left of every `decide`) -/

theorem view_ok_common_BLSToExecutionChangeView : fieldsOk common_BLSToExecutionChangeView = true ∧ constsOk common_BLSToExecutionChangeView = true ∧ viewOk common_BLSToExecutionChangeView = true := by decide +kernel
theorem view_ok_common_BeaconBlockHeaderView : fieldsOk common_BeaconBlockHeaderView = true ∧ constsOk common_BeaconBlockHeaderView = true ∧ viewOk common_BeaconBlockHeaderView = true := by decide +kernel
theorem view_ok_common_CheckpointView : fieldsOk common_CheckpointView = true ∧ constsOk common_CheckpointView = true ∧ viewOk common_CheckpointView = true := by decide +kernel
theorem view_ok_common_Eth1DataView : fieldsOk common_Eth1DataView = true ∧ constsOk common_Eth1DataView = true ∧ viewOk common_Eth1DataView = true := by decide +kernel
theorem view_ok_common_ForkView : fieldsOk common_ForkView = true ∧ constsOk common_ForkView = true ∧ viewOk common_ForkView = true := by decide +kernel
theorem view_ok_common_SignedBLSToExecutionChangeView : fieldsOk common_SignedBLSToExecutionChangeView = true ∧ constsOk common_SignedBLSToExecutionChangeView = true ∧ viewOk common_SignedBLSToExecutionChangeView = true := by decide +kernel
theorem view_ok_common_SyncCommitteeView : fieldsOk common_SyncCommitteeView = true ∧ constsOk common_SyncCommitteeView = true ∧ viewOk common_SyncCommitteeView = true := by decide +kernel
theorem view_ok_common_WithdrawalView : fieldsOk common_WithdrawalView = true ∧ constsOk common_WithdrawalView = true ∧ viewOk common_WithdrawalView = true := by decide +kernel
theorem view_ok_phase0_AttestationDataView : fieldsOk phase0_AttestationDataView = true ∧ constsOk phase0_AttestationDataView = true ∧ viewOk phase0_AttestationDataView = true := by decide +kernel
theorem view_ok_phase0_BeaconStateView : fieldsOk phase0_BeaconStateView = true ∧ constsOk phase0_BeaconStateView = true ∧ viewOk phase0_BeaconStateView = true := by decide +kernel
theorem view_ok_phase0_HistoricalBatchView : fieldsOk phase0_HistoricalBatchView = true ∧ constsOk phase0_HistoricalBatchView = true ∧ viewOk phase0_HistoricalBatchView = true := by decide +kernel
theorem view_ok_phase0_PendingAttestationView : fieldsOk phase0_PendingAttestationView = true ∧ constsOk phase0_PendingAttestationView = true ∧ viewOk phase0_PendingAttestationView = true := by decide +kernel
theorem view_ok_phase0_ValidatorView : fieldsOk phase0_ValidatorView = true ∧ constsOk phase0_ValidatorView = true ∧ viewOk phase0_ValidatorView = true := by decide +kernel
theorem view_ok_altair_BeaconStateView : fieldsOk altair_BeaconStateView = true ∧ constsOk altair_BeaconStateView = true ∧ viewOk altair_BeaconStateView = true := by decide +kernel
theorem view_ok_altair_ContributionAndProofView : fieldsOk altair_ContributionAndProofView = true ∧ constsOk altair_ContributionAndProofView = true ∧ viewOk altair_ContributionAndProofView = true := by decide +kernel
theorem view_ok_altair_SignedContributionAndProofView : fieldsOk altair_SignedContributionAndProofView = true ∧ constsOk altair_SignedContributionAndProofView = true ∧ viewOk altair_SignedContributionAndProofView = true := by decide +kernel
theorem view_ok_altair_SyncAggregateView : fieldsOk altair_SyncAggregateView = true ∧ constsOk altair_SyncAggregateView = true ∧ viewOk altair_SyncAggregateView = true := by decide +kernel
theorem view_ok_altair_SyncCommitteeContributionView : fieldsOk altair_SyncCommitteeContributionView = true ∧ constsOk altair_SyncCommitteeContributionView = true ∧ viewOk altair_SyncCommitteeContributionView = true := by decide +kernel
theorem view_ok_altair_SyncCommitteeMessageView : fieldsOk altair_SyncCommitteeMessageView = true ∧ constsOk altair_SyncCommitteeMessageView = true ∧ viewOk altair_SyncCommitteeMessageView = true := by decide +kernel
theorem view_ok_bellatrix_BeaconStateView : fieldsOk bellatrix_BeaconStateView = true ∧ constsOk bellatrix_BeaconStateView = true ∧ viewOk bellatrix_BeaconStateView = true := by decide +kernel
theorem view_ok_bellatrix_ExecutionPayloadHeaderView : fieldsOk bellatrix_ExecutionPayloadHeaderView = true ∧ constsOk bellatrix_ExecutionPayloadHeaderView = true ∧ viewOk bellatrix_ExecutionPayloadHeaderView = true := by decide +kernel
theorem view_ok_bellatrix_ExecutionPayloadView : fieldsOk bellatrix_ExecutionPayloadView = true ∧ constsOk bellatrix_ExecutionPayloadView = true ∧ viewOk bellatrix_ExecutionPayloadView = true := by decide +kernel
theorem view_ok_capella_BeaconStateView : fieldsOk capella_BeaconStateView = true ∧ constsOk capella_BeaconStateView = true ∧ viewOk capella_BeaconStateView = true := by decide +kernel
theorem view_ok_capella_ExecutionPayloadHeaderView : fieldsOk capella_ExecutionPayloadHeaderView = true ∧ constsOk capella_ExecutionPayloadHeaderView = true ∧ viewOk capella_ExecutionPayloadHeaderView = true := by decide +kernel
theorem view_ok_capella_ExecutionPayloadView : fieldsOk capella_ExecutionPayloadView = true ∧ constsOk capella_ExecutionPayloadView = true ∧ viewOk capella_ExecutionPayloadView = true := by decide +kernel
theorem view_ok_deneb_BeaconStateView : fieldsOk deneb_BeaconStateView = true ∧ constsOk deneb_BeaconStateView = true ∧ viewOk deneb_BeaconStateView = true := by decide +kernel
theorem view_ok_deneb_ExecutionPayloadHeaderView : fieldsOk deneb_ExecutionPayloadHeaderView = true ∧ constsOk deneb_ExecutionPayloadHeaderView = true ∧ viewOk deneb_ExecutionPayloadHeaderView = true := by decide +kernel
theorem view_ok_deneb_ExecutionPayloadView : fieldsOk deneb_ExecutionPayloadView = true ∧ constsOk deneb_ExecutionPayloadView = true ∧ viewOk deneb_ExecutionPayloadView = true := by decide +kernel
theorem view_ok_electra_BeaconStateView : fieldsOk electra_BeaconStateView = true ∧ constsOk electra_BeaconStateView = true ∧ viewOk electra_BeaconStateView = true := by decide +kernel

theorem all_views_ok : ∀ v ∈ views, fieldsOk v = true ∧ constsOk v = true ∧ viewOk v = true := by
  intro v hv
  simp only [views, List.mem_cons, List.mem_nil_iff, or_false] at hv
  rcases hv with rfl | rfl | rfl | rfl | rfl | rfl | rfl | rfl | rfl | rfl | rfl | rfl | rfl | rfl | rfl | rfl | rfl | rfl | rfl | rfl | rfl | rfl | rfl | rfl | rfl | rfl | rfl | rfl | rfl
  · exact view_ok_common_BLSToExecutionChangeView
  · exact view_ok_common_BeaconBlockHeaderView
  · exact view_ok_common_CheckpointView
  · exact view_ok_common_Eth1DataView
  · exact view_ok_common_ForkView
  · exact view_ok_common_SignedBLSToExecutionChangeView
  · exact view_ok_common_SyncCommitteeView
  · exact view_ok_common_WithdrawalView
  · exact view_ok_phase0_AttestationDataView
  · exact view_ok_phase0_BeaconStateView
  · exact view_ok_phase0_HistoricalBatchView
  · exact view_ok_phase0_PendingAttestationView
  · exact view_ok_phase0_ValidatorView
  · exact view_ok_altair_BeaconStateView
  · exact view_ok_altair_ContributionAndProofView
  · exact view_ok_altair_SignedContributionAndProofView
  · exact view_ok_altair_SyncAggregateView
  · exact view_ok_altair_SyncCommitteeContributionView
  · exact view_ok_altair_SyncCommitteeMessageView
  · exact view_ok_bellatrix_BeaconStateView
  · exact view_ok_bellatrix_ExecutionPayloadHeaderView
  · exact view_ok_bellatrix_ExecutionPayloadView
  · exact view_ok_capella_BeaconStateView
  · exact view_ok_capella_ExecutionPayloadHeaderView
  · exact view_ok_capella_ExecutionPayloadView
  · exact view_ok_deneb_BeaconStateView
  · exact view_ok_deneb_ExecutionPayloadHeaderView
  · exact view_ok_deneb_ExecutionPayloadView
  · exact view_ok_electra_BeaconStateView


/-! ## the property theorems -/

/-- the ContainerType behind every view has exactly the specification's fields, in the specification's order -/
theorem fields_match_spec : ∀ v ∈ views, fieldsOk v = true := fun v hv => (all_views_ok v hv).1

/-- **Index constants.** In every view type that indexes with an iota block (the six beacon states, the
validator, the execution payload headers and payloads) the i-th constant has value i and is the constant of
the i-th field of the container: no gap, no duplicate, no swap; a trailing `__end` equals the field count. -/
theorem constants_match_container : ∀ v ∈ views, constsOk v = true := fun v hv => (all_views_ok v hv).2.1

/-- **State accessors.** For every fork's beacon state view and every method of it that accesses the
container positionally: the method has a declared expectation, every index it touches is the field its
name denotes (getters: reads only; `RotateSyncCommittee`: exactly read next, write current, write next),
and every read goes through the typed wrapper / every write hands over the value shape that fits the
field's type. -/
theorem accessor_index_correct :
    ∀ v ∈ views, isStateView v = true → ∀ m ∈ v.methods, methodOk v m = true := by
  intro v hv _ m hm
  exact List.all_eq_true.mp (all_views_ok v hv).2.2 m hm

/-- **Typed sub-views** (`CheckpointView`, `ForkView`, `BeaconBlockHeaderView`, `Eth1DataView`,
`ValidatorView`, the three `ExecutionPayloadHeaderView`s, `SyncCommitteeView`, …): every positional
`Get(i)` / `Set(i)` / `values[i]` of every method hits the field the method's name denotes, with a wrapper
of the field's type; `Raw` reads every field once, in order. -/
theorem subview_positions_correct :
    ∀ v ∈ views, isStateView v = false → ∀ m ∈ v.methods, methodOk v m = true := by
  intro v hv _ m hm
  exact List.all_eq_true.mp (all_views_ok v hv).2.2 m hm

/-- the beacon state view of every fork is among the checked views (non-vacuity of the two theorems above) -/
example : (views.filter isStateView).map View.key =
    ["phase0.BeaconStateView", "altair.BeaconStateView", "bellatrix.BeaconStateView", "capella.BeaconStateView",
     "deneb.BeaconStateView", "electra.BeaconStateView"] ∧ (views.filter (fun v => !isStateView v)).length = 23 := by
  decide +kernel

/-! ## the container model: a setter changes its field and nothing else -/

/-- reading the field just written gives the written value -/
theorem get_set_same {α : Type} (r : Rec α) (i : Nat) (v : α) (r' : Rec α) (h : Rec.set r i v = some r') :
    Rec.get r' i = some v := by
  unfold Rec.set at h
  split at h
  · cases h; simp [Rec.get, *]
  · cases h

/-- every other field is unchanged, and so is the number of fields -/
theorem get_set_other {α : Type} (r : Rec α) (i j : Nat) (v : α) (r' : Rec α) (h : Rec.set r i v = some r')
    (hij : i ≠ j) : Rec.get r' j = Rec.get r j ∧ r'.length = r.length := by
  unfold Rec.set at h
  split at h
  · cases h; simp [Rec.get, List.getElem?_set_ne hij]
  · cases h

/-- a write outside the container is refused and changes nothing (`Set` returns an error) -/
theorem set_out_of_range {α : Type} (r : Rec α) (i : Nat) (v : α) (h : r.length ≤ i) : Rec.set r i v = none := by
  unfold Rec.set; simp; omega

example : Rec.set ([10, 20, 30] : Rec Nat) 1 7 = some [10, 7, 30] ∧ Rec.get ([10, 20, 30] : Rec Nat) 1 = some 20 := by decide

/-! ## copies

Full statement (NOT provable about Go objects): after `b := a.CopyState()` (and `EpochsContext.Clone`), no
sequence of operations on `a` changes any observation of `b`, and vice versa. In the model a state is a
*value* and a handle table maps names to values, so the statement holds by construction; what the model
cannot see — ztyp's structural sharing of tree nodes between the two views and Go slice aliasing in the
shallow context clone — is exercised only by the copy experiments of mode c15 (both directions, sibling
copies, full slot/epoch transitions, appends). -/

/-- handle table of the value model -/
abbrev World (α : Type) := String → Option α

def World.copy {α} (w : World α) (a b : String) : World α := fun h => if h = b then w a else w h
def World.mutate {α} (w : World α) (a : String) (f : α → α) : World α := fun h => if h = a then (w a).map f else w h

theorem copy_independent_partial {α : Type} (w : World α) (a b : String) (f g : α → α) (hab : a ≠ b) :
    -- the copy starts equal to the original …
    (w.copy a b) b = w a ∧
    -- … mutating the original leaves the copy as it was, and mutating the copy leaves the original as it was
    ((w.copy a b).mutate a f) b = w a ∧ ((w.copy a b).mutate b g) a = w a ∧
    -- … and any third handle (a sibling copy) is untouched by either
    (∀ c, c ≠ a → c ≠ b → ((w.copy a b).mutate a f) c = w c ∧ ((w.copy a b).mutate b g) c = w c) := by
  have hba : b ≠ a := fun h => hab h.symm
  refine ⟨by simp [World.copy], by simp [World.copy, World.mutate, hba], by simp [World.copy, World.mutate, hab], ?_⟩
  intro c hca hcb
  simp [World.copy, World.mutate, hca, hcb]

/-- an operation of the handle-level model: mutate one handle, or (re)bind a handle to a copy of another -/
inductive CopyOp (α : Type) where
  | mutate (h : String) (f : α → α)
  | copy (src dst : String)

def CopyOp.target {α} : CopyOp α → String
  | .mutate h _ => h
  | .copy _ dst => dst

def World.step {α} (w : World α) : CopyOp α → World α
  | .mutate h f => w.mutate h f
  | .copy a b => w.copy a b

def World.run {α} (w : World α) (ops : List (CopyOp α)) : World α := ops.foldl World.step w

/-- **Non-interference over whole histories (value model).** Whatever sequence of mutations and copies is
applied to *other* handles — the original, sibling copies, copies of copies, in any interleaving — a handle
that is not the target of any of them keeps its value. (`_partial`: see the note above; the Go objects are
only exercised, by the sibling experiments of mode c15.) -/
theorem copy_noninterference_partial {α : Type} (b : String) (ops : List (CopyOp α))
    (h : ∀ op ∈ ops, op.target ≠ b) (w : World α) : (w.run ops) b = w b := by
  induction ops generalizing w with
  | nil => rfl
  | cons op rest ih =>
    have hop : op.target ≠ b := h op (List.mem_cons_self ..)
    have hrest : ∀ o ∈ rest, o.target ≠ b := fun o ho => h o (List.mem_cons_of_mem _ ho)
    show (World.run (w.step op) rest) b = w b
    rw [ih hrest]
    cases op with
    | mutate t f => simp [World.step, World.mutate, CopyOp.target] at hop ⊢; intro e; exact absurd e.symm hop
    | copy a d => simp [World.step, World.copy, CopyOp.target] at hop ⊢; intro e; exact absurd e.symm hop

/-- and the value of a handle is a function of how it was made: two runs that apply the same functions to
the same starting value give the same value, whatever else the two worlds contain -/
theorem value_determined_by_history_partial {α : Type} (w w' : World α) (a a' : String) (fs : List (α → α))
    (h0 : w a = w' a') :
    (w.run (fs.map (CopyOp.mutate a))) a = (w'.run (fs.map (CopyOp.mutate a'))) a' := by
  induction fs generalizing w w' with
  | nil => simpa [World.run] using h0
  | cons f rest ih =>
    simp only [List.map_cons, World.run, List.foldl_cons]
    apply ih
    simp [World.step, World.mutate, h0]

end Zrnt.Proofs.C15
